(* Run/JudgeC01.v — case type and judge for the C01 correspondence run: all five simplifiers on one curve x
   configuration.  Threshold RDP is judged against Model/Rdp.v, the fixed-size family against Model/RdpFixed.v. *)
From Coq Require Import ZArith List Arith Bool PrimFloat.
From Knee Require Import Num NumFloat NpList Model.Mapping Model.Rdp Model.RdpCost Model.RdpFixed Run.RdpTables.
From Knee Require Export Model.RdpCost.
Import ListNotations.

(* evaluation.compute_global_cost(points, S, cost) with a fresh cache, keyed by the index list S *)
Definition gtab := list (list nat * float).
Fixpoint glookup (tab : gtab) (S : list nat) : option float :=
  match tab with
  | [] => None
  | (S', v) :: tab' => if nat_list_eqb S' S then Some v else glookup tab' S
  end.
Definition gcost_of (tab : gtab) (S : list nat) : float := match glookup tab S with Some c => c | None => nan end.
Definition ghas (tab : gtab) (S : list nat) : bool := match glookup tab S with Some _ => true | None => false end.
Definition f_eps : float := 0x1p-52%float.     (* np.finfo(float).eps *)

Definition out_t : Type := option (list nat * list row).
(* what one simplifier did: its return value (None = raised / no return within the time limit / malformed) and the
   number of iterations of each activation of a while loop in rdp.py during the call (sys.monitoring) *)
Inductive res := Res (out : out_t) (iters : list nat).
Definition r_out (r : res) : out_t := match r with Res o _ => o end.
Definition r_iters (r : res) : list nat := match r with Res _ i => i end.

Inductive case :=
  (* the n points pts; configuration: cost metric mt (for smape / rpd / rmspe / R2 threshold RDP's segment cost is derived from
     pts, Model/RdpCost.v, and the table ct of what rdp.compute_cost_coef returns is compared with it; for rmsle ct is the oracle), threshold t, rdp_fixed length k, min_points m, threshold list ts of
     min_point_rdp; dflt = the configuration is min_point_rdp's hard-wired one (shortest / smape / segment), so the
     tables apply to it.  kmax: the fixed-size family's oracle tables cover the chain members S_2 .. S_kmax (kmax = n for small
     curves; on the large-n stratum the parameters are chosen so that no simplifier goes beyond S_kmax — if one does, the
     model reports a missing entry, code 4).  dt / ct / pt / gt: distance, segment cost, order priority and global cost primitives. *)
  | CAll (n : nat) (mt : metric) (pts : list (float * float)) (t : float) (k m kmax : nat) (ts : list float) (dflt : bool)
         (dt : dtab) (ct : ctab) (pt : ctab) (gt : gtab)
         (r_rdp r_fixed r_grdp r_mp r_min : res).

Definition out_eqb (a b : out_t) : bool :=
  match a, b with
  | Some (r1, t1), Some (r2, t2) => nat_list_eqb r1 r2 && rows_eqb t1 t2
  | None, None => true
  | _, _ => false
  end.
Definition red_of (o : out_t) : list nat := match o with Some (r, _) => r | None => [] end.
Definition sum_nat (l : list nat) : nat := fold_right Nat.add 0 l.

Section Models.
  Variables (n kmax : nat) (mt : metric) (pts : list (float * float)) (t : float) (dt : dtab) (ct : ctab) (pt : ctab) (gt : gtab).
  Let r2 : bool := metric_is_r2 mt.
  Definition m_rdp := @rdp FloatNum (dist_of dt) (segcost_of mt pts ct) r2 t n.
  Definition m_fixed (k : nat) : out_t := @rdp_fixed FloatNum n f_eps (dist_of dt) (cost_from pt) n k.
  Definition m_grdp : out_t := @grdp FloatNum n f_eps (dist_of dt) (cost_from pt) (gcost_of gt) r2 t n.
  Definition m_mp (m : nat) : out_t := @mp_grdp FloatNum n f_eps (dist_of dt) (cost_from pt) (gcost_of gt) r2 t n m.
  Definition m_min (ts : list float) (m : nat) : out_t :=
    @min_point_rdp FloatNum n f_eps (dist_of dt) (cost_from pt) (gcost_of gt) n ts m.

  (* agree codes: 0 equal, 1 differs, 4 an oracle entry the model needs is missing *)
  Definition agree_rdp (r : res) : Z :=
    match m_rdp with
    | None => 1%Z
    | Some (red, rem, vis) =>
        let '(ck, dk) := @keys_needed FloatNum (segcost_of mt pts ct) r2 t vis in
        if negb (forallb (has ct) ck && forallb (has dt) dk) then 4%Z
        else if out_eqb (Some (red, rem)) (r_out r) && nat_list_eqb (r_iters r) [length vis] then 0%Z else 1%Z
    end.
  (* the fixed-size family walks down the chain S_2, S_3, ...: every wide segment of every member needs a distance
     entry and (unless it is the root) a priority entry; every member needs its global cost *)
  Definition chain_sets : list (list nat) := map (fun k => red_of (m_fixed k)) (seq 2 (Nat.min kmax n - 1)).
  (* every model output of the fixed-size family is a chain member within the table's range *)
  Definition within_chain (o : out_t) : bool := existsb (nat_list_eqb (red_of o)) chain_sets.
  Definition fixed_keys_ok (need_g : bool) : bool :=
    forallb (fun S =>
      (negb need_g || ghas gt S) &&
      forallb (fun ab => (snd ab - fst ab <? 2) ||
                         (has dt (fst ab, snd ab + 1) &&
                          (((fst ab =? 0) && (snd ab + 1 =? n)) || has pt (fst ab, snd ab + 1)))) (pairs S)) chain_sets.
  (* one activation per retained index: iterations = len(reduced) - 2 *)
  Definition agree_out (mo : out_t) (r : res) (count : bool) : Z :=
    if out_eqb mo (r_out r) && (negb count || (sum_nat (r_iters r) =? length (red_of mo) - 2)) then 0%Z else 1%Z.
End Models.

Definition worst (l : list Z) : Z :=
  if existsb (Z.eqb 4) l then 4%Z else if existsb (Z.eqb 1) l then 1%Z else if existsb (Z.eqb 5) l then 5%Z else 0%Z.
Fixpoint first_nonzero (l : list (nat * nat)) : nat :=
  match l with [] => 0 | (off, c) :: l' => if c =? 0 then first_nonzero l' else off + c end.

(* result code = 100 * agree + holds.
   agree: 0 every simplifier: model output (and iteration count) = implementation's; 1 differs; 4 oracle entry missing;
          5 a priority is NaN (Python's sort on NaN keys is not modelled: fixed family judged on the predicate only)
   holds: C01_code of rdp (1-5; 6 = the library's composite segment cost differs bit-wise from the cost derived from the points), rdp_fixed (11-15), grdp (21-25), mp_grdp (31-35), min_point_rdp (41-45):
          x1 did not return a pair of non-negative integer arrays (raised / timed out / negative or non-integral entries),
          x2 not well-formed, x3 removed table, x4 retained + dropped <> n, x5 iteration bound *)
Definition judge (c : case) : Z :=
  match c with
  | CAll n mt pts t k m kmax ts dflt dt ct pt gt r_rdp r_fixed r_grdp r_mp r_min =>
      let r2 := metric_is_r2 mt in
      let dom := (2 <=? n) && (length pts =? n) && negb (@Rdp.curved FloatNum r2 t (@trivial_cost FloatNum r2)) && negb (f_isnan t)
                 && forallb (fun x => negb (f_isnan x)) ts && shape_ok dt in
      if negb dom then 600%Z else
      let ordered := forallb (fun e => negb (f_isnan (snd e))) pt in
      let a_fixed :=
        if negb (fixed_keys_ok n kmax dt pt gt true
                 && within_chain n kmax dt pt (m_fixed n dt pt k)
                 && within_chain n kmax dt pt (m_grdp n mt t dt pt gt)
                 && within_chain n kmax dt pt (m_mp n mt t dt pt gt m)
                 && (negb dflt || within_chain n kmax dt pt (m_min n dt pt gt ts m))) then [4%Z]
        else if negb ordered then [5%Z]
        else [agree_out (m_fixed n dt pt k) r_fixed true;
              agree_out (m_grdp n mt t dt pt gt) r_grdp true;
              agree_out (m_mp n mt t dt pt gt m) r_mp true;
              if dflt then agree_out (m_min n dt pt gt ts m) r_min false else 0%Z] in
      let agree := worst (agree_rdp n mt pts t dt ct r_rdp :: a_fixed) in
      let holds := first_nonzero
        [(0, match C01_code n (2 * n - 3) 1 (r_out r_rdp) (r_iters r_rdp) with
             | O => if cost_match mt pts ct then 0 else 6
             | c => c end);
         (10, C01_code n (n - 1) 1 (r_out r_fixed) (r_iters r_fixed));
         (20, C01_code n (n - 1) 1 (r_out r_grdp) (r_iters r_grdp));
         (30, C01_code n (n - 1) 2 (r_out r_mp) (r_iters r_mp));
         (40, C01_code n (n - 1) (length ts + 1) (r_out r_min) (r_iters r_min))] in
      (100 * agree + Z.of_nat holds)%Z
  end.

(* the models' own outputs, for replay files *)
Definition show (c : case) :=
  match c with
  | CAll n mt pts t k m kmax ts dflt dt ct pt gt _ _ _ _ _ =>
      (m_rdp n mt pts t dt ct, m_fixed n dt pt k, m_grdp n mt t dt pt gt, m_mp n mt t dt pt gt m,
       if dflt then m_min n dt pt gt ts m else None)
  end.
