(* Run/JudgeC06.v — case type and judge for the C06 correspondence run (grdp / mp_grdp / min_point_rdp against the
   fixed-size chain and the global-cost primitive). *)
From Coq Require Import ZArith List Arith Bool PrimFloat.
From Knee Require Import Num NumFloat NpList Model.Mapping Model.RdpFixed Model.RdpFixedPrio Model.RdpFixedSpec Run.JudgeC05.
From Knee Require Export Model.RdpFixed.
Import ListNotations.

Definition gtab_t := list (list nat * float).
Definition gcost_of (tab : gtab_t) (S : list nat) : float :=
  match assoc nat_list_eqb S tab with Some c => c | None => nan end.
Definition has_set (tab : gtab_t) (S : list nat) : bool :=
  match assoc nat_list_eqb S tab with Some _ => true | None => false end.

Inductive query :=
  | QGrdp (t : float) (out : out_t)                      (* rdp.grdp(points, t, distance, cost, order) *)
  | QMp (t : float) (m : nat) (out : out_t)              (* rdp.mp_grdp(points, t, m, distance, cost, order) *)
  | QMin (ts : list float) (m : nat) (out : out_t).      (* rdp.min_point_rdp(points, ts, m)   (default configuration) *)

(* one curve x one configuration:
   chain = [rdp_fixed(points, k, distance, order)[0] for k in 2..n] as returned by the implementation (on a fresh copy);
   pts = the curve; dt / ct = distance and chord tables, rt = residuals as the library returns them: priorities are DERIVED
   (JudgeC05.prio_fn); gt = evaluation.compute_global_cost(points, S, cost) with a fresh cache, for every member S of the chain *)
Inductive part :=
  | PG (n : nat) (is_r2 : bool) (ord : order) (pts : pts_t) (dt : dtab_t) (ct rt : ptab_t) (gt : gtab_t)
       (chain : list (list nat)) (qs : list query).
Inductive case :=
  | CG (n : nat) (is_r2 : bool) (ord : order) (pts : pts_t) (dt : dtab_t) (ct rt : ptab_t) (gt : gtab_t)
       (chain : list (list nat)) (qs : list query)
  (* same-object stream: a SEQUENCE of calls with different configurations (and curves refilled in place) issued on ONE array
     object; the calls are grouped by (curve, configuration), every call is judged; tables come from fresh copies *)
  | CSeq (parts : list part).

Section Q.
  Variables (n : nat) (is_r2 : bool) (ord : order) (pts : pts_t) (dt : dtab_t) (ct : ptab_t) (gt : gtab_t).
  Definition m_query (q : query) : out_t :=
    match q with
    | QGrdp t _ => @grdp FloatNum n f_eps (dist_of dt) (prio_fn ord pts dt ct) (gcost_of gt) is_r2 t n
    | QMp t m _ => @mp_grdp FloatNum n f_eps (dist_of dt) (prio_fn ord pts dt ct) (gcost_of gt) is_r2 t n m
    | QMin ts m _ => @min_point_rdp FloatNum n f_eps (dist_of dt) (prio_fn ord pts dt ct) (gcost_of gt) n ts m
    end.
  Definition q_out (q : query) : out_t := match q with QGrdp _ o | QMp _ _ o | QMin _ _ o => o end.
  Definition q_dom (q : query) : bool :=
    match q with
    | QGrdp t _ | QMp t _ _ => negb (f_isnan t)
    | QMin ts _ _ => forallb (fun t => negb (f_isnan t)) ts && negb is_r2
    end.
  (* the predicate of theorems C06_*: on the implementation's chain and outputs *)
  Definition q_holds (chain : list (list nat)) (q : query) : nat :=
    match q with
    | QGrdp t o => if @grdp_ok FloatNum (gcost_of gt) is_r2 t chain o then 0 else 1
    | QMp t m o => if @mp_grdp_ok FloatNum n (gcost_of gt) is_r2 t m chain o then 0 else 2
    | QMin ts m o => if @min_point_ok FloatNum n (gcost_of gt) false ts m chain o then 0 else 3
    end.
End Q.

Definition model_sets (n : nat) (ord : order) (pts : pts_t) (dt : dtab_t) (ct : ptab_t) : list (list nat) :=
  map (fun k => red_of (@rdp_fixed FloatNum n f_eps (dist_of dt) (prio_fn ord pts dt ct) n k)) (seq 2 (n - 1)).

(* result code = 100 * agree + holds.
   agree: 0 every query: model output = implementation output; 1 differs; 4 oracle entry missing for the model;
          5 a priority is NaN (sort order on NaN keys not modelled); 6 outside the domain (n < 2, NaN threshold)
   holds: 1 grdp is not the first accepting member of the chain, 2 mp_grdp <> S_max(k*, min(m,n)), 3 min_point_rdp,
          4 lf.linear_fit_residuals_points is not the stated residual,
          8 global cost missing for a member of the implementation's chain, 9 the implementation's chain is malformed *)
Definition judge_part (c : part) : Z :=
  match c with
  | PG n is_r2 ord pts dt ct rt gt chain qs =>
      if negb ((2 <=? n) && forallb (q_dom is_r2) qs) then 600%Z else
      let ms := model_sets n ord pts dt ct in
      let ordered := prios_ordered n ord pts dt ct in
      let a := if negb (shapes_ok dt && (length pts =? n)) then 1%Z
               else if negb (segs_present n ord dt ct ms && forallb (has_set gt) ms) then 4%Z
               else if negb ordered then 5%Z
               else if forallb (fun q => out_eqb (m_query n is_r2 ord pts dt ct gt q) (q_out q)) qs then 0%Z else 1%Z in
      let h := if negb ((length chain =? n - 1) &&
                        forallb (fun kS => (length (snd kS) =? fst kS)) (combine (seq 2 (n - 1)) chain)) then 9%Z
               else if negb (forallb (has_set gt) chain) then 8%Z
               else match first_nonzero (map (q_holds n is_r2 gt chain) qs) with
                    | 0 => if resid_ok pts rt then 0%Z else 4%Z
                    | c => Z.of_nat c
                    end in
      (100 * a + h)%Z
  end.
Definition judge (c : case) : Z :=
  match c with
  | CG n is_r2 ord pts dt ct rt gt chain qs => judge_part (PG n is_r2 ord pts dt ct rt gt chain qs)
  | CSeq parts => merge_codes (map judge_part parts)
  end.

Definition show_part (c : part) : list out_t :=
  match c with PG n is_r2 ord pts dt ct rt gt chain qs => map (m_query n is_r2 ord pts dt ct gt) qs end.
Definition show (c : case) : list (list out_t) :=
  match c with
  | CG n is_r2 ord pts dt ct rt gt chain qs => [show_part (PG n is_r2 ord pts dt ct rt gt chain qs)]
  | CSeq parts => map show_part parts
  end.
