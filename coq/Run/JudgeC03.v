(* Run/JudgeC03.v — case type and judge for the C03 correspondence run: one case = one exact
   two-slope elbow together with what every detector / option of the implementation returned on it. *)
From Coq Require Import ZArith List Arith Bool PrimFloat.
From Knee Require Import Num NumFloat NpList Model.Uts Model.DetectorsFormula.
Import ListNotations.

Definition fpt := (float * float)%type.
(* 1e-6, the default eps of uts.thresholding.isodata *)
Definition eps_iso : float := 0x1.0c6f7a0b5ed8dp-20%float.

Inductive case :=
  | CElbow (c : nat) (m1 m2 : float) (pts : list fpt)
           (chk : bool) (ucfd ucsd : list float) (uiso : float)      (* uts.gradient.cfd / csd, uts.thresholding.isodata(cfd) *)
           (o_curv o_menger o_dfdt : option nat)                      (* curvature.knee, menger.knee, dfdt.knee *)
           (o_get : list (option nat))     (* lmethod.get_knee: bestfit/rss, bestfit/rmse, pointfit/rss, pointfit/rmse *)
           (limit : nat)
           (o_knee : list (option nat))    (* lmethod.knee(limit): bestfit x (none, original, adjusted), pointfit x (...) *)
           (o_kneedle : option nat).       (* kneedle.knee(points, 0); judged on monotone elbows only *)

Definition X (pts : list fpt) (i : nat) : float := fst (nth i pts (0%float, 0%float)).
Definition Y (pts : list fpt) (i : nat) : float := snd (nth i pts (0%float, 0%float)).

(* the theorem's hypothesis `elbow pts c m1 m2`, evaluated in binary64 (exact on the dyadic family) *)
Definition elbowb (pts : list fpt) (c : nat) (m1 m2 : float) : bool :=
  let n := length pts in
  (3 <=? c) && (c + 4 <=? n) && negb (PrimFloat.eqb m1 m2)
  && forallb (fun i => PrimFloat.ltb (X pts i) (X pts (S i))) (seq 0 (n - 1))
  && forallb (fun i => PrimFloat.eqb (Y pts i) (Y pts c + m1 * (X pts i - X pts c))%float) (seq 0 (S c))
  && forallb (fun i => PrimFloat.eqb (Y pts i) (Y pts c + m2 * (X pts i - X pts c))%float) (seq c (n - c)).
Definition monotoneb (m1 m2 : float) : bool :=
  (PrimFloat.leb 0 m1 && PrimFloat.leb 0 m2) || (PrimFloat.leb m1 0 && PrimFloat.leb m2 0).

Definition opt_eqb (a b : option nat) : bool :=
  match a, b with Some x, Some y => x =? y | None, None => true | _, _ => false end.
Definition fits := [best_fit; point_fit].
Definition costs := [rss; rmse].
Definition refs := [ref_none; ref_original; ref_adjusted].

(* the FloatNum evaluation of the formula-level models, in the order of the implementation outputs *)
Definition model_outputs (pts : list fpt) (limit : nat) (mono : bool) : list (option nat) :=
  [Some (curvature_knee (N:=FloatNum) pts); Some (menger_knee (N:=FloatNum) pts); dfdt_knee (N:=FloatNum) eps_iso pts]
  ++ flat_map (fun f => map (fun co => Some (lmethod_get_knee (N:=FloatNum) pts f co)) costs) fits
  ++ flat_map (fun f => map (fun r => lmethod_knee (N:=FloatNum) pts f r limit) refs) fits
  ++ (if mono then [kneedle_knee (N:=FloatNum) (fun x => x) pts 0%float] else []).

Fixpoint first_bad (k : nat) (l : list bool) : nat :=
  match l with [] => 0 | b :: l' => if b then first_bad (S k) l' else k end.

Definition judge (cs : case) : Z :=
  match cs with
  | CElbow c m1 m2 pts chk ucfd ucsd uiso o_curv o_menger o_dfdt o_get limit o_knee o_kneedle =>
      if negb (elbowb pts c m1 m2 && (length o_get =? 4) && (length o_knee =? 6)) then 600%Z else
      let mono := monotoneb m1 m2 in
      let impl := [o_curv; o_menger; o_dfdt] ++ o_get ++ o_knee ++ (if mono then [o_kneedle] else []) in
      let model := model_outputs pts limit mono in
      let uts_ok :=
        if chk then
          list_all2 (f_close 0x1.12e0be826d695p-30 0x1.12e0be826d695p-30) (cfd (N:=FloatNum) pts) ucfd
          && list_all2 (f_close 0x1.12e0be826d695p-30 0x1.12e0be826d695p-30) (csd (N:=FloatNum) pts) ucsd
          && f_close 0x1.12e0be826d695p-30 0x1.12e0be826d695p-30 (isodata (N:=FloatNum) (cfd (N:=FloatNum) pts) eps_iso) uiso
        else true in
      let a := if list_all2 opt_eqb model impl && uts_ok then 0%Z else 1%Z in
      (* holds: every implementation output is the corner index; k = position of the first one that is not *)
      let h := Z.of_nat (first_bad 1 (map (fun o => opt_eqb o (Some c)) impl)) in
      (100 * a + h)%Z
  end.

(* the model's own outputs and whether its uts models are bit-identical to uts (for replay files / statistics) *)
Definition show (cs : case) : list (option nat) * (bool * bool * bool) :=
  match cs with
  | CElbow c m1 m2 pts chk ucfd ucsd uiso _ _ _ _ limit _ _ =>
      (model_outputs pts limit (monotoneb m1 m2),
       (list_all2 f_same (cfd (N:=FloatNum) pts) ucfd,
        list_all2 f_same (csd (N:=FloatNum) pts) ucsd,
        f_same (isodata (N:=FloatNum) (cfd (N:=FloatNum) pts) eps_iso) uiso))
  end.
