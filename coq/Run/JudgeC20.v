(* Run/JudgeC20.v — case type and judge for the C20 correspondence run.
   Three kinds of cases:
   * CLink: ONE reference of the package text with the facts it needs (its module's globals, its scope chain,
     the symbol tables its attribute chain goes through, builtins), re-translated from the current source by
     harness/linkfacts.py; judged by the checker of Model/Linking.v (the function the theorem C20_check_sound is
     about).  `live` is what the installed CPython says about the same reference (symbol table of the compiled
     code object, getattr on the live objects, inspect.signature(...).bind) — the "implementation output".
   * CDyn: one public function on one generated valid input: the encoded result of each re-presentation / re-execution
     (tag 0 base: C-ordered float64 — for interference cases the call alone in a forked child; 1 same call repeated with
     np.empty returning different garbage and the allocator poisoned in between; 2 Fortran-ordered; 3 strided view of a
     larger array; 4 int64 (integer-valued inputs up to 2^41); 5 negative-stride view; 6 the call after the related functions
     of the module were called on sibling inputs in the same process; 7 the same array objects refilled in place) and whether
     the arguments (and the function's default-argument objects) were bit-for-bit unchanged by the call.
     holds = all results equal /\ nothing mutated /\ no NameError / AttributeError / arity TypeError (encoding 7, 1, ..).
     Purity, determinism and layout independence hold of any Gallina model by construction; this part is TESTED.
   * CImport: `import kneeliverse` succeeded.
   * CRefine: one public function that no property C01-C19 models (evaluation.get_neighbourhood*, accuracy_*, knee_ranking.slope_ranking,
     linear_fit.linear_hv_residuals*, linear_fit_transform*, angle) on one generated input, judged by Run/JudgeC20X.v against the pure
     Gallina function of Model/Extras.v (agree: bit for bit) and with the predicates of the C20_refine_* theorems (holds). *)
From Coq Require Import ZArith List Bool Arith.
From Coq Require Export String.   (* the generated case files write identifiers as "..."%string *)
From Knee Require Export Model.Linking.
From Knee Require Export Run.JudgeC20X.   (* its constructors X... are written by harness/c20x.py inside CRefine; `case` / `judge` / `show` are re-defined below *)
Import ListNotations.

Inductive case :=
  | CLink (p : program) (live : option bool)
  | CDyn (fn : string) (runs : list (nat * bool * list Z))
  | CImport (ok : bool)
  | CRefine (x : JudgeC20X.case)
  | CSkip.

(* result code = 100 * agree + holds  (agree: 0 same verdict as CPython, 1 differs, 5 no live verdict, 6 not a case) *)
Definition judge (c : case) : Z :=
  match c with
  | CLink p live =>
      match refs p with
      | [lr] =>
          let d := diagnose_lref p lr in
          let a := match live with
                   | None => 5%Z
                   | Some b => if Bool.eqb b (Nat.eqb d 0) then 0%Z else 1%Z
                   end in
          (100 * a + Z.of_nat d)%Z
      | _ => 600%Z
      end
  | CDyn fn runs =>
      match runs with
      | [] => 600%Z
      | _ => Z.of_nat (dyn_holds runs)
      end
  | CImport ok => if ok then 0%Z else 1%Z
  | CRefine x => JudgeC20X.judge x
  | CSkip => 600%Z
  end.

(* for replay files: where the reference stands and its diagnosis / the verdict per re-presentation / the Gallina function's own outputs *)
Definition show (c : case) : list (string * string * nat * ref * nat) * list (nat * bool * bool) * (list nat * list (list PrimFloat.float)) :=
  match c with
  | CLink p live =>
      (map (fun lr => let '(m, s, ln, r) := lr in (m_name m, sc_name s, ln, r, diagnose_lref p lr)) (refs p), [], ([], []))
  | CDyn fn runs =>
      ([], match runs with
           | [] => []
           | (_, _, r0) :: _ => map (fun tur => let '(t, u, r) := tur in (t, u, zlist_eqb r r0)) runs
           end, ([], []))
  | CRefine x => ([], [], JudgeC20X.show x)
  | _ => ([], [], ([], []))
  end.
