(* Run/JudgeC18.v — case type and judge for the C18 correspondence run (convex_hull.py). *)
From Coq Require Import ZArith List Arith Bool PrimFloat FloatOps SpecFloat.
From Knee Require Import Num NumFloat NpList Model.Hull Model.HullExact.
Import ListNotations.

Definition fpt : Type := (float * float)%type.

Inductive case :=
  (* graham_scan_lower (upper = false) / graham_scan_upper (upper = true) returned out (None = exception) on pts *)
  | CChain (upper : bool) (pts : list fpt) (out : option (list nat))
  (* graham_scan(pts) returned out; dtab[i] = _dist_points(p0, pts[i]) (the np.linalg.norm oracle);
     sp = the index arrangement _sort_points(pts) produced (None = not observed / exception) *)
  | CGraham (pts : list fpt) (dtab : list float) (sp : option (list nat)) (out : option (list nat)).

(* ---- exact coordinates: every finite double is m * 2^e; scale all by 2^(-emin) *)
Definition f_finite (x : float) : bool :=
  match Prim2SF x with S754_zero _ => true | S754_finite _ _ _ => true | _ => false end.
(* m * 2^e with m odd: strip the trailing zero bits of the mantissa (keeps grid coordinates small) *)
Fixpoint strip (p : positive) (e : Z) : positive * Z :=
  match p with xO p' => strip p' (e + 1)%Z | _ => (p, e) end.
Definition f_exp (x : float) : option Z :=
  match Prim2SF x with S754_finite _ m e => Some (snd (strip m e)) | _ => None end.
Definition min_exp (l : list float) : Z :=
  fold_left (fun acc x => match f_exp x with Some e => Z.min acc e | None => acc end) l 2000%Z.
Definition f_toZ (emin : Z) (x : float) : Z :=
  match Prim2SF x with
  | S754_finite s m e => let '(m', e') := strip m e in
                         let v := Z.shiftl (Zpos m') (e' - emin) in if s then Z.opp v else v
  | _ => 0%Z
  end.
Definition exact_pts (pts : list fpt) : list (@pt ZNum) :=
  let emin := min_exp (map fst pts ++ map snd pts) in
  map (fun p => (f_toZ emin (fst p), f_toZ emin (snd p))) pts.
Definition all_finite (pts : list fpt) : bool := forallb (fun p => f_finite (fst p) && f_finite (snd p)) pts.

Definition opt_list_eqb (a b : option (list nat)) : bool :=
  match a, b with
  | Some x, Some y => nat_list_eqb x y
  | None, None => true
  | _, _ => false
  end.

Definition fcc (pts : list fpt) := @ccw_idx FloatNum pts.
Definition dist_of (dtab : list float) (i : nat) : float := nth i dtab nan.

(* the first failing conjunct, 0 if none *)
Fixpoint first_false (l : list bool) (k : Z) : Z :=
  match l with [] => 0%Z | b :: l' => if b then first_false l' (k + 1)%Z else k end.

(* result code = 100 * agree + holds *)
Definition judge (c : case) : Z :=
  match c with
  | CChain upper pts out =>
      let n := length pts in
      if negb ((2 <=? n) && all_finite pts && @x_increasing FloatNum pts) then 600%Z else
      let model := if upper then @graham_scan_upper FloatNum pts else @graham_scan_lower FloatNum pts in
      let a := if opt_list_eqb (Some model) out then 0%Z else 1%Z in
      let h := match out with
               | None => 1%Z
               | Some o =>
                   let z := exact_pts pts in
                   let test := if upper then @upper_test FloatNum (fcc pts) else @lower_test FloatNum (fcc pts) in
                   let strict := if upper then @negt ZNum else @pos ZNum in
                   let weak := if upper then @nonpos ZNum else @nonneg ZNum in
                   first_false [chainb n o;                                   (* 1 chain shape (S) *)
                                turnsb test o;                                (* 2 the code's own turn test (S) *)
                                coversb weak z o;                             (* 3 every point on/above (below), exact sign *)
                                convexb strict z o;                           (* 4 strictly convex, exact sign *)
                                nat_list_eqb o (brute_chain strict z n)] 1%Z  (* 5 = brute-force hull chain, exact sign *)
               end in
      (100 * a + h)%Z
  | CGraham pts dtab sp out =>
      let n := length pts in
      if negb ((3 <=? n) && all_finite pts && @distinctb FloatNum pts && (length dtab =? n)) then 600%Z else
      let msp := @graham_sorted FloatNum pts (dist_of dtab) in
      let model := @graham_scan FloatNum pts (dist_of dtab) in
      let a := if opt_list_eqb model out && (match sp with None => true | Some _ => opt_list_eqb msp sp end)
               then 0%Z else 1%Z in
      let h := match out with
               | None => 1%Z
               | Some o =>
                   let z := exact_pts pts in
                   let gp := @general_positionb ZNum z in
                   first_false [@graham_structb FloatNum pts o;                                   (* 1 structure (S) *)
                                turnsb (fun a b c => PrimFloat.leb 0 (fcc pts a b c)) (tl o);      (* 2 tested triples (S) *)
                                gp || @graham_degenb ZNum z o;     (* 3 degenerate input: extreme <= out <= boundary: a TEST
                                                                      (in general position conjunct 4 is the stronger statement) *)
                                negb gp || @graham_gpb ZNum z o] 1%Z                              (* 4 general position clause (A) *)
               end in
      (100 * a + h)%Z
  end.

(* the model's own outputs, for replay files *)
Definition show (c : case) : option (list nat) * option (list nat) :=
  match c with
  | CChain upper pts out =>
      (Some (if upper then @graham_scan_upper FloatNum pts else @graham_scan_lower FloatNum pts),
       Some (brute_chain (if upper then @negt ZNum else @pos ZNum) (exact_pts pts) (length pts)))
  | CGraham pts dtab sp out =>
      (@graham_scan FloatNum pts (dist_of dtab), @graham_sorted FloatNum pts (dist_of dtab))
  end.
