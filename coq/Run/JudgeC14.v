(* Run/JudgeC14.v — case type and judge for the C14 correspondence run (add_points_even, add_points_even_knees). *)
From Coq Require Import ZArith List Arith Bool PrimFloat.
From Knee Require Import Num NumFloat NpList Model.Mapping Model.EvenPoints.
Import ListNotations.

Inductive case :=
  (* postprocessing.add_points_even(points, reduced, knees, removed, tx, ty, extremes) returned `out` (None = exception);
     knees are positions in the reduced curve *)
  | CEven (xs ys : list float) (tx ty : float) (red : list nat) (rem : list row) (knees : list nat)
          (extremes : bool) (out : option (list nat))
  (* postprocessing.add_points_even_knees(points, knees, tx, ty, extremes) returned `out`; knees are curve indices *)
  | CEvenK (xs ys : list float) (tx ty : float) (knees : list nat) (extremes : bool) (out : option (list nat))
  (* a sequence of calls made on ONE points buffer, ONE reduced / removed pair and ONE knee array *)
  | CSeq (calls : list case) (intact : bool).

Definition opt_list_eqb (a b : option (list nat)) : bool :=
  match a, b with
  | Some x, Some y => nat_list_eqb x y
  | None, None => true
  | _, _ => false
  end.
Definition rows_eqb := list_eqb row_eqb.

Definition pos_finite (t : float) : bool := PrimFloat.ltb 0 t && PrimFloat.ltb t infinity.
(* valid non-flat curve, thresholds > 0 *)
Definition curve_ok (xs ys : list float) (tx ty : float) : bool :=
  (length xs =? length ys) && (2 <=? length xs)
  && forallb (fun v => PrimFloat.ltb (PrimFloat.abs v) infinity) xs && forallb (fun v => PrimFloat.ltb (PrimFloat.abs v) infinity) ys
  && pos_finite (@span_x FloatNum xs) && pos_finite (@span_y FloatNum ys) && pos_finite tx && pos_finite ty.

(* result code = 100 * agree + holds.
   holds: 0 the output is the specified set (even_spec) and every index is < n; 1 differs from the specification;
          2 an index >= n; 9 the implementation raised *)
Definition judge_out (n : nat) (model spec out : option (list nat)) : Z :=
  let a := if opt_list_eqb model out then 0%Z else 1%Z in
  let h := match out with
           | None => 9%Z
           | Some o => if negb (opt_list_eqb spec out) then 1%Z
                       else if negb (forallb (fun k => k <? n) o) then 2%Z else 0%Z
           end in
  (100 * a + h)%Z.


(* ---- same-object multi-call stream: the sub-cases are the calls of ONE sequence made on one points buffer and one knee
   array; `intact` = after the sequence the caller's arguments still hold what was passed (snapshot comparison).
   agree: worst of the calls (1/4 over 5 over 0; 6 when every call is outside the domain);
   holds: the first failed conjunct of a call inside the domain, else 8 when an argument was rewritten in place. ---- *)
Definition combine_codes (codes : list Z) (intact : bool) : Z :=
  let inside := filter (fun z => negb (z / 100 =? 6)%Z) codes in
  match inside with
  | [] => 600%Z
  | _ =>
      let has a := existsb (fun z => (z / 100 =? a)%Z) inside in
      let a := if has 1%Z then 1%Z else if has 4%Z then 4%Z else if has 5%Z then 5%Z else 0%Z in
      let h := match find (fun z => negb (z mod 100 =? 0)%Z) inside with
               | Some z => (z mod 100)%Z
               | None => if intact then 0%Z else 8%Z
               end in
      (100 * a + h)%Z
  end.

Fixpoint judge (c : case) {struct c} : Z :=
  match c with
  | CEven xs ys tx ty red rem knees ext out =>
      let n := length xs in
      if negb (curve_ok xs ys tx ty && WFb n red && rows_eqb rem (rows red) && nondecreasing knees
               && forallb (fun k => k <? length red) knees) then 600%Z
      else judge_out n (@add_points_even FloatNum xs ys tx ty red rem knees ext)
                       (@even_spec_reduced FloatNum xs ys tx ty red knees ext) out
  | CEvenK xs ys tx ty knees ext out =>
      let n := length xs in
      if negb (curve_ok xs ys tx ty && nondecreasing knees && forallb (fun k => k <? n) knees) then 600%Z
      else judge_out n (@add_points_even_knees FloatNum xs ys tx ty knees ext)
                       (@even_spec_knees FloatNum xs ys tx ty knees ext) out
  | CSeq calls intact => combine_codes (map judge calls) intact
  end.

(* the model's own output and the specification's, for replay files *)
Fixpoint show (c : case) {struct c} : list (option (list nat) * option (list nat)) :=
  match c with
  | CEven xs ys tx ty red rem knees ext out =>
      [(@add_points_even FloatNum xs ys tx ty red rem knees ext, @even_spec_reduced FloatNum xs ys tx ty red knees ext)]
  | CEvenK xs ys tx ty knees ext out =>
      [(@add_points_even_knees FloatNum xs ys tx ty knees ext, @even_spec_knees FloatNum xs ys tx ty knees ext)]
  | CSeq calls intact => flat_map show calls
  end.
