(* Run/JudgeC02.v — case type and judge for the C02 correspondence run (multi-knee detection). *)
From Coq Require Import ZArith List Arith Bool PrimFloat.
From Knee Require Import Num NumFloat NpList Model.Metrics Model.LinearFit Model.MultiKnee Model.MultiKneeStraight.
Import ListNotations.

(* One case = one call <detector>.multi_knee(points, t1, t2) (or multi_knee.multi_knee(<detector>.knee, points, t1, t2, cost))
   on a curve of n points.
   costc  0 smape (every bundled wrapper), 1 r2, 2 rmspe
   lo     lower bound of the detector's relative answer (0 Menger, 1 otherwise);  tmin the detector's minimum t2
   pts    the curve; the straightness of points[l:r] is DERIVED from it in the model (Model/MultiKneeStraight.v:
          end-point line + SMAPE / R2 of the formula layer, bit-reproducible) — it is not an oracle
   stab   OBSERVED: what the library's lf.smape_points / lf.linear_r2_points returns for the end-point fit
          lf.linear_fit_points of points[l:r], on the ranges the run visits; compared bit-for-bit with the derived value
   ktab   knee1 l r    : <detector>.knee(points[l:r]) (None = the detector returned None)
   pure   every value the implementation's own calls returned during the run equals the table's value for that slice
   out    the returned knee array (None = exception / time-out / not an index array)
   pops   number of iterations of the while loop (None = could not be observed)
   outL, outR  the real sub-calls on points[:k+1] and points[k+1:], k = ktab(0, n) (None = not made / exception) *)
Inductive case :=
  | CMk (costc lo : nat) (t1 : float) (t2 tmin : nat) (pts : list (float * float))
        (stab : list (nat * nat * float)) (ktab : list (nat * nat * option nat))
        (pure : bool) (out : option (list nat)) (pops : option nat) (outL outR : option (list nat)).

Definition look {A} (tab : list (nat * nat * A)) (l r : nat) : option A :=
  match find (fun e => (fst (fst e) =? l) && (snd (fst e) =? r)) tab with
  | Some e => Some (snd e)
  | None => None
  end.
Definition cost_of (c : nat) : mk_cost := match c with 0 => MkSmape | 1 => MkR2 | _ => MkRmspe end.

Definition opt_list_eqb (a b : option (list nat)) : bool :=
  match a, b with
  | Some x, Some y => nat_list_eqb x y
  | None, None => true
  | _, _ => false
  end.

Section Run.
  Variables (costc lo : nat) (t1 : float) (t2 : nat).
  Variable pts : list (float * float).
  Variable stab : list (nat * nat * float).
  Variable ktab : list (nat * nat * option nat).

  Definition n := length pts.
  Definition cst := cost_of costc.
  (* the default eps = 1e-16 of lf.smape_points *)
  Definition eps16 : float := 0x1.cd2b297d889bcp-54%float.
  Definition Sor (l r : nat) : float := mk_straight (N := FloatNum) eps16 pts cst l r.
  Definition Kor (l r : nat) : option nat := match look ktab l r with Some v => v | None => None end.

  (* does a popped range need a detector answer that the table does not hold? *)
  Definition covered (a : nat) (p : nat * nat) : bool :=
    let l := fst p + a in let r := snd p + a in
    if t2 <? r - l then
      (if mk_curved (N := FloatNum) cst Sor t1 l r then match look ktab l r with Some _ => true | None => false end else true)
    else true.
  Definition run_covered (a : nat) (o : option (list nat * list (nat * nat))) : bool :=
    match o with Some (_, tr) => forallb (covered a) tr | None => true end.

  Definition m_main := multi_knee (N := FloatNum) cst Sor Kor t1 t2 n.
  Definition m_step0 := mk_step (N := FloatNum) cst Sor Kor t1 t2 0 n.
  Definition m_L := match m_step0 with Some k => mk_runL (N := FloatNum) cst Sor Kor t1 t2 k | None => None end.
  Definition m_R := match m_step0 with Some k => mk_runR (N := FloatNum) cst Sor Kor t1 t2 n k | None => None end.

  (* the detector's range fact, evaluated on every table entry that passes the size gate *)
  Definition range_ok : bool :=
    forallb (fun e => let l := fst (fst e) in let r := snd (fst e) in
                      match snd e with
                      | Some k => if (t2 <? r - l) && (r <=? n) then (lo <=? k) && (k + 2 <=? r - l) else true
                      | None => true
                      end) ktab.
  (* what the library returns as the straightness of a range = the value derived from the property's definition, bit for bit *)
  Definition straight_ok : bool :=
    forallb (fun e => let l := fst (fst e) in let r := snd (fst e) in
                      if (2 <? r - l) && (r <=? n) then f_same (snd e) (Sor l r) else true) stab.
End Run.

(* result code = 100 * agree + holds
   agree: 0 model = implementation (knee array, loop iterations, both sub-calls) and the oracle discipline held,
          1 differs, 4 a detector answer the model needs is missing, 6 outside the property's domain
   holds: mk_holds (the predicate of theorem C02_holds) on the implementation's outputs; 7 = the detector left its range;
          8 = the library's straightness of a visited range is not the end-point-line SMAPE / R2 of that range *)
Definition judge (c : case) : Z :=
  match c with
  | CMk costc lo t1 t2 tmin pts stab ktab pure out pops outL outR =>
      let n := length pts in
      if (n <? 2) || (t2 <? tmin) || negb (0 <=? t1)%float then 600%Z else
      let mm := m_main costc t1 t2 pts ktab in
      let s0 := m_step0 costc t1 t2 pts ktab in
      let mL := m_L costc t1 t2 pts ktab in
      let mR := m_R costc t1 t2 pts ktab in
      let cov := run_covered costc t1 t2 pts ktab 0 mm && run_covered costc t1 t2 pts ktab 0 mL
                 && match s0 with Some k => run_covered costc t1 t2 pts ktab (k + 1) mR | None => true end in
      let same :=
        pure && opt_list_eqb (mk_knees mm) out
        && match pops, mk_obs mm with
           | Some p, Some (_, q) => p =? q
           | Some _, None => false
           | None, _ => true
           end
        && match s0 with
           | Some _ => opt_list_eqb (mk_knees mL) outL && opt_list_eqb (mk_knees mR) outR
           | None => true
           end in
      let a := if negb cov then 4%Z else if same then 0%Z else 1%Z in
      let obs := match out with
                 | Some ks => Some (ks, match pops with Some p => p | None => 0 end)
                 | None => None
                 end in
      let h0 := mk_holds lo n s0 obs outL outR in
      let h := if Nat.eqb h0 0 then
                 (if range_ok lo t2 pts ktab then (if straight_ok costc pts stab then 0 else 8) else 7)
               else h0 in
      (100 * a + Z.of_nat h)%Z
  end.

(* the model's own outputs, for replay files: (knees, pops), first step, sub-call knees, derived straightness of the whole curve *)
Definition show (c : case) :=
  match c with
  | CMk costc lo t1 t2 tmin pts stab ktab pure out pops outL outR =>
      (mk_obs (m_main costc t1 t2 pts ktab), m_step0 costc t1 t2 pts ktab,
       mk_knees (m_L costc t1 t2 pts ktab), mk_knees (m_R costc t1 t2 pts ktab), Sor costc pts 0 (length pts))
  end.
