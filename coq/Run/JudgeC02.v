(* Run/JudgeC02.v — case type and judge for the C02 correspondence run (multi-knee detection). *)
From Coq Require Import ZArith List Arith Bool PrimFloat.
From Knee Require Import Num NumFloat NpList Model.MultiKnee.
Import ListNotations.

(* One case = one call <detector>.multi_knee(points, t1, t2) (or multi_knee.multi_knee(<detector>.knee, points, t1, t2, cost))
   on a curve of n points.
   costc  0 smape (every bundled wrapper), 1 r2, 2 rmspe
   lo     lower bound of the detector's relative answer (0 Menger, 1 otherwise);  tmin the detector's minimum t2
   stab   straight l r : the library's lf.smape_points / lf.linear_r2_points of the end-point fit of points[l:r]
   ktab   knee1 l r    : <detector>.knee(points[l:r]) (None = the detector returned None)
   pure   every value the implementation's own calls returned during the run equals the table's value for that slice
   out    the returned knee array (None = exception / time-out / not an index array)
   pops   number of iterations of the while loop (None = could not be observed)
   outL, outR  the real sub-calls on points[:k+1] and points[k+1:], k = ktab(0, n) (None = not made / exception) *)
Inductive case :=
  | CMk (costc lo n : nat) (t1 : float) (t2 tmin : nat)
        (stab : list (nat * nat * float)) (ktab : list (nat * nat * option nat))
        (pure : bool) (out : option (list nat)) (pops : option nat) (outL outR : option (list nat)).

Definition look {A} (tab : list (nat * nat * A)) (l r : nat) : option A :=
  match find (fun e => (fst (fst e) =? l) && (snd (fst e) =? r)) tab with
  | Some e => Some (snd e)
  | None => None
  end.
Definition cost_of (c : nat) : mk_cost := match c with 0 => MkSmape | 1 => MkR2 | _ => MkRmspe end.

Definition opt_list_eqb (a b : option (list nat)) : bool :=
  match a, b with
  | Some x, Some y => nat_list_eqb x y
  | None, None => true
  | _, _ => false
  end.

Section Run.
  Variables (costc lo n : nat) (t1 : float) (t2 : nat).
  Variable stab : list (nat * nat * float).
  Variable ktab : list (nat * nat * option nat).

  Definition Sor (l r : nat) : float := match look stab l r with Some v => v | None => nan end.
  Definition Kor (l r : nat) : option nat := match look ktab l r with Some v => v | None => None end.
  Definition cst := cost_of costc.

  (* does a popped range need an oracle value that the tables do not hold? *)
  Definition covered (a : nat) (p : nat * nat) : bool :=
    let l := fst p + a in let r := snd p + a in
    if t2 <? r - l then
      (if r - l <=? 2 then true else match look stab l r with Some _ => true | None => false end)
      && (if mk_curved (N := FloatNum) cst Sor t1 l r then match look ktab l r with Some _ => true | None => false end else true)
    else true.
  Definition run_covered (a : nat) (o : option (list nat * list (nat * nat))) : bool :=
    match o with Some (_, tr) => forallb (covered a) tr | None => true end.

  Definition m_main := multi_knee (N := FloatNum) cst Sor Kor t1 t2 n.
  Definition m_step0 := mk_step (N := FloatNum) cst Sor Kor t1 t2 0 n.
  Definition m_L := match m_step0 with Some k => mk_runL (N := FloatNum) cst Sor Kor t1 t2 k | None => None end.
  Definition m_R := match m_step0 with Some k => mk_runR (N := FloatNum) cst Sor Kor t1 t2 n k | None => None end.

  (* the detector's range fact, evaluated on every table entry that passes the size gate *)
  Definition range_ok : bool :=
    forallb (fun e => let l := fst (fst e) in let r := snd (fst e) in
                      match snd e with
                      | Some k => if (t2 <? r - l) && (r <=? n) then (lo <=? k) && (k + 2 <=? r - l) else true
                      | None => true
                      end) ktab.
End Run.

(* result code = 100 * agree + holds
   agree: 0 model = implementation (knee array, loop iterations, both sub-calls) and the oracle discipline held,
          1 differs, 4 an oracle key the model needs is missing, 6 outside the property's domain
   holds: mk_holds (the predicate of theorem C02_holds) on the implementation's outputs; 7 = the detector left its range *)
Definition judge (c : case) : Z :=
  match c with
  | CMk costc lo n t1 t2 tmin stab ktab pure out pops outL outR =>
      if (n <? 2) || (t2 <? tmin) || negb (0 <=? t1)%float then 600%Z else
      let mm := m_main costc n t1 t2 stab ktab in
      let s0 := m_step0 costc n t1 t2 stab ktab in
      let mL := m_L costc n t1 t2 stab ktab in
      let mR := m_R costc n t1 t2 stab ktab in
      let cov := run_covered costc t1 t2 stab ktab 0 mm && run_covered costc t1 t2 stab ktab 0 mL
                 && match s0 with Some k => run_covered costc t1 t2 stab ktab (k + 1) mR | None => true end in
      let same :=
        pure && opt_list_eqb (mk_knees mm) out
        && match pops, mk_obs mm with
           | Some p, Some (_, q) => p =? q
           | Some _, None => false
           | None, _ => true
           end
        && match s0 with
           | Some _ => opt_list_eqb (mk_knees mL) outL && opt_list_eqb (mk_knees mR) outR
           | None => true
           end in
      let a := if negb cov then 4%Z else if same then 0%Z else 1%Z in
      let obs := match out with
                 | Some ks => Some (ks, match pops with Some p => p | None => 0 end)
                 | None => None
                 end in
      let h0 := mk_holds lo n s0 obs outL outR in
      let h := if Nat.eqb h0 0 then (if range_ok lo n t2 ktab then 0 else 7) else h0 in
      (100 * a + Z.of_nat h)%Z
  end.

(* the model's own outputs, for replay files: (knees, pops), first step, sub-call knees *)
Definition show (c : case) :=
  match c with
  | CMk costc lo n t1 t2 tmin stab ktab pure out pops outL outR =>
      (mk_obs (m_main costc n t1 t2 stab ktab), m_step0 costc n t1 t2 stab ktab,
       mk_knees (m_L costc n t1 t2 stab ktab), mk_knees (m_R costc n t1 t2 stab ktab))
  end.
