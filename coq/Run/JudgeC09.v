(* Run/JudgeC09.v — case type and judge for the C09 correspondence run (single-knee detectors). *)
From Coq Require Import ZArith List Arith Bool PrimFloat.
From Knee Require Import Num NumFloat NpList.
From Knee Require Export Model.Detectors Model.DetectorsError.
Import ListNotations.

Notation F := FloatNum.

(* what the implementation did: returned k (ks = the knee computed by each loop iteration, observed through a
   pass-through wrapper; [] for the loop-free entry points), raised, or did not return within the time limit *)
Inductive iout := IOk (k : nat) (ks : list nat) | IExc | ITimeout.

Inductive case :=
  (* curvature.knee on n points; curv = |f''| / (1 + f'^2)^1.5 evaluated in NumPy on uts.gradient.cfd/csd (None: uts raised) *)
  | CCurv (n : nat) (curv : option (list float)) (out : iout)
  (* dfdt.get_knee on n points; grad = uts.gradient.cfd, t = uts.thresholding.isodata(grad) *)
  | CDfdtG (n : nat) (grad : option (list float)) (t : float) (out : iout)
  (* dfdt.knee on n points; iso = [(c, isodata(grad[c:]))] *)
  | CDfdt (n : nat) (grad : option (list float)) (iso : list (nat * float)) (out : iout)
  (* menger.knee on the points pts; mc = [menger_curvature(p[i], p[i-1], p[i+1]) for i in 1..n-2] (None: it raised) decides;
     the same values re-derived from Model/Geometry.v are compared with mc under tolerance (x**2.0 is libm pow) *)
  | CMenger (pts : list (float * float)) (mc : option (list float)) (out : iout)
  (* lmethod.get_knee(x, y, fit, cost) on the points pts.  The criterion is DERIVED in the model (Model/DetectorsError.v);
     pres = [((a, b), np.polyfit(x[a:b], y[a:b], 1, full=True) residual)] is the only oracle (Fit.best_fit; empty for point_fit);
     cerr = [((m, i), lmethod.compute_error(x[:m], y[:m], i, x[m-1]-x[0], fit, cost)[0])] is what the library's composite
     returns, compared with the derived value bit for bit *)
  | CLmG (pts : list (float * float)) (fit : lfit) (cost : lcost)
         (pres : list (nat * nat * oval float)) (cerr : list (nat * nat * oval float)) (out : iout)
  (* lmethod.knee(points, fit, it, limit): same tables (cost = rmse: knee does not forward it) *)
  | CLm (pts : list (float * float)) (fit : lfit) (it : refinement) (limit : nat)
        (pres : list (nat * nat * oval float)) (cerr : list (nat * nat * oval float)) (out : iout)
  (* the same call with the points PRESENTED in another float width (float32): the implementation then computes its criterion
     in that arithmetic, so only the Tier-S clauses (returns normally, interior index) are judged; agreement is indeterminate *)
  | CLoose (c : case).

Fixpoint lookup1 {A} (tbl : list (nat * A)) (i : nat) : option A :=
  match tbl with
  | [] => None
  | (j, v) :: tbl' => if i =? j then Some v else lookup1 tbl' i
  end.
Fixpoint lookup2 {A} (tbl : list (nat * nat * A)) (m i : nat) : option A :=
  match tbl with
  | [] => None
  | (a, b, v) :: tbl' => if (m =? a) && (i =? b) then Some v else lookup2 tbl' m i
  end.
Definition oget {A} (o : option (oval A)) : oval A := match o with Some v => v | None => OMissing end.

Definition opt_nat_eqb (a b : option nat) : bool :=
  match a, b with Some x, Some y => x =? y | None, None => true | _, _ => false end.
Definition iout_opt (o : iout) : option nat := match o with IOk k _ => Some k | _ => None end.
Definition is_timeout (o : iout) : bool := match o with ITimeout => true | _ => false end.

(* agreement of an option-valued model answer (None = exception) with the implementation *)
Definition agree_opt (m : option nat) (o : iout) : Z :=
  if is_timeout o then 1%Z else if opt_nat_eqb m (iout_opt o) then 0%Z else 1%Z.
(* agreement of a loop model (res) with the implementation: same successive knees, same answer *)
Definition agree_res (r : res) (o : iout) : Z :=
  match r, o with
  | Missing, _ => 4%Z
  | Ok ks, IOk k ks' => if nat_list_eqb ks ks' && opt_nat_eqb (res_knee r) (Some k) then 0%Z else 1%Z
  | Exc, IExc => 0%Z
  | _, _ => 1%Z
  end.
(* the predicate on a loop outcome of the implementation: the returned k must be the last observed knee *)
Definition holds_loop (o : iout) (pred : res -> Z) : Z :=
  match o with
  | IOk k ks => if opt_nat_eqb (res_knee (Ok ks)) (Some k) then pred (Ok ks) else 9%Z
  | _ => 1%Z
  end.

Definition code (a h : Z) : Z := (100 * a + h)%Z.

(* result code = 100 * agree + holds   (agree: 0 same, 1 differs, 4 oracle entry missing / malformed table,
   6 outside the property's domain; holds: 0 true, k > 0 conjunct k of the theorem's predicate false) *)
Definition judge_strict (c : case) : Z :=
  match c with
  | CCurv n curv out =>
      if n <? 3 then 600%Z else
      match curv with
      | None => code (agree_opt None out) 1
      | Some cv =>
          if negb (length cv =? n) then 400%Z else
          code (agree_opt (@curvature_knee F cv) out) (@curvature_holds F cv (iout_opt out))
      end
  | CDfdtG n grad t out =>
      if n <? 3 then 600%Z else
      match grad with
      | None => code (agree_opt None out) 1
      | Some g =>
          if negb (length g =? n) then 400%Z else
          code (agree_opt (@dfdt_get_knee F g t) out) (@dfdt_get_knee_holds F g t (iout_opt out))
      end
  | CDfdt n grad iso out =>
      if n <? 3 then 600%Z else
      match grad with
      | None => code (agree_res Exc out) 1
      | Some g =>
          if negb (length g =? n) then 400%Z else
          code (agree_res (@dfdt_knee_res F g (lookup1 iso)) out)
               (holds_loop out (@dfdt_knee_holds F g (lookup1 iso)))
      end
  | CMenger pts mc out =>
      let n := length pts in
      if n <? 3 then 600%Z else
      match mc with
      | None => code (agree_opt None out) 1
      | Some l =>
          if negb (length l + 2 =? n) then 400%Z else
          let h := @menger_holds F l (iout_opt out) in
          code (agree_opt (@menger_knee F l) out)
               (if (h =? 0)%Z then (if list_all2 (f_close 0x1p-30 0) (@menger_table F pts) l then 0 else 4)%Z else h)
      end
  | CLmG pts fit cost pres cerr out =>
      let m := length pts in
      if m <? 5 then 600%Z else
      let e := @lm_error F (map fst pts) (map snd pts) (fun a b => oget (lookup2 pres a b)) fit cost in
      if negb (forallb (fun i => match lookup2 cerr m i with Some _ => true | None => false end) (lm_cands m)) then 400%Z else
      let same := lm_table_same_b f_same e cerr in
      match @lm_get_knee F (e m) m with
      | OMissing => 400%Z
      | ORaise => code (agree_opt None out) 1
      | OVal k =>
          let h := @lm_get_knee_holds F (e m) m (iout_opt out) in
          code (agree_opt (Some k) out) (if (h =? 0)%Z then (if same then 0 else 7)%Z else h)
      end
  | CLm pts fit it limit pres cerr out =>
      let n := length pts in
      if n <? 5 then 600%Z else
      let e := @lm_error F (map fst pts) (map snd pts) (fun a b => oget (lookup2 pres a b)) fit CostRmse in
      if negb (forallb (fun i => match lookup2 cerr n i with Some _ => true | None => false end) (lm_cands n)) then 400%Z else
      let h := holds_loop out (@lmethod_knee_holds F n e it limit) in
      code (agree_res (@lmethod_knee_res F n e it limit) out)
           (if (h =? 0)%Z then (if lm_table_same_b f_same e cerr then 0 else 7)%Z else h)
  | CLoose _ => 600%Z
  end.
(* conjuncts 1 (returned normally) and 2 (interior index) are the Tier-S clauses of every predicate above *)
Definition loosen (z : Z) : Z :=
  if (z / 100 =? 6)%Z then 600%Z else
  let h := (z mod 100)%Z in code 5 (if (h <=? 2)%Z then h else 0%Z).
Definition judge (c : case) : Z :=
  match c with
  | CLoose c' => loosen (judge_strict c')
  | _ => judge_strict c
  end.

(* the model's own outputs, for replay files *)
Definition show_strict (c : case) : option nat * res :=
  match c with
  | CCurv n (Some cv) out => (@curvature_knee F cv, Exc)
  | CDfdtG n (Some g) t out => (@dfdt_get_knee F g t, Exc)
  | CDfdt n (Some g) iso out => (None, @dfdt_knee_res F g (lookup1 iso))
  | CMenger pts (Some l) out => (@menger_knee F l, Exc)
  | CLmG pts fit cost pres cerr out =>
      (match @lm_get_knee_derived F (map fst pts) (map snd pts) (fun a b => oget (lookup2 pres a b)) fit cost with
       | OVal k => Some k | _ => None end, Exc)
  | CLm pts fit it limit pres cerr out =>
      (None, @lmethod_knee_res_derived F (map fst pts) (map snd pts) (fun a b => oget (lookup2 pres a b)) fit it limit)
  | _ => (None, Exc)
  end.
Definition show (c : case) : option nat * res :=
  match c with CLoose c' => show_strict c' | _ => show_strict c end.
