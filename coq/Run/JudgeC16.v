(* Run/JudgeC16.v — case type and judge for the C16 correspondence run (metrics and linear-fit helpers). *)
From Coq Require Import ZArith List Bool PrimFloat.
From Knee Require Import Num NumFloat NpList Model.Metrics Model.LinearFit.
Import ListNotations.

Definition F := FloatNum.
Local Open Scope float_scope.

Inductive case :=
  (* metrics.* on the vector pair (y, yh) with eps.  o (None = exception), in this order:
     0 r2 classic, 1 r2 adjusted, 2 rmse, 3 rmsle, 4 rmspe, 5 rpd, 6 residuals, 7 smape     on (y, yh)
     8 rmse, 9 smape, 10 residuals                                                          on (yh, y)
     11 r2 classic, 12 rmse, 13 rmsle, 14 rmspe, 15 rpd, 16 residuals, 17 smape             on (y, y)  *)
  | CM (y yh : list float) (eps : float) (o : list (option float))
  (* linear_fit.* on the points P with the coefficients c = (b, m) and eps.
     fit = linear_fit_points(P); yh_fit / yh_c = linear_transform_points(P, fit / c); o in this order:
     0,1 linear_r2_points(P,c,classic/adjusted), 2 rmspe_points(P,c,eps), 3 rmsle_points, 4 smape_points(eps),
     5 rpd_points(eps), 6 rmse_points, 7 linear_residuals_points(P,c), 8 linear_fit_residuals_points(P),
     9,10 metrics.r2(y, line, classic/adjusted), 11 metrics.rmspe(y, line, eps), 12 metrics.rmsle, 13 metrics.smape(eps),
     14 metrics.rpd(eps), 15 metrics.rmse, 16 metrics.residuals(y, line), 17 metrics.residuals(y, linear_transform(x, fit)),
     18,19 linear_fit.r2(x, y, classic/adjusted), 20,21 r2_points(P, classic/adjusted);  line = linear_transform(x, c) *)
  | CL (P : list (float * float)) (c : float * float) (eps : float) (fit : option (float * float))
       (yh_fit yh_c : list float) (o : list (option float)).

(* ---- helpers ---- *)
Definition fin (x : float) : bool := (PrimFloat.abs x <=? 0x1p+465)%float.      (* finite and |x| <= 2^465 ~ 9.5e139 *)
Definition nonneg (x : float) : bool := (0 <=? x)%float.
Definition getf (o : list (option float)) (i : nat) : option float := nth i o None.
Definition present (o : list (option float)) (i : nat) : bool :=
  match getf o i with Some v => negb (f_isnan v) | None => false end.
Definition pred1 (o : list (option float)) (i : nat) (p : float -> bool) : bool :=
  match getf o i with Some v => p v | None => false end.
Definition pred2 (o : list (option float)) (i j : nat) (p : float -> float -> bool) : bool :=
  match getf o i, getf o j with Some v, Some w => p v w | _, _ => false end.
Definition fmax (a b : float) : float := if (a <? b)%float then b else a.

(* one comparison model value / implementation value / absolute tolerance *)
Definition cmp : Type := (float * option float * float)%type.
Definition cmp_ok (t : cmp) : bool :=
  let '(m, o, atol) := t in match o with Some v => f_close 1e-9 atol m v | None => false end.
Definition cmp_exact (t : cmp) : bool :=
  let '(m, o, _) := t in match o with Some v => f_same m v | None => false end.
Definition cmps_of_lists (ms vs : list float) : list cmp :=
  if Nat.eqb (length ms) (length vs) then map (fun p => (fst p, Some (snd p), 0)) (combine ms vs)
  else [(0, None, 0)].

(* atol for rmsle: the model's ln is accurate to ~1e-15 relative, so the log differences carry an absolute
   error of that times the largest |ln(v+1)| *)
Definition ln_scale (l : list float) : float :=
  fold_left (fun acc v => fmax acc (PrimFloat.abs (f_ln (v + 1)))) l 1.

Definition firstfail (l : list (Z * bool)) : Z :=
  fold_right (fun (p : Z * bool) (acc : Z) => if snd p then acc else fst p) 0%Z l.

(* ---- CM ---- *)
Definition cm_dom (y yh : list float) (eps : float) : bool :=
  Nat.eqb (length y) (length yh) && Nat.leb 1 (length y) && forallb fin y && forallb fin yh
  && (0 <? eps)%float && (eps <=? 1)%float.
Definition cm_cmps (y yh : list float) (eps : float) (o : list (option float)) : list cmp :=
  let nn := forallb nonneg y && forallb nonneg yh in
  let n3 := Nat.leb 3 (length y) in
  let lat := 1e-12 * ln_scale (y ++ yh) in
  [(@r2 F y yh R2classic, getf o 0, 0)]
  ++ (if n3 then [(@r2 F y yh R2adjusted, getf o 1, 0)] else [])
  ++ [(@rmse F y yh, getf o 2, 0); (@residuals F y yh, getf o 6, 0); (@smape F y yh eps, getf o 7, 0);
      (@rmse F yh y, getf o 8, 0); (@smape F yh y eps, getf o 9, 0); (@residuals F yh y, getf o 10, 0);
      (@r2 F y y R2classic, getf o 11, 0); (@rmse F y y, getf o 12, 0); (@residuals F y y, getf o 16, 0);
      (@smape F y y eps, getf o 17, 0)]
  ++ (if nn then [(@rmsle F y yh, getf o 3, lat); (@rmspe F y yh eps, getf o 4, 0); (@rpd F y yh eps, getf o 5, 0);
                  (@rmsle F y y, getf o 13, lat); (@rmspe F y y eps, getf o 14, 0); (@rpd F y y eps, getf o 15, 0)]
      else []).
Definition is0 (v : float) : bool := (v =? 0)%float.
Definition ge0 (v : float) : bool := (0 <=? v)%float.
Definition le1 (v : float) : bool := (v <=? 1)%float.
Definition cm_holds (y yh : list float) (eps : float) (o : list (option float)) : Z :=
  let nn := forallb nonneg y && forallb nonneg yh in
  let n3 := Nat.leb 3 (length y) in
  firstfail [
    (1%Z, forallb (present o) [0; 2; 6; 7; 8; 9; 10; 11; 12; 16; 17]%nat
          && (if n3 then present o 1 else true)
          && (if nn then forallb (present o) [3; 4; 5; 13; 14; 15]%nat else true));
    (2%Z, pred2 o 2 8 f_same);                                   (* rmse symmetric *)
    (3%Z, pred2 o 7 9 f_same);                                   (* smape symmetric *)
    (4%Z, pred2 o 6 10 f_same);                                  (* residuals symmetric *)
    (5%Z, pred1 o 2 ge0 && pred1 o 6 ge0 && pred1 o 7 ge0
          && (if nn then pred1 o 3 ge0 && pred1 o 4 ge0 && pred1 o 5 ge0 else true));   (* error metrics >= 0 *)
    (6%Z, pred1 o 7 (fun v => (v <=? 2 + 1e-9)%float));         (* smape <= 2 *)
    (7%Z, pred1 o 0 le1 && (if n3 then pred1 o 1 le1 else true));   (* R2 <= 1 *)
    (8%Z, pred1 o 11 (fun v => (v =? 1)%float) && pred1 o 12 is0 && pred1 o 16 is0 && pred1 o 17 is0
          && (if nn then pred1 o 13 is0 && pred1 o 14 is0 && pred1 o 15 is0 else true))   (* zero at y = yh *)
  ].

(* ---- CL ---- *)
Definition cl_dom (P : list (float * float)) (c : float * float) (eps : float) : bool :=
  Nat.leb 1 (length P) && forallb (fun p => fin (fst p) && fin (snd p)) P
  && fin (fst c) && fin (snd c) && (((0 <? eps)%float && (eps <=? 1)%float) || (eps =? 0)%float).
(* eps = 0 (no guard; outside the domain of the formula theorems, where a zero denominator gives NaN / an exception):
   only the clause "the wrapper equals the same metric applied to m*x + b, with the SAME eps" is judged, bit for bit,
   an exception on both sides counting as equal *)
Definition eps0 (eps : float) : bool := (eps =? 0)%float.
Definition pred2opt (o : list (option float)) (i j : nat) : bool :=
  match getf o i, getf o j with Some v, Some w => f_same v w | None, None => true | _, _ => false end.
Definition cl_holds0 (o : list (option float)) : Z :=
  firstfail [(3%Z, pred2opt o 4 13 && pred2opt o 5 14); (9%Z, pred2opt o 2 11)].
Definition opt_pair_cmps (m : float * float) (o : option (float * float)) : list cmp :=
  match o with
  | Some (b, k) => [(fst m, Some b, 0); (snd m, Some k, 0)]
  | None => [(0, None, 0)]
  end.
Definition cl_cmps (P : list (float * float)) (c : float * float) (eps : float) (fit : option (float * float))
           (yh_fit yh_c : list float) (o : list (option float)) : list cmp :=
  let x := @xs F P in let y := @ys F P in
  let n := length P in
  let n3 := Nat.leb 3 n in
  let mfit := @linear_fit_points F P in
  let myh := @linear_transform F x c in
  let nn := forallb nonneg y && forallb nonneg myh in
  let lat := 1e-12 * ln_scale (y ++ myh) in
  let pr := @bestfit_r2 F x y R2classic in
  let bf_ok := n3 && negb (f_isnan pr) in
  opt_pair_cmps mfit fit
  ++ cmps_of_lists (@linear_transform F x mfit) yh_fit
  ++ cmps_of_lists myh yh_c
  ++ [(@linear_r2_points F P c R2classic, getf o 0, 0)]
  ++ (if n3 then [(@linear_r2_points F P c R2adjusted, getf o 1, 0); (@r2 F y myh R2adjusted, getf o 10, 0)] else [])
  ++ [(@smape_points F P c eps, getf o 4, 0); (@rmse_points F P c, getf o 6, 0);
      (@linear_residuals_points F P c, getf o 7, 0); (@linear_fit_residuals_points F P, getf o 8, 0);
      (@r2 F y myh R2classic, getf o 9, 0)]
  ++ (if nn then [(@rmspe_points F P c eps, getf o 2, 0); (@rmsle_points F P c, getf o 3, lat);
                  (@rpd_points F P c eps, getf o 5, 0)] else [])
  ++ (if bf_ok then [(pr, getf o 18, 1e-11); (@bestfit_r2 F x y R2adjusted, getf o 19, 1e-11);
                     (@r2_points F P R2classic, getf o 20, 1e-11); (@r2_points F P R2adjusted, getf o 21, 1e-11)]
      else if Nat.leb n 2 then [(1, getf o 18, 0); (1, getf o 20, 0); (1, getf o 21, 0)] else []).

(* conditioning of 1 - rss/tss with respect to the one quantity that differs between NumPy's and numba's
   evaluation by more than a relative rounding error: the mean of y.  With u = 4 ulp of max|y|, the sum
   of squares about the mean moves by at most dts = sum (2 |y_i - mean| u + u^2); relative effect dts/tss.
   None = ill-conditioned (the two evaluations of TSS need not even agree on `tss == 0`). *)
Definition r2_cond (y : list float) : option float :=
  let mean := @np_mean F y in
  let u := 0x1p-50 * fold_left (fun acc v => fmax acc (PrimFloat.abs v)) y 0 in
  let dts := fold_left (fun acc v => acc + (2 * PrimFloat.abs (v - mean) * u + u * u)) y 0 in
  let tss := @np_sum F (map (fun v => (v - mean) * (v - mean)) y) in
  if (4 * dts <? tss)%float then Some (4 * dts / tss) else None.

Definition cl_holds (P : list (float * float)) (c : float * float) (eps : float) (fit : option (float * float))
           (yh_fit yh_c : list float) (o : list (option float)) : Z :=
  let x := @xs F P in let y := @ys F P in
  let n := length P in
  let n3 := Nat.leb 3 n in
  let myh := @linear_transform F x c in
  let nn := forallb nonneg y && forallb nonneg myh in
  let x0 := hd 0 x in let xl := last x 0 in
  let y0 := hd 0 y in let yl := last y 0 in
  let pr := @bestfit_r2 F x y R2classic in
  let bf_ok := n3 && negb (f_isnan pr) in
  let fn := of_uint63 (Uint63.of_Z (Z.of_nat n)) in
  firstfail [
    (1%Z, forallb (present o) [0; 4; 6; 7; 8; 9; 13; 15; 16; 17]%nat
          && (if n3 then present o 1 && present o 10 else true)
          && (if nn then forallb (present o) [2; 3; 5; 11; 12; 14]%nat else true));
    (* the end-point fit passes through the first and the last point (zero line when x[0] = x[-1]) *)
    (2%Z, match fit with
          | None => false
          | Some (b, m) =>
              if (x0 =? xl)%float then (b =? 0)%float && (m =? 0)%float
              else
                let atol := 1e-9 * (PrimFloat.abs (m * x0) + PrimFloat.abs (m * xl) + PrimFloat.abs y0 + PrimFloat.abs yl) in
                Nat.eqb (length yh_fit) n && f_close 1e-9 atol (hd 0 yh_fit) y0 && f_close 1e-9 atol (last yh_fit 0) yl
          end);
    (* wrapper = metric applied to m*x + b, bit for bit *)
    (3%Z, pred2 o 4 13 f_same && pred2 o 6 15 f_same && pred2 o 7 16 f_same && pred2 o 8 17 f_same
          && (if nn then pred2 o 3 12 f_same && pred2 o 5 14 f_same else true));
    (* linear_r2 (NumPy sums) vs metrics.r2 (numba sums) of the same line *)
    (4%Z, match r2_cond y with
          | None => true
          | Some k =>
              pred2 o 0 9 (fun a b => f_close 1e-9 ((1e-12 + k) * (1 + PrimFloat.abs (1 - b))) a b)
              && (if n3 then pred2 o 1 10 (fun a b => f_close 1e-9 ((1e-12 + k) * (1 + PrimFloat.abs (1 - b)) * (fn - 1)) a b) else true)
          end);
    (5%Z, pred1 o 0 le1 && (if n3 then pred1 o 1 le1 else true));
    (6%Z, pred1 o 4 (fun v => (0 <=? v) && (v <=? 2 + 1e-9))%float && pred1 o 6 ge0 && pred1 o 7 ge0 && pred1 o 8 ge0);
    (* best-fit R2: 1 for n <= 2; in [0,1]; adjusted = 1 - (1 - classic)(n-1)/(n-2); r2_points delegates *)
    (7%Z, if Nat.leb n 2 then pred1 o 18 (fun v => (v =? 1)%float) && pred1 o 20 (fun v => (v =? 1)%float)
                              && pred1 o 21 (fun v => (v =? 1)%float)
          else if bf_ok then
            pred1 o 18 (fun v => (0 <=? v) && (v <=? 1 + 1e-9))%float
            && pred2 o 18 19 (fun cl ad => f_same ad (1 - (1 - cl) * ((fn - 1) / (fn - 2))))
            && pred2 o 18 20 f_same && pred2 o 19 21 f_same
          else true);
    (* rmspe wrapper honours its eps argument (judged last: regression guard for the repaired defect) *)
    (9%Z, if nn then pred2 o 2 11 f_same else true)
  ].

(* result code = 100 * agree + holds *)
Definition comparisons (c : case) : list cmp :=
  match c with
  | CM y yh eps o => cm_cmps y yh eps o
  | CL P cf eps fit yf yc o => if eps0 eps then [] else cl_cmps P cf eps fit yf yc o
  end.
Definition in_dom (c : case) : bool :=
  match c with
  | CM y yh eps o => cm_dom y yh eps
  | CL P cf eps fit yf yc o => cl_dom P cf eps
  end.
Definition holds (c : case) : Z :=
  match c with
  | CM y yh eps o => cm_holds y yh eps o
  | CL P cf eps fit yf yc o => if eps0 eps then cl_holds0 o else cl_holds P cf eps fit yf yc o
  end.
(* conjunct 20 (judged last): "equals its textbook formula to within rounding" — the implementation's value is
   within tolerance of the formula of the *_def theorems evaluated on doubles (the same comparison as `agree`,
   reported as a property violation with a failing input when no other law breaks) *)
Definition holds20 (c : case) : Z :=
  let h := holds c in
  if (h =? 0)%Z then (if forallb cmp_ok (comparisons c) then 0%Z else 20%Z) else h.
Definition judge (c : case) : Z :=
  if negb (in_dom c) then 600%Z
  else (100 * (if forallb cmp_ok (comparisons c) then 0 else 1) + holds20 c)%Z.
(* judge + 1000 * (number of bit-exact comparisons) + 1000000 * (number of comparisons): the harness splits it *)
Definition judgex (c : case) : Z :=
  if negb (in_dom c) then 600%Z
  else (judge c + 1000 * Z.of_nat (length (filter cmp_exact (comparisons c)))
        + 1000000 * Z.of_nat (length (comparisons c)))%Z.

(* the model's own outputs, for replay files: (model value, implementation value, ok?) per comparison *)
Definition show (c : case) : list (float * option float * bool) :=
  map (fun t => (fst (fst t), snd (fst t), cmp_ok t)) (comparisons c).
