(* Run/JudgeC12.v — case type and judge for the C12 correspondence run (filter_clusters, filter_clusters_corners). *)
From Coq Require Import ZArith List Arith Bool PrimFloat.
From Knee Require Import Num NumFloat NpList.
From Knee Require Export Model.ClusterFilter.   (* the generated case files name the constructors of fmode *)
Import ListNotations.

Inductive case :=
  (* postprocessing.filter_clusters(points, knees, clustering, t, mode) returned `out` (None = exception);
     labels = what clustering(points[knees], t) returned; hull = graham_scan_lower(points);
     scores = kr.smooth_ranking(points, cluster, mode) per multi-member cluster (keyed by the cluster's knees);
     sd = sums of shortest distances keyed by inclusive absolute index ranges *)
  | CFilt (m : fmode) (xs ys : list float) (knees labels hull : list nat)
          (scores : list (list nat * list float)) (sd : list (nat * nat * float)) (out : option (list nat))
  (* postprocessing.filter_clusters_corners(points, knees, clustering, t) returned `out` *)
  | CCorner (xs ys : list float) (knees labels : list nat) (out : option (list nat))
  (* as CFilt, with the ranking score DERIVED in the model: r2tab = lf.r2(x[a:b], y[a:b]) keyed by the slice bounds (the only
     oracle of the left / linear / right score); obs = what kr.smooth_ranking returned per multi-member cluster, compared
     bit-for-bit with the derived score ("the ranking score is the stated one") *)
  | CFilt2 (m : fmode) (xs ys : list float) (knees labels hull : list nat)
           (r2tab : list (nat * nat * float)) (obs : list (list nat * list float)) (sd : list (nat * nat * float))
           (out : option (list nat))
  (* as CCorner; obs = postprocessing.rank_corners_triangle(points, cluster) per cluster, compared bit-for-bit with tri_score *)
  | CCorner2 (xs ys : list float) (knees labels : list nat) (obs : list (list nat * list float)) (out : option (list nat))
  (* a sequence of calls made on ONE points buffer (refilled in place between calls) and ONE knee array *)
  | CSeq (calls : list case) (intact : bool).

Definition F := T FloatNum.

Definition find_score (tab : list (list nat * list float)) (c : list nat) : option (list float) :=
  option_map snd (find (fun e => nat_list_eqb (fst e) c) tab).
Definition score_of (tab : list (list nat * list float)) (c : list nat) : list float :=
  match find_score tab c with Some r => r | None => [] end.
Definition find_sd (tab : list (nat * nat * float)) (l r : nat) : option float :=
  option_map snd (find (fun e => (fst (fst e) =? l) && (snd (fst e) =? r)) tab).
Definition sd_of (tab : list (nat * nat * float)) (l r : nat) : float :=
  match find_sd tab l r with Some v => v | None => nan end.

Definition opt_list_eqb (a b : option (list nat)) : bool :=
  match a, b with
  | Some x, Some y => nat_list_eqb x y
  | None, None => true
  | _, _ => false
  end.

(* the property's domain: a curve of n points, >= 2 strictly increasing knees, well-shaped labels; the knees are
   interior for the corner variant (it reads both neighbours of a knee), any valid index for filter_clusters
   (whose hull branch clamps the neighbours of the cluster span to the curve) *)
Definition domain (interior_only : bool) (xs ys : list float) (knees labels : list nat) : bool :=
  (length xs =? length ys) && (2 <=? length knees) && strictly_increasing knees
  && forallb (fun k => if interior_only then (1 <=? k) && (k + 1 <? length xs) else k <? length xs) knees
  && labels_ok labels knees.

Definition clusters (labels knees : list nat) : list (list nat) :=
  map (members labels knees) (seq 0 (S (max_label labels))).

(* every oracle entry the model will ask for is in the tables, with the right shape *)
Definition keys_ok (m : fmode) (n : nat) (knees labels hull : list nat)
           (scores : list (list nat * list float)) (sd : list (nat * nat * float)) : bool :=
  forallb (fun c =>
    if length c <=? 1 then true
    else if is_hull m then
      let a := hd 0 c in let b := last c 0 in
      let hw := filter (fun h => (a <=? h) && (h <=? b)) hull in
      if length hw <=? 1 then true
      else forallb (fun j => if mem j hw then
                               (match find_sd sd (a - 1) j with Some _ => true | None => false end)
                               && (match find_sd sd j (Nat.min (b + 1) (n - 1)) with Some _ => true | None => false end)
                             else true) c
    else match find_score scores c with Some r => length r =? length c | None => false end)
  (clusters labels knees).

(* the ranking the code sorts for cluster c (None: not ranked) *)
Definition rankings_of (m : fmode) (xs : list float) (hull : list nat)
           (scores : list (list nat * list float)) (sd : list (nat * nat * float)) (c : list nat) : option (list float) :=
  if length c <=? 1 then None
  else if is_hull m then @hull_rankings FloatNum hull (sd_of sd) xs c
  else Some (score_of scores c).

(* np.argsort's result decides the outcome only through its last element; that is determined by the input
   iff a single entry is maximal in NumPy's sort order (NaN last) *)
Definition top_tie (r : list float) : bool :=
  let p := last (@argsort_stable FloatNum r) 0 in
  let top := nth p r PrimFloat.zero in
  2 <=? length (filter (fun s => @key_le FloatNum top s) r).

Definition has_nan_scores (m : fmode) (knees labels : list nat) (scores : list (list nat * list float)) : bool :=
  existsb (fun c => negb (length c <=? 1) && negb (@all_notnan FloatNum (score_of scores c))) (clusters labels knees).

(* ---- derived-score judging (CFilt2 / CCorner2) ---- *)
Definition needs_left (m : fmode) : bool := match m with MLeft | MLinear => true | _ => false end.
Definition needs_right (m : fmode) : bool := match m with MRight | MLinear => true | _ => false end.
Definition has_key (tab : list (nat * nat * float)) (a b : nat) : bool :=
  match find_sd tab a b with Some _ => true | None => false end.
(* every lf.r2 slice the derived score asks for is in the table *)
Definition r2_keys_ok (m : fmode) (knees labels : list nat) (r2tab : list (nat * nat * float)) : bool :=
  forallb (fun c =>
    if length c <=? 1 then true
    else let j := hd 0 c in let kl := last c 0 in
         forallb (fun k => (if needs_left m then has_key r2tab j (k + 1) else true)
                           && (if needs_right m then has_key r2tab k kl else true)) c)
  (clusters labels knees).
Definition derived_score (m : fmode) (ys : list float) (r2tab : list (nat * nat * float)) (c : list nat) : list float :=
  @smooth_score FloatNum (sd_of r2tab) ys m c.
(* the observed score lists equal the derived ones bit-for-bit on every cluster selected by `sel` *)
Definition obs_same (sel : list nat -> bool) (scoref : list nat -> list float) (labels knees : list nat)
           (obs : list (list nat * list float)) : bool :=
  forallb (fun c => if sel c then match find_score obs c with
                                  | Some r => list_all2 f_same r (scoref c)
                                  | None => false
                                  end
                    else true) (clusters labels knees).

(* result code = 100 * agree + holds *)

(* ---- same-object multi-call stream: the sub-cases are the calls of ONE sequence made on one points buffer and one knee
   array; `intact` = after the sequence the caller's arguments still hold what was passed (snapshot comparison).
   agree: worst of the calls (1/4 over 5 over 0; 6 when every call is outside the domain);
   holds: the first failed conjunct of a call inside the domain, else 8 when an argument was rewritten in place. ---- *)
Definition combine_codes (codes : list Z) (intact : bool) : Z :=
  let inside := filter (fun z => negb (z / 100 =? 6)%Z) codes in
  match inside with
  | [] => 600%Z
  | _ =>
      let has a := existsb (fun z => (z / 100 =? a)%Z) inside in
      let a := if has 1%Z then 1%Z else if has 4%Z then 4%Z else if has 5%Z then 5%Z else 0%Z in
      let h := match find (fun z => negb (z mod 100 =? 0)%Z) inside with
               | Some z => (z mod 100)%Z
               | None => if intact then 0%Z else 8%Z
               end in
      (100 * a + h)%Z
  end.

Fixpoint judge (c : case) {struct c} : Z :=
  match c with
  | CFilt m xs ys knees labels hull scores sd out =>
      if negb (domain false xs ys knees labels) then 600%Z else
      if negb (keys_ok m (length xs) knees labels hull scores sd) then 400%Z else
      let model := @filter_clusters FloatNum (@argsort_stable FloatNum) (score_of scores) hull (sd_of sd) xs m labels knees in
      let tie := existsb (fun c => match rankings_of m xs hull scores sd c with Some r => top_tie r | None => false end)
                         (clusters labels knees) in
      let a := if tie then 5%Z else if opt_list_eqb model out then 0%Z else 1%Z in
      let h := match out with
               | None => 9%Z
               | Some o =>
                   if is_hull m then (if hull_ok_b hull labels knees o then 0%Z else 1%Z)
                   else if negb (one_per_cluster_b labels knees o) then 1%Z
                   else if negb (@best_b FloatNum true (score_of scores) labels knees o) then 2%Z else 0%Z
               end in
      (100 * a + h)%Z
  | CCorner xs ys knees labels out =>
      if negb (domain true xs ys knees labels) then 600%Z else
      let model := @filter_clusters_corners FloatNum xs ys labels knees in
      let a := if opt_list_eqb model out then 0%Z else 1%Z in
      let h := match out with
               | None => 9%Z
               | Some o =>
                   if negb (one_per_cluster_b labels knees o) then 1%Z
                   else if negb (@best_b FloatNum false (fun c => map (@tri_score FloatNum xs ys) c) labels knees o) then 2%Z else 0%Z
               end in
      (100 * a + h)%Z
  | CFilt2 m xs ys knees labels hull r2tab obs sd out =>
      if negb (domain false xs ys knees labels) then 600%Z else
      if negb (if is_hull m then keys_ok m (length xs) knees labels hull [] sd else r2_keys_ok m knees labels r2tab) then 400%Z else
      let sc := derived_score m ys r2tab in
      let model := @filter_clusters FloatNum (@argsort_stable FloatNum) sc hull (sd_of sd) xs m labels knees in
      let ranked c := if length c <=? 1 then None
                      else if is_hull m then @hull_rankings FloatNum hull (sd_of sd) xs c else Some (sc c) in
      let tie := existsb (fun c => match ranked c with Some r => top_tie r | None => false end) (clusters labels knees) in
      let a := if tie then 5%Z else if opt_list_eqb model out then 0%Z else 1%Z in
      let h := match out with
               | None => 9%Z
               | Some o =>
                   if is_hull m then
                     (if negb (hull_ok_b hull labels knees o) then 1%Z
                      else if negb (@best_b FloatNum true (@hull_score FloatNum hull (sd_of sd) xs) labels knees o) then 2%Z else 0%Z)
                   else if negb (one_per_cluster_b labels knees o) then 1%Z
                   else if negb (@best_b FloatNum true sc labels knees o) then 2%Z
                   else if negb (obs_same (fun c => negb (length c <=? 1)) sc labels knees obs) then 3%Z else 0%Z
               end in
      (100 * a + h)%Z
  | CCorner2 xs ys knees labels obs out =>
      if negb (domain true xs ys knees labels) then 600%Z else
      let sc := fun c => map (@tri_score FloatNum xs ys) c in
      let model := @filter_clusters_corners FloatNum xs ys labels knees in
      let a := if opt_list_eqb model out then 0%Z else 1%Z in
      let h := match out with
               | None => 9%Z
               | Some o =>
                   if negb (one_per_cluster_b labels knees o) then 1%Z
                   else if negb (@best_b FloatNum false sc labels knees o) then 2%Z
                   else if negb (obs_same (fun _ => true) sc labels knees obs) then 3%Z else 0%Z
               end in
      (100 * a + h)%Z
  | CSeq calls intact => combine_codes (map judge calls) intact
  end.

(* the model's own output, for replay files *)
Fixpoint show (c : case) {struct c} : list (option (list nat)) :=
  match c with
  | CFilt m xs ys knees labels hull scores sd out =>
      [@filter_clusters FloatNum (@argsort_stable FloatNum) (score_of scores) hull (sd_of sd) xs m labels knees]
  | CCorner xs ys knees labels out => [@filter_clusters_corners FloatNum xs ys labels knees]
  | CFilt2 m xs ys knees labels hull r2tab obs sd out =>
      [@filter_clusters FloatNum (@argsort_stable FloatNum) (derived_score m ys r2tab) hull (sd_of sd) xs m labels knees]
  | CCorner2 xs ys knees labels obs out => [@filter_clusters_corners FloatNum xs ys labels knees]
  | CSeq calls intact => flat_map show calls
  end.
