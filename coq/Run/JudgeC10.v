(* Run/JudgeC10.v — case type and judge for the C10 correspondence run (zmethod.knees). *)
From Coq Require Import ZArith List Arith Bool PrimFloat.
From Knee Require Import Num NumFloat NpList Model.Zmethod.
Import ListNotations.

Inductive case :=
  (* zmethod.knees(points, dx, dy, dz, x_max, y_range) on points = zip(ks, ys) (integer x), with the oracle
     zs = uts.zscore.zscore_array(x, uts.gradient.csd(x, y)), returned `out` (None = exception or time-out)
     after `rounds` executions of the while body (None = not observed) *)
  | CZ (ks : list Z) (ys zs : list float) (dx dy dz : float) (xmax : option Z) (yr : option (float * float))
       (out : option (list nat)) (rounds : option nat).

Local Notation F := FloatNum.

Definition mkrows (ks : list Z) (ys zs : list float) : list (@row F) :=
  combine (combine (map (@ofZ F) ks) ys) zs.

Fixpoint Zsi (l : list Z) : bool :=
  match l with a :: ((b :: _) as l') => (a <? b)%Z && Zsi l' | _ => true end.
(* the integer keys are represented exactly: int(float(k)) = k and float comparison = integer comparison *)
Definition int_ok (ks : list Z) : bool :=
  forallb (fun k => match @truncZ F (@ofZ F k) with Some k' => (k =? k')%Z | None => false end) ks
  && forallb (fun a => forallb (fun b => Bool.eqb (@ltb F (@ofZ F a) (@ofZ F b)) (a <? b)%Z) ks) ks.
Definition in01 (x : float) : bool := @leb F 0%float x && @leb F x 1%float.
Definition in_01 (x : float) : bool := @ltb F 0%float x && @leb F x 1%float.

Definition domain (ks : list Z) (ys zs : list float) (dx dy dz : float) (xmax : option Z) (yr : option (float * float)) : bool :=
  let n := length ks in
  (4 <=? n) && (length ys =? n) && (length zs =? n)
  && Zsi ks && forallb (fun k => (0 <=? k)%Z && (k <? 2 ^ 52)%Z) ks && int_ok ks
  && forallb in01 ys && forallb (fun z => negb (f_isnan z)) zs
  && in_01 dx && in_01 dy && in_01 dz
  && match xmax with Some m => (0 <? m)%Z && (m <? 2 ^ 52)%Z | None => true end
  && match yr with Some (a, b) => negb (f_isnan a) && negb (f_isnan b) | None => true end.

Definition opt_nats_eqb (a b : option (list nat)) : bool :=
  match a, b with
  | Some x, Some y => nat_list_eqb x y
  | None, None => true
  | _, _ => false
  end.
Definition match_res (out : option (list nat)) (rounds : option nat) (r : zres (list nat)) : bool :=
  match r with
  | RFuel => false
  | RErr => match out with None => true | Some _ => false end
  | RDone ix k => opt_nats_eqb out (Some ix) && match rounds with None => true | Some k' => k =? k' end
  end.

Definition kfuel : nat := 20000.

(* result code = 100 * agree + holds.
   agree: 0 the implementation's (knees, rounds) is one of the model's results under the orders of tied candidates,
          1 it is not, 5 more than 64 such orders (judged on the predicate only), 6 outside the property's domain
          (n < 4, or a precondition of z_total not established)
   holds: 0 ok; 1 no result (exception / time-out); 2 indices not strictly increasing or out of range; 3 heights not
          non-increasing; 4 two knees closer than w in x; 5 two knees closer than h in y; 6 more than K + n + 2 rounds *)
Definition judge (c : case) : Z :=
  match c with
  | CZ ks ys zs dx dy dz xmax yr out rounds =>
      if negb (domain ks ys zs dx dy dz xmax yr) then 600%Z else
      let rows := mkrows ks ys zs in
      let n := length rows in
      let xs := map (@ofZ F) ks in
      match params (N:=F) rows dx dy xmax yr with
      | Some None => 600%Z
      | None =>
          let a := if match_res out rounds (RDone [] 0) then 0%Z else 1%Z in
          let h := match out with
                   | None => 1%Z
                   | Some ix => if negb (valid_ix n ix) then 2%Z else if negb (heights_ok (N:=F) ys ix) then 3%Z else 0%Z
                   end in
          (100 * a + h)%Z
      | Some (Some p) =>
          let w := zp_w p in let h := zp_h p in let minz := zp_minz p in
          match find_K (N:=F) dz minz kfuel 0 (@ofZ F 3) with
          | None => 600%Z
          | Some K =>
              if negb (sched_ok (N:=F) dz minz K (n + 2) && self_removed (N:=F) w h rows) then 600%Z else
              let fuel := K + n + 2 in
              let a := match knees_set (N:=F) fuel rows dx dy dz xmax yr with
                       | None => 5%Z
                       | Some rs => if existsb (match_res out rounds) rs then 0%Z else 1%Z
                       end in
              let hd := match out with
                        | None => 1%Z
                        | Some ix =>
                            if negb (valid_ix n ix) then 2%Z
                            else if negb (heights_ok (N:=F) ys ix) then 3%Z
                            else if negb (xsep_ok (N:=F) w xs ix) then 4%Z
                            else if negb (ysep_ok (N:=F) h ys ix) then 5%Z
                            else match rounds with
                                 | Some r => if r <=? fuel then 0%Z else 6%Z
                                 | None => 0%Z
                                 end
                        end in
              (100 * a + hd)%Z
          end
      end
  end.

(* the model's own outputs, for replay files: (K, results under all tie orders) *)
Definition show (c : case) : option nat * option (list (zres (list nat))) :=
  match c with
  | CZ ks ys zs dx dy dz xmax yr out rounds =>
      let rows := mkrows ks ys zs in
      match params (N:=F) rows dx dy xmax yr with
      | Some (Some p) =>
          match find_K (N:=F) dz (zp_minz p) kfuel 0 (@ofZ F 3) with
          | Some K => (Some K, knees_set (N:=F) (K + length rows + 2) rows dx dy dz xmax yr)
          | None => (None, None)
          end
      | _ => (None, knees_set (N:=F) 0 rows dx dy dz xmax yr)
      end
  end.
