(* Run/JudgeC05.v — case type and judge for the C05 correspondence run (whole chains rdp_fixed(points, k), k = 0..n+1). *)
From Coq Require Import ZArith List Arith Bool PrimFloat.
From Knee Require Import Num NumFloat NpList Model.Mapping Model.RdpFixed Model.RdpFixedSpec.
Import ListNotations.

Fixpoint assoc {A B} (eqb : A -> A -> bool) (k : A) (tab : list (A * B)) : option B :=
  match tab with
  | [] => None
  | (k', v) :: tab' => if eqb k k' then Some v else assoc eqb k tab'
  end.
Definition dtab_t := list ((nat * nat) * list float).
Definition ptab_t := list ((nat * nat) * float).
Definition dist_of (tab : dtab_t) (l r : nat) : list float :=
  match assoc seg_eqb (l, r) tab with Some d => d | None => [] end.
Definition prio_of (tab : ptab_t) (l r : nat) : float :=
  match assoc seg_eqb (l, r) tab with Some p => p | None => nan end.
Definition has_seg {B} (tab : list ((nat * nat) * B)) (l r : nat) : bool :=
  match assoc seg_eqb (l, r) tab with Some _ => true | None => false end.
Definition f_eps : float := 0x1p-52%float.     (* np.finfo(float).eps *)

(* every segment with interior points of every index set in the list has a dist entry, and (unless it is the
   root (0,n)) a priority entry *)
Definition segs_present (n : nat) (dt : dtab_t) (pt : ptab_t) (sets : list (list nat)) : bool :=
  forallb (fun S => forallb (fun ab => negb (wideb ab) ||
                                      (has_seg dt (fst ab) (snd ab + 1) &&
                                       (((fst ab =? 0) && (snd ab + 1 =? n)) || has_seg pt (fst ab) (snd ab + 1))))
                            (adj_pairs S)) sets.
(* shape facts of the oracle tables: length (dist l r) = r - l *)
Definition shapes_ok (dt : dtab_t) : bool :=
  forallb (fun e => length (snd e) =? snd (fst e) - fst (fst e)) dt.

Inductive case :=
  (* outs = [rdp_fixed(points, k, distance, order) for k in 0..n+1] on a curve of n points (None = exception / time-out);
     dt, pt = the library's distance / order primitives evaluated on the segments *)
  | CChain (n : nat) (dt : dtab_t) (pt : ptab_t) (outs : list out_t).

Definition model_chain (n : nat) (dt : dtab_t) (pt : ptab_t) : list out_t :=
  map (fun k => @rdp_fixed FloatNum n f_eps (dist_of dt) (prio_of pt) n k) (seq 0 (n + 2)).

(* result code = 100 * agree + holds.
   agree: 0 the model's chain = the implementation's chain, 1 differs, 4 an oracle entry the model needs is missing,
          5 a priority is NaN (Python's sort on NaN keys is not modelled; judged on the predicate only), 6 outside the domain
   holds (the predicate of theorem C05_chain, on the implementation's chain):
          1 size / well-formedness, 2 not nested with the guarded split index, 3 split segment not of maximal priority,
          4 an interior point is farther than the chosen one, 8 oracle entry missing for the implementation's chain, 9 chain length *)
Definition judge (c : case) : Z :=
  match c with
  | CChain n dt pt outs =>
      if negb (2 <=? n) then 600%Z else
      let mc := model_chain n dt pt in
      let ordered := forallb (fun e => negb (f_isnan (snd e))) pt in
      let a := if negb (shapes_ok dt) then 1%Z
               else if negb (segs_present n dt pt (map red_of mc)) then 4%Z
               else if negb ordered then 5%Z
               else if list_eqb out_eqb mc outs then 0%Z else 1%Z in
      let h := if negb (segs_present n dt pt (map red_of outs)) then
                 (* a malformed chain can also show up as missing entries: report the size code first *)
                 match @chain_code FloatNum n f_eps (dist_of dt) (prio_of pt) ordered outs with
                 | 0 => 8%Z | c => Z.of_nat c end
               else Z.of_nat (@chain_code FloatNum n f_eps (dist_of dt) (prio_of pt) ordered outs) in
      (100 * a + h)%Z
  end.

Definition show (c : case) : list out_t :=
  match c with CChain n dt pt outs => model_chain n dt pt end.
