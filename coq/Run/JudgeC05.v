(* Run/JudgeC05.v — case type and judge for the C05 correspondence run (whole chains rdp_fixed(points, k), k = 0..n+1). *)
From Coq Require Import ZArith List Arith Bool PrimFloat.
From Knee Require Import Num NumFloat NpList Model.Mapping Model.RdpFixed Model.RdpFixedSpec.
From Knee Require Export Model.RdpFixed.
Import ListNotations.

Fixpoint assoc {A B} (eqb : A -> A -> bool) (k : A) (tab : list (A * B)) : option B :=
  match tab with
  | [] => None
  | (k', v) :: tab' => if eqb k k' then Some v else assoc eqb k tab'
  end.
Definition dtab_t := list ((nat * nat) * list float).
Definition ptab_t := list ((nat * nat) * float).
Definition dist_of (tab : dtab_t) (l r : nat) : list float :=
  match assoc seg_eqb (l, r) tab with Some d => d | None => [] end.
Definition prio_of (tab : ptab_t) (l r : nat) : float :=
  match assoc seg_eqb (l, r) tab with Some p => p | None => nan end.
Definition has_seg {B} (tab : list ((nat * nat) * B)) (l r : nat) : bool :=
  match assoc seg_eqb (l, r) tab with Some _ => true | None => false end.
Definition f_eps : float := 0x1p-52%float.     (* np.finfo(float).eps *)

(* the ordering score derived from its stated definition (Model/RdpFixed.v prio_derived): ct = chord table
   (np.linalg.norm(points[l] - points[r-1]), order = triangle), rt = residual table (lf.linear_fit_residuals_points(points[l:r]),
   order = segment); area needs only the configured distance table *)
Definition prio_fn (ord : order) (dt : dtab_t) (ct rt : ptab_t) : nat -> nat -> float :=
  @prio_derived FloatNum ord (prio_of ct) (prio_of rt) (dist_of dt).
Definition prio_present (ord : order) (ct rt : ptab_t) (l r : nat) : bool :=
  match ord with OTriangle => has_seg ct l r | OArea => true | OSegment => has_seg rt l r end.

(* every segment with interior points of every index set in the list has a dist entry, and (unless it is the
   root (0,n)) the entries its priority is derived from *)
Definition segs_present (n : nat) (ord : order) (dt : dtab_t) (ct rt : ptab_t) (sets : list (list nat)) : bool :=
  forallb (fun S => forallb (fun ab => negb (wideb ab) ||
                                      (has_seg dt (fst ab) (snd ab + 1) &&
                                       (((fst ab =? 0) && (snd ab + 1 =? n)) || prio_present ord ct rt (fst ab) (snd ab + 1))))
                            (adj_pairs S)) sets.
(* shape facts of the oracle tables: length (dist l r) = r - l *)
Definition shapes_ok (dt : dtab_t) : bool :=
  forallb (fun e => length (snd e) =? snd (fst e) - fst (fst e)) dt.
(* Tier O precondition of the greedy clause: every derived priority of a tabulated non-root segment is non-NaN *)
Definition prios_ordered (n : nat) (ord : order) (dt : dtab_t) (ct rt : ptab_t) : bool :=
  forallb (fun e => let l := fst (fst e) in let r := snd (fst e) in
                    ((l =? 0) && (r =? n)) || negb (prio_present ord ct rt l r) || negb (f_isnan (prio_fn ord dt ct rt l r))) dt.
(* "the ordering score is the stated one": what rdp.order_* returned for a child segment (l,r) of a split the run performed
   equals the derived value bit-for-bit *)
Definition scores_ok (ord : order) (dt : dtab_t) (ct rt : ptab_t) (ot : ptab_t) : bool :=
  forallb (fun e => f_same (snd e) (prio_fn ord dt ct rt (fst (fst e)) (snd (fst e)))) ot.

Inductive case :=
  (* outs = [rdp_fixed(points, k, distance, order) for k in 0..n+1] on a curve of n points (None = exception / time-out);
     dt = configured distance primitive on the segments; ct / rt = chord lengths / fit residuals of the segments;
     ot = (child segment, score) pairs returned by rdp.order_<ord>(points[a:b+1], g-a, distance_points) for the splits of the chain *)
  | CChain (n : nat) (ord : order) (dt : dtab_t) (ct rt ot : ptab_t) (outs : list out_t).

Definition model_chain (n : nat) (ord : order) (dt : dtab_t) (ct rt : ptab_t) : list out_t :=
  map (fun k => @rdp_fixed FloatNum n f_eps (dist_of dt) (prio_fn ord dt ct rt) n k) (seq 0 (n + 2)).

(* result code = 100 * agree + holds.
   agree: 0 the model's chain (with DERIVED priorities) = the implementation's chain, 1 differs, 4 an oracle entry the model needs
          is missing, 5 a priority is NaN (Python's sort on NaN keys is not modelled; judged on the predicate only), 6 outside the domain
   holds (the predicate of theorem C05_chain_holds with the derived priorities, on the implementation's chain):
          1 size / well-formedness, 2 not nested with the guarded split index, 3 split segment not of maximal (derived) priority,
          4 an interior point is farther than the chosen one, 5 an ordering score returned by rdp.order_* is not the stated one,
          8 oracle entry missing for the implementation's chain, 9 chain length *)
Definition judge (c : case) : Z :=
  match c with
  | CChain n ord dt ct rt ot outs =>
      if negb (2 <=? n) then 600%Z else
      let pr := prio_fn ord dt ct rt in
      let mc := model_chain n ord dt ct rt in
      let ordered := prios_ordered n ord dt ct rt in
      let a := if negb (shapes_ok dt) then 1%Z
               else if negb (segs_present n ord dt ct rt (map red_of mc)) then 4%Z
               else if negb ordered then 5%Z
               else if list_eqb out_eqb mc outs then 0%Z else 1%Z in
      let cc := @chain_code FloatNum n f_eps (dist_of dt) pr ordered outs in
      let h := match cc with
               | 0 => if negb (segs_present n ord dt ct rt (map red_of outs)) then 8%Z
                      else if negb (scores_ok ord dt ct rt ot) then 5%Z else 0%Z
               | c => Z.of_nat c
               end in
      (100 * a + h)%Z
  end.

Definition show (c : case) : list out_t * list ((nat * nat) * float) :=
  match c with CChain n ord dt ct rt ot outs =>
    (model_chain n ord dt ct rt, map (fun e => (fst e, prio_fn ord dt ct rt (fst (fst e)) (snd (fst e)))) ot) end.
