(* Run/JudgeC05.v — case type and judge for the C05 correspondence run (whole chains rdp_fixed(points, k), k = 0..n+1). *)
From Coq Require Import ZArith List Arith Bool PrimFloat.
From Knee Require Import Num NumFloat NpList Model.Mapping Model.LinearFit Model.RdpFixed Model.RdpFixedPrio Model.RdpFixedSpec.
From Knee Require Export Model.RdpFixed.
Import ListNotations.

Fixpoint assoc {A B} (eqb : A -> A -> bool) (k : A) (tab : list (A * B)) : option B :=
  match tab with
  | [] => None
  | (k', v) :: tab' => if eqb k k' then Some v else assoc eqb k tab'
  end.
Definition dtab_t := list ((nat * nat) * list float).
Definition ptab_t := list ((nat * nat) * float).
Definition dist_of (tab : dtab_t) (l r : nat) : list float :=
  match assoc seg_eqb (l, r) tab with Some d => d | None => [] end.
Definition prio_of (tab : ptab_t) (l r : nat) : float :=
  match assoc seg_eqb (l, r) tab with Some p => p | None => nan end.
Definition has_seg {B} (tab : list ((nat * nat) * B)) (l r : nat) : bool :=
  match assoc seg_eqb (l, r) tab with Some _ => true | None => false end.
Definition f_eps : float := 0x1p-52%float.     (* np.finfo(float).eps *)

(* the ordering score derived from its stated definition (Model/RdpFixed.v prio_derived, Model/RdpFixedPrio.v):
   triangle: 0.5 * chord * max(configured distance), ct = chord table (np.linalg.norm(points[l] - points[r-1]), an oracle);
   area: pairwise sum of the configured distances; segment: the end-point-fit residual of points[l:r], COMPUTED here from
   the points (bit-reproducible).  rt = what lf.linear_fit_residuals_points returned, only compared (resid_ok). *)
Definition pts_t := list (float * float).
Definition prio_fn (ord : order) (pts : pts_t) (dt : dtab_t) (ct : ptab_t) : nat -> nat -> float :=
  @prio_closed FloatNum pts ord (prio_of ct) (dist_of dt).
Definition prio_present (ord : order) (ct : ptab_t) (l r : nat) : bool :=
  match ord with OTriangle => has_seg ct l r | _ => true end.

(* every segment with interior points of every index set in the list has a dist entry, and (unless it is the
   root (0,n)) the entries its priority is derived from *)
Definition segs_present (n : nat) (ord : order) (dt : dtab_t) (ct : ptab_t) (sets : list (list nat)) : bool :=
  forallb (fun S => forallb (fun ab => negb (wideb ab) ||
                                      (has_seg dt (fst ab) (snd ab + 1) &&
                                       (((fst ab =? 0) && (snd ab + 1 =? n)) || prio_present ord ct (fst ab) (snd ab + 1))))
                            (adj_pairs S)) sets.
(* shape facts of the oracle tables: length (dist l r) = r - l *)
Definition shapes_ok (dt : dtab_t) : bool :=
  forallb (fun e => length (snd e) =? snd (fst e) - fst (fst e)) dt.
(* Tier O precondition of the greedy clause: every derived priority of a tabulated non-root segment is non-NaN *)
Definition prios_ordered (n : nat) (ord : order) (pts : pts_t) (dt : dtab_t) (ct : ptab_t) : bool :=
  forallb (fun e => let l := fst (fst e) in let r := snd (fst e) in
                    ((l =? 0) && (r =? n)) || negb (prio_present ord ct l r) || negb (f_isnan (prio_fn ord pts dt ct l r))) dt.
(* "the ordering score is the stated one": what rdp.order_* returned for a child segment (l,r) of a split the run performed
   equals the derived value bit-for-bit *)
Definition scores_ok (ord : order) (pts : pts_t) (dt : dtab_t) (ct ot : ptab_t) : bool :=
  forallb (fun e => f_same (snd e) (prio_fn ord pts dt ct (fst (fst e)) (snd (fst e)))) ot.
(* "the fit residual is the stated one": lf.linear_fit_residuals_points(points[l:r]) equals the formula layer's value bit-for-bit *)
Definition resid_ok (pts : pts_t) (rt : ptab_t) : bool :=
  forallb (fun e => f_same (snd e) (@resid_pts FloatNum pts (fst (fst e)) (snd (fst e)))) rt.

(* outs = [rdp_fixed(points, k, distance, order) for k in 0..n+1] on a curve pts of n points (None = exception / time-out);
   dt = configured distance primitive on the segments; ct = chord lengths; rt = fit residuals as the library returns them;
   ot = (child segment, score) pairs returned by rdp.order_<ord>(points[a:b+1], g-a, distance_points) for the splits of the chain *)
Inductive chain := CH (n : nat) (ord : order) (pts : pts_t) (dt : dtab_t) (ct rt ot : ptab_t) (outs : list out_t).
Inductive case :=
  | CChain (n : nat) (ord : order) (pts : pts_t) (dt : dtab_t) (ct rt ot : ptab_t) (outs : list out_t)
  (* same-object stream: the chains of several configurations (and curves refilled in place) whose calls were interleaved on ONE
     array object; tables come from fresh copies *)
  | CSeq (parts : list chain).

Definition model_chain (n : nat) (ord : order) (pts : pts_t) (dt : dtab_t) (ct : ptab_t) : list out_t :=
  map (fun k => @rdp_fixed FloatNum n f_eps (dist_of dt) (prio_fn ord pts dt ct) n k) (seq 0 (n + 2)).

(* result code = 100 * agree + holds.
   agree: 0 the model's chain (with DERIVED priorities) = the implementation's chain, 1 differs, 4 an oracle entry the model needs
          is missing, 5 a priority is NaN (Python's sort on NaN keys is not modelled; judged on the predicate only), 6 outside the domain
   holds (the predicate of theorem C05_chain_holds with the derived priorities, on the implementation's chain):
          1 size / well-formedness, 2 not nested with the guarded split index, 3 split segment not of maximal (derived) priority,
          4 an interior point is farther than the chosen one, 5 an ordering score returned by rdp.order_* is not the stated one,
          6 lf.linear_fit_residuals_points is not the stated residual, 8 oracle entry missing for the implementation's chain, 9 chain length *)
Definition judge_chain (c : chain) : Z :=
  match c with
  | CH n ord pts dt ct rt ot outs =>
      if negb (2 <=? n) then 600%Z else
      let pr := prio_fn ord pts dt ct in
      let mc := model_chain n ord pts dt ct in
      let ordered := prios_ordered n ord pts dt ct in
      let a := if negb (shapes_ok dt && (length pts =? n)) then 1%Z
               else if negb (segs_present n ord dt ct (map red_of mc)) then 4%Z
               else if negb ordered then 5%Z
               else if list_eqb out_eqb mc outs then 0%Z else 1%Z in
      let cc := @chain_code FloatNum n f_eps (dist_of dt) pr ordered outs in
      let h := match cc with
               | 0 => if negb (segs_present n ord dt ct (map red_of outs)) then 8%Z
                      else if negb (scores_ok ord pts dt ct ot) then 5%Z
                      else if negb (resid_ok pts rt) then 6%Z else 0%Z
               | c => Z.of_nat c
               end in
      (100 * a + h)%Z
  end.
(* a sequence is judged by its worst part: a false predicate first, then a disagreement *)
Definition merge_codes (cs : list Z) : Z :=
  match find (fun c => negb (c / 100 =? 6)%Z && negb (c mod 100 =? 0)%Z) cs with
  | Some c => c
  | None => match find (fun c => negb (c =? 0)%Z && negb (c / 100 =? 6)%Z) cs with
            | Some c => c
            | None => if forallb (fun c => (c / 100 =? 6)%Z) cs then 600%Z else 0%Z
            end
  end.
Definition judge (c : case) : Z :=
  match c with
  | CChain n ord pts dt ct rt ot outs => judge_chain (CH n ord pts dt ct rt ot outs)
  | CSeq parts => merge_codes (map judge_chain parts)
  end.

Definition show_chain (c : chain) : list out_t * list ((nat * nat) * float) :=
  match c with CH n ord pts dt ct rt ot outs =>
    (model_chain n ord pts dt ct, map (fun e => (fst e, prio_fn ord pts dt ct (fst (fst e)) (snd (fst e)))) ot) end.
Definition show (c : case) :=
  match c with
  | CChain n ord pts dt ct rt ot outs => [show_chain (CH n ord pts dt ct rt ot outs)]
  | CSeq parts => map show_chain parts
  end.
