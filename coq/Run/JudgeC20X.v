(* Run/JudgeC20X.v — case type and judge for the C20X correspondence run: the public functions that no property
   C01-C19 models (Model/Extras.v).  agree = the Gallina function's value equals the implementation's (indices exactly,
   doubles BIT FOR BIT: everything here is built from + - * / abs, comparisons, NumPy's pairwise sum and numba's
   left-fold sum; the only oracle is libm's atan in `angle`, given as a finite table); holds = the structural
   predicate the theorems of Props/C20X.v (C20_refine_* in Props/C20.v) are stated with, evaluated on the
   implementation's output.  Used stand-alone (./check C20X) and through Run/JudgeC20.v (constructor CRefine). *)
From Coq Require Import ZArith List Bool Arith PrimFloat.
From Knee Require Import Model.Uts Model.DetectorsFormula.   (* before LinearFit: both define linear_fit / pt; the later import wins *)
From Knee Require Import Num NumFloat NpList Model.Metrics Model.LinearFit Model.Geometry.
From Knee Require Export Model.Extras Model.ExtrasZ Model.ExtrasKneedle.
Import ListNotations.

Definition XF := FloatNum.
Definition fpt : Type := (float * float)%type.

Inductive case :=
  (* which = 0 get_neighbourhood(x, y, a, b, t), 1 get_neighbourhood_points(P, ...), 2 get_neighbourhood_fast, 3 get_neighbourhood_fast_points;
     out = the returned (index, r2, slope), None = exception *)
  | XNb (which : nat) (x y : list float) (a b : nat) (t : float) (out : option (nat * float * float))
  (* get_neighbourhood_binary(x, y, a, b, t) = out *)
  | XNbBin (x y : list float) (a b : nat) (t : float) (out : option nat)
  (* accuracy_knee(P, knees, t) (trace = false; t is ignored by the code) / accuracy_trace(P, knees) (trace = true) = the five numbers *)
  | XAcc (trace : bool) (P : list fpt) (knees : list nat) (out : option (list float))
  (* knee_ranking.slope_ranking(P, knees, t) = out *)
  | XSlope (P : list fpt) (knees : list nat) (t : float) (out : option (list float))
  (* linear_hv_residuals(x, y) (pts = false) / linear_hv_residuals_points(P) (pts = true) = out *)
  | XHv (pts : bool) (x y : list float) (out : option float)
  (* linear_fit_transform(x, y, vertical) / _points: out = (None, y_hat) or (Some axis, fitted) *)
  | XFt (pts : bool) (x y : list float) (vertical : bool) (out : option (option (list float) * list float))
  (* angle(c1, c2) with Python floats (pyfloat) or np.float64 scalars; tbl = [(argument, math.atan(argument))] *)
  | XAngle (pyfloat : bool) (c1 c2 : fpt) (tbl : list (float * float)) (out : option float)
  (* zmethod.knees2(P, dx, dy, out) with mode = 0 zscore / 1 iqr / 2 hampel; ORACLES yd2 = uts.gradient.csd(x, y),
     z = uts.zscore.zscore_array(x, yd2) (zscore mode, else []), q = np.percentile(yd2, [25, 75]) (iqr mode, else (0, 0)) *)
  | XK2 (P : list fpt) (dx dy : float) (mode : nat) (yd2 z : list float) (q : float * float) (out : option (list nat))
  (* kneedle.knees(P, t, sensitivity, p) with pd = 0 Kneedle / 1 ZScore / 2 Significant / 3 All.  ORACLES: Ds = uts.ema.ema_linear(P, t);
     sel_ccw / sel_cw = what the uts selector returns on the library's own difference curve and its peaks (per concavity).
     dd_ccw / dd_cw = the y column of the library's difference curves (kneedle._knees(..., debug=True)['dd']) *)
  | XKn (P Ds : list fpt) (pd : nat) (dd_ccw dd_cw : list float) (sel_ccw sel_cw : list nat) (out : option (list nat))
  | XSkip.

(* ---- helpers ---- *)
Definition fsame_list (u v : list float) : bool := list_all2 f_same u v.
Definition xnotnan (v : float) : bool := negb (f_isnan v).
Fixpoint xhas_tie (l : list float) : bool :=
  match l with [] => false | x :: l' => existsb (fun y => PrimFloat.eqb x y) l' || xhas_tie l' end.
Definition nb_same (m : nat * float * float) (o : nat * float * float) : bool :=
  let '(j, r, s) := m in let '(j', r', s') := o in (j =? j') && f_same r r' && f_same s s'.
Definition code (agree holds : nat) : Z := (100 * Z.of_nat agree + Z.of_nat holds)%Z.
(* knees visited left to right, inside the curve, none at index 0 *)
Fixpoint knees_ok (prev n : nat) (knees : list nat) : bool :=
  match knees with [] => true | k :: ks => (prev <? k) && (k <? n) && knees_ok k n ks end.
(* the missing-key marker of the atan table *)
Fixpoint lookup (tbl : list (float * float)) (k : float) : option float :=
  match tbl with
  | [] => None
  | (k', v) :: tbl' => if f_same k k' && Bool.eqb (PrimFloat.ltb (1 / k) 0) (PrimFloat.ltb (1 / k') 0) then Some v else lookup tbl' k
  end.
Definition recover_rank (m : nat) (o : float) : nat :=
  match find (fun v => f_same o (@ofN XF v / @ofN XF (m - 1))%float) (seq 0 m) with Some v => v | None => m end.

(* the five numbers as a list *)
Definition acc_list (r : @acc_res XF) : list float :=
  let '(a, b, c, d, e) := r in [a; b; c; d; e].

Definition judge (c : case) : Z :=
  match c with
  | XNb which x y a b t out =>
      if negb ((length x =? length y) && (b <? a) && (a <? length x)) then 600%Z else
      let r2f := @seg_r2 XF x y a in
      let slf := @seg_slope XF x y a in
      if which <? 2 then
        let m := if which =? 0 then @get_neighbourhood XF x y a b t else @get_neighbourhood_points XF (combine x y) a b t in
        match out with
        | None => code 1 9
        | Some o => code (if nb_same m o then 0 else 1) (@gn_specb XF r2f slf t f_same a b o)
        end
      else
        let m := if which =? 2 then @get_neighbourhood_fast XF x y a b t else @get_neighbourhood_fast_points XF (combine x y) a b t in
        match m, @get_neighbourhood_binary XF x y a b t, out with
        | Some mo, Some i0, Some o => code (if nb_same mo o then 0 else 1) (@gnf_specb XF r2f slf t f_same a i0 o)
        | _, _, _ => code 1 9
        end
  | XNbBin x y a b t out =>
      if negb ((length x =? length y) && (b <? a) && (a <? length x)) then 600%Z else
      match @get_neighbourhood_binary XF x y a b t, out with
      | Some m, Some o => code (if m =? o then 0 else 1) (gnb_specb a b o)
      | _, _ => code 1 9
      end
  | XAcc trace P knees out =>
      if negb ((2 <=? length P) && knees_ok 0 (length P) knees) then 600%Z else
      let m := if trace then @accuracy_trace XF P knees else @accuracy_knee XF P knees in
      let a := match m, out with
               | None, None => 0
               | Some r, Some o => if fsame_list (acc_list r) o then 0 else 1
               | _, _ => 1
               end in
      (* holds: an exception exactly on the empty knee set; otherwise five numbers, the means of the per-knee lists *)
      let h := match knees, out with
               | [], None => 0
               | [], Some _ => 1
               | _ :: _, None => 1
               | _ :: _, Some o =>
                   if negb (length o =? 5) then 2 else
                   let rows := if trace then Some (@at_rows XF (@xs XF P) (@ys XF P) 0 knees) else @ak_rows XF (@xs XF P) (@ys XF P) 0 knees in
                   match rows with
                   | None => 3
                   | Some rw =>
                       if negb (length rw =? length knees) then 3
                       else if fsame_list (acc_list (@acc_finish XF trace (total_of (@xs XF P)) (total_of (@ys XF P)) rw)) o then 0 else 4
                   end
               end in
      code a h
  | XSlope P knees t out =>
      if negb ((2 <=? length P) && knees_ok 0 (length P) knees) then 600%Z else
      let keys := @sr_keys XF (@xs XF P) (@ys XF P) t 0 knees in
      if negb (forallb xnotnan keys) then 600%Z else
      let m := @slope_ranking XF P knees t in
      let a := match m, out with
               | None, None => 0
               | Some r, Some o => if (2 <=? length knees) && xhas_tie keys then 5 else if fsame_list r o then 0 else 1
               | _, _ => 1
               end in
      let h := match knees, out with
               | [], None => 0
               | [], Some _ => 1
               | _ :: _, None => 1
               | [_], Some o => if fsame_list o [1%float] then 0 else 2
               | _, Some o =>
                   if negb (length o =? length knees) then 3 else
                   let ranks := map (recover_rank (length o)) o in
                   if negb (@rank_okb XF keys ranks) then 4
                   else if @sr_okb XF f_same keys ranks o then 0 else 5
               end in
      code a h
  | XHv pts x y out =>
      if negb ((length x =? length y) && (1 <=? length x)) then 600%Z else
      if negb (xnotnan (@hv_yres XF x y) && xnotnan (@hv_xres XF x y)) then 600%Z else
      let m := if pts then @linear_hv_residuals_points XF (combine x y) else @linear_hv_residuals XF x y in
      match out with
      | None => code 1 9
      | Some o => code (if f_same m o then 0 else 1) (if @hv_okb XF f_same x y o then 0 else 1)
      end
  | XFt pts x y vertical out =>
      if negb ((length x =? length y) && (1 <=? length x)) then 600%Z else
      let m := if pts then @linear_fit_transform_points XF (combine x y) vertical else @linear_fit_transform XF x y vertical in
      match out with
      | None => code 1 9
      | Some (oax, ofit) =>
          let a := match fst m, oax with
                   | None, None => fsame_list (snd m) ofit
                   | Some ma, Some oa => fsame_list ma oa && fsame_list (snd m) ofit
                   | _, _ => false
                   end in
          let h := if negb (length ofit =? length x) then 1
                   else match oax with
                        | None => if vertical then 2 else
                                  if fsame_list ofit (@linear_transform XF x (@linear_fit XF x y)) then 0 else 3
                        | Some oa =>
                            if negb vertical then 2
                            else if negb (fsame_list oa y || fsame_list oa x) then 4
                            else if f_same (@residuals XF oa ofit) (@linear_hv_residuals XF x y) then 0 else 5
                        end in
          code (if a then 0 else 1) h
      end
  | XAngle pyfloat c1 c2 tbl out =>
      let den := (1 + snd c1 * snd c2)%float in
      let arg := ((snd c1 - snd c2) / den)%float in
      let raises := pyfloat && PrimFloat.eqb den 0 in
      match lookup tbl arg with
      | None => if raises then (match out with None => 0%Z | Some _ => code 1 1 end) else 400%Z
      | Some v =>
          let m := @angle XF (fun _ => v) pyfloat c1 c2 in
          let a := match m, out with
                   | None, None => 0 | Some mv, Some o => if f_same mv o then 0 else 1 | _, _ => 1 end in
          let h := match out with
                   | None => if raises then 0 else 1
                   | Some o => if raises then 1 else if f_same o v then 0 else 2
                   end in
          code a h
      end
  | XK2 P dx dy mode yd2 z q out =>
      let md := match mode with 0 => OZscore | 1 => OIqr | _ => OHampel end in
      if negb (3 <=? length P) then 600%Z else
      match out with
      | None => code 1 9          (* an exception or a time-out where the model is total (the harness skips cases whose ORACLE primitives raise) *)
      | Some o =>
          if negb ((length yd2 =? length P) && (match md with OZscore => length z =? length P | _ => true end)) then 600%Z else
          match @knees2 XF P dx dy md yd2 z q with
          | Some m => code (if nat_list_eqb m o then 0 else 1) (@knees2_okb XF P dx dy md yd2 z q o)
          | None => code 1 9
          end
      end
  | XKn P Ds pd ddc ddw selc selw out =>
      if negb (1 <=? length P) then 600%Z else
      let p := match pd with 0 => PKneedle | 1 => PZScore | 2 => PSignificant | _ => PAll end in
      let cd := @kneedle_direction XF P in
      match out with
      | None => code 1 9
      | Some o =>
          if negb (length Ds =? length P) then 600%Z else
          let h := @kneedle_knees_okb XF P Ds p selc selw o in
          let h := if negb (h =? 0) then h
                   else if negb (fsame_list (@knees_dd XF Ds cd Counterclockwise) ddc) then 4
                   else if negb (fsame_list (@knees_dd XF Ds cd Clockwise) ddw) then 5 else 0 in
          code (if nat_list_eqb (@kneedle_knees XF P Ds p selc selw) o then 0 else 1) h
      end
  | XSkip => 600%Z
  end.

(* the model's own outputs, for replay files: (index-like outputs, float outputs) *)
Definition show (c : case) : list nat * list (list float) :=
  match c with
  | XNb which x y a b t _ =>
      if which <? 2 then let '(j, r, s) := @get_neighbourhood XF x y a b t in ([j], [[r; s]])
      else match @get_neighbourhood_fast XF x y a b t with Some (j, r, s) => ([j], [[r; s]]) | None => ([], []) end
  | XNbBin x y a b t _ => match @get_neighbourhood_binary XF x y a b t with Some i => ([i], []) | None => ([], []) end
  | XAcc trace P knees _ =>
      match (if trace then @accuracy_trace XF P knees else @accuracy_knee XF P knees) with
      | Some r => ([], [acc_list r]) | None => ([], []) end
  | XSlope P knees t _ =>
      ([], match @slope_ranking XF P knees t with Some r => [r; @sr_keys XF (@xs XF P) (@ys XF P) t 0 knees] | None => [] end)
  | XHv _ x y _ => ([], [[@linear_hv_residuals XF x y; @hv_yres XF x y; @hv_xres XF x y]])
  | XFt _ x y v _ => let '(ax, fit) := @linear_fit_transform XF x y v in
                     ([], [match ax with Some l => l | None => [] end; fit])
  | XAngle pyfloat c1 c2 tbl _ =>
      ([], [[((snd c1 - snd c2) / (1 + snd c1 * snd c2))%float]])
  | XK2 P dx dy mode yd2 z q _ =>
      let md := match mode with 0 => OZscore | 1 => OIqr | _ => OHampel end in
      (match @knees2 XF P dx dy md yd2 z q with Some r => r | None => [] end,
       [[@k2_step XF (map fst P) dx; @k2_step XF (map snd P) dy]; map (@ofN XF) (@k2_candidates XF md yd2 z q); map (@ofN XF) (@k2_start XF P md yd2 z q)])
  | XKn P Ds pd _ _ selc selw _ =>
      let p := match pd with 0 => PKneedle | 1 => PZScore | 2 => PSignificant | _ => PAll end in
      let cd := @kneedle_direction XF P in
      (@kneedle_knees XF P Ds p selc selw, [@knees_dd XF Ds cd Counterclockwise; @knees_dd XF Ds cd Clockwise])
  | XSkip => ([], [])
  end.
