(* Run/JudgeC11.v — case type and judge for the C11 correspondence run. *)
From Coq Require Import ZArith List Arith Bool PrimFloat.
From Knee Require Import Num NumFloat NpList.
From Knee Require Export Model.Clustering.   (* the case terms name the linkage constructors *)
Import ListNotations.

Inductive case :=
  (* clustering.<lk>_linkage(points with x = xs, t) returned out, and out2 for the threshold t2 (None = exception) *)
  | CLink (lk : linkage) (xs : list float) (t t2 : float) (out out2 : option (list nat))
  (* same-object stream: ONE points buffer served a sequence of calls (any linkage, varying t), refilled in place between
     some of them; each step = (linkage, the x the buffer held at that call, t, what the call returned);
     intact = after every call the buffer still held exactly those contents *)
  | CLinkSeq (steps : list (linkage * list float * float * option (list nat))) (intact : bool).

Fixpoint f_increasing (l : list float) : bool :=
  match l with
  | a :: ((b :: _) as r) => PrimFloat.ltb a b && f_increasing r
  | _ => true
  end.
Definition opt_list_eqb (a b : option (list nat)) : bool :=
  match a, b with
  | Some x, Some y => nat_list_eqb x y
  | None, None => true
  | _, _ => false
  end.
Definition holds_opt (lk : linkage) (xs : list float) (t : float) (o : option (list nat)) : bool :=
  match o with Some lab => @c11_holdsb FloatNum lk xs t lab | None => false end.
Definition monotone_applies (lk : linkage) : bool :=
  match lk with Single | Complete => true | _ => false end.

(* result code = 100 * agree + holds.
   agree: 0 the model's labels = the implementation's for both thresholds, 1 differ, 6 outside the property's domain
          (fewer than 2 points, x not strictly increasing, t <= 0 or NaN, t2 < t)
   holds: on the IMPLEMENTATION's labels: 1 shape/rule false at t, 2 shape/rule false at t2,
          3 (single, complete) more clusters at the larger threshold
          CLinkSeq: 1 some call's labels break shape/rule for the contents the buffer had at that call, 4 the buffer was rewritten *)
Definition judge (c : case) : Z :=
  match c with
  | CLink lk xs t t2 out out2 =>
      let m1 := @linkage_labels FloatNum lk xs t in
      let m2 := @linkage_labels FloatNum lk xs t2 in
      let a := if opt_list_eqb m1 out && opt_list_eqb m2 out2 then 0%Z else 1%Z in
      let dom := (2 <=? length xs) && f_increasing xs && PrimFloat.ltb 0 t && PrimFloat.leb t t2 in
      if negb dom then (600 + a)%Z else
      let h := if negb (holds_opt lk xs t out) then 1%Z
               else if negb (holds_opt lk xs t2 out2) then 2%Z
               else if monotone_applies lk then
                 match out, out2 with
                 | Some l1, Some l2 => if nclusters l2 <=? nclusters l1 then 0%Z else 3%Z
                 | _, _ => 3%Z
                 end
               else 0%Z in
      (100 * a + h)%Z
  | CLinkSeq steps intact =>
      let a := if forallb (fun s => match s with (lk, xs, t, out) => opt_list_eqb (@linkage_labels FloatNum lk xs t) out end) steps
               then 0%Z else 1%Z in
      let dom := forallb (fun s => match s with (lk, xs, t, out) => (2 <=? length xs) && f_increasing xs && PrimFloat.ltb 0 t end) steps in
      if negb dom then (600 + a)%Z else
      let h := if negb (forallb (fun s => match s with (lk, xs, t, out) => holds_opt lk xs t out end) steps) then 1%Z
               else if negb intact then 4%Z else 0%Z in
      (100 * a + h)%Z
  end.

Definition show (c : case) : list (option (list nat)) :=
  match c with
  | CLink lk xs t t2 out out2 => [@linkage_labels FloatNum lk xs t; @linkage_labels FloatNum lk xs t2]
  | CLinkSeq steps intact => map (fun s => match s with (lk, xs, t, out) => @linkage_labels FloatNum lk xs t end) steps
  end.
