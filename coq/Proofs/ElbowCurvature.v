(* Proofs/ElbowCurvature.v — C03, curvature detector (Tier A, RNum):
   csd vanishes on collinear triples, equals 2(m2-m1)/(x_{c+1}-x_{c-1}) <> 0 at the corner,
   hence curvature.knee returns the corner index. *)
From Coq Require Import Reals List Arith Lia Lra Bool Psatz.
From Knee Require Import Num NumR NpList Model.Uts Model.DetectorsFormula Proofs.ElbowBase.
Import ListNotations.
Local Open Scope R_scope.

Lemma d2_collinear (x1 x2 x3 yc xc m : R) : x1 < x2 -> x2 < x3 ->
  @d2_central RNum (x1, yc + m * (x1 - xc)) (x2, yc + m * (x2 - xc)) (x3, yc + m * (x3 - xc)) = 0.
Proof. intros H1 H2. unfold d2_central, two. cbn. field. repeat split; lra. Qed.

Lemma d2_corner (x1 x2 x3 y2 m1 m2 : R) : x1 < x2 -> x2 < x3 ->
  @d2_central RNum (x1, y2 + m1 * (x1 - x2)) (x2, y2) (x3, y2 + m2 * (x3 - x2)) = 2 * (m2 - m1) / (x3 - x1).
Proof. intros H1 H2. unfold d2_central, two. cbn. field. repeat split; lra. Qed.

Section Curvature.
  Variables (pts : list (R * R)) (c : nat) (m1 m2 : R).
  Hypothesis E : elbow pts c m1 m2.
  Let n := length pts.

  (* the second derivative array: zero away from the corner ... *)
  Lemma csd_elbow_off i : (1 <= i)%nat -> (i + 1 < n)%nat -> i <> c -> nth i (@csd RNum pts) 0 = 0.
  Proof.
    intros H1 H2 Hne. subst n. rewrite csd_nth_mid by lia. rewrite !nth_pt.
    pose proof (el_x _ _ _ _ E (i - 1)) as Hx1. pose proof (el_x _ _ _ _ E i) as Hx2.
    replace (S (i - 1)) with i in Hx1 by lia. replace (S i) with (i + 1)%nat in Hx2 by lia.
    specialize (Hx1 ltac:(lia)). specialize (Hx2 ltac:(lia)).
    destruct (Nat.lt_ge_cases i c) as [Hlt|Hge].
    - rewrite (el_left _ _ _ _ E (i - 1)), (el_left _ _ _ _ E i), (el_left _ _ _ _ E (i + 1)) by lia.
      apply d2_collinear; assumption.
    - rewrite (el_right _ _ _ _ E (i - 1)), (el_right _ _ _ _ E i), (el_right _ _ _ _ E (i + 1)) by lia.
      apply d2_collinear; assumption.
  Qed.
  (* ... and 2 (m2 - m1) / (x_{c+1} - x_{c-1}) at the corner *)
  Lemma csd_elbow_corner : nth c (@csd RNum pts) 0 = 2 * (m2 - m1) / (PX pts (c + 1) - PX pts (c - 1)).
  Proof.
    pose proof (el_lo _ _ _ _ E). pose proof (el_hi _ _ _ _ E).
    rewrite csd_nth_mid by lia. rewrite !nth_pt.
    pose proof (el_x _ _ _ _ E (c - 1)) as Hx1. pose proof (el_x _ _ _ _ E c) as Hx2.
    replace (S (c - 1)) with c in Hx1 by lia. replace (S c) with (c + 1)%nat in Hx2 by lia.
    specialize (Hx1 ltac:(lia)). specialize (Hx2 ltac:(lia)).
    rewrite (el_left _ _ _ _ E (c - 1)), (el_right _ _ _ _ E (c + 1)) by lia.
    apply d2_corner; assumption.
  Qed.
  Lemma csd_elbow_corner_nonzero : nth c (@csd RNum pts) 0 <> 0.
  Proof.
    pose proof (el_lo _ _ _ _ E). pose proof (el_hi _ _ _ _ E).
    rewrite csd_elbow_corner.
    assert (Hx : PX pts (c - 1) < PX pts (c + 1)) by (apply (el_x_lt _ _ _ _ E); lia).
    pose proof (el_slopes _ _ _ _ E) as Hs.
    intros Hz. apply Hs.
    assert (Hd : PX pts (c + 1) - PX pts (c - 1) <> 0) by lra.
    apply (Rmult_eq_compat_r (PX pts (c + 1) - PX pts (c - 1))) in Hz.
    unfold Rdiv in Hz. rewrite Rmult_assoc, Rinv_l in Hz by exact Hd. lra.
  Qed.
End Curvature.

Lemma curvature_value_zero (g1 : R) : @curvature_value RNum g1 0 = 0.
Proof. unfold curvature_value. cbn. rewrite Rabs_R0. unfold Rdiv. ring. Qed.
Lemma curvature_value_pos (g1 g2 : R) : g2 <> 0 -> 0 < @curvature_value RNum g1 g2.
Proof.
  intros H. unfold curvature_value. cbn.
  apply Rdiv_lt_0_compat; [apply Rabs_pos_lt; exact H|].
  apply sqrt_lt_R0. assert (0 < 1 + g1 * g1) by nra.
  apply Rmult_lt_0_compat; [apply Rmult_lt_0_compat|]; assumption.
Qed.

(* curvature.knee returns the corner of every exact two-slope elbow *)
Theorem curvature_elbow (pts : list (R * R)) (c : nat) (m1 m2 : R) :
  elbow pts c m1 m2 -> @curvature_knee RNum pts = c.
Proof.
  intros E. pose proof (el_lo _ _ _ _ E) as Hlo. pose proof (el_hi _ _ _ _ E) as Hhi.
  unfold curvature_knee.
  assert (HL : @length R (@curvature_array RNum pts) = length pts).
  { unfold curvature_array. rewrite map_length, combine_length, cfd_length, csd_length by lia. lia. }
  assert (HN : forall j, (j + 2 < length pts)%nat ->
             nth j (interior (@curvature_array RNum pts)) 0
             = @curvature_value RNum (nth (S j) (@cfd RNum pts) 0) (nth (S j) (@csd RNum pts) 0)).
  { intros j Hj. rewrite interior_nth by (rnorm; rewrite HL; lia). unfold curvature_array.
    rewrite (nth_map_combine _ _ _ (S j) 0 0 0); [reflexivity| |]; [rewrite cfd_length|rewrite csd_length]; lia. }
  enough (HA : @argmax RNum (interior (@curvature_array RNum pts)) = (c - 1)%nat) by (rewrite HA; lia).
  apply argmax_R_unique.
  - rewrite interior_length, HL. lia.
  - intros j Hj Hne. rewrite interior_length, HL in Hj.
    rewrite !HN by lia. replace (S (c - 1)) with c by lia.
    rewrite (csd_elbow_off pts c m1 m2 E (S j)) by lia.
    rewrite curvature_value_zero. apply curvature_value_pos.
    apply (csd_elbow_corner_nonzero pts c m1 m2 E).
Qed.
