(* Proofs/MultiKneeStraightFacts.v — C02 with the straightness DERIVED from the points (Model/MultiKneeStraight.v):
   the oracle-generic theorems of MultiKneeFacts.v instantiated with straight := mk_straight eps P cost, the slices
   points[:k+1] / points[k+1:] being firstn / skipn of the point list (the straightness of a slice computed from the
   slice's own points is the straightness of the corresponding range of the whole curve), and the Tier-A fact that an
   exactly straight curve has end-point-line SMAPE 0 and therefore no knees for any t1 > 0. *)
From Coq Require Import List Arith Bool Lia.
From Knee Require Import Num NpList Proofs.ListFacts Model.Metrics Model.LinearFit Model.MultiKnee Model.MultiKneeStraight
                         Proofs.MultiKneeFacts.
Import ListNotations.

(* ---------- the loop only looks at the straightness of ranges it pops ---------- *)
Section Ext.
  Context {N : Num}.
  Variable cost : mk_cost.
  Variables S1 S2 : nat -> nat -> T N.
  Variable knee1 : nat -> nat -> option nat.
  Variable t1 : T N.
  Variable t2 : nat.

  Lemma mk_step_ext l r : S1 l r = S2 l r -> mk_step cost S1 knee1 t1 t2 l r = mk_step cost S2 knee1 t1 t2 l r.
  Proof. intros H. unfold mk_step, mk_curved, mk_r. rewrite H. reflexivity. Qed.

  Lemma mk_loop_ext : (forall l r, S1 l r = S2 l r) ->
    forall fuel st ks tr, mk_loop cost S1 knee1 t1 t2 fuel st ks tr = mk_loop cost S2 knee1 t1 t2 fuel st ks tr.
  Proof.
    intros H. induction fuel as [|f IH]; intros st ks tr; destruct st as [|[l r] st]; cbn [mk_loop]; try reflexivity.
    rewrite (mk_step_ext l r (H l r)). destruct (mk_step cost S2 knee1 t1 t2 l r); apply IH.
  Qed.
  Lemma multi_knee_ext n : (forall l r, S1 l r = S2 l r) ->
    multi_knee cost S1 knee1 t1 t2 n = multi_knee cost S2 knee1 t1 t2 n.
  Proof. intros H. unfold multi_knee. rewrite (mk_loop_ext H). reflexivity. Qed.

  (* agreement on the ranges inside [0, m] is enough when the detector answers inside its slices *)
  Lemma mk_rec_ext_le lo m : step_in_range cost S1 knee1 t1 t2 lo m -> (forall l r, r <= m -> S1 l r = S2 l r) ->
    forall f l r, r <= m -> mk_rec cost S1 knee1 t1 t2 f l r = mk_rec cost S2 knee1 t1 t2 f l r.
  Proof.
    intros HR H. induction f as [|f IH]; intros l r Hr; cbn [mk_rec]; [reflexivity|].
    rewrite <- (mk_step_ext l r (H l r Hr)). destruct (mk_step cost S1 knee1 t1 t2 l r) as [k|] eqn:Hs; [|reflexivity].
    destruct (HR l r k Hr Hs) as [_ Hk]. rewrite (IH l (k + l + 1)) by lia. rewrite (IH (k + l + 1) r) by lia. reflexivity.
  Qed.
  Lemma multi_knee_ext_le lo m : knee_in_range knee1 t2 lo m -> (forall l r, r <= m -> S1 l r = S2 l r) ->
    mk_knees (multi_knee cost S1 knee1 t1 t2 m) = mk_knees (multi_knee cost S2 knee1 t1 t2 m).
  Proof.
    intros HK H.
    pose proof (knee_step_in_range cost S1 knee1 t1 t2 lo m HK) as HR1.
    pose proof (knee_step_in_range cost S2 knee1 t1 t2 lo m HK) as HR2.
    destruct (multi_knee_run cost S1 knee1 t1 t2 lo m HR1 m (le_n m)) as (tr1 & E1 & _).
    destruct (multi_knee_run cost S2 knee1 t1 t2 lo m HR2 m (le_n m)) as (tr2 & E2 & _).
    rewrite E1, E2. cbn [mk_knees]. f_equal. unfold mk_spec. apply (mk_rec_ext_le lo m HR1 H). lia.
  Qed.
End Ext.

(* ---------- slices of slices ---------- *)
Lemma skipn_skipn' {A} : forall a l (P : list A), skipn l (skipn a P) = skipn (a + l) P.
Proof.
  induction a as [|a IH]; intros l P; [reflexivity|]. destruct P as [|p P]; cbn [skipn plus].
  - destruct l; reflexivity.
  - apply IH.
Qed.
Lemma slice_skipn {A} a (P : list A) l r : slice (skipn a P) l r = slice P (l + a) (r + a).
Proof.
  unfold slice. rewrite skipn_skipn'. replace (r + a - (l + a)) with (r - l) by lia.
  replace (a + l) with (l + a) by lia. reflexivity.
Qed.
Lemma slice_firstn {A} m (P : list A) l r : r <= m -> slice (firstn m P) l r = slice P l r.
Proof.
  intros H. unfold slice. rewrite skipn_firstn_comm, firstn_firstn. f_equal. lia.
Qed.
Lemma slice_all {A} (P : list A) : slice P 0 (length P) = P.
Proof. unfold slice. cbn [skipn]. rewrite Nat.sub_0_r. apply firstn_all. Qed.

Section Pts.
  Context {N : Num}.
  Variable eps : T N.
  Variable cost : mk_cost.

  Lemma mk_straight_skipn a P l r : mk_straight eps (skipn a P) cost l r = shift2 a (mk_straight eps P cost) l r.
  Proof. unfold mk_straight, shift2. rewrite slice_skipn. reflexivity. Qed.
  Lemma mk_straight_firstn m P l r : r <= m -> mk_straight eps (firstn m P) cost l r = mk_straight eps P cost l r.
  Proof. intros H. unfold mk_straight. rewrite slice_firstn by exact H. reflexivity. Qed.

  Variable P : list (T N * T N).
  Variable knee1 : nat -> nat -> option nat.
  Variable t1 : T N.
  Variables t2 lo : nat.
  Hypothesis HK : knee_in_range knee1 t2 lo (length P).

  Notation S := (mk_straight eps P cost).

  (* termination, pops, sortedness, range, = specification — for the closed model *)
  Theorem mk_total_pts :
    exists ks tr, multi_knee_pts eps P cost knee1 t1 t2 = Some (ks, tr) /\
                  length tr <= Nat.max 1 (2 * length P - 1) /\ (1 <= length P -> length tr <= 2 * length P) /\
                  SI ks /\ Forall (fun i => lo <= i /\ i + 2 <= length P) ks /\
                  ks = mk_spec cost S knee1 t1 t2 0 (length P).
  Proof. apply (mk_total cost S knee1 t1 t2 lo (length P) HK). Qed.

  (* empty when the curve has at most t2 points *)
  Theorem mk_empty_small_pts : length P <= t2 -> mk_knees (multi_knee_pts eps P cost knee1 t1 t2) = Some [].
  Proof. apply (mk_empty_small cost S knee1 t1 t2 lo (length P) HK). Qed.

  (* empty when the end-point-line SMAPE of the whole curve is below t1 (cost other than r2; more than 2 points) *)
  Theorem mk_empty_smape_pts : cost <> MkR2 -> 2 < length P ->
    (t1 <=?! smape_points P (linear_fit_points P) eps)%num = false ->
    mk_knees (multi_knee_pts eps P cost knee1 t1 t2) = Some [].
  Proof.
    intros Hc Hn Hlt. apply (mk_empty_straight cost S knee1 t1 t2 lo (length P) HK).
    unfold mk_curved, mk_r, mk_straight. rewrite Nat.sub_0_r. destruct (Nat.leb_spec (length P) 2); [lia|].
    rewrite slice_all. destruct cost; [exact Hlt|contradiction|exact Hlt].
  Qed.
  (* ... for cost = r2: when the end-point-line R2 is not below t1 *)
  Theorem mk_empty_r2_pts : cost = MkR2 -> 2 < length P ->
    (linear_r2_points P (linear_fit_points P) R2classic <?! t1)%num = false ->
    mk_knees (multi_knee_pts eps P cost knee1 t1 t2) = Some [].
  Proof.
    intros Hc Hn Hlt. apply (mk_empty_straight cost S knee1 t1 t2 lo (length P) HK).
    unfold mk_curved, mk_r, mk_straight. rewrite Nat.sub_0_r. destruct (Nat.leb_spec (length P) 2); [lia|].
    rewrite slice_all. rewrite Hc. exact Hlt.
  Qed.

  (* self-similarity on the points themselves: points[:k+1] = firstn (k+1) P, points[k+1:] = skipn (k+1) P *)
  Theorem mk_decomp_pts k : mk_step cost S knee1 t1 t2 0 (length P) = Some k ->
    exists kl kr,
      mk_knees (multi_knee_pts eps (firstn (k + 1) P) cost knee1 t1 t2) = Some kl /\
      mk_knees (multi_knee_pts eps (skipn (k + 1) P) cost (shift2 (k + 1) knee1) t1 t2) = Some kr /\
      mk_knees (multi_knee_pts eps P cost knee1 t1 t2) = Some (kl ++ [k] ++ map (fun i => i + (k + 1)) kr).
  Proof.
    intros Hs.
    destruct (knee_step_in_range cost S knee1 t1 t2 lo (length P) HK 0 (length P) k (le_n _) Hs) as [_ Hk].
    destruct (mk_decomp cost S knee1 t1 t2 lo (length P) HK k Hs) as (kl & kr & H1 & H2 & H3).
    exists kl, kr. split; [|split; [|exact H3]].
    - unfold multi_knee_pts. rewrite firstn_length, Nat.min_l by lia. rewrite <- H1.
      apply (multi_knee_ext_le cost _ _ knee1 t1 t2 lo (k + 1)).
      + apply (in_range_mono knee1 t2 lo (length P)); [lia|exact HK].
      + intros l r Hr. apply mk_straight_firstn. exact Hr.
    - unfold multi_knee_pts. rewrite skipn_length. rewrite <- H2. f_equal.
      apply multi_knee_ext. intros l r. apply mk_straight_skipn.
  Qed.
End Pts.
