(* Proofs/RdpFixedFacts.v — C05 / C06 (and the fixed-family clauses of C01): the fixed-size / global RDP loops.
   Everything here is Tier S (holds for every oracle valuation dist / prio / gcost and every eps, NaN included)
   except the lemmas explicitly marked Tier O.  The only hypothesis on the oracles is the shape fact
   length (dist l r) = r - l. *)
From Coq Require Import List Arith Bool Lia Permutation Sorted.
From Knee Require Import Num NpList OrdLaws Model.Mapping Model.RdpFixed Model.RdpFixedSpec
     Proofs.ListFacts Proofs.MappingFacts Proofs.RdpFixedLists.
Import ListNotations.
Local Open Scope num_scope.

(* ---- adjacency under the insertion of one index (pure index reasoning) ---- *)
Section AdjInsert.
  Variables (red red' : list nat) (l b g : nat).
  Hypothesis Hadj : AdjS l b red.
  Hypothesis Hg : l < g < b.
  Hypothesis Hred' : forall x, In x red' <-> x = g \/ In x red.

  Lemma g_fresh : ~ In g red.
  Proof. intros H. destruct Hadj as (_ & _ & _ & Hno). destruct (Hno g H); lia. Qed.
  Lemma AdjS_insert_left : AdjS l g red'.
  Proof.
    destruct Hadj as (Hl & Hb & Hlb & Hno). repeat split.
    - apply Hred'. right. exact Hl.
    - apply Hred'. left. reflexivity.
    - lia.
    - intros x Hx. apply Hred' in Hx. destruct Hx as [->|Hx]; [lia|]. destruct (Hno x Hx); lia.
  Qed.
  Lemma AdjS_insert_right : AdjS g b red'.
  Proof.
    destruct Hadj as (Hl & Hb & Hlb & Hno). repeat split.
    - apply Hred'. left. reflexivity.
    - apply Hred'. right. exact Hb.
    - lia.
    - intros x Hx. apply Hred' in Hx. destruct Hx as [->|Hx]; [lia|]. destruct (Hno x Hx); lia.
  Qed.
  Lemma AdjS_insert_keep a' b' : AdjS a' b' red -> a' <> l -> AdjS a' b' red'.
  Proof.
    intros (Ha & Hb' & Hab & Hno') Hne. destruct Hadj as (Hl & Hb & Hlb & Hno). repeat split.
    - apply Hred'. right. exact Ha.
    - apply Hred'. right. exact Hb'.
    - exact Hab.
    - intros x Hx. apply Hred' in Hx. destruct Hx as [->|Hx]; [|apply Hno'; exact Hx].
      destruct (Hno a' Ha); destruct (Hno' l Hl); destruct (Hno b' Hb'); destruct (Hno' b Hb); lia.
  Qed.
  Lemma AdjS_insert_cases a' b' : AdjS a' b' red' ->
    (a' = l /\ b' = g) \/ (a' = g /\ b' = b) \/ (AdjS a' b' red /\ a' <> l).
  Proof.
    intros (Ha & Hb' & Hab & Hno'). destruct Hadj as (Hl & Hb & Hlb & Hno).
    assert (Hl' : In l red') by (apply Hred'; right; exact Hl).
    assert (Hbb : In b red') by (apply Hred'; right; exact Hb).
    assert (Hgg : In g red') by (apply Hred'; left; reflexivity).
    apply Hred' in Ha. apply Hred' in Hb'.
    destruct Ha as [->|Ha]; destruct Hb' as [->|Hb'].
    - lia.
    - right. left. split; auto. destruct (Hno b' Hb'); destruct (Hno' b Hbb); lia.
    - left. split; auto. destruct (Hno a' Ha); destruct (Hno' l Hl'); lia.
    - right. right. split.
      + repeat split; auto. intros x Hx. apply Hno'. apply Hred'. right. exact Hx.
      + intros ->. destruct (Hno' g Hgg); destruct (Hno b' Hb'); lia.
  Qed.
End AdjInsert.

Lemma NoDup_snoc {A} (l : list A) x : NoDup l -> ~ In x l -> NoDup (l ++ [x]).
Proof.
  intros H1 H2. eapply Permutation_NoDup; [apply Permutation_cons_append|]. constructor; auto.
Qed.
Lemma NoDup_snoc_inv {A} (l : list A) x : NoDup (l ++ [x]) -> NoDup l /\ ~ In x l.
Proof.
  intros H. assert (H' : NoDup (x :: l)).
  { eapply Permutation_NoDup; [apply Permutation_sym, Permutation_cons_append|exact H]. }
  inversion H'; auto.
Qed.

Section Split.
  Context {N : Num}.
  Variable eps : T N.
  Notation split_guarded := (split_guarded eps).
  (* C01's split_interior for the guarded split: whatever the values (NaN included) *)
  Lemma split_interior (d : list (T N)) : 3 <= length d -> 1 <= split_guarded d <= length d - 2.
  Proof.
    intros H. unfold RdpFixed.split_guarded. destruct (all_lt d eps).
    - pose proof (Nat.div_mod (length d) 2 ltac:(lia)).
      pose proof (Nat.mod_upper_bound (length d) 2 ltac:(lia)). lia.
    - assert (interior d <> []).
      { intros E. pose proof (interior_length d) as HL. rewrite E in HL. cbn in HL. lia. }
      pose proof (argmax_lt (interior d) H0). rewrite interior_length in H1. lia.
  Qed.

  (* Tier O: the farthest-point clause is a property of the guarded split alone *)
  Lemma nth_interior (d : list (T N)) i : i < length (interior d) -> nth (S i) d zero = nth i (interior d) zero.
  Proof.
    intros H. rewrite interior_length in H. destruct d as [|a d]; [cbn in H; lia|]. cbn [nth]. unfold interior. cbn [tl].
    destruct d as [|b d] using rev_ind; [cbn in H; lia|]. rewrite removelast_last.
    cbn [length] in H. rewrite app_length in H. cbn in H. rewrite app_nth1; [reflexivity|lia].
  Qed.
  Theorem split_farthest (P : T N -> Prop) (d : list (T N)) :
    TotalPreorderOn P -> (forall x, P x -> isnan x = false) ->
    all_lt d eps = false -> Forall P (interior d) ->
    Forall (fun x => x <=?! nth (split_guarded d) d zero = true) (interior d).
  Proof.
    intros HP Pnn Hall HF. unfold RdpFixed.split_guarded. rewrite Hall.
    destruct (interior d) eqn:E; [constructor|]. rewrite <- E in *.
    rewrite nth_interior; [|apply argmax_lt; rewrite E; discriminate].
    apply (argmax_max P HP Pnn). exact HF.
  Qed.

  (* Tier O on the non-NaN interior distances; unless the eps-guard picked the middle *)
  Theorem fixed_farthest (d : list (T N)) :
    TotalPreorderOn (@notnan N) ->
    (all_lt d eps = true -> split_guarded d = length d / 2) /\
    (all_lt d eps = false -> Forall notnan (interior d) ->
     Forall (fun x => x <=?! nth (split_guarded d) d zero = true) (interior d)).
  Proof.
    intros HO. split.
    - intros H. unfold RdpFixed.split_guarded. rewrite H. reflexivity.
    - intros H HF. eapply split_farthest; eauto.
  Qed.
End Split.

Section Facts.
  Context {N : Num}.
  Variable n : nat.
  Variable eps : T N.
  Variable dist : nat -> nat -> list (T N).
  Variable prio : nat -> nat -> T N.
  Hypothesis Hn : 2 <= n.
  Hypothesis Hshape : forall l r, l + 3 <= r -> r <= n -> length (dist l r) = r - l.

  Notation entry := (@entry N).
  Notation body := (body eps dist prio).
  Notation split_guarded := (split_guarded eps).


  (* the key a segment carries on the stack: the root is seeded with 0, children with their priority *)
  Definition key (l r : nat) : T N := if (l =? 0) && (r =? n) then zero else prio l r.
  Definition lefts (st : list entry) : list nat := map (fun e => fst (snd e)) st.

  (* the loop invariant: the stack holds exactly the retained segments with interior points, once each *)
  Record Inv (st : list entry) (red : list nat) : Prop := {
    inv_si : SI red;
    inv_0 : In 0 red;
    inv_n : In (n - 1) red;
    inv_le : forall x, In x red -> x <= n - 1;
    inv_st : forall p l r, In (p, (l, r)) st -> p = key l r /\ l + 3 <= r /\ AdjS l (r - 1) red;
    inv_nd : NoDup (lefts st);
    inv_all : forall a b, AdjS a b red -> a + 2 <= b -> In (key a (b + 1), (a, b + 1)) st
  }.

  Lemma Inv_init : Inv (stack0 n) (reduced0 n).
  Proof.
    unfold stack0, reduced0. constructor.
    - cbn. lia.
    - left; reflexivity.
    - right; left; reflexivity.
    - intros x [<-|[<-|[]]]; lia.
    - intros p l r H. destruct (Nat.ltb_spec 2 n) as [H2|H2]; [|destruct H].
      destruct H as [H|[]]. inversion H; subst. split; [|split].
      + unfold key. rewrite !Nat.eqb_refl. reflexivity.
      + lia.
      + repeat split; [left; auto|right; left; auto|lia|]. intros x [<-|[<-|[]]]; lia.
    - destruct (2 <? n); cbn; repeat constructor; auto.
    - intros a b (Ha & Hb & Hab & _) Hw.
      assert (a = 0 /\ b = n - 1) as [-> ->].
      { destruct Ha as [<-|[<-|[]]]; destruct Hb as [<-|[<-|[]]]; lia. }
      destruct (Nat.ltb_spec 2 n) as [H2|H2]; [|lia].
      replace (n - 1 + 1) with n by lia. unfold key. rewrite !Nat.eqb_refl. left. reflexivity.
  Qed.

  Lemma Inv_r_le st red p l r : Inv st red -> In (p, (l, r)) st -> r <= n.
  Proof.
    intros HI H. destruct (inv_st _ _ HI p l r H) as (_ & Hw & (_ & Hr & _)).
    pose proof (inv_le _ _ HI _ Hr). lia.
  Qed.

  (* one iteration of either loop *)
  Lemma body_step st red : Inv st red -> st <> [] ->
    exists p l r st0 st',
      st = st0 ++ [(p, (l, r))] /\
      body st = Some (l + split_guarded (dist l r), st') /\
      l < l + split_guarded (dist l r) < r - 1 /\ l + 3 <= r /\ r <= n /\
      AdjS l (r - 1) red /\ p = key l r /\
      (exists news, st' = sort_by ele (st0 ++ news) /\ forall e, In e news -> fst e = prio (fst (snd e)) (snd (snd e))) /\
      Inv st' (insert_nat (l + split_guarded (dist l r)) red).
  Proof.
    intros HI Hne. destruct (pop st) as [[[p [l r]] st0]|] eqn:Epop; [|apply pop_none in Epop; congruence].
    apply pop_some in Epop. subst st.
    assert (Hin : In (p, (l, r)) (st0 ++ [(p, (l, r))])) by (apply in_or_app; right; left; auto).
    destruct (inv_st _ _ HI p l r Hin) as (Hp & Hw & Hadj).
    pose proof (Inv_r_le _ _ _ _ _ HI Hin) as Hrn.
    pose proof (split_interior eps (dist l r) ltac:(rewrite Hshape; lia)) as Hidx. rewrite Hshape in Hidx by lia.
    set (idx := split_guarded (dist l r)) in *.
    set (g := l + idx).
    assert (Hg : l < g < r - 1) by (unfold g; lia).
    unfold RdpFixed.body. rewrite pop_snoc. fold idx.
    set (new1 := if 2 <? l + idx + 1 - l then [(prio l (l + idx + 1), (l, l + idx + 1))] else []).
    set (new2 := if 2 <? l + (r - l) - (l + idx) then [(prio (l + idx) (l + (r - l)), (l + idx, l + (r - l)))] else []).
    set (st' := sort_by ele (st0 ++ new1 ++ new2)).
    exists p, l, r, st0, st'.
    assert (Hst' : forall e, In e st' <-> In e st0 \/ In e new1 \/ In e new2).
    { intros e. unfold st'. rewrite sort_by_In, !in_app_iff. tauto. }
    assert (Hred' : forall x, In x (insert_nat g red) <-> x = g \/ In x red) by (intros; apply insert_nat_In).
    pose proof (g_fresh red l (r - 1) g Hadj Hg) as Hfresh.
    assert (Hnew1 : forall e, In e new1 -> e = (prio l (g + 1), (l, g + 1)) /\ 2 <= idx).
    { intros e He. unfold new1 in He. destruct (Nat.ltb_spec 2 (l + idx + 1 - l)) as [H2|H2]; [|destruct He].
      destruct He as [<-|[]]. split; [reflexivity|lia]. }
    assert (Hnew2 : forall e, In e new2 -> e = (prio g r, (g, r)) /\ g + 3 <= r).
    { intros e He. unfold new2 in He. destruct (Nat.ltb_spec 2 (l + (r - l) - (l + idx))) as [H2|H2]; [|destruct He].
      destruct He as [<-|[]]. replace (l + (r - l)) with r by lia. split; [reflexivity|unfold g; lia]. }
    assert (Hnd0 : NoDup (lefts st0) /\ ~ In l (lefts st0)).
    { pose proof (inv_nd _ _ HI) as H. unfold lefts in H. rewrite map_app in H. cbn in H. apply NoDup_snoc_inv in H. exact H. }
    assert (Hst0 : forall p' l' r', In (p', (l', r')) st0 -> p' = key l' r' /\ l' + 3 <= r' /\ AdjS l' (r' - 1) red /\ l' <> l).
    { intros p' l' r' H. destruct (inv_st _ _ HI p' l' r' ltac:(apply in_or_app; left; exact H)) as (A & B & C).
      repeat split; auto; try apply C. intros ->. apply (proj2 Hnd0). unfold lefts.
      apply in_map_iff. exists (p', (l, r')). split; [reflexivity|exact H]. }
    split; [reflexivity|]. split; [reflexivity|]. split; [exact Hg|]. split; [exact Hw|]. split; [exact Hrn|].
    split; [exact Hadj|]. split; [exact Hp|]. split.
    { exists (new1 ++ new2). split; [reflexivity|]. intros e He. apply in_app_or in He. destruct He as [He|He].
      - destruct (Hnew1 e He) as [-> _]. reflexivity.
      - destruct (Hnew2 e He) as [-> _]. reflexivity. }
    fold g. constructor.
    - apply insert_nat_SI; [apply (inv_si _ _ HI)|exact Hfresh].
    - apply Hred'. right. apply (inv_0 _ _ HI).
    - apply Hred'. right. apply (inv_n _ _ HI).
    - intros x Hx. apply Hred' in Hx. destruct Hx as [->|Hx]; [lia|apply (inv_le _ _ HI); exact Hx].
    - intros p' l' r' H. apply Hst' in H. destruct H as [H|[H|H]].
      + destruct (Hst0 p' l' r' H) as (A & B & C & D). split; [exact A|]. split; [exact B|].
        apply (AdjS_insert_keep red _ l (r - 1) g Hadj Hg Hred'); auto.
      + destruct (Hnew1 _ H) as [E H2]. inversion E; subst p' l' r'. split; [|split].
        * unfold key. destruct (Nat.eqb_spec (g + 1) n); [lia|]. rewrite andb_false_r. reflexivity.
        * unfold g. lia.
        * replace (g + 1 - 1) with g by lia. apply (AdjS_insert_left red _ l (r - 1) g Hadj Hg Hred').
      + destruct (Hnew2 _ H) as [E H2]. inversion E; subst p' l' r'. split; [|split].
        * unfold key. destruct (Nat.eqb_spec g 0); [lia|]. reflexivity.
        * exact H2.
        * apply (AdjS_insert_right red _ l (r - 1) g Hadj Hg Hred').
    - eapply Permutation_NoDup; [apply Permutation_map, sort_by_perm|].
      unfold lefts. rewrite !map_app.
      assert (Hgl : ~ In g (map (fun e : entry => fst (snd e)) st0)).
      { intros Hin'. apply in_map_iff in Hin'. destruct Hin' as ([p' [l' r']] & E & Hin'). cbn in E. subst l'.
        destruct (Hst0 _ _ _ Hin') as (_ & _ & (Hgr & _) & _). exact (Hfresh Hgr). }
      assert (H1 : NoDup (map (fun e : entry => fst (snd e)) st0 ++ map (fun e : entry => fst (snd e)) new1) /\
                   ~ In g (map (fun e : entry => fst (snd e)) st0 ++ map (fun e : entry => fst (snd e)) new1)).
      { unfold new1. destruct (2 <? l + idx + 1 - l); cbn [map].
        - split; [apply NoDup_snoc; [apply Hnd0|apply Hnd0]|].
          intros Hin'. apply in_app_or in Hin'. destruct Hin' as [Hin'|[Hin'|[]]]; [exact (Hgl Hin')|cbn in Hin'; lia].
        - rewrite app_nil_r. split; [apply Hnd0|exact Hgl]. }
      rewrite app_assoc. unfold new2. destruct (2 <? l + (r - l) - (l + idx)); cbn [map].
      + apply NoDup_snoc; apply H1.
      + rewrite app_nil_r. apply H1.
    - intros a b Hab Hwide. apply Hst'.
      destruct (AdjS_insert_cases red _ l (r - 1) g Hadj Hg Hred' a b Hab) as [[-> ->]|[[-> ->]|[Hold Hne']]].
      + right. left. unfold new1. destruct (Nat.ltb_spec 2 (l + idx + 1 - l)) as [H2|H2]; [|unfold g in Hwide; lia].
        left. unfold key. destruct (Nat.eqb_spec (g + 1) n); [lia|]. rewrite andb_false_r. reflexivity.
      + right. right. unfold new2. destruct (Nat.ltb_spec 2 (l + (r - l) - (l + idx))) as [H2|H2]; [|unfold g in Hwide; lia].
        left. replace (l + (r - l)) with r by lia. replace (r - 1 + 1) with r by lia. fold g.
        unfold key. destruct (Nat.eqb_spec g 0); [lia|]. reflexivity.
      + left. pose proof (inv_all _ _ HI a b Hold Hwide) as H. apply in_app_or in H. destruct H as [H|[H|[]]]; [exact H|].
        inversion H; subst. congruence.
  Qed.

  (* ---- consequences of the invariant ---- *)
  Lemma last_In {A} (l : list A) d : l <> [] -> In (last l d) l.
  Proof.
    intros H. destruct (exists_last H) as (l' & a & ->). rewrite last_last. apply in_or_app. right. left. auto.
  Qed.
  Lemma Inv_WF st red : Inv st red -> WF n red.
  Proof.
    intros HI. pose proof (inv_si _ _ HI) as HS. pose proof (inv_0 _ _ HI) as H0. pose proof (inv_n _ _ HI) as Hl.
    assert (Hne : red <> []) by (intros ->; destruct H0).
    repeat split; auto.
    - pose proof (SI_hd_le red 1 0 HS H0). lia.
    - pose proof (SI_le_last red 0 (n - 1) HS Hl). pose proof (inv_le _ _ HI _ (last_In red 0 Hne)). lia.
    - assert (Hincl : incl [0; n - 1] red) by (intros x [<-|[<-|[]]]; auto).
      apply NoDup_incl_length in Hincl; [exact Hincl|]. constructor; [intros [H|[]]; lia|constructor; [intros []|constructor]].
  Qed.
  Lemma Inv_len_le st red : Inv st red -> length red <= n.
  Proof.
    intros HI. destruct (Inv_WF _ _ HI) as (HS & Hh & Hl & Hlen).
    assert (Hne : red <> []) by (intros ->; cbn in Hlen; lia).
    pose proof (SI_length_bound red HS Hne). rewrite Hl in H.
    assert (hd 0 red = 0) by (destruct red; [congruence|exact Hh]). lia.
  Qed.
  Lemma SI_nogap_length red : SI red -> red <> [] ->
    (forall a b, In (a, b) (adj_pairs red) -> b < a + 2) -> length red = last red 0 - hd 0 red + 1.
  Proof.
    induction red as [|a [|b l] IH]; intros HS Hne Hgap; [congruence|cbn; lia|].
    change (last (a :: b :: l) 0) with (last (b :: l) 0).
    destruct HS as [Hab HS]. specialize (IH HS ltac:(discriminate)).
    assert (IH' : length (b :: l) = last (b :: l) 0 - hd 0 (b :: l) + 1).
    { apply IH. intros a' b' H. apply Hgap. right. exact H. }
    cbn [length hd] in *. pose proof (Hgap a b (or_introl eq_refl)).
    pose proof (SI_le_last (b :: l) 0 b HS (or_introl eq_refl)). lia.
  Qed.
  Lemma Inv_empty_full red : Inv [] red -> length red = n.
  Proof.
    intros HI. destruct (Inv_WF _ _ HI) as (HS & Hh & Hl & Hlen).
    assert (Hne : red <> []) by (intros ->; cbn in Hlen; lia).
    rewrite SI_nogap_length; auto.
    - rewrite Hl. assert (hd 0 red = 0) by (destruct red; [congruence|exact Hh]). lia.
    - intros a b H. apply Adj_AdjS in H; auto.
      destruct (le_lt_dec (a + 2) b) as [Hw|]; [|lia]. destruct (inv_all _ _ HI a b H Hw).
  Qed.

  (* ---- the specification sequence: iterate the (total) step function ---- *)
  Definition state : Type := (list entry * list nat)%type.
  Definition step (s : state) : state :=
    match body (fst s) with
    | Some (g, st') => (st', insert_nat g (snd s))
    | None => s
    end.
  Definition InvS (s : state) : Prop := Inv (fst s) (snd s).
  Definition init : state := (stack0 n, reduced0 n).
  Fixpoint iterS (j : nat) (s : state) : state := match j with O => s | S j' => step (iterS j' s) end.
  Lemma iterS_succ_r j : forall s, iterS (S j) s = iterS j (step s).
  Proof. induction j; intros s; [reflexivity|]. change (iterS (S (S j)) s) with (step (iterS (S j) s)). rewrite IHj. reflexivity. Qed.
  Definition state_at (j : nat) : state := iterS j init.
  (* S_k *)
  Definition Sk (k : nat) : list nat := snd (state_at (k - 2)).

  Lemma step_empty s : fst s = [] -> step s = s.
  Proof. intros H. unfold step. rewrite H. reflexivity. Qed.
  Lemma iter_step_empty j s : fst s = [] -> iterS j s = s.
  Proof. intros H. induction j; [reflexivity|]. cbn [iterS]. rewrite IHj. apply step_empty, H. Qed.
  Lemma step_nonempty s : InvS s -> fst s <> [] ->
    exists p l r st0,
      fst s = st0 ++ [(p, (l, r))] /\ l < l + split_guarded (dist l r) < r - 1 /\ l + 3 <= r /\ r <= n /\
      AdjS l (r - 1) (snd s) /\ p = key l r /\
      body (fst s) = Some (l + split_guarded (dist l r), fst (step s)) /\
      snd (step s) = insert_nat (l + split_guarded (dist l r)) (snd s) /\
      (exists news, fst (step s) = sort_by ele (st0 ++ news) /\ forall e, In e news -> fst e = prio (fst (snd e)) (snd (snd e))) /\
      InvS (step s).
  Proof.
    intros HI Hne. destruct (body_step _ _ HI Hne) as (p & l & r & st0 & st' & E & Hb & Hg & Hw & Hr & Hadj & Hp & Hnews & HI').
    exists p, l, r, st0. unfold step, InvS. rewrite Hb. cbn [fst snd].
    split; [exact E|]. split; [exact Hg|]. split; [exact Hw|]. split; [exact Hr|]. split; [exact Hadj|].
    split; [exact Hp|]. split; [reflexivity|]. split; [reflexivity|]. split; [exact Hnews|exact HI'].
  Qed.
  Lemma step_inv s : InvS s -> InvS (step s).
  Proof.
    intros HI. destruct (fst s) as [|e st] eqn:E.
    - rewrite step_empty; auto.
    - destruct (step_nonempty s HI ltac:(rewrite E; discriminate)) as (? & ? & ? & ? & H). apply H.
  Qed.
  Lemma step_length s : InvS s -> fst s <> [] -> length (snd (step s)) = S (length (snd s)).
  Proof.
    intros HI Hne. destruct (step_nonempty s HI Hne) as (p & l & r & st0 & _ & _ & _ & _ & _ & _ & _ & E & _).
    rewrite E. apply insert_nat_length.
  Qed.
  Lemma nonempty_lt s : InvS s -> fst s <> [] -> length (snd s) < n.
  Proof.
    intros HI Hne. pose proof (step_length s HI Hne). pose proof (Inv_len_le _ _ (step_inv s HI)). lia.
  Qed.
  Lemma full_empty s : InvS s -> n <= length (snd s) -> fst s = [].
  Proof.
    intros HI H. destruct (fst s) eqn:E; auto. pose proof (nonempty_lt s HI ltac:(rewrite E; discriminate)). lia.
  Qed.
  Lemma iter_inv j s : InvS s -> InvS (iterS j s).
  Proof. intros H. induction j; [exact H|]. cbn [iterS]. apply step_inv, IHj. Qed.
  Lemma state_at_inv j : InvS (state_at j).
  Proof. apply iter_inv. exact Inv_init. Qed.
  Lemma state_at_S j : state_at (S j) = step (state_at j).
  Proof. reflexivity. Qed.
  Lemma state_at_add i j : state_at (i + j) = iterS j (state_at i).
  Proof. unfold state_at. rewrite Nat.add_comm. induction j; [reflexivity|]. cbn [Nat.add iterS]. rewrite IHj. reflexivity. Qed.

  Lemma state_at_length j : length (snd (state_at j)) = Nat.min (j + 2) n.
  Proof.
    induction j as [|j IH]; [unfold state_at, init, reduced0; cbn [iterS snd length]; lia|].
    rewrite state_at_S. pose proof (state_at_inv j) as HI.
    destruct (fst (state_at j)) eqn:E.
    - rewrite step_empty; auto. pose proof HI as HI'. unfold InvS in HI'. rewrite E in HI'. apply Inv_empty_full in HI'. lia.
    - assert (Hne : fst (state_at j) <> []) by (rewrite E; discriminate).
      rewrite step_length; auto. pose proof (nonempty_lt _ HI Hne). lia.
  Qed.

  (* ---- C05 on the specification sequence ---- *)
  Theorem Sk_WF k : WF n (Sk k).
  Proof. exact (Inv_WF _ _ (state_at_inv (k - 2))). Qed.
  Theorem Sk_length k : length (Sk k) = Nat.min (Nat.max k 2) n.
  Proof. unfold Sk. rewrite state_at_length. lia. Qed.
  Lemma Sk_clip k : n <= k -> Sk k = Sk n.
  Proof.
    intros H. unfold Sk. replace (k - 2) with ((n - 2) + (k - n)) by lia. rewrite state_at_add.
    rewrite iter_step_empty; auto. apply full_empty; [apply state_at_inv|]. rewrite state_at_length. lia.
  Qed.

  Theorem Sk_nested k : 2 <= k -> k < n ->
    exists a b, In (a, b) (adj_pairs (Sk k)) /\ a + 2 <= b /\
      a < a + split_guarded (dist a (b + 1)) < b /\
      Sk (k + 1) = insert_nat (a + split_guarded (dist a (b + 1))) (Sk k).
  Proof.
    intros H2 Hk. pose proof (state_at_inv (k - 2)) as HI.
    assert (Hne : fst (state_at (k - 2)) <> []).
    { intros E. unfold InvS in HI. rewrite E in HI. apply Inv_empty_full in HI. rewrite state_at_length in HI. lia. }
    destruct (step_nonempty _ HI Hne) as (p & l & r & st0 & _ & Hg & Hw & Hr & Hadj & _ & _ & E & _).
    exists l, (r - 1). replace (r - 1 + 1) with r by lia. split; [|split; [lia|split; [exact Hg|]]].
    - apply AdjS_Adj; [apply (inv_si _ _ HI)|exact Hadj].
    - unfold Sk. replace (k + 1 - 2) with (S (k - 2)) by lia. rewrite state_at_S. exact E.
  Qed.


  (* Tier O: the stack is sorted by priority, so the popped segment has maximal priority *)
  Section Greedy.
    Variable P : T N -> Prop.
    Hypothesis HP : TotalPreorderOn P.
    Hypothesis Pzero : P zero.
    (* the priorities present: those of the retained segments with interior points of the states reached *)
    Hypothesis Pprio : forall j l r, AdjS l (r - 1) (snd (state_at j)) -> l + 3 <= r -> P (prio l r).
    Let Rle (a b : entry) : Prop := ele a b = true.

    Lemma Pkey j l r : AdjS l (r - 1) (snd (state_at j)) -> l + 3 <= r -> P (key l r).
    Proof. intros H1 H2. unfold key. destruct ((l =? 0) && (r =? n)); [exact Pzero|exact (Pprio j l r H1 H2)]. Qed.
    Lemma state_sorted j : StronglySorted Rle (fst (state_at j)).
    Proof.
      destruct j as [|j].
      - cbn. unfold stack0. destruct (2 <? n); repeat constructor.
      - rewrite state_at_S. pose proof (state_at_inv j) as HI.
        destruct (fst (state_at j)) as [|e0 l0] eqn:E.
        + rewrite step_empty; auto. rewrite E. constructor.
        + destruct (step_nonempty _ HI ltac:(rewrite E; discriminate)) as (p & l & r & st0 & Est & _ & _ & _ & _ & _ & _ & _ & (news & Enews & _) & HI').
          rewrite Enews.
          apply (sort_by_sorted ele (fun e : entry => P (fst e))).
          * intros x y z Px Py Pz. unfold ele. apply (ord_trans P HP); auto.
          * intros x y Px Py. unfold ele. apply (ord_total P HP); auto.
          * rewrite Forall_forall. intros [p' [l' r']] He. cbn [fst].
            assert (Hin : In (p', (l', r')) (fst (step (state_at j)))) by (rewrite Enews; apply sort_by_In; exact He).
            destruct (inv_st _ _ HI' p' l' r' Hin) as (-> & Hw' & Hadj').
            rewrite <- state_at_S in Hadj'. exact (Pkey (S j) l' r' Hadj' Hw').
    Qed.

    Theorem Sk_greedy k : 2 <= k -> k < n ->
      exists a b, In (a, b) (adj_pairs (Sk k)) /\ a + 2 <= b /\
        Sk (k + 1) = insert_nat (a + split_guarded (dist a (b + 1))) (Sk k) /\
        forall a' b', In (a', b') (adj_pairs (Sk k)) -> a' + 2 <= b' ->
          (a' = a /\ b' = b) \/ prio a' (b' + 1) <=?! prio a (b + 1) = true.
    Proof.
      intros H2 Hk. pose proof (state_at_inv (k - 2)) as HI.
      assert (Hne : fst (state_at (k - 2)) <> []).
      { intros E. unfold InvS in HI. rewrite E in HI. apply Inv_empty_full in HI. rewrite state_at_length in HI. lia. }
      destruct (step_nonempty _ HI Hne) as (p & l & r & st0 & Est & Hg & Hw & Hr & Hadj & Hp & _ & E & _).
      exists l, (r - 1). replace (r - 1 + 1) with r by lia. split; [|split; [lia|split]].
      - apply AdjS_Adj; [apply (inv_si _ _ HI)|exact Hadj].
      - unfold Sk. replace (k + 1 - 2) with (S (k - 2)) by lia. rewrite state_at_S. exact E.
      - intros a' b' Hin Hwide. fold (Sk k) in *.
        apply Adj_AdjS in Hin; [|apply (inv_si _ _ HI)].
        pose proof (inv_all _ _ HI a' b' Hin Hwide) as Hmem. rewrite Est in Hmem.
        apply in_app_or in Hmem. destruct Hmem as [Hmem|[Hmem|[]]].
        + pose proof (state_sorted (k - 2)) as Hs. rewrite Est in Hs.
          apply (sorted_snoc_max ele) in Hs. rewrite Forall_forall in Hs. specialize (Hs _ Hmem).
          unfold ele in Hs. cbn [fst] in Hs. subst p.
          (* keys are priorities unless a segment is the root, and the root is alone *)
          assert (Hroot : forall x y, AdjS x y (Sk k) -> (x =? 0) && (y + 1 =? n) = true -> forall x' y', AdjS x' y' (Sk k) -> x' = x /\ y' = y).
          { intros x y (Hx & Hy & Hxy & Hno) Hc x' y' (Hx' & Hy' & Hxy' & _).
            apply andb_true_iff in Hc. destruct Hc as [Hc1 Hc2]. apply Nat.eqb_eq in Hc1, Hc2.
            pose proof (inv_le _ _ HI _ Hy'). destruct (Hno x' Hx'); destruct (Hno y' Hy'); lia. }
          unfold key in Hs.
          destruct ((a' =? 0) && (b' + 1 =? n)) eqn:C1.
          { left. destruct (Hroot a' b' Hin C1 l (r - 1) Hadj). lia. }
          destruct ((l =? 0) && (r =? n)) eqn:C2.
          { left. replace r with (r - 1 + 1) in C2 by lia. apply (Hroot l (r - 1) Hadj C2 a' b' Hin). }
          right. exact Hs.
        + left. inversion Hmem. lia.
    Qed.
  End Greedy.

  (* ---- the loops compute the specification sequence ---- *)
  Notation _rdp_fixed := (_rdp_fixed eps dist prio).
  Notation rdp_fixed := (rdp_fixed n eps dist prio).

  Lemma sort_nat_length l : length (sort_nat l) = length l.
  Proof. symmetry. apply Permutation_length, sort_nat_perm. Qed.

  (* `reduced` is appended to and sorted at the end; the stack empties or the budget runs out *)
  Lemma fixed_loop_spec : forall fuel len st red,
    Inv st (sort_nat red) -> n - length red < fuel ->
    _rdp_fixed fuel len st red = Some (snd (iterS len (st, sort_nat red))).
  Proof.
    induction fuel as [|f IH]; intros len st red HI Hf; [lia|].
    cbn [RdpFixed._rdp_fixed].
    destruct ((0 <? len) && nonempty st) eqn:C.
    - apply andb_true_iff in C. destruct C as [C1 C2]. apply Nat.ltb_lt in C1. apply nonempty_true in C2.
      destruct len as [|len']; [lia|].
      destruct (step_nonempty (st, sort_nat red) HI C2) as (p & l & r & st0 & _ & _ & _ & _ & _ & _ & Hb & Hs & _ & HI').
      cbn [fst snd] in Hb, Hs. rewrite Hb. replace (S len' - 1) with len' by lia.
      rewrite IH.
      + rewrite iterS_succ_r. rewrite sort_nat_snoc, <- Hs. destruct (step (st, sort_nat red)); reflexivity.
      + rewrite sort_nat_snoc, <- Hs. exact HI'.
      + pose proof (nonempty_lt (st, sort_nat red) HI C2) as Hlt. cbn [snd] in Hlt.
        rewrite sort_nat_length in Hlt. rewrite app_length. cbn. lia.
    - f_equal. apply andb_false_iff in C. destruct C as [C|C].
      + apply Nat.ltb_ge in C. replace len with 0 by lia. reflexivity.
      + apply nonempty_false in C. subst st. rewrite iter_step_empty; reflexivity.
  Qed.

  Lemma init_sorted : sort_nat (reduced0 n) = reduced0 n.
  Proof. apply sort_nat_SI_id. unfold reduced0. cbn. lia. Qed.

  Theorem rdp_fixed_spec fuel k : n <= fuel -> rdp_fixed fuel k = Some (Sk k, rows (Sk k)).
  Proof.
    intros Hf. unfold RdpFixed.rdp_fixed. rewrite fixed_loop_spec.
    - rewrite init_sorted. fold init. fold (state_at (k - 2)). fold (Sk k).
      rewrite (compute_removed_rows n _ (Sk_WF k)). reflexivity.
    - rewrite init_sorted. exact Inv_init.
    - unfold reduced0. cbn [length]. lia.
  Qed.

  (* C01, fixed family: the loop returns within n iterations with a well-formed reduction *)
  Theorem rdp_fixed_total fuel k : n <= fuel ->
    exists red, rdp_fixed fuel k = Some (red, rows red) /\ WF n red.
  Proof. intros Hf. exists (Sk k). split; [apply rdp_fixed_spec; exact Hf|apply Sk_WF]. Qed.

  (* ---- global RDP ---- *)
  Variable gcost : list nat -> T N.
  Variable is_r2 : bool.
  Notation curved := (curved is_r2).
  Notation _grdp_loop := (_grdp_loop eps dist prio gcost is_r2).
  Notation _grdp := (_grdp eps dist prio gcost is_r2).
  Notation grdp := (grdp n eps dist prio gcost is_r2).
  Notation mp_grdp := (mp_grdp n eps dist prio gcost is_r2).

  Lemma grdp_loop_spec t : forall fuel s, InvS s -> n - length (snd s) < fuel ->
    exists j, _grdp_loop t fuel (curved t (gcost (snd s))) (fst s) (snd s) = Some (snd (iterS j s), fst (iterS j s)) /\
              (forall j', j' < j -> curved t (gcost (snd (iterS j' s))) = true /\ fst (iterS j' s) <> []) /\
              (curved t (gcost (snd (iterS j s))) = false \/ fst (iterS j s) = []).
  Proof.
    induction fuel as [|f IH]; intros s HI Hf; [lia|].
    cbn [RdpFixed._grdp_loop].
    destruct (curved t (gcost (snd s)) && nonempty (fst s)) eqn:C.
    - apply andb_true_iff in C. destruct C as [C1 C2]. apply nonempty_true in C2.
      destruct (step_nonempty s HI C2) as (p & l & r & st0 & _ & _ & _ & _ & _ & _ & Hb & Hs & _ & HI').
      rewrite Hb. rewrite sort_nat_snoc, (sort_nat_SI_id (snd s) (inv_si _ _ HI)), <- Hs.
      destruct (IH (step s) HI') as (j & E & Hbefore & Hat).
      { pose proof (step_length s HI C2). pose proof (nonempty_lt s HI C2). lia. }
      exists (S j). rewrite iterS_succ_r. split; [exact E|]. split; [|exact Hat].
      intros [|j'] Hj'; [cbn [iterS]; split; assumption|].
      rewrite iterS_succ_r. apply Hbefore. lia.
    - exists 0. cbn [iterS]. split; [reflexivity|]. split; [intros j' Hj'; lia|].
      apply andb_false_iff in C. destruct C as [C|C]; [left; exact C|right; apply nonempty_false; exact C].
  Qed.

  (* k is the least k in [2,n] whose S_k is on the accepting side of t, or n if there is none *)
  Definition FirstAcc (t : T N) (k : nat) : Prop :=
    2 <= k <= n /\ (forall j, 2 <= j < k -> curved t (gcost (Sk j)) = true) /\
    (curved t (gcost (Sk k)) = false \/ k = n).
  Lemma FirstAcc_unique t k k' : FirstAcc t k -> FirstAcc t k' -> k = k'.
  Proof.
    intros (H1 & H2 & H3) (H1' & H2' & H3').
    destruct (lt_eq_lt_dec k k') as [[Hlt|Heq]|Hgt]; auto.
    - specialize (H2' k ltac:(lia)). destruct H3 as [H3|H3]; [congruence|lia].
    - specialize (H2 k' ltac:(lia)). destruct H3' as [H3'|H3']; [congruence|lia].
  Qed.

  Lemma nonempty_prefix_length j : (forall j', j' < j -> fst (state_at j') <> []) -> length (snd (state_at j)) = j + 2.
  Proof.
    induction j as [|j IH]; intros H; [rewrite state_at_length; lia|].
    rewrite state_at_S, step_length; [|apply state_at_inv|apply H; lia]. rewrite IH; [lia|]. intros j' Hj'. apply H. lia.
  Qed.

  (* the state global RDP stops in *)
  Lemma grdp_stops t fuel : n <= fuel ->
    exists k, FirstAcc t k /\
      _grdp t fuel (stack0 n) (reduced0 n) = Some (Sk k, fst (state_at (k - 2))).
  Proof.
    intros Hf. destruct (grdp_loop_spec t fuel init Inv_init) as (j & E & Hbefore & Hat).
    { unfold init, reduced0. cbn [snd length]. lia. }
    fold (state_at j) in *.
    assert (Hlen : length (snd (state_at j)) = j + 2).
    { apply nonempty_prefix_length. intros j' Hj'. apply (Hbefore j' Hj'). }
    pose proof (Inv_len_le _ _ (state_at_inv j)) as Hle.
    exists (j + 2). replace (j + 2 - 2) with j by lia.
    assert (HSk : Sk (j + 2) = snd (state_at j)) by (unfold Sk; replace (j + 2 - 2) with j by lia; reflexivity).
    unfold FirstAcc. rewrite HSk. split; [|exact E].
    split; [lia|]. split.
    - intros i Hi. unfold Sk. apply (Hbefore (i - 2)). lia.
    - destruct Hat as [Hat|Hat]; [left; exact Hat|right].
      pose proof (state_at_inv j) as HI. unfold InvS in HI. rewrite Hat in HI. apply Inv_empty_full in HI. lia.
  Qed.

  (* C06, first clause *)
  Theorem grdp_first_accepting t fuel : n <= fuel ->
    exists k, FirstAcc t k /\ grdp t fuel = Some (Sk k, rows (Sk k)).
  Proof.
    intros Hf. destruct (grdp_stops t fuel Hf) as (k & HF & E). exists k. split; [exact HF|].
    unfold RdpFixed.grdp. rewrite E. rewrite (compute_removed_rows n _ (Sk_WF k)). reflexivity.
  Qed.

  (* C06, second clause: the continuation re-uses stack and retained set *)
  Theorem mp_grdp_spec t fuel m : n <= fuel ->
    exists k, FirstAcc t k /\ mp_grdp t fuel m = Some (Sk (Nat.max k (Nat.min m n)), rows (Sk (Nat.max k (Nat.min m n)))).
  Proof.
    intros Hf. destruct (grdp_stops t fuel Hf) as (k & HF & E). exists k. split; [exact HF|].
    unfold RdpFixed.mp_grdp. rewrite E. destruct HF as (Hk & _).
    rewrite Sk_length. replace (Nat.min (Nat.max k 2) n) with k by lia.
    destruct (Nat.leb_spec m k) as [Hm|Hm].
    - replace (Nat.max k (Nat.min m n)) with k by lia. rewrite (compute_removed_rows n _ (Sk_WF k)). reflexivity.
    - pose proof (state_at_inv (k - 2)) as HI. pose proof (Sk_WF k) as HW.
      rewrite fixed_loop_spec.
      + rewrite (sort_nat_SI_id (Sk k)) by apply HW.
        assert (Hst : (fst (state_at (k - 2)), Sk k) = state_at (k - 2)) by (unfold Sk; destruct (state_at (k - 2)); reflexivity).
        rewrite Hst, <- state_at_add. replace (k - 2 + (m - k)) with (m - 2) by lia. fold (Sk m).
        replace (Nat.max k (Nat.min m n)) with (Nat.min m n) by lia.
        destruct (Nat.le_ge_cases m n) as [Hmn|Hmn].
        * replace (Nat.min m n) with m by lia. rewrite (compute_removed_rows n _ (Sk_WF m)). reflexivity.
        * replace (Nat.min m n) with n by lia. rewrite (Sk_clip m Hmn). rewrite (compute_removed_rows n _ (Sk_WF n)). reflexivity.
      + rewrite (sort_nat_SI_id (Sk k)) by apply HW. exact HI.
      + rewrite Sk_length. lia.
  Qed.

  Theorem grdp_total t fuel : n <= fuel ->
    exists red, grdp t fuel = Some (red, rows red) /\ WF n red.
  Proof. intros Hf. destruct (grdp_first_accepting t fuel Hf) as (k & _ & E). exists (Sk k). split; [exact E|apply Sk_WF]. Qed.
  Theorem mp_grdp_total t fuel m : n <= fuel ->
    exists red, mp_grdp t fuel m = Some (red, rows red) /\ WF n red.
  Proof. intros Hf. destruct (mp_grdp_spec t fuel m Hf) as (k & _ & E). eexists. split; [exact E|apply Sk_WF]. Qed.
End Facts.

(* ---- the computable k* and the multi-threshold variant ---- *)
Section MinPoint.
  Context {N : Num}.
  Variable n : nat.
  Variable eps : T N.
  Variable dist : nat -> nat -> list (T N).
  Variable prio : nat -> nat -> T N.
  Variable gcost : list nat -> T N.
  Hypothesis Hn : 2 <= n.
  Hypothesis Hshape : forall l r, l + 3 <= r -> r <= n -> length (dist l r) = r - l.
  Notation Sk := (Sk n eps dist prio).

  (* least k in [2,n] with S_k accepting, else n — by linear search *)
  Fixpoint kstar_go (is_r2 : bool) (t : T N) (k cnt : nat) : nat :=
    match cnt with
    | O => k
    | S c => if curved is_r2 t (gcost (Sk k)) then kstar_go is_r2 t (S k) c else k
    end.
  Definition kstar (is_r2 : bool) (t : T N) : nat := kstar_go is_r2 t 2 (n - 2).

  Lemma kstar_go_spec is_r2 t : forall cnt k, k + cnt = n -> 2 <= k ->
    (forall j, 2 <= j < k -> curved is_r2 t (gcost (Sk j)) = true) ->
    FirstAcc n eps dist prio gcost is_r2 t (kstar_go is_r2 t k cnt).
  Proof.
    induction cnt as [|c IH]; intros k Hk H2 Hb; cbn [kstar_go].
    - split; [lia|]. split; [exact Hb|right; lia].
    - destruct (curved is_r2 t (gcost (Sk k))) eqn:C.
      + apply IH; [lia|lia|]. intros j Hj. destruct (Nat.eq_dec j k) as [->|]; [exact C|apply Hb; lia].
      + split; [lia|]. split; [exact Hb|left; exact C].
  Qed.
  Lemma kstar_FirstAcc is_r2 t : FirstAcc n eps dist prio gcost is_r2 t (kstar is_r2 t).
  Proof. apply kstar_go_spec; [lia|lia|intros j Hj; lia]. Qed.

  Theorem grdp_kstar is_r2 t fuel : n <= fuel ->
    grdp n eps dist prio gcost is_r2 t fuel = Some (Sk (kstar is_r2 t), rows (Sk (kstar is_r2 t))).
  Proof.
    intros Hf. destruct (grdp_first_accepting n eps dist prio Hn Hshape gcost is_r2 t fuel Hf) as (k & HF & E).
    assert (kstar is_r2 t = k) as -> by (apply (FirstAcc_unique n eps dist prio Hn gcost is_r2 t); [apply kstar_FirstAcc|exact HF]). exact E.
  Qed.
  Theorem mp_grdp_kstar is_r2 t fuel m : n <= fuel ->
    let k := Nat.max (kstar is_r2 t) (Nat.min m n) in
    mp_grdp n eps dist prio gcost is_r2 t fuel m = Some (Sk k, rows (Sk k)).
  Proof.
    intros Hf. destruct (mp_grdp_spec n eps dist prio Hn Hshape gcost is_r2 t fuel m Hf) as (k & HF & E).
    assert (kstar is_r2 t = k) as -> by (apply (FirstAcc_unique n eps dist prio Hn gcost is_r2 t); [apply kstar_FirstAcc|exact HF]). exact E.
  Qed.

  (* thresholds in the order they are tried: the first whose k* reaches m, else m itself *)
  Fixpoint mp_pick (m : nat) (ts : list (T N)) : nat :=
    match ts with
    | [] => m
    | t :: ts' => if m <=? kstar false t then kstar false t else mp_pick m ts'
    end.
  Lemma min_point_go_spec fuel m : n <= fuel -> forall ts,
    min_point_go n eps dist prio gcost fuel m ts = Some (Sk (mp_pick m ts), rows (Sk (mp_pick m ts))).
  Proof.
    intros Hf. induction ts as [|t ts IH]; cbn [min_point_go mp_pick].
    - apply rdp_fixed_spec; auto.
    - rewrite grdp_kstar by exact Hf. rewrite Sk_length by auto.
      pose proof (kstar_FirstAcc false t) as (Hk & _).
      replace (Nat.min (Nat.max (kstar false t) 2) n) with (kstar false t) by lia.
      destruct (m <=? kstar false t); [reflexivity|exact IH].
  Qed.
  (* C06, third clause *)
  Theorem min_point_rdp_spec fuel ts m : n <= fuel ->
    let k := mp_pick m (sort_desc ts) in
    min_point_rdp n eps dist prio gcost fuel ts m = Some (Sk k, rows (Sk k)).
  Proof. intros Hf. apply min_point_go_spec. exact Hf. Qed.
  Theorem min_point_rdp_total fuel ts m : n <= fuel ->
    exists red, min_point_rdp n eps dist prio gcost fuel ts m = Some (red, rows red) /\ WF n red.
  Proof. intros Hf. eexists. split; [apply min_point_rdp_spec; exact Hf|apply Sk_WF; auto]. Qed.
End MinPoint.


(* ---- the statements of C05 / C06 on the model functions themselves ---- *)
Section Statements.
  Context {N : Num}.
  Variable n : nat.
  Variable eps : T N.
  Variable dist : nat -> nat -> list (T N).
  Variable prio : nat -> nat -> T N.
  Hypothesis Hn : 2 <= n.
  Hypothesis Hshape : forall l r, l + 3 <= r -> r <= n -> length (dist l r) = r - l.
  Notation rdp_fixed := (rdp_fixed n eps dist prio).
  Notation Sk := (Sk n eps dist prio).

  Theorem fixed_size fuel k : n <= fuel ->
    exists red, rdp_fixed fuel k = Some (red, rows red) /\ WF n red /\ length red = Nat.min (Nat.max k 2) n.
  Proof.
    intros Hf. exists (Sk k). split; [apply rdp_fixed_spec; auto|]. split; [apply Sk_WF; auto|apply Sk_length; auto].
  Qed.

  Theorem fixed_nested fuel k : n <= fuel -> 2 <= k -> k < n ->
    exists red a b,
      rdp_fixed fuel k = Some (red, rows red) /\ In (a, b) (adj_pairs red) /\ a + 2 <= b /\
      a < a + split_guarded eps (dist a (b + 1)) < b /\
      rdp_fixed fuel (k + 1) = Some (insert_nat (a + split_guarded eps (dist a (b + 1))) red,
                                     rows (insert_nat (a + split_guarded eps (dist a (b + 1))) red)).
  Proof.
    intros Hf H2 Hk. destruct (Sk_nested n eps dist prio Hn Hshape k H2 Hk) as (a & b & Hin & Hw & Hg & E).
    exists (Sk k), a, b. split; [apply rdp_fixed_spec; auto|]. split; [exact Hin|]. split; [exact Hw|]. split; [exact Hg|].
    rewrite <- E. apply rdp_fixed_spec; auto.
  Qed.

  (* Tier O on the priorities present: those of the retained segments (with interior points) of the chain *)
  Theorem fixed_greedy fuel k :
    TotalPreorderOn (@notnan N) -> notnan (@zero N) ->
    (forall j a b, In (a, b) (adj_pairs (red_of (rdp_fixed fuel j))) -> a + 2 <= b -> notnan (prio a (b + 1))) ->
    n <= fuel -> 2 <= k -> k < n ->
    exists red a b,
      rdp_fixed fuel k = Some (red, rows red) /\ In (a, b) (adj_pairs red) /\ a + 2 <= b /\
      rdp_fixed fuel (k + 1) = Some (insert_nat (a + split_guarded eps (dist a (b + 1))) red,
                                     rows (insert_nat (a + split_guarded eps (dist a (b + 1))) red)) /\
      forall a' b', In (a', b') (adj_pairs red) -> a' + 2 <= b' ->
        (a' = a /\ b' = b) \/ prio a' (b' + 1) <=?! prio a (b + 1) = true.
  Proof.
    intros HO Hz Hp Hf H2 Hk.
    assert (Hp' : forall j l r, AdjS l (r - 1) (snd (state_at n eps dist prio j)) -> l + 3 <= r -> notnan (prio l r)).
    { intros j l r Hadj Hw. replace r with (r - 1 + 1) by lia. apply (Hp (j + 2)); [|lia].
      rewrite rdp_fixed_spec by auto. cbn [red_of]. unfold RdpFixedFacts.Sk. replace (j + 2 - 2) with j by lia.
      apply AdjS_Adj; [|exact Hadj]. apply (inv_si _ _ _ _ (state_at_inv n eps dist prio Hn Hshape j)). }
    destruct (Sk_greedy n eps dist prio Hn Hshape notnan HO Hz Hp' k H2 Hk) as (a & b & Hin & Hw & E & Hmax).
    exists (Sk k), a, b. split; [apply rdp_fixed_spec; auto|]. split; [exact Hin|]. split; [exact Hw|]. split; [|exact Hmax].
    rewrite <- E. apply rdp_fixed_spec; auto.
  Qed.
End Statements.

Section Statements6.
  Context {N : Num}.
  Variable n : nat.
  Variable eps : T N.
  Variable dist : nat -> nat -> list (T N).
  Variable prio : nat -> nat -> T N.
  Variable gcost : list nat -> T N.
  Hypothesis Hn : 2 <= n.
  Hypothesis Hshape : forall l r, l + 3 <= r -> r <= n -> length (dist l r) = r - l.
  Notation rdp_fixed := (rdp_fixed n eps dist prio).
  Notation grdp := (grdp n eps dist prio gcost).
  Notation mp_grdp := (mp_grdp n eps dist prio gcost).
  Notation Sk := (Sk n eps dist prio).

  (* k is the least k in [2,n] whose fixed-size result is on the accepting side of t, else n *)
  Definition first_acc_k (is_r2 : bool) (t : T N) (fuel k : nat) : Prop :=
    2 <= k <= n /\
    (forall j, 2 <= j < k -> curved is_r2 t (gcost (red_of (rdp_fixed fuel j))) = true) /\
    (curved is_r2 t (gcost (red_of (rdp_fixed fuel k))) = false \/ k = n).

  Lemma FirstAcc_first_acc_k is_r2 t fuel k : n <= fuel ->
    FirstAcc n eps dist prio gcost is_r2 t k -> first_acc_k is_r2 t fuel k.
  Proof.
    intros Hf (H1 & H2 & H3). split; [exact H1|]. split.
    - intros j Hj. rewrite rdp_fixed_spec by auto. cbn [red_of]. apply H2. exact Hj.
    - rewrite rdp_fixed_spec by auto. exact H3.
  Qed.

  Theorem grdp_first_accepting_stmt is_r2 t fuel : n <= fuel ->
    exists k, first_acc_k is_r2 t fuel k /\ grdp is_r2 t fuel = rdp_fixed fuel k.
  Proof.
    intros Hf. destruct (grdp_first_accepting n eps dist prio Hn Hshape gcost is_r2 t fuel Hf) as (k & HF & E).
    exists k. split; [apply FirstAcc_first_acc_k; auto|]. rewrite E, rdp_fixed_spec by auto. reflexivity.
  Qed.
  Theorem mp_grdp_spec_stmt is_r2 t fuel m : n <= fuel ->
    exists k, first_acc_k is_r2 t fuel k /\ mp_grdp is_r2 t fuel m = rdp_fixed fuel (Nat.max k (Nat.min m n)).
  Proof.
    intros Hf. destruct (mp_grdp_spec n eps dist prio Hn Hshape gcost is_r2 t fuel m Hf) as (k & HF & E).
    exists k. split; [apply FirstAcc_first_acc_k; auto|]. rewrite E, rdp_fixed_spec by auto. reflexivity.
  Qed.
  Lemma first_acc_k_unique is_r2 t fuel k k' : first_acc_k is_r2 t fuel k -> first_acc_k is_r2 t fuel k' -> k = k'.
  Proof.
    intros (H1 & H2 & H3) (H1' & H2' & H3').
    destruct (lt_eq_lt_dec k k') as [[Hlt|Heq]|Hgt]; auto.
    - specialize (H2' k ltac:(lia)). destruct H3 as [H3|H3]; [congruence|lia].
    - specialize (H2 k' ltac:(lia)). destruct H3' as [H3'|H3']; [congruence|lia].
  Qed.

  (* the multi-threshold variant: thresholds in descending (stable) order; the first whose global-RDP result has
     at least m indices, else the fixed-size result for m *)
  Theorem min_point_rdp_spec_stmt fuel ts m : n <= fuel ->
    min_point_rdp n eps dist prio gcost fuel ts m =
      match find (fun o => m <=? length (red_of o)) (map (fun t => grdp false t fuel) (sort_desc ts)) with
      | Some o => o
      | None => rdp_fixed fuel m
      end.
  Proof.
    intros Hf. unfold min_point_rdp. induction (sort_desc ts) as [|t l IH]; [reflexivity|].
    cbn [min_point_go map find].
    destruct (grdp_total n eps dist prio Hn Hshape gcost false t fuel Hf) as (red & E & _). rewrite E. cbn [red_of].
    destruct (m <=? length red); [reflexivity|exact IH].
  Qed.
End Statements6.
