(* Proofs/GlobalCostFacts.v — C15: cache transparency, the definition of the global cost, ranges, MIP. *)
From Coq Require Import ZArith List Arith Bool Lia.
From Knee Require Import Num NpList Model.GlobalCost.
Import ListNotations.
Local Open Scope num_scope.

(* ---------------------------------------------------------------------------------------------- *)
(* Tier S: the cache, for every value type and every miss function *)
Section CacheFacts.
  Context {V : Type}.
  Variable f : nat -> nat -> V.

  (* the cache agrees with f on its domain *)
  Definition agrees (c : @segcache V) : Prop :=
    forall k v, lookup k c = Some v -> v = f (fst k) (snd k).

  Lemma key_eqb_eq a b : key_eqb a b = true <-> a = b.
  Proof.
    destruct a, b; unfold key_eqb; cbn. rewrite andb_true_iff, !Nat.eqb_eq. split; [intros []; congruence|intros H; inversion H; auto].
  Qed.
  Lemma key_eqb_refl a : key_eqb a a = true.
  Proof. apply key_eqb_eq; reflexivity. Qed.

  Lemma lookup_app k (c1 c2 : @segcache V) :
    lookup k (c1 ++ c2) = match lookup k c1 with Some v => Some v | None => lookup k c2 end.
  Proof.
    induction c1 as [|[k' v'] c1 IH]; cbn; auto. destruct (key_eqb k k'); auto.
  Qed.

  Lemma agrees_nil : agrees [].
  Proof. intros k v H; discriminate. Qed.

  Lemma agrees_snoc c l r : agrees c -> agrees (c ++ [((l, r), f l r)]).
  Proof.
    intros Hc k v. rewrite lookup_app. destruct (lookup k c) eqn:E.
    - intros H; inversion H; subst. eauto.
    - cbn. destruct (key_eqb k (l, r)) eqn:Ek; [|discriminate].
      apply key_eqb_eq in Ek. subst k. intros H; inversion H; reflexivity.
  Qed.

  (* one segment query *)
  Lemma query_seg_inv c l r :
    agrees c ->
    fst (query_seg f c l r) = f l r /\ agrees (snd (query_seg f c l r)) /\
    exists ext, snd (query_seg f c l r) = c ++ ext.
  Proof.
    intros Hc. unfold query_seg. destruct (lookup (l, r) c) eqn:E; cbn.
    - split; [exact (Hc _ _ E)|]. split; auto. exists []. rewrite app_nil_r; reflexivity.
    - split; auto. split; [apply agrees_snoc; auto|eauto].
  Qed.

  Lemma seg_errors_go_inv : forall rest c lft,
    agrees c ->
    fst (seg_errors_go f c lft rest) = map (fun k => f (fst k) (snd k)) (seg_pairs lft rest) /\
    agrees (snd (seg_errors_go f c lft rest)) /\
    exists ext, snd (seg_errors_go f c lft rest) = c ++ ext.
  Proof.
    induction rest as [|rgt rest IH]; intros c lft Hc; cbn [seg_errors_go seg_pairs map].
    - cbn. split; auto. split; auto. exists []; rewrite app_nil_r; reflexivity.
    - destruct (query_seg_inv c lft rgt Hc) as (Hv & Hc1 & ext1 & He1).
      destruct (query_seg f c lft rgt) as [v c1]. cbn [fst snd] in *.
      destruct (IH c1 rgt Hc1) as (Hvs & Hc2 & ext2 & He2).
      destruct (seg_errors_go f c1 rgt rest) as [vs c2]. cbn [fst snd] in *.
      split; [congruence|]. split; auto. exists (ext1 ++ ext2). rewrite He2, He1, app_assoc. reflexivity.
  Qed.

  (* cache_inv at the level of the segment loop: a cache that agrees with f yields exactly the fresh values and an
     extension of itself that still agrees *)
  Lemma seg_errors_inv c red :
    agrees c ->
    fst (seg_errors f c red) = seg_values f red /\
    agrees (snd (seg_errors f c red)) /\
    exists ext, snd (seg_errors f c red) = c ++ ext.
  Proof.
    intros Hc. destruct red as [|lft rest]; cbn [seg_errors seg_values segments].
    - cbn. split; auto. split; auto. exists []; rewrite app_nil_r; reflexivity.
    - apply seg_errors_go_inv; auto.
  Qed.

  (* unconditionally: the dict is only ever extended at the end *)
  Lemma seg_errors_go_ext : forall rest c lft, exists ext, snd (seg_errors_go f c lft rest) = c ++ ext.
  Proof.
    induction rest as [|rgt rest IH]; intros c lft; cbn [seg_errors_go].
    - exists []; rewrite app_nil_r; reflexivity.
    - assert (H1 : exists ext, snd (query_seg f c lft rgt) = c ++ ext).
      { unfold query_seg. destruct (lookup (lft, rgt) c); cbn; [exists []; rewrite app_nil_r; reflexivity|eauto]. }
      destruct (query_seg f c lft rgt) as [v c1]. cbn [snd] in H1. destruct H1 as [e1 H1].
      destruct (IH c1 rgt) as [e2 H2]. destruct (seg_errors_go f c1 rgt rest) as [vs c2]. cbn [snd] in *.
      exists (e1 ++ e2). rewrite H2, H1, app_assoc; reflexivity.
  Qed.
  Lemma seg_errors_ext c red : exists ext, snd (seg_errors f c red) = c ++ ext.
  Proof.
    destruct red as [|lft rest]; cbn [seg_errors]; [exists []; rewrite app_nil_r; reflexivity|apply seg_errors_go_ext].
  Qed.

  Lemma seg_values_length red : length (seg_values f red) = length red - 1.
  Proof.
    unfold seg_values. rewrite map_length. destruct red as [|lft rest]; cbn; auto.
    rewrite Nat.sub_0_r. revert lft. induction rest; intros; cbn; auto.
  Qed.
End CacheFacts.

(* ---------------------------------------------------------------------------------------------- *)
(* Tier S: compute_global_cost *)
Section GCostFacts.
  Context {N : Num}.
  Variable n : nat.
  Variable segerr : nat -> nat -> T N.
  Variable tss : T N.

  Notation seg_fresh := (@seg_fresh N n segerr).
  Notation gcost := (@gcost N n segerr tss).
  Notation gcost_fresh := (@gcost_fresh N n segerr tss).
  Notation gcost_spec := (@gcost_spec N n segerr tss).
  Notation run_shared := (@run_shared N n segerr tss).

  (* the whole dict agrees with the oracles: every (l, r) entry holds the segment's own error, 'tss' (if present) is tss *)
  Definition cache_ok (c : @cache N) : Prop :=
    agrees seg_fresh (fst c) /\ (forall t, snd c = Some t -> t = tss).

  Lemma cache_ok_empty : cache_ok empty_cache.
  Proof. split; [apply agrees_nil|intros t H; discriminate]. Qed.

  Lemma compute_cost_inv m errs tc :
    (forall t, tc = Some t -> t = tss) ->
    fst (compute_cost n tss m errs tc) = finish m (np_sum errs) (total_of n (length errs)) tss /\
    (forall t, snd (compute_cost n tss m errs tc) = Some t -> t = tss).
  Proof.
    intros Ht. unfold compute_cost. destruct m; cbn [fst snd]; try (split; [reflexivity|exact Ht]).
    destruct tc as [t|].
    - rewrite (Ht t eq_refl). split; [reflexivity|intros t' H; inversion H; reflexivity].
    - split; [reflexivity|intros t' H; inversion H; reflexivity].
  Qed.

  (* gcost_def + cache_inv: from ANY cache that agrees with the oracles, the value is the definition
     (so in particular the fresh value), and the cache afterwards is an extension that still agrees *)
  Theorem cache_inv m c red :
    cache_ok c ->
    fst (gcost m c red) = gcost_spec m red /\
    fst (gcost m c red) = gcost_fresh m red /\
    cache_ok (snd (gcost m c red)) /\
    (exists ext, fst (snd (gcost m c red)) = fst c ++ ext).
  Proof.
    assert (Hgen : forall c, cache_ok c ->
      fst (gcost m c red) = gcost_spec m red /\ cache_ok (snd (gcost m c red)) /\
      (exists ext, fst (snd (gcost m c red)) = fst c ++ ext)).
    { clear c. intros c [Hs Ht]. unfold GlobalCost.gcost.
      destruct (seg_errors_inv seg_fresh (fst c) red Hs) as (Hv & Hs' & Hext).
      destruct (seg_errors seg_fresh (fst c) red) as [errs sc]. cbn [fst snd] in *.
      destruct (compute_cost_inv m errs (snd c) Ht) as (Hc & Ht').
      destruct (compute_cost n tss m errs (snd c)) as [v tc]. cbn [fst snd] in *.
      split.
      - rewrite Hc, Hv. unfold GlobalCost.gcost_spec. rewrite seg_values_length. reflexivity.
      - split; [split; auto|exact Hext]. }
    intros Hc. destruct (Hgen c Hc) as (H1 & H2 & H3).
    destruct (Hgen empty_cache cache_ok_empty) as (H1' & _).
    split; [exact H1|]. split; [unfold GlobalCost.gcost_fresh; congruence|]. split; [exact H2|exact H3].
  Qed.

  Corollary gcost_def m red : gcost_fresh m red = gcost_spec m red.
  Proof. unfold GlobalCost.gcost_fresh. apply (cache_inv m empty_cache red cache_ok_empty). Qed.

  (* cache transparency over ANY query history, from any agreeing dict (in particular the empty one) *)
  Theorem cache_transparent m : forall qs c,
    cache_ok c ->
    map fst (run_shared m c qs) = map (gcost_fresh m) qs /\
    Forall (fun r => cache_ok (snd r)) (run_shared m c qs).
  Proof.
    induction qs as [|q qs IH]; intros c Hc; cbn [run_shared map]; [split; constructor|].
    destruct (cache_inv m c q Hc) as (_ & Hv & Hc' & _).
    destruct (gcost m c q) as [v c']. cbn [fst snd] in *.
    destruct (IH c' Hc') as (IH1 & IH2). cbn [map fst].
    split; [congruence|constructor; auto].
  Qed.

  (* the shared dict only ever grows along a history *)
  Theorem cache_grows m : forall qs c,
    Forall (fun r => exists ext, fst (snd r) = fst c ++ ext) (run_shared m c qs).
  Proof.
    induction qs as [|q qs IH]; intros c; cbn [run_shared]; [constructor|].
    assert (Hext : exists ext, fst (snd (gcost m c q)) = fst c ++ ext).
    { unfold GlobalCost.gcost.
      destruct (seg_errors_ext seg_fresh (fst c) q) as [ext He]. revert He.
      destruct (seg_errors _ _ _) as [errs sc]. cbn [fst snd]. intros He.
      destruct (compute_cost _ _ _ _ _). cbn. eauto. }
    destruct (gcost m c q) as [v c']. cbn [fst snd] in *.
    constructor; [exact Hext|].
    destruct Hext as [ext He]. specialize (IH c').
    eapply Forall_impl; [|exact IH]. intros r [ext' He']. exists (ext ++ ext').
    etransitivity; [exact He'|]. rewrite app_assoc. f_equal. exact He.
  Qed.
End GCostFacts.

(* ---------------------------------------------------------------------------------------------- *)
(* Tier S: sign, the all-breakpoints case (structure), compute_global_rmse, mip *)
Section MoreFacts.
  Context {N : Num}.
  Variable n : nat.

  (* the only law used: 0 < 0 is false (true of IEEE doubles and of R) *)
  Lemma clip_nonneg (x : T N) : (@zero N <?! zero) = false -> (clip x <?! zero) = false.
  Proof. intros H0. unfold clip. destruct (x <?! zero) eqn:E; auto. Qed.

  (* gcost_nonneg: whatever the dict holds, the returned cost is never below zero *)
  Theorem gcost_nonneg segerr tss m (c : @cache N) red :
    (@zero N <?! zero) = false -> (fst (gcost n segerr tss m c red) <?! zero) = false.
  Proof.
    intros H0. unfold gcost. destruct (seg_errors _ _ _) as [errs sc].
    unfold compute_cost. destruct m; cbn [fst]; unfold finish; apply clip_nonneg; auto.
  Qed.

  (* consecutive indices: every segment has two points, so every segment error is the literal 0 *)
  Lemma seg_len_succ i : seg_len n i (S i) <= 2.
  Proof. unfold seg_len. lia. Qed.
  Lemma seg_pairs_seq : forall k a, seg_pairs a (seq (S a) k) = map (fun i => (i, S i)) (seq a k).
  Proof. induction k as [|k IH]; intros a; cbn [seq seg_pairs map]; auto. rewrite IH. reflexivity. Qed.
  Lemma seg_values_all_points segerr k :
    seg_values (@seg_fresh N n segerr) (seq 0 k) = repeat zero (k - 1).
  Proof.
    unfold seg_values. destruct k as [|k]; [reflexivity|]. cbn [seq segments]. rewrite seg_pairs_seq, map_map.
    cbn [fst snd]. replace (S k - 1) with k by lia. generalize 0 as a.
    induction k as [|k IH]; intros a; cbn [seq map repeat]; auto.
    rewrite IH. f_equal. unfold seg_fresh. pose proof (seg_len_succ a) as H. apply Nat.leb_le in H. rewrite H. reflexivity.
  Qed.

  Variable sqerr : nat -> nat -> T N.
  Notation grmse := (@grmse N n sqerr).
  Notation grmse_fresh := (@grmse_fresh N n sqerr).

  Definition grmse_spec (red : list nat) : T N := sqrt (np_sum (seg_values sqerr red) /! ofN n).

  (* cache_inv for compute_global_rmse *)
  Theorem grmse_inv c red :
    agrees sqerr c ->
    fst (grmse c red) = grmse_spec red /\ fst (grmse c red) = grmse_fresh red /\
    agrees sqerr (snd (grmse c red)) /\ exists ext, snd (grmse c red) = c ++ ext.
  Proof.
    assert (Hgen : forall c, agrees sqerr c ->
      fst (grmse c red) = grmse_spec red /\ agrees sqerr (snd (grmse c red)) /\ exists ext, snd (grmse c red) = c ++ ext).
    { clear c. intros c Hc. unfold GlobalCost.grmse.
      destruct (seg_errors_inv sqerr c red Hc) as (Hv & Hc' & Hext).
      destruct (seg_errors sqerr c red) as [errs c']. cbn [fst snd] in *.
      split; [unfold grmse_spec; congruence|auto]. }
    intros Hc. destruct (Hgen c Hc) as (H1 & H2 & H3). destruct (Hgen [] (agrees_nil sqerr)) as (H1' & _).
    split; [exact H1|]. split; [unfold GlobalCost.grmse_fresh; congruence|]. split; [exact H2|exact H3].
  Qed.
  Corollary grmse_def red : grmse_fresh red = grmse_spec red.
  Proof. unfold GlobalCost.grmse_fresh. apply (grmse_inv [] red (agrees_nil sqerr)). Qed.

  Theorem grmse_transparent : forall qs c,
    agrees sqerr c ->
    map fst (rmse_shared n sqerr c qs) = map grmse_fresh qs.
  Proof.
    induction qs as [|q qs IH]; intros c Hc; cbn [rmse_shared map]; auto.
    destruct (grmse_inv c q Hc) as (_ & Hv & Hc' & _).
    destruct (grmse c q) as [v c']. cbn [fst snd map] in *. rewrite (IH c' Hc'). congruence.
  Qed.

  (* mip_def: although mip threads ONE dict through the final RMSE and every reference RMSE, its result is the
     median (and MAD) over the interior breakpoints i of  RMSE(reduced without i) - RMSE(reduced),
     each RMSE being the fresh-dict value *)
  Lemma mip_loop_spec fin red : forall is c,
    agrees sqerr c ->
    mip_loop n sqerr fin red c is = map (fun i => grmse_fresh (delete_at i red) -! fin) is.
  Proof.
    induction is as [|i is IH]; intros c Hc; cbn [mip_loop map]; auto.
    destruct (grmse_inv c (delete_at i red) Hc) as (_ & Hv & Hc' & _).
    destruct (grmse c (delete_at i red)) as [v c']. cbn [fst snd] in *.
    rewrite (IH c' Hc'). congruence.
  Qed.
  Theorem mip_def red : mip n sqerr red = mip_spec n sqerr red.
  Proof.
    unfold mip, mip_spec, mip_ip.
    destruct (grmse_inv [] red (agrees_nil sqerr)) as (_ & Hv & Hc & _).
    destruct (grmse [] red) as [fin c0] eqn:E. cbn [fst snd] in *.
    rewrite mip_loop_spec by exact Hc. rewrite Hv. reflexivity.
  Qed.
End MoreFacts.
