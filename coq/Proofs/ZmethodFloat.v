(* Proofs/ZmethodFloat.v — C10: the Tier O theorem instantiated on binary64 (FloatOrder.float_total_preorder). *)
From Coq Require Import ZArith List Bool Arith Permutation Sorted PrimFloat.
From Knee Require Import Num NumFloat NpList OrdLaws FloatOrder Model.Zmethod Proofs.ZmethodOutput.
Import ListNotations.

Theorem z_output_float (ord : nat -> list (@row FloatNum) -> list (@row FloatNum)) :
  (forall j l, Permutation (ord j l) l) ->
  forall ks, StronglySorted Z.lt ks ->
  (forall k, In k ks -> @truncZ FloatNum (ofZ k) = Some k) ->
  (forall a b, In a ks -> In b ks -> @ltb FloatNum (ofZ a) (ofZ b) = (a <? b)%Z) ->
  forall rows, map rx rows = map (@ofZ FloatNum) ks ->
  forallb (fun y => negb (f_isnan y)) (map ry rows) = true ->
  forall fuel dx dy dz xmax yr ix k,
  knees ord fuel rows dx dy dz xmax yr = RDone ix k ->
  valid_ix (length rows) ix = true /\ heights_ok (map ry rows) ix = true.
Proof.
  intros Hord ks Hks Htr Hlt rows Hxs Hnan fuel dx dy dz xmax yr ix k H. split.
  - exact (proj1 (z_output_S ord Hord ks Hks Htr Hlt rows Hxs _ _ _ _ _ _ _ _ H)).
  - eapply (z_output_O ord Hord ks Hks Htr Hlt rows Hxs (@notnan FloatNum) float_total_preorder); eauto.
    + reflexivity.
    + rewrite Forall_forall. rewrite forallb_forall in Hnan. intros y Hy. apply Hnan in Hy.
      apply negb_true_iff in Hy. exact Hy.
Qed.
