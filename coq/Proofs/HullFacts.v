(* Proofs/HullFacts.v — C18, Tier S theorems: chain_shape, chain_turns (lower / upper hull scans, every
   orientation oracle, every Num), graham_total (every arrangement of the indices; the closed model). *)
From Coq Require Import List Arith Bool Lia Permutation.
From Knee Require Import Num NpList Model.Hull Proofs.ListFacts Proofs.HullScan.
Import ListNotations.
Local Open Scope num_scope.

Section TierS.
  Context {N : Num}.
  Variable cc : nat -> nat -> nat -> T N.

  (* ---- lower / upper: chain shape *)
  Theorem chain_shape_lower n : 2 <= n -> chainb n (lower_with cc n) = true.
  Proof.
    intros Hn. apply chainb_iff. unfold lower_with.
    destruct (scan_shape (lower_test cc) 2 ltac:(lia) n Hn) as (HS & Hhd & Hlast & _ & _ & Hlen).
    repeat split; auto. lia.
  Qed.
  Theorem chain_shape_upper n : 2 <= n -> chainb n (upper_with cc n) = true.
  Proof.
    intros Hn. apply chainb_iff. unfold upper_with.
    destruct (scan_shape (upper_test cc) 2 ltac:(lia) n Hn) as (HS & Hhd & Hlast & _ & _ & Hlen).
    repeat split; auto. lia.
  Qed.
  Theorem chain_range_lower n : 2 <= n -> Forall (fun i => i < n) (lower_with cc n).
  Proof. intros Hn. apply (scan_shape (lower_test cc) 2 ltac:(lia) n Hn). Qed.
  Theorem chain_range_upper n : 2 <= n -> Forall (fun i => i < n) (upper_with cc n).
  Proof. intros Hn. apply (scan_shape (upper_test cc) 2 ltac:(lia) n Hn). Qed.

  (* ---- lower / upper: every consecutive triple of the result fails the code's own pop test *)
  Lemma scan2_turns test n : 2 <= n -> turnsb test (scan test 2 n) = true.
  Proof.
    intros Hn. unfold turnsb. apply tripb_iff.
    destruct (scan_shape test 2 ltac:(lia) n Hn) as (HS & Hhd & _ & _ & HT & _).
    apply (SI_trip_ge _ _ 0); auto; [lia|].
    eapply trip_impl; [|exact HT]. unfold tested. cbn. intros a b c H Hc. rewrite H by lia. reflexivity.
  Qed.
  Theorem chain_turns_lower n : 2 <= n -> turnsb (lower_test cc) (lower_with cc n) = true.
  Proof. apply scan2_turns. Qed.
  Theorem chain_turns_upper n : 2 <= n -> turnsb (upper_test cc) (upper_with cc n) = true.
  Proof. apply scan2_turns. Qed.

  (* ---- graham_scan over an arbitrary arrangement sp of the indices *)
  Lemma map_nth_NoDup (sp : list nat) : NoDup sp -> forall pos,
    SI pos -> Forall (fun p => p < length sp) pos -> NoDup (map (fun p => nth p sp 0) pos).
  Proof.
    intros Hsp. induction pos as [|a pos IH]; intros HS HF; [constructor|].
    inversion HF as [|? ? Ha HF']; subst. cbn [map]. constructor.
    - intros Hin. apply in_map_iff in Hin. destruct Hin as (p & Hp & Hpin).
      rewrite Forall_forall in HF'. pose proof (HF' p Hpin) as Hplt.
      pose proof (SI_lt_all a pos HS) as Hlt. rewrite Forall_forall in Hlt. specialize (Hlt p Hpin).
      assert (p = a) by (apply (proj1 (NoDup_nth sp 0) Hsp); auto). lia.
    - apply IH; auto. eapply SI_tl; eauto.
  Qed.
  Lemma tripb_map p (f : nat -> nat) l : tripb p (map f l) = tripb (fun a b c => p (f a) (f b) (f c)) l.
  Proof.
    induction l as [|a [|b [|c l']] IH]; try reflexivity.
    cbn [map tripb]. cbn [map tripb] in IH. rewrite IH. reflexivity.
  Qed.
  Lemma tl_map {A B} (f : A -> B) l : tl (map f l) = map f (tl l).
  Proof. destruct l; reflexivity. Qed.
  Lemma nodupb_iff l : nodupb l = true <-> NoDup l.
  Proof.
    induction l as [|a l IH]; cbn [nodupb].
    - split; [constructor|reflexivity].
    - rewrite andb_true_iff, negb_true_iff, IH. split.
      + intros [H1 H2]. constructor; auto. intros Hin. unfold memb in H1.
        assert (existsb (Nat.eqb a) l = true) by (apply existsb_exists; exists a; split; auto; apply Nat.eqb_refl).
        congruence.
      + intros H. inversion H as [|? ? Hn Hd]; subst. split; auto.
        unfold memb. destruct (existsb (Nat.eqb a) l) eqn:E; auto.
        apply existsb_exists in E. destruct E as (x & Hx & Hax). apply Nat.eqb_eq in Hax. subst. contradiction.
  Qed.

  Definition gtest (a b c : nat) : bool := zero <=?! cc a b c.   (* the code's `_ccw(...) >= 0` *)

  (* graham_total, part 1: for EVERY arrangement sp of >= 3 distinct indices (in particular every output of a
     comparator sort): the scan completes with a non-empty stack, the result is a subsequence of sp that starts
     at sp[0] and ends at sp[-1], has no duplicates, and every triple whose last entry the loop pushed failed `>= 0` *)
  Theorem graham_with_total sp : NoDup sp -> 3 <= length sp ->
    let out := graham_with cc sp in
    (exists pos, SI pos /\ Forall (fun p => p < length sp) pos /\ out = map (fun p => nth p sp 0) pos)
    /\ NoDup out /\ incl out sp /\ hd 0 out = hd 0 sp /\ last out 0 = last sp 0 /\ 2 <= length out
    /\ turnsb gtest (tl out) = true.
  Proof.
    intros Hnd Hlen. cbv zeta. unfold graham_with, graham_positions.
    destruct (Nat.ltb_spec (length sp) 3) as [Hlt|_]; [lia|].
    destruct (scan_shape (graham_test cc sp) 3 ltac:(lia) (length sp) Hlen) as (HS & Hhd & Hlast & HF & HT & Hl2).
    set (pos := scan (graham_test cc sp) 3 (length sp)) in *.
    repeat split.
    - exists pos. auto.
    - apply map_nth_NoDup; auto.
    - intros x Hx. apply in_map_iff in Hx. destruct Hx as (p & <- & Hp).
      rewrite Forall_forall in HF. apply nth_In. auto.
    - destruct pos as [|a pos']; cbn in Hhd; [lia|]. cbn [map hd]. subst a. destruct sp; reflexivity.
    - assert (Hpne : pos <> []) by (destruct pos; cbn in Hl2; [lia|congruence]).
      destruct (exists_last Hpne) as (pre & z & Hz). rewrite Hz in *. rewrite map_app. cbn [map]. rewrite last_last.
      rewrite last_last in Hlast. subst z.
      assert (Hsne : sp <> []) by (destruct sp; cbn in Hlen; [lia|congruence]).
      destruct (exists_last Hsne) as (pre' & w & Hw). rewrite Hw. rewrite last_last.
      rewrite app_length. cbn [length]. replace (length pre' + 1 - 1) with (length pre') by lia.
      rewrite app_nth2 by lia. rewrite Nat.sub_diag. reflexivity.
    - rewrite map_length. lia.
    - unfold turnsb. rewrite tl_map. rewrite tripb_map. apply tripb_iff.
      destruct pos as [|a pos']; [exact I|]. cbn [tl]. cbn [hd] in Hhd. subst a.
      apply (SI_trip_ge _ _ 1).
      + eapply SI_tl; eauto.
      + destruct pos' as [|b pos'']; [cbn; lia|]. cbn [hd]. cbn [SI] in HS. lia.
      + apply trip_tl in HT. eapply trip_impl; [|exact HT]. unfold tested, graham_test, gtest. cbn.
        intros a b c H Hc. rewrite H by lia. reflexivity.
  Qed.
End TierS.

(* ---------------------------------------------------------------------------------------------- *)
(* the closed model graham_scan: the arrangement it builds is a duplicate-free arrangement of 0..n-1 *)

Lemma insert_by_perm {A} (le : A -> A -> bool) x l : Permutation (x :: l) (insert_by le x l).
Proof.
  induction l as [|y l IH]; cbn; auto.
  destruct (le y x); auto. rewrite perm_swap. constructor. exact IH.
Qed.
Lemma sort_by_perm_aux {A} (le : A -> A -> bool) l : forall acc,
  Permutation (l ++ acc) (fold_left (fun a x => insert_by le x a) l acc).
Proof.
  induction l as [|x l IH]; intros acc; cbn; auto.
  rewrite <- IH. rewrite <- insert_by_perm. rewrite Permutation_middle. reflexivity.
Qed.
Lemma sort_by_perm {A} (le : A -> A -> bool) l : Permutation l (sort_by le l).
Proof. unfold sort_by. rewrite <- sort_by_perm_aux. rewrite app_nil_r. reflexivity. Qed.

Lemma filter_id {A} (f : A -> bool) l : (forall x, In x l -> f x = true) -> filter f l = l.
Proof.
  induction l as [|a l IH]; intros H; [reflexivity|].
  cbn [filter]. rewrite (H a (or_introl eq_refl)). f_equal. apply IH. intros x Hx. apply H. right. exact Hx.
Qed.
Lemma remove_one_perm n p : p < n -> Permutation (p :: filter (fun i => negb (i =? p)) (seq 0 n)) (seq 0 n).
Proof.
  intros Hp. replace n with (p + S (n - S p)) by lia. rewrite seq_app. cbn [seq]. rewrite filter_app.
  cbn [filter]. rewrite Nat.add_0_l, Nat.eqb_refl. cbn [negb].
  rewrite !filter_id.
  - apply Permutation_middle.
  - intros x Hx. apply in_seq in Hx. apply negb_true_iff. apply Nat.eqb_neq. lia.
  - intros x Hx. apply in_seq in Hx. apply negb_true_iff. apply Nat.eqb_neq. lia.
Qed.

Section Closed.
  Context {N : Num}.

  Lemma sorted_points_perm (cc : nat -> nat -> nat -> T N) dist n p0 : p0 < n ->
    Permutation (sorted_points cc dist n p0) (seq 0 n).
  Proof.
    intros Hp. unfold sorted_points. rewrite <- (remove_one_perm n p0 Hp) at 2.
    constructor. apply Permutation_sym. apply sort_by_perm.
  Qed.

  Lemma pivot_go_lt (pts : list (@pt N)) : forall i best bi, bi < i -> pivot_go pts i best bi < i + length pts.
  Proof.
    induction pts as [|p pts IH]; intros i best bi Hb; cbn [pivot_go length]; [lia|].
    destruct (lex_lt p best).
    - specialize (IH (S i) p i ltac:(lia)). lia.
    - specialize (IH (S i) best bi ltac:(lia)). lia.
  Qed.
  Lemma pivot_min_lt (pts : list (@pt N)) : 1 <= length pts -> pivot_min pts < length pts.
  Proof.
    destruct pts as [|p pts]; cbn [length]; [lia|]. intros _. unfold pivot_min.
    pose proof (pivot_go_lt pts 1 p 0 ltac:(lia)). lia.
  Qed.

  Lemma distinct_first_eq (pts : list (@pt N)) i : distinctb pts = true -> i < length pts -> first_eq pts i = Some i.
  Proof.
    unfold distinctb. intros H Hi. rewrite forallb_forall in H. specialize (H i ltac:(apply in_seq; lia)).
    destruct (first_eq pts i) as [j|]; [|discriminate]. apply Nat.eqb_eq in H. congruence.
  Qed.
  Lemma map_opt_id (f : nat -> option nat) l : (forall x, In x l -> f x = Some x) -> map_opt f l = Some l.
  Proof.
    induction l as [|a l IH]; intros H; [reflexivity|].
    cbn [map_opt]. rewrite (H a (or_introl eq_refl)). rewrite IH; [reflexivity|]. intros x Hx. apply H. right. exact Hx.
  Qed.

  (* graham_total (closed model): on >= 3 pairwise distinct rows the call completes (no exception, no stack
     underflow) for every distance oracle; the result consists of valid indices without duplicates, starts at the
     pivot the code selects, has >= 2 entries, and every triple after the first failed the `>= 0` pop test *)
  Theorem graham_total (pts : list (@pt N)) (dist : nat -> T N) :
    distinctb pts = true -> 3 <= length pts ->
    exists sp out, graham_sorted pts dist = Some sp /\ Permutation sp (seq 0 (length pts)) /\
      graham_scan pts dist = Some out /\ out = graham_with (ccw_idx pts) sp /\
      graham_structb pts out = true /\ turnsb (gtest (ccw_idx pts)) (tl out) = true.
  Proof.
    intros Hd Hn. unfold graham_scan, graham_sorted.
    destruct pts as [|q pts'] eqn:Epts; [cbn in Hn; lia|]. rewrite <- Epts in *. clear Epts q pts'.
    pose proof (pivot_min_lt pts ltac:(lia)) as Hp.
    rewrite (distinct_first_eq pts _ Hd Hp).
    set (sp := sorted_points (ccw_idx pts) dist (length pts) (pivot_min pts)).
    pose proof (sorted_points_perm (ccw_idx pts) dist _ _ Hp) as Hperm. fold sp in Hperm.
    assert (Hnd : NoDup sp) by (eapply Permutation_NoDup; [apply Permutation_sym; exact Hperm|apply seq_NoDup]).
    assert (Hlen : length sp = length pts) by (rewrite (Permutation_length Hperm); apply seq_length).
    destruct (graham_with_total (ccw_idx pts) sp Hnd ltac:(lia)) as (_ & Hnd' & Hincl & Hhd & _ & Hl2 & Ht).
    set (out := graham_with (ccw_idx pts) sp) in *.
    assert (Hrange : forall x, In x out -> x < length pts).
    { intros x Hx. apply Hincl in Hx. apply (Permutation_in _ Hperm) in Hx. apply in_seq in Hx. lia. }
    exists sp, out. repeat split; auto.
    - apply map_opt_id. intros x Hx. apply distinct_first_eq; auto.
    - unfold graham_structb. rewrite !andb_true_iff. repeat split.
      + apply forallb_forall. intros x Hx. apply Nat.ltb_lt. auto.
      + apply nodupb_iff. exact Hnd'.
      + apply Nat.eqb_eq. destruct out as [|o out']; [cbn in Hl2; lia|]. cbn [hd] in *. rewrite Hhd. reflexivity.
      + apply Nat.leb_le. exact Hl2.
  Qed.
End Closed.
