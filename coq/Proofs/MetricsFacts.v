(* Proofs/MetricsFacts.v — C16 (first half): the metrics of Model/Metrics.v on RNum are their textbook
   formulas (eps guards included), with the symmetry, sign and range laws.  Tier A. *)
From Coq Require Import Reals List ZArith Lra Lia Psatz Bool.
From Knee Require Import Num NumR NpList Model.Metrics.
Import ListNotations.
Local Open Scope R_scope.

(* ---------- sums over real lists ---------- *)
Definition zipR (f : R -> R -> R) (y yh : list R) : list R :=
  map (fun p => f (fst p) (snd p)) (combine y yh).
Definition Rmean (l : list R) : R := Rsum l / INR (length l).

Lemma ofN_R n : @ofN RNum n = INR n.
Proof. unfold ofN. simpl. symmetry. apply INR_IZR_INZ. Qed.
Lemma seq_mean_R (l : list R) : @seq_mean RNum l = Rmean l.
Proof. unfold seq_mean, Rmean. rewrite seq_sum_R, ofN_R. reflexivity. Qed.
Lemma zip_with_R f y yh : @zip_with RNum f y yh = zipR f y yh.
Proof. reflexivity. Qed.
Lemma zipR_length f y yh : length (zipR f y yh) = length (combine y yh).
Proof. unfold zipR. apply map_length. Qed.
Lemma combine_same_length {A} (y yh : list A) : length y = length yh -> length (combine y yh) = length y.
Proof. intros H. rewrite combine_length, <- H. apply Nat.min_id. Qed.

Lemma Rsum_nonneg l : Forall (fun x => 0 <= x) l -> 0 <= Rsum l.
Proof. induction 1; simpl; lra. Qed.
Lemma Rsum_le_const l c : Forall (fun x => x <= c) l -> Rsum l <= c * INR (length l).
Proof.
  induction 1 as [|x l Hx _ IH]; [simpl; lra|].
  change (length (x :: l)) with (S (length l)). rewrite S_INR. simpl. lra.
Qed.
Lemma Rsum_all_zero l : Forall (fun x => x = 0) l -> Rsum l = 0.
Proof. induction 1; simpl; lra. Qed.
Lemma Rsum_app l1 l2 : Rsum (l1 ++ l2) = Rsum l1 + Rsum l2.
Proof. induction l1; simpl; lra. Qed.
Lemma Rsum_map_ext {A} (f g : A -> R) l : (forall a, In a l -> f a = g a) -> Rsum (map f l) = Rsum (map g l).
Proof. induction l; simpl; intros H; [reflexivity|]. rewrite H, IHl; auto. Qed.

Lemma zipR_Forall (Q : R -> Prop) f y yh : (forall a b, Q (f a b)) -> Forall Q (zipR f y yh).
Proof. intros H. unfold zipR. apply Forall_forall. intros x Hx. apply in_map_iff in Hx. destruct Hx as [p [<- _]]. apply H. Qed.
Lemma zipR_sym f g : (forall a b, f a b = g b a) -> forall y yh, zipR f y yh = zipR g yh y.
Proof.
  intros H. induction y as [|a y IH]; intros [|b yh]; try reflexivity.
  unfold zipR in *. simpl. rewrite H. f_equal. apply IH.
Qed.
Lemma combine_length_sym {A B} (y : list A) (yh : list B) : length (combine y yh) = length (combine yh y).
Proof. rewrite !combine_length. apply Nat.min_comm. Qed.
Lemma zipR_diag f y : zipR f y y = map (fun a => f a a) y.
Proof. induction y as [|a y IH]; [reflexivity|]. unfold zipR in *. simpl. f_equal. exact IH. Qed.
Lemma zipR_diag_zero f y : (forall a, f a a = 0) -> Rsum (zipR f y y) = 0.
Proof.
  intros H. apply Rsum_all_zero. rewrite zipR_diag. apply Forall_forall. intros x Hx.
  apply in_map_iff in Hx. destruct Hx as [a [<- _]]. apply H.
Qed.

Lemma sq_nonneg x : 0 <= x * x.
Proof. apply Rle_0_sqr. Qed.
Lemma Rinv_nonneg x : 0 <= x -> 0 <= / x.
Proof.
  intros [H| <-]; [left; apply Rinv_0_lt_compat; exact H|rewrite Rinv_0; lra].
Qed.
Lemma Rdiv_nonneg a b : 0 <= a -> 0 <= b -> 0 <= a / b.
Proof. intros Ha Hb. unfold Rdiv. apply Rmult_le_pos; [exact Ha|apply Rinv_nonneg; exact Hb]. Qed.
Lemma Rdiv_le_l a b c : 0 < b -> a <= c * b -> a / b <= c.
Proof.
  intros Hb H. unfold Rdiv. apply Rmult_le_reg_r with b; [exact Hb|].
  rewrite Rmult_assoc, Rinv_l; lra.
Qed.
Lemma Rmean_nonneg l : Forall (fun x => 0 <= x) l -> 0 <= Rmean l.
Proof. intros H. apply Rdiv_nonneg; [apply Rsum_nonneg; exact H|apply pos_INR]. Qed.
Lemma Rmean_le_const l c : 0 <= c -> Forall (fun x => x <= c) l -> Rmean l <= c.
Proof.
  intros Hc H. unfold Rmean. destruct l as [|x l].
  - simpl. unfold Rdiv. rewrite Rmult_0_l. exact Hc.
  - assert (Hn : 0 < INR (length (x :: l))) by (apply lt_0_INR; simpl; lia).
    apply Rsum_le_const in H. apply Rdiv_le_l; [exact Hn|]. lra.
Qed.
Lemma Rmean_zero l : Rsum l = 0 -> Rmean l = 0.
Proof. intros H. unfold Rmean. rewrite H. unfold Rdiv. apply Rmult_0_l. Qed.

(* ---------- the textbook formulas (C16, first clause) ---------- *)
Definition sqd (a b : R) : R := (a - b) * (a - b).
Notation sqrtR := R_sqrt.sqrt.

(* RMSE = sqrt( (1/n) sum (y_i - yh_i)^2 ) *)
Theorem rmse_def (y yh : list R) : @rmse RNum y yh = sqrtR (Rsum (zipR sqd y yh) / INR (length (combine y yh))).
Proof. unfold rmse. rewrite seq_mean_R, zip_with_R. unfold Rmean. rewrite zipR_length. reflexivity. Qed.
(* RSS = sum (y_i - yh_i)^2 *)
Theorem residuals_def (y yh : list R) : @residuals RNum y yh = Rsum (zipR sqd y yh).
Proof. unfold residuals. rewrite seq_sum_R. reflexivity. Qed.
(* RMSLE = sqrt( (1/n) sum (ln(y_i+1) - ln(yh_i+1))^2 ) *)
Theorem rmsle_def (y yh : list R) :
  @rmsle RNum y yh = sqrtR (Rsum (zipR (fun a b => sqd (Rpower.ln (a + 1)) (Rpower.ln (b + 1))) y yh) / INR (length (combine y yh))).
Proof. unfold rmsle. rewrite seq_mean_R, zip_with_R. unfold Rmean. rewrite zipR_length. reflexivity. Qed.
(* RMSPE = sqrt( (1/n) sum ((y_i - yh_i)/(y_i + eps))^2 ) *)
Theorem rmspe_def (y yh : list R) (eps : R) :
  @rmspe RNum y yh eps = sqrtR (Rsum (zipR (fun a b => ((a - b) / (a + eps)) * ((a - b) / (a + eps))) y yh) / INR (length (combine y yh))).
Proof. unfold rmspe. rewrite seq_mean_R, zip_with_R. unfold Rmean. rewrite zipR_length. reflexivity. Qed.

Lemma npmax_R (a b : R) : @npmax RNum a b = Rmax a b.
Proof.
  unfold npmax. simpl. unfold Rltb, Rmax. destruct (Rlt_dec a b) as [H|H], (Rle_dec a b) as [H'|H']; try reflexivity; lra.
Qed.
(* RPD = (1/n) sum |y_i - yh_i| / (max(y_i, yh_i) + eps) *)
Theorem rpd_def (y yh : list R) (eps : R) :
  @rpd RNum y yh eps = Rsum (zipR (fun a b => Rabs ((a - b) / (Rmax a b + eps))) y yh) / INR (length (combine y yh)).
Proof.
  unfold rpd. rewrite seq_mean_R, zip_with_R. unfold Rmean. rewrite zipR_length. f_equal. f_equal.
  unfold zipR. apply map_ext. intros p. rewrite npmax_R. reflexivity.
Qed.
(* SMAPE = (1/n) sum 2|yh_i - y_i| / (|y_i| + |yh_i| + eps) *)
Theorem smape_def (y yh : list R) (eps : R) :
  @smape RNum y yh eps = Rsum (zipR (fun a b => 2 * Rabs (b - a) / (Rabs a + Rabs b + eps)) y yh) / INR (length (combine y yh)).
Proof. unfold smape. rewrite seq_mean_R, zip_with_R. unfold Rmean. rewrite zipR_length. reflexivity. Qed.

(* R2 = 1 - RSS/TSS (1 - RSS when TSS = 0); adjusted: 1 - (1 - R2)(n-1)/(n-2) *)
Definition TSS (y : list R) : R := Rsum (map (fun a => sqd a (Rmean y)) y).
Definition R2c (y yh : list R) : R :=
  if Req_EM_T (TSS y) 0 then 1 - Rsum (zipR sqd y yh) else 1 - Rsum (zipR sqd y yh) / TSS y.
Lemma adj_factor_R n : @adj_factor RNum n = (INR n - 1) / (INR n - 2).
Proof. unfold adj_factor. simpl. rewrite !minus_IZR, <- INR_IZR_INZ. reflexivity. Qed.
Theorem r2_def (y yh : list R) : @r2 RNum y yh R2classic = R2c y yh.
Proof.
  unfold r2, R2c, TSS. rewrite !seq_sum_R, seq_mean_R, zip_with_R. simpl. unfold Reqb.
  destruct (Req_EM_T _ 0); reflexivity.
Qed.
Theorem r2_adjusted_def (y yh : list R) :
  @r2 RNum y yh R2adjusted = 1 - (1 - R2c y yh) * ((INR (length y) - 1) / (INR (length y) - 2)).
Proof.
  pose proof (r2_def y yh) as H. unfold r2 in *. rewrite adj_factor_R. simpl in *. rewrite H. reflexivity.
Qed.

(* ---------- symmetry ---------- *)
Lemma sqd_sym a b : sqd a b = sqd b a.
Proof. unfold sqd. ring. Qed.
Theorem rmse_sym (y yh : list R) : @rmse RNum y yh = @rmse RNum yh y.
Proof. rewrite !rmse_def. rewrite (zipR_sym sqd sqd sqd_sym y yh), (combine_length_sym y yh). reflexivity. Qed.
Theorem residuals_sym (y yh : list R) : @residuals RNum y yh = @residuals RNum yh y.
Proof. rewrite !residuals_def. rewrite (zipR_sym sqd sqd sqd_sym y yh). reflexivity. Qed.
Theorem smape_sym (y yh : list R) (eps : R) : @smape RNum y yh eps = @smape RNum yh y eps.
Proof.
  rewrite !smape_def. rewrite (combine_length_sym y yh). f_equal. f_equal.
  apply zipR_sym. intros a b. rewrite (Rabs_minus_sym b a). f_equal. ring.
Qed.

(* ---------- every error metric is >= 0 ---------- *)
Theorem rmse_nonneg (y yh : list R) : 0 <= @rmse RNum y yh.
Proof. unfold rmse. simpl. apply sqrt_pos. Qed.
Theorem rmsle_nonneg (y yh : list R) : 0 <= @rmsle RNum y yh.
Proof. unfold rmsle. simpl. apply sqrt_pos. Qed.
Theorem rmspe_nonneg (y yh : list R) (eps : R) : 0 <= @rmspe RNum y yh eps.
Proof. unfold rmspe. simpl. apply sqrt_pos. Qed.
Theorem residuals_nonneg (y yh : list R) : 0 <= @residuals RNum y yh.
Proof. rewrite residuals_def. apply Rsum_nonneg, zipR_Forall. intros a b. unfold sqd. cbv beta. apply sq_nonneg. Qed.
Theorem rpd_nonneg (y yh : list R) (eps : R) : 0 <= @rpd RNum y yh eps.
Proof.
  rewrite rpd_def. apply Rdiv_nonneg; [|apply pos_INR]. apply Rsum_nonneg, zipR_Forall. intros a b. cbv beta. apply Rabs_pos.
Qed.
Lemma smape_term_range (a b eps : R) : 0 < eps -> 0 <= 2 * Rabs (b - a) / (Rabs a + Rabs b + eps) <= 2.
Proof.
  intros He. pose proof (Rabs_pos a). pose proof (Rabs_pos b). pose proof (Rabs_pos (b - a)).
  assert (Hd : 0 < Rabs a + Rabs b + eps) by lra.
  assert (Ht : Rabs (b - a) <= Rabs a + Rabs b).
  { unfold Rminus. eapply Rle_trans; [apply Rabs_triang|]. rewrite Rabs_Ropp. lra. }
  split.
  - apply Rdiv_nonneg; lra.
  - apply Rdiv_le_l; [exact Hd|]. lra.
Qed.
Theorem smape_nonneg (y yh : list R) (eps : R) : 0 < eps -> 0 <= @smape RNum y yh eps.
Proof.
  intros He. rewrite smape_def. apply Rdiv_nonneg; [|apply pos_INR].
  apply Rsum_nonneg, zipR_Forall. intros a b. cbv beta. apply smape_term_range; exact He.
Qed.
(* smape <= 2 *)
Theorem smape_le_2 (y yh : list R) (eps : R) : 0 < eps -> @smape RNum y yh eps <= 2.
Proof.
  intros He. rewrite smape_def. rewrite <- zipR_length with (f := fun a b => 2 * Rabs (b - a) / (Rabs a + Rabs b + eps)).
  apply (Rmean_le_const _ 2); [lra|]. apply zipR_Forall. intros a b. cbv beta. apply smape_term_range; exact He.
Qed.
Theorem smape_range (y yh : list R) (eps : R) : 0 < eps -> 0 <= @smape RNum y yh eps <= 2.
Proof. intros He. split; [apply smape_nonneg|apply smape_le_2]; exact He. Qed.

(* ---------- ... and vanishes at y = y_hat (r2 is 1 there) ---------- *)
Lemma mean_zero_div s n : s = 0 -> s / n = 0.
Proof. intros ->. unfold Rdiv. apply Rmult_0_l. Qed.
Theorem rmse_zero (y : list R) : @rmse RNum y y = 0.
Proof. rewrite rmse_def, mean_zero_div; [apply sqrt_0|]. apply zipR_diag_zero. intros a. unfold sqd. ring. Qed.
Theorem residuals_zero (y : list R) : @residuals RNum y y = 0.
Proof. rewrite residuals_def. apply zipR_diag_zero. intros a. unfold sqd. ring. Qed.
Theorem rmsle_zero (y : list R) : @rmsle RNum y y = 0.
Proof. rewrite rmsle_def, mean_zero_div; [apply sqrt_0|]. apply zipR_diag_zero. intros a. unfold sqd. ring. Qed.
Theorem rmspe_zero (y : list R) (eps : R) : @rmspe RNum y y eps = 0.
Proof.
  rewrite rmspe_def, mean_zero_div; [apply sqrt_0|]. apply zipR_diag_zero. intros a.
  unfold Rminus. rewrite Rplus_opp_r. unfold Rdiv. rewrite Rmult_0_l. ring.
Qed.
Theorem rpd_zero (y : list R) (eps : R) : @rpd RNum y y eps = 0.
Proof.
  rewrite rpd_def. apply mean_zero_div. apply zipR_diag_zero. intros a.
  unfold Rminus. rewrite Rplus_opp_r. unfold Rdiv. rewrite Rmult_0_l. apply Rabs_R0.
Qed.
Theorem smape_zero (y : list R) (eps : R) : @smape RNum y y eps = 0.
Proof.
  rewrite smape_def. apply mean_zero_div. apply zipR_diag_zero. intros a.
  unfold Rminus. rewrite Rplus_opp_r, Rabs_R0. unfold Rdiv. ring.
Qed.
Theorem r2_one (y : list R) : @r2 RNum y y R2classic = 1.
Proof.
  rewrite r2_def. unfold R2c.
  assert (H : Rsum (zipR sqd y y) = 0) by (apply zipR_diag_zero; intros a; unfold sqd; ring).
  rewrite H. destruct (Req_EM_T _ 0); [lra|]. unfold Rdiv. lra.
Qed.

(* ---------- R2 <= 1 ---------- *)
Lemma TSS_nonneg y : 0 <= TSS y.
Proof.
  unfold TSS. apply Rsum_nonneg. apply Forall_forall. intros x Hx. apply in_map_iff in Hx.
  destruct Hx as [a [<- _]]. unfold sqd. apply sq_nonneg.
Qed.
Lemma RSS_nonneg y yh : 0 <= Rsum (zipR sqd y yh).
Proof. apply Rsum_nonneg, zipR_Forall. intros a b. unfold sqd. cbv beta. apply sq_nonneg. Qed.
Theorem r2_le_1 (y yh : list R) : @r2 RNum y yh R2classic <= 1.
Proof.
  rewrite r2_def. unfold R2c. pose proof (RSS_nonneg y yh). pose proof (TSS_nonneg y).
  destruct (Req_EM_T _ 0); [lra|]. pose proof (Rdiv_nonneg _ _ H H0). lra.
Qed.
Theorem r2_adjusted_le_1 (y yh : list R) : (3 <= length y)%nat -> @r2 RNum y yh R2adjusted <= 1.
Proof.
  intros Hn. rewrite r2_adjusted_def. pose proof (r2_le_1 y yh) as H. rewrite r2_def in H.
  assert (H3 : 3 <= INR (length y)) by (apply le_INR in Hn; simpl in Hn; lra).
  assert (Hf : 0 <= (INR (length y) - 1) / (INR (length y) - 2)) by (apply Rdiv_nonneg; lra).
  nra.
Qed.
Theorem r2_adjusted_of_classic (y yh : list R) :
  @r2 RNum y yh R2adjusted = 1 - (1 - @r2 RNum y yh R2classic) * ((INR (length y) - 1) / (INR (length y) - 2)).
Proof. rewrite r2_def. exact (r2_adjusted_def y yh). Qed.
