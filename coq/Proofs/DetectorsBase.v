(* Proofs/DetectorsBase.v — property C09, part 1 (curvature, DFDT, Menger): each single-knee detector returns the interior optimum of its criterion.
   Tier S = no hypothesis on the arithmetic (every Num, every oracle valuation, NaN included);
   Tier O = TotalPreorderOn notnan (+ NanUnordered where NaN entries are covered).  *)
From Coq Require Import ZArith List Bool Arith Lia.
From Knee Require Import Num NpList OrdLaws Model.Detectors Proofs.ListFacts Proofs.ArgFacts.
Import ListNotations.
Local Open Scope num_scope.

(* ------------------------------------------------------------------ small list facts *)
Lemma interior_length {A} (l : list A) : length (interior l) = length l - 2.
Proof.
  unfold interior. destruct l as [|a l]; [reflexivity|]. cbn [tl length].
  destruct l as [|b l] using rev_ind; [reflexivity|].
  rewrite removelast_last, app_length. cbn. lia.
Qed.
Lemma interior_nonempty {A} (l : list A) : 3 <= length l -> interior l <> [].
Proof. intros H E. apply (f_equal (@length A)) in E. rewrite interior_length in E. cbn in E. lia. Qed.
Lemma dfdt_diff_length {N : Num} (g : list (T N)) t : length (dfdt_diff g t) = length g.
Proof. apply map_length. Qed.

Lemma last_In_cons {A} (ks : list A) : forall a, In (last ks a) (a :: ks).
Proof.
  induction ks as [|b ks IH]; intros a; [left; reflexivity|].
  right. destruct ks as [|c ks]; [left; reflexivity|].
  change (last (b :: c :: ks) a) with (last (c :: ks) a).
  assert (E : last (c :: ks) a = last (c :: ks) b).
  { clear. revert c. induction ks as [|d ks IH]; intros c; [reflexivity|]. apply (IH d). }
  rewrite E. apply IH.
Qed.
Lemma res_knee_In r k : res_knee r = Some k -> exists ks, r = Ok ks /\ In k ks.
Proof.
  destruct r as [[|a ks]| | |]; cbn; try discriminate. intros [= <-].
  exists (a :: ks). split; auto. apply last_In_cons.
Qed.
Lemma res_knee_ok_nonempty ks : ks <> [] -> exists k, res_knee (Ok ks) = Some k.
Proof. destruct ks; [congruence|]. intros _. cbn. eauto. Qed.

(* outcome r stopped (did not run out of fuel) and, if it returned normally, ran at most b iterations *)
Definition within (r : res) (b : nat) : Prop :=
  match r with OutOfFuel => False | Ok ks => 1 <= length ks <= b | _ => True end.
Lemma within_cons k r b : within r b -> within (res_cons k r) (S b).
Proof. destruct r; cbn; auto. lia. Qed.
Lemma within_le r a b : within r a -> a <= b -> within r b.
Proof. destruct r; cbn; auto. lia. Qed.

(* ================================================================== curvature *)
Section Curvature.
  Context {N : Num}.

  (* Tier S *)
  Theorem curvature_knee_interior (curv : list (T N)) k :
    curvature_knee curv = Some k -> 1 <= k /\ k + 2 <= length curv.
  Proof.
    unfold curvature_knee. destruct (interior curv) as [|a c] eqn:E; [discriminate|].
    intros [= <-]. pose proof (argmax_lt (a :: c) ltac:(discriminate)) as H.
    assert (L : length (interior curv) = length (a :: c)) by (rewrite E; reflexivity).
    rewrite interior_length in L. cbn [argmax] in H. lia.
  Qed.
  Theorem curvature_knee_some (curv : list (T N)) :
    3 <= length curv -> curvature_knee curv = Some (S (argmax (interior curv))).
  Proof.
    intros H. unfold curvature_knee. pose proof (interior_nonempty curv H).
    destruct (interior curv); [congruence|reflexivity].
  Qed.

  (* Tier O: result = 1 + first arg-max of the criterion over the interior points 1..n-2 *)
  Theorem curvature_knee_spec (O : TotalPreorderOn (@notnan N)) (curv : list (T N)) :
    3 <= length curv -> Forall notnan (interior curv) ->
    exists k, curvature_knee curv = Some k /\ 1 <= k /\ k + 2 <= length curv /\
              k = 1 + argmax (interior curv) /\ first_max (interior curv) (k - 1).
  Proof.
    intros H Hn. exists (S (argmax (interior curv))).
    pose proof (curvature_knee_some curv H) as E. split; [exact E|].
    destruct (curvature_knee_interior _ _ E). split; [lia|]. split; [lia|]. split; [lia|].
    replace (S (argmax (interior curv)) - 1) with (argmax (interior curv)) by lia.
    apply np_argmax_spec; auto. apply interior_nonempty; auto.
  Qed.

  (* the predicate the judge evaluates holds of the model's answer, and pins it *)
  Theorem curvature_holds_model (O : TotalPreorderOn (@notnan N)) (NU : NanUnordered N) (curv : list (T N)) :
    3 <= length curv -> curvature_holds curv (curvature_knee curv) = 0%Z.
  Proof.
    intros H. rewrite (curvature_knee_some curv H). unfold curvature_holds.
    pose proof (argmax_lt (interior curv) (interior_nonempty curv H)) as Hlt. rewrite interior_length in Hlt.
    replace ((1 <=? S (argmax (interior curv))) && (S (argmax (interior curv)) + 2 <=? length curv)) with true.
    2:{ symmetry. apply andb_true_iff. split; apply Nat.leb_le; lia. }
    cbn [negb]. replace (S (argmax (interior curv)) - 1) with (argmax (interior curv)) by lia.
    rewrite (proj2 (first_argmax_b_iff O NU (interior curv) _ (interior_nonempty curv H)) eq_refl). reflexivity.
  Qed.
  Theorem curvature_holds_unique (O : TotalPreorderOn (@notnan N)) (NU : NanUnordered N) (curv : list (T N)) o :
    3 <= length curv -> curvature_holds curv o = 0%Z -> o = curvature_knee curv.
  Proof.
    intros H. rewrite (curvature_knee_some curv H). unfold curvature_holds. destruct o as [k|]; [|discriminate].
    destruct ((1 <=? k) && (k + 2 <=? length curv)) eqn:E1; cbn [negb]; [|discriminate].
    destruct (first_argmax_b (interior curv) (k - 1)) eqn:E2; cbn [negb]; [|discriminate]. intros _.
    apply (first_argmax_b_iff O NU _ _ (interior_nonempty curv H)) in E2.
    apply andb_true_iff in E1 as [E1 _]. apply Nat.leb_le in E1. f_equal. lia.
  Qed.
End Curvature.

(* ================================================================== DFDT *)
Section Dfdt.
  Context {N : Num}.

  Lemma dfdt_gkg_some (g : list (T N)) t :
    3 <= length g -> dfdt_get_knee_gradient g t = Some (S (argmin (interior (dfdt_diff g t)))).
  Proof.
    intros H. unfold dfdt_get_knee_gradient.
    assert (Hne : interior (dfdt_diff g t) <> []) by (apply interior_nonempty; rewrite dfdt_diff_length; auto).
    destruct (interior (dfdt_diff g t)); [congruence|reflexivity].
  Qed.
  Lemma dfdt_gkg_range (g : list (T N)) t j :
    dfdt_get_knee_gradient g t = Some j -> 3 <= length g /\ 1 <= j /\ j + 2 <= length g /\
                                           j = S (argmin (interior (dfdt_diff g t))).
  Proof.
    unfold dfdt_get_knee_gradient. destruct (interior (dfdt_diff g t)) as [|a c] eqn:E; [discriminate|].
    intros [= <-]. pose proof (argmin_lt (a :: c) ltac:(discriminate)) as H.
    assert (L : length (interior (dfdt_diff g t)) = length (a :: c)) by (rewrite E; reflexivity).
    rewrite interior_length, dfdt_diff_length in L. cbn [argmin] in H. repeat split; try lia.
  Qed.

  (* single pass (dfdt.get_knee) *)
  Theorem dfdt_get_knee_interior (grad : list (T N)) t k :
    dfdt_get_knee grad t = Some k -> 1 <= k /\ k + 2 <= length grad.
  Proof.
    unfold dfdt_get_knee. destruct (length grad <? 3); [discriminate|].
    intros H. apply dfdt_gkg_range in H. lia.
  Qed.
  (* Tier O: the interior point whose gradient is closest to the threshold (first such) *)
  Theorem dfdt_get_knee_spec (O : TotalPreorderOn (@notnan N)) (grad : list (T N)) t :
    3 <= length grad -> Forall notnan (interior (dfdt_diff grad t)) ->
    exists k, dfdt_get_knee grad t = Some k /\ 1 <= k /\ k + 2 <= length grad /\
              k = 1 + argmin (interior (dfdt_diff grad t)) /\ first_min (interior (dfdt_diff grad t)) (k - 1).
  Proof.
    intros H Hn. exists (S (argmin (interior (dfdt_diff grad t)))).
    assert (E : dfdt_get_knee grad t = Some (S (argmin (interior (dfdt_diff grad t))))).
    { unfold dfdt_get_knee. destruct (length grad <? 3) eqn:L; [apply Nat.ltb_lt in L; lia|]. apply dfdt_gkg_some; auto. }
    split; [exact E|]. destruct (dfdt_get_knee_interior _ _ _ E). split; [lia|]. split; [lia|]. split; [lia|].
    replace (S (argmin (interior (dfdt_diff grad t))) - 1) with (argmin (interior (dfdt_diff grad t))) by lia.
    apply np_argmin_spec; auto. apply interior_nonempty. rewrite dfdt_diff_length. auto.
  Qed.
  Theorem dfdt_get_knee_holds_model (O : TotalPreorderOn (@notnan N)) (NU : NanUnordered N) (grad : list (T N)) t :
    3 <= length grad -> dfdt_get_knee_holds grad t (dfdt_get_knee grad t) = 0%Z.
  Proof.
    intros H. unfold dfdt_get_knee. destruct (length grad <? 3) eqn:L; [apply Nat.ltb_lt in L; lia|].
    rewrite (dfdt_gkg_some grad t H). unfold dfdt_get_knee_holds.
    assert (Hne : interior (dfdt_diff grad t) <> []) by (apply interior_nonempty; rewrite dfdt_diff_length; auto).
    pose proof (argmin_lt _ Hne) as Hlt. rewrite interior_length, dfdt_diff_length in Hlt.
    set (a := argmin (interior (dfdt_diff grad t))) in *.
    replace ((1 <=? S a) && (S a + 2 <=? length grad)) with true.
    2:{ symmetry. apply andb_true_iff. split; apply Nat.leb_le; lia. }
    cbn [negb]. replace (S a - 1) with a by lia.
    rewrite (proj2 (first_argmin_b_iff O NU _ a Hne) eq_refl). reflexivity.
  Qed.

  (* ---------------------------------------------------------------- the refinement loop *)
  Variable grad : list (T N).
  Variable iso : nat -> option (T N).
  Let n := length grad.

  (* "k is exactly what get_knee_gradient(gradient[c:]) + c returns" *)
  Definition dfdt_exact_at (c k : nat) : bool :=
    match iso c with
    | None => false
    | Some t => match dfdt_get_knee_gradient (skipn c grad) t with Some j => k =? j + c | None => false end
    end.

  Lemma dfdt_exact_at_range c k : dfdt_exact_at c k = true -> c + 1 <= k /\ k + 2 <= n /\ c + 3 <= n.
  Proof.
    unfold dfdt_exact_at. destruct (iso c) as [t|]; [|discriminate].
    destruct (dfdt_get_knee_gradient (skipn c grad) t) as [j|] eqn:E; [|discriminate].
    intros H. apply Nat.eqb_eq in H. subst k. apply dfdt_gkg_range in E.
    rewrite skipn_length in E. fold n in E. lia.
  Qed.

  (* the loop's trace is a chain of the stated recursion (Tier S: with the exact step) *)
  Lemma dfdt_iter_chain : forall fuel last cutoff ks,
    dfdt_iter grad iso fuel last cutoff = Ok ks -> dfdt_chain_b dfdt_exact_at n last cutoff ks = true.
  Proof.
    induction fuel as [|f IH]; intros last cutoff ks; cbn [dfdt_iter]; [discriminate|].
    destruct (iso cutoff) as [t|] eqn:Et; [|discriminate].
    destruct (dfdt_get_knee_gradient (skipn cutoff grad) t) as [j|] eqn:Ej; [|discriminate].
    fold n.
    destruct ((last <? j + cutoff) && (2 <? n - (j + cutoff + 1) / 2)) eqn:G.
    - destruct (dfdt_iter grad iso f (j + cutoff) ((j + cutoff + 1) / 2)) as [ks'| | |] eqn:R; cbn [res_cons]; try discriminate.
      intros [= <-]. cbn [dfdt_chain_b]. rewrite G.
      unfold dfdt_exact_at at 1. rewrite Et, Ej, Nat.eqb_refl. cbn [andb]. apply IH. exact R.
    - intros [= <-]. cbn [dfdt_chain_b]. rewrite G.
      unfold dfdt_exact_at. rewrite Et, Ej, Nat.eqb_refl. reflexivity.
  Qed.

  (* consequences of being a chain, for ANY step predicate that returns interior points of its tail:
     at most n - 1 - last iterations, every knee interior, strictly increasing until the last one *)
  Lemma dfdt_chain_facts (at_ : nat -> nat -> bool)
        (Hat : forall c k, at_ c k = true -> c + 1 <= k /\ k + 2 <= n) : forall ks last cutoff,
    last + 2 <= n -> dfdt_chain_b at_ n last cutoff ks = true ->
    1 <= length ks <= n - 1 - last /\ Forall (fun k => 1 <= k /\ k + 2 <= n) ks /\
    SI (last :: removelast ks).
  Proof.
    induction ks as [|k ks IH]; intros last cutoff Hl; cbn [dfdt_chain_b]; [discriminate|].
    intros H. apply andb_true_iff in H as [Ha H]. destruct (Hat _ _ Ha) as [H1 H2].
    destruct ((last <? k) && (2 <? n - (k + 1) / 2)) eqn:G.
    - apply andb_true_iff in G as [G1 G2]. apply Nat.ltb_lt in G1. apply Nat.ltb_lt in G2.
      destruct (IH k ((k + 1) / 2) ltac:(lia) H) as (L & F & S).
      split; [cbn [length]; lia|]. split.
      + constructor; [lia|]. exact F.
      + destruct ks as [|k2 ks2]; [cbn in H; discriminate|].
        change (removelast (k :: k2 :: ks2)) with (k :: removelast (k2 :: ks2)).
        cbn [SI]. split; [lia|]. exact S.
    - destruct ks; [|discriminate]. cbn. repeat split; try lia. constructor; [lia|constructor].
  Qed.

  (* Tier S: the loop stops within n iterations, whatever the gradient and the thresholds are *)
  Lemma dfdt_iter_total : forall fuel last cutoff,
    last + 2 <= n -> n <= fuel + last + 1 -> cutoff + 3 <= n ->
    match dfdt_iter grad iso fuel last cutoff with
    | OutOfFuel | Exc => False
    | Missing => exists c, iso c = None
    | Ok _ => True
    end.
  Proof.
    induction fuel as [|f IH]; intros last cutoff H1 H2 H3; [lia|]. cbn [dfdt_iter].
    destruct (iso cutoff) as [t|] eqn:Et; [|eauto].
    rewrite dfdt_gkg_some by (rewrite skipn_length; fold n; lia).
    set (j := S (argmin _)).
    assert (Hj : dfdt_get_knee_gradient (skipn cutoff grad) t = Some j)
      by (apply dfdt_gkg_some; rewrite skipn_length; fold n; lia).
    apply dfdt_gkg_range in Hj. rewrite skipn_length in Hj. fold n in Hj. fold n.
    destruct ((last <? j + cutoff) && (2 <? n - (j + cutoff + 1) / 2)) eqn:G; [|exact I].
    apply andb_true_iff in G as [G1 G2]. apply Nat.ltb_lt in G1. apply Nat.ltb_lt in G2.
    specialize (IH (j + cutoff) ((j + cutoff + 1) / 2) ltac:(lia) ltac:(lia) ltac:(lia)).
    destruct (dfdt_iter grad iso f (j + cutoff) ((j + cutoff + 1) / 2)); cbn [res_cons]; auto.
  Qed.

  (* dfdt_knee_total (Tier S): with thresholds available for every tail, dfdt.knee on n >= 3 points returns after
     at most n iterations; its successive knees form the stated recursion, are interior and strictly increasing
     up to the last one *)
  Theorem dfdt_knee_total :
    3 <= n -> (forall c, iso c <> None) ->
    exists ks k, dfdt_knee_res grad iso = Ok ks /\ dfdt_knee grad iso = Some k /\ In k ks /\
                 1 <= length ks <= n /\
                 dfdt_chain_b dfdt_exact_at n 0 0 ks = true /\
                 Forall (fun k => 1 <= k /\ k + 2 <= n) ks /\ SI (removelast ks).
  Proof.
    intros Hn Hiso. unfold dfdt_knee, dfdt_knee_res. fold n.
    destruct (n <? 3) eqn:L; [apply Nat.ltb_lt in L; lia|].
    pose proof (dfdt_iter_total n 0 0 ltac:(lia) ltac:(lia) ltac:(lia)) as T.
    destruct (dfdt_iter grad iso n 0 0) as [ks| | |] eqn:R; try contradiction.
    2:{ destruct T as [c Hc]. destruct (Hiso c Hc). }
    pose proof (dfdt_iter_chain _ _ _ _ R) as C.
    destruct (dfdt_chain_facts dfdt_exact_at (fun c k H => let '(conj a (conj b _)) := dfdt_exact_at_range c k H in conj a b)
                _ 0 0 ltac:(lia) C) as (Len & F & S).
    assert (Hne : ks <> []) by (destruct ks; cbn in Len; [lia|discriminate]).
    destruct (res_knee_ok_nonempty ks Hne) as [k Hk].
    destruct (res_knee_In _ _ Hk) as (ks' & [= <-] & Hin).
    exists ks, k. repeat split; auto; try lia.
    cbn [SI] in S. destruct (removelast ks); [exact I|]. destruct S. assumption.
  Qed.

  (* dfdt_knee_interior (Tier S): every gradient array (NaN included), every threshold oracle *)
  Theorem dfdt_knee_interior k : dfdt_knee grad iso = Some k -> 1 <= k /\ k + 2 <= n.
  Proof.
    unfold dfdt_knee, dfdt_knee_res. fold n. destruct (n <? 3) eqn:L; [discriminate|].
    apply Nat.ltb_ge in L. intros H. destruct (res_knee_In _ _ H) as (ks & R & Hin).
    pose proof (dfdt_iter_chain _ _ _ _ R) as C.
    destruct (dfdt_chain_facts dfdt_exact_at (fun c k H => let '(conj a (conj b _)) := dfdt_exact_at_range c k H in conj a b)
                _ 0 0 ltac:(lia) C) as (_ & F & _).
    rewrite Forall_forall in F. specialize (F _ Hin). lia.
  Qed.

  (* Tier O: each step is the declarative "closest interior point of the tail" *)
  Lemma dfdt_exact_at_spec (O : TotalPreorderOn (@notnan N)) (NU : NanUnordered N) c k :
    dfdt_exact_at c k = true -> dfdt_at grad iso c k = true.
  Proof.
    intros H. pose proof (dfdt_exact_at_range _ _ H) as (R1 & R2 & R3). revert H.
    unfold dfdt_exact_at, dfdt_at. destruct (iso c) as [t|]; [|discriminate].
    destruct (dfdt_get_knee_gradient (skipn c grad) t) as [j|] eqn:E; [|discriminate].
    intros H. apply Nat.eqb_eq in H. subst k. apply dfdt_gkg_range in E as (E1 & E2 & E3 & E4).
    fold n. apply andb_true_iff. split; [apply andb_true_iff; split; apply Nat.leb_le; lia|].
    apply (first_argmin_b_iff O NU).
    - apply interior_nonempty. rewrite dfdt_diff_length. lia.
    - lia.
  Qed.
  Lemma dfdt_chain_mono (a1 a2 : nat -> nat -> bool) (H : forall c k, a1 c k = true -> a2 c k = true) :
    forall ks last cutoff, dfdt_chain_b a1 n last cutoff ks = true -> dfdt_chain_b a2 n last cutoff ks = true.
  Proof.
    induction ks as [|k ks IH]; intros last cutoff; cbn [dfdt_chain_b]; [auto|].
    intros C. apply andb_true_iff in C as [C1 C2]. rewrite (H _ _ C1). cbn [andb].
    destruct ((last <? k) && (2 <? n - (k + 1) / 2)); auto.
  Qed.

  Theorem dfdt_knee_holds_model (O : TotalPreorderOn (@notnan N)) (NU : NanUnordered N) :
    3 <= n -> (forall c, iso c <> None) -> dfdt_knee_holds grad iso (dfdt_knee_res grad iso) = 0%Z.
  Proof.
    intros Hn Hiso. destruct (dfdt_knee_total Hn Hiso) as (ks & k & R & K & Hin & Len & C & F & S).
    rewrite R. unfold dfdt_knee_holds. unfold dfdt_knee in K. rewrite R in K. rewrite K.
    rewrite Forall_forall in F. specialize (F _ Hin). fold n.
    replace ((1 <=? k) && (k + 2 <=? n)) with true by (symmetry; apply andb_true_iff; split; apply Nat.leb_le; lia).
    replace (length ks <=? n) with true by (symmetry; apply Nat.leb_le; lia).
    rewrite (dfdt_chain_mono _ _ (dfdt_exact_at_spec O NU) _ _ _ C).
    rewrite (proj2 (SI_iff _) S). reflexivity.
  Qed.
End Dfdt.

(* ================================================================== Menger *)
Section Menger.
  Context {N : Num}.
  Hypothesis O : TotalPreorderOn (@notnan N).
  Hypothesis Z0 : isnan (@zero N) = false.

  (* the trailing pad 0 never wins: the running maximum is a NaN (the scan has stopped) or is >= 0 *)
  Lemma argmax_go_pad (l : list (T N)) : forall i best bi,
    bi < i -> (isnan best = true \/ (isnan best = false /\ zero <=?! best = true)) ->
    argmax_go (l ++ [zero]) i best bi < i + length l.
  Proof.
    induction l as [|x l IH]; intros i best bi Hb Hinv; cbn [app argmax_go length].
    - destruct (isnan best) eqn:Eb; [lia|]. destruct Hinv as [H|[_ H]]; [discriminate|]. rewrite H. cbn. lia.
    - destruct (isnan best) eqn:Eb; [lia|]. destruct Hinv as [H|[_ Hz]]; [discriminate|].
      destruct (x <=?! best) eqn:Hx; cbn [negb].
      + specialize (IH (S i) best bi ltac:(lia) (or_intror (conj Eb Hz))). lia.
      + assert (Hinv' : isnan x = true \/ (isnan x = false /\ zero <=?! x = true)).
        { destruct (isnan x) eqn:Ex; [left; reflexivity|right; split; [reflexivity|]].
          apply (ord_trans _ O zero best x); auto.
          destruct (ord_total _ O x best Ex Eb); congruence. }
        specialize (IH (S i) x i ltac:(lia) Hinv'). lia.
  Qed.

  (* menger_knee_interior: index in [0, n-2] with n = length mc + 2, for every curvature table (NaN included) *)
  Theorem menger_knee_interior (mc : list (T N)) k :
    menger_knee mc = Some k -> 0 <= k /\ k + 2 <= length mc + 2.
  Proof.
    unfold menger_knee, menger_padded. intros [= <-]. cbn [argmax].
    pose proof (argmax_go_pad mc 1 zero 0 ltac:(lia)) as H.
    specialize (H (or_intror (conj Z0 (ord_refl _ O zero Z0)))). lia.
  Qed.

  Theorem menger_knee_spec (mc : list (T N)) :
    Forall notnan mc ->
    exists k, menger_knee mc = Some k /\ k + 2 <= length mc + 2 /\
              k = argmax (menger_padded mc) /\ first_max (menger_padded mc) k.
  Proof.
    intros Hn. exists (argmax (menger_padded mc)). split; [reflexivity|].
    destruct (menger_knee_interior mc _ eq_refl). split; [lia|]. split; [reflexivity|].
    apply np_argmax_spec; auto; unfold menger_padded; [discriminate|].
    constructor; [exact Z0|]. apply Forall_app. split; auto.
  Qed.

  Theorem menger_holds_model (NU : NanUnordered N) (mc : list (T N)) : menger_holds mc (menger_knee mc) = 0%Z.
  Proof.
    pose proof (menger_knee_interior mc _ eq_refl) as [_ H].
    unfold menger_knee in *. unfold menger_holds.
    replace (argmax (menger_padded mc) + 2 <=? length mc + 2) with true by (symmetry; apply Nat.leb_le; lia).
    cbn [negb]. rewrite (proj2 (first_argmax_b_iff O NU (menger_padded mc) _ ltac:(discriminate)) eq_refl). reflexivity.
  Qed.
  Theorem menger_holds_unique (NU : NanUnordered N) (mc : list (T N)) o :
    menger_holds mc o = 0%Z -> o = menger_knee mc.
  Proof.
    unfold menger_holds, menger_knee. destruct o as [k|]; [|discriminate].
    destruct (k + 2 <=? length mc + 2); cbn [negb]; [|discriminate].
    destruct (first_argmax_b (menger_padded mc) k) eqn:E; cbn [negb]; [|discriminate]. intros _.
    apply (first_argmax_b_iff O NU) in E; [congruence|discriminate].
  Qed.
End Menger.
