(* Proofs/ScoresFacts.v — C19, Tier S: the confusion matrix (accounting identities, greedy matching) and the
   error scores as definitional refinements.  No assumption on the arithmetic: every Num. *)
From Coq Require Import ZArith List Arith Bool Lia.
From Knee Require Import Num NpList Model.Scores.
Import ListNotations.
Local Open Scope num_scope.

(* ---------------------------------------------------------------------------------------------- *)
(* generic list facts *)
Lemma NoDup_snoc {A} (l : list A) x : NoDup l -> ~ In x l -> NoDup (l ++ [x]).
Proof.
  intros Hn Hx. induction l as [|a l IH]; cbn; [constructor; auto; constructor|].
  inversion Hn; subst. constructor.
  - rewrite in_app_iff. cbn. intros [H|[H|[]]]; [auto|subst; apply Hx; left; reflexivity].
  - apply IH; auto. intros H; apply Hx; right; exact H.
Qed.
Lemma existsb_eqb_In k l : existsb (Nat.eqb k) l = true <-> In k l.
Proof.
  rewrite existsb_exists. split.
  - intros (x & Hx & E). apply Nat.eqb_eq in E. subst; auto.
  - intros H. exists k. split; auto. apply Nat.eqb_refl.
Qed.
Lemma existsb_same_members k l1 l2 : (forall x, In x l1 <-> In x l2) ->
  existsb (Nat.eqb k) l1 = existsb (Nat.eqb k) l2.
Proof.
  intros H. destruct (existsb (Nat.eqb k) l1) eqn:E1, (existsb (Nat.eqb k) l2) eqn:E2; auto.
  - apply existsb_eqb_In, H, existsb_eqb_In in E1. congruence.
  - apply existsb_eqb_In, H, existsb_eqb_In in E2. congruence.
Qed.
Lemma skipn_cons_nth {A} (d : A) : forall j (l : list A) x r, skipn j l = x :: r -> nth j l d = x /\ skipn (S j) l = r.
Proof.
  induction j as [|j IH]; intros l x r H.
  - destruct l; cbn in H; inversion H; subst; auto.
  - destruct l as [|a l]; [cbn in H; discriminate|]. cbn [skipn] in H. apply IH in H. exact H.
Qed.
Lemma NoDup_bounded_length (l : list nat) n : NoDup l -> (forall x, In x l -> x < n) -> length l <= n.
Proof.
  intros Hn Hb. rewrite <- (seq_length n 0). apply NoDup_incl_length; auto.
  intros x Hx. apply in_seq. specialize (Hb x Hx). lia.
Qed.

(* ---------------------------------------------------------------------------------------------- *)
Section ArgminRange.
  Context {N : Num}.
  Lemma argmin_go_range : forall (l : list (T N)) i best bi, bi < i -> argmin_go l i best bi < i + length l.
  Proof.
    induction l as [|x l IH]; intros i best bi H; cbn [argmin_go length]; [lia|].
    destruct (isnan best); [lia|].
    destruct (negb (best <=?! x)).
    - specialize (IH (S i) x i ltac:(lia)). lia.
    - specialize (IH (S i) best bi ltac:(lia)). lia.
  Qed.
  (* np.argmin returns a valid position of a non-empty array *)
  Lemma argmin_lt (l : list (T N)) : l <> [] -> argmin l < length l.
  Proof.
    destruct l as [|x l]; [congruence|]. intros _. unfold argmin.
    pose proof (argmin_go_range l 1 x 0 ltac:(lia)). cbn [length]. lia.
  Qed.
End ArgminRange.

(* ---------------------------------------------------------------------------------------------- *)
Section CmFacts.
  Context {N : Num}.
  Variable kxs : list (T N).       (* x of the knee points *)
  Variable dx t : T N.
  Variable exs : list (T N).       (* x of the expected points *)

  (* the nearest knee (first arg-min of |kx - px|/dx) of expected point j, and whether it is within the tolerance *)
  Definition cand (j : nat) : nat := cm_cand kxs dx (nth j exs zero).
  Definition within (j : nat) : bool := cm_within kxs dx t (nth j exs zero).

  Lemma cand_lt j : kxs <> [] -> cand j < length kxs.
  Proof.
    intros H. unfold cand, cm_cand.
    replace (length kxs) with (length (cm_dists kxs dx (nth j exs zero))) by (unfold cm_dists; apply map_length).
    apply argmin_lt. unfold cm_dists. destruct kxs; [congruence|discriminate].
  Qed.

  (* loop invariant after the first j expected points *)
  Definition Inv (j : nat) (st : cmstate) : Prop :=
    let '(used, M, tp, fn) := st in
    used = map snd M /\ tp = length M /\ tp + fn = j /\
    (forall a k, In (a, k) M -> a < j) /\
    NoDup (map snd M) /\ NoDup (map fst M) /\
    (forall a k, In (a, k) M -> k = cand a /\ within a = true) /\
    (forall a, a < j ->
       ((exists k, In (a, k) M) <->
        (within a = true /\ forall a' k', a' < a -> In (a', k') M -> k' <> cand a))).

  Lemma Inv_init : Inv 0 ([], [], 0, 0).
  Proof.
    cbn. repeat split; auto; try constructor; try (intros; contradiction); intros; lia.
  Qed.

  Lemma In_map_snd (M : list (nat * nat)) k : In k (map snd M) <-> exists a, In (a, k) M.
  Proof.
    rewrite in_map_iff. split.
    - intros ([a k'] & E & H). cbn in E. subst. eauto.
    - intros (a & H). exists (a, k). auto.
  Qed.

  Lemma Inv_step j st px rest :
    skipn j exs = px :: rest -> Inv j st ->
    Inv (S j) (let '(used, M, tp, fn) := st in
               let idx := cm_cand kxs dx px in
               if cm_within kxs dx t px && negb (existsb (Nat.eqb idx) used)
               then (used ++ [idx], M ++ [(j, idx)], S tp, fn) else (used, M, tp, S fn)).
  Proof.
    intros Hsk HI. destruct (skipn_cons_nth zero j exs px rest Hsk) as [Hpx _].
    destruct st as [[[used M] tp] fn]. cbn [Inv] in HI.
    destruct HI as (Hu & Htp & Hsum & Hlt & Hnd & Hnf & Hck & Hiff).
    assert (Hc : cm_cand kxs dx px = cand j) by (unfold cand; rewrite Hpx; reflexivity).
    assert (Hw : cm_within kxs dx t px = within j) by (unfold within; rewrite Hpx; reflexivity).
    cbv zeta. rewrite Hc, Hw.
    destruct (within j && negb (existsb (Nat.eqb (cand j)) used)) eqn:Econd.
    - apply andb_true_iff in Econd. destruct Econd as [Eok Eun]. apply negb_true_iff in Eun.
      assert (Hnotin : ~ In (cand j) used).
      { intros H. apply existsb_eqb_In in H. congruence. }
      cbn [Inv]. refine (conj _ (conj _ (conj _ (conj _ (conj _ (conj _ (conj _ _))))))).
      + rewrite map_app, Hu. reflexivity.
      + rewrite app_length. cbn. lia.
      + lia.
      + intros a k H. apply in_app_iff in H. destruct H as [H|[H|[]]]; [apply Hlt in H; lia|inversion H; lia].
      + rewrite map_app. cbn [map snd]. apply NoDup_snoc; auto. rewrite <- Hu. exact Hnotin.
      + rewrite map_app. cbn [map fst]. apply NoDup_snoc; auto.
        intros H. apply in_map_iff in H. destruct H as ([a k] & E & H). cbn in E. subst a. apply Hlt in H. lia.
      + intros a k H. apply in_app_iff in H. destruct H as [H|[H|[]]]; [apply Hck in H; exact H|inversion H; subst; auto].
      + intros a Ha. split.
        * intros (k & H). apply in_app_iff in H. destruct H as [H|[H|[]]].
          -- assert (Haj : a < j) by (apply Hlt in H; exact H).
             destruct (proj1 (Hiff a Haj) (ex_intro _ k H)) as [Hw' Hall]. split; [exact Hw'|].
             intros a' k' Ha' H'. apply in_app_iff in H'. destruct H' as [H'|[H'|[]]]; [eapply Hall; eauto|inversion H'; lia].
          -- injection H as E1 E2. subst a k. split; [exact Eok|].
             intros a' k' Ha' H'. apply in_app_iff in H'. destruct H' as [H'|[H'|[]]]; [|inversion H'; lia].
             intros E. subst k'. apply Hnotin. rewrite Hu. apply In_map_snd. eauto.
        * intros [Hw' Hall]. destruct (Nat.eq_dec a j) as [->|Hne].
          -- exists (cand j). apply in_app_iff. right. left. reflexivity.
          -- assert (Haj : a < j) by lia.
             destruct (proj2 (Hiff a Haj)) as (k & Hk).
             { split; auto. intros a' k' Ha' H'. apply (Hall a' k' Ha'). apply in_app_iff. left. exact H'. }
             exists k. apply in_app_iff. left. exact Hk.
    - cbn [Inv]. refine (conj _ (conj _ (conj _ (conj _ (conj _ (conj _ (conj _ _))))))); auto; try lia.
      + intros a k H. apply Hlt in H. lia.
      + intros a Ha. split.
        * intros (k & H). assert (Haj : a < j) by (apply Hlt in H; exact H). apply (proj1 (Hiff a Haj)). eauto.
        * intros [Hw' Hall]. destruct (Nat.eq_dec a j) as [->|Hne].
          -- (* the candidate of j was refused: out of tolerance, or already claimed by an earlier expected point *)
             exfalso. apply andb_false_iff in Econd. destruct Econd as [E|E]; [congruence|].
             apply negb_false_iff, existsb_eqb_In in E. rewrite Hu in E. apply In_map_snd in E. destruct E as (a' & E).
             apply (Hall a' (cand j)); auto. apply Hlt in E. exact E.
          -- assert (Haj : a < j) by lia. apply (proj2 (Hiff a Haj)). split; auto.
  Qed.

  Lemma cm_loop_inv : forall rest j st,
    skipn j exs = rest -> Inv j st -> Inv (j + length rest) (cm_loop kxs dx t rest j st).
  Proof.
    induction rest as [|px rest IH]; intros j st Hsk HI.
    - cbn. rewrite Nat.add_0_r. exact HI.
    - pose proof (Inv_step j st px rest Hsk HI) as Hstep.
      destruct (skipn_cons_nth zero j exs px rest Hsk) as [_ Hsk'].
      cbn [cm_loop length]. replace (j + S (length rest)) with (S j + length rest) by lia.
      destruct st as [[[used M] tp] fn]. cbv zeta in Hstep.
      destruct (cm_within kxs dx t px && negb (existsb (Nat.eqb (cm_cand kxs dx px)) used));
        apply IH; auto.
  Qed.

  (* the loop computes the stated greedy matching *)
  Lemma cm_loop_greedy : forall rest j used M tp fn claimed,
    (forall x, In x used <-> In x claimed) ->
    let '(_, M', tp', _) := cm_loop kxs dx t rest j (used, M, tp, fn) in
    M' = M ++ greedy_spec kxs dx t rest j claimed /\ tp' = tp + length (greedy_spec kxs dx t rest j claimed).
  Proof.
    induction rest as [|px rest IH]; intros j used M tp fn claimed Hsame; cbn [cm_loop greedy_spec].
    - rewrite app_nil_r. cbn. split; auto.
    - rewrite (existsb_same_members _ used claimed Hsame).
      destruct (cm_within kxs dx t px && negb (existsb (Nat.eqb (cm_cand kxs dx px)) claimed)).
      + specialize (IH (S j) (used ++ [cm_cand kxs dx px]) (M ++ [(j, cm_cand kxs dx px)]) (S tp) fn (cm_cand kxs dx px :: claimed)).
        destruct (cm_loop kxs dx t rest (S j) _) as [[[u' M'] tp'] fn'].
        destruct IH as [H1 H2].
        { intros x. rewrite in_app_iff. cbn. rewrite Hsame. tauto. }
        split; [rewrite H1, <- app_assoc; reflexivity|cbn [length]; lia].
      + specialize (IH (S j) used M tp (S fn) claimed Hsame).
        destruct (cm_loop kxs dx t rest (S j) _) as [[[u' M'] tp'] fn']. exact IH.
  Qed.
End CmFacts.

Section CmTheorems.
  Context {N : Num}.

  (* cm_identities: TP + FN = |E|, TP + FP = |K|, the four entries sum to n — for every Num, tolerance, inputs *)
  Theorem cm_identities n (xs kxs exs : list (T N)) t :
    kxs <> [] ->
    let r := cm_core n xs kxs exs t in
    c_tp r + c_fn r = length exs /\ c_tp r + c_fp r = length kxs /\
    (Z.of_nat (c_tp r) + Z.of_nat (c_fp r) + Z.of_nat (c_fn r) + c_tn r = Z.of_nat n)%Z.
  Proof.
    intros Hk. unfold cm_core.
    pose proof (cm_loop_inv kxs (cm_dx xs) t exs exs 0 ([], [], 0, 0) eq_refl (Inv_init kxs (cm_dx xs) t exs)) as HI.
    destruct (cm_loop kxs (cm_dx xs) t exs 0 ([], [], 0, 0)) as [[[used M] tp] fn].
    cbn [Inv] in HI. destruct HI as (Hu & Htp & Hsum & Hlt & Hnd & Hnf & Hck & Hiff).
    cbn [c_tp c_fp c_fn c_tn].
    assert (Hle : tp <= length kxs).
    { rewrite Htp, <- (map_length snd M). apply NoDup_bounded_length; auto.
      intros k Hin. apply In_map_snd in Hin. destruct Hin as (a & Hin). destruct (Hck a k Hin) as [-> _].
      apply cand_lt; auto. }
    cbn in Hsum. repeat split; lia.
  Qed.

  (* cm_is_greedy: the matching behind TP is the stated greedy one-to-one matching ... *)
  Theorem cm_is_greedy n (xs kxs exs : list (T N)) t :
    let r := cm_core n xs kxs exs t in
    c_match r = greedy_spec kxs (cm_dx xs) t exs 0 [] /\ c_tp r = length (c_match r).
  Proof.
    unfold cm_core.
    pose proof (cm_loop_greedy kxs (cm_dx xs) t exs 0 [] [] 0 0 [] ltac:(tauto)) as H.
    destruct (cm_loop kxs (cm_dx xs) t exs 0 ([], [], 0, 0)) as [[[used M] tp] fn].
    cbn [c_match c_tp]. destruct H as [H1 H2]. cbn in H1, H2. subst. auto.
  Qed.

  (* ... characterised without reference to any loop: one-to-one, and expected point j is matched to knee k iff
     k is j's nearest knee, within the tolerance, and not matched to an earlier expected point *)
  Theorem cm_matching_char n (xs kxs exs : list (T N)) t :
    let r := cm_core n xs kxs exs t in
    let dx := cm_dx xs in
    NoDup (map fst (c_match r)) /\ NoDup (map snd (c_match r)) /\
    c_tp r = length (c_match r) /\ c_fn r = length exs - length (c_match r) /\
    forall j k, In (j, k) (c_match r) <->
      (j < length exs /\ k = cand kxs dx exs j /\ within kxs dx t exs j = true /\
       forall j', j' < j -> ~ In (j', k) (c_match r)).
  Proof.
    unfold cm_core.
    pose proof (cm_loop_inv kxs (cm_dx xs) t exs exs 0 ([], [], 0, 0) eq_refl (Inv_init kxs (cm_dx xs) t exs)) as HI.
    destruct (cm_loop kxs (cm_dx xs) t exs 0 ([], [], 0, 0)) as [[[used M] tp] fn].
    cbn [Inv] in HI. destruct HI as (Hu & Htp & Hsum & Hlt & Hnd & Hnf & Hck & Hiff).
    cbn [c_tp c_fn c_match]. cbn in Hsum, Hlt, Hiff.
    refine (conj Hnf (conj Hnd (conj Htp (conj _ _)))); [lia|].
    intros j k. split.
    - intros H. destruct (Hck j k H) as [Ek Hw]. split; [exact (Hlt _ _ H)|]. split; [exact Ek|]. split; [exact Hw|].
      intros j' Hj' H'. subst k.
      destruct (proj1 (Hiff j (Hlt _ _ H)) (ex_intro (fun k => In (j, k) M) _ H)) as [_ Hall].
      apply (Hall j' _ Hj' H'). reflexivity.
    - intros (Hj & -> & Hw & Hall).
      destruct (proj2 (Hiff j Hj)) as (k' & Hk').
      { split; auto. intros a' k' Ha' H' E. subst k'. apply (Hall a' Ha' H'). }
      destruct (Hck j k' Hk') as [-> _]. exact Hk'.
  Qed.
End CmTheorems.

(* ---------------------------------------------------------------------------------------------- *)
(* the error scores: accumulator loops = declarative means; side selection *)
Section ErrFacts.
  Context {N : Num}.
  Variable dist : nat -> nat -> T N.

  Lemma err_loop_fold term b : forall a i e,
    err_loop dist term a b i e =
    fold_left add (map (fun ip => term (snd ip) (nn dist b (fst ip))) (combine (seq i (length a)) a)) e.
  Proof.
    induction a as [|p a IH]; intros i e; cbn [err_loop length seq combine map fold_left]; auto.
  Qed.
  Theorem mean_err_is_spec term a b : mean_err dist term a b = mean_err_spec dist term a b.
  Proof. unfold mean_err, mean_err_spec, seq_sum, indexed. rewrite err_loop_fold. reflexivity. Qed.

  Lemma pe_loop_flat b : forall a i errs,
    pe_loop dist a b i errs =
    errs ++ flat_map (fun ip => pe_terms (snd ip) (nn dist b (fst ip))) (combine (seq i (length a)) a).
  Proof.
    induction a as [|p a IH]; intros i errs; cbn [pe_loop length seq combine flat_map].
    - rewrite app_nil_r; reflexivity.
    - rewrite IH, <- app_assoc. reflexivity.
  Qed.

  (* each score = the mean per-coordinate nearest-neighbour error from the side the strategy selects *)
  Theorem mae_spec s kp ex :
    mae dist s kp ex = mean_err_spec dist l1_term (fst (sides s kp ex)) (snd (sides s kp ex)).
  Proof. unfold mae. destruct (sides s kp ex) as [a b]. apply mean_err_is_spec. Qed.
  Theorem mse_spec s kp ex :
    mse dist s kp ex = mean_err_spec dist l2_term (fst (sides s kp ex)) (snd (sides s kp ex)).
  Proof. unfold mse. destruct (sides s kp ex) as [a b]. apply mean_err_is_spec. Qed.
  Theorem rmspe_is_spec s kp ex :
    rmspe dist s kp ex = rmspe_spec dist (fst (sides s kp ex)) (snd (sides s kp ex)).
  Proof.
    unfold rmspe, rmspe_spec, indexed. destruct (sides s kp ex) as [a b]. cbn [fst snd]. rewrite pe_loop_flat. reflexivity.
  Qed.
  Theorem rmse_is_sqrt_mse s kp ex : rmse dist s kp ex = sqrt (mse dist s kp ex).
  Proof. reflexivity. Qed.
End ErrFacts.

(* which side is iterated: the knees / the expected points / the smaller side / the larger side, expected on ties *)
Theorem sides_spec {A} (s : strategy) (kp ex : list A) :
  let a := fst (sides s kp ex) in let b := snd (sides s kp ex) in
  ((a, b) = (kp, ex) \/ (a, b) = (ex, kp)) /\
  match s with
  | SKnees => a = kp
  | SExpected => a = ex
  | SBest => length a = Nat.min (length kp) (length ex) /\ (length kp = length ex -> a = ex)
  | SWorst => length a = Nat.max (length kp) (length ex) /\ (length kp = length ex -> a = ex)
  end.
Proof.
  destruct s; cbn [sides fst snd]; auto.
  - destruct (length ex <=? length kp) eqn:E; cbn [fst snd].
    + apply Nat.leb_le in E. repeat split; auto; lia.
    + apply Nat.leb_gt in E. repeat split; auto; lia.
  - destruct (length kp <=? length ex) eqn:E; cbn [fst snd].
    + apply Nat.leb_le in E. repeat split; auto; lia.
    + apply Nat.leb_gt in E. repeat split; auto; lia.
Qed.
