(* Proofs/ClusterFilterFloat.v — the Tier-O theorems of C12 instantiated on binary64 with the executable sorter:
   all order hypotheses are discharged (FloatOrder.float_total_preorder, argsort_stable_perm/_sorted). *)
From Coq Require Import List Arith Bool Permutation.
From Knee Require Import Num NumFloat NpList OrdLaws FloatOrder Model.ClusterFilter Proofs.ClusterFilterFacts.
Import ListNotations.

Theorem fc_best_float (score : list nat -> list (T FloatNum)) (hull : list nat) (sdist : nat -> nat -> T FloatNum)
  (xs : list (T FloatNum)) (m : fmode) (labels knees : list nat) :
  labels_ok labels knees = true -> strictly_increasing knees = true -> 2 <= length knees ->
  (forall i, i <= max_label labels -> 2 <= length (members labels knees i) ->
             length (score (members labels knees i)) = length (members labels knees i)) ->
  is_hull m = false ->
  exists res, filter_clusters (@argsort_stable FloatNum) score hull sdist xs m labels knees = Some res /\
              one_per_cluster_b labels knees res = true /\ best_b true score labels knees res = true.
Proof.
  intros Hl Hs H2 Hsh Hm.
  destruct (fc_one_per_cluster_thm (@argsort_stable FloatNum) score hull sdist xs (@argsort_stable_perm FloatNum)
              m labels knees Hl Hs H2 (fun _ => Hsh) Hm) as [res [E1 P1]].
  destruct (fc_best_thm (@argsort_stable FloatNum) score hull sdist xs (@argsort_stable_perm FloatNum)
              m labels knees Hl Hs H2 (fun _ => Hsh) float_total_preorder
              (@argsort_stable_sorted FloatNum float_total_preorder) Hm) as [res' [E2 P2]].
  rewrite E1 in E2. inversion E2; subst res'. exists res. auto.
Qed.

Theorem fcc_best_float (xs ys : list (T FloatNum)) (labels knees : list nat) :
  labels_ok labels knees = true -> strictly_increasing knees = true ->
  exists res, filter_clusters_corners xs ys labels knees = Some res /\
              one_per_cluster_b labels knees res = true /\
              best_b false (fun c => map (tri_score xs ys) c) labels knees res = true.
Proof.
  intros Hl Hs.
  destruct (fcc_one_per_cluster_thm xs ys labels knees Hl Hs) as [res [E1 P1]].
  destruct (fcc_best_thm xs ys labels knees Hl Hs float_total_preorder) as [res' [E2 P2]].
  rewrite E1 in E2. inversion E2; subst res'. exists res. auto.
Qed.

(* derived score (lf.r2 of slices is the only oracle) on binary64 with the executable sorter: no hypothesis on any oracle *)
Theorem fc_smooth_best_float (r2 : nat -> nat -> T FloatNum) (ys : list (T FloatNum)) (hull : list nat)
  (sdist : nat -> nat -> T FloatNum) (xs : list (T FloatNum)) (m : fmode) (labels knees : list nat) :
  labels_ok labels knees = true -> strictly_increasing knees = true -> 2 <= length knees -> is_hull m = false ->
  exists res, filter_clusters (@argsort_stable FloatNum) (smooth_score r2 ys m) hull sdist xs m labels knees = Some res /\
              one_per_cluster_b labels knees res = true /\ best_b true (smooth_score r2 ys m) labels knees res = true.
Proof.
  intros Hl Hs H2 Hm. apply fc_best_float; auto. intros i _ _. apply smooth_score_length.
Qed.

Theorem fc_hull_best_float (score : list nat -> list (T FloatNum)) (hull : list nat) (sdist : nat -> nat -> T FloatNum)
  (xs : list (T FloatNum)) (labels knees : list nat) :
  labels_ok labels knees = true -> strictly_increasing knees = true -> 2 <= length knees ->
  exists res, filter_clusters (@argsort_stable FloatNum) score hull sdist xs MHull labels knees = Some res /\
              hull_ok_b hull labels knees res = true /\ best_b true (hull_score hull sdist xs) labels knees res = true.
Proof.
  intros Hl Hs H2.
  destruct (fc_hull_clean (@argsort_stable FloatNum) score hull sdist xs labels knees (@argsort_stable_perm FloatNum) Hl Hs H2)
    as [res [E1 P1]].
  destruct (fc_hull_best (@argsort_stable FloatNum) hull sdist xs (@argsort_stable_perm FloatNum) labels knees Hl Hs H2 score
              float_total_preorder (@argsort_stable_sorted FloatNum float_total_preorder)) as [res' [E2 P2]].
  rewrite E1 in E2. inversion E2; subst res'. exists res. auto.
Qed.
