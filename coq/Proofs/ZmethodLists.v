(* Proofs/ZmethodLists.v — list lemmas used by the C10 proofs (generic, no arithmetic). *)
From Coq Require Import ZArith List Bool Arith Lia Permutation Sorted.
From Knee Require Import Num NpList Model.Zmethod.
Import ListNotations.
Local Open Scope num_scope.

Lemma filter_filter' {A} (f g : A -> bool) l :
  filter g (filter f l) = filter (fun x => f x && g x) l.
Proof.
  induction l as [|a l IH]; cbn; auto.
  destruct (f a); cbn; [destruct (g a); cbn; rewrite IH; auto|exact IH].
Qed.
Lemma filter_length_le' {A} (f : A -> bool) l : length (filter f l) <= length l.
Proof. induction l as [|a l IH]; cbn; auto. destruct (f a); cbn; lia. Qed.
Lemma filter_length_lt {A} (f : A -> bool) l r : In r l -> f r = false -> length (filter f l) < length l.
Proof.
  induction l as [|a l IH]; intros Hin Hf; [destruct Hin|].
  cbn. destruct Hin as [->|Hin].
  - rewrite Hf. pose proof (filter_length_le' f l). lia.
  - specialize (IH Hin Hf). destruct (f a); cbn; lia.
Qed.

(* ForallOrdPairs *)
Lemma FOP_snoc {A} (R : A -> A -> Prop) l a :
  ForallOrdPairs R l -> Forall (fun x => R x a) l -> ForallOrdPairs R (l ++ [a]).
Proof.
  induction 1 as [|b l Hb Hl IH]; intros HF; cbn.
  - constructor; [constructor|constructor].
  - inversion HF; subst. constructor.
    + apply Forall_app; split; auto.
    + apply IH; auto.
Qed.
Lemma FOP_impl {A} (R S : A -> A -> Prop) l :
  (forall a b, R a b -> S a b) -> ForallOrdPairs R l -> ForallOrdPairs S l.
Proof.
  intros H; induction 1; constructor; auto.
  eapply Forall_impl; [|eassumption]. auto.
Qed.
Lemma FOP_impl_In {A} (R S : A -> A -> Prop) l :
  (forall a b, In a l -> In b l -> R a b -> S a b) -> ForallOrdPairs R l -> ForallOrdPairs S l.
Proof.
  intros H HF; induction HF as [|a l Ha Hl IH]; constructor.
  - rewrite Forall_forall in *. intros x Hx. apply H; cbn; auto.
  - apply IH. intros; apply H; cbn; auto.
Qed.
Lemma FOP_map {A B} (f : A -> B) (R : B -> B -> Prop) l :
  ForallOrdPairs (fun a b => R (f a) (f b)) l -> ForallOrdPairs R (map f l).
Proof.
  induction 1; cbn; constructor; auto.
  rewrite Forall_forall in *. intros x Hx. apply in_map_iff in Hx. destruct Hx as [y [<- Hy]]. auto.
Qed.
Lemma FOP_perm {A} (R : A -> A -> Prop) l l' :
  (forall a b, R a b -> R b a) -> Permutation l l' -> ForallOrdPairs R l -> ForallOrdPairs R l'.
Proof.
  intros Hs HP; induction HP; intros HF; auto.
  - inversion HF; subst. constructor; auto. eapply Permutation_Forall; eauto.
  - inversion HF as [|? ? Hy Hr]; subst. inversion Hr as [|? ? Hx Hl]; subst.
    inversion Hy; subst. constructor; [constructor; auto|constructor; auto].
Qed.
Lemma FOP_In {A} (R : A -> A -> Prop) l :
  ForallOrdPairs R l -> forall x y, In x l -> In y l -> x = y \/ R x y \/ R y x.
Proof. apply ForallOrdPairs_In. Qed.
Lemma FOP_Forall2 {A B} (Q : A -> A -> Prop) (R : B -> B -> Prop) (S : A -> B -> Prop) l r :
  (forall a a' b b', Q a a' -> S a b -> S a' b' -> R b b') ->
  Forall2 S l r -> ForallOrdPairs Q l -> ForallOrdPairs R r.
Proof.
  intros H HF; induction HF as [|a b l r Hab HF IH]; intros HQ; [constructor|].
  inversion HQ; subst. constructor; auto.
  clear IH HQ H3. induction HF; constructor.
  - inversion H2; subst. eapply H; eauto.
  - inversion H2; subst. auto.
Qed.

Lemma all_some_Forall2 {A B} (f : A -> option B) l r :
  all_some (map f l) = Some r -> Forall2 (fun a b => f a = Some b) l r.
Proof.
  revert r; induction l as [|a l IH]; intros r H; cbn in H.
  - inversion H; constructor.
  - destruct (f a) eqn:E; [|discriminate]. destruct (all_some (map f l)); [|discriminate].
    inversion H; subst. constructor; auto.
Qed.

(* permutations *)
Lemma ins_all_perm {A} (a : A) l p : In p (ins_all a l) -> Permutation p (a :: l).
Proof.
  revert p; induction l as [|b l IH]; intros p H; simpl in H.
  - destruct H as [H|[]]; subst. reflexivity.
  - destruct H as [H|H]; [subst; reflexivity|].
    apply in_map_iff in H. destruct H as [q [<- Hq]]. apply IH in Hq.
    rewrite Hq. apply perm_swap.
Qed.
Lemma perms_perm {A} (l : list A) p : In p (perms l) -> Permutation p l.
Proof.
  revert p; induction l as [|a l IH]; intros p H; simpl in H.
  - destruct H as [H|[]]; subst. reflexivity.
  - apply in_flat_map in H. destruct H as [q [Hq Hp]]. apply ins_all_perm in Hp.
    rewrite Hp. constructor. auto.
Qed.

Lemma collect_In {A B} (f : A -> option (list B)) l : forall acc rs,
  collect f l acc = Some rs ->
  forall r, In r rs -> In r acc \/ exists a rs', In a l /\ f a = Some rs' /\ In r rs'.
Proof.
  induction l as [|a l IH]; intros acc rs H r Hr; cbn [collect] in H.
  - inversion H; subst; auto.
  - destruct (f a) as [rs0|] eqn:E; [|discriminate].
    destruct (cap <? length acc + length rs0); [discriminate|].
    destruct (IH _ _ H r Hr) as [Hin|[a' [rs' [Ha' [Hf Hr']]]]].
    + apply in_app_or in Hin. destruct Hin; auto. right. exists a, rs0. cbn; auto.
    + right. exists a', rs'. cbn; auto.
Qed.

Section Arg.
  Context {N : Num}.
  Lemma argmin_go_lt (l : list (T N)) : forall i best bi, bi < i -> argmin_go l i best bi < i + length l.
  Proof.
    induction l as [|x l IH]; intros i best bi H; cbn; [lia|].
    destruct (isnan best); [lia|].
    destruct (negb (best <=?! x)).
    - specialize (IH (S i) x i ltac:(lia)). lia.
    - specialize (IH (S i) best bi ltac:(lia)). lia.
  Qed.
  Lemma argmin_lt (l : list (T N)) : l <> [] -> argmin l < length l.
  Proof.
    destruct l as [|x l]; [congruence|]. intros _. cbn [argmin length].
    pose proof (argmin_go_lt l 1 x 0 ltac:(lia)). lia.
  Qed.
  Lemma nth_argmin_In {A} (f : A -> T N) (g : list A) d : g <> [] -> In (nth (argmin (map f g)) g d) g.
  Proof.
    intros H. apply nth_In. rewrite <- (map_length f g). apply argmin_lt.
    destruct g; [congruence|cbn; congruence].
  Qed.
End Arg.
