(* Proofs/ExtrasFacts.v — structural theorems about Model/Extras.v (the public functions DESIGN 2.8 lists as unmodelled).
   Tier S (every N : Num, every per-index R2 / slope function, every sorting permutation) unless said otherwise. *)
From Coq Require Import ZArith List Bool Arith Lia Permutation PrimFloat.
From Knee Require Import Num NumFloat NpList OrdLaws Model.Metrics Model.LinearFit Model.Geometry Model.Extras
                         Proofs.ListFacts Proofs.GeometryFacts.
Import ListNotations.
Local Open Scope num_scope.

(* ================================================================================================================
   the three search loops *)
Section LoopFacts.
  Context {N : Num}.
  Variable r2f slf : nat -> T N.
  Variable t : T N.
  Variable same : T N -> T N -> bool.
  Hypothesis same_refl : forall v, same v v = true.

  Local Notation rr := (rr r2f).
  Local Notation gn_loop := (gn_loop r2f slf t).
  Local Notation gn_specb := (gn_specb r2f slf t same).
  Local Notation gnf_loop := (gnf_loop r2f slf t).
  Local Notation gnf_specb := (gnf_specb r2f slf t same).
  Local Notation gnb_loop := (gnb_loop r2f t).

  (* ---------------- get_neighbourhood ---------------- *)
  Lemma gn_specb_intro a b j :
    b <= j -> j <= a - 1 ->
    (forall i, j < i -> i <= a - 1 -> t <?! rr a i = true) ->
    ((t <?! rr a j = true /\ (j = b \/ t <?! rr a (j - 1) = false)) \/ (j = a - 1 /\ t <?! rr a j = false)) ->
    gn_specb a b (j, rr a j, slf j) = 0.
  Proof.
    intros Hb Ha Hall Hmax. unfold Extras.gn_specb.
    assert (E1 : (b <=? j) && (j <=? a - 1) = true)
      by (apply andb_true_iff; split; apply Nat.leb_le; assumption).
    rewrite E1. cbn [negb]. rewrite !same_refl. cbn [andb negb].
    assert (E3 : forallb (fun i => t <?! rr a i) (seq (j + 1) (a - 1 - j)) = true).
    { apply forallb_forall. intros i Hi. apply in_seq in Hi. apply Hall; lia. }
    rewrite E3. cbn [negb].
    assert (E4 : ((t <?! rr a j) && ((j =? b) || negb (t <?! rr a (j - 1))))
                 || ((j =? a - 1) && negb (t <?! rr a j)) = true).
    { apply orb_true_iff. destruct Hmax as [[H1 H2]|[H1 H2]].
      - left. rewrite H1. cbn [andb]. apply orb_true_iff. destruct H2 as [->|H2].
        + left. apply Nat.eqb_refl.
        + right. rewrite H2. reflexivity.
      - right. rewrite H2. subst j. rewrite Nat.eqb_refl. reflexivity. }
    rewrite E4. reflexivity.
  Qed.

  (* what `previous_res` holds while the loop stands at index i *)
  Definition prev_at (a i : nat) : nb_res :=
    if i =? a - 1 then (i, rr a i, slf i) else (i + 1, rr a (i + 1), slf (i + 1)).

  Lemma gn_finish_prev a b i :
    b <= i -> i <= a - 1 ->
    (forall i', i < i' -> i' <= a - 1 -> t <?! rr a i' = true) ->
    t <?! rr a i = false ->
    gn_specb a b (prev_at a i) = 0.
  Proof.
    intros Hb Ha Hall Hno. unfold prev_at. destruct (Nat.eqb_spec i (a - 1)) as [E|E].
    - apply gn_specb_intro; try assumption. right. split; assumption.
    - apply gn_specb_intro; try lia.
      + intros i' H1 H2. apply Hall; lia.
      + left. split; [apply Hall; lia|]. right. replace (i + 1 - 1) with i by lia. exact Hno.
  Qed.

  Lemma gn_loop_spec a b : forall k i,
    i = b + k -> i <= a - 1 ->
    (forall i', i < i' -> i' <= a - 1 -> t <?! rr a i' = true) ->
    gn_specb a b (gn_loop k i (rr a i) (slf i) (prev_at a i)) = 0.
  Proof.
    induction k as [|k IH]; intros i Hi Ha Hall; cbn [Extras.gn_loop].
    - destruct (t <?! rr a i) eqn:E.
      + apply gn_specb_intro; try lia; try assumption. left. split; [exact E|left; lia].
      + apply gn_finish_prev; try lia; assumption.
    - destruct (t <?! rr a i) eqn:E.
      + assert (Hne : (i - 1 =? a - 1) = false) by (apply Nat.eqb_neq; lia).
        assert (Hr : r2f (i - 1) = rr a (i - 1)) by (unfold Extras.rr; rewrite Hne; reflexivity).
        assert (Hp : (i, rr a i, slf i) = prev_at a (i - 1)).
        { unfold prev_at. rewrite Hne. replace (i - 1 + 1) with i by lia. reflexivity. }
        rewrite Hr, Hp. apply IH; try lia.
        intros i' H1 H2. destruct (Nat.eq_dec i' i) as [->|Hn]; [exact E|apply Hall; lia].
      + apply gn_finish_prev; try lia; assumption.
  Qed.

  (* get_neighbourhood: the loop body runs at most a-1-b times (structural recursion on that counter) and the result
     satisfies the specification: an index of [b, a-1] with its own R2 / slope, maximal straight run *)
  Theorem get_nb_spec a b : b <= a - 1 -> gn_specb a b (get_nb r2f slf t a b) = 0.
  Proof.
    intros Hb. unfold get_nb.
    assert (H1 : one = rr a (a - 1)) by (unfold Extras.rr; rewrite Nat.eqb_refl; reflexivity).
    assert (Hp : (a - 1, one, slf (a - 1)) = prev_at a (a - 1)).
    { unfold prev_at. rewrite Nat.eqb_refl. rewrite <- H1. reflexivity. }
    rewrite Hp. rewrite H1 at 1. apply gn_loop_spec; lia.
  Qed.

  Theorem get_nb_range a b : b <= a - 1 ->
    let j := fst (fst (get_nb r2f slf t a b)) in b <= j /\ j <= a - 1.
  Proof.
    intros Hb. pose proof (get_nb_spec a b Hb) as H. destruct (get_nb r2f slf t a b) as [[j r] s]. cbn [fst].
    unfold Extras.gn_specb in H.
    destruct ((b <=? j) && (j <=? a - 1)) eqn:E; [|cbn in H; discriminate].
    apply andb_true_iff in E. destruct E as [E1 E2]. apply Nat.leb_le in E1, E2. split; assumption.
  Qed.

  (* ---------------- get_neighbourhood_binary: termination ---------------- *)
  Lemma absdiff_gt1 i rgt : i <= rgt -> (absdiff i rgt <=? 1) = false -> i + 2 <= rgt.
  Proof. unfold absdiff. intros H E. apply Nat.leb_gt in E. lia. Qed.
  Lemma half_between i rgt : i + 2 <= rgt -> i < (i + rgt) / 2 /\ (i + rgt) / 2 < rgt.
  Proof.
    intros H. pose proof (Nat.div_mod (i + rgt) 2 ltac:(lia)) as D.
    pose proof (Nat.mod_upper_bound (i + rgt) 2 ltac:(lia)). lia.
  Qed.
  Lemma half_low b i : b <= i -> b <= (b + i) / 2 /\ (b + i) / 2 <= i.
  Proof.
    intros H. pose proof (Nat.div_mod (b + i) 2 ltac:(lia)) as D.
    pose proof (Nat.mod_upper_bound (b + i) 2 ltac:(lia)). lia.
  Qed.

  (* the lexicographic measure (right - b, right - i) strictly decreases: fuel above it suffices, for EVERY r2f *)
  Lemma gnb_loop_ok a b (W : nat) : forall fuel i rgt,
    b <= i -> i <= rgt -> rgt <= a -> a <= b + W -> (i <= a - 1 \/ i = b) ->
    (rgt - b) * (W + 1) + (rgt - i) < fuel ->
    exists r, gnb_loop fuel i rgt b = Some r /\ b <= r /\ (r <= a - 1 \/ r = b).
  Proof.
    induction fuel as [|fuel IH]; intros i rgt Hb Hi Hr HW HQ Hf; [exfalso; exact (Nat.nlt_0_r _ Hf)|].
    cbn [Extras.gnb_loop]. destruct (absdiff i rgt <=? 1) eqn:E.
    - exists i. repeat split; assumption.
    - apply absdiff_gt1 in E; [|exact Hi].
      destruct (r2f i <?! t).
      + destruct (half_between i rgt E) as [H1 H2].
        apply IH; try lia.
      + destruct (half_low b i Hb) as [H1 H2].
        apply IH; try lia.
        assert (Hu : (i - b) + 2 <= rgt - b) by lia.
        assert (Hv : i - (b + i) / 2 <= W) by lia.
        nia.
  Qed.

  Theorem gnb_terminates a b : b <= a ->
    exists r, get_nb_binary r2f t a b = Some r /\ b <= r /\ (r <= a - 1 \/ r = b).
  Proof.
    intros Hb. unfold get_nb_binary, gnb_fuel.
    apply (gnb_loop_ok a b (a - b)); lia.
  Qed.
  Corollary gnb_spec a b : b <= a ->
    exists r, get_nb_binary r2f t a b = Some r /\ gnb_specb a b r = 0.
  Proof.
    intros Hb. destruct (gnb_terminates a b Hb) as (r & Hr & H1 & H2). exists r. split; [exact Hr|].
    unfold gnb_specb. apply Nat.leb_le in H1. rewrite H1. cbn [andb].
    destruct H2 as [H2|H2].
    - apply Nat.leb_le in H2. rewrite H2. reflexivity.
    - subst r. rewrite Nat.eqb_refl, orb_true_r. reflexivity.
  Qed.
  (* more fuel never changes the answer *)
  Lemma gnb_loop_mono b : forall fuel i rgt r, gnb_loop fuel i rgt b = Some r -> gnb_loop (S fuel) i rgt b = Some r.
  Proof.
    induction fuel as [|fuel IH]; intros i rgt r H; [discriminate|].
    cbn [Extras.gnb_loop] in H. change (gnb_loop (S (S fuel)) i rgt b) with
      (if absdiff i rgt <=? 1 then Some i
       else if r2f i <?! t then gnb_loop (S fuel) ((i + rgt) / 2) rgt b else gnb_loop (S fuel) ((b + i) / 2) i b).
    destruct (absdiff i rgt <=? 1); [exact H|].
    destruct (r2f i <?! t); apply IH; exact H.
  Qed.

  (* ---------------- get_neighbourhood_fast ---------------- *)
  Lemma gnf_specb_intro a i0 j :
    i0 <= j -> j <= a ->
    (forall i, i0 <= i -> i < j -> r2f i <?! t = true) ->
    (r2f j <?! t = false \/ j = a) ->
    gnf_specb a i0 (j, r2f j, slf j) = 0.
  Proof.
    intros H0 Ha Hall Hend. unfold Extras.gnf_specb.
    assert (E1 : (i0 <=? j) && (j <=? a) = true) by (apply andb_true_iff; split; apply Nat.leb_le; assumption).
    rewrite E1. cbn [negb]. rewrite !same_refl. cbn [andb negb].
    assert (E3 : forallb (fun i => r2f i <?! t) (seq i0 (j - i0)) = true).
    { apply forallb_forall. intros i Hi. apply in_seq in Hi. apply Hall; lia. }
    rewrite E3. cbn [negb].
    assert (E4 : negb (r2f j <?! t) || (j =? a) = true).
    { apply orb_true_iff. destruct Hend as [H|H]; [left; rewrite H; reflexivity|right; apply Nat.eqb_eq; exact H]. }
    rewrite E4. reflexivity.
  Qed.
  Lemma gnf_loop_spec a i0 : forall k i,
    i + k = a -> i0 <= i ->
    (forall i', i0 <= i' -> i' < i -> r2f i' <?! t = true) ->
    gnf_specb a i0 (gnf_loop k i (r2f i) (slf i)) = 0.
  Proof.
    induction k as [|k IH]; intros i Hk H0 Hall; cbn [Extras.gnf_loop].
    - apply gnf_specb_intro; [lia|lia|assumption|right; lia].
    - destruct (r2f i <?! t) eqn:E.
      + apply IH; try lia. intros i' H1 H2. destruct (Nat.eq_dec i' i) as [->|Hn]; [exact E|apply Hall; lia].
      + apply gnf_specb_intro; [lia|lia|assumption|left; exact E].
  Qed.
  (* get_neighbourhood_fast: defined (the binary search terminates), the linear search runs at most a - i0 times, and the
     result is the first window at or after i0 that is not less straight than t (or the single point a) *)
  Theorem get_nb_fast_spec a b : b <= a ->
    exists i0 res, get_nb_binary r2f t a b = Some i0 /\ b <= i0 /\ (i0 <= a - 1 \/ i0 = b) /\
                   get_nb_fast r2f slf t a b = Some res /\ gnf_specb a i0 res = 0.
  Proof.
    intros Hb. destruct (gnb_terminates a b Hb) as (i0 & Hr & H1 & H2).
    exists i0, (gnf_loop (a - i0) i0 (r2f i0) (slf i0)). repeat split; try assumption.
    - unfold get_nb_fast. rewrite Hr. reflexivity.
    - apply gnf_loop_spec; lia.
  Qed.
End LoopFacts.

(* ================================================================================================================
   the public functions *)
Section Public.
  Context {N : Num}.
  Variable same : T N -> T N -> bool.
  Hypothesis same_refl : forall v, same v v = true.
  Local Notation pt := (@pt N).
  Local Notation coef := (@coef N).

  (* evaluation.get_neighbourhood(x, y, a, b, t) for b < a: specification with the library's own end-point fit and linear_r2 *)
  Theorem get_neighbourhood_spec (x y : list (T N)) a b t : b <= a - 1 ->
    gn_specb (seg_r2 x y a) (seg_slope x y a) t same a b (get_neighbourhood x y a b t) = 0.
  Proof. intros H. apply get_nb_spec; assumption. Qed.
  Theorem get_neighbourhood_range (x y : list (T N)) a b t : b <= a - 1 ->
    let j := fst (fst (get_neighbourhood x y a b t)) in b <= j /\ j <= a - 1.
  Proof. intros H. exact (get_nb_range _ _ t (fun _ _ => true) (fun _ => eq_refl) a b H). Qed.
  Theorem get_neighbourhood_binary_terminates (x y : list (T N)) a b t : b <= a ->
    exists r, get_neighbourhood_binary x y a b t = Some r /\ gnb_specb a b r = 0.
  Proof. intros H. apply gnb_spec; assumption. Qed.
  Theorem get_neighbourhood_fast_spec (x y : list (T N)) a b t : b <= a ->
    exists i0 res, get_neighbourhood_binary x y a b t = Some i0 /\ gnb_specb a b i0 = 0 /\
                   get_neighbourhood_fast x y a b t = Some res /\
                   gnf_specb (seg_r2 x y a) (seg_slope x y a) t same a i0 res = 0.
  Proof.
    intros H. destruct (get_nb_fast_spec (seg_r2 x y a) (seg_slope x y a) t same same_refl a b H)
      as (i0 & res & H1 & H2 & H3 & H4 & H5).
    exists i0, res. repeat split; try assumption.
    unfold gnb_specb. apply Nat.leb_le in H2. rewrite H2. cbn [andb]. destruct H3 as [H3|H3].
    - apply Nat.leb_le in H3. rewrite H3. reflexivity.
    - subst i0. rewrite Nat.eqb_refl, orb_true_r. reflexivity.
  Qed.
  (* the *_points wrappers are the same functions of the two columns *)
  Theorem get_neighbourhood_points_eq (P : list pt) a b t :
    get_neighbourhood_points P a b t = get_neighbourhood (xs P) (ys P) a b t.
  Proof. reflexivity. Qed.
  Theorem get_neighbourhood_fast_points_eq (P : list pt) a b t :
    get_neighbourhood_fast_points P a b t = get_neighbourhood_fast (xs P) (ys P) a b t.
  Proof. reflexivity. Qed.

  (* ---------------- accuracy_knee / accuracy_trace ---------------- *)
  (* the knees are visited left to right, each with the previous one as left limit *)
  Fixpoint chain (prev : nat) (knees : list nat) : Prop :=
    match knees with [] => True | k :: ks => prev <= k /\ chain k ks end.
  Lemma ak_rows_total (x y : list (T N)) : forall knees prev, chain prev knees ->
    exists rows, ak_rows x y prev knees = Some rows /\ length rows = length knees.
  Proof.
    induction knees as [|k ks IH]; intros prev Hc; cbn [ak_rows].
    - exists []. split; reflexivity.
    - destruct Hc as [Hp Hc].
      destruct (get_nb_fast_spec (seg_r2 x y k) (seg_slope x y k) t09 (fun _ _ => true) (fun _ => eq_refl) k prev Hp) as (i0 & res & _ & _ & _ & Hf & _).
      change (get_nb_fast (seg_r2 x y k) (seg_slope x y k) t09 k prev) with (get_neighbourhood_fast x y k prev t09) in Hf.
      rewrite Hf. destruct res as [[idx r2] slope]. destruct (IH k Hc) as (rest & Hr & Hl). rewrite Hr.
      eexists. split; [reflexivity|]. cbn [length]. rewrite Hl. reflexivity.
  Qed.
  Lemma at_rows_length (x y : list (T N)) : forall knees prev, length (at_rows x y prev knees) = length knees.
  Proof. induction knees as [|k ks IH]; intros prev; cbn [at_rows length]; [reflexivity|rewrite IH; reflexivity]. Qed.

  (* what "the accuracy heuristic is an average over the knees" means: the five numbers are NumPy means of per-knee lists *)
  Definition is_average_of (clip : bool) (tx ty : T N) (rows : list acc_row) (r : acc_res) : Prop :=
    exists dx dy sl co p : list (T N),
      length dx = length rows /\ length dy = length rows /\ length sl = length rows /\ length co = length rows /\
      length p = length rows /\
      dx = map (fun w => r_dx w /! tx) rows /\ dy = map (fun w => r_dy w /! ty) rows /\
      sl = map (fun w => r_sl w /! np_max (map r_sl rows)) rows /\
      r = (np_mean dx, np_mean dy, np_mean sl, np_mean co, np_mean dx /! np_mean p).
  Lemma zip_with_length (f : T N -> T N -> T N) (u v : list (T N)) : length u = length v -> length (zip_with f u v) = length u.
  Proof. intros H. unfold zip_with. rewrite map_length, combine_length, <- H, Nat.min_id. reflexivity. Qed.
  Lemma acc_finish_average clip tx ty rows : is_average_of clip tx ty rows (acc_finish clip tx ty rows).
  Proof.
    unfold is_average_of, acc_finish.
    set (sl := map (fun s => s /! np_max (map r_sl rows)) (map r_sl rows)).
    set (co1 := map (fun c => c /! np_max (map r_r2 rows)) (map r_r2 rows)).
    set (co := if clip then map (fun c => if c <?! zero then zero else c) co1 else co1).
    set (dx := map (fun r => r_dx r /! tx) rows). set (dy := map (fun r => r_dy r /! ty) rows).
    set (p0 := zip_with (fun s d => s *! d) sl dy).
    set (p := if clip then zip_with (fun q c => q *! c) p0 co else p0).
    assert (Lsl : length sl = length rows) by (unfold sl; rewrite !map_length; reflexivity).
    assert (Lco1 : length co1 = length rows) by (unfold co1; rewrite !map_length; reflexivity).
    assert (Lco : length co = length rows) by (unfold co; destruct clip; [rewrite map_length|]; exact Lco1).
    assert (Ldx : length dx = length rows) by (unfold dx; rewrite map_length; reflexivity).
    assert (Ldy : length dy = length rows) by (unfold dy; rewrite map_length; reflexivity).
    assert (Lp0 : length p0 = length rows) by (unfold p0; rewrite zip_with_length; [exact Lsl|rewrite Lsl, Ldy; reflexivity]).
    assert (Lp : length p = length rows).
    { unfold p; destruct clip; [|exact Lp0]. rewrite zip_with_length; [exact Lp0|rewrite Lp0, Lco; reflexivity]. }
    exists dx, dy, sl, co, p. repeat split; try assumption.
    unfold sl. rewrite map_map. reflexivity.
  Qed.

  Theorem accuracy_knee_average (P : list pt) (knees : list nat) : knees <> [] -> chain 0 knees ->
    exists rows r, ak_rows (xs P) (ys P) 0 knees = Some rows /\ length rows = length knees /\
                   accuracy_knee P knees = Some r /\
                   is_average_of false (total_of (xs P)) (total_of (ys P)) rows r.
  Proof.
    intros Hne Hc. destruct (ak_rows_total (xs P) (ys P) knees 0 Hc) as (rows & Hr & Hl).
    exists rows, (acc_finish false (total_of (xs P)) (total_of (ys P)) rows). repeat split; try assumption.
    - unfold accuracy_knee. destruct knees; [contradiction|]. rewrite Hr. reflexivity.
    - apply acc_finish_average.
  Qed.
  Theorem accuracy_trace_average (P : list pt) (knees : list nat) : knees <> [] ->
    let rows := at_rows (xs P) (ys P) 0 knees in
    length rows = length knees /\
    exists r, accuracy_trace P knees = Some r /\ is_average_of true (total_of (xs P)) (total_of (ys P)) rows r.
  Proof.
    intros Hne rows. split; [apply at_rows_length|].
    exists (acc_finish true (total_of (xs P)) (total_of (ys P)) rows). split.
    - unfold accuracy_trace. destruct knees; [contradiction|]. reflexivity.
    - apply acc_finish_average.
  Qed.
  Theorem accuracy_empty (P : list pt) : accuracy_knee P [] = None /\ accuracy_trace P [] = None.
  Proof. split; reflexivity. Qed.

  (* ---------------- slope_ranking ---------------- *)
  Lemma sr_keys_length (x y : list (T N)) t : forall knees prev, length (sr_keys x y t prev knees) = length knees.
  Proof. induction knees as [|k ks IH]; intros prev; cbn [sr_keys length]; [reflexivity|rewrite IH; reflexivity]. Qed.

  Lemma nat_max_ge l : forall v, In v l -> v <= nat_max l.
  Proof.
    induction l as [|a l IH]; intros v H; [contradiction|]. cbn [nat_max fold_right]. fold (nat_max l).
    destruct H as [->|H]; [lia|]. specialize (IH v H). lia.
  Qed.
  Lemma nat_max_in l : l <> [] -> In (nat_max l) l.
  Proof.
    induction l as [|a l IH]; intros H; [contradiction|]. cbn [nat_max fold_right]. destruct l as [|b l'].
    - left. cbn. lia.
    - specialize (IH ltac:(discriminate)). fold (nat_max (b :: l')).
      destruct (Nat.max_spec a (nat_max (b :: l'))) as [[_ E]|[_ E]]; rewrite E; [right; exact IH|left; reflexivity].
  Qed.
  Lemma nat_min_aux d l : forall v, In v l -> fold_right Nat.min d l <= v.
  Proof.
    induction l as [|a l IH]; intros v H; [contradiction|]. cbn [fold_right].
    destruct H as [->|H]; [lia|]. specialize (IH v H). lia.
  Qed.
  Lemma nat_min_le l : forall v, In v l -> nat_min l <= v.
  Proof. intros v H. unfold nat_min. apply nat_min_aux. exact H. Qed.
  Lemma perm_seq_minmax r m : 1 <= m -> Permutation r (seq 0 m) -> nat_min r = 0 /\ nat_max r = m - 1.
  Proof.
    intros Hm Hp. split.
    - assert (In 0 r) by (apply (Permutation_in _ (Permutation_sym Hp)); apply in_seq; lia).
      pose proof (nat_min_le r 0 H). lia.
    - assert (Hin : In (m - 1) r) by (apply (Permutation_in _ (Permutation_sym Hp)); apply in_seq; lia).
      pose proof (nat_max_ge r (m - 1) Hin).
      assert (Hne : r <> []) by (intros ->; contradiction).
      pose proof (Permutation_in _ Hp (nat_max_in r Hne)) as H2. apply in_seq in H2. lia.
  Qed.

  (* for EVERY permutation that np.argsort may return on the keys: one rank per knee, the ranks are the inverse permutation
     (a permutation of 0..m-1 that orders the keys, C17_rank_perm) and the result is rank / (m-1) *)
  Theorem slope_ranking_of_spec (keys : list (T N)) (temp : list nat) : 2 <= length keys -> sorts keys temp ->
    let ranks := rank_of_perm temp in
    @slope_ranking_of N temp = map (fun v => ofN v /! ofN (length keys - 1)) ranks /\
    length (@slope_ranking_of N temp) = length keys /\
    Permutation ranks (seq 0 (length keys)) /\
    sr_okb same keys ranks (@slope_ranking_of N temp) = true.
  Proof.
    intros Hm Hs ranks. destruct (rank_perm keys temp Hs) as (Hlen & _ & Hp & _). fold ranks in Hlen, Hp.
    destruct (perm_seq_minmax ranks (length keys) ltac:(lia) Hp) as [Hmin Hmax].
    assert (E : @slope_ranking_of N temp = map (fun v => ofN v /! ofN (length keys - 1)) ranks).
    { unfold Extras.slope_ranking_of, minmax_norm. fold ranks. rewrite Hmin, Hmax. apply map_ext. intros v.
      rewrite !Nat.sub_0_r. reflexivity. }
    split; [exact E|]. split; [rewrite E, map_length; exact Hlen|]. split; [exact Hp|].
    unfold Extras.sr_okb. pose proof (rank_okb_holds keys temp Hs) as Hok. fold ranks in Hok. rewrite Hok. cbn [andb]. rewrite E, map_length, Nat.eqb_refl. cbn [andb].
    apply forallb_forall. intros [o v] Hin. cbn [fst snd]. rewrite Hlen.
    assert (Ho : o = ofN v /! ofN (length keys - 1)).
    { clear - Hin. induction ranks as [|a l IH]; cbn in Hin; [contradiction|].
      destruct Hin as [Hin|Hin]; [inversion Hin; reflexivity|apply IH; exact Hin]. }
    rewrite Ho. apply same_refl.
  Qed.
  Lemma argsort_stable_length (a : list (T N)) : length (argsort_stable a) = length a.
  Proof.
    unfold argsort_stable. rewrite map_length.
    rewrite (Permutation_length (sort_by_perm _ _)), combine_length, seq_length, Nat.min_id. reflexivity.
  Qed.
  Theorem slope_ranking_length (P : list pt) (knees : list nat) t r :
    slope_ranking P knees t = Some r -> length r = length knees.
  Proof.
    unfold slope_ranking. destruct knees as [|k [|k2 ks]]; intros H; [discriminate|inversion H; reflexivity|].
    remember (k :: k2 :: ks) as kn. inversion H; subst r.
    unfold Extras.slope_ranking_of, minmax_norm, rank_of_perm. rewrite !map_length, seq_length.
    rewrite argsort_stable_length. apply sr_keys_length.
  Qed.
  Theorem slope_ranking_small (P : list pt) t k :
    slope_ranking P [] t = None /\ slope_ranking P [k] t = Some [one].
  Proof. split; reflexivity. Qed.

  (* ---------------- linear_hv_residuals / linear_fit_transform ---------------- *)
  Theorem linear_hv_residuals_choice (x y : list (T N)) :
    (linear_hv_residuals x y = hv_yres x y /\ hv_yres x y <=?! hv_xres x y = true) \/
    (linear_hv_residuals x y = hv_xres x y /\ hv_yres x y <=?! hv_xres x y = false).
  Proof. unfold linear_hv_residuals. destruct (hv_yres x y <=?! hv_xres x y); [left|right]; split; reflexivity. Qed.

  (* the vertical fit returns the axis / fitted values whose residual is the one linear_hv_residuals returns *)
  Theorem linear_fit_transform_vertical (x y : list (T N)) :
    exists ax fit, linear_fit_transform x y true = (Some ax, fit) /\
                   residuals ax fit = linear_hv_residuals x y /\
                   ((ax = y /\ fit = linear_transform x (linear_fit x y)) \/ (ax = x /\ fit = linear_transform y (linear_fit y x))).
  Proof.
    unfold linear_fit_transform, linear_hv_residuals. destruct (hv_yres x y <=?! hv_xres x y).
    - exists y, (linear_transform x (linear_fit x y)). split; [reflexivity|]. split; [reflexivity|left; split; reflexivity].
    - exists x, (linear_transform y (linear_fit y x)). split; [reflexivity|]. split; [reflexivity|right; split; reflexivity].
  Qed.
  Lemma linear_transform_length (x : list (T N)) c : length (linear_transform x c) = length x.
  Proof. unfold linear_transform. destruct c. apply map_length. Qed.
  Theorem linear_fit_transform_shape (x y : list (T N)) v : length x = length y ->
    let '(ax, fit) := linear_fit_transform x y v in
    length fit = length x /\ match ax with None => v = false | Some a => v = true /\ length a = length x end.
  Proof.
    intros Hl. unfold linear_fit_transform. destruct v.
    - destruct (hv_yres x y <=?! hv_xres x y); rewrite linear_transform_length; repeat split; congruence.
    - rewrite linear_transform_length. split; reflexivity.
  Qed.
  Theorem linear_fit_transform_horizontal (x y : list (T N)) :
    linear_fit_transform x y false = (None, linear_transform x (linear_fit x y)).
  Proof. reflexivity. Qed.

  (* ---------------- angle ---------------- *)
  Theorem angle_defined (atan : T N -> T N) (pyfloat : bool) (c1 c2 : coef) :
    (angle atan pyfloat c1 c2 = None <-> (pyfloat = true /\ (one +! snd c1 *! snd c2) =?! zero = true)) /\
    (forall v, angle atan pyfloat c1 c2 = Some v -> v = atan ((snd c1 -! snd c2) /! (one +! snd c1 *! snd c2))).
  Proof.
    unfold angle. destruct pyfloat; cbn [andb].
    - destruct ((one +! snd c1 *! snd c2) =?! zero); split; try (split; [intros; try discriminate; auto|intros [_ H]; try discriminate; auto]);
        intros v H; inversion H; reflexivity.
    - split; [split; [discriminate|intros [H _]; discriminate]|]. intros v H; inversion H; reflexivity.
  Qed.
End Public.

(* Tier O: on values that form a total preorder (non-NaN doubles, reals) linear_hv_residuals is the smaller residual *)
Section HvOrder.
  Context {N : Num}.
  Variable P : T N -> Prop.
  Hypothesis HP : TotalPreorderOn P.
  Variable same : T N -> T N -> bool.
  Hypothesis same_refl : forall v, same v v = true.

  Theorem linear_hv_residuals_min (x y : list (T N)) : P (hv_yres x y) -> P (hv_xres x y) ->
    linear_hv_residuals x y <=?! hv_yres x y = true /\ linear_hv_residuals x y <=?! hv_xres x y = true /\
    hv_okb same x y (linear_hv_residuals x y) = true.
  Proof.
    intros Py Px. unfold hv_okb, linear_hv_residuals. destruct (hv_yres x y <=?! hv_xres x y) eqn:E.
    - rewrite (ord_refl P HP _ Py), E, same_refl. repeat split; reflexivity.
    - destruct (ord_total P HP _ _ Py Px) as [H|H]; [congruence|].
      rewrite (ord_refl P HP _ Px), H, same_refl, orb_true_r. repeat split; reflexivity.
  Qed.
End HvOrder.

(* the judge's equality on doubles (bit for bit up to NaN payloads and the sign of zero) is reflexive: the `same` of the theorems above *)
Lemma f_same_refl : forall v : float, f_same v v = true.
Proof. intros v. unfold f_same, f_isnan. destruct (PrimFloat.eqb v v); reflexivity. Qed.
