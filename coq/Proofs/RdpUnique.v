(* Proofs/RdpUnique.v — the C04 predicate characterises the output: a well-formed index list that is explained
   (Expl) is THE recursive partition, i.e. equals what the model returns.  So `holds` on the implementation's
   output implies agreement with the model. *)
From Coq Require Import List Arith Bool Lia Permutation.
From Knee Require Import Num NpList Model.Mapping Model.Rdp Proofs.ListFacts Proofs.MappingFacts Proofs.SegFacts Proofs.RdpFacts.
Import ListNotations.

Section Unique.
  Context {N : Num}.
  Variable dist : nat -> nat -> list (T N).
  Variable segcost : nat -> nat -> T N.
  Variable r2 : bool.
  Variable t : T N.
  Local Notation Expl := (Expl dist segcost r2 t).

  (* two explained sets coincide strictly inside the range *)
  Lemma expl_same_inside S S' l r : Expl S l r -> Expl S' l r ->
    forall x, l < x < r -> (In x S <-> In x S').
  Proof.
    intros H. revert S'. induction H as [l r Hn Hc|l r i H2 Hc Hi Hlt Hin _ IH1 _ IH2]; intros S' H' x Hx.
    - inversion H' as [? ? Hn' Hc'|? ? i' H2' Hc' Hi' Hlt' Hin' _ _]; subst.
      + split; intros Hin; exfalso; [eapply Hn|eapply Hn']; eauto.
      + destruct Hc as [Hc|Hc]; [lia|congruence].
    - inversion H' as [? ? Hn' Hc'|? ? i' H2' Hc' Hi' Hlt' Hin' HA HB]; subst.
      + destruct Hc' as [Hc'|Hc']; [lia|congruence].
      + destruct (lt_eq_lt_dec x (l + split (dist l (r + 1)))) as [[Hl|He]|Hg].
        * apply (IH1 S' HA x). lia.
        * subst x. tauto.
        * apply (IH2 S' HB x). lia.
  Qed.

  Lemma SI_same_elements (l1 l2 : list nat) : SI l1 -> SI l2 -> (forall x, In x l1 <-> In x l2) -> l1 = l2.
  Proof.
    intros H1 H2 H. apply SI_perm_eq; auto. apply NoDup_Permutation; auto using SI_NoDup.
  Qed.

  Lemma WF_ends n S : WF n S -> In 0 S /\ In (n - 1) S /\ forall x, In x S -> x <= n - 1.
  Proof.
    intros (HS & H0 & HL & Hlen). destruct S as [|a S]; [cbn in Hlen; lia|]. cbn [hd] in H0. subst a.
    split; [left; reflexivity|]. split.
    - rewrite <- HL. clear. generalize 0 at 1 3. induction S as [|b S IH]; intros a; [left; reflexivity|].
      right. change (last (a :: b :: S) 0) with (last (b :: S) 0). apply IH.
    - intros x Hx. rewrite <- HL. apply SI_le_last; auto.
  Qed.

  Theorem expl_unique n S S' : WF n S -> WF n S' -> Expl S 0 (n - 1) -> Expl S' 0 (n - 1) -> S = S'.
  Proof.
    intros HW HW' HE HE'.
    destruct (WF_ends n S HW) as (A0 & An & Ale). destruct (WF_ends n S' HW') as (B0 & Bn & Ble).
    apply SI_same_elements; [apply HW|apply HW'|].
    intros x. destruct (Nat.eq_dec x 0) as [->|Hx0]; [tauto|].
    destruct (Nat.eq_dec x (n - 1)) as [->|Hxn]; [tauto|].
    split; intros Hin.
    - apply (expl_same_inside S S' 0 (n - 1) HE HE' x); auto. specialize (Ale x Hin). lia.
    - apply (expl_same_inside S S' 0 (n - 1) HE HE' x); auto. specialize (Ble x Hin). lia.
  Qed.

  (* the judged predicate pins the output down: whatever passes C04_code is the model's output *)
  Theorem C04_code_unique n :
    curved r2 t (trivial_cost r2) = false ->
    (forall l r, l + 3 <= r -> r <= n -> length (dist l r) = r - l) ->
    2 <= n ->
    forall red rem, C04_code dist segcost r2 t n (Some (red, rem)) = 0 ->
    exists vis, rdp dist segcost r2 t n = Some (red, rem, vis).
  Proof.
    intros Hdom Hshape Hn red rem H.
    destruct (rdp_total dist segcost r2 t n Hdom Hshape Hn) as (mred & mrem & vis & Heq & _ & HW & -> & _).
    destruct (rdp_split_explained dist segcost r2 t n Hdom Hshape Hn _ _ _ Heq) as [HE _].
    unfold C04_code in H.
    destruct (WFb n red) eqn:E1; cbn [negb] in H; [|discriminate].
    destruct (rows_eqb rem (rows red)) eqn:E2; cbn [negb] in H; [|discriminate].
    destruct (kept_fitb segcost r2 t red) eqn:E3; cbn [negb] in H; [|discriminate].
    destruct (explb dist segcost r2 t n red 0 (n - 1)) eqn:E4; cbn [negb] in H; [|discriminate].
    apply WFb_iff in E1. apply rows_eqb_eq in E2. apply explb_sound in E4. subst rem.
    assert (red = mred) by (eapply expl_unique; eauto). subst mred.
    exists vis. exact Heq.
  Qed.
End Unique.
