(* Proofs/GlobalCostReal.v — C15, Tier A (real arithmetic, RNum): sign, the all-breakpoints value,
   global RMSE = RMSE against the linear interpolation through the breakpoints. *)
From Coq Require Import Reals ZArith List Arith Bool Lia Lra.
From Knee Require Import Num NumR NpList Model.GlobalCost Proofs.ListFacts Proofs.NpSumR Proofs.GlobalCostFacts.
Import ListNotations.
Local Open Scope R_scope.

Definition rpt := (R * R)%type.

(* ---------------------------------------------------------------------------------------------- *)
(* sign and the all-breakpoints value *)

Theorem gcost_nonneg_R n (segerr : nat -> nat -> R) (tss : R) m (c : @cache RNum) red :
  0 <= fst (@gcost RNum n segerr tss m c red).
Proof.
  pose proof (@gcost_nonneg RNum n segerr tss m c red) as H.
  apply Rltb_false. apply H. apply Rltb_false. cbn. lra.
Qed.

Lemma Rsum_repeat0 k : Rsum (repeat 0 k) = 0.
Proof. induction k; cbn; lra. Qed.

Lemma clip_R (x : R) : 0 <= x -> @clip RNum x = x.
Proof. intros H. unfold clip. change (@ltb RNum x zero) with (Rltb x 0). apply Rltb_false in H. rewrite H. reflexivity. Qed.

(* gcost_all_breakpoints: every point a breakpoint => cost 0, and 1 for R2 — for every oracle valuation *)
Theorem gcost_all_breakpoints_R n (segerr : nat -> nat -> R) (tss : R) m :
  @gcost_fresh RNum n segerr tss m (seq 0 n) = match m with MR2 => 1 | _ => 0 end.
Proof.
  rewrite gcost_def. unfold gcost_spec. rewrite seg_values_all_points, np_sum_R.
  change (@zero RNum) with 0. rewrite Rsum_repeat0.
  unfold finish, finish_raw.
  destruct m.
  - change (@eqb RNum tss zero) with (Reqb tss 0). change (@one RNum) with 1. change (@sub RNum) with Rminus. change (@div RNum) with Rdiv.
    destruct (Reqb tss 0); [|unfold Rdiv; rewrite Rmult_0_l]; rewrite Rminus_0_r; apply clip_R; lra.
  - change (@div RNum) with Rdiv. change (@sqrt RNum) with R_sqrt.sqrt. unfold Rdiv. rewrite Rmult_0_l, sqrt_0. apply clip_R; lra.
  - change (@div RNum) with Rdiv. change (@sqrt RNum) with R_sqrt.sqrt. unfold Rdiv. rewrite Rmult_0_l, sqrt_0. apply clip_R; lra.
  - change (@div RNum) with Rdiv. unfold Rdiv. rewrite Rmult_0_l. apply clip_R; lra.
  - change (@div RNum) with Rdiv. unfold Rdiv. rewrite Rmult_0_l. apply clip_R; lra.
Qed.

(* ---------------------------------------------------------------------------------------------- *)
(* slices as index ranges *)

Lemma firstn_map_nth {A} (d : A) : forall k (l : list A), (k <= length l)%nat ->
  firstn k l = map (fun i => nth i l d) (seq 0 k).
Proof.
  induction k as [|k IH]; intros l Hk; [reflexivity|].
  destruct l as [|a l]; [cbn in Hk; lia|]. cbn [firstn seq map nth]. f_equal.
  rewrite <- seq_shift, map_map. cbn [nth]. apply IH. cbn in Hk; lia.
Qed.
Lemma slice_map_nth {A} (d : A) : forall l k (pts : list A), (l + k <= length pts)%nat ->
  firstn k (skipn l pts) = map (fun i => nth i pts d) (seq l k).
Proof.
  induction l as [|l IH]; intros k pts H.
  - cbn [skipn]. apply firstn_map_nth. lia.
  - destruct pts as [|a pts]; [cbn in H; lia|]. cbn [skipn]. rewrite <- seq_shift, map_map. cbn [nth].
    apply IH. cbn in H; lia.
Qed.

Lemma last_default {A} (l : list A) a d : last (a :: l) d = last l a.
Proof.
  revert a d; induction l as [|b l IH]; intros a d; [reflexivity|].
  change (last (a :: b :: l) d) with (last (b :: l) d). rewrite (IH b d), (IH b a). reflexivity.
Qed.
Lemma SI_head_le_last a l : SI (a :: l) -> (a <= last l a)%nat.
Proof.
  intros HS. pose proof (SI_le_last (a :: l) a a HS (or_introl eq_refl)) as H. rewrite last_default in H. exact H.
Qed.

Section Interp.
  Variable pts : list rpt.
  Notation X i := (@px RNum pts i).
  Notation Y i := (@py RNum pts i).
  Let d0 : rpt := (0, 0).

  Lemma segment_seq l r : (l <= r < length pts)%nat ->
    @segment_of RNum pts l r = map (fun i => nth i pts d0) (seq l (S (r - l))).
  Proof.
    intros H. unfold segment_of, slice. replace (r + 1 - l)%nat with (S (r - l)) by lia.
    apply (slice_map_nth d0 l (S (r - l)) pts). destruct H. lia.
  Qed.

  (* the end-point fit of points[l:r+1], in closed form *)
  Definition fitR (l r : nat) : R * R :=
    let m := (Y l - Y r) / (X l - X r) in (Y l - m * X l, m).

  Lemma endpoint_fit_R l r : (l <= r < length pts)%nat -> X l <> X r ->
    @endpoint_fit RNum (@segment_of RNum pts l r) = fitR l r.
  Proof.
    intros H Hx. rewrite segment_seq by exact H. cbn [seq map]. unfold endpoint_fit.
    set (h := fun i => nth i pts d0).
    assert (Hlast : @last (@pt RNum) (h l :: map h (seq (S l) (r - l))) (h l) = h r).
    { change (h l :: map h (seq (S l) (r - l))) with (map h (seq l (S (r - l)))).
      rewrite seq_S, map_app. cbn [map]. rewrite last_last. f_equal. lia. }
    change (nth l pts d0) with (h l). rewrite Hlast.
    change (fst (h l)) with (X l). change (snd (h l)) with (Y l). change (fst (h r)) with (X r). change (snd (h r)) with (Y r).
    change (@eqb RNum) with Reqb. change (@sub RNum) with Rminus. change (@zero RNum) with 0.
    assert (E : Reqb (X l - X r) 0 = false) by (apply Reqb_false; lra). rewrite E. reflexivity.
  Qed.

  (* the line of segment (l, r) *)
  Definition lineR (l r : nat) (x : R) : R := @line_at RNum (fitR l r) x.

  (* the line passes through both breakpoints: it IS the linear interpolation between them *)
  Lemma line_left l r : lineR l r (X l) = Y l.
  Proof. unfold lineR, line_at, fitR. cbn [fst snd]. change (@add RNum) with Rplus. change (@mul RNum) with Rmult. ring. Qed.
  Lemma line_right l r : X l <> X r -> lineR l r (X r) = Y r.
  Proof.
    intros H. unfold lineR, line_at, fitR. cbn [fst snd]. change (@add RNum) with Rplus. change (@mul RNum) with Rmult.
    field. lra.
  Qed.

  (* squared residual of point i against the line of (l, r) *)
  Definition res2 (l r i : nat) : R := (Y i - lineR l r (X i)) * (Y i - lineR l r (X i)).

  Lemma sqerr_formula_R l r : (l <= r < length pts)%nat -> X l <> X r ->
    @sqerr_formula RNum pts l r = Rsum (map (res2 l r) (seq l (S (r - l)))).
  Proof.
    intros H Hx. unfold sqerr_formula. rewrite np_sum_R, endpoint_fit_R by assumption.
    rewrite segment_seq by exact H. rewrite map_map. reflexivity.
  Qed.

  (* x strictly increasing *)
  Definition xs_increasing : Prop := forall i j, (i < j < length pts)%nat -> X i < X j.

  Lemma interp_go_gt : forall rest lft i, SI (lft :: rest) -> (last rest lft < i)%nat ->
    @interp_go RNum pts lft rest i = Y i.
  Proof.
    induction rest as [|rgt rest IH]; intros lft i HS Hi; cbn [interp_go]; auto.
    rewrite last_default in Hi.
    assert (Hle : (rgt <= last rest rgt)%nat) by (apply SI_head_le_last; eapply SI_tl; eauto).
    assert (Hi' : (last rest rgt < i)%nat) by exact Hi.
    destruct (i <=? rgt)%nat eqn:E; [apply Nat.leb_le in E; lia|].
    apply IH; [eapply SI_tl; eauto|exact Hi'].
  Qed.

  (* the value of the interpolation at a breakpoint that starts the remaining chain *)
  Lemma interp_go_at_left rest lft : SI (lft :: rest) -> (last rest lft < length pts)%nat -> xs_increasing ->
    @interp_go RNum pts lft rest lft = Y lft.
  Proof.
    intros HS Hl Hx. destruct rest as [|rgt rest]; cbn [interp_go]; auto.
    assert (Hlt : (lft < rgt)%nat) by (cbn in HS; tauto).
    assert (E : (lft <=? rgt)%nat = true) by (apply Nat.leb_le; lia). rewrite E.
    assert (Hr : (rgt < length pts)%nat).
    { rewrite last_default in Hl. pose proof (SI_head_le_last rgt rest (SI_tl _ _ HS)). lia. }
    rewrite endpoint_fit_R; [apply line_left|lia|]. apply Rlt_not_eq. apply Hx. lia.
  Qed.

  (* the accumulated segment errors = the sum over every point (once) of its squared distance to the interpolation *)
  Lemma seg_sum_interp : forall rest lft,
    SI (lft :: rest) -> (last rest lft < length pts)%nat -> xs_increasing ->
    Rsum (map (fun k => @sqerr_formula RNum pts (fst k) (snd k)) (seg_pairs lft rest)) =
    Rsum (map (fun i => (Y i - @interp_go RNum pts lft rest i) * (Y i - @interp_go RNum pts lft rest i))
              (seq lft (S (last rest lft - lft)))).
  Proof.
    induction rest as [|rgt rest IH]; intros lft HS Hl Hx.
    - cbn [seg_pairs map Rsum last interp_go]. rewrite Nat.sub_diag. cbn. lra.
    - assert (Hlt : (lft < rgt)%nat) by (cbn in HS; tauto).
      assert (HS' : SI (rgt :: rest)) by (eapply SI_tl; eauto).
      assert (HL : last (rgt :: rest) lft = last rest rgt) by apply last_default.
      assert (Hle : (rgt <= last rest rgt)%nat) by (apply SI_head_le_last; exact HS').
      assert (Hl' : (last rest rgt < length pts)%nat) by (rewrite <- HL; exact Hl).
      cbn [seg_pairs map Rsum fst snd].
      rewrite (IH rgt HS' Hl' Hx).
      rewrite sqerr_formula_R; [|lia|apply Rlt_not_eq; apply Hx; lia].
      rewrite HL.
      (* split the point range at rgt *)
      replace (S (last rest rgt - lft)) with (S (rgt - lft) + (last rest rgt - rgt))%nat by lia.
      rewrite seq_app, map_app, Rsum_app.
      replace (lft + S (rgt - lft))%nat with (S rgt) by lia.
      (* left part: the line of (lft, rgt) *)
      assert (HA : Rsum (map (fun i => (Y i - @interp_go RNum pts lft (rgt :: rest) i) * (Y i - @interp_go RNum pts lft (rgt :: rest) i))
                             (seq lft (S (rgt - lft)))) = Rsum (map (res2 lft rgt) (seq lft (S (rgt - lft))))).
      { apply Rsum_map_ext. intros i Hi. apply in_seq in Hi. cbn [interp_go].
        assert (E : (i <=? rgt)%nat = true) by (apply Nat.leb_le; lia). rewrite E.
        rewrite endpoint_fit_R; [reflexivity|lia|apply Rlt_not_eq; apply Hx; lia]. }
      rewrite HA.
      (* right part: beyond rgt the chain (rgt :: rest) decides; its own term at rgt vanishes *)
      assert (HB : Rsum (map (fun i => (Y i - @interp_go RNum pts lft (rgt :: rest) i) * (Y i - @interp_go RNum pts lft (rgt :: rest) i))
                             (seq (S rgt) (last rest rgt - rgt))) =
                   Rsum (map (fun i => (Y i - @interp_go RNum pts rgt rest i) * (Y i - @interp_go RNum pts rgt rest i))
                             (seq (S rgt) (last rest rgt - rgt)))).
      { apply Rsum_map_ext. intros i Hi. apply in_seq in Hi. cbn [interp_go].
        assert (E : (i <=? rgt)%nat = false) by (apply Nat.leb_gt; lia). rewrite E. reflexivity. }
      rewrite HB.
      cbn [seq map Rsum]. rewrite (interp_go_at_left rest rgt HS' Hl' Hx). lra.
  Qed.

  (* grmse_is_rmse_of_interpolation *)
  Theorem grmse_is_rmse_of_interpolation red :
    SI red -> hd 1%nat red = 0%nat -> last red 0%nat = (length pts - 1)%nat -> (1 <= length pts)%nat ->
    xs_increasing ->
    @grmse_closed RNum pts red = @rmse_interp RNum pts red.
  Proof.
    intros HS H0 HL Hn Hx. unfold grmse_closed. rewrite grmse_def. unfold grmse_spec, rmse_interp.
    rewrite !np_sum_R. f_equal. f_equal.
    destruct red as [|lft rest]; [cbn in H0; lia|]. cbn [hd] in H0. subst lft.
    unfold seg_values. cbn [segments interp].
    rewrite last_default in HL.
    rewrite seg_sum_interp; [|exact HS|lia|exact Hx].
    rewrite HL, Nat.sub_0_r. replace (S (length pts - 1)) with (length pts) by lia.
    unfold sq. reflexivity.
  Qed.
End Interp.
