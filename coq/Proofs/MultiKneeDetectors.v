(* Proofs/MultiKneeDetectors.v — C02 per-detector corollaries: the range hypothesis `knee_in_range` of the multi-knee
   theorems is discharged from the C09 range lemmas of the single-knee detector models (Model/Detectors.v,
   Proofs/DetectorsFacts.v) and, for Kneedle, from the peak model of Model/Uts.v.  The criterion arrays the detector
   models take (curvature array, gradient + ISODATA thresholds, Menger curvatures, L-method error table, Kneedle's
   difference curve) are oracles keyed by the slice (l, r); the only hypotheses are their shapes. *)
From Coq Require Import List Arith Bool Lia.
From Knee Require Import Num NumFloat NpList OrdLaws Model.Uts Model.Detectors Proofs.ArgFacts Proofs.DetectorsFacts
                         Proofs.ListFacts Model.MultiKnee Proofs.MultiKneeFacts.
Import ListNotations.

Section Detectors.
  Context {N : Num}.
  Variables t2 n : nat.

  (* curvature.knee: argmax(curvature[1:-1]) + 1 *)
  Lemma curvature_in_range (curv : nat -> nat -> list (T N)) :
    (forall l r, r <= n -> t2 < r - l -> length (curv l r) = r - l) ->
    knee_in_range (fun l r => curvature_knee (curv l r)) t2 1 n.
  Proof.
    intros Hlen l r k Hr Ht Hk. apply curvature_knee_interior in Hk. rewrite (Hlen l r Hr Ht) in Hk. exact Hk.
  Qed.

  (* dfdt.knee: the refinement loop over |gradient - isodata| *)
  Lemma dfdt_in_range (grad : nat -> nat -> list (T N)) (iso : nat -> nat -> nat -> option (T N)) :
    (forall l r, r <= n -> t2 < r - l -> length (grad l r) = r - l) ->
    knee_in_range (fun l r => dfdt_knee (grad l r) (iso l r)) t2 1 n.
  Proof.
    intros Hlen l r k Hr Ht Hk. apply dfdt_knee_interior in Hk. rewrite (Hlen l r Hr Ht) in Hk. exact Hk.
  Qed.

  (* menger.knee: argmax([0] + curvatures + [0]); Tier O (the trailing 0 loses only against an ordered best) *)
  Lemma menger_in_range (mc : nat -> nat -> list (T N)) :
    TotalPreorderOn (@notnan N) -> isnan (@zero N) = false ->
    (forall l r, r <= n -> t2 < r - l -> length (mc l r) + 2 = r - l) ->
    knee_in_range (fun l r => menger_knee (mc l r)) t2 0 n.
  Proof.
    intros HO Hz Hlen l r k Hr Ht Hk. apply (menger_knee_interior HO Hz) in Hk. rewrite (Hlen l r Hr Ht) in Hk. exact Hk.
  Qed.

  (* lmethod.knee: needs slices of at least 4 points, i.e. t2 >= 3 (on 3 points the code returns the last index) *)
  Lemma lmethod_in_range (lerr : nat -> nat -> nat -> nat -> oval (T N)) it limit :
    3 <= t2 ->
    knee_in_range (fun l r => lmethod_knee (r - l) (lerr l r) it limit) t2 1 n.
  Proof. intros H3 l r k Hr Ht Hk. apply lmethod_knee_interior in Hk; [exact Hk|lia]. Qed.

  (* kneedle.knee: the highest strict peak of the difference curve, or None *)
  Lemma true_indices_range (bs : list bool) : forall i p, In p (true_indices i bs) -> i <= p < i + length bs.
  Proof.
    induction bs as [|b bs IH]; intros i p Hin; cbn [true_indices] in Hin; [destruct Hin|].
    cbn [length]. destruct b.
    - destruct Hin as [<-|Hin]; [lia|]. apply IH in Hin. lia.
    - apply IH in Hin. lia.
  Qed.
  Lemma win3_length {A B} (f : A -> A -> A -> B) (l : list A) : length (win3 f l) = length l - 2.
  Proof.
    induction l as [|a l IH]; [reflexivity|]. cbn [win3]. destruct l as [|b [|c l']]; [reflexivity|reflexivity|].
    cbn [length]. rewrite IH. cbn [length]. lia.
  Qed.
  Lemma all_peaks_interior (ys : list (T N)) p : In p (all_peaks ys) -> 1 <= p /\ p + 2 <= length ys.
  Proof.
    unfold all_peaks. intros Hin. apply true_indices_range in Hin. rewrite win3_length in Hin.
    destruct (length ys) as [|[|m]]; cbn in Hin; lia.
  Qed.
  Lemma highest_peak_in (ys : list (T N)) peaks k : highest_peak ys peaks = Some k -> In k peaks.
  Proof.
    intros H.
    assert (Hk : k = nth (argmax (map (fun i => nth i ys zero) peaks)) peaks 0 /\ peaks <> []).
    { unfold highest_peak in H. destruct peaks; [discriminate|]. split; [congruence|discriminate]. }
    destruct Hk as [-> Hne]. apply nth_In. rewrite <- (map_length (fun i => nth i ys zero) peaks).
    apply argmax_lt. intros E. apply Hne. destruct peaks; [reflexivity|discriminate].
  Qed.
  Lemma kneedle_in_range (dd : nat -> nat -> list (T N)) :
    (forall l r, r <= n -> t2 < r - l -> length (dd l r) = r - l) ->
    knee_in_range (fun l r => highest_peak (dd l r) (all_peaks (dd l r))) t2 1 n.
  Proof.
    intros Hlen l r k Hr Ht Hk. apply highest_peak_in, all_peaks_interior in Hk. rewrite (Hlen l r Hr Ht) in Hk. exact Hk.
  Qed.
End Detectors.

(* ---- the C02 conclusion for each detector: termination bound, sortedness, range, and the judged predicate ---- *)
Definition C02_conclusion {N : Num} (cost : mk_cost) (straight : nat -> nat -> T N) (knee1 : nat -> nat -> option nat)
           (t1 : T N) (t2 lo n : nat) : Prop :=
  (exists ks tr, multi_knee cost straight knee1 t1 t2 n = Some (ks, tr) /\
                 length tr <= Nat.max 1 (2 * n - 1) /\ SI ks /\ Forall (fun i => lo <= i /\ i + 2 <= n) ks /\
                 ks = mk_spec cost straight knee1 t1 t2 0 n) /\
  mk_holds lo n (mk_step cost straight knee1 t1 t2 0 n) (mk_obs (multi_knee cost straight knee1 t1 t2 n))
           (mk_subL cost straight knee1 t1 t2 n) (mk_subR cost straight knee1 t1 t2 n) = 0.

Lemma C02_conclusion_of_range {N : Num} cost (straight : nat -> nat -> T N) knee1 t1 t2 lo n :
  knee_in_range knee1 t2 lo n -> C02_conclusion cost straight knee1 t1 t2 lo n.
Proof.
  intros H. split.
  - destruct (mk_total cost straight knee1 t1 t2 lo n H) as (ks & tr & H1 & H2 & _ & H3 & H4 & H5).
    exists ks, tr. auto.
  - apply mk_holds_model. exact H.
Qed.

Theorem mk_curvature {N : Num} cost (straight : nat -> nat -> T N) t1 t2 n (curv : nat -> nat -> list (T N)) :
  (forall l r, r <= n -> t2 < r - l -> length (curv l r) = r - l) ->
  C02_conclusion cost straight (fun l r => curvature_knee (curv l r)) t1 t2 1 n.
Proof. intros H. apply C02_conclusion_of_range, curvature_in_range, H. Qed.

Theorem mk_dfdt {N : Num} cost (straight : nat -> nat -> T N) t1 t2 n
        (grad : nat -> nat -> list (T N)) (iso : nat -> nat -> nat -> option (T N)) :
  (forall l r, r <= n -> t2 < r - l -> length (grad l r) = r - l) ->
  C02_conclusion cost straight (fun l r => dfdt_knee (grad l r) (iso l r)) t1 t2 1 n.
Proof. intros H. apply C02_conclusion_of_range, dfdt_in_range, H. Qed.

Theorem mk_menger {N : Num} cost (straight : nat -> nat -> T N) t1 t2 n (mc : nat -> nat -> list (T N)) :
  TotalPreorderOn (@notnan N) -> isnan (@zero N) = false ->
  (forall l r, r <= n -> t2 < r - l -> length (mc l r) + 2 = r - l) ->
  C02_conclusion cost straight (fun l r => menger_knee (mc l r)) t1 t2 0 n.
Proof. intros HO Hz H. apply C02_conclusion_of_range, menger_in_range; assumption. Qed.

(* Menger on binary64: no order hypothesis left *)
Theorem mk_menger_float cost (straight : nat -> nat -> PrimFloat.float) t1 t2 n (mc : nat -> nat -> list PrimFloat.float) :
  (forall l r, r <= n -> t2 < r - l -> length (mc l r) + 2 = r - l) ->
  @C02_conclusion FloatNum cost straight (fun l r => @menger_knee FloatNum (mc l r)) t1 t2 0 n.
Proof.
  intros H. apply C02_conclusion_of_range.
  intros l r k Hr Ht Hk. apply menger_knee_interior_float in Hk. rewrite (H l r Hr Ht) in Hk. exact Hk.
Qed.

Theorem mk_lmethod {N : Num} cost (straight : nat -> nat -> T N) t1 t2 n
        (lerr : nat -> nat -> nat -> nat -> oval (T N)) it limit :
  3 <= t2 ->
  C02_conclusion cost straight (fun l r => lmethod_knee (r - l) (lerr l r) it limit) t1 t2 1 n.
Proof. intros H. apply C02_conclusion_of_range, lmethod_in_range, H. Qed.

Theorem mk_kneedle {N : Num} cost (straight : nat -> nat -> T N) t1 t2 n (dd : nat -> nat -> list (T N)) :
  (forall l r, r <= n -> t2 < r - l -> length (dd l r) = r - l) ->
  C02_conclusion cost straight (fun l r => highest_peak (dd l r) (all_peaks (dd l r))) t1 t2 1 n.
Proof. intros H. apply C02_conclusion_of_range, kneedle_in_range, H. Qed.
