(* Proofs/MappingFacts.v — C07: mapping inverts a well-formed reduction. *)
From Coq Require Import List Arith Bool Lia Permutation.
From Knee Require Import Num NpList Model.Mapping Proofs.ListFacts.
Import ListNotations.

Definition WF (n : nat) (red : list nat) : Prop :=
  SI red /\ hd 1 red = 0 /\ last red 0 = n - 1 /\ 2 <= length red.
Lemma WFb_iff n red : WFb n red = true <-> WF n red.
Proof.
  unfold WFb, WF. rewrite !andb_true_iff, SI_iff, !Nat.eqb_eq, Nat.leb_le. tauto.
Qed.

Lemma rows_cons2 a b l : rows (a :: b :: l) = (a, b - a - 1) :: rows (b :: l).
Proof. reflexivity. Qed.

(* the inner loop consumes exactly the rows of the segments that start before position k *)
Lemma advance_rows : forall k l c,
  SI l -> k < length l ->
  advance (rows l) (nth k l 0) c = (rows (skipn k l), c + (nth k l 0 - hd 0 l) - k).
Proof.
  induction k as [|k IH]; intros l c HS Hk.
  - destruct l as [|a [|b l']]; cbn in Hk; try lia.
    + cbn. f_equal. lia.
    + rewrite rows_cons2. cbn [nth skipn hd advance]. rewrite Nat.ltb_irrefl. rewrite rows_cons2. f_equal. lia.
  - destruct l as [|a [|b l']]; cbn in Hk; try lia.
    rewrite rows_cons2.
    change (nth (S k) (a :: b :: l') 0) with (nth k (b :: l') 0).
    change (skipn (S k) (a :: b :: l')) with (skipn k (b :: l')).
    assert (Hlt : a < nth k (b :: l') 0).
    { pose proof (SI_nth_lt (a :: b :: l') 0 (S k) 0 HS ltac:(lia) ltac:(cbn; lia)) as H. exact H. }
    pose proof (SI_nth_ge (b :: l') k 0 (SI_tl _ _ HS) ltac:(cbn; lia)) as Hge. cbn [hd] in Hge.
    specialize (IH (b :: l') (c + (b - a - 1)) (SI_tl _ _ HS) ltac:(cbn; lia)).
    destruct HS as [Hab _].
    set (v := nth k (b :: l') 0) in *.
    cbn [advance hd]. apply Nat.ltb_lt in Hlt. rewrite Hlt. apply Nat.ltb_lt in Hlt.
    rewrite IH. f_equal. cbn [hd]. lia.
Qed.

Lemma nth_skipn_add {A} (l : list A) : forall j k d, nth k (skipn j l) d = nth (j + k) l d.
Proof.
  induction l as [|a l IH]; intros [|j] k d; cbn [skipn]; auto.
  - destruct k; auto.
  - rewrite IH. reflexivity.
Qed.
Lemma skipn_skipn_add {A} (l : list A) : forall j k, skipn k (skipn j l) = skipn (j + k) l.
Proof.
  induction l as [|a l IH]; intros [|j] k; cbn [skipn]; auto.
  - destruct k; auto.
  - apply IH.
Qed.
Lemma hd_skipn_nth {A} (l : list A) j d : hd d (skipn j l) = nth j l d.
Proof. rewrite <- (Nat.add_0_r j) at 2. rewrite <- nth_skipn_add. destruct (skipn j l); auto. Qed.

Lemma mapping_go_rows red (HS : SI red) (H0 : hd 1 red = 0) : forall I j,
  ND (j :: I) -> Forall (fun i => i < length red) (j :: I) ->
  mapping_go I red (rows (skipn j red)) (nth j red 0 - j) = Some (map (fun i => nth i red 0) I).
Proof.
  induction I as [|i I IH]; intros j HN HF; [reflexivity|].
  cbn [mapping_go map].
  inversion HF as [|? ? Hj HF']; subst. inversion HF' as [|? ? Hi _]; subst.
  destruct (nth_error red i) as [v|] eqn:Hv; [|apply nth_error_None in Hv; lia].
  apply (nth_error_nth _ _ 0) in Hv. subst v.
  assert (Hji : j <= i) by (cbn in HN; tauto).
  replace (nth i red 0) with (nth (i - j) (skipn j red) 0) at 1 by (rewrite nth_skipn_add; f_equal; lia).
  rewrite advance_rows; [|apply SI_skipn; auto|rewrite skipn_length; lia].
  rewrite skipn_skipn_add. replace (j + (i - j)) with i by lia.
  rewrite nth_skipn_add. replace (j + (i - j)) with i by lia.
  rewrite hd_skipn_nth.
  assert (Hge : nth j red 0 + (i - j) <= nth i red 0).
  { pose proof (SI_nth_ge (skipn j red) (i - j) 0 (SI_skipn _ _ HS) ltac:(rewrite skipn_length; lia)) as H.
    rewrite hd_skipn_nth, nth_skipn_add in H. replace (j + (i - j)) with i in H by lia. exact H. }
  assert (Hgej : j <= nth j red 0).
  { pose proof (SI_nth_ge red j 0 HS Hj). lia. }
  replace (nth j red 0 - j + (nth i red 0 - nth j red 0) - (i - j)) with (nth i red 0 - i) by lia.
  rewrite IH; [|eapply ND_tl; eauto|exact HF'].
  cbn [option_map]. do 2 f_equal.
  pose proof (SI_nth_ge red i 0 HS Hi). lia.
Qed.

(* C07, first clause *)
Theorem mapping_correct n red I :
  WF n red -> ND I -> Forall (fun i => i < length red) I ->
  mapping I red (rows red) true = Some (map (fun i => nth i red 0) I).
Proof.
  intros (HS & H0 & _ & Hlen) HN HF. unfold mapping.
  pose proof (mapping_go_rows red HS H0 I 0) as H. cbn [skipn] in H.
  replace (nth 0 red 0 - 0) with 0 in H.
  - apply H.
    + destruct I as [|i I]; cbn [ND]; auto. split; [lia|auto].
    + constructor; auto. lia.
  - destruct red; cbn in *; lia.
Qed.

(* compute_removed_points reproduces rows *)
Lemma compute_removed_go_rows n : forall rest a, SI (a :: rest) -> last (a :: rest) 0 <= n - 1 -> 1 <= n ->
  compute_removed_go n a rest = rows (a :: rest).
Proof.
  induction rest as [|b rest IH]; intros a HS HL Hn; [reflexivity|].
  rewrite rows_cons2. cbn [compute_removed_go].
  assert (Hb : b <= n - 1).
  { etransitivity; [|exact HL]. apply (SI_le_last (a :: b :: rest) 0 b HS). right; left; auto. }
  destruct HS as [Hab HS].
  rewrite IH; auto. f_equal. f_equal. lia.
Qed.
Theorem compute_removed_rows n red : WF n red -> compute_removed n red = rows red.
Proof.
  intros (HS & H0 & HL & Hlen). destruct red as [|a rest]; [reflexivity|].
  unfold compute_removed. apply compute_removed_go_rows; auto; try lia.
  destruct rest; cbn in Hlen; try lia.
  assert (a < last (a :: n0 :: rest) 0).
  { pose proof (SI_le_last (a :: n0 :: rest) 0 n0 HS ltac:(right; left; auto)). destruct HS. lia. }
  lia.
Qed.

(* sorted=False: any row order is brought back to rows by sorting on the (pairwise distinct) left index *)
Definition rle (a b : row) : bool := fst a <=? fst b.
Fixpoint SIrows (l : list row) : Prop :=
  match l with
  | a :: ((b :: _) as l') => fst a < fst b /\ SIrows l'
  | _ => True
  end.
Lemma SIrows_tl a l : SIrows (a :: l) -> SIrows l.
Proof. destruct l; cbn; tauto. Qed.
Lemma SIrows_lt_all a l : SIrows (a :: l) -> Forall (fun x => fst a < fst x) l.
Proof.
  revert a; induction l as [|b l IH]; intros a H; constructor.
  - cbn in H; tauto.
  - destruct H as [Hab H]. specialize (IH b H). eapply Forall_impl; [|exact IH]. cbn; intros; lia.
Qed.
Lemma SIrows_cons a l : Forall (fun x => fst a < fst x) l -> SIrows l -> SIrows (a :: l).
Proof. destruct l as [|b l]; cbn; auto. intros H; inversion H; tauto. Qed.
Lemma rows_SIrows red : SI red -> SIrows (rows red).
Proof.
  induction red as [|a red IH]; intros H; [exact I|].
  destruct red as [|b [|c l]]; [exact I|exact I|].
  specialize (IH (SI_tl _ _ H)).
  rewrite rows_cons2. rewrite rows_cons2 in *. cbn [SIrows fst].
  split; [destruct H as [H _]; exact H|exact IH].
Qed.
Lemma insert_rows_perm x l : Permutation (x :: l) (insert_by rle x l).
Proof.
  induction l as [|y l IH]; cbn; auto.
  destruct (rle y x); auto. rewrite perm_swap. constructor. exact IH.
Qed.
Lemma insert_rows_SI x l : SIrows l -> Forall (fun y => fst y <> fst x) l -> SIrows (insert_by rle x l).
Proof.
  induction l as [|y l IH]; intros HS Hn; cbn; auto.
  inversion Hn as [|? ? Hy Hn']; subst.
  unfold rle at 1. destruct (Nat.leb_spec (fst y) (fst x)) as [Hle|Hlt].
  - apply SIrows_cons.
    + rewrite Forall_forall. intros z Hz.
      apply (Permutation_in _ (Permutation_sym (insert_rows_perm x l))) in Hz.
      destruct Hz as [<-|Hz]; [lia|].
      pose proof (SIrows_lt_all y l HS) as HF. rewrite Forall_forall in HF. auto.
    + apply IH; auto. eapply SIrows_tl; eauto.
  - cbn [SIrows]. split; auto.
Qed.
Lemma sort_rows_aux l : forall acc, SIrows acc -> NoDup (map fst (l ++ acc)) ->
  SIrows (fold_left (fun a x => insert_by rle x a) l acc) /\
  Permutation (l ++ acc) (fold_left (fun a x => insert_by rle x a) l acc).
Proof.
  induction l as [|x l IH]; intros acc HS HN; cbn [fold_left app]; [split; auto|].
  cbn [app map] in HN. inversion HN as [|? ? Hx HN']; subst.
  destruct (IH (insert_by rle x acc)) as [H1 H2].
  - apply insert_rows_SI; auto. rewrite Forall_forall. intros y Hy Heq. apply Hx.
    rewrite map_app, in_app_iff. right. rewrite <- Heq. apply in_map. exact Hy.
  - eapply Permutation_NoDup; [|exact HN].
    change (fst x :: map fst (l ++ acc)) with (map fst (x :: l ++ acc)).
    apply Permutation_map. rewrite <- insert_rows_perm. apply Permutation_middle.
  - split; auto. rewrite <- H2. rewrite <- insert_rows_perm. apply Permutation_middle.
Qed.
Lemma SIrows_perm_eq l1 : forall l2, SIrows l1 -> SIrows l2 -> Permutation l1 l2 -> l1 = l2.
Proof.
  induction l1 as [|a l1 IH]; intros l2 H1 H2 HP.
  - apply Permutation_nil in HP. auto.
  - destruct l2 as [|b l2]. { apply Permutation_sym, Permutation_nil in HP. discriminate. }
    assert (a = b).
    { assert (Ha : In a (b :: l2)) by (eapply Permutation_in; [exact HP|left; auto]).
      assert (Hb : In b (a :: l1)) by (eapply Permutation_in; [apply Permutation_sym; exact HP|left; auto]).
      destruct Ha as [Ha|Ha]; auto. destruct Hb as [Hb|Hb]; auto.
      pose proof (SIrows_lt_all b l2 H2) as F2. rewrite Forall_forall in F2. specialize (F2 a Ha).
      pose proof (SIrows_lt_all a l1 H1) as F1. rewrite Forall_forall in F1. specialize (F1 b Hb). lia. }
    subst b. f_equal. apply IH; [eapply SIrows_tl; eauto|eapply SIrows_tl; eauto|].
    eapply Permutation_cons_inv; eauto.
Qed.
Lemma SIrows_NoDup l : SIrows l -> NoDup (map fst l).
Proof.
  induction l as [|a l IH]; intros H; cbn [map]; constructor.
  - pose proof (SIrows_lt_all a l H) as HF. rewrite Forall_forall in HF. intros Hin.
    apply in_map_iff in Hin. destruct Hin as (y & Hy & Hin). specialize (HF y Hin). lia.
  - apply IH. eapply SIrows_tl; eauto.
Qed.

Lemma sort_rows_canonical red rem' : SI red -> Permutation rem' (rows red) -> sort_rows rem' = rows red.
Proof.
  intros HS HP. unfold sort_rows, sort_by.
  destruct (sort_rows_aux rem' [] I) as [H1 H2].
  - rewrite app_nil_r. eapply Permutation_NoDup; [apply Permutation_map, Permutation_sym, HP|].
    apply SIrows_NoDup, rows_SIrows, HS.
  - rewrite app_nil_r in H2. apply SIrows_perm_eq; auto.
    + apply rows_SIrows; auto.
    + rewrite <- H2. exact HP.
Qed.

(* C07, second clause: sorted=False accepts any row order.  Stated for the stable sort the executable
   model uses and, below, for EVERY function that sorts rows by left index (np.argsort's tie order is
   irrelevant because left indices are pairwise distinct). *)
Theorem mapping_unsorted n red rem' I :
  WF n red -> Permutation rem' (rows red) -> ND I -> Forall (fun i => i < length red) I ->
  mapping I red rem' false = Some (map (fun i => nth i red 0) I).
Proof.
  intros HW HP HN HF. unfold mapping. rewrite (sort_rows_canonical red rem'); [|apply HW|exact HP].
  exact (mapping_correct n red I HW HN HF).
Qed.
Theorem any_row_sort_canonical red rem' sorted_rem :
  SI red -> Permutation rem' (rows red) -> Permutation sorted_rem rem' -> SIrows sorted_rem \/
  (forall a b l1 l2, sorted_rem = l1 ++ a :: b :: l2 -> fst a <= fst b) ->
  sorted_rem = rows red.
Proof.
  intros HS HP HP2 Hsorted.
  assert (HSI : SIrows sorted_rem).
  { destruct Hsorted as [H|H]; auto.
    assert (HND : NoDup (map fst sorted_rem)).
    { eapply Permutation_NoDup; [apply Permutation_map, Permutation_sym; etransitivity; [exact HP2|exact HP]|].
      apply SIrows_NoDup, rows_SIrows, HS. }
    clear HP HP2. induction sorted_rem as [|a [|b l] IH]; cbn [SIrows]; auto.
    split.
    - specialize (H a b [] l eq_refl). cbn [map] in HND. inversion HND as [|? ? Hn _]; subst.
      assert (fst a <> fst b) by (intros Heq; apply Hn; left; auto). lia.
    - apply IH.
      + intros a' b' l1 l2 Heq. apply (H a' b' (a :: l1) l2). rewrite Heq. reflexivity.
      + cbn [map] in HND. inversion HND; auto. }
  apply SIrows_perm_eq; auto.
  - apply rows_SIrows; auto.
  - etransitivity; eauto.
Qed.

(* the reduction invariants: retained + dropped = n *)
Lemma rows_sum red : SI red -> red <> [] ->
  length red + fold_right (fun r s => snd r + s) 0 (rows red) = last red 0 - hd 0 red + 1.
Proof.
  induction red as [|a [|b l] IH]; intros HS Hne; [congruence|cbn; lia|].
  rewrite rows_cons2. cbn [fold_right snd length hd].
  change (last (a :: b :: l) 0) with (last (b :: l) 0).
  destruct HS as [Hab HS]. specialize (IH HS ltac:(discriminate)). cbn [length hd] in IH.
  pose proof (SI_le_last (b :: l) 0 b HS (or_introl eq_refl)). lia.
Qed.
Lemma rows_length red : length (rows red) = length red - 1.
Proof. induction red as [|a [|b l] IH]; auto. rewrite rows_cons2. cbn [length] in *. lia. Qed.

Theorem rows_account : forall n red, WF n red -> 1 <= n ->
  length red + fold_right (fun r s => snd r + s) 0 (rows red) = n /\ length (rows red) = length red - 1.
Proof.
  intros n red (HS & H0 & HL & Hlen) Hn. split; [|apply rows_length].
  rewrite rows_sum; auto.
  - rewrite HL. destruct red; cbn [hd length] in *; lia.
  - destruct red; cbn in Hlen; [lia|discriminate].
Qed.
