(* Proofs/DetectorsFacts.v — property C09 (all four single-knee detectors): re-exports the generic theorems of
   DetectorsBase (curvature, DFDT, Menger) and DetectorsLm (L-method), and closes the Tier-O hypotheses for
   binary64 (FloatNum): non-NaN doubles are totally pre-ordered (FloatOrder.float_total_preorder) and every
   comparison with a NaN is false (float_nan_unordered, from FloatAxioms.leb_spec / ltb_spec / eqb_spec). *)
From Coq Require Import ZArith List Bool Arith Lia PrimFloat FloatAxioms SpecFloat FloatOps.
From Knee Require Import Num NumFloat NpList OrdLaws FloatOrder Model.Detectors Model.DetectorsError Proofs.ArgFacts.
From Knee Require Export Proofs.DetectorsBase Proofs.DetectorsLm.
Import ListNotations.

Lemma f_isnan_true x : f_isnan x = true -> Prim2SF x = S754_nan.
Proof.
  unfold f_isnan. rewrite eqb_spec. unfold SFeqb.
  destruct (Prim2SF x) as [s|s| |s m e] eqn:E; auto; intros H.
  - destruct s; discriminate.
  - destruct s; discriminate.
  - rewrite (SFcompare_refl (S754_finite s m e) I) in H. discriminate.
Qed.
Lemma SFcompare_nan_r x : SFcompare x S754_nan = None.
Proof. destruct x as [s|s| |s m e]; try reflexivity; destruct s; reflexivity. Qed.

Theorem float_nan_unordered : NanUnordered FloatNum.
Proof.
  constructor; cbn -[PrimFloat.leb PrimFloat.ltb]; intros x y H; apply f_isnan_true in H.
  - rewrite leb_spec, H. reflexivity.
  - rewrite leb_spec, H. unfold SFleb. rewrite SFcompare_nan_r. reflexivity.
  - rewrite ltb_spec, H. reflexivity.
  - rewrite ltb_spec, H. unfold SFltb. rewrite SFcompare_nan_r. reflexivity.
Qed.
Lemma float_zero_notnan : isnan (@zero FloatNum) = false.
Proof. reflexivity. Qed.

(* ------------------------------------------------------------------ closed binary64 corollaries *)
Theorem menger_knee_interior_float (mc : list float) k :
  @menger_knee FloatNum mc = Some k -> 0 <= k /\ k + 2 <= length mc + 2.
Proof. apply (@menger_knee_interior FloatNum float_total_preorder float_zero_notnan). Qed.

Theorem curvature_holds_float (curv : list float) :
  3 <= length curv -> @curvature_holds FloatNum curv (@curvature_knee FloatNum curv) = 0%Z.
Proof. apply (@curvature_holds_model FloatNum float_total_preorder float_nan_unordered). Qed.
Theorem dfdt_get_knee_holds_float (grad : list float) (t : float) :
  3 <= length grad -> @dfdt_get_knee_holds FloatNum grad t (@dfdt_get_knee FloatNum grad t) = 0%Z.
Proof. apply (@dfdt_get_knee_holds_model FloatNum float_total_preorder float_nan_unordered). Qed.
Theorem dfdt_knee_holds_float (grad : list float) (iso : nat -> option float) :
  3 <= length grad -> (forall c, iso c <> None) -> @dfdt_knee_holds FloatNum grad iso (@dfdt_knee_res FloatNum grad iso) = 0%Z.
Proof. apply (@dfdt_knee_holds_model FloatNum grad iso float_total_preorder float_nan_unordered). Qed.
Theorem menger_holds_float (mc : list float) : @menger_holds FloatNum mc (@menger_knee FloatNum mc) = 0%Z.
Proof. apply (@menger_holds_model FloatNum float_total_preorder float_zero_notnan float_nan_unordered). Qed.
Theorem lm_get_knee_holds_float (err : nat -> oval float) m k :
  5 <= m -> @lm_get_knee FloatNum err m = OVal k -> @lm_get_knee_holds FloatNum err m (Some k) = 0%Z.
Proof.
  intros Hm H. unfold lm_get_knee_holds.
  destruct (@lm_get_knee_interior FloatNum err m k Hm H).
  replace ((2 <=? k) && (k + 3 <=? m)) with true by (symmetry; apply andb_true_iff; split; apply Nat.leb_le; lia).
  cbn [negb]. rewrite (@lm_get_knee_spec FloatNum err float_total_preorder float_nan_unordered m k H). reflexivity.
Qed.
Theorem lmethod_knee_holds_float n (lerr : nat -> nat -> oval float) it limit :
  5 <= n ->
  (forall m, 3 <= m <= n -> Forall (fun i => oval_is_val (lerr m i) = true) (lm_cands m)) ->
  @lmethod_knee_holds FloatNum n lerr it limit (@lmethod_knee_res FloatNum n lerr it limit) = 0%Z.
Proof. apply (@lmethod_knee_holds_model FloatNum n lerr float_total_preorder float_nan_unordered). Qed.

(* names used in DESIGN.md section 4 / C09 *)
Definition lmethod_get_knee_range := @lm_get_knee_range.
Definition lmethod_get_knee_interior := @lm_get_knee_interior.
Definition lmethod_get_knee_spec := @lm_get_knee_spec.
Definition dfdt_get_knee_gradient_range := @dfdt_gkg_range.

(* ------------------------------------------------------------------ the L-method criterion derived in the model
   (Model/DetectorsError.v): the generic theorems instantiated with lerr := lm_error xs ys polyres fit cost.
   Nothing is assumed about the least-squares residual oracle polyres (Tier S) beyond availability where stated. *)
Section Derived.
  Context {N : Num}.
  Variables xs ys : list (T N).
  Variable polyres : nat -> nat -> oval (T N).

  (* with end-point lines and the RSS cost the derived error is a value at every split point inside the prefix *)
  Lemma lm_error_point_rss_val m i : i < m -> exists v, lm_error xs ys polyres FitPoint CostRss m i = OVal v.
  Proof.
    intros H. unfold lm_error. destruct (m <=? i) eqn:E; [apply Nat.leb_le in E; lia|]. cbn. eauto.
  Qed.
  (* ... and with the RMSE cost unless a square-root argument compares below zero (math.sqrt would raise) *)
  Lemma lm_error_point_rmse_val m i : i < m ->
    lm_error xs ys polyres FitPoint CostRmse m i = ORaise \/ exists v, lm_error xs ys polyres FitPoint CostRmse m i = OVal v.
  Proof.
    intros H. unfold lm_error. destruct (m <=? i) eqn:E; [apply Nat.leb_le in E; lia|]. cbn.
    match goal with |- context [if ?c then _ else _] => destruct c end; eauto.
  Qed.

  Theorem lm_get_knee_derived_range fit cost k :
    lm_get_knee_derived xs ys polyres fit cost = OVal k -> 3 <= length xs /\ 2 <= k <= Nat.max 2 (length xs - 3).
  Proof. apply lm_get_knee_range. Qed.
  Theorem lm_get_knee_derived_spec (O : TotalPreorderOn (@notnan N)) (NU : NanUnordered N) fit cost k :
    lm_get_knee_derived xs ys polyres fit cost = OVal k ->
    lm_first_min_b (lm_error xs ys polyres fit cost (length xs)) (length xs) k = true.
  Proof. apply lm_get_knee_spec; auto. Qed.

  Theorem lmethod_knee_derived_total fit it limit :
    2 <= length xs -> within (lmethod_knee_res_derived xs ys polyres fit it limit) (lm_iter_bound (length xs) it).
  Proof. apply lmethod_knee_total. Qed.
  Theorem lmethod_knee_derived_interior fit it limit k :
    4 <= length xs -> res_knee (lmethod_knee_res_derived xs ys polyres fit it limit) = Some k -> 1 <= k /\ k + 2 <= length xs.
  Proof. apply lmethod_knee_interior. Qed.
  Theorem lmethod_knee_holds_derived (O : TotalPreorderOn (@notnan N)) (NU : NanUnordered N) fit it limit :
    5 <= length xs ->
    (forall m, 3 <= m <= length xs ->
       Forall (fun i => oval_is_val (lm_error xs ys polyres fit CostRmse m i) = true) (lm_cands m)) ->
    lmethod_knee_holds (length xs) (lm_error xs ys polyres fit CostRmse) it limit
                       (lmethod_knee_res_derived xs ys polyres fit it limit) = 0%Z.
  Proof. apply lmethod_knee_holds_model; auto. Qed.
End Derived.

Theorem lmethod_knee_holds_derived_float (xs ys : list float) (polyres : nat -> nat -> oval float) fit it limit :
  5 <= length xs ->
  (forall m, 3 <= m <= length xs ->
     Forall (fun i => oval_is_val (@lm_error FloatNum xs ys polyres fit CostRmse m i) = true) (lm_cands m)) ->
  @lmethod_knee_holds FloatNum (length xs) (@lm_error FloatNum xs ys polyres fit CostRmse) it limit
                      (@lmethod_knee_res_derived FloatNum xs ys polyres fit it limit) = 0%Z.
Proof. apply (@lmethod_knee_holds_derived FloatNum xs ys polyres float_total_preorder float_nan_unordered). Qed.

(* the bit-for-bit comparison of a composite library value with the derived one is reflexive on the model's own values *)
Lemma f_same_refl x : f_same x x = true.
Proof. unfold f_same, f_isnan. destruct (PrimFloat.eqb x x); reflexivity. Qed.
Lemma lm_table_same_refl (derived : nat -> nat -> oval float) (keys : list (nat * nat)) :
  Forall (fun k => derived (fst k) (snd k) <> OMissing) keys ->
  lm_table_same_b f_same derived (map (fun k => (fst k, snd k, derived (fst k) (snd k))) keys) = true.
Proof.
  induction keys as [|[m i] keys IH]; intros F; [reflexivity|]. inversion F as [|? ? H F']; subst.
  cbn [map lm_table_same_b forallb fst snd] in *. rewrite andb_true_iff. split; [|apply IH; auto].
  destruct (derived m i); cbn; auto using f_same_refl; congruence.
Qed.
