(* Proofs/ElbowDfdt.v — C03, DFDT (Tier A, RNum).
   The gradient of an elbow is m1 (c times), one value g strictly between m1 and m2, m2 (n-1-c times).
   isodata_two_level: on such an array ISODATA returns one of two thresholds, whichever way its loop
   exits (eps-break, or the iteration budget) — no convergence reasoning; for both, g is strictly
   closer to the threshold than m1 and m2.  Hence the first pass returns c, the refinement pass on
   gradient[ceil(c/2):] returns c again, and the loop stops. *)
From Coq Require Import Reals List Arith Lia Lra Bool Psatz.
From Knee Require Import Num NumR NpList Model.Uts Model.DetectorsFormula Proofs.ElbowBase Proofs.ElbowNpSum.
Import ListNotations.
Local Open Scope R_scope.

Lemma div_lt_l (x y z : R) : 0 < z -> x < y * z -> x / z < y.
Proof. intros Hz H. apply Rmult_lt_reg_r with z; [exact Hz|]. unfold Rdiv. rewrite Rmult_assoc, Rinv_l by lra. lra. Qed.
Lemma div_le_r (x y z : R) : 0 < z -> x * z <= y -> x <= y / z.
Proof. intros Hz H. apply Rmult_le_reg_r with z; [exact Hz|]. unfold Rdiv. rewrite Rmult_assoc, Rinv_l by lra. lra. Qed.

(* ------------------------------------------------------------------ the gradient of an elbow *)
Lemma d1_collinear (x0 x1 x2 yc xc m : R) : x0 < x1 -> x1 < x2 ->
  @d1_central RNum (x0, yc + m * (x0 - xc)) (x1, yc + m * (x1 - xc)) (x2, yc + m * (x2 - xc)) = m.
Proof. intros H1 H2. unfold d1_central, two. cbn. field. repeat split; lra. Qed.
Lemma lagr_first_collinear (x0 x1 x2 yc xc m : R) : x0 < x1 -> x1 < x2 ->
  @lagrange_derivative RNum x0 x0 x1 x2 (yc + m * (x0 - xc)) (yc + m * (x1 - xc)) (yc + m * (x2 - xc)) = m.
Proof. intros H1 H2. unfold lagrange_derivative, two. cbn. field. repeat split; lra. Qed.
Lemma lagr_last_collinear (x0 x1 x2 yc xc m : R) : x0 < x1 -> x1 < x2 ->
  @lagrange_derivative RNum x2 x0 x1 x2 (yc + m * (x0 - xc)) (yc + m * (x1 - xc)) (yc + m * (x2 - xc)) = m.
Proof. intros H1 H2. unfold lagrange_derivative, two. cbn. field. repeat split; lra. Qed.
Lemma d1_corner (xa xc xb yc m1 m2 : R) : xa < xc -> xc < xb ->
  @d1_central RNum (xa, yc + m1 * (xa - xc)) (xc, yc) (xb, yc + m2 * (xb - xc))
  = (m1 * (xb - xc) + m2 * (xc - xa)) / (xb - xa).
Proof. intros H1 H2. unfold d1_central, two. cbn. field. repeat split; lra. Qed.

Definition between (u g v : R) : Prop := (u < g < v) \/ (v < g < u).

Lemma corner_between (xa xc xb m1 m2 : R) : xa < xc -> xc < xb -> m1 <> m2 ->
  between m1 ((m1 * (xb - xc) + m2 * (xc - xa)) / (xb - xa)) m2.
Proof.
  intros H1 H2 Hm.
  set (lam := (xc - xa) / (xb - xa)).
  assert (Hl : 0 < lam < 1).
  { unfold lam. split; [apply Rdiv_lt_0_compat; lra|]. apply div_lt_l; lra. }
  assert (Hg : (m1 * (xb - xc) + m2 * (xc - xa)) / (xb - xa) = m1 + lam * (m2 - m1)) by (unfold lam; field; lra).
  rewrite Hg. unfold between. destruct (Rtotal_order m1 m2) as [Hlt|[Heq|Hgt]]; [left|contradiction|right]; nra.
Qed.

Lemma nth_repeat_lt {A} (a d : A) k i : (i < k)%nat -> nth i (repeat a k) d = a.
Proof. revert i. induction k as [|k IH]; intros i H; [lia|]. destruct i; [reflexivity|]. cbn. apply IH. lia. Qed.

(* an array of the shape `p copies of u, one g, q copies of v` *)
Definition two_level (u g v : R) (p q : nat) : list R := repeat u p ++ g :: repeat v q.
Lemma two_level_length u g v p q : length (two_level u g v p q) = (p + 1 + q)%nat.
Proof. unfold two_level. rewrite app_length. cbn [length]. rewrite !repeat_length. lia. Qed.
Lemma two_level_nth_lo u g v p q i : (i < p)%nat -> nth i (two_level u g v p q) 0 = u.
Proof. intros H. unfold two_level. rewrite app_nth1 by (rewrite repeat_length; lia). apply nth_repeat_lt. exact H. Qed.
Lemma two_level_nth_mid u g v p q : nth p (two_level u g v p q) 0 = g.
Proof. unfold two_level. rewrite app_nth2 by (rewrite repeat_length; lia). rewrite repeat_length, Nat.sub_diag. reflexivity. Qed.
Lemma two_level_nth_hi u g v p q i : (p < i)%nat -> (i < p + 1 + q)%nat -> nth i (two_level u g v p q) 0 = v.
Proof.
  intros H1 H2. unfold two_level. rewrite app_nth2 by (rewrite repeat_length; lia). rewrite repeat_length.
  destruct (i - p)%nat as [|k] eqn:E; [lia|]. cbn [nth]. apply nth_repeat_lt. lia.
Qed.
Lemma two_level_skipn u g v p q k : (k <= p)%nat -> skipn k (two_level u g v p q) = two_level u g v (p - k) q.
Proof.
  unfold two_level. revert k. induction p as [|p IH]; intros k H.
  - assert (k = 0)%nat by lia. subst. reflexivity.
  - destruct k as [|k]; [reflexivity|]. cbn [repeat app skipn]. rewrite IH by lia. reflexivity.
Qed.

Section Gradient.
  Variables (pts : list (R * R)) (c : nat) (m1 m2 : R).
  Hypothesis E : elbow pts c m1 m2.
  Local Notation n := (length pts).

  Definition corner_gradient : R :=
    (m1 * (PX pts (c + 1) - PX pts c) + m2 * (PX pts c - PX pts (c - 1))) / (PX pts (c + 1) - PX pts (c - 1)).

  Lemma corner_gradient_between : between m1 corner_gradient m2.
  Proof.
    pose proof (el_lo _ _ _ _ E). pose proof (el_hi _ _ _ _ E).
    apply corner_between; [apply (el_x_lt _ _ _ _ E); lia|apply (el_x_lt _ _ _ _ E); lia|apply (el_slopes _ _ _ _ E)].
  Qed.

  (* uts.gradient.cfd of an elbow *)
  Lemma cfd_elbow : @cfd RNum pts = two_level m1 corner_gradient m2 c (n - 1 - c).
  Proof.
    pose proof (el_lo _ _ _ _ E) as Hlo. pose proof (el_hi _ _ _ _ E) as Hhi.
    pose proof (el_x_lt _ _ _ _ E) as Hx.
    apply (nth_ext _ _ 0 0).
    { rewrite cfd_length, two_level_length by lia. lia. }
    intros i Hi. rewrite cfd_length in Hi by lia.
    destruct (Nat.eq_dec i 0) as [->|Hi0].
    { rewrite cfd_nth_first, two_level_nth_lo by lia.
      rewrite (el_left _ _ _ _ E 0), (el_left _ _ _ _ E 1), (el_left _ _ _ _ E 2) by lia.
      apply lagr_first_collinear; apply Hx; lia. }
    destruct (Nat.eq_dec i (n - 1)) as [->|Hil].
    { rewrite cfd_nth_last, two_level_nth_hi by lia. cbv zeta.
      rewrite (el_right _ _ _ _ E (n - 3)), (el_right _ _ _ _ E (n - 2)), (el_right _ _ _ _ E (n - 1)) by lia.
      apply lagr_last_collinear; apply Hx; lia. }
    rewrite cfd_nth_mid by lia. rewrite !nth_pt.
    destruct (lt_eq_lt_dec i c) as [[Hlt|Heq]|Hgt].
    - rewrite two_level_nth_lo by lia.
      rewrite (el_left _ _ _ _ E (i - 1)), (el_left _ _ _ _ E i), (el_left _ _ _ _ E (i + 1)) by lia.
      apply d1_collinear; apply Hx; lia.
    - subst i. rewrite two_level_nth_mid.
      rewrite (el_left _ _ _ _ E (c - 1)), (el_right _ _ _ _ E (c + 1)) by lia.
      replace (PY pts c + m1 * (PX pts c - PX pts c)) with (PY pts c) by ring.
      rewrite (el_left _ _ _ _ E c) at 2 by lia.
      replace (PY pts c + m1 * (PX pts c - PX pts c)) with (PY pts c) by ring.
      apply d1_corner; apply Hx; lia.
    - rewrite two_level_nth_hi by lia.
      rewrite (el_right _ _ _ _ E (i - 1)), (el_right _ _ _ _ E i), (el_right _ _ _ _ E (i + 1)) by lia.
      apply d1_collinear; apply Hx; lia.
  Qed.
End Gradient.

(* ------------------------------------------------------------------ ISODATA on a two-level array *)
Lemma Rsum_repeat (v : R) k : Rsum (repeat v k) = INR k * v.
Proof. induction k as [|k IH]; [cbn; ring|]. cbn [repeat Rsum]. rewrite IH, S_INR. ring. Qed.
Lemma filter_repeat (P : R -> bool) (v : R) k : filter P (repeat v k) = if P v then repeat v k else [].
Proof.
  induction k as [|k IH]; [destruct (P v); reflexivity|]. cbn [repeat filter]. rewrite IH. destruct (P v); reflexivity.
Qed.
Lemma INR_ge_1 k : (1 <= k)%nat -> 1 <= INR k.
Proof. intros H. apply (le_INR 1 k) in H. exact H. Qed.

Definition mw (g : R) (k : nat) (w : R) : R := (INR k * w + g) / (INR k + 1).

Lemma mean_repeat (v : R) k : (1 <= k)%nat -> @np_mean RNum (repeat v k) = v.
Proof.
  intros H. rewrite np_mean_R, Rsum_repeat, repeat_length. pose proof (INR_ge_1 k H). cbn [T RNum]. field. lra.
Qed.
Lemma mean_repeat_snoc (g v : R) k : @np_mean RNum (repeat v k ++ [g]) = mw g k v.
Proof.
  rewrite np_mean_R, Rsum_app, Rsum_repeat, app_length, repeat_length. cbn [Rsum length].
  rewrite plus_INR. cbn [INR T RNum]. unfold mw. f_equal. ring.
Qed.
Lemma mean_cons_repeat (g v : R) k : @np_mean RNum (g :: repeat v k) = mw g k v.
Proof.
  rewrite np_mean_R. cbn [Rsum length]. rewrite Rsum_repeat, repeat_length, S_INR. cbn [T RNum]. unfold mw. f_equal. ring.
Qed.

Lemma mw_bounds_up (g : R) k (w : R) : (1 <= k)%nat -> w < g -> w < mw g k w <= (w + g) / 2.
Proof.
  intros Hk H. pose proof (INR_ge_1 k Hk) as HP. unfold mw. set (P := INR k) in *.
  assert (Heq : (P * w + g) / (P + 1) = w + (g - w) / (P + 1)) by (field; lra).
  rewrite Heq. set (d := (g - w) / (P + 1)).
  assert (Hd : d * (P + 1) = g - w) by (unfold d; field; lra).
  assert (0 < d) by (unfold d; apply Rdiv_lt_0_compat; lra).
  split; [lra|]. nra.
Qed.
Lemma mw_bounds_down (g : R) k (w : R) : (1 <= k)%nat -> g < w -> (w + g) / 2 <= mw g k w < w.
Proof.
  intros Hk H. pose proof (INR_ge_1 k Hk) as HP. unfold mw. set (P := INR k) in *.
  assert (Heq : (P * w + g) / (P + 1) = w - (w - g) / (P + 1)) by (field; lra).
  rewrite Heq. set (d := (w - g) / (P + 1)).
  assert (Hd : d * (P + 1) = w - g) by (unfold d; field; lra).
  assert (0 < d) by (unfold d; apply Rdiv_lt_0_compat; lra).
  split; [nra|lra].
Qed.

Section Isodata.
  Variables (u g v : R) (p q : nat).
  Hypothesis Hb : between u g v.
  Hypothesis Hp : (1 <= p)%nat.
  Hypothesis Hq : (1 <= q)%nat.
  Local Notation arr := (two_level u g v p q).

  (* the only two thresholds an iteration can produce: g averaged with the u's, or with the v's *)
  Definition TA : R := (mw g p u + v) / 2.
  Definition TB : R := (u + mw g q v) / 2.
  Definition inrange (t : R) : Prop := (u <= t < v) \/ (v <= t < u).

  Lemma TA_inrange : inrange TA.
  Proof.
    unfold inrange, TA. destruct Hb as [[H1 H2]|[H1 H2]].
    - pose proof (mw_bounds_up g p u Hp H1). left. lra.
    - pose proof (mw_bounds_down g p u Hp H2). right. lra.
  Qed.
  Lemma TB_inrange : inrange TB.
  Proof.
    unfold inrange, TB. destruct Hb as [[H1 H2]|[H1 H2]].
    - pose proof (mw_bounds_down g q v Hq H2). left. lra.
    - pose proof (mw_bounds_up g q v Hq H1). right. lra.
  Qed.
  (* g is strictly closer to either threshold than u and v are *)
  Lemma TA_close : Rabs (g - TA) < Rabs (u - TA) /\ Rabs (g - TA) < Rabs (v - TA).
  Proof.
    unfold TA. destruct Hb as [[H1 H2]|[H1 H2]].
    - pose proof (mw_bounds_up g p u Hp H1). split; unfold Rabs; repeat destruct Rcase_abs; lra.
    - pose proof (mw_bounds_down g p u Hp H2). split; unfold Rabs; repeat destruct Rcase_abs; lra.
  Qed.
  Lemma TB_close : Rabs (g - TB) < Rabs (u - TB) /\ Rabs (g - TB) < Rabs (v - TB).
  Proof.
    unfold TB. destruct Hb as [[H1 H2]|[H1 H2]].
    - pose proof (mw_bounds_down g q v Hq H2). split; unfold Rabs; repeat destruct Rcase_abs; lra.
    - pose proof (mw_bounds_up g q v Hq H1). split; unfold Rabs; repeat destruct Rcase_abs; lra.
  Qed.

  Lemma mean_arr_inrange : inrange (@np_mean RNum arr).
  Proof.
    rewrite np_mean_R, two_level_length. unfold two_level. rewrite Rsum_app. cbn [Rsum]. rewrite !Rsum_repeat.
    rewrite !plus_INR. cbn [INR].
    pose proof (INR_ge_1 p Hp) as HP. pose proof (INR_ge_1 q Hq) as HQ.
    set (P := INR p) in *. set (Q := INR q) in *. unfold inrange.
    destruct Hb as [[H1 H2]|[H1 H2]]; [left|right]; split.
    - apply div_le_r; [lra|]. nra.
    - apply div_lt_l; [lra|]. nra.
    - apply div_le_r; [lra|]. nra.
    - apply div_lt_l; [lra|]. nra.
  Qed.

  Lemma repeat_S_out (w : R) k : (1 <= k)%nat -> repeat w k = w :: repeat w (k - 1).
  Proof. intros H. destruct k; [lia|]. cbn [repeat]. replace (S k - 1)%nat with k by lia. reflexivity. Qed.

  Lemma match_nonempty {A B} (l1 l2 : list A) (a b : B) : l1 <> [] -> l2 <> [] ->
    match l1, l2 with [], _ => a | _, [] => a | _, _ => b end = b.
  Proof. intros H1 H2. destruct l1; [contradiction|]. destruct l2; [contradiction|]. reflexivity. Qed.
  Lemma match_nonempty1 {A B} (l : list A) (a b : B) : l <> [] -> match l with [] => a | _ :: _ => b end = b.
  Proof. intros H. destruct l; [contradiction|reflexivity]. Qed.
  Lemma repeat_nonempty (w : R) k : (1 <= k)%nat -> repeat w k <> [].
  Proof. intros H. destruct k; [lia|discriminate]. Qed.
  Lemma snoc_nonempty (l : list R) (w : R) : l ++ [w] <> [].
  Proof. destruct l; discriminate. Qed.
  Lemma cons_nonempty (l : list R) (w : R) : w :: l <> [].
  Proof. discriminate. Qed.

  (* one executed iteration: both masks are non-empty and the new threshold is TA or TB *)
  Lemma isodata_step f eps t : inrange t ->
    exists nt, (nt = TA \/ nt = TB) /\
      @isodata_loop RNum (S f) arr eps t = if Rltb (Rabs (nt - t)) eps then nt else @isodata_loop RNum f arr eps nt.
  Proof.
    intros Ht. cbn [isodata_loop]. cbn [leb ltb RNum].
    unfold two_level. rewrite !filter_app. cbn [filter]. rewrite !filter_repeat.
    destruct Hb as [[H1 H2]|[H1 H2]]; destruct Ht as [[T1 T2]|[T1 T2]]; try lra.
    - (* u < g < v *)
      assert (Eu : Rleb u t = true) by (apply Rleb_true; lra).
      assert (Ev : Rleb v t = false) by (apply Rleb_false; lra).
      assert (Fu : Rltb t u = false) by (apply Rltb_false; lra).
      assert (Fv : Rltb t v = true) by (apply Rltb_true; lra).
      rewrite Eu, Ev, Fu, Fv.
      destruct (Rle_dec g t) as [Hg|Hg].
      + assert (Eg : Rleb g t = true) by (apply Rleb_true; lra).
        assert (Fg : Rltb t g = false) by (apply Rltb_false; lra).
        rewrite Eg, Fg. exists TA. split; [left; reflexivity|]. cbn [app].
        rewrite match_nonempty by (try apply snoc_nonempty; apply repeat_nonempty; assumption).
        rewrite mean_repeat_snoc, (mean_repeat v q Hq). reflexivity.
      + assert (Eg : Rleb g t = false) by (apply Rleb_false; lra).
        assert (Fg : Rltb t g = true) by (apply Rltb_true; lra).
        rewrite Eg, Fg. exists TB. split; [right; reflexivity|]. cbn [app]. rewrite app_nil_r.
        rewrite match_nonempty1 by (apply repeat_nonempty; assumption).
        rewrite mean_cons_repeat, (mean_repeat u p Hp). reflexivity.
    - (* v < g < u *)
      assert (Eu : Rleb u t = false) by (apply Rleb_false; lra).
      assert (Ev : Rleb v t = true) by (apply Rleb_true; lra).
      assert (Fu : Rltb t u = true) by (apply Rltb_true; lra).
      assert (Fv : Rltb t v = false) by (apply Rltb_false; lra).
      rewrite Eu, Ev, Fu, Fv.
      destruct (Rle_dec g t) as [Hg|Hg].
      + assert (Eg : Rleb g t = true) by (apply Rleb_true; lra).
        assert (Fg : Rltb t g = false) by (apply Rltb_false; lra).
        rewrite Eg, Fg. exists TB. split; [right; reflexivity|]. cbn [app]. rewrite app_nil_r.
        rewrite match_nonempty1 by (apply repeat_nonempty; assumption).
        rewrite mean_cons_repeat, (mean_repeat u p Hp).
        replace TB with ((mw g q v + u) / 2) by (unfold TB; lra). reflexivity.
      + assert (Eg : Rleb g t = false) by (apply Rleb_false; lra).
        assert (Fg : Rltb t g = true) by (apply Rltb_true; lra).
        rewrite Eg, Fg. exists TA. split; [left; reflexivity|]. cbn [app].
        rewrite match_nonempty by (try apply snoc_nonempty; apply repeat_nonempty; assumption).
        rewrite mean_repeat_snoc, (mean_repeat v q Hq).
        replace TA with ((v + mw g p u) / 2) by (unfold TA; lra). reflexivity.
  Qed.

  Lemma isodata_loop_two_level eps : forall f t, inrange t ->
    @isodata_loop RNum (S f) arr eps t = TA \/ @isodata_loop RNum (S f) arr eps t = TB.
  Proof.
    induction f as [|f IH]; intros t Ht.
    - destruct (isodata_step 0 eps t Ht) as [nt [Hnt Heq]]; rewrite Heq.
      cbn [isodata_loop]. destruct (Rltb (Rabs (nt - t)) eps); destruct Hnt; subst; auto.
    - destruct (isodata_step (S f) eps t Ht) as [nt [Hnt Heq]]; rewrite Heq.
      destruct (Rltb (Rabs (nt - t)) eps); [destruct Hnt; subst; auto|].
      apply IH. destruct Hnt; subst; [apply TA_inrange|apply TB_inrange].
  Qed.

  (* uts.thresholding.isodata (any eps, any positive iteration budget) on a two-level array *)
  Theorem isodata_two_level eps max_iter : (1 <= max_iter)%nat ->
    let T := @isodata_fuel RNum max_iter arr eps in
    (T = TA \/ T = TB) /\ Rabs (g - T) < Rabs (u - T) /\ Rabs (g - T) < Rabs (v - T).
  Proof.
    intros Hm T.
    assert (HT : T = TA \/ T = TB).
    { unfold T, isodata_fuel. destruct max_iter as [|f]; [lia|].
      assert (Hne : arr <> []) by (unfold two_level; destruct (repeat u p); discriminate).
      destruct arr as [|a l] eqn:Earr; [contradiction|]. rewrite <- Earr.
      apply isodata_loop_two_level. apply mean_arr_inrange. }
    split; [exact HT|]. destruct HT as [->| ->]; [apply TA_close|apply TB_close].
  Qed.

  (* dfdt.get_knee_gradient on a two-level array returns the position of g *)
  Lemma get_knee_gradient_two_level eps : @dfdt_get_knee_gradient RNum eps arr = p.
  Proof.
    unfold dfdt_get_knee_gradient.
    destruct (isodata_two_level eps 100 ltac:(lia)) as [_ [C1 C2]]. cbv zeta in C1, C2.
    change (@isodata_fuel RNum 100 arr eps) with (@isodata RNum arr eps) in C1, C2.
    set (Th := @isodata RNum arr eps) in *.
    set (f := fun x : R => Rabs (x - Th)).
    change (S (@argmin RNum (interior (map f arr))) = p).
    assert (HL : length (map f arr) = (p + 1 + q)%nat) by (rewrite map_length; apply two_level_length).
    assert (HN : forall i, (i < p + 1 + q)%nat -> nth i (map f arr) 0 = f (nth i arr 0)).
    { intros i Hi. rewrite (nth_indep _ 0 (f 0)) by (rewrite HL; exact Hi). apply map_nth. }
    enough (HA : @argmin RNum (interior (map f arr)) = (p - 1)%nat) by (rewrite HA; lia).
    apply argmin_R_unique.
    - rewrite interior_length, HL. lia.
    - intros j Hj Hne. rewrite interior_length, HL in Hj.
      rewrite !interior_nth by (rewrite HL; lia). rewrite !HN by lia.
      replace (S (p - 1)) with p by lia. rewrite two_level_nth_mid.
      destruct (Nat.lt_ge_cases (S j) p) as [Hlt|Hge].
      + rewrite two_level_nth_lo by exact Hlt. exact C1.
      + rewrite two_level_nth_hi by lia. exact C2.
  Qed.
End Isodata.

(* ------------------------------------------------------------------ the DFDT loop *)
Lemma dfdt_step f eps (g : list R) last_knee knee cutoff :
  @dfdt_loop RNum (S f) eps g last_knee knee cutoff =
  if (match last_knee with Some l => (l <? knee)%nat | None => true end) && (2 <? length g - cutoff)%nat then
    let k := (@dfdt_get_knee_gradient RNum eps (skipn cutoff g) + cutoff)%nat in
    @dfdt_loop RNum f eps g (Some knee) k ((k + 1) / 2)
  else Some knee.
Proof. reflexivity. Qed.
Lemma dfdt_stop f eps (g : list R) l knee cutoff : (l <? knee)%nat = false ->
  @dfdt_loop RNum f eps g (Some l) knee cutoff = Some knee.
Proof. intros H. destruct f; cbn [dfdt_loop]; rewrite H; reflexivity. Qed.

(* dfdt.knee returns the corner of every exact two-slope elbow (any eps) *)
Theorem dfdt_elbow (pts : list (R * R)) (c : nat) (m1 m2 eps : R) :
  elbow pts c m1 m2 -> @dfdt_knee RNum eps pts = Some c.
Proof.
  intros E. pose proof (el_lo _ _ _ _ E) as Hlo. pose proof (el_hi _ _ _ _ E) as Hhi.
  pose proof (corner_gradient_between pts c m1 m2 E) as Hb.
  unfold dfdt_knee. rnorm. rewrite (cfd_elbow pts c m1 m2 E).
  set (g := corner_gradient pts c m1 m2) in *. set (b := (length pts - 1 - c)%nat).
  replace (length pts + 1)%nat with (S (S (length pts - 1))) by lia.
  (* first pass *)
  rewrite dfdt_step. rewrite two_level_length.
  assert (H1 : (2 <? c + 1 + b - 0)%nat = true) by (apply Nat.ltb_lt; lia).
  rewrite H1. cbn [andb]. cbv zeta. cbn [skipn].
  rewrite (get_knee_gradient_two_level m1 g m2 c b Hb) by lia. rewrite Nat.add_0_r.
  (* refinement pass on gradient[ceil(c/2):] *)
  rewrite dfdt_step. rewrite two_level_length.
  assert (Hcut : ((c + 1) / 2 <= c - 1)%nat).
  { apply Nat.div_le_upper_bound; lia. }
  assert (H2 : ((0 <? c) && (2 <? c + 1 + b - (c + 1) / 2))%nat = true).
  { apply andb_true_iff. split; [apply Nat.ltb_lt; lia|apply Nat.ltb_lt; lia]. }
  rewrite H2. cbv zeta.
  rewrite two_level_skipn by lia.
  rewrite (get_knee_gradient_two_level m1 g m2 (c - (c + 1) / 2) b Hb) by lia.
  replace (c - (c + 1) / 2 + (c + 1) / 2)%nat with c by lia.
  apply dfdt_stop. apply Nat.ltb_irrefl.
Qed.
