(* Proofs/ZmethodSet.v — C10: every result the set-valued executable model (`explore`, `knees_set`) returns is the
   result of the parametric model under SOME processing order that is a permutation of every candidate list, so the
   theorems (stated for every such order) hold of every member of the set. *)
From Coq Require Import ZArith List Bool Arith Lia Permutation Sorted.
From Knee Require Import Num NpList Model.Zmethod Proofs.ListFacts Proofs.ZmethodLists.
Import ListNotations.
Local Open Scope num_scope.

Lemma nat_list_eqb_eq (a b : list nat) : nat_list_eqb a b = true -> a = b.
Proof.
  revert b; induction a as [|x a IH]; intros [|y b] H; cbn in H; try discriminate; auto.
  apply andb_true_iff in H. destruct H as [H1 H2]. apply Nat.eqb_eq in H1. f_equal; auto.
Qed.
Lemma map_nth_seq {A} (l : list A) d : map (fun i => nth i l d) (seq 0 (length l)) = l.
Proof.
  induction l as [|a l IH]; [reflexivity|].
  cbn [length seq map nth]. f_equal. rewrite <- seq_shift, map_map. exact IH.
Qed.

Section SetSound.
  Context {N : Num}.
  Variables (w h dz minz : T N).

  Lemma apply_perm_perm pi (l : list (@row N)) : Permutation (apply_perm pi l) l.
  Proof.
    unfold apply_perm. destruct (nat_list_eqb (sort_nat pi) (seq 0 (length l))) eqn:E; [|reflexivity].
    apply nat_list_eqb_eq in E.
    eapply Permutation_trans; [apply Permutation_map; apply sort_nat_perm|].
    rewrite E, map_nth_seq. reflexivity.
  Qed.

  Lemma loop_ext ord1 ord2 fuel : forall j thr pts outs,
    (forall j' l, j <= j' -> ord1 j' l = ord2 j' l) ->
    loop w h dz minz ord1 fuel j thr pts outs = loop w h dz minz ord2 fuel j thr pts outs.
  Proof.
    induction fuel as [|fuel IH]; intros j thr pts outs He; cbn [loop]; [reflexivity|].
    destruct (round_cands w thr pts) as [cos|]; [|reflexivity].
    rewrite (He j cos (le_n j)).
    destruct (step w h minz thr j pts outs (ord2 j cos)) as [r|[pts' outs']]; [reflexivity|].
    apply IH. intros; apply He; lia.
  Qed.

  Theorem explore_sound fuel : forall j thr pts outs rs r,
    explore w h dz minz fuel j thr pts outs = Some rs -> In r rs ->
    exists ord, (forall j' l, Permutation (ord j' l) l) /\ loop w h dz minz ord fuel j thr pts outs = r.
  Proof.
    induction fuel as [|fuel IH]; intros j thr pts outs rs r H Hr; cbn [explore] in H.
    - inversion H; subst. destruct Hr as [<-|[]]. exists (fun _ l => l). split; [reflexivity|reflexivity].
    - cbn [loop]. destruct (round_cands w thr pts) as [cos|] eqn:Er.
      2: { inversion H; subst. destruct Hr as [<-|[]]. exists (fun _ l => l). split; [reflexivity|reflexivity]. }
      destruct (tie_orders cos) as [pis|]; [|discriminate].
      destruct (collect_In _ _ _ _ H r Hr) as [[]|[pi [rs' [_ [Hf Hr']]]]].
      destruct (step w h minz thr j pts outs (apply_perm pi cos)) as [r0|[pts' outs']] eqn:Es.
      + inversion Hf; subst. destruct Hr' as [<-|[]].
        exists (fun _ l => apply_perm pi l). split; [intros; apply apply_perm_perm|]. rewrite Es. reflexivity.
      + destruct (IH _ _ _ _ _ _ Hf Hr') as [ord' [Hp Hl]].
        exists (fun j' l => if j' =? j then apply_perm pi l else ord' j' l). split.
        * intros j' l. destruct (j' =? j); [apply apply_perm_perm|apply Hp].
        * rewrite Nat.eqb_refl, Es. rewrite <- Hl. apply loop_ext.
          intros j' l Hj. destruct (Nat.eqb_spec j' j); [lia|reflexivity].
  Qed.
End SetSound.

(* every member of knees_set is the value of `knees` under some admissible processing order *)
Theorem knees_set_sound {N : Num} fuel (rows : list (@row N)) dx dy dz xmax yr rs r :
  knees_set fuel rows dx dy dz xmax yr = Some rs -> In r rs ->
  exists ord, (forall j l, Permutation (ord j l) l) /\ knees ord fuel rows dx dy dz xmax yr = r.
Proof.
  unfold knees_set, knees, getPoints. destruct (params rows dx dy xmax yr) as [[p|]|].
  - destruct (explore (zp_w p) (zp_h p) dz (zp_minz p) fuel 0 (ofZ 3) rows []) as [rs0|] eqn:Ee; [|discriminate].
    intros H Hr. inversion H; subst. apply in_map_iff in Hr. destruct Hr as [r0 [<- Hr0]].
    destruct (explore_sound _ _ _ _ _ _ _ _ _ _ _ Ee Hr0) as [ord [Hp Hl]].
    exists ord. split; auto. rewrite Hl. reflexivity.
  - intros H Hr. inversion H; subst. destruct Hr as [<-|[]]. exists (fun _ l => l). split; reflexivity.
  - intros H Hr. inversion H; subst. destruct Hr as [<-|[]]. exists (fun _ l => l). split; reflexivity.
Qed.
