(* Proofs/ZmethodR.v — C10, Tier A (the model instantiated with Coq's reals):
   z_separated  the tests of z_inv mean |x_a - x_b| >= w and |y_a - y_b| >= h,
   z_total_R    both preconditions of z_total hold with K = ceil((3 - min z)/dz) when dz > 0 and w > 0. *)
From Coq Require Import Reals ZArith List Bool Arith Lia Lra Permutation Sorted.
From Knee Require Import Num NumR NpList Model.Zmethod Proofs.ZmethodLists Proofs.ZmethodCand Proofs.ZmethodFacts
  Proofs.ZmethodOutput.
Import ListNotations.
Local Open Scope R_scope.

Lemma SSR_filter {A} (f : A -> R) (g : A -> bool) l :
  StronglySorted Rlt (map f l) -> StronglySorted Rlt (map f (filter g l)).
Proof.
  induction l as [|a l IH]; cbn; intros H; [constructor|].
  inversion H as [|? ? HS Ha]; subst. destruct (g a); cbn; auto.
  constructor; auto. rewrite Forall_forall in *. intros x Hx. apply Ha.
  apply in_map_iff in Hx. destruct Hx as [y [<- Hy]]. apply filter_In in Hy. apply in_map. tauto.
Qed.
Lemma SSR_nth_lt (l : list R) d : StronglySorted Rlt l -> forall i j, (i < j)%nat -> (j < length l)%nat -> nth i l d < nth j l d.
Proof.
  induction 1 as [|a l HS IH Ha]; intros i j Hij Hj; cbn in Hj; [lia|].
  destruct j as [|j]; [lia|]. destruct i as [|i]; cbn [nth].
  - rewrite Forall_forall in Ha. apply Ha. apply nth_In. lia.
  - apply IH; lia.
Qed.
Lemma SSR_nth_le (l : list R) d : StronglySorted Rlt l -> forall i j, (i <= j)%nat -> (j < length l)%nat -> nth i l d <= nth j l d.
Proof.
  intros HS i j Hij Hj. destruct (Nat.eq_dec i j) as [->|Hne]; [lra|].
  left. apply SSR_nth_lt; auto; lia.
Qed.

Section SepR.
  Variables (w h : R).
  Variable rows0 : list (@row RNum).
  Hypothesis Hsorted : StronglySorted Rlt (map (@rx RNum) rows0).

  Lemma keepx_R (ox x : R) : @keepx RNum w ox x = true -> w <= Rabs (ox - x).
  Proof.
    unfold keepx. cbn. intros H. apply orb_true_iff in H. destruct H as [H|H]; apply Rleb_true in H;
      unfold Rabs; destruct (Rcase_abs (ox - x)); lra.
  Qed.
  Lemma xat_nth (cs : list (@row RNum)) i : @xat RNum cs i = nth i (map (@rx RNum) cs) 0.
  Proof. unfold xat. change 0 with (@rx RNum row0). symmetry. apply map_nth. Qed.
  Lemma GapSep_R (xa xb : R) : @GapSep RNum w rows0 xa xb -> w <= xb - xa.
  Proof.
    intros [f [g1 [g2 [k [Hg [[Hlen Hgap] [Hk [Ha [Hb Hxk]]]]]]]]].
    set (cs := filter f rows0) in *.
    assert (HS : StronglySorted Rlt (map (@rx RNum) cs)) by (apply SSR_filter; exact Hsorted).
    rewrite !xat_nth in *.
    apply (proj1 (Rleb_true _ _)) in Hgap. apply (proj1 (Rleb_true _ _)) in Ha. apply (proj1 (Rltb_true _ _)) in Hb.
    change (@sub RNum) with Rminus in Hgap.
    rewrite <- (map_length (@rx RNum) cs) in Hlen, Hk. change (T RNum) with R in *.
    assert (Hk2 : (g2 < k)%nat).
    { destruct (Nat.lt_ge_cases g2 k) as [|Hge]; auto. exfalso.
      pose proof (SSR_nth_le _ 0 HS k g2 Hge ltac:(lia)). lra. }
    pose proof (SSR_nth_le _ 0 HS g1 g2 Hg ltac:(lia)).
    pose proof (SSR_nth_le _ 0 HS (S g2) k ltac:(lia) Hk). lra.
  Qed.

  Lemma XS_R o1 o2 : @XS RNum w rows0 o1 o2 -> w <= Rabs (fst o1 - fst o2).
  Proof.
    intros [H|[H|H]].
    - apply keepx_R; auto.
    - apply GapSep_R in H. unfold Rabs; destruct (Rcase_abs (fst o1 - fst o2)); lra.
    - apply GapSep_R in H. unfold Rabs; destruct (Rcase_abs (fst o1 - fst o2)); lra.
  Qed.
  Lemma YS_R o1 o2 : @YS RNum h o1 o2 -> h <= Rabs (snd o1 - snd o2).
  Proof.
    unfold YS, ysep. cbn. intros H. apply Rleb_true in H. rewrite Rabs_minus_sym. exact H.
  Qed.

  (* z_separated: any two selected outliers are at least w apart in x and at least h apart in y *)
  Theorem z_separated_loop dz minz ord fuel thr pts outs k :
    (forall j l, Permutation (ord j l) l) ->
    @loop RNum w h dz minz ord fuel 0 thr rows0 [] = RDone (pts, outs) k ->
    ForallOrdPairs (fun o1 o2 : R * R => w <= Rabs (fst o1 - fst o2) /\ h <= Rabs (snd o1 - snd o2)) outs.
  Proof.
    intros Hord H. destruct (z_inv_loop _ _ _ _ rows0 ord Hord _ _ _ _ _ H) as [_ [HS _]].
    eapply FOP_impl; [|exact HS]. cbn beta. intros a b [Hy Hx]. split; [apply XS_R|apply YS_R]; auto.
  Qed.
End SepR.

(* integers are represented exactly in R *)
Lemma Rfloor_IZR k : Rfloor (IZR k) = k.
Proof.
  unfold Rfloor. assert (up (IZR k) = (k + 1)%Z); [|lia].
  symmetry. apply tech_up; rewrite plus_IZR; lra.
Qed.
Lemma Rtrunc_IZR k : Rtrunc (IZR k) = k.
Proof.
  unfold Rtrunc, Rceil. destruct (Rlt_dec (IZR k) 0); [|apply Rfloor_IZR].
  rewrite <- opp_IZR, Rfloor_IZR. lia.
Qed.
Lemma Rltb_IZR a b : Rltb (IZR a) (IZR b) = (a <? b)%Z.
Proof.
  destruct (Z.ltb_spec a b) as [H|H].
  - apply Rltb_true. apply IZR_lt; auto.
  - apply Rltb_false. apply IZR_le; auto.
Qed.

Section KneesR.
  Variable ord : nat -> list (@row RNum) -> list (@row RNum).
  Hypothesis Hord : forall j l, Permutation (ord j l) l.
  Variable ks : list Z.
  Hypothesis Hks : StronglySorted Z.lt ks.
  Variable rows : list (@row RNum).
  Hypothesis Hxs : map (@rx RNum) rows = map IZR ks.

  Lemma rows_sorted : StronglySorted Rlt (map (@rx RNum) rows).
  Proof.
    rewrite Hxs. clear Hxs. induction Hks as [|a l HS IH Ha]; cbn; constructor; auto.
    rewrite Forall_forall in *. intros x Hx. apply in_map_iff in Hx. destruct Hx as [b [<- Hb]].
    apply IZR_lt. auto.
  Qed.

  (* z_separated for the value of zmethod.knees: the returned indices are pairwise at least w apart in x and h in y,
     w = max(1, floor(x_max dx)), h = (y_max - y_min) dy being the parameters the run computed *)
  Theorem z_separated fuel dx dy dz xmax yr ix k p :
    @params RNum rows dx dy xmax yr = Some (Some p) ->
    @knees RNum ord fuel rows dx dy dz xmax yr = RDone ix k ->
    @xsep_ok RNum (zp_w p) (map (@rx RNum) rows) ix = true /\ @ysep_ok RNum (zp_h p) (map (@ry RNum) rows) ix = true.
  Proof.
    intros Hp H.
    assert (Htr : forall k, In k ks -> @truncZ RNum (ofZ k) = Some k) by (intros; cbn; f_equal; apply Rtrunc_IZR).
    assert (Hlt : forall a b, In a ks -> In b ks -> @ltb RNum (ofZ a) (ofZ b) = (a <? b)%Z) by (intros; cbn; apply Rltb_IZR).
    split; [|eapply (z_output_ysep ord Hord ks Hks Htr Hlt rows Hxs); eauto].
    destruct (z_output_pairs ord Hord ks Hks Htr Hlt rows Hxs _ _ _ _ _ _ _ _ _ Hp H) as [HP _]. cbn zeta in HP.
    unfold xsep_ok. apply FOP_pairwise. eapply FOP_impl; [|exact HP]. cbn beta.
    intros a b Hab. cbn. apply Rleb_true.
    destruct Hab as [[_ Hx]|[_ Hx]]; apply (XS_R _ _ rows_sorted) in Hx; cbn [fst] in Hx.
    - rewrite Rabs_minus_sym. exact Hx.
    - exact Hx.
  Qed.
End KneesR.

(* ---------------- z_total_R ---------------- *)
Lemma sched_R (dz : R) j : @sched RNum dz j = 3 - INR j * dz.
Proof.
  induction j as [|j IH]; [cbn; lra|].
  change (@sched RNum dz (S j)) with (@sched RNum dz j - dz). rewrite IH, S_INR. lra.
Qed.
Lemma Rceil_ge x : x <= IZR (Rceil x).
Proof.
  unfold Rceil, Rfloor. destruct (archimed (- x)) as [H1 H2].
  rewrite opp_IZR, minus_IZR. lra.
Qed.
Definition K_R (dz minz : R) : nat := Z.to_nat (Rceil ((3 - minz) / dz)).

Theorem z_total_pre_R (w h dz minz : R) (rows : list (@row RNum)) m :
  0 < dz -> 0 < w ->
  @sched_ok RNum dz minz (K_R dz minz) m = true /\ @self_removed RNum w h rows = true.
Proof.
  intros Hdz Hw. split.
  - unfold sched_ok. rewrite forallb_forall. intros j Hj. apply in_seq in Hj. cbn. apply Rleb_true.
    rewrite sched_R.
    assert (HK : (3 - minz) / dz <= INR (K_R dz minz)).
    { unfold K_R. rewrite INR_IZR_INZ. pose proof (Rceil_ge ((3 - minz) / dz)) as Hc.
      eapply Rle_trans; [exact Hc|]. apply IZR_le. lia. }
    assert (Hj' : INR (K_R dz minz) <= INR j) by (apply le_INR; lia).
    assert (Hq : (3 - minz) / dz * dz = 3 - minz) by (field; lra).
    assert (INR j * dz >= (3 - minz) / dz * dz) by nra. lra.
  - unfold self_removed. rewrite forallb_forall. intros r _. apply negb_true_iff.
    unfold keep. apply andb_false_iff. left. unfold keepx. cbn.
    apply orb_false_iff. split; apply Rleb_false; lra.
Qed.

(* z_total_R: on the reals the loop stops within ceil((3 - min z)/dz) + n + 2 rounds whenever dz > 0 and w > 0 *)
Theorem z_total_R (w h dz minz : R) ord (rows : list (@row RNum)) :
  (forall j l, Permutation (ord j l) l) -> 0 < dz -> 0 < w ->
  let B := (K_R dz minz + length rows + 2)%nat in
  match @loop RNum w h dz minz ord B 0 (IZR 3) rows [] with
  | RFuel => False
  | RErr => True
  | RDone _ k => (k <= B)%nat
  end.
Proof.
  intros Hord Hdz Hw. destruct (z_total_pre_R w h dz minz rows (length rows + 2) Hdz Hw) as [H1 H2].
  exact (@z_total_loop RNum w h dz minz ord rows (K_R dz minz) Hord H1 H2).
Qed.

(* z_total_R for the value of zmethod.knees *)
Theorem z_total_knees_R ord (rows : list (@row RNum)) (dx dy dz : R) xmax yr p :
  (forall j l, Permutation (ord j l) l) ->
  @params RNum rows dx dy xmax yr = Some (Some p) -> 0 < dz -> 0 < zp_w p ->
  let B := (K_R dz (zp_minz p) + length rows + 2)%nat in
  match @knees RNum ord B rows dx dy dz xmax yr with
  | RFuel => False
  | RErr => True
  | RDone _ k => (k <= B)%nat
  end.
Proof.
  intros Hord Hp Hdz Hw.
  destruct (z_total_pre_R (zp_w p) (zp_h p) dz (zp_minz p) rows (length rows + 2) Hdz Hw) as [H1 H2].
  exact (@z_total RNum ord rows dx dy dz xmax yr p (K_R dz (zp_minz p)) Hord Hp H1 H2).
Qed.
(* ... and the width is positive by construction: w = max(1, floor(x_max dx)) >= 1 *)
Lemma params_w_pos (rows : list (@row RNum)) dx dy xmax yr p :
  @params RNum rows dx dy xmax yr = Some (Some p) -> 1 <= zp_w p.
Proof.
  unfold params. destruct (y_bounds (map ry rows) yr) as [ymax ymin].
  destruct (length rows <? 4)%nat; [discriminate|]. destruct (@eqb RNum ymin one); [discriminate|].
  unfold x_width. cbn. intros H. inversion H; subst. cbn. apply IZR_le. lia.
Qed.
