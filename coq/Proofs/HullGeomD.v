(* Proofs/HullGeomD.v — C18, Tier A: the chain argument of HullGeom.v once more, abstracted from coordinates.
   The monotone-chain reasoning only needs an orientation function cc, a positive "separation" D a b for a < b, and
   six three-term (Grassmann-Pluecker) identities between them.  HullGeom.v is the instance D a b = X b - X a
   (pivot at infinity); HullGrahamFull.v uses the instance D a b = ccw(pivot, b, a) (angular order around the pivot). *)
From Coq Require Import Reals Lra List Arith Bool Lia Permutation.
From Knee Require Import Num NumR NpList Model.Hull Proofs.ListFacts Proofs.HullScan Proofs.HullGeom.
Import ListNotations.
Local Open Scope R_scope.

Lemma list_nil_dec {A} (l : list A) : l = [] \/ l <> [].
Proof. destruct l; [left; reflexivity|right; congruence]. Qed.

Section AbstractD.
  Variable cc : nat -> nat -> nat -> R.
  Variable D : nat -> nat -> R.
  Variable n : nat.
  Hypothesis Dpos : forall i j, (i < j < n)%nat -> 0 < D i j.
  Hypothesis Dii : forall i, D i i = 0.
  Hypothesis cc_aba : forall a b, cc a b a = 0.
  Hypothesis cc_abb : forall a b, cc a b b = 0.
  Hypothesis cc_swap : forall a b c, cc a c b = - cc a b c.
  Hypothesis I1 : forall a b i k, cc a i k * D a b = cc a b k * D a i + (- cc a b i) * D a k.
  Hypothesis I2 : forall a b i k, cc a i k * D b i = cc b i k * D a i + (- cc a b i) * D k i.
  Hypothesis I3 : forall p s t k, cc p s k * D s t = cc s t k * D p s + cc p s t * D s k.
  Hypothesis I4 : forall o p s k, cc p s k * D o p = cc o p k * D p s + cc o p s * D k p.
  Hypothesis I5a : forall a h s p, cc a h s * D p h = cc p h a * D h s + cc p h s * D a h.
  Hypothesis I5b : forall a h s b, cc a h b * D h s = cc h s b * D a h + cc a h s * D h b.

  Lemma Dle i j : (i <= j < n)%nat -> 0 <= D i j.
  Proof. intros H. destruct (Nat.eq_dec i j) as [->|]; [rewrite Dii; lra|]. apply Rlt_le. apply Dpos. lia. Qed.

  Definition gcovers : list nat -> Prop := pairs (fun a b => forall k, (a <= k <= b)%nat -> 0 <= cc a b k).
  Definition gconvex : list nat -> Prop := trip (fun a b c => 0 < cc a b c).
  Definition gvertex (k : nat) : Prop := forall a b, (a < k < b)%nat -> (b < n)%nat -> 0 < cc a k b.
  Definition gtestD (a b i : nat) : bool := Rleb (cc a b i) 0.

  Lemma gpop_good i : (i < n)%nat -> forall st,
    st <> [] -> Forall (fun y => (y < i)%nat) st -> SI (rev st) -> gcovers (rev st) ->
    (forall k, (hd 0%nat st <= k <= i)%nat -> 0 <= cc (hd 0%nat st) i k) ->
    forall k, (hd 0%nat (pop_while gtestD i st) <= k <= i)%nat -> 0 <= cc (hd 0%nat (pop_while gtestD i st)) i k.
  Proof.
    intros Hi. induction st as [|b st IH]; intros Hne HF HS HC Hgood; [congruence|].
    destruct st as [|a r]; [exact Hgood|].
    cbn [pop_while]. destruct (gtestD a b i) eqn:Et; [|exact Hgood].
    unfold gtestD in Et. apply Rleb_true in Et.
    rewrite rev_cons2 in HS, HC.
    apply SI_pairs in HS. apply pairs_snoc_iff in HS. destruct HS as [HS Hab]. apply SI_pairs in HS.
    unfold gcovers in HC. apply pairs_snoc_iff in HC. destruct HC as [HC Hedge].
    inversion HF as [|? ? Hb HF']; subst. inversion HF' as [|? ? Ha _]; subst.
    apply IH; auto; [congruence|].
    cbn [hd] in *. intros k Hk.
    destruct (le_lt_dec k b) as [Hkb|Hkb].
    - apply (lin_nonneg _ (D a b) (cc a b k) (D a i) (- cc a b i) (D a k)); try lra.
      + apply I1. + apply Dpos; lia. + apply Hedge; lia. + apply Dle; lia. + apply Dle; lia.
    - apply (lin_nonneg _ (D b i) (cc b i k) (D a i) (- cc a b i) (D k i)); try lra.
      + apply I2. + apply Dpos; lia. + apply Hgood; lia. + apply Dle; lia. + apply Dle; lia.
  Qed.

  Definition GInvD (i : nat) (st : list nat) : Prop :=
    st <> [] /\ hd 0%nat st = (i - 1)%nat /\ Forall (fun y => (y < i)%nat) st /\ SI (rev st) /\ gcovers (rev st).

  Lemma GInvD_step i st : (1 <= i < n)%nat -> GInvD i st -> GInvD (S i) (scan_step gtestD st i).
  Proof.
    intros Hi (Hne & Hhd & HF & HS & HC). unfold scan_step.
    pose proof (gpop_good i ltac:(lia) st Hne HF HS HC) as Hgood.
    destruct (pop_suffix gtestD i st) as [pre Hpre].
    pose proof (pop_nonempty gtestD i st Hne) as Hne'.
    set (st' := pop_while gtestD i st) in *.
    assert (Hrev : rev st = rev st' ++ rev pre) by (rewrite Hpre at 1; apply rev_app_distr).
    assert (HF' : Forall (fun y => (y < i)%nat) st') by (rewrite Hpre in HF; apply Forall_app in HF; tauto).
    assert (HS' : SI (rev st')) by (rewrite Hrev in HS; apply SI_app_inv in HS; tauto).
    assert (HC' : gcovers (rev st')) by (rewrite Hrev in HC; apply pairs_prefix in HC; exact HC).
    repeat split.
    - congruence.
    - cbn [hd]. lia.
    - constructor; [lia|]. eapply Forall_impl; [|exact HF']. cbn. intros; lia.
    - cbn [rev]. apply SI_snoc; auto. rewrite Forall_forall in *. intros y Hy. apply in_rev in Hy. auto.
    - destruct st' as [|a r]; [congruence|]. rewrite rev_cons2. unfold gcovers. apply pairs_snoc_iff. split.
      + exact HC'.
      + cbn [hd] in Hgood. apply Hgood. rewrite Hhd. intros k Hk.
        assert (k = (i - 1)%nat \/ k = i) as [->| ->] by lia; [rewrite cc_aba; lra|rewrite cc_abb; lra].
  Qed.
  Lemma GInvD_fold m : forall i st, (1 <= i)%nat -> (i + m <= n)%nat -> GInvD i st ->
    GInvD (i + m) (fold_left (scan_step gtestD) (seq i m) st).
  Proof.
    induction m as [|m IH]; intros i st Hi Hn H.
    - cbn. rewrite Nat.add_0_r. exact H.
    - cbn [seq fold_left]. replace (i + S m)%nat with (S i + m)%nat by lia. apply IH; [lia|lia|].
      apply GInvD_step; [lia|exact H].
  Qed.
  Theorem gscan_covers : (2 <= n)%nat -> gcovers (scan gtestD 2 n).
  Proof.
    intros Hn. unfold scan, scan_stack.
    assert (H0 : GInvD 2 (rev (seq 0 2))).
    { cbn. repeat split; try congruence; auto.
      intros k Hk. assert (k = 0%nat \/ k = 1%nat) as [->| ->] by lia; [rewrite cc_aba; lra|rewrite cc_abb; lra]. }
    pose proof (GInvD_fold (n - 2) 2 _ ltac:(lia) ltac:(lia) H0) as H.
    replace (2 + (n - 2))%nat with n in H by lia. apply H.
  Qed.
  Theorem gscan_convex : (2 <= n)%nat -> gconvex (scan gtestD 2 n).
  Proof.
    intros Hn. destruct (scan_shape gtestD 2 ltac:(lia) n Hn) as (HS & Hhd & _ & _ & HT & _).
    apply (SI_trip_ge _ _ 0%nat); auto; [lia|].
    eapply trip_impl; [|exact HT]. unfold tested, gtestD. cbn. intros a b c H Hc.
    specialize (H ltac:(lia)). apply Rleb_false in H. exact H.
  Qed.

  Lemma gright_support : forall rest p s m,
    SI (p :: s :: rest) -> last (s :: rest) 0%nat = m -> (m < n)%nat ->
    gcovers (p :: s :: rest) -> gconvex (p :: s :: rest) ->
    forall k, (s <= k <= m)%nat -> 0 <= cc p s k.
  Proof.
    induction rest as [|t rest IH]; intros p s m HS Hlast Hm HC HV k Hk.
    - cbn in Hlast. assert (k = s) by lia. subst k. rewrite cc_abb. lra.
    - change (last (s :: t :: rest) 0%nat) with (last (t :: rest) 0%nat) in Hlast.
      pose proof HS as [Hps [Hst _]].
      assert (Htm : (t <= m)%nat).
      { rewrite <- Hlast. apply SI_le_last; [eapply SI_tl, SI_tl; eauto|left; reflexivity]. }
      destruct HC as [_ HC]. pose proof HC as [Hedge _]. destruct HV as [Hpst HV].
      assert (Hk2 : 0 <= cc s t k).
      { destruct (le_lt_dec k t); [apply Hedge; lia|].
        apply (IH s t m); auto; [eapply SI_tl; eauto|lia]. }
      apply (lin_nonneg _ (D s t) (cc s t k) (D p s) (cc p s t) (D s k)); try lra.
      + apply I3. + apply Dpos; lia. + apply Dle; lia. + apply Dle; lia.
  Qed.

  Lemma gleft_support : forall front p s,
    SI (front ++ [p; s]) -> (s < n)%nat -> gcovers (front ++ [p; s]) -> gconvex (front ++ [p; s]) ->
    forall k, (hd p front <= k <= p)%nat -> 0 <= cc p s k.
  Proof.
    induction front as [|o f' IH] using rev_ind; intros p s HS Hs HC HV k Hk.
    - cbn in Hk. assert (k = p) by lia. subst k. rewrite cc_aba. lra.
    - rewrite <- app_assoc in HS, HC, HV. cbn [app] in HS, HC, HV.
      rewrite hd_snoc in Hk.
      assert (HS' : SI (f' ++ [o; p])).
      { replace (f' ++ [o; p; s]) with ((f' ++ [o; p]) ++ [s]) in HS by (rewrite <- app_assoc; reflexivity).
        apply SI_app_inv in HS. tauto. }
      assert (Hop : (o < p)%nat) by (apply SI_pairs in HS'; apply pairs_mid in HS'; exact HS').
      assert (Hps : (p < s)%nat).
      { replace (f' ++ [o; p; s]) with ((f' ++ [o]) ++ [p; s]) in HS by (rewrite <- app_assoc; reflexivity).
        apply SI_pairs in HS. apply pairs_mid in HS. exact HS. }
      assert (HC' : gcovers (f' ++ [o; p])).
      { replace (f' ++ [o; p; s]) with ((f' ++ [o; p]) ++ [s]) in HC by (rewrite <- app_assoc; reflexivity).
        apply pairs_prefix in HC. exact HC. }
      assert (HV' : gconvex (f' ++ [o; p])).
      { replace (f' ++ [o; p; s]) with ((f' ++ [o; p]) ++ [s]) in HV by (rewrite <- app_assoc; reflexivity).
        apply trip_prefix in HV. exact HV. }
      assert (Hops : 0 < cc o p s) by (apply trip_mid in HV; exact HV).
      assert (Hk2 : 0 <= cc o p k).
      { destruct (le_lt_dec o k).
        - pose proof (pairs_mid _ _ _ _ _ HC') as Hedge. cbn in Hedge. apply Hedge. lia.
        - apply (IH o p); auto; lia. }
      apply (lin_nonneg _ (D o p) (cc o p k) (D p s) (cc o p s) (D k p)); try lra.
      + apply I4. + apply Dpos; lia. + apply Dle; lia. + apply Dle; lia.
  Qed.

  (* every edge line of a strictly convex covering chain from 0 to n-1 is a supporting line *)
  Theorem gchain_support out l1 p s l2 :
    SI out -> hd 1%nat out = 0%nat -> last out 0%nat = (n - 1)%nat -> gcovers out -> gconvex out ->
    out = l1 ++ p :: s :: l2 -> forall k, (k < n)%nat -> 0 <= cc p s k.
  Proof.
    intros HS Hhd Hlast HC HV E k Hk.
    assert (E' : out = (l1 ++ [p; s]) ++ l2) by (rewrite E, <- app_assoc; reflexivity).
    assert (Hsn : (s < n)%nat \/ n = 0%nat).
    { assert (s <= last out 0%nat)%nat by (apply SI_le_last; auto; rewrite E; apply in_or_app; right; right; left; reflexivity). lia. }
    destruct Hsn as [Hsn|Hn0]; [|lia].
    assert (Hhd0 : hd p l1 = 0%nat).
    { rewrite E in Hhd. destruct l1; cbn in Hhd |- *; exact Hhd. }
    destruct (le_lt_dec k p) as [Hkp|Hkp].
    - apply (gleft_support l1 p s); try lia.
      + rewrite E' in HS. apply SI_app_inv in HS. tauto.
      + rewrite E' in HC. apply pairs_prefix in HC. exact HC.
      + rewrite E' in HV. apply trip_prefix in HV. exact HV.
    - destruct (le_lt_dec s k) as [Hsk|Hsk].
      + apply (gright_support l2 p s (n - 1)%nat); try lia.
        * rewrite E in HS. apply SI_pairs in HS. apply pairs_suffix in HS. apply SI_pairs. exact HS.
        * rewrite <- Hlast. rewrite E. change (p :: s :: l2) with ([p] ++ s :: l2). rewrite app_assoc.
          symmetry. apply last_app_nonnil. congruence.
        * rewrite E in HC. apply pairs_suffix in HC. exact HC.
        * rewrite E in HV. apply trip_suffix in HV. exact HV.
      + rewrite E in HC. apply pairs_mid in HC. apply HC. lia.
  Qed.

  Theorem gchain_vertices out :
    SI out -> hd 1%nat out = 0%nat -> last out 0%nat = (n - 1)%nat -> (2 <= length out)%nat ->
    gcovers out -> gconvex out ->
    forall k, (k < n)%nat -> (In k out <-> gvertex k).
  Proof.
    intros HS Hhd Hlast Hlen HC HV k Hk. split.
    - intros Hin a b Hab Hb.
      apply in_split in Hin. destruct Hin as (l1 & l2 & E).
      destruct (list_nil_dec l1) as [->|Hl1].
      { rewrite E in Hhd. cbn in Hhd. lia. }
      destruct l2 as [|s l2'].
      { rewrite E in Hlast. rewrite last_last in Hlast. lia. }
      destruct (exists_last Hl1) as (l1' & p & E1). subst l1.
      assert (Ea : out = l1' ++ p :: k :: s :: l2') by (rewrite E, <- !app_assoc; reflexivity).
      assert (Eb : out = (l1' ++ [p]) ++ k :: s :: l2') by exact E.
      assert (Hpk : (p < k)%nat) by (rewrite Ea in HS; apply SI_pairs in HS; apply pairs_mid in HS; exact HS).
      assert (Hks : (k < s)%nat) by (rewrite Eb in HS; apply SI_pairs in HS; apply pairs_mid in HS; exact HS).
      assert (Hsn : (s < n)%nat).
      { assert (s <= last out 0%nat)%nat by (apply SI_le_last; auto; rewrite E; apply in_or_app; right; right; left; reflexivity). lia. }
      assert (HL : 0 <= cc p k a) by (apply (gchain_support out l1' p k (s :: l2')); auto; lia).
      assert (HR : 0 <= cc k s b) by (apply (gchain_support out (l1' ++ [p]) k s l2'); auto).
      assert (HM : 0 < cc p k s) by (rewrite Ea in HV; apply trip_mid in HV; exact HV).
      assert (Hs : 0 < cc a k s).
      { apply (lin_pos _ (D p k) (cc p k a) (D k s) (cc p k s) (D a k)); try lra.
        + apply I5a. + apply Dpos; lia. + apply Dle; lia. + apply Dpos; lia. }
      apply (lin_pos _ (D k s) (cc k s b) (D a k) (cc a k s) (D k b)); try lra.
      + apply I5b. + apply Dpos; lia. + apply Dle; lia. + apply Dpos; lia.
    - intros Hv. destruct (in_dec Nat.eq_dec k out) as [|Hn]; [assumption|exfalso].
      destruct (SI_gap out k HS) as (l1 & p & s & l2 & E & Hps); auto; [lia|].
      rewrite E in HC. apply pairs_mid in HC.
      assert (s <= last out 0%nat)%nat by (apply SI_le_last; auto; rewrite E; apply in_or_app; right; right; left; reflexivity).
      specialize (Hv p s Hps ltac:(lia)). specialize (HC k ltac:(lia)). rewrite cc_swap in Hv. lra.
  Qed.
End AbstractD.
