(* Proofs/RdpFixedBool.v — the boolean predicates of Model/RdpFixedSpec.v (the ones the correspondence run evaluates
   on the implementation's outputs) hold of the model's outputs: `holdsb input (model input) = true`. *)
From Coq Require Import List Arith Bool Lia Permutation.
From Knee Require Import Num NpList OrdLaws Model.Mapping Model.RdpFixed Model.RdpFixedSpec
     Proofs.ListFacts Proofs.MappingFacts Proofs.RdpFixedLists Proofs.RdpFixedFacts.
Import ListNotations.
Local Open Scope num_scope.

Lemma nat_list_eqb_refl l : nat_list_eqb l l = true.
Proof. induction l as [|a l IH]; [reflexivity|]. cbn. rewrite Nat.eqb_refl. exact IH. Qed.
Lemma nat_list_eqb_eq l1 : forall l2, nat_list_eqb l1 l2 = true -> l1 = l2.
Proof.
  induction l1 as [|a l1 IH]; intros [|b l2] H; cbn in H; try discriminate; [reflexivity|].
  apply andb_true_iff in H. destruct H as [H1 H2]. apply Nat.eqb_eq in H1. subst. f_equal. apply IH. exact H2.
Qed.
Lemma rows_eqb_refl (l : list row) : list_eqb row_eqb l l = true.
Proof. induction l as [|[a b] l IH]; [reflexivity|]. cbn. unfold row_eqb. cbn. rewrite !Nat.eqb_refl. exact IH. Qed.
Lemma out_eqb_refl o : out_eqb o o = true.
Proof. destruct o as [[r t]|]; [|reflexivity]. cbn. rewrite nat_list_eqb_refl, rows_eqb_refl. reflexivity. Qed.
Lemma first_nonzero_all0 l : (forall x, In x l -> x = 0) -> first_nonzero l = 0.
Proof.
  induction l as [|a l IH]; intros H; [reflexivity|]. cbn.
  rewrite (H a (or_introl eq_refl)). cbn. apply IH. intros x Hx. apply H. right. exact Hx.
Qed.
Lemma combine_seq_map {B} (f : nat -> B) m : forall a, combine (seq a m) (map f (seq a m)) = map (fun k => (k, f k)) (seq a m).
Proof. induction m as [|m IH]; intros a; [reflexivity|]. cbn. rewrite IH. reflexivity. Qed.
Lemma nth_map_seq {B} (f : nat -> B) d m a k : k < m -> nth k (map f (seq a m)) d = f (a + k).
Proof. intros H. rewrite (nth_indep _ d (f 0)) by (rewrite map_length, seq_length; exact H). rewrite map_nth, seq_nth; auto. Qed.

Section Bool6.
  Context {N : Num}.
  Variable n : nat.
  Variable eps : T N.
  Variable dist : nat -> nat -> list (T N).
  Variable prio : nat -> nat -> T N.
  Variable gcost : list nat -> T N.
  Hypothesis Hn : 2 <= n.
  Hypothesis Hshape : forall l r, l + 3 <= r -> r <= n -> length (dist l r) = r - l.
  Notation Sk := (Sk n eps dist prio).
  Notation kstar := (kstar n eps dist prio gcost).

  (* the model's own fixed-size chain [S_2; ...; S_n] *)
  Definition model_chain (fuel : nat) : list (list nat) :=
    map (fun k => red_of (rdp_fixed n eps dist prio fuel k)) (seq 2 (n - 1)).
  Lemma model_chain_Sk fuel : n <= fuel -> model_chain fuel = map Sk (seq 2 (n - 1)).
  Proof. intros Hf. unfold model_chain. apply map_ext. intros k. rewrite rdp_fixed_spec by auto. reflexivity. Qed.

  Lemma first_accepting_kstar_go is_r2 t : forall cnt k,
    first_accepting gcost is_r2 t (map Sk (seq k (S cnt))) = Sk (kstar_go n eps dist prio gcost is_r2 t k cnt).
  Proof.
    induction cnt as [|c IH]; intros k; [reflexivity|].
    change (seq k (S (S c))) with (k :: seq (S k) (S c)). cbn [map kstar_go].
    change (map Sk (seq (S k) (S c))) with (Sk (S k) :: map Sk (seq (S (S k)) c)) in *.
    cbn [first_accepting]. destruct (curved is_r2 t (gcost (Sk k))); [|reflexivity].
    specialize (IH (S k)). cbn [seq map] in IH. exact IH.
  Qed.
  Lemma first_accepting_kstar is_r2 t : first_accepting gcost is_r2 t (map Sk (seq 2 (n - 1))) = Sk (kstar is_r2 t).
  Proof. replace (n - 1) with (S (n - 2)) by lia. apply first_accepting_kstar_go. Qed.
  Lemma kstar_range is_r2 t : 2 <= kstar is_r2 t <= n.
  Proof. apply (kstar_FirstAcc n eps dist prio gcost Hn is_r2 t). Qed.
  Lemma chain_at_Sk k : 2 <= k <= n -> chain_at n (map Sk (seq 2 (n - 1))) k = Sk k.
  Proof.
    intros Hk. unfold chain_at. replace (Nat.min (Nat.max k 2) n - 2) with (k - 2) by lia.
    rewrite (nth_map_seq Sk) by lia. f_equal. lia.
  Qed.
  Lemma chain_at_clip k : chain_at n (map Sk (seq 2 (n - 1))) k = Sk k.
  Proof.
    destruct (le_lt_dec k 1) as [H1|H1].
    - unfold chain_at. replace (Nat.min (Nat.max k 2) n - 2) with 0 by lia. rewrite (nth_map_seq Sk) by lia.
      unfold RdpFixedFacts.Sk. f_equal. f_equal. lia.
    - destruct (le_lt_dec k n) as [H2|H2]; [apply chain_at_Sk; lia|].
      rewrite (Sk_clip n eps dist prio Hn Hshape k) by lia.
      unfold chain_at. replace (Nat.min (Nat.max k 2) n - 2) with (n - 2) by lia.
      rewrite (nth_map_seq Sk) by lia. f_equal. lia.
  Qed.

  (* C06: the judge's predicates are true of the model's outputs, for every oracle valuation *)
  Theorem grdp_ok_model is_r2 t fuel : n <= fuel ->
    grdp_ok gcost is_r2 t (model_chain fuel) (grdp n eps dist prio gcost is_r2 t fuel) = true.
  Proof.
    intros Hf. unfold grdp_ok. rewrite model_chain_Sk, first_accepting_kstar by auto.
    rewrite (grdp_kstar n eps dist prio gcost Hn Hshape) by auto. apply out_eqb_refl.
  Qed.
  Theorem mp_grdp_ok_model is_r2 t fuel m : n <= fuel ->
    mp_grdp_ok n gcost is_r2 t m (model_chain fuel) (mp_grdp n eps dist prio gcost is_r2 t fuel m) = true.
  Proof.
    intros Hf. unfold mp_grdp_ok. rewrite model_chain_Sk, first_accepting_kstar by auto.
    rewrite (Sk_length n eps dist prio Hn Hshape). pose proof (kstar_range is_r2 t) as Hk.
    replace (Nat.min (Nat.max (kstar is_r2 t) 2) n) with (kstar is_r2 t) by lia.
    rewrite chain_at_Sk by lia.
    rewrite (mp_grdp_kstar n eps dist prio gcost Hn Hshape) by auto. apply out_eqb_refl.
  Qed.
  Lemma min_point_pick_model m : forall ts,
    min_point_pick n gcost false m (map Sk (seq 2 (n - 1))) ts = Sk (mp_pick n eps dist prio gcost m ts).
  Proof.
    induction ts as [|t ts IH]; cbn [min_point_pick mp_pick].
    - apply chain_at_clip.
    - rewrite first_accepting_kstar. rewrite (Sk_length n eps dist prio Hn Hshape).
      pose proof (kstar_range false t) as Hk.
      replace (Nat.min (Nat.max (kstar false t) 2) n) with (kstar false t) by lia.
      destruct (m <=? kstar false t); [reflexivity|exact IH].
  Qed.
  Theorem min_point_ok_model ts fuel m : n <= fuel ->
    min_point_ok n gcost false ts m (model_chain fuel) (min_point_rdp n eps dist prio gcost fuel ts m) = true.
  Proof.
    intros Hf. unfold min_point_ok. rewrite model_chain_Sk, min_point_pick_model by auto.
    rewrite (min_point_rdp_spec n eps dist prio gcost Hn Hshape) by auto. apply out_eqb_refl.
  Qed.
End Bool6.

Lemma find_exists {A} (f : A -> bool) l : (exists x, In x l /\ f x = true) -> exists y, find f l = Some y.
Proof.
  induction l as [|a l IH]; intros (x & Hin & Hx); [destruct Hin|]. cbn.
  destruct (f a) eqn:E; [exists a; reflexivity|]. destruct Hin as [->|Hin]; [congruence|].
  apply IH. exists x. auto.
Qed.

Section Bool5.
  Context {N : Num}.
  Variable n : nat.
  Variable eps : T N.
  Variable dist : nat -> nat -> list (T N).
  Variable prio : nat -> nat -> T N.
  Hypothesis Hn : 2 <= n.
  Hypothesis Hshape : forall l r, l + 3 <= r -> r <= n -> length (dist l r) = r - l.
  Hypothesis HO : TotalPreorderOn (@notnan N).
  Notation Sk := (Sk n eps dist prio).
  Notation nested_at := (nested_at eps dist).

  (* at most one retained segment explains a refinement step *)
  Lemma nested_unique R R' ab ab' : SI R -> (forall x, In x R -> x <= n - 1) ->
    In ab (adj_pairs R) -> In ab' (adj_pairs R) ->
    nested_at R R' ab = true -> nested_at R R' ab' = true -> ab = ab'.
  Proof.
    intros HS Hle Hin Hin' H H'. destruct ab as [a b], ab' as [a' b'].
    unfold RdpFixedSpec.nested_at, wideb in H, H'. cbn [fst snd] in H, H'.
    apply andb_true_iff in H, H'. destruct H as [Hw E], H' as [Hw' E'].
    apply Nat.leb_le in Hw, Hw'. apply nat_list_eqb_eq in E, E'.
    apply Adj_AdjS in Hin, Hin'; auto.
    destruct Hin as (Ha & Hb & Hab & Hno), Hin' as (Ha' & Hb' & Hab' & Hno').
    pose proof (Hle b Hb) as Hbn. pose proof (Hle b' Hb') as Hbn'.
    pose proof (split_interior eps (dist a (b + 1)) ltac:(rewrite Hshape; lia)) as Hi. rewrite Hshape in Hi by lia.
    pose proof (split_interior eps (dist a' (b' + 1)) ltac:(rewrite Hshape; lia)) as Hi'. rewrite Hshape in Hi' by lia.
    set (g := a + split_guarded eps (dist a (b + 1))) in *.
    set (g' := a' + split_guarded eps (dist a' (b' + 1))) in *.
    assert (Hg' : In g' (insert_nat g R)) by (rewrite <- E, E'; apply insert_nat_In; left; reflexivity).
    apply insert_nat_In in Hg'.
    assert (g' = g) as Heq.
    { destruct Hg' as [Hg'|Hg']; [exact Hg'|]. destruct (Hno' g' Hg'); lia. }
    destruct (Hno a' Ha'); destruct (Hno b' Hb'); destruct (Hno' a Ha); destruct (Hno' b Hb); try lia.
    f_equal; lia.
  Qed.

  Lemma nonan_Forall (l : list (T N)) : nonan l = true -> Forall notnan l.
  Proof.
    unfold nonan. rewrite forallb_forall, Forall_forall. intros H x Hx. specialize (H x Hx).
    apply negb_true_iff in H. exact H.
  Qed.
  Lemma farthest_at_ok ab : nonan (interior (dist (fst ab) (snd ab + 1))) = true -> farthest_at eps dist ab = true.
  Proof.
    intros Hnn. unfold farthest_at. destruct (all_lt (dist (fst ab) (snd ab + 1)) eps) eqn:E; [reflexivity|].
    cbn [orb]. apply forallb_forall. intros x Hx.
    pose proof (split_farthest eps notnan _ HO (fun x H => H) E (nonan_Forall _ Hnn)) as HF.
    rewrite Forall_forall in HF. exact (HF x Hx).
  Qed.

  (* the priorities present along the chain are non-NaN, when the greedy clause is judged *)
  Definition prio_ordered (fuel : nat) : Prop :=
    notnan (@zero N) /\
    forall j a b, In (a, b) (adj_pairs (red_of (rdp_fixed n eps dist prio fuel j))) -> a + 2 <= b -> notnan (prio a (b + 1)).

  Lemma step_code_model fuel ordered k : n <= fuel -> (ordered = true -> prio_ordered fuel) -> 2 <= k -> k < n ->
    step_code eps dist prio ordered (Sk k) (Sk (k + 1)) = 0.
  Proof.
    intros Hf Hord H2 Hk.
    destruct (Sk_nested n eps dist prio Hn Hshape k H2 Hk) as (a & b & Hin & Hw & Hg & E).
    pose proof (state_at_inv n eps dist prio Hn Hshape (k - 2)) as HI. fold (Sk k) in HI.
    assert (HS : SI (Sk k)) by apply (inv_si _ _ _ _ HI).
    assert (Hle : forall x, In x (Sk k) -> x <= n - 1) by apply (inv_le _ _ _ _ HI).
    assert (Hnest : nested_at (Sk k) (Sk (k + 1)) (a, b) = true).
    { unfold RdpFixedSpec.nested_at, wideb. cbn [fst snd]. rewrite E, nat_list_eqb_refl.
      apply andb_true_iff. split; [apply Nat.leb_le; lia|reflexivity]. }
    unfold step_code, split_seg.
    destruct (find_exists (nested_at (Sk k) (Sk (k + 1))) (adj_pairs (Sk k))) as (ab' & Hfind); [exists (a, b); auto|].
    rewrite Hfind. apply find_some in Hfind. destruct Hfind as [Hin' Hnest'].
    assert (ab' = (a, b)) as -> by (symmetry; apply (nested_unique (Sk k) (Sk (k + 1))); auto).
    cbn [fst snd].
    assert (Hgreedy : ordered = true -> greedy_at prio (Sk k) (a, b) = true).
    { intros Ho. destruct (Hord Ho) as [Hz Hp].
      destruct (fixed_greedy n eps dist prio Hn Hshape fuel k HO Hz Hp Hf H2 Hk) as (red & a2 & b2 & E1 & Hin2 & Hw2 & E2 & Hmax).
      rewrite rdp_fixed_spec in E1 by auto. injection E1 as E1p _. rewrite <- E1p in *. clear E1p.
      rewrite rdp_fixed_spec in E2 by auto. injection E2 as E2' _.
      assert ((a2, b2) = (a, b)) as Hab.
      { apply (nested_unique (Sk k) (Sk (k + 1))); auto.
        unfold RdpFixedSpec.nested_at, wideb. cbn [fst snd]. rewrite E2', nat_list_eqb_refl.
        apply andb_true_iff. split; [apply Nat.leb_le; lia|reflexivity]. }
      inversion Hab; subst a2 b2.
      unfold greedy_at. apply forallb_forall. intros [a' b'] Hcd. cbn [fst snd].
      unfold wideb. cbn [fst snd]. destruct (Nat.leb_spec (a' + 2) b') as [Hwd|Hwd]; [|reflexivity]. cbn [negb orb].
      destruct (Hmax a' b' Hcd Hwd) as [[-> ->]|Hleb].
      - unfold seg_eqb. cbn [fst snd]. rewrite !Nat.eqb_refl. reflexivity.
      - rewrite Hleb. apply orb_true_r. }
    destruct ordered; cbn [andb].
    - rewrite (Hgreedy eq_refl). cbn [negb].
      destruct (nonan (interior (dist a (b + 1)))) eqn:Hnn; [|reflexivity].
      rewrite (farthest_at_ok (a, b) Hnn). reflexivity.
    - destruct (nonan (interior (dist a (b + 1)))) eqn:Hnn; [|reflexivity].
      rewrite (farthest_at_ok (a, b) Hnn). reflexivity.
  Qed.

  (* C05: the judge's predicate is 0 (= holds) on the model's own chain [rdp_fixed 0; ...; rdp_fixed (n+1)] *)
  Theorem chain_code_model fuel ordered : n <= fuel -> (ordered = true -> prio_ordered fuel) ->
    chain_code n eps dist prio ordered (map (rdp_fixed n eps dist prio fuel) (seq 0 (n + 2))) = 0.
  Proof.
    intros Hf Hord.
    assert (Houts : map (rdp_fixed n eps dist prio fuel) (seq 0 (n + 2)) = map (fun k => Some (Sk k, rows (Sk k))) (seq 0 (n + 2))).
    { apply map_ext. intros k. apply rdp_fixed_spec; auto. }
    rewrite Houts. unfold chain_code. rewrite map_length, seq_length, Nat.eqb_refl. cbn [negb].
    assert (Hsizes : sizes_code n (map (fun k => Some (Sk k, rows (Sk k))) (seq 0 (n + 2))) = 0).
    { unfold sizes_code. rewrite map_length, seq_length, combine_seq_map. apply first_nonzero_all0.
      intros x Hx. apply in_map_iff in Hx. destruct Hx as (ko & <- & Hko).
      apply in_map_iff in Hko. destruct Hko as (k & <- & _). cbn [fst snd size_ok].
      pose proof (Sk_WF n eps dist prio Hn Hshape k) as HW. apply WFb_iff in HW. rewrite HW, rows_eqb_refl.
      rewrite (Sk_length n eps dist prio Hn Hshape k), Nat.eqb_refl. reflexivity. }
    rewrite Hsizes. unfold steps_code. apply first_nonzero_all0.
    intros x Hx. apply in_map_iff in Hx. destruct Hx as (k & <- & Hk).
    rewrite map_length, seq_length in Hk. apply in_seq in Hk.
    destruct ((2 <=? k) && (k <? n)) eqn:C; [|reflexivity].
    apply andb_true_iff in C. destruct C as [C1 C2]. apply Nat.leb_le in C1. apply Nat.ltb_lt in C2.
    rewrite !(nth_map_seq (fun k => Some (Sk k, rows (Sk k)))) by lia. cbn [red_of Nat.add].
    apply (step_code_model fuel); auto.
  Qed.
End Bool5.
