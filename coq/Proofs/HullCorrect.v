(* Proofs/HullCorrect.v — C18, Tier A: lower_hull_correct / upper_hull_correct and uniqueness, on RNum.
   The abstract results of HullGeom.v instantiated with the coordinates of a point list; the upper hull is the
   lower hull of the curve reflected in the x axis (flip = true). *)
From Coq Require Import Reals Lra List Arith Bool Lia Permutation.
From Knee Require Import Num NumR NpList Model.Hull Proofs.ListFacts Proofs.HullScan Proofs.HullGeom.
Import ListNotations.

Lemma pairs_ext (P Q : nat -> nat -> Prop) l : (forall a b, P a b <-> Q a b) -> (pairs P l <-> pairs Q l).
Proof.
  intros H. induction l as [|a [|b l'] IH]; cbn [pairs]; try tauto. rewrite H. tauto.
Qed.
Lemma trip_ext (P Q : nat -> nat -> nat -> Prop) l : (forall a b c, P a b c <-> Q a b c) -> (trip P l <-> trip Q l).
Proof.
  intros H. induction l as [|a [|b [|c l']] IH]; cbn [trip]; try tauto. rewrite H. tauto.
Qed.
Lemma SI_filter (f : nat -> bool) l : SI l -> SI (filter f l).
Proof.
  induction l as [|a l IH]; intros HS; [exact I|].
  cbn [filter]. pose proof (IH (SI_tl _ _ HS)) as IH'. destruct (f a); [|exact IH'].
  apply SI_cons; [|exact IH'].
  pose proof (SI_lt_all a l HS) as HF. rewrite Forall_forall in *. intros x Hx. apply filter_In in Hx. apply HF. tauto.
Qed.

Local Open Scope R_scope.

Section Inst.
  Variable pts : list (R * R).
  Variable flip : bool.                       (* false: lower hull; true: upper hull *)
  Let n := length pts.
  Definition PX (i : nat) : R := fst (nth i pts (0, 0)).
  Definition PY (i : nat) : R := if flip then - snd (nth i pts (0, 0)) else snd (nth i pts (0, 0)).
  Definition strictf : R -> bool := if flip then @negt RNum else @pos RNum.
  Definition weakf : R -> bool := if flip then @nonpos RNum else @nonneg RNum.
  Definition rcc (a b c : nat) : R := @ccw_idx RNum pts a b c.

  Lemma cc_rcc a b c : cc PX PY a b c = if flip then - rcc a b c else rcc a b c.
  Proof.
    unfold cc, cr, rcc, ccw_idx, ccw, PX, PY, pt0, pt. cbn [T zero sub mul RNum].
    destruct flip; cbv iota; ring.
  Qed.
  Lemma strictf_iff a b c : strictf (rcc a b c) = true <-> 0 < cc PX PY a b c.
  Proof.
    rewrite cc_rcc. unfold strictf, negt, pos. destruct flip; cbn [ltb zero RNum]; rewrite Rltb_true; lra.
  Qed.
  Lemma weakf_iff a b c : weakf (rcc a b c) = true <-> 0 <= cc PX PY a b c.
  Proof.
    rewrite cc_rcc. unfold weakf, nonpos, nonneg. destruct flip; cbn [leb zero RNum]; rewrite Rleb_true; lra.
  Qed.

  Hypothesis Hx : @x_increasing RNum pts = true.

  Lemma x_adjacent : forall (l : list (R * R)) i, @x_increasing RNum l = true -> (S i < length l)%nat ->
    fst (nth i l (0, 0)) < fst (nth (S i) l (0, 0)).
  Proof.
    induction l as [|p l IH]; intros i H Hi; [cbn in Hi; lia|].
    destruct l as [|q l']; [cbn in Hi; lia|].
    cbn [x_increasing] in H. apply andb_true_iff in H. destruct H as [H1 H2].
    destruct i as [|i].
    - cbn [nth]. cbn [ltb RNum] in H1. apply Rltb_true in H1. exact H1.
    - change (nth (S i) (p :: q :: l') (0, 0)) with (nth i (q :: l') (0, 0)).
      change (nth (S (S i)) (p :: q :: l') (0, 0)) with (nth (S i) (q :: l') (0, 0)).
      apply IH; [exact H2|cbn [length] in *; lia].
  Qed.
  Lemma PX_inc i j : (i < j < n)%nat -> PX i < PX j.
  Proof.
    intros [Hij Hj]. induction j as [|j IH]; [lia|].
    assert (Hstep : PX j < PX (S j)) by (apply x_adjacent; [exact Hx|exact Hj]).
    destruct (Nat.eq_dec i j) as [->|]; [exact Hstep|].
    specialize (IH ltac:(lia) ltac:(lia)). lra.
  Qed.

  (* boolean predicates of Model/Hull.v <-> the Prop predicates of HullGeom.v *)
  Lemma coversb_iff out : @coversb RNum weakf pts out = true <-> covers PX PY out.
  Proof.
    unfold coversb, covers. rewrite pairb_iff. apply pairs_ext. intros a b.
    rewrite forallb_forall. split.
    - intros H k Hk. apply weakf_iff. apply H. apply in_seq. lia.
    - intros H k Hk. apply in_seq in Hk. apply weakf_iff. apply H. lia.
  Qed.
  Lemma convexb_iff out : @convexb RNum strictf pts out = true <-> convex PX PY out.
  Proof.
    unfold convexb, convex. rewrite tripb_iff. apply trip_ext. intros a b c. apply strictf_iff.
  Qed.
  Lemma vertexb_iff k : @vertexb RNum strictf pts n k = true <-> vertex PX PY n k.
  Proof.
    unfold vertexb, vertex. rewrite forallb_forall. split.
    - intros H a b Hab Hb. apply strictf_iff.
      specialize (H a ltac:(apply in_seq; lia)). rewrite forallb_forall in H. apply H. apply in_seq. lia.
    - intros H a Ha. apply in_seq in Ha. apply forallb_forall. intros b Hb. apply in_seq in Hb.
      apply strictf_iff. apply H; lia.
  Qed.

  (* any strictly convex covering chain is the brute-force chain *)
  Lemma chain_eq_brute out :
    chainb n out = true -> @coversb RNum weakf pts out = true -> @convexb RNum strictf pts out = true ->
    out = @brute_chain RNum strictf pts n.
  Proof.
    intros Hc Hcov Hconv. apply chainb_iff in Hc. destruct Hc as (HS & Hhd & Hlast & Hlen).
    apply coversb_iff in Hcov. apply convexb_iff in Hconv.
    pose proof (chain_vertices PX PY n PX_inc out HS Hhd Hlast Hlen Hcov Hconv) as Hv.
    assert (Hrange : forall x, In x out -> (x < n)%nat).
    { intros x Hin. pose proof (SI_le_last out 0%nat x HS Hin) as Hle.
      destruct out as [|o out']; [destruct Hin|].
      assert (n <> 0%nat).
      { intros E. rewrite E in Hlast. cbn [Nat.sub] in Hlast. cbn [hd] in Hhd. subst o.
        destruct out' as [|o2 out'']; [cbn in Hlen; lia|].
        pose proof (SI_le_last (0%nat :: o2 :: out'') 0%nat o2 HS ltac:(right; left; reflexivity)).
        cbn [SI] in HS. lia. }
      lia. }
    unfold brute_chain. apply SI_perm_eq; auto.
    - apply SI_filter. apply SI_seq.
    - apply NoDup_Permutation.
      + apply SI_NoDup. exact HS.
      + apply NoDup_filter. apply seq_NoDup.
      + intros x. rewrite filter_In, in_seq. split.
        * intros Hin. pose proof (Hrange x Hin). split; [lia|]. apply vertexb_iff. apply Hv; auto.
        * intros [Hr Hvx]. apply Hv; [lia|]. apply vertexb_iff. exact Hvx.
  Qed.

  (* the scan the code runs *)
  Definition the_scan : list nat :=
    if flip then @graham_scan_upper RNum pts else @graham_scan_lower RNum pts.
  Lemma the_scan_eq : the_scan = scan (ltest PX PY) 2 n.
  Proof.
    unfold the_scan, graham_scan_upper, graham_scan_lower, upper_with, lower_with. change (@length (@pt RNum) pts) with n.
    destruct flip eqn:Ef; apply scan_ext; intros a b i.
    - unfold upper_test, ltest. cbn [leb zero RNum]. f_equal.
      unfold cc, cr, ccw_idx, ccw, PX, PY, pt0, pt. rewrite Ef. cbn [T zero sub mul RNum]. ring.
    - unfold lower_test, ltest. cbn [leb zero RNum]. f_equal.
      unfold cc, cr, ccw_idx, ccw, PX, PY, pt0, pt. rewrite Ef. cbn [T zero sub mul RNum]. ring.
  Qed.

  Theorem hull_correct : (2 <= n)%nat -> @hull_geomb RNum strictf weakf pts the_scan = true.
  Proof.
    intros Hn. unfold hull_geomb. change (@length (@pt RNum) pts) with n. rewrite the_scan_eq.
    destruct (scan_shape (ltest PX PY) 2 ltac:(lia) n Hn) as (HS & Hhd & Hlast & _ & _ & Hlen).
    assert (Hc : chainb n (scan (ltest PX PY) 2 n) = true) by (apply chainb_iff; repeat split; auto; lia).
    assert (Hcov : @coversb RNum weakf pts (scan (ltest PX PY) 2 n) = true).
    { apply coversb_iff. apply scan_covers; [exact PX_inc|exact Hn]. }
    assert (Hconv : @convexb RNum strictf pts (scan (ltest PX PY) 2 n) = true).
    { apply convexb_iff. apply scan_convex. exact Hn. }
    rewrite Hc, Hcov, Hconv. cbn [andb].
    rewrite <- (chain_eq_brute _ Hc Hcov Hconv).
    unfold nat_list_eqb. clear. induction (scan (ltest PX PY) 2 n) as [|a l IH]; [reflexivity|].
    cbn [list_eqb]. rewrite Nat.eqb_refl. exact IH.
  Qed.

  Theorem hull_unique out : (2 <= n)%nat ->
    chainb n out = true -> @coversb RNum weakf pts out = true -> @convexb RNum strictf pts out = true -> out = the_scan.
  Proof.
    intros Hn Hc Hcov Hconv. rewrite (chain_eq_brute out Hc Hcov Hconv).
    pose proof (hull_correct Hn) as H. unfold hull_geomb in H. change (@length (@pt RNum) pts) with n in H.
    rewrite !andb_true_iff in H. destruct H as [[[H1 H2] H3] _].
    symmetry. apply chain_eq_brute; assumption.
  Qed.
End Inst.

(* ---- the statements of the property *)
Theorem lower_hull_correct (pts : list (R * R)) :
  @x_increasing RNum pts = true -> (2 <= length pts)%nat ->
  @lower_geomb RNum pts (@graham_scan_lower RNum pts) = true.
Proof. intros Hx Hn. exact (hull_correct pts false Hx Hn). Qed.

Theorem upper_hull_correct (pts : list (R * R)) :
  @x_increasing RNum pts = true -> (2 <= length pts)%nat ->
  @upper_geomb RNum pts (@graham_scan_upper RNum pts) = true.
Proof. intros Hx Hn. exact (hull_correct pts true Hx Hn). Qed.

Theorem lower_hull_unique (pts : list (R * R)) out :
  @x_increasing RNum pts = true -> (2 <= length pts)%nat ->
  chainb (length pts) out = true -> @coversb RNum (@nonneg RNum) pts out = true ->
  @convexb RNum (@pos RNum) pts out = true -> out = @graham_scan_lower RNum pts.
Proof. intros Hx Hn. exact (hull_unique pts false Hx out Hn). Qed.

Theorem upper_hull_unique (pts : list (R * R)) out :
  @x_increasing RNum pts = true -> (2 <= length pts)%nat ->
  chainb (length pts) out = true -> @coversb RNum (@nonpos RNum) pts out = true ->
  @convexb RNum (@negt RNum) pts out = true -> out = @graham_scan_upper RNum pts.
Proof. intros Hx Hn. exact (hull_unique pts true Hx out Hn). Qed.
