(* Proofs/ArgFacts.v — specification of NpList.argmax / argmin (np.argmax / np.argmin on float arrays).
   Tier S: index range, for every array and every Num.
   NaN behaviour (needs only "comparisons with a NaN are false"): the first NaN wins.
   Tier O (total preorder on the non-NaN values): first index attaining the extremum.
   argmin is argmax for the flipped order, so every argmin fact is the argmax fact on `flipN N`. *)
From Coq Require Import List Bool Arith Lia.
From Knee Require Import Num NpList OrdLaws Model.Detectors.
Import ListNotations.
Local Open Scope num_scope.

(* the same numbers with the order reversed *)
Definition flipN (N : Num) : Num :=
  {| T := T N; zero := zero; one := one; add := add; sub := sub; mul := mul; div := div; neg := neg; abs := abs;
     sqrt := sqrt; ltb := fun x y => ltb y x; leb := fun x y => leb y x; eqb := eqb; isnan := isnan; ofZ := ofZ;
     truncZ := truncZ; ceilZ := ceilZ; floorZ := floorZ; ln := ln |}.

Lemma argmin_go_flip (N : Num) (l : list (T N)) : forall i best bi,
  @argmin_go N l i best bi = @argmax_go (flipN N) l i best bi.
Proof. induction l as [|x l IH]; intros; cbn; [reflexivity|]. rewrite !IH. reflexivity. Qed.
Lemma argmin_flip (N : Num) (l : list (T N)) : @argmin N l = @argmax (flipN N) l.
Proof. destruct l; [reflexivity|]. apply argmin_go_flip. Qed.
Lemma first_argmin_b_flip (N : Num) (l : list (T N)) k : @first_argmin_b N l k = @first_argmax_b (flipN N) l k.
Proof. reflexivity. Qed.

(* comparisons involving a NaN are false (IEEE) *)
Record NanUnordered (N : Num) : Prop := {
  nan_leb_l : forall x y : T N, isnan x = true -> leb x y = false;
  nan_leb_r : forall x y : T N, isnan y = true -> leb x y = false;
  nan_ltb_l : forall x y : T N, isnan x = true -> ltb x y = false;
  nan_ltb_r : forall x y : T N, isnan y = true -> ltb x y = false;
}.

Lemma flip_order (N : Num) : TotalPreorderOn (@notnan N) -> TotalPreorderOn (@notnan (flipN N)).
Proof.
  intros [R Tr To L]. constructor; cbn; intros.
  - apply R; auto.
  - apply (Tr z y x); auto.
  - destruct (To x y); auto.
  - apply L; auto.
Qed.
Lemma flip_nan (N : Num) : NanUnordered N -> NanUnordered (flipN N).
Proof. intros [a b c d]. constructor; cbn; intros; auto. Qed.

Section ArgFacts.
  Context {N : Num}.

  (* ---------------------------------------------------------------- Tier S: range *)
  Lemma argmax_go_range (l : list (T N)) : forall i best bi, bi < i -> argmax_go l i best bi < i + length l.
  Proof.
    induction l as [|x l IH]; intros i best bi H; cbn; [lia|].
    destruct (isnan best); [lia|].
    destruct (negb (x <=?! best)).
    - specialize (IH (S i) x i). lia.
    - specialize (IH (S i) best bi). lia.
  Qed.
  Theorem argmax_lt (l : list (T N)) : l <> [] -> argmax l < length l.
  Proof.
    destruct l as [|x l]; [congruence|]. intros _. cbn [argmax length].
    pose proof (argmax_go_range l 1 x 0). lia.
  Qed.

  (* ---------------------------------------------------------------- NaN: the first NaN wins *)
  Lemma argmax_go_nan (NU : NanUnordered N) (l1 : list (T N)) : forall x post i best bi,
    isnan best = false -> Forall notnan l1 -> isnan x = true ->
    argmax_go (l1 ++ x :: post) i best bi = i + length l1.
  Proof.
    induction l1 as [|y l1 IH]; intros x post i best bi Hb Hl Hx; cbn [app argmax_go length].
    - rewrite Hb. rewrite (nan_leb_l _ NU x best Hx). cbn [negb].
      destruct post; cbn [argmax_go]; [lia|]. rewrite Hx. lia.
    - rewrite Hb. inversion Hl as [|? ? Hy Hl']; subst.
      destruct (negb (y <=?! best)).
      + rewrite IH; auto. lia.
      + rewrite IH; auto. lia.
  Qed.
  Theorem np_argmax_nan (NU : NanUnordered N) (pre : list (T N)) x post :
    Forall notnan pre -> isnan x = true -> argmax (pre ++ x :: post) = length pre.
  Proof.
    intros Hp Hx. destruct pre as [|p pre]; cbn [app argmax length].
    - destruct post; cbn [argmax_go]; [reflexivity|]. rewrite Hx. reflexivity.
    - inversion Hp; subst. rewrite argmax_go_nan; auto.
  Qed.

  (* every list with a NaN splits at its first NaN *)
  Lemma first_nan_split (l : list (T N)) : existsb isnan l = true ->
    exists pre x post, l = pre ++ x :: post /\ Forall notnan pre /\ isnan x = true.
  Proof.
    induction l as [|a l IH]; cbn; [discriminate|].
    destruct (isnan a) eqn:Ha; cbn.
    - intros _. exists [], a, l. auto.
    - intros H. destruct (IH H) as (pre & x & post & -> & Hp & Hx).
      exists (a :: pre), x, post. repeat split; auto.
  Qed.
  Lemma existsb_nan_false (l : list (T N)) : existsb isnan l = false -> Forall notnan l.
  Proof.
    induction l as [|a l IH]; cbn; [constructor|].
    intros H. apply orb_false_iff in H as [Ha Hl]. constructor; auto.
  Qed.

  (* ---------------------------------------------------------------- Tier O: first maximum *)
  Hypothesis O : TotalPreorderOn (@notnan N).

  Definition first_max (l : list (T N)) (k : nat) : Prop :=
    k < length l /\
    Forall (fun x => x <=?! nth k l zero = true) l /\
    Forall (fun x => x <?! nth k l zero = true) (firstn k l).

  Lemma ltb_of_leb_false (x y : T N) : notnan x -> notnan y -> x <=?! y = false -> y <?! x = true.
  Proof. intros Hx Hy H. rewrite (ord_ltb _ O y x Hy Hx), H. reflexivity. Qed.
  Lemma leb_of_leb_false (x y : T N) : notnan x -> notnan y -> x <=?! y = false -> y <=?! x = true.
  Proof. intros Hx Hy H. destruct (ord_total _ O x y Hx Hy); congruence. Qed.

  Lemma argmax_go_spec (l : list (T N)) : forall pre best bi,
    Forall notnan (pre ++ l) ->
    bi < length pre -> nth bi pre zero = best ->
    Forall (fun x => x <=?! best = true) pre ->
    Forall (fun x => x <?! best = true) (firstn bi pre) ->
    first_max (pre ++ l) (argmax_go l (length pre) best bi).
  Proof.
    induction l as [|x l IH]; intros pre best bi Hnn Hbi Hnth Hle Hlt.
    - cbn [argmax_go]. rewrite app_nil_r in *. unfold first_max. rewrite Hnth. auto.
    - assert (Hbn : notnan best).
      { rewrite <- Hnth. rewrite Forall_forall in Hnn. apply Hnn. apply in_or_app. left. apply nth_In. exact Hbi. }
      assert (Hxn : notnan x).
      { rewrite Forall_forall in Hnn. apply Hnn. apply in_or_app. right. left. reflexivity. }
      assert (Hpn : Forall notnan pre).
      { apply Forall_app in Hnn. tauto. }
      cbn [argmax_go]. unfold notnan in Hbn. rewrite Hbn.
      replace (pre ++ x :: l) with ((pre ++ [x]) ++ l) in * by (rewrite <- app_assoc; reflexivity).
      replace (S (length pre)) with (length (pre ++ [x])) by (rewrite app_length; cbn; lia).
      destruct (x <=?! best) eqn:Hxb; cbn [negb].
      + apply IH; [exact Hnn| | | |].
        * rewrite app_length; cbn; lia.
        * rewrite app_nth1; auto.
        * apply Forall_app; split; auto.
        * rewrite firstn_app. replace (bi - length pre) with 0 by lia. cbn [firstn]. rewrite app_nil_r. exact Hlt.
      + apply IH; [exact Hnn| | | |].
        * rewrite app_length; cbn; lia.
        * rewrite app_nth2 by lia. rewrite Nat.sub_diag. reflexivity.
        * apply Forall_app; split.
          -- rewrite Forall_forall in *. intros p Hp.
             apply (ord_trans _ O p best x); auto. apply leb_of_leb_false; auto.
          -- constructor; auto. apply (ord_refl _ O); auto.
        * rewrite firstn_app. rewrite Nat.sub_diag. cbn [firstn]. rewrite app_nil_r.
          rewrite firstn_all. rewrite Forall_forall in *. intros p Hp.
          rewrite (ord_ltb _ O p x) by auto.
          destruct (x <=?! p) eqn:Hxp; [|reflexivity].
          rewrite (ord_trans _ O x p best) in Hxb; auto; discriminate.
  Qed.

  (* np.argmax on a NaN-free non-empty array: the first index attaining the maximum *)
  Theorem np_argmax_spec (l : list (T N)) : l <> [] -> Forall notnan l -> first_max l (argmax l).
  Proof.
    destruct l as [|x l]; [congruence|]. intros _ Hn. cbn [argmax].
    change (x :: l) with ([x] ++ l) in *.
    apply (argmax_go_spec l [x] x 0); auto.
    - inversion Hn; subst. constructor; auto. apply (ord_refl _ O); auto.
    - constructor.
  Qed.

  (* uniqueness: the specification pins the index *)
  Lemma first_max_unique (l : list (T N)) k1 k2 : Forall notnan l -> first_max l k1 -> first_max l k2 -> k1 = k2.
  Proof.
    intros Hn (H1 & L1 & F1) (H2 & L2 & F2).
    assert (A : forall a b, a < b -> b < length l ->
                Forall (fun x => x <=?! nth a l zero = true) l ->
                Forall (fun x => x <?! nth b l zero = true) (firstn b l) -> False).
    { intros a b Hab Hb La Fb.
      rewrite Forall_forall in La, Fb, Hn.
      assert (Ia : In (nth a l zero) (firstn b l)).
      { rewrite <- (firstn_skipn b l) at 1. rewrite app_nth1 by (rewrite firstn_length; lia).
        apply nth_In. rewrite firstn_length. lia. }
      specialize (Fb _ Ia). specialize (La (nth b l zero) (nth_In _ _ Hb)).
      rewrite (ord_ltb _ O) in Fb; [| apply Hn, nth_In; lia | apply Hn, nth_In; lia].
      rewrite La in Fb. discriminate. }
    destruct (Nat.lt_trichotomy k1 k2) as [H|[H|H]]; auto; exfalso; eauto.
  Qed.
End ArgFacts.

Section ArgBool.
  Context {N : Num}.
  Hypothesis O : TotalPreorderOn (@notnan N).
  Hypothesis NU : NanUnordered N.

  Lemma nth_split_at (l : list (T N)) k : k < length l -> l = firstn k l ++ nth k l zero :: skipn (S k) l.
  Proof.
    revert k. induction l as [|a l IH]; intros [|k] H; cbn in *; try lia; auto.
    f_equal. apply IH. lia.
  Qed.
  Lemma forallb_notnanb (l : list (T N)) : forallb notnanb l = true <-> Forall notnan l.
  Proof.
    rewrite forallb_forall, Forall_forall. unfold notnanb, notnan.
    split; intros H x Hx; specialize (H x Hx); destruct (isnan x); auto; discriminate.
  Qed.

  (* the boolean predicate characterises np.argmax (NaN included) *)
  Theorem first_argmax_b_iff (l : list (T N)) k : l <> [] -> (first_argmax_b l k = true <-> k = argmax l).
  Proof.
    intros Hne. unfold first_argmax_b. split.
    - intros H. apply andb_true_iff in H as [Hk H]. apply Nat.ltb_lt in Hk.
      destruct (existsb isnan l) eqn:E.
      + apply andb_true_iff in H as [Hv Hp]. apply forallb_notnanb in Hp.
        rewrite (nth_split_at l k Hk) at 1. rewrite np_argmax_nan; auto.
        rewrite firstn_length. lia.
      + apply existsb_nan_false in E.
        apply andb_true_iff in H as [Ha Hb].
        apply (first_max_unique O l); auto.
        * repeat split; auto; rewrite Forall_forall; [rewrite forallb_forall in Ha|rewrite forallb_forall in Hb]; auto.
        * apply np_argmax_spec; auto.
    - intros ->. pose proof (argmax_lt l Hne) as Hlt.
      apply andb_true_iff. split; [apply Nat.ltb_lt; exact Hlt|].
      destruct (existsb isnan l) eqn:E.
      + destruct (first_nan_split l E) as (pre & x & post & -> & Hp & Hx).
        rewrite np_argmax_nan; auto.
        rewrite app_nth2 by lia. rewrite Nat.sub_diag. cbn [nth]. rewrite Hx. cbn [andb].
        rewrite firstn_app, Nat.sub_diag, firstn_all. cbn [firstn]. rewrite app_nil_r.
        apply forallb_notnanb. exact Hp.
      + apply existsb_nan_false in E.
        destruct (np_argmax_spec O l Hne E) as (_ & Ha & Hb).
        apply andb_true_iff. split; apply forallb_forall; rewrite Forall_forall in *; auto.
  Qed.
End ArgBool.

(* ---------------------------------------------------------------- argmin: the mirror image *)
Section ArgMin.
  Context {N : Num}.

  Theorem argmin_lt (l : list (T N)) : l <> [] -> argmin l < length l.
  Proof. rewrite argmin_flip. apply (@argmax_lt (flipN N)). Qed.

  Theorem np_argmin_nan (NU : NanUnordered N) (pre : list (T N)) x post :
    Forall notnan pre -> isnan x = true -> argmin (pre ++ x :: post) = length pre.
  Proof. rewrite argmin_flip. apply (@np_argmax_nan (flipN N) (flip_nan N NU)). Qed.

  Definition first_min (l : list (T N)) (k : nat) : Prop :=
    k < length l /\
    Forall (fun x => nth k l zero <=?! x = true) l /\
    Forall (fun x => nth k l zero <?! x = true) (firstn k l).

  (* np.argmin on a NaN-free non-empty array: the first index attaining the minimum *)
  Theorem np_argmin_spec (O : TotalPreorderOn (@notnan N)) (l : list (T N)) :
    l <> [] -> Forall notnan l -> first_min l (argmin l).
  Proof. rewrite argmin_flip. apply (@np_argmax_spec (flipN N) (flip_order N O)). Qed.

  Theorem first_argmin_b_iff (O : TotalPreorderOn (@notnan N)) (NU : NanUnordered N) (l : list (T N)) k :
    l <> [] -> (first_argmin_b l k = true <-> k = argmin l).
  Proof.
    rewrite argmin_flip, first_argmin_b_flip.
    apply (@first_argmax_b_iff (flipN N) (flip_order N O) (flip_nan N NU)).
  Qed.
End ArgMin.
