(* Proofs/ElbowKneedle.v — C03, Kneedle at t = 0 on monotone elbows (Tier A, RNum).
   With chord slope m = (y_last - y_0)/(x_last - x_0), the deviation from the chord
   term_i = y_i - y_0 - m (x_i - x_0) is (m1 - m2) times a tent function peaking at c.  Every one of the
   four difference curves the direction/concavity vote can select equals k0 + K * tent_i with K > 0, so
   it is strictly increasing up to c and strictly decreasing after it: c is the only strict peak. *)
From Coq Require Import Reals List Arith Lia Lra Bool Psatz.
From Knee Require Import Num NumR NpList Model.Uts Model.DetectorsFormula Proofs.ElbowBase Proofs.ElbowNpSum Proofs.ElbowLmethod.
Import ListNotations.
Local Open Scope R_scope.

(* ------------------------------------------------------------------ np.min / np.max on reals (ties allowed) *)
Lemma argmin_go_spec (l : list R) : forall (pre : list R) best bi,
  (bi < length pre)%nat -> best = nth bi (pre ++ l) 0 ->
  let r := @argmin_go RNum l (length pre) best bi in
  (r < length (pre ++ l))%nat /\ nth r (pre ++ l) 0 <= best /\
  (forall j, (length pre <= j < length (pre ++ l))%nat -> nth r (pre ++ l) 0 <= nth j (pre ++ l) 0).
Proof.
  induction l as [|x l IH]; intros pre best bi Hbi Hbest r.
  - subst r. cbn [argmin_go]. rewrite app_nil_r in *. repeat split; [lia|rewrite Hbest; lra|intros; lia].
  - subst r. cbn [argmin_go isnan RNum leb].
    assert (Hx : nth (length pre) (pre ++ x :: l) 0 = x) by (rewrite app_nth2, Nat.sub_diag by lia; reflexivity).
    assert (Happ : pre ++ x :: l = (pre ++ [x]) ++ l) by (rewrite <- app_assoc; reflexivity).
    assert (Hlen : length (pre ++ [x]) = S (length pre)) by (rewrite app_length; cbn; lia).
    destruct (Rleb best x) eqn:Hc; cbn [negb].
    + apply Rleb_true in Hc.
      destruct (IH (pre ++ [x]) best bi ltac:(lia) ltac:(rewrite <- Happ; exact Hbest)) as [H1 [H2 H3]].
      rewrite Hlen in *. rewrite <- Happ in *. repeat split; [exact H1|exact H2|].
      intros j Hj. destruct (Nat.eq_dec j (length pre)) as [->|Hne]; [rewrite Hx; lra|apply H3; lia].
    + apply Rleb_false in Hc.
      destruct (IH (pre ++ [x]) x (length pre) ltac:(lia) ltac:(rewrite <- Happ, Hx; reflexivity)) as [H1 [H2 H3]].
      rewrite Hlen in *. rewrite <- Happ in *. repeat split; [exact H1|lra|].
      intros j Hj. destruct (Nat.eq_dec j (length pre)) as [->|Hne]; [rewrite Hx; lra|apply H3; lia].
Qed.
Lemma argmin_spec (l : list R) : l <> [] ->
  (@argmin RNum l < length l)%nat /\ forall j, (j < length l)%nat -> nth (@argmin RNum l) l 0 <= nth j l 0.
Proof.
  intros Hne. destruct l as [|x l]; [contradiction|]. unfold argmin.
  destruct (argmin_go_spec l [x] x 0%nat ltac:(cbn; lia) eq_refl) as [H1 [H2 H3]].
  cbn [length app] in *. split; [exact H1|].
  intros j Hj. destruct j as [|j]; [exact H2|apply H3; lia].
Qed.
Lemma argmax_go_spec (l : list R) : forall (pre : list R) best bi,
  (bi < length pre)%nat -> best = nth bi (pre ++ l) 0 ->
  let r := @argmax_go RNum l (length pre) best bi in
  (r < length (pre ++ l))%nat /\ best <= nth r (pre ++ l) 0 /\
  (forall j, (length pre <= j < length (pre ++ l))%nat -> nth j (pre ++ l) 0 <= nth r (pre ++ l) 0).
Proof.
  induction l as [|x l IH]; intros pre best bi Hbi Hbest r.
  - subst r. cbn [argmax_go]. rewrite app_nil_r in *. repeat split; [lia|rewrite Hbest; lra|intros; lia].
  - subst r. cbn [argmax_go isnan RNum leb].
    assert (Hx : nth (length pre) (pre ++ x :: l) 0 = x) by (rewrite app_nth2, Nat.sub_diag by lia; reflexivity).
    assert (Happ : pre ++ x :: l = (pre ++ [x]) ++ l) by (rewrite <- app_assoc; reflexivity).
    assert (Hlen : length (pre ++ [x]) = S (length pre)) by (rewrite app_length; cbn; lia).
    destruct (Rleb x best) eqn:Hc; cbn [negb].
    + apply Rleb_true in Hc.
      destruct (IH (pre ++ [x]) best bi ltac:(lia) ltac:(rewrite <- Happ; exact Hbest)) as [H1 [H2 H3]].
      rewrite Hlen in *. rewrite <- Happ in *. repeat split; [exact H1|exact H2|].
      intros j Hj. destruct (Nat.eq_dec j (length pre)) as [->|Hne]; [rewrite Hx; lra|apply H3; lia].
    + apply Rleb_false in Hc.
      destruct (IH (pre ++ [x]) x (length pre) ltac:(lia) ltac:(rewrite <- Happ, Hx; reflexivity)) as [H1 [H2 H3]].
      rewrite Hlen in *. rewrite <- Happ in *. repeat split; [exact H1|lra|].
      intros j Hj. destruct (Nat.eq_dec j (length pre)) as [->|Hne]; [rewrite Hx; lra|apply H3; lia].
Qed.
Lemma argmax_spec (l : list R) : l <> [] ->
  (@argmax RNum l < length l)%nat /\ forall j, (j < length l)%nat -> nth j l 0 <= nth (@argmax RNum l) l 0.
Proof.
  intros Hne. destruct l as [|x l]; [contradiction|]. unfold argmax.
  destruct (argmax_go_spec l [x] x 0%nat ltac:(cbn; lia) eq_refl) as [H1 [H2 H3]].
  cbn [length app] in *. split; [exact H1|].
  intros j Hj. destruct j as [|j]; [exact H2|apply H3; lia].
Qed.
(* a value of the list below (above) every element is what ndarray.min (max) returns *)
Lemma np_min_val (l : list R) (v : R) i : (i < length l)%nat -> nth i l 0 = v ->
  (forall j, (j < length l)%nat -> v <= nth j l 0) -> @np_min RNum l = v.
Proof.
  intros Hi Hv Hall. assert (Hne : l <> []) by (destruct l; [cbn in Hi; lia|discriminate]).
  destruct (argmin_spec l Hne) as [H1 H2]. unfold np_min. cbn [zero RNum].
  pose proof (H2 i Hi) as Ha. rewrite Hv in Ha. pose proof (Hall _ H1) as Hb. apply Rle_antisym; assumption.
Qed.
Lemma np_max_val (l : list R) (v : R) i : (i < length l)%nat -> nth i l 0 = v ->
  (forall j, (j < length l)%nat -> nth j l 0 <= v) -> @np_max RNum l = v.
Proof.
  intros Hi Hv Hall. assert (Hne : l <> []) by (destruct l; [cbn in Hi; lia|discriminate]).
  destruct (argmax_spec l Hne) as [H1 H2]. unfold np_max. cbn [zero RNum].
  pose proof (H2 i Hi) as Ha. rewrite Hv in Ha. pose proof (Hall _ H1) as Hb. apply Rle_antisym; assumption.
Qed.

(* ------------------------------------------------------------------ strict peaks of a unimodal list *)
Lemma true_indices_single (l : list bool) : forall i k, (k < length l)%nat -> nth k l false = true ->
  (forall j, (j < length l)%nat -> j <> k -> nth j l false = false) -> true_indices i l = [(i + k)%nat].
Proof.
  induction l as [|b l IH]; intros i k Hk Ht Hf; [cbn in Hk; lia|]. cbn [true_indices].
  destruct k as [|k].
  - cbn in Ht. subst b. rewrite Nat.add_0_r. f_equal.
    assert (Hall : forall j, (j < length l)%nat -> nth j l false = false) by (intros j Hj; apply (Hf (S j)); [cbn; lia|lia]).
    clear -Hall. revert i. induction l as [|b l IH]; intros i; [reflexivity|]. cbn [true_indices].
    rewrite (Hall 0%nat ltac:(cbn; lia) : b = false). apply IH. intros j Hj. apply (Hall (S j)). cbn; lia.
  - rewrite (Hf 0%nat ltac:(cbn; lia) ltac:(lia) : b = false).
    rewrite (IH (S i) k); [f_equal; lia|cbn in Hk; lia|exact Ht|].
    intros j Hj Hne. apply (Hf (S j)); [cbn; lia|lia].
Qed.

Lemma all_peaks_unimodal (D : list R) c : (1 <= c)%nat -> (c + 1 < length D)%nat ->
  (forall i, (i < c)%nat -> nth i D 0 < nth (S i) D 0) ->
  (forall i, (c <= i)%nat -> (S i < length D)%nat -> nth (S i) D 0 < nth i D 0) ->
  @all_peaks RNum D = [c].
Proof.
  intros H1 H2 Hup Hdown. unfold all_peaks. cbn [ltb RNum].
  set (f := fun a b c0 : R => Rltb a b && Rltb c0 b).
  change (true_indices 1 (win3 f D) = [c]).
  assert (HN : forall k, (k + 2 < length D)%nat -> nth k (win3 f D) false = f (nth k D 0) (nth (S k) D 0) (nth (S (S k)) D 0)).
  { intros k Hk. apply win3_nth. exact Hk. }
  replace [c] with [(1 + (c - 1))%nat] by (f_equal; lia).
  apply true_indices_single.
  - rewrite win3_length. lia.
  - rewrite HN by lia. unfold f. replace (S (c - 1)) with c by lia.
    apply andb_true_iff. split; apply Rltb_true.
    + pose proof (Hup (c - 1)%nat ltac:(lia)) as H. replace (S (c - 1)) with c in H by lia. exact H.
    + apply Hdown; lia.
  - intros j Hj Hne. rewrite win3_length in Hj. rewrite HN by lia. unfold f.
    destruct (Nat.lt_ge_cases (S j) c) as [Hlt|Hge].
    + apply andb_false_iff. right. apply Rltb_false. left. apply Hup. lia.
    + apply andb_false_iff. left. apply Rltb_false. left. apply Hdown; lia.
Qed.

Lemma highest_peak_single (D : list R) c : @highest_peak RNum D [c] = Some c.
Proof. reflexivity. Qed.

Lemma nth_map_lt {A} (phi : A -> R) (l : list A) i d : (i < length l)%nat -> nth i (map phi l) 0 = phi (nth i l d).
Proof. intros H. rewrite (nth_indep _ 0 (phi d)) by (rewrite map_length; exact H). apply map_nth. Qed.

Lemma Rsum_map_pos {A} (f : A -> R) l p : (forall q, In q l -> 0 <= f q) -> In p l -> 0 < f p -> 0 < Rsum (map f l).
Proof.
  induction l as [|a l IH]; intros Hall Hin Hp; [destruct Hin|]. cbn [map Rsum].
  assert (Hl : 0 <= Rsum (map f l)).
  { clear -Hall. induction l as [|b l IH]; cbn [map Rsum]; [lra|].
    pose proof (Hall b (or_intror (or_introl eq_refl))).
    assert (0 <= Rsum (map f l)) by (apply IH; intros q Hq; apply Hall; destruct Hq; [left; assumption|right; right; assumption]). lra. }
  pose proof (Hall a (or_introl eq_refl)).
  destruct Hin as [->|Hin]; [lra|]. specialize (IH (fun q Hq => Hall q (or_intror Hq)) Hin Hp). lra.
Qed.

(* ------------------------------------------------------------------ the elbow under Kneedle *)
Section Kneedle.
  Variables (pts : list (R * R)) (c : nat) (m1 m2 : R).
  Hypothesis E : elbow pts c m1 m2.
  Local Notation n := (length pts).
  Local Notation x0 := (PX pts 0).
  Local Notation xc := (PX pts c).
  Local Notation xl := (PX pts (n - 1)).
  Local Notation dx := (PX pts (n - 1) - PX pts 0).
  Local Notation S := (PY pts (n - 1) - PY pts 0).

  Lemma k_bounds : (3 <= c)%nat /\ (c + 4 <= n)%nat.
  Proof. split; [apply (el_lo _ _ _ _ E)|apply (el_hi _ _ _ _ E)]. Qed.
  Lemma k_x i j : (i < j)%nat -> (j < n)%nat -> PX pts i < PX pts j.
  Proof. apply (el_x_lt _ _ _ _ E). Qed.
  Lemma k_x_le i j : (i <= j)%nat -> (j < n)%nat -> PX pts i <= PX pts j.
  Proof. intros H1 H2. destruct (Nat.eq_dec i j) as [->|Hne]; [lra|]. left. apply k_x; lia. Qed.
  Lemma k_A : 0 < xc - x0. Proof. destruct k_bounds. pose proof (k_x 0 c ltac:(lia) ltac:(lia)). lra. Qed.
  Lemma k_B : 0 < xl - xc. Proof. destruct k_bounds. pose proof (k_x c (n - 1) ltac:(lia) ltac:(lia)). lra. Qed.
  Lemma k_S : S = m1 * (xc - x0) + m2 * (xl - xc).
  Proof.
    destruct k_bounds. rewrite (el_left _ _ _ _ E 0), (el_right _ _ _ _ E (n - 1)) by lia. ring.
  Qed.

  (* deviation of the curve from its chord *)
  Definition term (i : nat) : R := PY pts i - PY pts 0 - S / dx * (PX pts i - x0).

  Lemma term_left i : (i <= c)%nat -> term i = (m1 - m2) * ((xl - xc) / dx) * (PX pts i - x0).
  Proof.
    intros Hi. destruct k_bounds. unfold term. rewrite k_S.
    rewrite (el_left _ _ _ _ E i), (el_left _ _ _ _ E 0) by lia.
    pose proof k_A. pose proof k_B. field. lra.
  Qed.
  Lemma term_right i : (c <= i)%nat -> (i < n)%nat -> term i = (m1 - m2) * ((xc - x0) / dx) * (xl - PX pts i).
  Proof.
    intros Hi Hn. destruct k_bounds. unfold term. rewrite k_S.
    rewrite (el_right _ _ _ _ E i), (el_left _ _ _ _ E 0) by lia.
    pose proof k_A. pose proof k_B. field. lra.
  Qed.
  Lemma term_sign i : (i < n)%nat -> exists w, 0 <= w /\ term i = (m1 - m2) * w.
  Proof.
    intros Hi. destruct k_bounds. pose proof k_A. pose proof k_B.
    destruct (Nat.le_gt_cases i c) as [Hle|Hgt].
    - exists ((xl - xc) / dx * (PX pts i - x0)). split; [|rewrite term_left by lia; ring].
      apply Rmult_le_pos; [left; apply Rdiv_lt_0_compat; lra|]. pose proof (k_x_le 0 i ltac:(lia) ltac:(lia)). lra.
    - exists ((xc - x0) / dx * (xl - PX pts i)). split; [|rewrite term_right by lia; ring].
      apply Rmult_le_pos; [left; apply Rdiv_lt_0_compat; lra|]. pose proof (k_x_le i (n - 1) ltac:(lia) ltac:(lia)). lra.
  Qed.
  Lemma term_corner : exists w, 0 < w /\ term c = (m1 - m2) * w.
  Proof.
    destruct k_bounds. pose proof k_A. pose proof k_B.
    exists ((xl - xc) / dx * (xc - x0)). split; [|rewrite term_left by lia; ring].
    apply Rmult_lt_0_compat; [apply Rdiv_lt_0_compat; lra|lra].
  Qed.

  (* any curve k0 + k1 * term with k1 (m1 - m2) > 0 has its only strict peak at the corner *)
  Lemma peaks_of_term (D : list R) (k0 k1 : R) : length D = n ->
    (forall i, (i < n)%nat -> nth i D 0 = k0 + k1 * term i) -> 0 < k1 * (m1 - m2) ->
    @all_peaks RNum D = [c].
  Proof.
    intros HL HD HK. destruct k_bounds. pose proof k_A. pose proof k_B.
    assert (Hb : 0 < (xl - xc) / dx) by (apply Rdiv_lt_0_compat; lra).
    assert (Ha : 0 < (xc - x0) / dx) by (apply Rdiv_lt_0_compat; lra).
    apply all_peaks_unimodal; try lia.
    - intros i Hi. rewrite !HD by lia. rewrite !term_left by lia.
      pose proof (k_x i (Datatypes.S i) ltac:(lia) ltac:(lia)) as Hh.
      set (K := k1 * (m1 - m2)) in *. set (bb := (xl - xc) / dx) in *.
      replace (k0 + k1 * ((m1 - m2) * bb * (PX pts (Datatypes.S i) - x0))) with (k0 + K * bb * (PX pts (Datatypes.S i) - x0)) by (unfold K; ring).
      replace (k0 + k1 * ((m1 - m2) * bb * (PX pts i - x0))) with (k0 + K * bb * (PX pts i - x0)) by (unfold K; ring).
      assert (0 < K * bb) by (apply Rmult_lt_0_compat; assumption). nra.
    - intros i Hi Hn. rewrite HL in Hn. rewrite !HD by lia. rewrite !term_right by lia.
      pose proof (k_x i (Datatypes.S i) ltac:(lia) ltac:(lia)) as Hh.
      set (K := k1 * (m1 - m2)) in *. set (aa := (xc - x0) / dx) in *.
      replace (k0 + k1 * ((m1 - m2) * aa * (xl - PX pts (Datatypes.S i)))) with (k0 + K * aa * (xl - PX pts (Datatypes.S i))) by (unfold K; ring).
      replace (k0 + k1 * ((m1 - m2) * aa * (xl - PX pts i))) with (k0 + K * aa * (xl - PX pts i)) by (unfold K; ring).
      assert (0 < K * aa) by (apply Rmult_lt_0_compat; assumption). nra.
  Qed.

  (* ---- the pieces of kneedle.knee on the elbow *)
  Lemma k_ema expm : @ema_linear RNum expm pts 0 = pts.
  Proof.
    unfold ema_linear. cbn [eqb zero RNum].
    assert (H : Reqb 0 0 = true) by (apply Reqb_true; reflexivity). rewrite H. reflexivity.
  Qed.
  Lemma k_fit : @linear_fit RNum pts = (PY pts 0 - S / dx * x0, S / dx).
  Proof.
    destruct k_bounds. pose proof k_A. pose proof k_B.
    apply linear_fit_online; rewrite ?hd_nth0, ?last_nth; fold (PX pts 0) (PY pts 0) (PX pts (n - 1)) (PY pts (n - 1)).
    - ring.
    - field. lra.
    - lra.
  Qed.
  Definition dev (p : R * R) : R := snd p - (fst p * (S / dx) + (PY pts 0 - S / dx * x0)).
  Lemma dev_term i : dev (nth i pts (0, 0)) = term i.
  Proof. rewrite nth_pt. unfold dev, term. cbn [fst snd]. ring. Qed.
  Lemma k_vote : @kneedle_vote RNum pts = Rsum (map dev pts).
  Proof. unfold kneedle_vote. rewrite k_fit. rewrite np_sum_R. reflexivity. Qed.
  Lemma vote_pos : m2 < m1 -> 0 < @kneedle_vote RNum pts.
  Proof.
    intros Hm. destruct k_bounds. rewrite k_vote.
    apply (Rsum_map_pos dev pts (nth c pts (0, 0))).
    - intros q Hq. destruct (In_nth _ _ (0, 0) Hq) as [i [Hi <-]]. rewrite dev_term.
      destruct (term_sign i Hi) as [w [Hw ->]]. apply Rmult_le_pos; lra.
    - apply nth_In. lia.
    - rewrite dev_term. destruct term_corner as [w [Hw ->]]. apply Rmult_lt_0_compat; lra.
  Qed.
  Lemma vote_neg : m1 < m2 -> @kneedle_vote RNum pts < 0.
  Proof.
    intros Hm. destruct k_bounds. rewrite k_vote.
    assert (Hneg : 0 < Rsum (map (fun q => -1 * dev q) pts)).
    { apply (Rsum_map_pos (fun q => -1 * dev q) pts (nth c pts (0, 0))).
      - intros q Hq. destruct (In_nth _ _ (0, 0) Hq) as [i [Hi <-]]. rewrite dev_term.
        destruct (term_sign i Hi) as [w [Hw ->]]. assert (0 <= (m2 - m1) * w) by (apply Rmult_le_pos; lra). lra.
      - apply nth_In. lia.
      - rewrite dev_term. destruct term_corner as [w [Hw ->]]. assert (0 < (m2 - m1) * w) by (apply Rmult_lt_0_compat; lra). lra. }
    rewrite Rsum_map_scal in Hneg. lra.
  Qed.

  Lemma xs_nth i : nth i (map fst pts) 0 = PX pts i.
  Proof. exact (map_nth fst pts (0, 0) i). Qed.
  Lemma ys_nth i : nth i (map snd pts) 0 = PY pts i.
  Proof. exact (map_nth snd pts (0, 0) i). Qed.
  Lemma k_xmin : @np_min RNum (map fst pts) = x0.
  Proof.
    destruct k_bounds. apply (np_min_val _ _ 0%nat); rewrite ?map_length; [lia|apply xs_nth|].
    intros j Hj. rewrite xs_nth. apply k_x_le; lia.
  Qed.
  Lemma k_xmax : @np_max RNum (map fst pts) = xl.
  Proof.
    destruct k_bounds. apply (np_max_val _ _ (n - 1)%nat); rewrite ?map_length; [lia|apply xs_nth|].
    intros j Hj. rewrite xs_nth. apply k_x_le; lia.
  Qed.

  (* y is monotone when both slopes have the same sign *)
  Lemma y_step i : (Datatypes.S i < n)%nat ->
    PY pts (Datatypes.S i) - PY pts i = (if (i <? c)%nat then m1 else m2) * (PX pts (Datatypes.S i) - PX pts i).
  Proof.
    intros Hi. destruct (Nat.ltb_spec i c).
    - rewrite (el_left _ _ _ _ E (Datatypes.S i)), (el_left _ _ _ _ E i) by lia. ring.
    - rewrite (el_right _ _ _ _ E (Datatypes.S i)), (el_right _ _ _ _ E i) by lia. ring.
  Qed.
  Lemma y_incr : 0 <= m1 -> 0 <= m2 -> forall i j, (i <= j)%nat -> (j < n)%nat -> PY pts i <= PY pts j.
  Proof.
    intros H1 H2 i j Hij. induction Hij as [|j Hij IH]; intros Hj; [lra|].
    specialize (IH ltac:(lia)). pose proof (y_step j Hj) as Hs. pose proof (k_x j (Datatypes.S j) ltac:(lia) Hj).
    destruct (j <? c)%nat; nra.
  Qed.
  Lemma y_decr : m1 <= 0 -> m2 <= 0 -> forall i j, (i <= j)%nat -> (j < n)%nat -> PY pts j <= PY pts i.
  Proof.
    intros H1 H2 i j Hij. induction Hij as [|j Hij IH]; intros Hj; [lra|].
    specialize (IH ltac:(lia)). pose proof (y_step j Hj) as Hs. pose proof (k_x j (Datatypes.S j) ltac:(lia) Hj).
    destruct (j <? c)%nat; nra.
  Qed.
  Lemma S_pos : 0 <= m1 -> 0 <= m2 -> 0 < S.
  Proof.
    intros H1 H2. rewrite k_S. pose proof k_A. pose proof k_B. pose proof (el_slopes _ _ _ _ E).
    destruct (Req_dec m1 0) as [->|Hn]; [assert (0 < m2) by lra; nra|assert (0 < m1) by lra; nra].
  Qed.
  Lemma S_neg : m1 <= 0 -> m2 <= 0 -> S < 0.
  Proof.
    intros H1 H2. rewrite k_S. pose proof k_A. pose proof k_B. pose proof (el_slopes _ _ _ _ E).
    destruct (Req_dec m1 0) as [->|Hn]; [assert (m2 < 0) by lra; nra|assert (m1 < 0) by lra; nra].
  Qed.

  Lemma dx_pos : 0 < dx. Proof. pose proof k_A. pose proof k_B. lra. Qed.
  Lemma k_norm_inc : 0 <= m1 -> 0 <= m2 ->
    @kneedle_normalise RNum pts = map (fun p : R * R => ((fst p - x0) / dx, (snd p - PY pts 0) / S)) pts.
  Proof.
    intros H1 H2. destruct k_bounds. pose proof dx_pos. pose proof (S_pos H1 H2).
    unfold kneedle_normalise. rnorm. rewrite k_xmin, k_xmax.
    assert (Hymin : @np_min RNum (map snd pts) = PY pts 0).
    { apply (np_min_val _ _ 0%nat); rewrite ?map_length; [lia|apply ys_nth|]. intros j Hj. rewrite ys_nth. apply y_incr; auto; lia. }
    assert (Hymax : @np_max RNum (map snd pts) = PY pts (n - 1)).
    { apply (np_max_val _ _ (n - 1)%nat); rewrite ?map_length; [lia|apply ys_nth|]. intros j Hj. rewrite ys_nth. apply y_incr; auto; lia. }
    rewrite Hymin, Hymax. cbn [eqb sub div one RNum].
    assert (Ex : Reqb dx 0 = false) by (apply Reqb_false; lra).
    assert (Ey : Reqb S 0 = false) by (apply Reqb_false; lra).
    rewrite Ex, Ey. reflexivity.
  Qed.
  Lemma k_norm_dec : m1 <= 0 -> m2 <= 0 ->
    @kneedle_normalise RNum pts = map (fun p : R * R => ((fst p - x0) / dx, (snd p - PY pts (n - 1)) / (PY pts 0 - PY pts (n - 1)))) pts.
  Proof.
    intros H1 H2. destruct k_bounds. pose proof dx_pos. pose proof (S_neg H1 H2).
    unfold kneedle_normalise. rnorm. rewrite k_xmin, k_xmax.
    assert (Hymin : @np_min RNum (map snd pts) = PY pts (n - 1)).
    { apply (np_min_val _ _ (n - 1)%nat); rewrite ?map_length; [lia|apply ys_nth|]. intros j Hj. rewrite ys_nth. apply y_decr; auto; lia. }
    assert (Hymax : @np_max RNum (map snd pts) = PY pts 0).
    { apply (np_max_val _ _ 0%nat); rewrite ?map_length; [lia|apply ys_nth|]. intros j Hj. rewrite ys_nth. apply y_decr; auto; lia. }
    rewrite Hymin, Hymax. cbn [eqb sub div one RNum].
    assert (Ex : Reqb dx 0 = false) by (apply Reqb_false; lra).
    assert (Ey : Reqb (PY pts 0 - PY pts (n - 1)) 0 = false) by (apply Reqb_false; lra).
    rewrite Ex, Ey. reflexivity.
  Qed.

  (* ---- each selectable difference curve is k0 + k1 * term with k1 (m1 - m2) > 0 *)
  Lemma k_cc_result expm cd cc (phi : R * R -> R) (k0 k1 : R) :
    map (@kneedle_difference RNum cd cc) (@kneedle_normalise RNum pts) = map phi pts ->
    (forall i, (i < n)%nat -> phi (nth i pts (0, 0)) = k0 + k1 * term i) -> 0 < k1 * (m1 - m2) ->
    @kneedle_knee_cc RNum expm pts 0 cd cc = Some c.
  Proof.
    intros HD Hphi HK. unfold kneedle_knee_cc. rewrite k_ema. cbv zeta. rewrite HD.
    rewrite (peaks_of_term (map phi pts) k0 k1); [apply highest_peak_single|apply map_length| |exact HK].
    intros i Hi. rewrite (nth_map_lt phi pts i (0, 0)) by exact Hi. apply Hphi. exact Hi.
  Qed.

  Lemma k_inc_cw expm : 0 <= m1 -> 0 <= m2 -> m2 < m1 -> @kneedle_knee_cc RNum expm pts 0 Increasing Clockwise = Some c.
  Proof.
    intros H1 H2 Hm. pose proof dx_pos. pose proof (S_pos H1 H2) as HS.
    apply (k_cc_result expm _ _ (fun p => (snd p - PY pts 0) / S - (fst p - x0) / dx) 0 (1 / S)).
    - rewrite (k_norm_inc H1 H2), map_map. reflexivity.
    - intros i Hi. rewrite nth_pt. cbn [fst snd]. unfold term. field. lra.
    - apply Rmult_lt_0_compat; [apply Rdiv_lt_0_compat; lra|lra].
  Qed.
  Lemma k_inc_ccw expm : 0 <= m1 -> 0 <= m2 -> m1 < m2 -> @kneedle_knee_cc RNum expm pts 0 Increasing Counterclockwise = Some c.
  Proof.
    intros H1 H2 Hm. pose proof dx_pos. pose proof (S_pos H1 H2) as HS.
    apply (k_cc_result expm _ _ (fun p => Rabs ((snd p - PY pts 0) / S - (fst p - x0) / dx)) 0 (- (1 / S))).
    - rewrite (k_norm_inc H1 H2), map_map. reflexivity.
    - intros i Hi. rewrite nth_pt. cbn [fst snd].
      assert (Ht : (PY pts i - PY pts 0) / S - (PX pts i - x0) / dx = term i / S) by (unfold term; field; lra).
      rewrite Ht. destruct (term_sign i Hi) as [w [Hw Hterm]].
      assert (Hle : term i / S <= 0).
      { rewrite Hterm. assert (0 <= (m2 - m1) * w / S) by (apply Rmult_le_pos; [apply Rmult_le_pos; lra|left; apply Rinv_0_lt_compat; lra]).
        replace ((m1 - m2) * w / S) with (- ((m2 - m1) * w / S)) by (field; lra). lra. }
      rewrite Rabs_left1 by exact Hle. field. lra.
    - replace (- (1 / S) * (m1 - m2)) with ((1 / S) * (m2 - m1)) by (field; lra).
      apply Rmult_lt_0_compat; [apply Rdiv_lt_0_compat; lra|lra].
  Qed.
  Lemma k_dec_cw expm : m1 <= 0 -> m2 <= 0 -> m2 < m1 -> @kneedle_knee_cc RNum expm pts 0 Decreasing Clockwise = Some c.
  Proof.
    intros H1 H2 Hm. pose proof dx_pos. pose proof (S_neg H1 H2) as HS.
    apply (k_cc_result expm _ _ (fun p => (fst p - x0) / dx + (snd p - PY pts (n - 1)) / (PY pts 0 - PY pts (n - 1))) 1 (- (1 / S))).
    - rewrite (k_norm_dec H1 H2), map_map. reflexivity.
    - intros i Hi. rewrite nth_pt. cbn [fst snd]. unfold term. field. lra.
    - replace (- (1 / S) * (m1 - m2)) with ((1 / - S) * (m1 - m2)) by (field; lra).
      apply Rmult_lt_0_compat; [apply Rdiv_lt_0_compat; lra|lra].
  Qed.
  Lemma k_dec_ccw expm : m1 <= 0 -> m2 <= 0 -> m1 < m2 -> @kneedle_knee_cc RNum expm pts 0 Decreasing Counterclockwise = Some c.
  Proof.
    intros H1 H2 Hm. pose proof dx_pos. pose proof (S_neg H1 H2) as HS.
    apply (k_cc_result expm _ _ (fun p => 1 - ((fst p - x0) / dx + (snd p - PY pts (n - 1)) / (PY pts 0 - PY pts (n - 1)))) 0 (1 / S)).
    - rewrite (k_norm_dec H1 H2), map_map. reflexivity.
    - intros i Hi. rewrite nth_pt. cbn [fst snd]. unfold term. field. lra.
    - replace (1 / S * (m1 - m2)) with ((1 / - S) * (m2 - m1)) by (field; lra).
      apply Rmult_lt_0_compat; [apply Rdiv_lt_0_compat; lra|lra].
  Qed.

  Lemma k_direction_inc : 0 <= m1 -> 0 <= m2 -> @kneedle_direction RNum pts = Increasing.
  Proof.
    intros H1 H2. unfold kneedle_direction. rewrite k_fit. cbn [ltb zero RNum].
    assert (Hlt : Rltb 0 (S / dx) = true) by (apply Rltb_true; apply Rdiv_lt_0_compat; [apply S_pos; assumption|apply dx_pos]).
    rewrite Hlt. reflexivity.
  Qed.
  Lemma k_direction_dec : m1 <= 0 -> m2 <= 0 -> @kneedle_direction RNum pts = Decreasing.
  Proof.
    intros H1 H2. unfold kneedle_direction. rewrite k_fit. cbn [ltb zero RNum].
    assert (Hlt : Rltb 0 (S / dx) = false).
    { apply Rltb_false. pose proof (S_neg H1 H2). pose proof dx_pos.
      assert (0 < (- S) / dx) by (apply Rdiv_lt_0_compat; lra).
      replace (S / dx) with (- (- S / dx)) by (field; lra). lra. }
    rewrite Hlt. reflexivity.
  Qed.
  Lemma k_concavity_cw : m2 < m1 -> @kneedle_concavity RNum pts = Clockwise.
  Proof.
    intros Hm. unfold kneedle_concavity. cbn [ltb zero RNum].
    assert (Hlt : Rltb 0 (@kneedle_vote RNum pts) = true) by (apply Rltb_true; apply vote_pos; exact Hm).
    rewrite Hlt. reflexivity.
  Qed.
  Lemma k_concavity_ccw : m1 < m2 -> @kneedle_concavity RNum pts = Counterclockwise.
  Proof.
    intros Hm. unfold kneedle_concavity. cbn [ltb zero RNum].
    assert (Hlt : Rltb 0 (@kneedle_vote RNum pts) = false) by (apply Rltb_false; left; apply vote_neg; exact Hm).
    rewrite Hlt. reflexivity.
  Qed.
End Kneedle.

(* kneedle.knee(points, t = 0) returns the corner of every monotone exact two-slope elbow
   (expm stands for np.exp inside ema_linear, which t = 0 never evaluates) *)
Theorem kneedle_elbow (pts : list (R * R)) (c : nat) (m1 m2 : R) (expm : R -> R) :
  elbow pts c m1 m2 -> (0 <= m1 /\ 0 <= m2) \/ (m1 <= 0 /\ m2 <= 0) ->
  @kneedle_knee RNum expm pts 0 = Some c.
Proof.
  intros E Mono. unfold kneedle_knee. pose proof (el_slopes _ _ _ _ E) as Hs.
  destruct Mono as [[H1 H2]|[H1 H2]].
  - rewrite (k_direction_inc pts c m1 m2 E H1 H2).
    destruct (Rtotal_order m1 m2) as [Hlt|[Heq|Hgt]]; [|contradiction|].
    + rewrite (k_concavity_ccw pts c m1 m2 E Hlt). apply (k_inc_ccw pts c m1 m2 E); assumption.
    + rewrite (k_concavity_cw pts c m1 m2 E Hgt). apply (k_inc_cw pts c m1 m2 E); assumption.
  - rewrite (k_direction_dec pts c m1 m2 E H1 H2).
    destruct (Rtotal_order m1 m2) as [Hlt|[Heq|Hgt]]; [|contradiction|].
    + rewrite (k_concavity_ccw pts c m1 m2 E Hlt). apply (k_dec_ccw pts c m1 m2 E); assumption.
    + rewrite (k_concavity_cw pts c m1 m2 E Hgt). apply (k_dec_cw pts c m1 m2 E); assumption.
Qed.
