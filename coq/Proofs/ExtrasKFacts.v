(* Proofs/ExtrasKFacts.v — kneedle.knees (Model/ExtrasKneedle.v): for every oracle valuation (smoothed curve, selected peaks) the
   result is strictly increasing and holds exactly the members of the two per-concavity selections (Tier S). *)
From Coq Require Import ZArith List Bool Arith Lia Permutation.
From Knee Require Import Num NpList Model.Uts Model.DetectorsFormula Model.ExtrasKneedle Proofs.ListFacts.
Import ListNotations.

Lemma ND_hd_le : forall l a x, ND (a :: l) -> In x l -> a <= x.
Proof.
  induction l as [|b l IH]; intros a x H Hx; [contradiction|]. destruct H as [Hab H].
  destruct Hx as [->|Hx]; [exact Hab|]. specialize (IH b x H Hx). lia.
Qed.
Lemma dedup_sorted_In_iff : forall l x, In x (dedup_sorted l) <-> In x l.
Proof.
  induction l as [|a [|b l'] IH]; intros x; [tauto|cbn; tauto|].
  change (dedup_sorted (a :: b :: l')) with (if a =? b then dedup_sorted (b :: l') else a :: dedup_sorted (b :: l')).
  destruct (Nat.eqb_spec a b) as [->|E].
  - rewrite IH. cbn [In]. tauto.
  - cbn [In]. rewrite IH. cbn [In]. tauto.
Qed.
Lemma dedup_sorted_SI : forall l, ND l -> SI (dedup_sorted l).
Proof.
  induction l as [|a [|b l'] IH]; intros H; [exact I|exact I|].
  change (dedup_sorted (a :: b :: l')) with (if a =? b then dedup_sorted (b :: l') else a :: dedup_sorted (b :: l')).
  pose proof (ND_tl _ _ H) as Ht. destruct (Nat.eqb_spec a b) as [->|E]; [apply IH; exact Ht|].
  apply SI_cons; [|apply IH; exact Ht].
  apply Forall_forall. intros x Hx. rewrite dedup_sorted_In_iff in Hx.
  destruct H as [Hab H]. destruct Hx as [->|Hx]; [lia|]. pose proof (ND_hd_le l' b x H Hx). lia.
Qed.
Lemma np_unique_spec l : SI (np_unique l) /\ forall x, In x (np_unique l) <-> In x l.
Proof.
  unfold np_unique. split.
  - apply dedup_sorted_SI. apply sort_nat_ND.
  - intros x. rewrite dedup_sorted_In_iff. split; intros H.
    + eapply Permutation_in; [apply Permutation_sym, sort_nat_perm|exact H].
    + eapply Permutation_in; [apply sort_nat_perm|exact H].
Qed.

Section KneesFacts.
  Context {N : Num}.
  Theorem kneedle_knees_spec (pts Ds : list (@pt N)) (p : peakdet) (sel_ccw sel_cw : list nat) :
    let cd := kneedle_direction pts in
    let out := kneedle_knees pts Ds p sel_ccw sel_cw in
    SI out /\
    (forall k, In k out <-> In k (knees_cc Ds cd Counterclockwise p sel_ccw) \/ In k (knees_cc Ds cd Clockwise p sel_cw)) /\
    kneedle_knees_okb pts Ds p sel_ccw sel_cw out = 0.
  Proof.
    intros cd out. unfold out, kneedle_knees. fold cd.
    set (both := knees_cc Ds cd Counterclockwise p sel_ccw ++ knees_cc Ds cd Clockwise p sel_cw).
    destruct (np_unique_spec both) as [HS HI]. split; [exact HS|]. split.
    - intros k. rewrite HI. unfold both. apply in_app_iff.
    - unfold kneedle_knees_okb. fold cd both.
      apply SI_iff in HS. rewrite HS. cbn [negb].
      assert (E2 : forallb (fun k => existsb (Nat.eqb k) both) (np_unique both) = true).
      { apply forallb_forall. intros k Hk. apply existsb_exists. exists k. split; [apply HI; exact Hk|apply Nat.eqb_refl]. }
      assert (E3 : forallb (fun k => existsb (Nat.eqb k) (np_unique both)) both = true).
      { apply forallb_forall. intros k Hk. apply existsb_exists. exists k. split; [apply HI; exact Hk|apply Nat.eqb_refl]. }
      rewrite E2, E3. reflexivity.
  Qed.
  (* PeakDetection.All needs no selector: the knees are all the peaks of the two difference curves *)
  Theorem kneedle_knees_all (pts Ds : list (@pt N)) s1 s2 s1' s2' :
    kneedle_knees pts Ds PAll s1 s2 = kneedle_knees pts Ds PAll s1' s2'.
  Proof. reflexivity. Qed.
End KneesFacts.
