(* Proofs/EvenPointsFacts.v — theorems about Model/EvenPoints.v (property C14). *)
From Coq Require Import List Arith Bool Lia Permutation ZArith.
From Knee Require Import Num NpList Model.Mapping Model.EvenPoints Proofs.ListFacts Proofs.MappingFacts.
Import ListNotations.
Local Open Scope num_scope.

(* ------------------------------------------------------------------------------------------ *)
(* list helpers *)

Lemma ND_cons a l : Forall (fun x => a <= x) l -> ND l -> ND (a :: l).
Proof. destruct l as [|b l]; cbn; auto. intros H; inversion H; tauto. Qed.
Lemma ND_le_all' a l : ND (a :: l) -> Forall (fun x => a <= x) l.
Proof.
  revert a; induction l as [|b l IH]; intros a H; constructor.
  - cbn in H; tauto.
  - destruct H as [Hab H]. specialize (IH b H). eapply Forall_impl; [|exact IH]. cbn; intros; lia.
Qed.

Lemma skipn_cons_inv {A} (l : list A) : forall k a t d,
  skipn k l = a :: t -> nth k l d = a /\ skipn (S k) l = t /\ k < length l.
Proof.
  induction l as [|x l IH]; intros k a t d H.
  - destruct k; discriminate.
  - destruct k as [|k]; cbn [skipn] in H.
    + inversion H; subst. cbn. repeat split; lia.
    + destruct (IH k a t d H) as [H1 [H2 H3]]. cbn [nth length]. repeat split; auto. lia.
Qed.

Lemma consecutive_In l : forall a b, In (a, b) (consecutive l) -> In a l /\ In b l.
Proof.
  induction l as [|x [|y l'] IH]; intros a b H; try destruct H.
  - inversion H; subst. split; [left|right; left]; auto.
  - destruct (IH a b H). split; right; auto.
Qed.
Lemma consecutive_ND l : ND l -> forall a b, In (a, b) (consecutive l) -> a <= b.
Proof.
  induction l as [|x [|y l'] IH]; intros Hnd a b H; try destruct H.
  - inversion H; subst. cbn in Hnd. tauto.
  - apply IH; auto. eapply ND_tl; eauto.
Qed.
Lemma consecutive_snoc l x : l <> [] -> consecutive (l ++ [x]) = consecutive l ++ [(last l 0, x)].
Proof.
  induction l as [|a [|b l'] IH]; intros H; [congruence|reflexivity|].
  change ((a :: b :: l') ++ [x]) with (a :: (b :: l') ++ [x]).
  change (consecutive (a :: (b :: l') ++ [x])) with ((a, b) :: consecutive ((b :: l') ++ [x])).
  rewrite IH by congruence. reflexivity.
Qed.

Lemma dedup_sorted_In l : forall x, In x (dedup_sorted l) -> In x l.
Proof.
  induction l as [|a [|b l'] IH]; intros x H; auto.
  cbn [dedup_sorted] in H. destruct (a =? b).
  - right. apply IH. exact H.
  - destruct H as [->|H]; [left; auto|right; apply IH; exact H].
Qed.
Lemma np_unique_In l x : In x (np_unique l) -> In x l.
Proof.
  unfold np_unique. intros H. apply dedup_sorted_In in H.
  apply (Permutation_in _ (Permutation_sym (sort_nat_perm l))). exact H.
Qed.

(* ------------------------------------------------------------------------------------------ *)
(* the increments *)

Lemma steps_closed : forall k idx inc, steps idx inc k = map (fun j => idx + j * inc) (seq 1 k).
Proof.
  induction k as [|k IH]; intros idx inc; [reflexivity|].
  cbn [steps seq map]. f_equal; [lia|].
  rewrite IH. rewrite <- (seq_shift k 1), map_map. apply map_ext. intros j. lia.
Qed.

Lemma quot_to_nat d c : (0 < c)%Z -> Z.to_nat (Z.quot (Z.of_nat d) c) = d / Z.to_nat c.
Proof.
  intros Hc. rewrite Z.quot_div_nonneg by lia.
  rewrite <- (Z2Nat.id c) at 1 by lia. rewrite <- Nat2Z.inj_div. apply Nat2Z.id.
Qed.

Section Facts.
  Context {N : Num}.
  Variable xs ys : list (T N).
  Variable tx ty : T N.

  Notation qualifies := (qualifies xs ys tx ty).
  Notation count := (count xs tx).
  Notation even_points := (even_points xs tx).
  Notation spec_points := (spec_points xs tx).
  Notation qual_segs := (qual_segs xs ys tx ty).
  Notation seg_points_all := (seg_points_all xs tx).
  Notation rmf := (rmf ys).

  (* the accumulation loop produces the evenly spaced closed form *)
  Lemma even_points_spec l r : even_points l r = spec_points l r.
  Proof.
    unfold EvenPoints.even_points, EvenPoints.spec_points. destruct (count l r) as [c|]; auto.
    destruct (Z.eqb_spec c 0) as [|Hc]; auto. f_equal. rewrite steps_closed.
    destruct (Z.ltb_spec 0 c) as [Hpos|Hneg].
    - rewrite quot_to_nat by exact Hpos. reflexivity.
    - replace (Z.to_nat c) with 0 by lia. reflexivity.
  Qed.

  Definition flat (qs : list (nat * nat)) : list nat := flat_map (fun s => [fst s; snd s]) qs.

  Lemma pairs_loop_flat qs : pairs_loop xs tx (flat qs) = seg_points_all qs.
  Proof.
    induction qs as [|[l r] qs IH]; [reflexivity|].
    cbn [flat flat_map fst snd app]. fold (flat qs). cbn [pairs_loop EvenPoints.seg_points_all].
    rewrite even_points_spec, IH. reflexivity.
  Qed.
  Lemma gaps_loop_spec qs : gaps_loop xs tx qs = seg_points_all qs.
  Proof.
    induction qs as [|[l r] qs IH]; [reflexivity|].
    cbn [gaps_loop EvenPoints.seg_points_all]. rewrite even_points_spec, IH. reflexivity.
  Qed.

  Lemma cand_loop_cons a b rest i :
    cand_loop xs ys tx ty (a :: b :: rest) i =
    match qualifies a b with
    | None => None
    | Some q => option_map (fun t => if q then (i - 1) :: i :: t else t) (cand_loop xs ys tx ty (b :: rest) (S i))
    end.
  Proof. reflexivity. Qed.
  Lemma qual_segs_cons l r rest :
    qual_segs ((l, r) :: rest) =
    match qualifies l r with
    | None => None
    | Some q => option_map (fun t => if q then (l, r) :: t else t) (qual_segs rest)
    end.
  Proof. reflexivity. Qed.

  (* the first loop of add_points_even: positions in the reduced curve of the qualifying segments' ends *)
  Lemma cand_loop_spec red : forall red' i, 1 <= i -> skipn (i - 1) red = red' ->
    match cand_loop xs ys tx ty red' i, qual_segs (consecutive red') with
    | Some c, Some q => map (fun p => nth p red 0) c = flat q /\ ND c /\
                        Forall (fun p => i - 1 <= p /\ p < length red) c
    | None, None => True
    | _, _ => False
    end.
  Proof.
    induction red' as [|a [|b rest] IH]; intros i Hi Hs.
    - cbn. repeat split; constructor.
    - cbn. repeat split; constructor.
    - destruct (skipn_cons_inv red (i - 1) a (b :: rest) 0 Hs) as [Ha [Hs' Hlt]].
      replace (S (i - 1)) with i in Hs' by lia.
      destruct (skipn_cons_inv red i b rest 0 Hs') as [Hb [_ Hlt']].
      specialize (IH (S i) ltac:(lia)). replace (S i - 1) with i in IH by lia. specialize (IH Hs').
      change (consecutive (a :: b :: rest)) with ((a, b) :: consecutive (b :: rest)).
      rewrite cand_loop_cons, qual_segs_cons.
      destruct (qualifies a b) as [q|]; [|exact I].
      destruct (cand_loop xs ys tx ty (b :: rest) (S i)) as [c|], (qual_segs (consecutive (b :: rest))) as [qs|];
        cbn [option_map]; try exact IH.
      destruct IH as [Hm [Hnd Hf]]. destruct q.
      + cbn [map flat flat_map fst snd app]. fold (flat qs). rewrite Ha, Hb, Hm. split; [reflexivity|]. split.
        * apply ND_cons; [|apply ND_cons; auto].
          -- constructor; [lia|]. eapply Forall_impl; [|exact Hf]. cbn. intros; lia.
          -- eapply Forall_impl; [|exact Hf]. cbn. intros; lia.
        * constructor; [lia|]. constructor; [lia|]. eapply Forall_impl; [|exact Hf]. cbn. intros; lia.
      + split; [exact Hm|]. split; [exact Hnd|]. eapply Forall_impl; [|exact Hf]. cbn. intros; lia.
  Qed.

  (* C14 even_spec, add_points_even (Tier S) *)
  Theorem even_spec_thm n red knees ext :
    WF n red -> ND knees -> Forall (fun k => k < length red) knees ->
    add_points_even xs ys tx ty red (rows red) knees ext = even_spec_reduced xs ys tx ty red knees ext.
  Proof.
    intros Hwf Hnd Hf. unfold add_points_even, even_spec_reduced, even_spec.
    pose proof (cand_loop_spec red red 1 ltac:(lia) eq_refl) as HA.
    destruct (cand_loop xs ys tx ty red 1) as [c|], (qual_segs (consecutive red)) as [qs|]; try contradiction; auto.
    destruct HA as [Hm [Hc1 Hc2]].
    rewrite (mapping_correct n red c Hwf Hc1).
    2:{ eapply Forall_impl; [|exact Hc2]. cbn. intros; lia. }
    rewrite Hm, pairs_loop_flat. destruct (seg_points_all qs) as [pts|]; auto.
    rewrite (mapping_correct n red knees Hwf Hnd Hf). reflexivity.
  Qed.

  (* the three-part candidate collection of add_points_even_knees is the qualifying-segment selection over the
     gaps of 0 :: knees ++ [n-1] *)
  Lemma between_spec ks : between xs ys tx ty ks = qual_segs (consecutive ks).
  Proof.
    induction ks as [|a [|b rest] IH]; try reflexivity.
    change (consecutive (a :: b :: rest)) with ((a, b) :: consecutive (b :: rest)).
    rewrite qual_segs_cons, <- IH. reflexivity.
  Qed.
  Lemma qual_segs_app s1 s2 :
    qual_segs (s1 ++ s2) = match qual_segs s1, qual_segs s2 with
                           | Some a, Some b => Some (a ++ b)
                           | _, _ => None
                           end.
  Proof.
    induction s1 as [|[l r] s1 IH]; cbn [app EvenPoints.qual_segs].
    - destruct (qual_segs s2); reflexivity.
    - destruct (qualifies l r) as [q|]; auto. rewrite IH.
      destruct (qual_segs s1), (qual_segs s2); cbn [option_map]; auto. destruct q; reflexivity.
  Qed.

  (* C14 even_spec, add_points_even_knees (Tier S): no hypothesis at all, the empty knee list included *)
  Theorem even_knees_spec_thm knees ext :
    add_points_even_knees xs ys tx ty knees ext = even_spec_knees xs ys tx ty knees ext.
  Proof.
    unfold add_points_even_knees, even_spec_knees, even_spec, knee_gaps.
    rewrite qual_segs_cons, qual_segs_app, between_spec.
    cbn [EvenPoints.qual_segs].
    destruct (qualifies 0 (hd (length xs - 1) knees)) as [q0|]; auto.
    destruct (qual_segs (consecutive knees)) as [mid|]; auto.
    destruct (qualifies (last knees (length xs - 1)) (length xs - 1)) as [q1|]; cbn [option_map]; auto.
    rewrite gaps_loop_spec.
    destruct q0, q1; cbn [app option_map]; reflexivity.
  Qed.

  (* ---------------------------------------------------------------------------------------- *)
  (* index validity *)

  Lemma rmf_go_In ks : forall h x, In x (rmf_go ys h ks) -> In x ks.
  Proof.
    induction ks as [|k ks IH]; intros h x H; [destruct H|]. cbn [rmf_go] in H.
    destruct (yat ys k <=?! h).
    - destruct H as [->|H]; [left; auto|right; eapply IH; eauto].
    - right; eapply IH; eauto.
  Qed.
  Lemma rmf_In ks x : In x (rmf ks) -> In x ks.
  Proof.
    destruct ks as [|k ks]; [auto|]. cbn [EvenPoints.rmf]. intros [->|H]; [left; auto|right; eapply rmf_go_In; eauto].
  Qed.

  Lemma spec_points_bound l r p : l <= r -> spec_points l r = Some p -> Forall (fun x => x <= r) p.
  Proof.
    intros Hlr. unfold EvenPoints.spec_points. destruct (count l r) as [c|]; [|discriminate].
    destruct (c =? 0)%Z; [discriminate|]. intros H. inversion H; subst. clear H.
    rewrite Forall_forall. intros x Hx. apply in_map_iff in Hx. destruct Hx as [j [<- Hj]]. apply in_seq in Hj.
    set (c' := Z.to_nat c) in *. assert (c' <> 0) by lia.
    pose proof (Nat.mul_div_le (r - l) c' H).
    assert (j * ((r - l) / c') <= c' * ((r - l) / c')) by (apply Nat.mul_le_mono_r; lia). lia.
  Qed.
  Lemma qual_segs_incl segs : forall qs, qual_segs segs = Some qs -> incl qs segs.
  Proof.
    induction segs as [|[l r] segs IH]; intros qs H; cbn [EvenPoints.qual_segs] in H.
    - inversion H. intros x [].
    - destruct (qualifies l r) as [q|]; [|discriminate].
      destruct (qual_segs segs) as [t|]; [|discriminate]. cbn in H. inversion H; subst. clear H.
      specialize (IH t eq_refl). destruct q.
      + intros x [<-|Hx]; [left; auto|right; apply IH; auto].
      + intros x Hx. right; apply IH; auto.
  Qed.
  Lemma seg_points_all_bound n qs : forall p,
    (forall l r, In (l, r) qs -> l <= r /\ r < n) -> seg_points_all qs = Some p -> Forall (fun x => x < n) p.
  Proof.
    induction qs as [|[l r] qs IH]; intros p Hq H; cbn [EvenPoints.seg_points_all] in H.
    - inversion H. constructor.
    - destruct (spec_points l r) as [p1|] eqn:E1; [|discriminate].
      destruct (seg_points_all qs) as [p2|]; [|discriminate]. cbn in H. inversion H; subst. clear H.
      destruct (Hq l r (or_introl eq_refl)) as [Hlr Hr].
      apply Forall_app. split.
      + eapply Forall_impl; [|exact (spec_points_bound l r p1 Hlr E1)]. cbn. intros; lia.
      + apply IH; auto. intros l' r' Hin. apply Hq. right; auto.
  Qed.

  Lemma even_spec_valid n segs knees ext res :
    n = length xs -> 1 <= n ->
    (forall l r, In (l, r) segs -> l <= r /\ r < n) -> Forall (fun k => k < n) knees ->
    even_spec xs ys tx ty segs knees ext = Some res -> Forall (fun k => k < n) res.
  Proof.
    intros Hn H1 Hsegs Hk. unfold even_spec.
    destruct (qual_segs segs) as [qs|] eqn:Eq; [|discriminate].
    destruct (seg_points_all qs) as [cands|] eqn:Ec; [|discriminate].
    intros H. inversion H; subst res. clear H.
    assert (Hc : Forall (fun x => x < n) cands).
    { apply (seg_points_all_bound n qs cands); [|exact Ec]. intros l r Hin. apply Hsegs.
      apply (qual_segs_incl segs qs Eq). exact Hin. }
    rewrite Forall_forall. intros x Hx. apply rmf_In, np_unique_In in Hx.
    rewrite Forall_forall in Hk, Hc.
    apply in_app_or in Hx. destruct Hx as [Hx|Hx]; [auto|].
    apply in_app_or in Hx. destruct Hx as [Hx|Hx]; [auto|].
    destruct ext; [|destruct Hx]. rewrite <- Hn in Hx. destruct Hx as [<-|[<-|[]]]; lia.
  Qed.

  (* C14 even_valid, add_points_even: every returned index is < n, whatever the arithmetic *)
  Theorem even_valid_thm red knees ext res :
    WF (length xs) red -> 1 <= length xs -> ND knees -> Forall (fun k => k < length red) knees ->
    add_points_even xs ys tx ty red (rows red) knees ext = Some res -> Forall (fun k => k < length xs) res.
  Proof.
    intros Hwf H1 Hnd Hf. rewrite (even_spec_thm (length xs) red knees ext Hwf Hnd Hf).
    destruct Hwf as (HS & H0 & Hlast & Hlen).
    assert (Hred : forall x, In x red -> x < length xs).
    { intros x Hx. pose proof (SI_le_last red 0 x HS Hx). lia. }
    apply even_spec_valid; auto.
    - intros l r Hin. split.
      + apply (consecutive_ND red (SI_ND _ HS) l r Hin).
      + apply Hred. apply (consecutive_In red l r Hin).
    - rewrite Forall_forall in *. intros x Hx. apply in_map_iff in Hx. destruct Hx as [k [<- Hk]].
      apply Hred. apply nth_In. auto.
  Qed.

  Lemma last_In_or {A} (l : list A) d : l = [] /\ last l d = d \/ In (last l d) l.
  Proof.
    induction l as [|a [|b l'] IH]; [left; auto|right; left; auto|].
    right. change (last (a :: b :: l') d) with (last (b :: l') d).
    destruct IH as [[E _]|IH]; [discriminate|right; exact IH].
  Qed.

  (* C14 even_valid, add_points_even_knees (the empty knee list included) *)
  Theorem even_knees_valid_thm knees ext res :
    1 <= length xs -> ND knees -> Forall (fun k => k < length xs) knees ->
    add_points_even_knees xs ys tx ty knees ext = Some res -> Forall (fun k => k < length xs) res.
  Proof.
    intros H1 Hnd Hf. rewrite (even_knees_spec_thm knees ext).
    apply even_spec_valid; auto.
    intros l r Hin. unfold knee_gaps in Hin. rewrite Forall_forall in Hf.
    destruct Hin as [Hin|Hin].
    - pose proof (f_equal fst Hin) as E1. pose proof (f_equal snd Hin) as E2. cbn [fst snd] in E1, E2. subst l r.
      split; [lia|]. destruct knees as [|k0 ks]; cbn [hd]; [lia|]. apply Hf. left; auto.
    - apply in_app_or in Hin. destruct Hin as [Hin|[Hin|[]]].
      + split; [apply (consecutive_ND knees Hnd l r Hin)|]. apply Hf. apply (consecutive_In knees l r Hin).
      + pose proof (f_equal fst Hin) as E1. pose proof (f_equal snd Hin) as E2. cbn [fst snd] in E1, E2. subst l r.
        destruct (last_In_or knees (length xs - 1)) as [[_ E]|Hl]; [rewrite E; lia|].
        specialize (Hf _ Hl). lia.
  Qed.

  (* for a non-empty knee list the gaps are the consecutive pairs of 0 :: knees ++ [n-1] *)
  Lemma knee_gaps_consecutive nl knees : knees <> [] -> knee_gaps nl knees = consecutive (0 :: knees ++ [nl]).
  Proof.
    intros Hk. destruct knees as [|k0 ks]; [congruence|]. unfold knee_gaps. cbn [hd].
    change (0 :: (k0 :: ks) ++ [nl]) with (0 :: k0 :: (ks ++ [nl])).
    change (consecutive (0 :: k0 :: (ks ++ [nl]))) with ((0, k0) :: consecutive ((k0 :: ks) ++ [nl])).
    rewrite consecutive_snoc by congruence. f_equal. f_equal. f_equal. f_equal.
    clear. revert k0. induction ks as [|a ks IH]; intros k0; [reflexivity|].
    change (last (k0 :: a :: ks) nl) with (last (a :: ks) nl). change (last (k0 :: a :: ks) 0) with (last (a :: ks) 0). apply IH.
  Qed.
  Lemma knee_gaps_nil nl : knee_gaps nl [] = [(0, nl); (nl, nl)].
  Proof. reflexivity. Qed.

  (* completion, conditionally on the two float->int facts the arithmetic has to supply *)
  Theorem even_spec_total segs knees ext :
    span_x xs =?! zero = false -> span_y ys =?! zero = false ->
    (forall l r, In (l, r) segs -> qualifies l r = Some true -> exists c, count l r = Some c /\ c <> 0%Z) ->
    exists res, even_spec xs ys tx ty segs knees ext = Some res.
  Proof.
    intros Hx Hy Hc. unfold even_spec.
    assert (Hq : forall l r, exists q, qualifies l r = Some q).
    { intros l r. unfold EvenPoints.qualifies, pdx, pdy, pydiv. rewrite Hx, Hy. eauto. }
    assert (Hqs : exists qs, qual_segs segs = Some qs /\ forall l r, In (l, r) qs -> In (l, r) segs /\ qualifies l r = Some true).
    { clear Hc. induction segs as [|[l r] segs' IH]; [exists []; split; [reflexivity|intros ? ? []]|].
      destruct IH as [qs [E Hin]]. cbn [EvenPoints.qual_segs]. destruct (Hq l r) as [q Eq]. rewrite Eq, E. cbn [option_map].
      destruct q; eexists; split; try reflexivity.
      - intros l' r' [H|H]; [inversion H; subst; split; [left; auto|auto]|]. destruct (Hin _ _ H). split; [right|]; auto.
      - intros l' r' H. destruct (Hin _ _ H). split; [right|]; auto. }
    destruct Hqs as [qs [E Hin]]. rewrite E.
    assert (Hp : exists p, seg_points_all qs = Some p).
    { clear E. induction qs as [|[l r] qs IH]; [exists []; reflexivity|].
      destruct IH as [p Ep]; [intros; apply Hin; right; auto|].
      destruct (Hin l r (or_introl eq_refl)) as [H1 H2]. destruct (Hc l r H1 H2) as [c [Ec Hc0]].
      cbn [EvenPoints.seg_points_all]. unfold EvenPoints.spec_points. rewrite Ec.
      destruct (Z.eqb_spec c 0); [contradiction|]. rewrite Ep. cbn. eauto. }
    destruct Hp as [p Ep]. rewrite Ep. eauto.
  Qed.
End Facts.
