(* Proofs/ZmethodFacts.v — C10, Tier S (every Num, every oracle z-score table, every processing order):
   z_inv   the band invariant of the main loop of zmethod.getPoints,
   z_total the round bound under the two boolean preconditions. *)
From Coq Require Import ZArith List Bool Arith Lia Permutation Sorted.
From Knee Require Import Num NpList Model.Zmethod Proofs.ZmethodLists Proofs.ZmethodCand.
Import ListNotations.
Local Open Scope num_scope.

Lemma filter_true {A} (l : list A) : filter (fun _ => true) l = l.
Proof. induction l; cbn; congruence. Qed.

Section Inv.
  Context {N : Num}.
  Variables (w h dz minz : T N).
  Variable rows0 : list (@row N).
  Variable ord : nat -> list (@row N) -> list (@row N).
  Hypothesis Hord : forall j l, Permutation (ord j l) l.

  (* the candidates of some round (a sub-array of the input rows) had a tested gap between xa and xb *)
  Definition GapSep (xa xb : T N) : Prop := exists f, GapAt w (filter f rows0) xa xb.
  (* o1 was selected before o2.  x: o2 passed o1's band filter (py:230/255), or both were selected in the same
     round from groups separated by a tested gap (py:224).  y: o2 passed the explicit test against o1 (py:228/253). *)
  Definition XS (o1 o2 : pt) : Prop :=
    keepx w (fst o1) (fst o2) = true \/ GapSep (fst o1) (fst o2) \/ GapSep (fst o2) (fst o1).
  Definition YS (o1 o2 : pt) : Prop := ysep h (snd o2) (snd o1) = true.
  Definition Sep (outs : list pt) : Prop := ForallOrdPairs (fun o1 o2 => YS o1 o2 /\ XS o1 o2) outs.
  Definition Outside (pts : list row) (outs : list pt) : Prop :=
    forall r o, In r pts -> In o outs -> keep w h o (xy r) = true.
  Record J (pts : list row) (outs : list pt) : Prop := {
    J_sub : exists f, pts = filter f rows0;
    J_out : Outside pts outs;
    J_sep : Sep outs;
    J_in : forall o, In o outs -> In o (map xy rows0) }.

  Lemma J_init : J rows0 [].
  Proof.
    constructor.
    - exists (fun _ => true). symmetry; apply filter_true.
    - intros r o _ [].
    - constructor.
    - intros o [].
  Qed.

  Lemma select_J pts outs a c pts' outs' a' :
    J pts outs -> In (xy c) (map xy rows0) -> (forall x, In x outs -> XS x (xy c)) ->
    select w h (pts, outs, a) c = (pts', outs', a') ->
    J pts' outs' /\ (outs' = outs \/ outs' = outs ++ [xy c]).
  Proof.
    intros HJ Hin Hx. unfold select. destruct (ytest h (ry c) outs) eqn:Ey; intros H; inversion H; subst; clear H.
    2: { split; auto. }
    split; [|auto]. destruct HJ as [[f Hf] Ho Hs Hi]. constructor.
    - exists (fun x => f x && keep w h (xy c) (xy x)). rewrite Hf. apply filter_filter'.
    - intros r o Hr Hoo. apply filter_In in Hr. destruct Hr as [Hr Hk].
      apply in_app_or in Hoo. destruct Hoo as [Hoo|[<-|[]]]; auto.
    - apply FOP_snoc; auto. rewrite Forall_forall. intros x Hxo. split; [|auto].
      unfold YS, ytest in *. rewrite forallb_forall in Ey. apply Ey; auto.
    - intros o Hoo. apply in_app_or in Hoo. destruct Hoo as [Hoo|[<-|[]]]; auto.
  Qed.

  Definition SG (c c' : @row N) : Prop := GapSep (rx c) (rx c') \/ GapSep (rx c') (rx c).

  Lemma fold_J l : forall pts outs a pts' outs' a',
    J pts outs ->
    Forall (fun c => In (xy c) (map xy rows0) /\ forall x, In x outs -> XS x (xy c)) l ->
    ForallOrdPairs SG l ->
    fold_left (select w h) l (pts, outs, a) = (pts', outs', a') -> J pts' outs'.
  Proof.
    induction l as [|c l IH]; intros pts outs a pts' outs' a' HJ HF HP H; cbn [fold_left] in H.
    - inversion H; subst; auto.
    - destruct (select w h (pts, outs, a) c) as [[pts1 outs1] a1] eqn:Es.
      inversion HF as [|? ? [Hc1 Hc2] HF']; subst. inversion HP as [|? ? Hg HP']; subst.
      destruct (select_J _ _ _ _ _ _ _ HJ Hc1 Hc2 Es) as [HJ1 Ho1].
      eapply IH; [exact HJ1| |exact HP'|exact H].
      rewrite Forall_forall in *. intros c' Hc'. destruct (HF' c' Hc') as [H1 H2]. split; auto.
      intros x Hxo. destruct Ho1 as [->| ->]; auto.
      apply in_app_or in Hxo. destruct Hxo as [Hxo|[<-|[]]]; auto.
      specialize (Hg c' Hc'). unfold XS. right. exact Hg.
  Qed.

  Lemma round_J thr pts outs cos : J pts outs -> round_cands w thr pts = Some cos ->
    Forall (fun c => In (xy c) (map xy pts) /\ In (xy c) (map xy rows0) /\ forall x, In x outs -> XS x (xy c)) cos
    /\ ForallOrdPairs SG cos.
  Proof.
    intros [[f Hf] Ho Hs Hi]. unfold round_cands.
    destruct (filter (fun r => thr <=?! rz r) pts) as [|c0 cs0] eqn:Ec.
    - intros H; inversion H; subst. split; constructor.
    - rewrite <- Ec. intros H. apply cand_outliers_spec in H; [|rewrite Ec; congruence].
      destruct H as [H1 H2]. split.
      + rewrite Forall_forall. intros c Hc. specialize (H1 c Hc).
        apply in_map_iff in H1. destruct H1 as [r [Hxy Hr]]. apply filter_In in Hr. destruct Hr as [Hr _].
        split; [rewrite <- Hxy; apply in_map; auto|]. split.
        * rewrite <- Hxy. apply in_map. rewrite Hf in Hr. apply filter_In in Hr. tauto.
        * intros x Hx. left. specialize (Ho r x Hr Hx). unfold keep in Ho. apply andb_true_iff in Ho.
          rewrite <- Hxy. tauto.
      + eapply FOP_impl; [|exact H2]. cbn beta. intros a b Hab. left.
        exists (fun x => f x && (thr <=?! rz x)). rewrite <- filter_filter', <- Hf. exact Hab.
  Qed.

  Lemma SG_sym a b : SG a b -> SG b a.
  Proof. unfold SG; tauto. Qed.

  Lemma step_J thr j pts outs cos :
    J pts outs -> round_cands w thr pts = Some cos ->
    match step w h minz thr j pts outs (ord j cos) with
    | inl (RDone st _) => J (fst st) (snd st)
    | inl _ => True
    | inr st => J (fst st) (snd st)
    end.
  Proof.
    intros HJ Hr. destruct (round_J _ _ _ _ HJ Hr) as [HF HP].
    unfold step. destruct (fold_left (select w h) (ord j cos) (pts, outs, 0)) as [[pts' outs'] a'] eqn:Ef.
    assert (HJ' : J pts' outs').
    { eapply fold_J; [exact HJ| | |exact Ef].
      - eapply Permutation_Forall; [apply Permutation_sym, Hord|].
        eapply Forall_impl; [|exact HF]. cbn beta. tauto.
      - eapply FOP_perm; [apply SG_sym|apply Permutation_sym, Hord|exact HP]. }
    destruct ((length pts' =? 0) || ((thr <=?! minz) && (a' =? 0))); exact HJ'.
  Qed.

  Lemma loop_J fuel : forall j thr pts outs st k,
    J pts outs -> loop w h dz minz ord fuel j thr pts outs = RDone st k -> J (fst st) (snd st).
  Proof.
    induction fuel as [|fuel IH]; intros j thr pts outs st k HJ H; cbn [loop] in H; [discriminate|].
    destruct (round_cands w thr pts) as [cos|] eqn:Er; [|discriminate].
    pose proof (step_J thr j pts outs cos HJ Er) as Hs.
    destruct (step w h minz thr j pts outs (ord j cos)) as [r|[pts' outs']].
    - subst r. exact Hs.
    - eapply IH; [exact Hs|exact H].
  Qed.

  (* z_inv *)
  Theorem z_inv_loop fuel thr pts outs k :
    loop w h dz minz ord fuel 0 thr rows0 [] = RDone (pts, outs) k ->
    (forall r o, In r pts -> In o outs -> keep w h o (xy r) = true)
    /\ ForallOrdPairs (fun o1 o2 => YS o1 o2 /\ XS o1 o2) outs
    /\ (forall o, In o outs -> In o (map xy rows0))
    /\ (exists f, pts = filter f rows0).
  Proof.
    intros H. pose proof (loop_J _ _ _ _ _ _ _ J_init H) as [H1 H2 H3 H4]. cbn [fst snd] in *. auto.
  Qed.

  (* ---------------- termination ---------------- *)
  Definition SelfRem (pts : list (@row N)) : Prop := forall r, In r pts -> keep w h (xy r) (xy r) = false.

  Lemma select_len st c : length (fst (fst (select w h st c))) <= length (fst (fst st)).
  Proof.
    destruct st as [[pts outs] a]. unfold select. destruct (ytest h (ry c) outs); cbn [fst]; auto.
    apply filter_length_le'.
  Qed.
  Lemma fold_len l : forall st, length (fst (fst (fold_left (select w h) l st))) <= length (fst (fst st)).
  Proof.
    induction l as [|c l IH]; intros st; cbn [fold_left]; auto.
    etransitivity; [apply IH|apply select_len].
  Qed.
  Lemma fold_decr l : forall pts outs,
    SelfRem pts -> Forall (fun c => In (xy c) (map xy pts)) l ->
    snd (fold_left (select w h) l (pts, outs, 0)) <> 0 ->
    length (fst (fst (fold_left (select w h) l (pts, outs, 0)))) < length pts.
  Proof.
    induction l as [|c l IH]; intros pts outs HS HF Ha; cbn [fold_left] in *; [exfalso; apply Ha; reflexivity|].
    inversion HF as [|? ? Hc HF']; subst.
    unfold select at 2 in Ha. unfold select at 2. destruct (ytest h (ry c) outs).
    - eapply Nat.le_lt_trans; [apply fold_len|]. cbn [fst].
      apply in_map_iff in Hc. destruct Hc as [r [Hxy Hr]].
      apply filter_length_lt with (r := r); auto. rewrite <- Hxy. apply HS; auto.
    - apply IH; auto.
  Qed.

  Lemma round_cands_In thr pts cos : round_cands w thr pts = Some cos ->
    Forall (fun c => In (xy c) (map xy pts)) cos.
  Proof.
    unfold round_cands. destruct (filter (fun r => thr <=?! rz r) pts) as [|c0 cs0] eqn:Ec.
    - intros H; inversion H; constructor.
    - rewrite <- Ec. intros H. apply cand_outliers_spec in H; [|rewrite Ec; congruence].
      destruct H as [H1 _]. rewrite Forall_forall. intros c Hc. specialize (H1 c Hc).
      apply in_map_iff in H1. destruct H1 as [r [Hxy Hr]]. apply filter_In in Hr.
      rewrite <- Hxy. apply in_map. tauto.
  Qed.

  Variable K : nat.
  Variable B : nat.
  Hypothesis Hsched : forall j, K <= j <= B -> (sched dz j <=?! minz) = true.

  Lemma loop_total fuel : forall j pts outs,
    SelfRem pts -> (K - j) + length pts + 1 <= fuel -> j + ((K - j) + length pts + 1) <= B + 1 ->
    match loop w h dz minz ord fuel j (sched dz j) pts outs with
    | RFuel => False
    | RErr => True
    | RDone _ k => k <= j + ((K - j) + length pts + 1)
    end.
  Proof.
    induction fuel as [|fuel IH]; intros j pts outs HS Hf HB; [lia|].
    cbn [loop]. destruct (round_cands w (sched dz j) pts) as [cos|] eqn:Er; [|exact I].
    pose proof (round_cands_In _ _ _ Er) as Hin.
    assert (Hin' : Forall (fun c => In (xy c) (map xy pts)) (ord j cos))
      by (eapply Permutation_Forall; [apply Permutation_sym, Hord|exact Hin]).
    unfold step.
    pose proof (fold_len (ord j cos) (pts, outs, 0)) as Hlen.
    pose proof (fold_decr (ord j cos) pts outs HS Hin') as Hdec.
    destruct (fold_left (select w h) (ord j cos) (pts, outs, 0)) as [[pts' outs'] a'] eqn:Ef.
    cbn [fst snd] in Hlen, Hdec.
    destruct ((length pts' =? 0) || ((sched dz j <=?! minz) && (a' =? 0))) eqn:Eb; [lia|].
    apply orb_false_iff in Eb. destruct Eb as [Eb1 Eb2]. apply Nat.eqb_neq in Eb1.
    assert (HS' : SelfRem pts').
    { intros r Hr. apply HS.
      assert (G : forall l (st : sel_state) r, In r (fst (fst (fold_left (select w h) l st))) -> In r (fst (fst st))).
      { clear. induction l as [|c l IH]; intros st r H; cbn [fold_left] in H; auto.
        apply IH in H. destruct st as [[p o] a]. unfold select in H. destruct (ytest h (ry c) o); auto.
        cbn [fst] in *. apply filter_In in H. tauto. }
      specialize (G (ord j cos) (pts, outs, 0) r). rewrite Ef in G. apply G; auto. }
    change (sched dz j -! dz) with (sched dz (S j)).
    destruct (Nat.lt_ge_cases j K) as [HjK|HjK].
    - specialize (IH (S j) pts' outs' HS' ltac:(lia) ltac:(lia)).
      destruct (loop w h dz minz ord fuel (S j) (sched dz (S j)) pts' outs'); auto. lia.
    - rewrite (Hsched j ltac:(lia)) in Eb2. cbn [andb] in Eb2. apply Nat.eqb_neq in Eb2.
      specialize (Hdec Eb2).
      specialize (IH (S j) pts' outs' HS' ltac:(lia) ltac:(lia)).
      destruct (loop w h dz minz ord fuel (S j) (sched dz (S j)) pts' outs'); auto. lia.
  Qed.
End Inv.

(* z_total: under (i) the schedule is at or below min z from step K to K + n + 2 and (ii) no row survives its own
   band filter, the main loop stops within K + n + 2 rounds, for every processing order *)
Theorem z_total_loop {N : Num} (w h dz minz : T N) ord (rows : list (@row N)) K :
  (forall j l, Permutation (ord j l) l) ->
  sched_ok dz minz K (length rows + 2) = true -> self_removed w h rows = true ->
  match loop w h dz minz ord (K + length rows + 2) 0 (ofZ 3) rows [] with
  | RFuel => False
  | RErr => True
  | RDone _ k => k <= K + length rows + 2
  end.
Proof.
  intros Hord Hs Hr.
  assert (Hsched : forall j, K <= j <= K + length rows + 2 -> (sched dz j <=?! minz) = true).
  { intros j Hj. unfold sched_ok in Hs. rewrite forallb_forall in Hs. apply Hs. apply in_seq. lia. }
  assert (HS : SelfRem w h rows).
  { intros r Hin. unfold self_removed in Hr. rewrite forallb_forall in Hr. specialize (Hr r Hin).
    apply negb_true_iff in Hr. exact Hr. }
  pose proof (loop_total w h dz minz ord Hord K (K + length rows + 2) Hsched (K + length rows + 2) 0 rows [] HS
                ltac:(lia) ltac:(lia)) as H.
  change (sched dz 0) with (@ofZ N 3) in H.
  destruct (loop w h dz minz ord (K + length rows + 2) 0 (ofZ 3) rows []); auto. lia.
Qed.

(* z_total for the value of zmethod.knees: with fuel K + n + 2 the model never runs out of fuel, and the number of
   rounds it reports is at most K + n + 2 *)
Theorem z_total {N : Num} ord (rows : list (@row N)) dx dy dz xmax yr p K :
  (forall j l, Permutation (ord j l) l) ->
  params rows dx dy xmax yr = Some (Some p) ->
  sched_ok dz (zp_minz p) K (length rows + 2) = true -> self_removed (zp_w p) (zp_h p) rows = true ->
  match knees ord (K + length rows + 2) rows dx dy dz xmax yr with
  | RFuel => False
  | RErr => True
  | RDone _ k => k <= K + length rows + 2
  end.
Proof.
  intros Hord Hp Hs Hr. pose proof (z_total_loop _ _ dz _ ord rows K Hord Hs Hr) as H.
  unfold knees, getPoints. rewrite Hp.
  destruct (loop (zp_w p) (zp_h p) dz (zp_minz p) ord (K + length rows + 2) 0 (ofZ 3) rows []) as [| |st k];
    cbn [finish_res knees_of]; auto.
  destruct (finish (snd st)); cbn [knees_of]; auto.
  destruct (map_index (map rx rows) (map fst l)); auto.
Qed.
