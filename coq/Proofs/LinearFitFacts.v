(* Proofs/LinearFitFacts.v — C16 (second half): the linear-fit wrappers, the end-point fit, best-fit R2;
   C17 (first half): shortest / perpendicular distance.  Tier A (RNum) unless marked Tier S. *)
From Coq Require Import Reals List ZArith Lra Lia Psatz Bool Arith.
From Knee Require Import Num NumR NpList Model.Metrics Model.LinearFit Proofs.MetricsFacts.
Import ListNotations.
Local Open Scope R_scope.

(* ---------- NumPy's pairwise summation is the sum, on reals (local copy; NumR.v has only seq_sum_R) ---------- *)
Local Notation Rsum_app' := Rsum_app.
Lemma acc8_length : forall fuel (r l : list R), length r = 8%nat -> length (@acc8 RNum fuel r l) = 8%nat.
Proof.
  induction fuel as [|f IH]; intros r l Hr; [exact Hr|].
  cbn [acc8].
  destruct l as [|a0 [|a1 [|a2 [|a3 [|a4 [|a5 [|a6 [|a7 rest]]]]]]]]; try exact Hr.
  destruct r as [|r0 [|r1 [|r2 [|r3 [|r4 [|r5 [|r6 [|r7 r']]]]]]]]; try exact Hr.
  apply IH. reflexivity.
Qed.
Lemma acc8_sum : forall fuel (r l : list R) k, length r = 8%nat -> length l = (8 * k)%nat -> (k <= fuel)%nat ->
  Rsum (@acc8 RNum fuel r l) = Rsum r + Rsum l.
Proof.
  induction fuel as [|f IH]; intros r l k Hr Hl Hk.
  - assert (k = 0)%nat by lia. subst k. destruct l; [simpl; lra|simpl in Hl; lia].
  - cbn [acc8].
    destruct l as [|a0 [|a1 [|a2 [|a3 [|a4 [|a5 [|a6 [|a7 rest]]]]]]]]; simpl in Hl; try lia.
    + simpl. lra.
    + destruct r as [|r0 [|r1 [|r2 [|r3 [|r4 [|r5 [|r6 [|r7 [|? ?]]]]]]]]]; simpl in Hr; try lia.
      rewrite (IH _ rest (k - 1)%nat); [simpl; lra|reflexivity|lia|lia].
Qed.
Lemma block_sum_R (l : list R) : @block_sum RNum l = Rsum l.
Proof.
  unfold block_sum. change (T RNum) with R. destruct (length l <? 8)%nat eqn:E.
  - change (fold_left Rplus l 0 = Rsum l). rewrite fold_left_Rplus. lra.
  - apply Nat.ltb_ge in E.
    set (n := length l) in *. set (nb := (n - n mod 8)%nat). set (body := firstn nb l).
    assert (Hk : exists k, nb = (8 * k)%nat /\ (1 <= k <= n)%nat).
    { exists (n / 8)%nat. pose proof (Nat.div_mod n 8 ltac:(lia)) as H. pose proof (Nat.mod_upper_bound n 8 ltac:(lia)).
      unfold nb. split; [lia|]. split; [|apply Nat.div_le_upper_bound; lia].
      apply Nat.div_le_lower_bound; lia. }
    destruct Hk as [k [Hnb Hk]].
    assert (Hb : length body = nb) by (unfold body; rewrite firstn_length; unfold nb, n; lia).
    assert (H8 : length (firstn 8 body) = 8%nat) by (rewrite firstn_length; lia).
    assert (Hs : length (skipn 8 body) = (8 * (k - 1))%nat) by (rewrite skipn_length; lia).
    pose proof (acc8_length n _ (skipn 8 body) H8) as HL.
    pose proof (acc8_sum n _ _ (k - 1)%nat H8 Hs ltac:(lia)) as HS.
    destruct (@acc8 RNum n (firstn 8 body) (skipn 8 body)) as [|r0 [|r1 [|r2 [|r3 [|r4 [|r5 [|r6 [|r7 [|? ?]]]]]]]]]; simpl in HL; try lia.
    cbn [add zero RNum]. rewrite fold_left_Rplus.
    assert (HR : Rsum l = Rsum body + Rsum (skipn nb l)) by (rewrite <- Rsum_app'; unfold body; rewrite firstn_skipn; reflexivity).
    assert (HB : Rsum body = Rsum (firstn 8 body) + Rsum (skipn 8 body)) by (rewrite <- Rsum_app', firstn_skipn; reflexivity).
    set (fb := firstn 8 body) in *. set (sb := skipn 8 body) in *. simpl in HS. lra.
Qed.
Lemma np_sum_go_R : forall fuel (l : list R), @np_sum_go RNum fuel l = Rsum l.
Proof.
  induction fuel as [|f IH]; intros l; cbn [np_sum_go]; change (T RNum) with R; destruct (length l <=? 128)%nat; try apply block_sum_R.
  rewrite !IH. cbn [add RNum]. rewrite <- Rsum_app', firstn_skipn. reflexivity.
Qed.
Lemma np_sum_R (l : list R) : @np_sum RNum l = Rsum l.
Proof. unfold np_sum. rewrite np_sum_go_R. cbn [add zero RNum]. lra. Qed.
Lemma np_mean_R (l : list R) : @np_mean RNum l = Rmean l.
Proof. unfold np_mean, Rmean. rewrite np_sum_R, ofN_R. reflexivity. Qed.

(* ---------- the wrappers are the metrics applied to m*x + b ---------- *)
Definition line (b m : R) (x : list R) : list R := map (fun xi => m * xi + b) x.
Lemma linear_transform_R (x : list R) (b m : R) : @linear_transform RNum x (b, m) = line b m x.
Proof. unfold linear_transform, line. apply map_ext. intros a. simpl. ring. Qed.
Lemma line_length b m x : length (line b m x) = length x.
Proof. apply map_length. Qed.

Theorem lf_rmse_is_metric (x y : list R) (b m : R) : @lf_rmse RNum x y (b, m) = @rmse RNum y (line b m x).
Proof. unfold lf_rmse. rewrite linear_transform_R. reflexivity. Qed.
Theorem lf_rmsle_is_metric (x y : list R) (b m : R) : @lf_rmsle RNum x y (b, m) = @rmsle RNum y (line b m x).
Proof. unfold lf_rmsle. rewrite linear_transform_R. reflexivity. Qed.
Theorem lf_rmspe_is_metric (x y : list R) (b m eps : R) : @lf_rmspe RNum x y (b, m) eps = @rmspe RNum y (line b m x) eps.
Proof. unfold lf_rmspe. rewrite linear_transform_R. reflexivity. Qed.
Theorem lf_smape_is_metric (x y : list R) (b m eps : R) : @lf_smape RNum x y (b, m) eps = @smape RNum y (line b m x) eps.
Proof. unfold lf_smape. rewrite linear_transform_R. reflexivity. Qed.
Theorem lf_rpd_is_metric (x y : list R) (b m eps : R) : @lf_rpd RNum x y (b, m) eps = @rpd RNum y (line b m x) eps.
Proof. unfold lf_rpd. rewrite linear_transform_R. reflexivity. Qed.
Theorem linear_residuals_is_metric (x y : list R) (b m : R) : @linear_residuals RNum x y (b, m) = @residuals RNum y (line b m x).
Proof. unfold linear_residuals. rewrite linear_transform_R. reflexivity. Qed.
(* linear_r2 re-implements metrics.r2 with NumPy's (pairwise) sums: the same number on reals *)
Theorem linear_r2_is_metric (x y : list R) (b m : R) k :
  length x = length y -> @linear_r2 RNum x y (b, m) k = @r2 RNum y (line b m x) k.
Proof.
  intros Hl. unfold linear_r2, r2. change (T RNum) with R. rewrite linear_transform_R, !np_sum_R, np_mean_R, !seq_sum_R, seq_mean_R, Hl.
  reflexivity.
Qed.
(* the *_points wrappers split the columns and delegate *)
Theorem points_wrappers (P : list (R * R)) (b m eps : R) k :
  @rmse_points RNum P (b, m) = @rmse RNum (map snd P) (line b m (map fst P)) /\
  @rmsle_points RNum P (b, m) = @rmsle RNum (map snd P) (line b m (map fst P)) /\
  @rmspe_points RNum P (b, m) eps = @rmspe RNum (map snd P) (line b m (map fst P)) eps /\
  @smape_points RNum P (b, m) eps = @smape RNum (map snd P) (line b m (map fst P)) eps /\
  @rpd_points RNum P (b, m) eps = @rpd RNum (map snd P) (line b m (map fst P)) eps /\
  @linear_residuals_points RNum P (b, m) = @residuals RNum (map snd P) (line b m (map fst P)) /\
  @linear_r2_points RNum P (b, m) k = @r2 RNum (map snd P) (line b m (map fst P)) k.
Proof.
  unfold rmse_points, rmsle_points, rmspe_points, smape_points, rpd_points, linear_residuals_points, linear_r2_points, xs, ys.
  rewrite lf_rmse_is_metric, lf_rmsle_is_metric, lf_rmspe_is_metric, lf_smape_is_metric, lf_rpd_is_metric,
    linear_residuals_is_metric, linear_r2_is_metric by (rewrite !map_length; reflexivity).
  repeat split.
Qed.
(* so the laws of the metrics carry over, e.g. *)
Corollary smape_points_range (P : list (R * R)) (b m eps : R) : 0 < eps -> 0 <= @smape_points RNum P (b, m) eps <= 2.
Proof. intros He. destruct (points_wrappers P b m eps R2classic) as (_ & _ & _ & -> & _). apply smape_range; exact He. Qed.
Corollary linear_r2_le_1 (x y : list R) (b m : R) : length x = length y -> @linear_r2 RNum x y (b, m) R2classic <= 1.
Proof. intros Hl. rewrite linear_r2_is_metric by exact Hl. apply r2_le_1. Qed.

(* ---------- the end-point fit passes through the first and the last point ---------- *)
Theorem endpoint_fit_interpolates (x y : list R) :
  hd 0 x <> last x 0 ->
  let '(b, m) := @linear_fit RNum x y in
  m * hd 0 x + b = hd 0 y /\ m * last x 0 + b = last y 0.
Proof.
  intros Hne. unfold linear_fit. simpl. unfold Reqb.
  destruct (Req_EM_T (hd 0 x - last x 0) 0) as [E|E]; [exfalso; lra|].
  split; field; lra.
Qed.
Lemma hd_map {A B} (f : A -> B) l d : hd (f d) (map f l) = f (hd d l).
Proof. destruct l; reflexivity. Qed.
Lemma last_map {A B} (f : A -> B) l d : last (map f l) (f d) = f (last l d).
Proof. induction l as [|a [|a' l] IH]; try reflexivity. exact IH. Qed.
Lemma last_indep {A} (l : list A) d d' : l <> [] -> last l d = last l d'.
Proof. induction l as [|a [|a' l] IH]; intros H; [contradiction|reflexivity|]. apply IH. discriminate. Qed.
(* ... as a statement about the transformed array: y_hat[0] = y[0] and y_hat[-1] = y[-1] *)
Theorem endpoint_fit_transform (x y : list R) :
  x <> [] -> hd 0 x <> last x 0 ->
  let yh := @linear_transform RNum x (@linear_fit RNum x y) in
  hd 0 yh = hd 0 y /\ last yh 0 = last y 0.
Proof.
  intros Hx Hne. pose proof (endpoint_fit_interpolates x y Hne) as H.
  destruct (@linear_fit RNum x y) as [b m]. cbv zeta. rewrite linear_transform_R. unfold line.
  destruct H as [H1 H2]. destruct x as [|x0 x']; [contradiction|].
  split.
  - simpl. simpl in H1. exact H1.
  - set (f := fun xi : R => m * xi + b).
    assert (HL : last (map f (x0 :: x')) 0 = f (last (x0 :: x') 0)).
    { rewrite (last_indep _ 0 (f 0)) by (simpl; discriminate). apply last_map. }
    transitivity (f (last (x0 :: x') 0)); [exact HL|exact H2].
Qed.
(* degenerate abscissae: the fit is the zero line *)
Theorem endpoint_fit_degenerate (x y : list R) : hd 0 x = last x 0 -> @linear_fit RNum x y = (0, 0).
Proof.
  intros He. unfold linear_fit. simpl. unfold Reqb. destruct (Req_EM_T (hd 0 x - last x 0) 0) as [E|E]; [reflexivity|exfalso; lra].
Qed.

(* ---------- best-fit R2 = squared Pearson correlation ---------- *)
(* centred cross-moment  S_xy = sum (x_i - mean x)(y_i - mean y) *)
Definition Sxy (x y : list R) : R := Rsum (zipR (fun a b => (a - Rmean x) * (b - Rmean y)) x y).
Definition Pearson (x y : list R) : R := Sxy x y / sqrtR (Sxy x x * Sxy y y).

Lemma zipR_map f g h (x y : list R) : zipR f (map g x) (map h y) = zipR (fun a b => f (g a) (h b)) x y.
Proof.
  revert y. induction x as [|a x IH]; intros [|b y]; try reflexivity.
  unfold zipR in *. simpl. f_equal. apply IH.
Qed.
Lemma zipR_map_r f h (y x : list R) : zipR f y (map h x) = zipR (fun a b => f a (h b)) y x.
Proof. rewrite <- (map_id y) at 1. apply zipR_map. Qed.
Lemma zipR_fst_only (g : R -> R) : forall (y x : list R), length y = length x -> zipR (fun a _ => g a) y x = map g y.
Proof.
  induction y as [|a y IH]; intros [|b x] H; try reflexivity; try discriminate.
  unfold zipR in *. simpl. f_equal. apply IH. simpl in H. lia.
Qed.
Lemma zipR_snd_only (g : R -> R) : forall (y x : list R), length y = length x -> zipR (fun _ b => g b) y x = map g x.
Proof.
  induction y as [|a y IH]; intros [|b x] H; try reflexivity; try discriminate.
  unfold zipR in *. simpl. f_equal. apply IH. simpl in H. lia.
Qed.
Lemma dot_R (u v : list R) : @dot RNum u v = Rsum (zipR Rmult u v).
Proof. unfold dot. rewrite seq_sum_R. reflexivity. Qed.
Lemma Sxx_sq (x : list R) : Sxy x x = Rsum (map (fun a => (a - Rmean x) * (a - Rmean x)) x).
Proof. unfold Sxy. rewrite zipR_diag. reflexivity. Qed.
Lemma Sxx_TSS (y : list R) : Sxy y y = TSS y.
Proof. rewrite Sxx_sq. reflexivity. Qed.
Lemma Sxy_sym (x y : list R) : Sxy x y = Sxy y x.
Proof. unfold Sxy. f_equal. apply zipR_sym. intros a b. ring. Qed.

Lemma pearson_R (x y : list R) :
  (2 <= length x)%nat -> 0 < Sxy x x -> 0 < Sxy y y -> @pearson RNum x y = Pearson x y.
Proof.
  intros Hn Hx Hy. unfold pearson, Pearson. change (T RNum) with R.
  rewrite !np_mean_R, !dot_R, !zipR_map.
  simpl. rewrite minus_IZR, <- INR_IZR_INZ.
  change (Rsum (zipR (fun a b : R => (a - Rmean x) * (b - Rmean y)) x y)) with (Sxy x y).
  change (Rsum (zipR (fun a b : R => (a - Rmean x) * (b - Rmean x)) x x)) with (Sxy x x).
  change (Rsum (zipR (fun a b : R => (a - Rmean y) * (b - Rmean y)) y y)) with (Sxy y y).
  assert (Hn' : 2 <= INR (length x)) by (apply le_INR in Hn; simpl in Hn; lra).
  set (f := 1 / (INR (length x) - 1)).
  assert (Hf : 0 < f) by (unfold f; apply Rdiv_lt_0_compat; lra).
  rewrite !sqrt_mult by lra.
  pose proof (sqrt_lt_R0 _ Hx) as HA. pose proof (sqrt_lt_R0 _ Hy) as HB. pose proof (sqrt_lt_R0 _ Hf) as Hg.
  set (A := sqrtR (Sxy x x)) in *. set (B := sqrtR (Sxy y y)) in *. set (g := sqrtR f) in *.
  assert (Hff : f = g * g) by (unfold g; symmetry; apply sqrt_sqrt; lra).
  rewrite Hff. field. repeat split; lra.
Qed.
Lemma Pearson_sq (x y : list R) : 0 < Sxy x x -> 0 < Sxy y y ->
  Pearson x y * Pearson x y = (Sxy x y * Sxy x y) / (Sxy x x * Sxy y y).
Proof.
  intros Hx Hy. unfold Pearson.
  assert (Hp : 0 < Sxy x x * Sxy y y) by (apply Rmult_lt_0_compat; assumption).
  pose proof (sqrt_lt_R0 _ Hp) as Hs. pose proof (sqrt_sqrt _ (Rlt_le _ _ Hp)) as Hss.
  rewrite <- Hss at 3. field. lra.
Qed.
(* C16: r2(x, y) = corrcoef(x, y)^2 *)
Theorem bestfit_r2_is_pearson_sq (x y : list R) :
  (3 <= length x)%nat -> 0 < Sxy x x -> 0 < Sxy y y ->
  @bestfit_r2 RNum x y R2classic = Pearson x y * Pearson x y.
Proof.
  intros Hn Hx Hy. unfold bestfit_r2. change (T RNum) with R.
  destruct (Nat.leb_spec (length x) 2) as [H|H]; [lia|].
  rewrite pearson_R by (assumption || lia). reflexivity.
Qed.
(* ... and the adjusted variant applies the (n-1)/(n-2) correction *)
Theorem bestfit_r2_adjusted (x y : list R) :
  (3 <= length x)%nat -> 0 < Sxy x x -> 0 < Sxy y y ->
  @bestfit_r2 RNum x y R2adjusted = 1 - (1 - Pearson x y * Pearson x y) * ((INR (length x) - 1) / (INR (length x) - 2)).
Proof.
  intros Hn Hx Hy. pose proof (bestfit_r2_is_pearson_sq x y Hn Hx Hy) as H.
  unfold bestfit_r2 in *. change (T RNum) with R in *. rewrite adj_factor_R. simpl in *. rewrite H. reflexivity.
Qed.
Theorem bestfit_r2_adjusted_of_classic (x y : list R) :
  @bestfit_r2 RNum x y R2adjusted = 1 - (1 - @bestfit_r2 RNum x y R2classic) * ((INR (length x) - 1) / (INR (length x) - 2)).
Proof. unfold bestfit_r2. change (T RNum) with R. rewrite adj_factor_R. reflexivity. Qed.
Theorem r2_points_spec (P : list (R * R)) k :
  @r2_points RNum P k = if Nat.leb (length P) 2 then 1 else @bestfit_r2 RNum (map fst P) (map snd P) k.
Proof. reflexivity. Qed.

(* ---------- stretch: pearson^2 = 1 - RSS_lsq/TSS, i.e. r2(x, y) is metrics.r2 of the least-squares line ---------- *)
Lemma Rsum_zip_quadratic (g h : R -> R) (m : R) : forall (y x : list R),
  Rsum (zipR (fun a b => (g a - m * h b) * (g a - m * h b)) y x) =
  Rsum (zipR (fun a _ => g a * g a) y x) - 2 * m * Rsum (zipR (fun a b => g a * h b) y x)
  + m * m * Rsum (zipR (fun _ b => h b * h b) y x).
Proof.
  induction y as [|a y IH]; intros [|b x]; try (unfold zipR; simpl; ring).
  unfold zipR in *. simpl. rewrite IH. ring.
Qed.
Lemma lsq_fit_R (x y : list R) :
  @lsq_fit RNum x y = (Rmean y - (Sxy x y / Sxy x x) * Rmean x, Sxy x y / Sxy x x).
Proof.
  unfold lsq_fit. change (T RNum) with R. rewrite !np_mean_R, !dot_R, !zipR_map. reflexivity.
Qed.
Lemma RSS_lsq (x y : list R) : length x = length y -> 0 < Sxy x x ->
  let '(b, m) := @lsq_fit RNum x y in
  Rsum (zipR sqd y (line b m x)) = Sxy y y - (Sxy x y * Sxy x y) / Sxy x x.
Proof.
  intros Hl Hx. rewrite lsq_fit_R. set (m := Sxy x y / Sxy x x). unfold line. rewrite zipR_map_r.
  transitivity (Rsum (zipR (fun a b => ((a - Rmean y) - m * (b - Rmean x)) * ((a - Rmean y) - m * (b - Rmean x))) y x)).
  { f_equal. unfold zipR. apply map_ext. intros p. unfold sqd. ring. }
  rewrite (Rsum_zip_quadratic (fun a => a - Rmean y) (fun b => b - Rmean x) m).
  rewrite zipR_fst_only, zipR_snd_only by (symmetry; exact Hl).
  rewrite <- !Sxx_sq. fold (Sxy y x). rewrite (Sxy_sym y x). unfold m. field. lra.
Qed.
Theorem bestfit_r2_is_lsq_r2 (x y : list R) :
  length x = length y -> (3 <= length x)%nat -> 0 < Sxy x x -> 0 < Sxy y y ->
  @bestfit_r2 RNum x y R2classic = @r2 RNum y (@linear_transform RNum x (@lsq_fit RNum x y)) R2classic.
Proof.
  intros Hl Hn Hx Hy. rewrite bestfit_r2_is_pearson_sq, Pearson_sq by assumption.
  pose proof (RSS_lsq x y Hl Hx) as HR. destruct (@lsq_fit RNum x y) as [b m].
  rewrite linear_transform_R, r2_def. unfold R2c. rewrite HR, <- Sxx_TSS.
  destruct (Req_EM_T (Sxy y y) 0) as [E|E]; [lra|]. field. lra.
Qed.
(* Pearson^2 = 1 - RSS_lsq / TSS, and therefore  0 <= r2(x, y) <= 1  (Cauchy-Schwarz) *)
Theorem pearson_sq_is_1_minus_rss_over_tss (x y : list R) :
  length x = length y -> 0 < Sxy x x -> 0 < Sxy y y ->
  let '(b, m) := @lsq_fit RNum x y in
  Pearson x y * Pearson x y = 1 - Rsum (zipR sqd y (line b m x)) / TSS y.
Proof.
  intros Hl Hx Hy. pose proof (RSS_lsq x y Hl Hx) as HR. destruct (@lsq_fit RNum x y) as [b m].
  rewrite HR, Pearson_sq, <- Sxx_TSS by assumption. field. lra.
Qed.
Theorem bestfit_r2_range (x y : list R) :
  length x = length y -> (3 <= length x)%nat -> 0 < Sxy x x -> 0 < Sxy y y ->
  0 <= @bestfit_r2 RNum x y R2classic <= 1.
Proof.
  intros Hl Hn Hx Hy. split.
  - rewrite bestfit_r2_is_pearson_sq by assumption. apply sq_nonneg.
  - rewrite bestfit_r2_is_lsq_r2 by assumption. apply r2_le_1.
Qed.
