(* Proofs/LinearFitFacts.v — C16 (second half): the linear-fit wrappers, the end-point fit, best-fit R2;
   C17 (first half): shortest / perpendicular distance.  Tier A (RNum) unless marked Tier S. *)
From Coq Require Import Reals List ZArith Lra Lia Psatz Bool Arith.
From Knee Require Import Num NumR NpList Model.Metrics Model.LinearFit Proofs.MetricsFacts.
Import ListNotations.
Local Open Scope R_scope.

(* ---------- NumPy's pairwise summation is the sum, on reals (local copy; NumR.v has only seq_sum_R) ---------- *)
Local Notation Rsum_app' := Rsum_app.
Lemma acc8_length : forall fuel (r l : list R), length r = 8%nat -> length (@acc8 RNum fuel r l) = 8%nat.
Proof.
  induction fuel as [|f IH]; intros r l Hr; [exact Hr|].
  cbn [acc8].
  destruct l as [|a0 [|a1 [|a2 [|a3 [|a4 [|a5 [|a6 [|a7 rest]]]]]]]]; try exact Hr.
  destruct r as [|r0 [|r1 [|r2 [|r3 [|r4 [|r5 [|r6 [|r7 r']]]]]]]]; try exact Hr.
  apply IH. reflexivity.
Qed.
Lemma acc8_sum : forall fuel (r l : list R) k, length r = 8%nat -> length l = (8 * k)%nat -> (k <= fuel)%nat ->
  Rsum (@acc8 RNum fuel r l) = Rsum r + Rsum l.
Proof.
  induction fuel as [|f IH]; intros r l k Hr Hl Hk.
  - assert (k = 0)%nat by lia. subst k. destruct l; [simpl; lra|simpl in Hl; lia].
  - cbn [acc8].
    destruct l as [|a0 [|a1 [|a2 [|a3 [|a4 [|a5 [|a6 [|a7 rest]]]]]]]]; simpl in Hl; try lia.
    + simpl. lra.
    + destruct r as [|r0 [|r1 [|r2 [|r3 [|r4 [|r5 [|r6 [|r7 [|? ?]]]]]]]]]; simpl in Hr; try lia.
      rewrite (IH _ rest (k - 1)%nat); [simpl; lra|reflexivity|lia|lia].
Qed.
Lemma block_sum_R (l : list R) : @block_sum RNum l = Rsum l.
Proof.
  unfold block_sum. change (T RNum) with R. destruct (length l <? 8)%nat eqn:E.
  - change (fold_left Rplus l 0 = Rsum l). rewrite fold_left_Rplus. lra.
  - apply Nat.ltb_ge in E.
    set (n := length l) in *. set (nb := (n - n mod 8)%nat). set (body := firstn nb l).
    assert (Hk : exists k, nb = (8 * k)%nat /\ (1 <= k <= n)%nat).
    { exists (n / 8)%nat. pose proof (Nat.div_mod n 8 ltac:(lia)) as H. pose proof (Nat.mod_upper_bound n 8 ltac:(lia)).
      unfold nb. split; [lia|]. split; [|apply Nat.div_le_upper_bound; lia].
      apply Nat.div_le_lower_bound; lia. }
    destruct Hk as [k [Hnb Hk]].
    assert (Hb : length body = nb) by (unfold body; rewrite firstn_length; unfold nb, n; lia).
    assert (H8 : length (firstn 8 body) = 8%nat) by (rewrite firstn_length; lia).
    assert (Hs : length (skipn 8 body) = (8 * (k - 1))%nat) by (rewrite skipn_length; lia).
    pose proof (acc8_length n _ (skipn 8 body) H8) as HL.
    pose proof (acc8_sum n _ _ (k - 1)%nat H8 Hs ltac:(lia)) as HS.
    destruct (@acc8 RNum n (firstn 8 body) (skipn 8 body)) as [|r0 [|r1 [|r2 [|r3 [|r4 [|r5 [|r6 [|r7 [|? ?]]]]]]]]]; simpl in HL; try lia.
    cbn [add zero RNum]. rewrite fold_left_Rplus.
    assert (HR : Rsum l = Rsum body + Rsum (skipn nb l)) by (rewrite <- Rsum_app'; unfold body; rewrite firstn_skipn; reflexivity).
    assert (HB : Rsum body = Rsum (firstn 8 body) + Rsum (skipn 8 body)) by (rewrite <- Rsum_app', firstn_skipn; reflexivity).
    set (fb := firstn 8 body) in *. set (sb := skipn 8 body) in *. simpl in HS. lra.
Qed.
Lemma np_sum_go_R : forall fuel (l : list R), @np_sum_go RNum fuel l = Rsum l.
Proof.
  induction fuel as [|f IH]; intros l; cbn [np_sum_go]; change (T RNum) with R; destruct (length l <=? 128)%nat; try apply block_sum_R.
  rewrite !IH. cbn [add RNum]. rewrite <- Rsum_app', firstn_skipn. reflexivity.
Qed.
Lemma np_sum_R (l : list R) : @np_sum RNum l = Rsum l.
Proof. unfold np_sum. rewrite np_sum_go_R. cbn [add zero RNum]. lra. Qed.
Lemma np_mean_R (l : list R) : @np_mean RNum l = Rmean l.
Proof. unfold np_mean, Rmean. rewrite np_sum_R, ofN_R. reflexivity. Qed.

(* ---------- the wrappers are the metrics applied to m*x + b ---------- *)
Definition line (b m : R) (x : list R) : list R := map (fun xi => m * xi + b) x.
Lemma linear_transform_R (x : list R) (b m : R) : @linear_transform RNum x (b, m) = line b m x.
Proof. unfold linear_transform, line. apply map_ext. intros a. simpl. ring. Qed.
Lemma line_length b m x : length (line b m x) = length x.
Proof. apply map_length. Qed.

Theorem lf_rmse_is_metric (x y : list R) (b m : R) : @lf_rmse RNum x y (b, m) = @rmse RNum y (line b m x).
Proof. unfold lf_rmse. rewrite linear_transform_R. reflexivity. Qed.
Theorem lf_rmsle_is_metric (x y : list R) (b m : R) : @lf_rmsle RNum x y (b, m) = @rmsle RNum y (line b m x).
Proof. unfold lf_rmsle. rewrite linear_transform_R. reflexivity. Qed.
Theorem lf_rmspe_is_metric (x y : list R) (b m eps : R) : @lf_rmspe RNum x y (b, m) eps = @rmspe RNum y (line b m x) eps.
Proof. unfold lf_rmspe. rewrite linear_transform_R. reflexivity. Qed.
Theorem lf_smape_is_metric (x y : list R) (b m eps : R) : @lf_smape RNum x y (b, m) eps = @smape RNum y (line b m x) eps.
Proof. unfold lf_smape. rewrite linear_transform_R. reflexivity. Qed.
Theorem lf_rpd_is_metric (x y : list R) (b m eps : R) : @lf_rpd RNum x y (b, m) eps = @rpd RNum y (line b m x) eps.
Proof. unfold lf_rpd. rewrite linear_transform_R. reflexivity. Qed.
Theorem linear_residuals_is_metric (x y : list R) (b m : R) : @linear_residuals RNum x y (b, m) = @residuals RNum y (line b m x).
Proof. unfold linear_residuals. rewrite linear_transform_R. reflexivity. Qed.
(* linear_r2 re-implements metrics.r2 with NumPy's (pairwise) sums: the same number on reals *)
Theorem linear_r2_is_metric (x y : list R) (b m : R) k :
  length x = length y -> @linear_r2 RNum x y (b, m) k = @r2 RNum y (line b m x) k.
Proof.
  intros Hl. unfold linear_r2, r2. change (T RNum) with R. rewrite linear_transform_R, !np_sum_R, np_mean_R, !seq_sum_R, seq_mean_R, Hl.
  reflexivity.
Qed.
(* the *_points wrappers split the columns and delegate *)
Theorem points_wrappers (P : list (R * R)) (b m eps : R) k :
  @rmse_points RNum P (b, m) = @rmse RNum (map snd P) (line b m (map fst P)) /\
  @rmsle_points RNum P (b, m) = @rmsle RNum (map snd P) (line b m (map fst P)) /\
  @rmspe_points RNum P (b, m) eps = @rmspe RNum (map snd P) (line b m (map fst P)) eps /\
  @smape_points RNum P (b, m) eps = @smape RNum (map snd P) (line b m (map fst P)) eps /\
  @rpd_points RNum P (b, m) eps = @rpd RNum (map snd P) (line b m (map fst P)) eps /\
  @linear_residuals_points RNum P (b, m) = @residuals RNum (map snd P) (line b m (map fst P)) /\
  @linear_r2_points RNum P (b, m) k = @r2 RNum (map snd P) (line b m (map fst P)) k.
Proof.
  unfold rmse_points, rmsle_points, rmspe_points, smape_points, rpd_points, linear_residuals_points, linear_r2_points, xs, ys.
  rewrite lf_rmse_is_metric, lf_rmsle_is_metric, lf_rmspe_is_metric, lf_smape_is_metric, lf_rpd_is_metric,
    linear_residuals_is_metric, linear_r2_is_metric by (rewrite !map_length; reflexivity).
  repeat split.
Qed.
(* so the laws of the metrics carry over, e.g. *)
Corollary smape_points_range (P : list (R * R)) (b m eps : R) : 0 < eps -> 0 <= @smape_points RNum P (b, m) eps <= 2.
Proof. intros He. destruct (points_wrappers P b m eps R2classic) as (_ & _ & _ & -> & _). apply smape_range; exact He. Qed.
Corollary linear_r2_le_1 (x y : list R) (b m : R) : length x = length y -> @linear_r2 RNum x y (b, m) R2classic <= 1.
Proof. intros Hl. rewrite linear_r2_is_metric by exact Hl. apply r2_le_1. Qed.

(* ---------- the end-point fit passes through the first and the last point ---------- *)
Theorem endpoint_fit_interpolates (x y : list R) :
  hd 0 x <> last x 0 ->
  let '(b, m) := @linear_fit RNum x y in
  m * hd 0 x + b = hd 0 y /\ m * last x 0 + b = last y 0.
Proof.
  intros Hne. unfold linear_fit. simpl. unfold Reqb.
  destruct (Req_EM_T (hd 0 x - last x 0) 0) as [E|E]; [exfalso; lra|].
  split; field; lra.
Qed.
Lemma hd_map {A B} (f : A -> B) l d : hd (f d) (map f l) = f (hd d l).
Proof. destruct l; reflexivity. Qed.
Lemma last_map {A B} (f : A -> B) l d : last (map f l) (f d) = f (last l d).
Proof. induction l as [|a [|a' l] IH]; try reflexivity. exact IH. Qed.
Lemma last_indep {A} (l : list A) d d' : l <> [] -> last l d = last l d'.
Proof. induction l as [|a [|a' l] IH]; intros H; [contradiction|reflexivity|]. apply IH. discriminate. Qed.
(* ... as a statement about the transformed array: y_hat[0] = y[0] and y_hat[-1] = y[-1] *)
Theorem endpoint_fit_transform (x y : list R) :
  x <> [] -> hd 0 x <> last x 0 ->
  let yh := @linear_transform RNum x (@linear_fit RNum x y) in
  hd 0 yh = hd 0 y /\ last yh 0 = last y 0.
Proof.
  intros Hx Hne. pose proof (endpoint_fit_interpolates x y Hne) as H.
  destruct (@linear_fit RNum x y) as [b m]. cbv zeta. rewrite linear_transform_R. unfold line.
  destruct H as [H1 H2]. destruct x as [|x0 x']; [contradiction|].
  split.
  - simpl. simpl in H1. exact H1.
  - set (f := fun xi : R => m * xi + b).
    assert (HL : last (map f (x0 :: x')) 0 = f (last (x0 :: x') 0)).
    { rewrite (last_indep _ 0 (f 0)) by (simpl; discriminate). apply last_map. }
    transitivity (f (last (x0 :: x') 0)); [exact HL|exact H2].
Qed.
(* degenerate abscissae: the fit is the zero line *)
Theorem endpoint_fit_degenerate (x y : list R) : hd 0 x = last x 0 -> @linear_fit RNum x y = (0, 0).
Proof.
  intros He. unfold linear_fit. simpl. unfold Reqb. destruct (Req_EM_T (hd 0 x - last x 0) 0) as [E|E]; [reflexivity|exfalso; lra].
Qed.

(* ---------- best-fit R2 = squared Pearson correlation ---------- *)
(* centred cross-moment  S_xy = sum (x_i - mean x)(y_i - mean y) *)
Definition Sxy (x y : list R) : R := Rsum (zipR (fun a b => (a - Rmean x) * (b - Rmean y)) x y).
Definition Pearson (x y : list R) : R := Sxy x y / sqrtR (Sxy x x * Sxy y y).

Lemma zipR_map f g h (x y : list R) : zipR f (map g x) (map h y) = zipR (fun a b => f (g a) (h b)) x y.
Proof.
  revert y. induction x as [|a x IH]; intros [|b y]; try reflexivity.
  unfold zipR in *. simpl. f_equal. apply IH.
Qed.
Lemma zipR_map_r f h (y x : list R) : zipR f y (map h x) = zipR (fun a b => f a (h b)) y x.
Proof. rewrite <- (map_id y) at 1. apply zipR_map. Qed.
Lemma zipR_fst_only (g : R -> R) : forall (y x : list R), length y = length x -> zipR (fun a _ => g a) y x = map g y.
Proof.
  induction y as [|a y IH]; intros [|b x] H; try reflexivity; try discriminate.
  unfold zipR in *. simpl. f_equal. apply IH. simpl in H. lia.
Qed.
Lemma zipR_snd_only (g : R -> R) : forall (y x : list R), length y = length x -> zipR (fun _ b => g b) y x = map g x.
Proof.
  induction y as [|a y IH]; intros [|b x] H; try reflexivity; try discriminate.
  unfold zipR in *. simpl. f_equal. apply IH. simpl in H. lia.
Qed.
Lemma dot_R (u v : list R) : @dot RNum u v = Rsum (zipR Rmult u v).
Proof. unfold dot. rewrite seq_sum_R. reflexivity. Qed.
Lemma Sxx_sq (x : list R) : Sxy x x = Rsum (map (fun a => (a - Rmean x) * (a - Rmean x)) x).
Proof. unfold Sxy. rewrite zipR_diag. reflexivity. Qed.
Lemma Sxx_TSS (y : list R) : Sxy y y = TSS y.
Proof. rewrite Sxx_sq. reflexivity. Qed.
Lemma Sxy_sym (x y : list R) : Sxy x y = Sxy y x.
Proof. unfold Sxy. f_equal. apply zipR_sym. intros a b. ring. Qed.

Lemma pearson_R (x y : list R) :
  (2 <= length x)%nat -> 0 < Sxy x x -> 0 < Sxy y y -> @pearson RNum x y = Pearson x y.
Proof.
  intros Hn Hx Hy. unfold pearson, Pearson. change (T RNum) with R.
  rewrite !np_mean_R, !dot_R, !zipR_map.
  simpl. rewrite minus_IZR, <- INR_IZR_INZ.
  change (Rsum (zipR (fun a b : R => (a - Rmean x) * (b - Rmean y)) x y)) with (Sxy x y).
  change (Rsum (zipR (fun a b : R => (a - Rmean x) * (b - Rmean x)) x x)) with (Sxy x x).
  change (Rsum (zipR (fun a b : R => (a - Rmean y) * (b - Rmean y)) y y)) with (Sxy y y).
  assert (Hn' : 2 <= INR (length x)) by (apply le_INR in Hn; simpl in Hn; lra).
  set (f := 1 / (INR (length x) - 1)).
  assert (Hf : 0 < f) by (unfold f; apply Rdiv_lt_0_compat; lra).
  rewrite !sqrt_mult by lra.
  pose proof (sqrt_lt_R0 _ Hx) as HA. pose proof (sqrt_lt_R0 _ Hy) as HB. pose proof (sqrt_lt_R0 _ Hf) as Hg.
  set (A := sqrtR (Sxy x x)) in *. set (B := sqrtR (Sxy y y)) in *. set (g := sqrtR f) in *.
  assert (Hff : f = g * g) by (unfold g; symmetry; apply sqrt_sqrt; lra).
  rewrite Hff. field. repeat split; lra.
Qed.
Lemma Pearson_sq (x y : list R) : 0 < Sxy x x -> 0 < Sxy y y ->
  Pearson x y * Pearson x y = (Sxy x y * Sxy x y) / (Sxy x x * Sxy y y).
Proof.
  intros Hx Hy. unfold Pearson.
  assert (Hp : 0 < Sxy x x * Sxy y y) by (apply Rmult_lt_0_compat; assumption).
  pose proof (sqrt_lt_R0 _ Hp) as Hs. pose proof (sqrt_sqrt _ (Rlt_le _ _ Hp)) as Hss.
  rewrite <- Hss at 3. field. lra.
Qed.
(* C16: r2(x, y) = corrcoef(x, y)^2 *)
Theorem bestfit_r2_is_pearson_sq (x y : list R) :
  (3 <= length x)%nat -> 0 < Sxy x x -> 0 < Sxy y y ->
  @bestfit_r2 RNum x y R2classic = Pearson x y * Pearson x y.
Proof.
  intros Hn Hx Hy. unfold bestfit_r2. change (T RNum) with R.
  destruct (Nat.leb_spec (length x) 2) as [H|H]; [lia|].
  rewrite pearson_R by (assumption || lia). reflexivity.
Qed.
(* ... and the adjusted variant applies the (n-1)/(n-2) correction *)
Theorem bestfit_r2_adjusted (x y : list R) :
  (3 <= length x)%nat -> 0 < Sxy x x -> 0 < Sxy y y ->
  @bestfit_r2 RNum x y R2adjusted = 1 - (1 - Pearson x y * Pearson x y) * ((INR (length x) - 1) / (INR (length x) - 2)).
Proof.
  intros Hn Hx Hy. pose proof (bestfit_r2_is_pearson_sq x y Hn Hx Hy) as H.
  unfold bestfit_r2 in *. change (T RNum) with R in *. rewrite adj_factor_R. simpl in *. rewrite H. reflexivity.
Qed.
Theorem bestfit_r2_adjusted_of_classic (x y : list R) :
  @bestfit_r2 RNum x y R2adjusted = 1 - (1 - @bestfit_r2 RNum x y R2classic) * ((INR (length x) - 1) / (INR (length x) - 2)).
Proof. unfold bestfit_r2. change (T RNum) with R. rewrite adj_factor_R. reflexivity. Qed.
Theorem r2_points_spec (P : list (R * R)) k :
  @r2_points RNum P k = if Nat.leb (length P) 2 then 1 else @bestfit_r2 RNum (map fst P) (map snd P) k.
Proof. reflexivity. Qed.

(* ---------- stretch: pearson^2 = 1 - RSS_lsq/TSS, i.e. r2(x, y) is metrics.r2 of the least-squares line ---------- *)
Lemma Rsum_zip_quadratic (g h : R -> R) (m : R) : forall (y x : list R),
  Rsum (zipR (fun a b => (g a - m * h b) * (g a - m * h b)) y x) =
  Rsum (zipR (fun a _ => g a * g a) y x) - 2 * m * Rsum (zipR (fun a b => g a * h b) y x)
  + m * m * Rsum (zipR (fun _ b => h b * h b) y x).
Proof.
  induction y as [|a y IH]; intros [|b x]; try (unfold zipR; simpl; ring).
  unfold zipR in *. simpl. rewrite IH. ring.
Qed.
Lemma lsq_fit_R (x y : list R) :
  @lsq_fit RNum x y = (Rmean y - (Sxy x y / Sxy x x) * Rmean x, Sxy x y / Sxy x x).
Proof.
  unfold lsq_fit. change (T RNum) with R. rewrite !np_mean_R, !dot_R, !zipR_map. reflexivity.
Qed.
Lemma RSS_lsq (x y : list R) : length x = length y -> 0 < Sxy x x ->
  let '(b, m) := @lsq_fit RNum x y in
  Rsum (zipR sqd y (line b m x)) = Sxy y y - (Sxy x y * Sxy x y) / Sxy x x.
Proof.
  intros Hl Hx. rewrite lsq_fit_R. set (m := Sxy x y / Sxy x x). unfold line. rewrite zipR_map_r.
  transitivity (Rsum (zipR (fun a b => ((a - Rmean y) - m * (b - Rmean x)) * ((a - Rmean y) - m * (b - Rmean x))) y x)).
  { f_equal. unfold zipR. apply map_ext. intros p. unfold sqd. ring. }
  rewrite (Rsum_zip_quadratic (fun a => a - Rmean y) (fun b => b - Rmean x) m).
  rewrite zipR_fst_only, zipR_snd_only by (symmetry; exact Hl).
  rewrite <- !Sxx_sq. fold (Sxy y x). rewrite (Sxy_sym y x). unfold m. field. lra.
Qed.
Theorem bestfit_r2_is_lsq_r2 (x y : list R) :
  length x = length y -> (3 <= length x)%nat -> 0 < Sxy x x -> 0 < Sxy y y ->
  @bestfit_r2 RNum x y R2classic = @r2 RNum y (@linear_transform RNum x (@lsq_fit RNum x y)) R2classic.
Proof.
  intros Hl Hn Hx Hy. rewrite bestfit_r2_is_pearson_sq, Pearson_sq by assumption.
  pose proof (RSS_lsq x y Hl Hx) as HR. destruct (@lsq_fit RNum x y) as [b m].
  rewrite linear_transform_R, r2_def. unfold R2c. rewrite HR, <- Sxx_TSS.
  change (T RNum) with R. destruct (Req_EM_T (Sxy y y) 0) as [E|E]; [lra|]. field. lra.
Qed.
(* Pearson^2 = 1 - RSS_lsq / TSS, and therefore  0 <= r2(x, y) <= 1  (Cauchy-Schwarz) *)
Theorem pearson_sq_is_1_minus_rss_over_tss (x y : list R) :
  length x = length y -> 0 < Sxy x x -> 0 < Sxy y y ->
  let '(b, m) := @lsq_fit RNum x y in
  Pearson x y * Pearson x y = 1 - Rsum (zipR sqd y (line b m x)) / TSS y.
Proof.
  intros Hl Hx Hy. pose proof (RSS_lsq x y Hl Hx) as HR. destruct (@lsq_fit RNum x y) as [b m].
  rewrite HR, Pearson_sq, <- Sxx_TSS by assumption. field. lra.
Qed.
Theorem bestfit_r2_range (x y : list R) :
  length x = length y -> (3 <= length x)%nat -> 0 < Sxy x x -> 0 < Sxy y y ->
  0 <= @bestfit_r2 RNum x y R2classic <= 1.
Proof.
  intros Hl Hn Hx Hy. split.
  - rewrite bestfit_r2_is_pearson_sq by assumption. apply sq_nonneg.
  - rewrite bestfit_r2_is_lsq_r2 by assumption. apply r2_le_1.
Qed.

(* ====================== C17: distance to a segment / to a line ====================== *)
Definition dist2 (p q : R * R) : R := (fst p - fst q) * (fst p - fst q) + (snd p - snd q) * (snd p - snd q).
Definition crossR (u v : R * R) : R := fst u * snd v - snd u * fst v.
Definition vsubR (p q : R * R) : R * R := (fst p - fst q, snd p - snd q).
(* the point a + lam (b - a) *)
Definition on_line (a b : R * R) (lam : R) : R * R := (fst a + lam * (fst b - fst a), snd a + lam * (snd b - snd a)).
(* parameter of the orthogonal projection of p onto the line a b *)
Definition proj_param (a b p : R * R) : R :=
  ((fst p - fst a) * (fst b - fst a) + (snd p - snd a) * (snd b - snd a)) / dist2 b a.

Lemma sqrt_sq_sum_pos (dx dy : R) : (dx <> 0 \/ dy <> 0) -> 0 < sqrtR (dx * dx + dy * dy).
Proof.
  intros H. apply sqrt_lt_R0. pose proof (sq_nonneg dx). pose proof (sq_nonneg dy).
  destruct H as [H|H]; [assert (0 < dx * dx) by nra|assert (0 < dy * dy) by nra]; lra.
Qed.

(* the arithmetic core, in coordinates relative to a:  q = p - a, d = b - a, n = |d| *)
Lemma seg_core (qx qy dx dy n : R) : 0 < n -> n * n = dx * dx + dy * dy ->
  let W := qx * dx + qy * dy in
  let C := qx * dy - qy * dx in
  let s := (- qx) * (dx / n) + (- qy) * (dy / n) in
  let t := (qx - dx) * (dx / n) + (qy - dy) * (dy / n) in
  let c := qx * (dy / n) - qy * (dx / n) in
  let h := Rmax (Rmax s t) 0 in
  let u := W / (dx * dx + dy * dy) in
  (u <= 0 -> h * h + c * c = qx * qx + qy * qy) /\
  (1 <= u -> h * h + c * c = (qx - dx) * (qx - dx) + (qy - dy) * (qy - dy)) /\
  (0 <= u <= 1 -> h * h + c * c = C * C / (dx * dx + dy * dy)) /\
  (forall lam, 0 <= lam <= 1 -> h * h + c * c <= (qx - lam * dx) * (qx - lam * dx) + (qy - lam * dy) * (qy - lam * dy)) /\
  (c * c = C * C / (dx * dx + dy * dy)) /\
  (forall lam, c * c <= (qx - lam * dx) * (qx - lam * dx) + (qy - lam * dy) * (qy - lam * dy)) /\
  (c * c = (qx - u * dx) * (qx - u * dx) + (qy - u * dy) * (qy - u * dy)).
Proof.
  intros Hn Hnn W C s t c h u.
  assert (Hn0 : n <> 0) by lra.
  set (w := W / n).
  assert (Hs : s = - w) by (unfold s, w, W; field; exact Hn0).
  assert (Ht : t = w - n).
  { transitivity (w - (n * n) / n); [|field; exact Hn0]. rewrite Hnn. unfold t, w, W. field. exact Hn0. }
  assert (Hwn : w * n = W) by (unfold w; field; exact Hn0).
  assert (Hcn : c * n = C) by (unfold c, C; field; exact Hn0).
  assert (Hu : u * n = w).
  { unfold u. rewrite <- Hnn. unfold w. field. exact Hn0. }
  assert (Hq : w * w + c * c = qx * qx + qy * qy).
  { apply Rmult_eq_reg_r with (n * n); [|nra].
    transitivity ((w * n) * (w * n) + (c * n) * (c * n)); [ring|]. rewrite Hwn, Hcn, Hnn. unfold W, C. ring. }
  assert (Hexp : forall lam, (qx - lam * dx) * (qx - lam * dx) + (qy - lam * dy) * (qy - lam * dy)
                             = (w - lam * n) * (w - lam * n) + c * c).
  { intros lam. transitivity ((qx * qx + qy * qy) - 2 * lam * W + lam * lam * (dx * dx + dy * dy)); [unfold W; ring|].
    rewrite <- Hq, <- Hwn, <- Hnn. ring. }
  assert (Hcc : c * c = C * C / (dx * dx + dy * dy)).
  { rewrite <- Hnn, <- Hcn. field. exact Hn0. }
  assert (Hh : h = Rmax (Rmax (- w) (w - n)) 0) by (unfold h; rewrite Hs, Ht; reflexivity).
  repeat split.
  - intros H0. assert (w <= 0) by nra.
    rewrite Hh, (Rmax_left (- w) (w - n)), (Rmax_left (- w) 0) by lra. rewrite <- Hq. ring.
  - intros H1. assert (n <= w) by nra.
    rewrite Hh, (Rmax_right (- w) (w - n)), (Rmax_left (w - n) 0) by lra.
    rewrite <- (Rmult_1_l dx), <- (Rmult_1_l dy), Hexp. ring.
  - intros [H0 H1]. assert (0 <= w <= n) by nra.
    rewrite Hh. rewrite (Rmax_right _ 0) by (apply Rmax_lub; lra). rewrite <- Hcc. ring.
  - intros lam [L0 L1]. rewrite Hexp, Hh.
    apply Rplus_le_compat_r.
    assert (Hln : 0 <= lam * n <= n) by nra.
    destruct (Rle_dec w 0) as [Hw|Hw].
    + rewrite (Rmax_left (- w) (w - n)), (Rmax_left (- w) 0) by lra. nra.
    + destruct (Rle_dec n w) as [Hw'|Hw'].
      * rewrite (Rmax_right (- w) (w - n)), (Rmax_left (w - n) 0) by lra. nra.
      * rewrite (Rmax_right _ 0) by (apply Rmax_lub; lra). rewrite Rmult_0_l. apply sq_nonneg.
  - exact Hcc.
  - intros lam. rewrite Hexp. pose proof (sq_nonneg (w - lam * n)). lra.
  - rewrite Hexp, Hu. ring.
Qed.

Lemma neq_points (a b : R * R) : a <> b -> fst b - fst a <> 0 \/ snd b - snd a <> 0.
Proof.
  intros H. destruct a as [ax ay], b as [bx by_]. simpl.
  destruct (Req_EM_T ax bx) as [E1|E1]; [|left; lra].
  destruct (Req_EM_T ay by_) as [E2|E2]; [|right; lra].
  exfalso. apply H. subst. reflexivity.
Qed.
Lemma same_point_test (a b : R * R) :
  (Reqb (fst a) (fst b) && Reqb (snd a) (snd b))%bool = true <-> a = b.
Proof.
  destruct a as [ax ay], b as [bx by_]. simpl. rewrite andb_true_iff, !Reqb_true. split.
  - intros [-> ->]. reflexivity.
  - intros H. inversion H. auto.
Qed.

(* C17: shortest_distance_points returns the distance to the closed segment a-b (squared form) *)
Theorem shortest_is_segment_distance (a b p : R * R) : a <> b ->
  let r := @shortest_one RNum a b p in
  let u := proj_param a b p in
  0 <= r /\
  (u <= 0 -> r * r = dist2 p a) /\
  (1 <= u -> r * r = dist2 p b) /\
  (0 <= u <= 1 -> r * r = crossR (vsubR p a) (vsubR b a) * crossR (vsubR p a) (vsubR b a) / dist2 b a) /\
  (forall lam, 0 <= lam <= 1 -> r * r <= dist2 p (on_line a b lam)).
Proof.
  intros Hab r u.
  assert (Hne := neq_points a b Hab).
  assert (Htest : (Reqb (fst a) (fst b) && Reqb (snd a) (snd b))%bool = false).
  { destruct (Reqb (fst a) (fst b) && Reqb (snd a) (snd b))%bool eqn:E; [|reflexivity].
    apply same_point_test in E. contradiction. }
  destruct a as [ax ay], b as [bx by_], p as [p1 p2].
  simpl in Hne, Htest.
  set (dx := bx - ax) in *. set (dy := by_ - ay) in *.
  pose proof (sqrt_sq_sum_pos dx dy Hne) as Hn.
  assert (Hnn : sqrtR (dx * dx + dy * dy) * sqrtR (dx * dx + dy * dy) = dx * dx + dy * dy).
  { apply sqrt_sqrt. pose proof (sq_nonneg dx). pose proof (sq_nonneg dy). lra. }
  pose proof (seg_core (p1 - ax) (p2 - ay) dx dy _ Hn Hnn) as HC. cbv zeta in HC.
  destruct HC as (H1 & H2 & H3 & H4 & _).
  assert (Hr : r * r = Rmax (Rmax ((- (p1 - ax)) * (dx / sqrtR (dx * dx + dy * dy)) + (- (p2 - ay)) * (dy / sqrtR (dx * dx + dy * dy)))
                                   ((p1 - ax - dx) * (dx / sqrtR (dx * dx + dy * dy)) + (p2 - ay - dy) * (dy / sqrtR (dx * dx + dy * dy)))) 0
                     * Rmax (Rmax ((- (p1 - ax)) * (dx / sqrtR (dx * dx + dy * dy)) + (- (p2 - ay)) * (dy / sqrtR (dx * dx + dy * dy)))
                                   ((p1 - ax - dx) * (dx / sqrtR (dx * dx + dy * dy)) + (p2 - ay - dy) * (dy / sqrtR (dx * dx + dy * dy)))) 0
                     + ((p1 - ax) * (dy / sqrtR (dx * dx + dy * dy)) - (p2 - ay) * (dx / sqrtR (dx * dx + dy * dy)))
                       * ((p1 - ax) * (dy / sqrtR (dx * dx + dy * dy)) - (p2 - ay) * (dx / sqrtR (dx * dx + dy * dy)))
          /\ 0 <= r).
  { unfold r, shortest_one. simpl. rewrite Htest. unfold hypot, norm2, cross2d, psub, LinearFit.px, LinearFit.py. simpl.
    rewrite !npmax_R. fold dx dy.
    split; [|apply sqrt_pos].
    replace (ax - p1) with (- (p1 - ax)) by ring. replace (ay - p2) with (- (p2 - ay)) by ring.
    replace (p1 - bx) with (p1 - ax - dx) by (unfold dx; ring). replace (p2 - by_) with (p2 - ay - dy) by (unfold dy; ring).
    rewrite sqrt_sqrt; [reflexivity|]. apply Rplus_le_le_0_compat; apply sq_nonneg. }
  destruct Hr as [Hr Hr0].
  assert (Hu : u = ((p1 - ax) * dx + (p2 - ay) * dy) / (dx * dx + dy * dy)) by reflexivity.
  rewrite <- Hu in H1, H2, H3.
  split; [exact Hr0|]. rewrite Hr. unfold dist2, on_line, crossR, vsubR. simpl. fold dx dy.
  repeat split.
  - intros Hu0. rewrite (H1 Hu0). ring.
  - intros Hu1. rewrite (H2 Hu1). unfold dx, dy. ring.
  - intros Hu01. rewrite (H3 Hu01). reflexivity.
  - intros lam Hl. eapply Rle_trans; [apply (H4 lam Hl)|]. right. ring.
Qed.
(* ... and, when a = b, the distance to that point *)
Theorem shortest_degenerate (a p : R * R) :
  let r := @shortest_one RNum a a p in 0 <= r /\ r * r = dist2 p a.
Proof.
  intros r.
  assert (Htest : (Reqb (fst a) (fst a) && Reqb (snd a) (snd a))%bool = true) by (apply same_point_test; reflexivity).
  destruct a as [ax ay], p as [p1 p2]. unfold r, shortest_one. simpl in *. rewrite Htest.
  unfold norm2, psub, LinearFit.px, LinearFit.py. simpl. split; [apply sqrt_pos|].
  rewrite sqrt_sqrt; [reflexivity|]. apply Rplus_le_le_0_compat; apply sq_nonneg.
Qed.

(* C17: perpendicular_distance_points returns the distance to the infinite line through a and b *)
Theorem perp_is_line_distance (a b p : R * R) : a <> b ->
  let r := @perp_one RNum a b p in
  0 <= r /\
  r * r = crossR (vsubR p a) (vsubR b a) * crossR (vsubR p a) (vsubR b a) / dist2 b a /\
  (forall lam, r * r <= dist2 p (on_line a b lam)) /\
  r * r = dist2 p (on_line a b (proj_param a b p)).
Proof.
  intros Hab r.
  assert (Hne := neq_points a b Hab).
  destruct a as [ax ay], b as [bx by_], p as [p1 p2]. simpl in Hne.
  set (dx := bx - ax) in *. set (dy := by_ - ay) in *.
  pose proof (sqrt_sq_sum_pos dx dy Hne) as Hn.
  assert (Hnn : sqrtR (dx * dx + dy * dy) * sqrtR (dx * dx + dy * dy) = dx * dx + dy * dy).
  { apply sqrt_sqrt. pose proof (sq_nonneg dx). pose proof (sq_nonneg dy). lra. }
  pose proof (seg_core (p1 - ax) (p2 - ay) dx dy _ Hn Hnn) as HC. cbv zeta in HC.
  destruct HC as (_ & _ & _ & _ & H5 & H6 & H7).
  set (n := sqrtR (dx * dx + dy * dy)) in *.
  assert (Hr : r * r = ((p1 - ax) * (dy / n) - (p2 - ay) * (dx / n)) * ((p1 - ax) * (dy / n) - (p2 - ay) * (dx / n)) /\ 0 <= r).
  { unfold r, perp_one. simpl. unfold norm2, cross2d, psub, LinearFit.px, LinearFit.py. simpl. fold dx dy. fold n.
    split; [|apply Rabs_pos].
    rewrite <- Rabs_mult. rewrite Rabs_pos_eq by apply sq_nonneg. field. lra. }
  destruct Hr as [Hr Hr0]. split; [exact Hr0|]. rewrite Hr.
  unfold dist2, on_line, crossR, vsubR, proj_param. simpl. fold dx dy.
  repeat split.
  - rewrite H5. reflexivity.
  - intros lam. eapply Rle_trans; [apply (H6 lam)|]. right. ring.
  - rewrite H7. unfold dist2. simpl. fold dx dy. ring.
Qed.

(* C17 (Tier S: any arithmetic): the index variant is the point variant on exactly the sub-range [left, right] *)
Section PerpIndex.
  Context {N : Num}.
  Lemma nth_skipn' {A} (l : list A) : forall j k d, nth k (skipn j l) d = nth (j + k) l d.
  Proof.
    induction l as [|a l IH]; intros [|j] k d; cbn [skipn]; auto.
    - destruct k; auto.
    - rewrite IH. reflexivity.
  Qed.
  Lemma nth_firstn' {A} (l : list A) : forall n k d, (k < n)%nat -> nth k (firstn n l) d = nth k l d.
  Proof.
    induction l as [|a l IH]; intros [|n] [|k] d H; cbn; auto; try lia. apply IH. lia.
  Qed.
  Theorem perp_index_is_subrange (P : list (@pt N)) (lft rgt : nat) :
    (lft <= rgt)%nat -> (rgt < length P)%nat ->
    length (perpendicular_distance_index P lft rgt) = (rgt - lft + 1)%nat /\
    forall k, (k <= rgt - lft)%nat ->
      nth k (perpendicular_distance_index P lft rgt) zero
      = perp_one (nth lft P pzero) (nth rgt P pzero) (nth (lft + k) P pzero).
  Proof.
    intros Hlr Hr. unfold perpendicular_distance_index, perpendicular_distance_points, slice. split.
    - rewrite map_length, firstn_length, skipn_length. lia.
    - intros k Hk.
      set (f := perp_one (nth lft P pzero) (nth rgt P pzero)).
      assert (Hlen : (k < length (firstn (rgt + 1 - lft) (skipn lft P)))%nat).
      { rewrite firstn_length, skipn_length. lia. }
      rewrite (nth_indep _ zero (f pzero)) by (rewrite map_length; exact Hlen).
      rewrite map_nth. f_equal. rewrite nth_firstn' by lia. apply nth_skipn'.
  Qed.
  (* perpendicular_distance(points) is the index variant on the whole array *)
  Theorem perpendicular_distance_whole (P : list (@pt N)) :
    perpendicular_distance P = perpendicular_distance_points P (nth 0 P pzero) (nth (length P - 1) P pzero).
  Proof.
    unfold perpendicular_distance, perpendicular_distance_index, slice. cbn [skipn].
    destruct P as [|p0 P']; [reflexivity|].
    replace (length (p0 :: P') - 1 + 1 - 0)%nat with (length (p0 :: P')) by (simpl; lia).
    rewrite firstn_all. reflexivity.
  Qed.
End PerpIndex.
