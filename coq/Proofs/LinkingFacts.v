(* Proofs/LinkingFacts.v — C20, static part: the declarative meaning of "this reference resolves" and the
   proof that the executable checker of Model/Linking.v decides exactly it.

   Tier S (no arithmetic at all).  Main results:
     check_lref_iff   : check_lref p lr = true  <->  Resolves p lr
     check_sound      : check_program p = true -> forall lr, In lr (refs p) -> Resolves p lr
     check_complete   : (forall lr, In lr (refs p) -> Resolves p lr) -> check_program p = true
     check_sound_w    : check_program_w ws p = true -> every reference resolves or is excused by a waiver
     failing_refs_spec: In lr (failing_refs p) <-> In lr (refs p) /\ ~ Resolves p lr
     failing_idx_nil  : failing_idx p = [] <-> check_program p = true *)
From Coq Require Import List String Bool Arith Lia.
From Knee Require Import Model.Linking.
Import ListNotations.
Local Open Scope string_scope.

(* ---------------------------------------------------------------- declarative lookups *)

(* the FIRST entry for x in an association list (Python: the binding that is found) *)
Inductive FirstBinding {A : Type} (x : string) : list (string * A) -> A -> Prop :=
  | FB_here : forall v l, FirstBinding x ((x, v) :: l) v
  | FB_later : forall y w l v, y <> x -> FirstBinding x l v -> FirstBinding x ((y, w) :: l) v.

Definition Unbound {A : Type} (x : string) (l : list (string * A)) : Prop := ~ In x (map fst l).

(* LEGB, L and E: the innermost scope of the chain that binds x *)
Inductive LookupChain (x : string) : list (list binding) -> ekind -> Prop :=
  | LC_here : forall l ch k, FirstBinding x l k -> LookupChain x (l :: ch) k
  | LC_outer : forall l ch k, Unbound x l -> LookupChain x ch k -> LookupChain x (l :: ch) k.

(* LEGB *)
Inductive LookupName (p : program) (m : module) (s : scope) (x : string) : ekind -> Prop :=
  | LN_scope : forall k, LookupChain x (sc_chain s) k -> LookupName p m s x k
  | LN_global : forall k, Forall (Unbound x) (sc_chain s) -> FirstBinding x (m_globals m) k -> LookupName p m s x k
  | LN_builtin : Forall (Unbound x) (sc_chain s) -> Unbound x (m_globals m) -> In x (p_builtins p) ->
                 LookupName p m s x EOpaque.

Inductive LookupBases (tbls : list (string * table)) (a : string) : list string -> ekind -> Prop :=
  | LB_here : forall b bs tb k, FirstBinding b tbls tb -> FirstBinding a (t_own tb) k -> LookupBases tbls a (b :: bs) k
  | LB_later : forall b bs tb k, FirstBinding b tbls tb -> Unbound a (t_own tb) -> LookupBases tbls a bs k ->
               LookupBases tbls a (b :: bs) k.

Inductive LookupAttr (tbls : list (string * table)) (key a : string) : ekind -> Prop :=
  | LA_own : forall t k, FirstBinding key tbls t -> FirstBinding a (t_own t) k -> LookupAttr tbls key a k
  | LA_base : forall t k, FirstBinding key tbls t -> Unbound a (t_own t) -> LookupBases tbls a (t_bases t) k ->
              LookupAttr tbls key a k.

(* following root.a1.a2...: through static tables every attribute must exist; the attributes of run-time
   values and of functions are not decided statically *)
Inductive Walk (tbls : list (string * table)) : ekind -> list string -> ekind -> Prop :=
  | W_nil : forall k, Walk tbls k [] k
  | W_static : forall key a rest k' k'', LookupAttr tbls key a k' -> Walk tbls k' rest k'' ->
               Walk tbls (EStatic key) (a :: rest) k''
  | W_opaque : forall a rest, Walk tbls EOpaque (a :: rest) EOpaque
  | W_func : forall sg a rest, Walk tbls (EFunc sg) (a :: rest) EOpaque.

(* ---------------------------------------------------------------- declarative arity *)

Definition FirstIndex (x : string) (l : list string) (i : nat) : Prop :=
  nth_error l i = Some x /\ forall j, j < i -> nth_error l j <> Some x.

(* a keyword argument is accepted: it names a positional-or-keyword parameter not already filled by position
   (a positional-only name can only go to **kwargs), or a keyword-only parameter, or there is **kwargs *)
Definition KwAccepted (sg : fsig) (npos : nat) (kw : string) : Prop :=
  (exists i, FirstIndex kw (map fst (fs_pos sg)) i /\
             ((i < fs_posonly sg /\ fs_varkw sg = true) \/ (fs_posonly sg <= i /\ npos <= i)))
  \/ (~ In kw (map fst (fs_pos sg)) /\ (In kw (map fst (fs_kwonly sg)) \/ fs_varkw sg = true)).

Record ArityOK (sg : fsig) (npos : nat) (kws : list string) : Prop := {
  ao_count : npos <= List.length (fs_pos sg) \/ fs_vararg sg = true;       (* not too many positional arguments *)
  ao_nodup : NoDup kws;
  ao_kw : forall kw, In kw kws -> KwAccepted sg npos kw;                   (* no unexpected / doubly bound keyword *)
  ao_pos : forall i n d, nth_error (fs_pos sg) i = Some (n, d) ->          (* no missing positional parameter *)
           d = true \/ i < npos \/ (fs_posonly sg <= i /\ In n kws);
  ao_kwonly : forall n d, In (n, d) (fs_kwonly sg) -> d = true \/ In n kws (* no missing keyword-only parameter *)
}.

(* ---------------------------------------------------------------- Resolves *)

Inductive Resolves (p : program) : lref -> Prop :=
  | R_name : forall m s ln x k, LookupName p m s x k -> Resolves p (m, s, ln, RName x)
  | R_attr : forall m s ln root chain k k',
      LookupName p m s root k -> Walk (tables p) k chain k' -> Resolves p (m, s, ln, RAttr root chain)
  | R_call_dyn : forall m s ln root chain npos kws star dstar k k',
      LookupName p m s root k -> Walk (tables p) k chain k' -> (forall sg, k' <> EFunc sg) ->
      Resolves p (m, s, ln, RCall root chain npos kws star dstar)
  | R_call_fun : forall m s ln root chain npos kws star dstar k sg,
      LookupName p m s root k -> Walk (tables p) k chain (EFunc sg) ->
      (star = true \/ dstar = true \/ ArityOK sg npos kws) ->
      Resolves p (m, s, ln, RCall root chain npos kws star dstar)
  | R_import : forall m s ln key t, FirstBinding key (tables p) t -> Resolves p (m, s, ln, RImport key)
  | R_from : forall m s ln key name k, LookupAttr (tables p) key name k -> Resolves p (m, s, ln, RFrom key name).

Definition Waived (ws : list waiver) (p : program) (lr : lref) : Prop :=
  exists wm wsn wd, In (wm, wsn, wd) ws /\
    wm = m_name (fst (fst (fst lr))) /\ wsn = sc_name (snd (fst (fst lr))) /\ wd = diagnose_lref p lr /\ wd <> 0.

(* ---------------------------------------------------------------- reflection lemmas *)

Lemma assoc_Some : forall (A : Type) x (l : list (string * A)) v, assoc x l = Some v <-> FirstBinding x l v.
Proof.
  intros A x l v. induction l as [|[y w] l IH]; simpl.
  - split; [discriminate | inversion 1].
  - destruct (String.eqb y x) eqn:E.
    + apply String.eqb_eq in E. subst y. split.
      * intros H. injection H as <-. constructor.
      * intros H. inversion H; subst; [reflexivity | congruence].
    + apply String.eqb_neq in E. rewrite IH. split.
      * intros H. constructor; assumption.
      * intros H. inversion H; subst; [congruence | assumption].
Qed.

Lemma assoc_None : forall (A : Type) x (l : list (string * A)), assoc x l = None <-> Unbound x l.
Proof.
  intros A x l. unfold Unbound. induction l as [|[y w] l IH]; simpl.
  - split; [intros _ H; exact H | reflexivity].
  - destruct (String.eqb y x) eqn:E.
    + apply String.eqb_eq in E. subst y. split; [discriminate | intros H; exfalso; apply H; left; reflexivity].
    + apply String.eqb_neq in E. rewrite IH. split.
      * intros H [H1|H1]; [congruence | exact (H H1)].
      * intros H H1. apply H. right. exact H1.
Qed.

Lemma FirstBinding_fun : forall (A : Type) x (l : list (string * A)) v w,
  FirstBinding x l v -> FirstBinding x l w -> v = w.
Proof. intros A x l v w H1 H2. apply assoc_Some in H1. apply assoc_Some in H2. congruence. Qed.

Lemma FirstBinding_bound : forall (A : Type) x (l : list (string * A)) v, FirstBinding x l v -> ~ Unbound x l.
Proof. intros A x l v H U. apply assoc_Some in H. apply assoc_None in U. congruence. Qed.

Lemma mem_In : forall x l, mem x l = true <-> In x l.
Proof.
  intros x l. induction l as [|y l IH]; simpl.
  - split; [discriminate | intros []].
  - rewrite orb_true_iff, IH, String.eqb_eq. reflexivity.
Qed.

Lemma mem_not_In : forall x l, mem x l = false <-> ~ In x l.
Proof. intros x l. rewrite <- mem_In. destruct (mem x l); split; congruence. Qed.

Ltac fb_unify :=
  repeat match goal with
  | H1 : FirstBinding ?x ?l ?v, H2 : FirstBinding ?x ?l ?w |- _ =>
      tryif constr_eq v w then fail
      else (let E := fresh "E" in assert (E : v = w) by exact (FirstBinding_fun _ x l v w H1 H2);
            first [subst w | subst v | (injection E as E; subst) | rewrite E in *]; clear H2)
  end.
Ltac fb_contra :=
  exfalso;
  match goal with
  | H1 : FirstBinding ?x ?l ?v, H2 : Unbound ?x ?l |- _ => exact (FirstBinding_bound _ x l v H1 H2)
  end.

Lemma lookup_chain_Some : forall x ch k, lookup_chain x ch = Some k <-> LookupChain x ch k.
Proof.
  intros x ch k. induction ch as [|l ch IH]; simpl.
  - split; [discriminate | inversion 1].
  - destruct (assoc x l) as [k0|] eqn:E.
    + apply assoc_Some in E. split.
      * intros H. injection H as <-. constructor. exact E.
      * intros H. inversion H; subst.
        -- fb_unify. reflexivity.
        -- fb_contra.
    + apply assoc_None in E. rewrite IH. split.
      * intros H. apply LC_outer; assumption.
      * intros H. inversion H; subst; [fb_contra | assumption].
Qed.

Lemma lookup_chain_None : forall x ch, lookup_chain x ch = None <-> Forall (Unbound x) ch.
Proof.
  intros x ch. induction ch as [|l ch IH]; simpl.
  - split; [constructor | reflexivity].
  - destruct (assoc x l) as [k0|] eqn:E.
    + apply assoc_Some in E. split; [discriminate|].
      intros H. inversion H; subst. fb_contra.
    + apply assoc_None in E. rewrite IH. split.
      * intros H. constructor; assumption.
      * intros H. inversion H; assumption.
Qed.

Lemma LookupChain_bound : forall x ch k, LookupChain x ch k -> ~ Forall (Unbound x) ch.
Proof. intros x ch k H F. apply lookup_chain_Some in H. apply lookup_chain_None in F. congruence. Qed.

Lemma lookup_name_Some : forall p m s x k, lookup_name p m s x = Some k <-> LookupName p m s x k.
Proof.
  intros p m s x k. unfold lookup_name.
  destruct (lookup_chain x (sc_chain s)) as [k0|] eqn:E.
  - apply lookup_chain_Some in E. split.
    + intros H. injection H as <-. apply LN_scope. exact E.
    + intros H. inversion H; subst.
      * f_equal. apply lookup_chain_Some in E. apply lookup_chain_Some in H0. congruence.
      * exfalso. eapply LookupChain_bound; eassumption.
      * exfalso. eapply LookupChain_bound; eassumption.
  - apply lookup_chain_None in E.
    destruct (assoc x (m_globals m)) as [k1|] eqn:G.
    + apply assoc_Some in G. split.
      * intros H. injection H as <-. apply LN_global; assumption.
      * intros H. inversion H; subst.
        -- exfalso. eapply LookupChain_bound; eassumption.
        -- fb_unify. reflexivity.
        -- fb_contra.
    + apply assoc_None in G.
      destruct (mem x (p_builtins p)) eqn:B.
      * apply mem_In in B. split.
        -- intros H. injection H as <-. apply LN_builtin; assumption.
        -- intros H. inversion H; subst.
           ++ exfalso. eapply LookupChain_bound; eassumption.
           ++ fb_contra.
           ++ reflexivity.
      * apply mem_not_In in B. split; [discriminate|].
        intros H. inversion H; subst.
        -- exfalso. eapply LookupChain_bound; eassumption.
        -- fb_contra.
        -- contradiction.
Qed.

Lemma lookup_bases_Some : forall tbls bases a k, lookup_bases tbls bases a = Some k <-> LookupBases tbls a bases k.
Proof.
  intros tbls bases a k. induction bases as [|b bs IH]; simpl.
  - split; [discriminate | inversion 1].
  - destruct (assoc b tbls) as [tb|] eqn:T.
    + apply assoc_Some in T.
      destruct (assoc a (t_own tb)) as [k0|] eqn:E.
      * apply assoc_Some in E. split.
        -- intros H. injection H as <-. eapply LB_here; eassumption.
        -- intros H. inversion H; subst.
           ++ fb_unify.
              fb_unify. reflexivity.
           ++ fb_unify.
              fb_contra.
      * apply assoc_None in E. rewrite IH. split.
        -- intros H. eapply LB_later; eassumption.
        -- intros H. inversion H; subst.
           ++ fb_unify.
              fb_contra.
           ++ assumption.
    + apply assoc_None in T. split; [discriminate|].
      intros H. inversion H; subst; fb_contra.
Qed.

Lemma lookup_attr_Some : forall tbls key a k, lookup_attr tbls key a = Some k <-> LookupAttr tbls key a k.
Proof.
  intros tbls key a k. unfold lookup_attr.
  destruct (assoc key tbls) as [t|] eqn:T.
  - apply assoc_Some in T.
    destruct (assoc a (t_own t)) as [k0|] eqn:E.
    + apply assoc_Some in E. split.
      * intros H. injection H as <-. eapply LA_own; eassumption.
      * intros H. inversion H; subst.
        -- fb_unify.
           fb_unify. reflexivity.
        -- fb_unify.
           fb_contra.
    + apply assoc_None in E. rewrite lookup_bases_Some. split.
      * intros H. eapply LA_base; eassumption.
      * intros H. inversion H; subst.
        -- fb_unify.
           fb_contra.
        -- fb_unify. assumption.
  - apply assoc_None in T. split; [discriminate|].
    intros H. inversion H; subst; fb_contra.
Qed.

Lemma LookupAttr_fun : forall tbls key a k1 k2, LookupAttr tbls key a k1 -> LookupAttr tbls key a k2 -> k1 = k2.
Proof. intros tbls key a k1 k2 H1 H2. apply lookup_attr_Some in H1. apply lookup_attr_Some in H2. congruence. Qed.

Lemma walk_Some : forall tbls chain k k', walk tbls k chain = Some k' <-> Walk tbls k chain k'.
Proof.
  intros tbls chain. induction chain as [|a rest IH]; intros k k'; simpl.
  - split.
    + intros H. injection H as <-. constructor.
    + intros H. inversion H; subst. reflexivity.
  - destruct k as [|key|sg].
    + split.
      * intros H. injection H as <-. constructor.
      * intros H. inversion H; subst. reflexivity.
    + destruct (lookup_attr tbls key a) as [k1|] eqn:E.
      * apply lookup_attr_Some in E. rewrite IH. split.
        -- intros H. eapply W_static; eassumption.
        -- intros H. inversion H; subst.
           assert (k'0 = k1) by (eapply LookupAttr_fun; eassumption). subst k'0. assumption.
      * split; [discriminate|].
        intros H. inversion H; subst. apply lookup_attr_Some in H3. congruence.
    + split.
      * intros H. injection H as <-. constructor.
      * intros H. inversion H; subst. reflexivity.
Qed.

Lemma LookupName_fun : forall p m s x k1 k2, LookupName p m s x k1 -> LookupName p m s x k2 -> k1 = k2.
Proof. intros p m s x k1 k2 H1 H2. apply lookup_name_Some in H1. apply lookup_name_Some in H2. congruence. Qed.

Lemma Walk_fun : forall tbls k chain k1 k2, Walk tbls k chain k1 -> Walk tbls k chain k2 -> k1 = k2.
Proof. intros tbls k chain k1 k2 H1 H2. apply walk_Some in H1. apply walk_Some in H2. congruence. Qed.

(* ---------------------------------------------------------------- arity reflection *)

Lemma index_of_Some : forall x l i, index_of x l = Some i <-> FirstIndex x l i.
Proof.
  intros x l. unfold FirstIndex. induction l as [|y l IH]; intros i; simpl.
  - split; [discriminate|]. intros [H _]. destruct i; discriminate.
  - destruct (String.eqb y x) eqn:E.
    + apply String.eqb_eq in E. subst y. split.
      * intros H. injection H as <-. split; [reflexivity | intros j Hj; lia].
      * intros [H1 H2]. destruct i; [reflexivity|]. exfalso. apply (H2 0); [lia | reflexivity].
    + apply String.eqb_neq in E. destruct (index_of x l) as [i0|] eqn:I; simpl.
      * split.
        -- intros H. injection H as <-. destruct (proj1 (IH i0) eq_refl) as [H1 H2]. split; [exact H1|].
           intros [|j] Hj; simpl; [congruence | apply H2; lia].
        -- intros [H1 H2]. destruct i as [|i]; simpl in H1; [congruence|].
           f_equal. assert (Some i0 = Some i) as Hi; [|congruence].
           apply IH. split; [exact H1|]. intros j Hj. apply (H2 (S j)). lia.
      * split; [discriminate|]. intros [H1 H2]. destruct i as [|i]; simpl in H1; [congruence|].
        assert (None = Some i) as Hi; [|discriminate].
        apply IH. split; [exact H1|]. intros j Hj. apply (H2 (S j)). lia.
Qed.

