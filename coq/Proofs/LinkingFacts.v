(* Proofs/LinkingFacts.v — C20, static part: the declarative meaning of "this reference resolves" and the
   proof that the executable checker of Model/Linking.v decides exactly it.

   Tier S (no arithmetic at all).  Main results:
     check_lref_iff   : check_lref p lr = true  <->  Resolves p lr
     check_sound      : check_program p = true -> forall lr, In lr (refs p) -> Resolves p lr
     check_complete   : (forall lr, In lr (refs p) -> Resolves p lr) -> check_program p = true
     check_sound_w    : check_program_w ws p = true -> every reference resolves or is excused by a waiver
     failing_refs_spec: In lr (failing_refs p) <-> In lr (refs p) /\ ~ Resolves p lr
     failing_idx_nil  : failing_idx p = [] <-> check_program p = true *)
From Coq Require Import List String Bool Arith ZArith Lia.
From Knee Require Import Model.Linking.
Import ListNotations.
Local Open Scope string_scope.

(* ---------------------------------------------------------------- declarative lookups *)

(* the FIRST entry for x in an association list (Python: the binding that is found) *)
Inductive FirstBinding {A : Type} (x : string) : list (string * A) -> A -> Prop :=
  | FB_here : forall v l, FirstBinding x ((x, v) :: l) v
  | FB_later : forall y w l v, y <> x -> FirstBinding x l v -> FirstBinding x ((y, w) :: l) v.

Definition Unbound {A : Type} (x : string) (l : list (string * A)) : Prop := ~ In x (map fst l).

(* LEGB, L and E: the innermost scope of the chain that binds x *)
Inductive LookupChain (x : string) : list (list binding) -> ekind -> Prop :=
  | LC_here : forall l ch k, FirstBinding x l k -> LookupChain x (l :: ch) k
  | LC_outer : forall l ch k, Unbound x l -> LookupChain x ch k -> LookupChain x (l :: ch) k.

(* LEGB *)
Inductive LookupName (p : program) (m : module) (s : scope) (x : string) : ekind -> Prop :=
  | LN_scope : forall k, LookupChain x (sc_chain s) k -> LookupName p m s x k
  | LN_global : forall k, Forall (Unbound x) (sc_chain s) -> FirstBinding x (m_globals m) k -> LookupName p m s x k
  | LN_builtin : Forall (Unbound x) (sc_chain s) -> Unbound x (m_globals m) -> In x (p_builtins p) ->
                 LookupName p m s x EOpaque.

Inductive LookupBases (tbls : list (string * table)) (a : string) : list string -> ekind -> Prop :=
  | LB_here : forall b bs tb k, FirstBinding b tbls tb -> FirstBinding a (t_own tb) k -> LookupBases tbls a (b :: bs) k
  | LB_later : forall b bs tb k, FirstBinding b tbls tb -> Unbound a (t_own tb) -> LookupBases tbls a bs k ->
               LookupBases tbls a (b :: bs) k.

Inductive LookupAttr (tbls : list (string * table)) (key a : string) : ekind -> Prop :=
  | LA_own : forall t k, FirstBinding key tbls t -> FirstBinding a (t_own t) k -> LookupAttr tbls key a k
  | LA_base : forall t k, FirstBinding key tbls t -> Unbound a (t_own t) -> LookupBases tbls a (t_bases t) k ->
              LookupAttr tbls key a k.

(* following root.a1.a2...: through static tables every attribute must exist; the attributes of run-time
   values and of functions are not decided statically *)
Inductive Walk (tbls : list (string * table)) : ekind -> list string -> ekind -> Prop :=
  | W_nil : forall k, Walk tbls k [] k
  | W_static : forall key a rest k' k'', LookupAttr tbls key a k' -> Walk tbls k' rest k'' ->
               Walk tbls (EStatic key) (a :: rest) k''
  | W_opaque : forall a rest, Walk tbls EOpaque (a :: rest) EOpaque
  | W_func : forall sg a rest, Walk tbls (EFunc sg) (a :: rest) EOpaque.

(* ---------------------------------------------------------------- declarative arity *)

Definition FirstIndex (x : string) (l : list string) (i : nat) : Prop :=
  nth_error l i = Some x /\ forall j, j < i -> nth_error l j <> Some x.

(* a keyword argument is accepted: it names a positional-or-keyword parameter not already filled by position
   (a positional-only name can only go to **kwargs), or a keyword-only parameter, or there is **kwargs *)
Definition KwAccepted (sg : fsig) (npos : nat) (kw : string) : Prop :=
  (exists i, FirstIndex kw (map fst (fs_pos sg)) i /\
             ((i < fs_posonly sg /\ fs_varkw sg = true) \/ (fs_posonly sg <= i /\ npos <= i)))
  \/ (~ In kw (map fst (fs_pos sg)) /\ (In kw (map fst (fs_kwonly sg)) \/ fs_varkw sg = true)).

Record ArityOK (sg : fsig) (npos : nat) (kws : list string) : Prop := {
  ao_count : npos <= List.length (fs_pos sg) \/ fs_vararg sg = true;       (* not too many positional arguments *)
  ao_nodup : NoDup kws;
  ao_kw : forall kw, In kw kws -> KwAccepted sg npos kw;                   (* no unexpected / doubly bound keyword *)
  ao_pos : forall i n d, nth_error (fs_pos sg) i = Some (n, d) ->          (* no missing positional parameter *)
           d = true \/ i < npos \/ (fs_posonly sg <= i /\ In n kws);
  ao_kwonly : forall n d, In (n, d) (fs_kwonly sg) -> d = true \/ In n kws (* no missing keyword-only parameter *)
}.

(* ---------------------------------------------------------------- Resolves *)

Inductive Resolves (p : program) : lref -> Prop :=
  | R_name : forall m s ln x k, LookupName p m s x k -> Resolves p (m, s, ln, RName x)
  | R_attr : forall m s ln root chain k k',
      LookupName p m s root k -> Walk (tables p) k chain k' -> Resolves p (m, s, ln, RAttr root chain)
  | R_call_dyn : forall m s ln root chain npos kws star dstar k k',
      LookupName p m s root k -> Walk (tables p) k chain k' -> (forall sg, k' <> EFunc sg) ->
      Resolves p (m, s, ln, RCall root chain npos kws star dstar)
  | R_call_fun : forall m s ln root chain npos kws star dstar k sg,
      LookupName p m s root k -> Walk (tables p) k chain (EFunc sg) ->
      (star = true \/ dstar = true \/ ArityOK sg npos kws) ->
      Resolves p (m, s, ln, RCall root chain npos kws star dstar)
  | R_import : forall m s ln key t, FirstBinding key (tables p) t -> Resolves p (m, s, ln, RImport key)
  | R_from : forall m s ln key name k, LookupAttr (tables p) key name k -> Resolves p (m, s, ln, RFrom key name).

Definition Waived (ws : list waiver) (p : program) (lr : lref) : Prop :=
  exists wm wsn wd, In (wm, wsn, wd) ws /\
    wm = m_name (fst (fst (fst lr))) /\ wsn = sc_name (snd (fst (fst lr))) /\ wd = diagnose_lref p lr /\ wd <> 0.

(* ---------------------------------------------------------------- reflection lemmas *)

Lemma assoc_Some : forall (A : Type) x (l : list (string * A)) v, assoc x l = Some v <-> FirstBinding x l v.
Proof.
  intros A x l v. induction l as [|[y w] l IH]; simpl.
  - split; [discriminate | inversion 1].
  - destruct (String.eqb y x) eqn:E.
    + apply String.eqb_eq in E. subst y. split.
      * intros H. injection H as <-. constructor.
      * intros H. inversion H; subst; [reflexivity | congruence].
    + apply String.eqb_neq in E. rewrite IH. split.
      * intros H. constructor; assumption.
      * intros H. inversion H; subst; [congruence | assumption].
Qed.

Lemma assoc_None : forall (A : Type) x (l : list (string * A)), assoc x l = None <-> Unbound x l.
Proof.
  intros A x l. unfold Unbound. induction l as [|[y w] l IH]; simpl.
  - split; [intros _ H; exact H | reflexivity].
  - destruct (String.eqb y x) eqn:E.
    + apply String.eqb_eq in E. subst y. split; [discriminate | intros H; exfalso; apply H; left; reflexivity].
    + apply String.eqb_neq in E. rewrite IH. split.
      * intros H [H1|H1]; [congruence | exact (H H1)].
      * intros H H1. apply H. right. exact H1.
Qed.

Lemma FirstBinding_fun : forall (A : Type) x (l : list (string * A)) v w,
  FirstBinding x l v -> FirstBinding x l w -> v = w.
Proof. intros A x l v w H1 H2. apply assoc_Some in H1. apply assoc_Some in H2. congruence. Qed.

Lemma FirstBinding_bound : forall (A : Type) x (l : list (string * A)) v, FirstBinding x l v -> ~ Unbound x l.
Proof. intros A x l v H U. apply assoc_Some in H. apply assoc_None in U. congruence. Qed.

Lemma mem_In : forall x l, mem x l = true <-> In x l.
Proof.
  intros x l. induction l as [|y l IH]; simpl.
  - split; [discriminate | intros []].
  - rewrite orb_true_iff, IH, String.eqb_eq. reflexivity.
Qed.

Lemma mem_not_In : forall x l, mem x l = false <-> ~ In x l.
Proof. intros x l. rewrite <- mem_In. destruct (mem x l); split; congruence. Qed.

Ltac fb_unify :=
  repeat match goal with
  | H1 : FirstBinding ?x ?l ?v, H2 : FirstBinding ?x ?l ?w |- _ =>
      tryif constr_eq v w then fail
      else (let E := fresh "E" in assert (E : v = w) by exact (FirstBinding_fun _ x l v w H1 H2);
            first [subst w | subst v | (injection E as E; subst) | rewrite E in *]; clear H2)
  end.
Ltac fb_contra :=
  exfalso;
  match goal with
  | H1 : FirstBinding ?x ?l ?v, H2 : Unbound ?x ?l |- _ => exact (FirstBinding_bound _ x l v H1 H2)
  end.

Lemma lookup_chain_Some : forall x ch k, lookup_chain x ch = Some k <-> LookupChain x ch k.
Proof.
  intros x ch k. induction ch as [|l ch IH]; simpl.
  - split; [discriminate | inversion 1].
  - destruct (assoc x l) as [k0|] eqn:E.
    + apply assoc_Some in E. split.
      * intros H. injection H as <-. constructor. exact E.
      * intros H. inversion H; subst.
        -- fb_unify. reflexivity.
        -- fb_contra.
    + apply assoc_None in E. rewrite IH. split.
      * intros H. apply LC_outer; assumption.
      * intros H. inversion H; subst; [fb_contra | assumption].
Qed.

Lemma lookup_chain_None : forall x ch, lookup_chain x ch = None <-> Forall (Unbound x) ch.
Proof.
  intros x ch. induction ch as [|l ch IH]; simpl.
  - split; [constructor | reflexivity].
  - destruct (assoc x l) as [k0|] eqn:E.
    + apply assoc_Some in E. split; [discriminate|].
      intros H. inversion H; subst. fb_contra.
    + apply assoc_None in E. rewrite IH. split.
      * intros H. constructor; assumption.
      * intros H. inversion H; assumption.
Qed.

Lemma LookupChain_bound : forall x ch k, LookupChain x ch k -> ~ Forall (Unbound x) ch.
Proof. intros x ch k H F. apply lookup_chain_Some in H. apply lookup_chain_None in F. congruence. Qed.

Lemma lookup_name_Some : forall p m s x k, lookup_name p m s x = Some k <-> LookupName p m s x k.
Proof.
  intros p m s x k. unfold lookup_name.
  destruct (lookup_chain x (sc_chain s)) as [k0|] eqn:E.
  - apply lookup_chain_Some in E. split.
    + intros H. injection H as <-. apply LN_scope. exact E.
    + intros H. inversion H; subst.
      * f_equal. apply lookup_chain_Some in E. apply lookup_chain_Some in H0. congruence.
      * exfalso. eapply LookupChain_bound; eassumption.
      * exfalso. eapply LookupChain_bound; eassumption.
  - apply lookup_chain_None in E.
    destruct (assoc x (m_globals m)) as [k1|] eqn:G.
    + apply assoc_Some in G. split.
      * intros H. injection H as <-. apply LN_global; assumption.
      * intros H. inversion H; subst.
        -- exfalso. eapply LookupChain_bound; eassumption.
        -- fb_unify. reflexivity.
        -- fb_contra.
    + apply assoc_None in G.
      destruct (mem x (p_builtins p)) eqn:B.
      * apply mem_In in B. split.
        -- intros H. injection H as <-. apply LN_builtin; assumption.
        -- intros H. inversion H; subst.
           ++ exfalso. eapply LookupChain_bound; eassumption.
           ++ fb_contra.
           ++ reflexivity.
      * apply mem_not_In in B. split; [discriminate|].
        intros H. inversion H; subst.
        -- exfalso. eapply LookupChain_bound; eassumption.
        -- fb_contra.
        -- contradiction.
Qed.

Lemma lookup_bases_Some : forall tbls bases a k, lookup_bases tbls bases a = Some k <-> LookupBases tbls a bases k.
Proof.
  intros tbls bases a k. induction bases as [|b bs IH]; simpl.
  - split; [discriminate | inversion 1].
  - destruct (assoc b tbls) as [tb|] eqn:T.
    + apply assoc_Some in T.
      destruct (assoc a (t_own tb)) as [k0|] eqn:E.
      * apply assoc_Some in E. split.
        -- intros H. injection H as <-. eapply LB_here; eassumption.
        -- intros H. inversion H; subst.
           ++ fb_unify.
              fb_unify. reflexivity.
           ++ fb_unify.
              fb_contra.
      * apply assoc_None in E. rewrite IH. split.
        -- intros H. eapply LB_later; eassumption.
        -- intros H. inversion H; subst.
           ++ fb_unify.
              fb_contra.
           ++ assumption.
    + apply assoc_None in T. split; [discriminate|].
      intros H. inversion H; subst; fb_contra.
Qed.

Lemma lookup_attr_Some : forall tbls key a k, lookup_attr tbls key a = Some k <-> LookupAttr tbls key a k.
Proof.
  intros tbls key a k. unfold lookup_attr.
  destruct (assoc key tbls) as [t|] eqn:T.
  - apply assoc_Some in T.
    destruct (assoc a (t_own t)) as [k0|] eqn:E.
    + apply assoc_Some in E. split.
      * intros H. injection H as <-. eapply LA_own; eassumption.
      * intros H. inversion H; subst.
        -- fb_unify.
           fb_unify. reflexivity.
        -- fb_unify.
           fb_contra.
    + apply assoc_None in E. rewrite lookup_bases_Some. split.
      * intros H. eapply LA_base; eassumption.
      * intros H. inversion H; subst.
        -- fb_unify.
           fb_contra.
        -- fb_unify. assumption.
  - apply assoc_None in T. split; [discriminate|].
    intros H. inversion H; subst; fb_contra.
Qed.

Lemma LookupAttr_fun : forall tbls key a k1 k2, LookupAttr tbls key a k1 -> LookupAttr tbls key a k2 -> k1 = k2.
Proof. intros tbls key a k1 k2 H1 H2. apply lookup_attr_Some in H1. apply lookup_attr_Some in H2. congruence. Qed.

Lemma walk_Some : forall tbls chain k k', walk tbls k chain = Some k' <-> Walk tbls k chain k'.
Proof.
  intros tbls chain. induction chain as [|a rest IH]; intros k k'; simpl.
  - split.
    + intros H. injection H as <-. constructor.
    + intros H. inversion H; subst. reflexivity.
  - destruct k as [|key|sg].
    + split.
      * intros H. injection H as <-. constructor.
      * intros H. inversion H; subst. reflexivity.
    + destruct (lookup_attr tbls key a) as [k1|] eqn:E.
      * apply lookup_attr_Some in E. rewrite IH. split.
        -- intros H. eapply W_static; eassumption.
        -- intros H. inversion H; subst.
           assert (k'0 = k1) by (eapply LookupAttr_fun; eassumption). subst k'0. assumption.
      * split; [discriminate|].
        intros H. inversion H; subst. apply lookup_attr_Some in H3. congruence.
    + split.
      * intros H. injection H as <-. constructor.
      * intros H. inversion H; subst. reflexivity.
Qed.

Lemma LookupName_fun : forall p m s x k1 k2, LookupName p m s x k1 -> LookupName p m s x k2 -> k1 = k2.
Proof. intros p m s x k1 k2 H1 H2. apply lookup_name_Some in H1. apply lookup_name_Some in H2. congruence. Qed.

Lemma Walk_fun : forall tbls k chain k1 k2, Walk tbls k chain k1 -> Walk tbls k chain k2 -> k1 = k2.
Proof. intros tbls k chain k1 k2 H1 H2. apply walk_Some in H1. apply walk_Some in H2. congruence. Qed.

(* ---------------------------------------------------------------- arity reflection *)

Lemma index_of_Some : forall x l i, index_of x l = Some i <-> FirstIndex x l i.
Proof.
  intros x l. unfold FirstIndex. induction l as [|y l IH]; intros i; simpl.
  - split; [discriminate|]. intros [H _]. destruct i; discriminate.
  - destruct (String.eqb y x) eqn:E.
    + apply String.eqb_eq in E. subst y. split.
      * intros H. injection H as <-. split; [reflexivity | intros j Hj; lia].
      * intros [H1 H2]. destruct i; [reflexivity|]. exfalso. apply (H2 0); [lia | reflexivity].
    + apply String.eqb_neq in E. destruct (index_of x l) as [i0|] eqn:I; simpl.
      * split.
        -- intros H. injection H as <-. destruct (proj1 (IH i0) eq_refl) as [H1 H2]. split; [exact H1|].
           intros [|j] Hj; simpl; [congruence | apply H2; lia].
        -- intros [H1 H2]. destruct i as [|i]; simpl in H1; [congruence|].
           f_equal. assert (Some i0 = Some i) as Hi; [|congruence].
           apply IH. split; [exact H1|]. intros j Hj. apply (H2 (S j)). lia.
      * split; [discriminate|]. intros [H1 H2]. destruct i as [|i]; simpl in H1; [congruence|].
        assert (None = Some i) as Hi; [|discriminate].
        apply IH. split; [exact H1|]. intros j Hj. apply (H2 (S j)). lia.
Qed.

Lemma index_of_None : forall x l, index_of x l = None <-> ~ In x l.
Proof.
  intros x l. induction l as [|y l IH]; simpl.
  - split; [intros _ [] | reflexivity].
  - destruct (String.eqb y x) eqn:E.
    + apply String.eqb_eq in E. split; [discriminate | intros H; exfalso; apply H; left; exact E].
    + apply String.eqb_neq in E. destruct (index_of x l); simpl.
      * split; [discriminate|]. intros H. exfalso. apply H. right.
        destruct (in_dec string_dec x l) as [Hin|Hn]; [exact Hin|]. apply IH in Hn. discriminate.
      * split; [|reflexivity]. intros _ [H|H]; [congruence|]. apply (proj1 IH eq_refl). exact H.
Qed.

Lemma FirstIndex_In : forall x l i, FirstIndex x l i -> In x l.
Proof. intros x l i [H _]. eapply nth_error_In. exact H. Qed.

Lemma nodupb_NoDup : forall l, nodupb l = true <-> NoDup l.
Proof.
  induction l as [|x l IH]; simpl.
  - split; [constructor | reflexivity].
  - rewrite andb_true_iff, negb_true_iff, mem_not_In, IH. split.
    + intros [H1 H2]. constructor; assumption.
    + intros H. inversion H; subst. split; assumption.
Qed.

Lemma kw_accepted_iff : forall sg npos kw, kw_accepted sg npos kw = true <-> KwAccepted sg npos kw.
Proof.
  intros sg npos kw. unfold kw_accepted, KwAccepted.
  destruct (index_of kw (map fst (fs_pos sg))) as [i|] eqn:I.
  - apply index_of_Some in I. destruct (Nat.ltb i (fs_posonly sg)) eqn:L.
    + apply Nat.ltb_lt in L. split.
      * intros H. left. exists i. split; [exact I|]. left. split; assumption.
      * intros [[j [Hj [[_ Hv]|[Hp _]]]]|[Hn _]].
        -- exact Hv.
        -- assert (Some j = Some i) as Hji by (rewrite <- (proj2 (index_of_Some _ _ _) Hj), <- (proj2 (index_of_Some _ _ _) I); reflexivity).
           injection Hji as ->. lia.
        -- exfalso. apply Hn. eapply FirstIndex_In. exact I.
    + apply Nat.ltb_ge in L. rewrite Nat.leb_le. split.
      * intros H. left. exists i. split; [exact I|]. right. split; assumption.
      * intros [[j [Hj Hc]]|[Hn _]].
        -- assert (Some j = Some i) as Hji by (rewrite <- (proj2 (index_of_Some _ _ _) Hj), <- (proj2 (index_of_Some _ _ _) I); reflexivity).
           injection Hji as ->. destruct Hc as [[Hlt _]|[_ Hle]]; [lia | exact Hle].
        -- exfalso. apply Hn. eapply FirstIndex_In. exact I.
  - apply index_of_None in I. rewrite orb_true_iff, mem_In. split.
    + intros H. right. split; assumption.
    + intros [[j [Hj _]]|[_ H]]; [|exact H]. exfalso. apply I. eapply FirstIndex_In. exact Hj.
Qed.

Lemma pos_supplied_iff : forall ps i npos posonly kws,
  pos_supplied i npos posonly kws ps = true <->
  (forall j n d, nth_error ps j = Some (n, d) -> d = true \/ i + j < npos \/ (posonly <= i + j /\ In n kws)).
Proof.
  induction ps as [|[n0 d0] ps IH]; intros i npos posonly kws; simpl.
  - split; [intros _ j n d H; destruct j; discriminate | reflexivity].
  - rewrite andb_true_iff, IH, !orb_true_iff, andb_true_iff, Nat.ltb_lt, Nat.leb_le, mem_In. split.
    + intros [H0 H1] j n d Hj. destruct j as [|j]; simpl in Hj.
      * injection Hj as <- <-. rewrite Nat.add_0_r. tauto.
      * specialize (H1 j n d Hj). replace (i + S j) with (S i + j) by lia. exact H1.
    + intros H. split.
      * specialize (H 0 n0 d0 eq_refl). rewrite Nat.add_0_r in H. tauto.
      * intros j n d Hj. specialize (H (S j) n d Hj). replace (S i + j) with (i + S j) by lia. exact H.
Qed.

Lemma arity_ok_iff : forall sg npos kws, arity_ok sg npos kws = true <-> ArityOK sg npos kws.
Proof.
  intros sg npos kws. unfold arity_ok.
  rewrite !andb_true_iff, orb_true_iff, Nat.leb_le, nodupb_NoDup, pos_supplied_iff, !forallb_forall.
  split.
  - intros [[[[H1 H2] H3] H4] H5]. constructor.
    + exact H1.
    + exact H2.
    + intros kw Hk. apply kw_accepted_iff. apply H3. exact Hk.
    + intros i n d Hn. apply (H4 i n d Hn).
    + intros n d Hin. specialize (H5 (n, d) Hin). simpl in H5. rewrite orb_true_iff, mem_In in H5. exact H5.
  - intros [H1 H2 H3 H4 H5]. repeat split.
    + exact H1.
    + exact H2.
    + intros kw Hk. apply kw_accepted_iff. apply H3. exact Hk.
    + intros j n d Hn. apply (H4 j n d Hn).
    + intros [n d] Hin. simpl. rewrite orb_true_iff, mem_In. apply (H5 n d Hin).
Qed.

(* ---------------------------------------------------------------- the checker decides Resolves *)

Lemma is_some_true : forall (A : Type) (o : option A), is_some o = true <-> exists v, o = Some v.
Proof. intros A [v|]; simpl; split; intros H; try discriminate; eauto. destruct H; discriminate. Qed.

Ltac to_fun :=
  repeat match goal with
  | H : LookupName _ _ _ _ _ |- _ => apply lookup_name_Some in H
  | H : Walk _ _ _ _ |- _ => apply walk_Some in H
  | H : LookupAttr _ _ _ _ |- _ => apply lookup_attr_Some in H
  | H : FirstBinding _ _ _ |- _ => apply assoc_Some in H
  end.

Theorem check_lref_iff : forall p lr, check_lref p lr = true <-> Resolves p lr.
Proof.
  intros p [[[m s] ln] r]. unfold check_lref, diagnose_lref. rewrite Nat.eqb_eq.
  destruct r as [x|root chain|root chain npos kws star dstar|key|key name]; simpl.
  - (* RName *)
    destruct (lookup_name p m s x) as [k|] eqn:L; simpl.
    + split; [|reflexivity]. intros _. eapply R_name. apply lookup_name_Some. exact L.
    + split; [discriminate|]. intros H. inversion H; subst. to_fun. congruence.
  - (* RAttr *)
    destruct (lookup_name p m s root) as [k|] eqn:L.
    + destruct (walk (tables p) k chain) as [k'|] eqn:W; simpl.
      * split; [|reflexivity]. intros _. eapply R_attr; [apply lookup_name_Some; exact L | apply walk_Some; exact W].
      * split; [discriminate|]. intros H. inversion H; subst. to_fun. congruence.
    + split; [discriminate|]. intros H. inversion H; subst. to_fun. congruence.
  - (* RCall *)
    destruct (lookup_name p m s root) as [k|] eqn:L.
    + destruct (walk (tables p) k chain) as [k'|] eqn:W.
      * pose proof (proj1 (lookup_name_Some _ _ _ _ _) L) as L'.
        pose proof (proj1 (walk_Some _ _ _ _) W) as W'.
        destruct k' as [|key|sg].
        -- split; [|reflexivity]. intros _. eapply R_call_dyn; [exact L' | exact W' | intros sg; discriminate].
        -- split; [|reflexivity]. intros _. eapply R_call_dyn; [exact L' | exact W' | intros sg; discriminate].
        -- destruct (star || dstar || arity_ok sg npos kws) eqn:A.
           ++ split; [|reflexivity]. intros _. eapply R_call_fun; [exact L' | exact W' |].
              rewrite !orb_true_iff in A. destruct A as [[A|A]|A]; [left; exact A | right; left; exact A |].
              right; right. apply arity_ok_iff. exact A.
           ++ split; [discriminate|]. intros H. exfalso. clear L' W'.
              rewrite !orb_false_iff in A. destruct A as [[A1 A2] A3].
              inversion H; subst.
              ** match goal with Hn : forall sg', _ <> EFunc sg' |- _ => apply (Hn sg) end.
                 to_fun. congruence.
              ** match goal with Hd : _ \/ _ \/ ArityOK ?sg0 _ _ |- _ =>
                   assert (sg0 = sg) by (to_fun; congruence); subst sg0;
                   destruct Hd as [Hc|[Hc|Hc]]; [congruence | congruence | apply arity_ok_iff in Hc; congruence]
                 end.
      * split; [discriminate|]. intros H. exfalso. inversion H; subst; to_fun; congruence.
    + split; [discriminate|]. intros H. exfalso. inversion H; subst; to_fun; congruence.
  - (* RImport *)
    destruct (assoc key (tables p)) as [t|] eqn:T; simpl.
    + split; [|reflexivity]. intros _. eapply R_import. apply assoc_Some. exact T.
    + split; [discriminate|]. intros H. inversion H; subst. to_fun. congruence.
  - (* RFrom *)
    destruct (assoc key (tables p)) as [t|] eqn:T.
    + destruct (lookup_attr (tables p) key name) as [k|] eqn:A; simpl.
      * split; [|reflexivity]. intros _. eapply R_from. apply lookup_attr_Some. exact A.
      * split; [discriminate|]. intros H. inversion H; subst. to_fun. congruence.
    + split; [discriminate|]. intros H. exfalso. inversion H; subst. to_fun.
      match goal with Ha : lookup_attr _ _ _ = Some _ |- _ => unfold lookup_attr in Ha; rewrite T in Ha; discriminate end.
Qed.

(* soundness: the statement DESIGN.md 4/C20 asks for *)
Theorem check_sound : forall p, check_program p = true -> forall lr, In lr (refs p) -> Resolves p lr.
Proof.
  intros p H lr Hin. unfold check_program in H. rewrite forallb_forall in H.
  apply check_lref_iff. apply H. exact Hin.
Qed.

Theorem check_complete : forall p, (forall lr, In lr (refs p) -> Resolves p lr) -> check_program p = true.
Proof.
  intros p H. unfold check_program. apply forallb_forall. intros lr Hin. apply check_lref_iff. apply H. exact Hin.
Qed.

(* with the excused open findings: every reference resolves or is one of the named (module, scope, diagnosis) *)
Theorem check_sound_w : forall ws p, check_program_w ws p = true ->
  forall lr, In lr (refs p) -> Resolves p lr \/ Waived ws p lr.
Proof.
  intros ws p H lr Hin. unfold check_program_w in H. rewrite forallb_forall in H.
  specialize (H lr Hin). unfold check_lref_w in H.
  destruct (check_lref p lr) eqn:C.
  - left. apply check_lref_iff. exact C.
  - right. simpl in H. apply existsb_exists in H. destruct H as [[[wm wsn] wd] [Hw Hm]].
    unfold waiver_matches in Hm. destruct lr as [[[m s] ln] r].
    rewrite !andb_true_iff, !String.eqb_eq, Nat.eqb_eq in Hm. destruct Hm as [[H1 H2] H3].
    exists wm, wsn, wd. simpl. repeat split; try assumption.
    intros Hz. unfold check_lref in C. rewrite <- H3, Hz in C. discriminate.
Qed.

Theorem check_w_nil : forall p, check_program_w [] p = check_program p.
Proof.
  intros p. unfold check_program_w, check_program. induction (refs p) as [|lr l IH]; simpl; [reflexivity|].
  rewrite IH. unfold check_lref_w. simpl. rewrite orb_false_r. reflexivity.
Qed.

(* the replay is exact: a reference is reported iff it stands in the program and does not resolve *)
Theorem failing_refs_spec : forall p lr, In lr (failing_refs p) <-> In lr (refs p) /\ ~ Resolves p lr.
Proof.
  intros p lr. unfold failing_refs. rewrite filter_In, negb_true_iff. split.
  - intros [H1 H2]. split; [exact H1|]. intros R. apply check_lref_iff in R. congruence.
  - intros [H1 H2]. split; [exact H1|]. destruct (check_lref p lr) eqn:C; [|reflexivity].
    exfalso. apply H2. apply check_lref_iff. exact C.
Qed.

Theorem failing_refs_nil : forall p, failing_refs p = [] <-> check_program p = true.
Proof.
  intros p. unfold failing_refs, check_program. induction (refs p) as [|lr l IH]; simpl.
  - split; reflexivity.
  - destruct (check_lref p lr); simpl.
    + exact IH.
    + split; discriminate.
Qed.

Lemma filter_enumerate_nil : forall (A : Type) (f : A -> bool) (l : list A) i,
  filter (fun ilr => negb (f (snd ilr))) (enumerate_from i l) = [] <-> forallb f l = true.
Proof.
  intros A f l. induction l as [|x l IH]; intros i; simpl.
  - split; reflexivity.
  - destruct (f x); simpl.
    + apply IH.
    + split; discriminate.
Qed.

(* what the harness reads back: an empty list of failing positions iff the program checks *)
Theorem failing_idx_nil : forall p, failing_idx p = [] <-> check_program p = true.
Proof.
  intros p. unfold failing_idx, check_program.
  rewrite <- (filter_enumerate_nil _ (check_lref p) (refs p) 0).
  destruct (filter _ _); simpl; split; intros H; try reflexivity; discriminate.
Qed.

(* ---------------------------------------------------------------- dynamic part: what the judge's predicate says *)

Lemma zlist_eqb_eq : forall a b, zlist_eqb a b = true <-> a = b.
Proof.
  induction a as [|x a IH]; intros [|y b]; simpl; try (split; [discriminate | discriminate]); try (split; reflexivity).
  rewrite andb_true_iff, Z.eqb_eq, IH. split.
  - intros [-> ->]. reflexivity.
  - intros H. injection H as -> ->. split; reflexivity.
Qed.

Lemma dyn_first_bad_spec : forall r0 runs,
  dyn_first_bad r0 runs = 0 <->
  Forall (fun tur => snd (fst tur) = true /\ link_exc (snd tur) = false /\ snd tur = r0) runs.
Proof.
  intros r0 runs. induction runs as [|[[t u] r] runs IH]; simpl.
  - split; [constructor | reflexivity].
  - destruct u; simpl.
    + destruct (link_exc r) eqn:L.
      * split; [intros H; lia|]. intros H. apply Forall_inv in H. simpl in H. destruct H as [_ [Hl _]]. congruence.
      * destruct (zlist_eqb r r0) eqn:E; simpl.
        -- apply zlist_eqb_eq in E. subst r. rewrite IH. split.
           ++ intros H. constructor; [repeat split; try reflexivity; exact L | exact H].
           ++ intros H. inversion H; assumption.
        -- split.
           ++ destruct (Nat.eqb t 0) eqn:T; [discriminate|]. apply Nat.eqb_neq in T. intros H. lia.
           ++ intros H. apply Forall_inv in H. simpl in H. destruct H as [_ [_ Hr]]. subst r.
              assert (zlist_eqb r0 r0 = true) by (apply zlist_eqb_eq; reflexivity). congruence.
    + split; [intros H; lia|]. intros H. apply Forall_inv in H. simpl in H. destruct H as [Hu _]. discriminate.
Qed.

(* the dynamic judge accepts a case iff no call changed an argument or a default, no call raised a linking-kind
   exception, AND every re-presentation / re-execution produced the bit-identical result encoding of the base call *)
Theorem dyn_holds_spec : forall t0 u0 r0 rest,
  dyn_holds ((t0, u0, r0) :: rest) = 0 <->
  Forall (fun tur => snd (fst tur) = true /\ link_exc (snd tur) = false /\ snd tur = r0) ((t0, u0, r0) :: rest).
Proof. intros t0 u0 r0 rest. unfold dyn_holds. apply dyn_first_bad_spec. Qed.

(* ---------------------------------------------------------------- positions: what the harness reads back *)

Lemma enumerate_nth : forall (A : Type) (l : list A) k i x,
  In (i, x) (enumerate_from k l) -> k <= i /\ nth_error l (i - k) = Some x.
Proof.
  intros A l. induction l as [|y l IH]; simpl; intros k i x H; [contradiction|].
  destruct H as [H|H].
  - injection H as <- <-. split; [lia|]. rewrite Nat.sub_diag. reflexivity.
  - apply IH in H. destruct H as [H1 H2]. split; [lia|].
    replace (i - k) with (S (i - S k)) by lia. exact H2.
Qed.

Lemma enumerate_In : forall (A : Type) (l : list A) k x, In x l -> exists i, In (i, x) (enumerate_from k l).
Proof.
  intros A l. induction l as [|y l IH]; simpl; intros k x H; [contradiction|].
  destruct H as [<-|H].
  - exists k. left. reflexivity.
  - destruct (IH (S k) x H) as [i Hi]. exists i. right. exact Hi.
Qed.

Definition lref_line (lr : lref) : nat := snd (fst lr).

(* every triple printed by `failing_idx` is the position, the source line and the diagnosis of a reference of the
   program that does not resolve ... *)
Theorem failing_idx_sound : forall p i ln d, In (i, ln, d) (failing_idx p) ->
  exists lr, nth_error (refs p) i = Some lr /\ ~ Resolves p lr /\ ln = lref_line lr /\ d = diagnose_lref p lr.
Proof.
  intros p i ln d H. unfold failing_idx in H. apply in_map_iff in H.
  destruct H as [[j lr] [E H]]. apply filter_In in H. destruct H as [H1 H2]. simpl in H2.
  apply enumerate_nth in H1. destruct H1 as [_ H1]. rewrite Nat.sub_0_r in H1.
  destruct lr as [[[m s] ln'] r]. injection E as <- <- <-.
  exists (m, s, ln', r). repeat split; try reflexivity; try assumption.
  intros R. apply check_lref_iff in R. rewrite R in H2. discriminate.
Qed.

(* ... and every such reference is printed *)
Theorem failing_idx_complete : forall p lr, In lr (refs p) -> ~ Resolves p lr ->
  exists i, In (i, lref_line lr, diagnose_lref p lr) (failing_idx p) /\ nth_error (refs p) i = Some lr.
Proof.
  intros p lr Hin Hn. destruct (enumerate_In _ (refs p) 0 lr Hin) as [i Hi].
  exists i. split.
  - unfold failing_idx. apply in_map_iff. exists (i, lr). split.
    + destruct lr as [[[m s] ln] r]. reflexivity.
    + apply filter_In. split; [exact Hi|]. simpl. apply negb_true_iff.
      destruct (check_lref p lr) eqn:C; [|reflexivity]. exfalso. apply Hn. apply check_lref_iff. exact C.
  - apply enumerate_nth in Hi. destruct Hi as [_ Hi]. rewrite Nat.sub_0_r in Hi. exact Hi.
Qed.
