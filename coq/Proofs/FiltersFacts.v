(* Proofs/FiltersFacts.v — C13: the worst-knee filter is the greedy running-minimum subsequence and is idempotent;
   the corner filter and selector are complementary order-preserving filters decided by the knee's own curve neighbours. *)
From Coq Require Import List Arith Bool Lia.
From Knee Require Import Num NpList OrdLaws Model.Filters.
Import ListNotations.
Local Open Scope num_scope.

(* ------------------------------------------------------------------------------------------ *)
(* list helpers *)

Lemma sublistb_tl_consr : forall l,
  (forall b s, sublistb (b :: s) l = true -> sublistb s l = true) /\
  (forall s a, sublistb s l = true -> sublistb s (a :: l) = true).
Proof.
  induction l as [|x l [IHt IHc]].
  - split.
    + intros b s H. cbn in H. discriminate.
    + intros s a H. destruct s; [reflexivity|cbn in H; discriminate].
  - assert (Ht : forall b s, sublistb (b :: s) (x :: l) = true -> sublistb s (x :: l) = true).
    { intros b s H. cbn [sublistb] in H. destruct (b =? x).
      - now apply IHc.
      - apply IHc. now apply IHt with b. }
    split; [exact Ht|].
    intros s a H. destruct s as [|b s]; [reflexivity|].
    cbn [sublistb]. destruct (b =? a); [|exact H]. now apply Ht with b.
Qed.
Lemma sublistb_consr s l a : sublistb s l = true -> sublistb s (a :: l) = true.
Proof. apply sublistb_tl_consr. Qed.

Lemma sublistb_filter (f : nat -> bool) : forall l, sublistb (filter f l) l = true.
Proof.
  induction l as [|a l IH]; [reflexivity|].
  cbn [filter]. destruct (f a).
  - cbn [sublistb]. now rewrite Nat.eqb_refl.
  - now apply sublistb_consr.
Qed.

Lemma filter_idem {A} (f : A -> bool) : forall l, filter f (filter f l) = filter f l.
Proof.
  induction l as [|a l IH]; [reflexivity|].
  cbn [filter]. destruct (f a) eqn:E; [|exact IH]. cbn [filter]. now rewrite E, IH.
Qed.

Lemma filter_ext_in' {A} (f g : A -> bool) : forall l, (forall a, In a l -> f a = g a) -> filter f l = filter g l.
Proof.
  induction l as [|a l IH]; intros H; [reflexivity|].
  cbn [filter]. rewrite (H a (or_introl eq_refl)). rewrite IH; [reflexivity|].
  intros b Hb. apply H. now right.
Qed.

Lemma memb_filter (f : nat -> bool) k : forall l, memb k (filter f l) = memb k l && f k.
Proof.
  unfold memb. induction l as [|a l IH]; [reflexivity|].
  cbn [filter existsb]. destruct (k =? a) eqn:E.
  - apply Nat.eqb_eq in E. subst a. destruct (f k) eqn:Ef.
    + cbn [existsb]. now rewrite Nat.eqb_refl.
    + rewrite IH. now rewrite !andb_false_r.
  - destruct (f a); cbn [existsb orb]; rewrite ?E; exact IH.
Qed.
Lemma memb_In k l : In k l -> memb k l = true.
Proof. intros H. unfold memb. apply existsb_exists. exists k. split; [exact H|apply Nat.eqb_refl]. Qed.

(* ------------------------------------------------------------------------------------------ *)
Section Worst.
  Context {N : Num}.
  Variable h : nat -> T N.

  (* the loop, started with the running minimum at the height of the most recently kept knee, extends the
     right-to-left specification *)
  Lemma worst_go_spec : forall r X m kept,
    running_min_rev h X = m :: kept ->
    rev (running_min_rev h (rev r ++ X)) = rev (m :: kept) ++ worst_go h (h m) r.
  Proof.
    induction r as [|k r IH]; intros X m kept HX.
    - cbn [rev app worst_go]. rewrite HX. now rewrite app_nil_r.
    - cbn [rev worst_go]. rewrite <- app_assoc. cbn [app].
      assert (Hk : running_min_rev h (k :: X) = if h k <=?! h m then k :: m :: kept else m :: kept).
      { cbn [running_min_rev]. now rewrite HX. }
      destruct (h k <=?! h m).
      + rewrite (IH (k :: X) k (m :: kept) Hk). cbn [rev]. now rewrite <- app_assoc.
      + now rewrite (IH (k :: X) m kept Hk).
  Qed.

  (* Tier S: the loop = the declarative greedy running-minimum subsequence *)
  Theorem worst_is_running_min : forall ks, filter_worst_h h ks = running_min_spec h ks.
  Proof.
    intros [|k0 r]; [reflexivity|].
    unfold running_min_spec. cbn [filter_worst_h rev].
    now rewrite (worst_go_spec r [k0] k0 [] eq_refl).
  Qed.

  Lemma filter_worst_nil ks : filter_worst_h h ks = [] -> ks = [].
  Proof. destruct ks; [reflexivity|discriminate]. Qed.

  (* Tier S, the same read forwards: the first knee is kept; a further knee is kept iff its height is <= the height
     of the most recently kept knee (the lowest kept so far) *)
  Theorem worst_snoc : forall pre k,
    filter_worst_h h (pre ++ [k]) =
      match filter_worst_h h pre with
      | [] => [k]
      | kept => if h k <=?! h (last kept k) then kept ++ [k] else kept
      end.
  Proof.
    intros pre k. rewrite !worst_is_running_min. unfold running_min_spec.
    rewrite rev_app_distr. cbn [rev app running_min_rev].
    destruct (running_min_rev h (rev pre)) as [|m kept] eqn:E; [reflexivity|].
    assert (Hl : last (rev (m :: kept)) k = m) by (cbn [rev]; apply last_last).
    assert (Hr : rev (k :: m :: kept) = rev (m :: kept) ++ [k]) by reflexivity.
    destruct (rev (m :: kept)) as [|a l] eqn:E2.
    - cbn [rev] in E2. destruct (rev kept); discriminate.
    - rewrite Hl. destruct (h k <=?! h m); [exact Hr|exact E2].
  Qed.

  (* consecutive kept knees are related by the comparison the loop made *)
  Fixpoint desc (m : nat) (l : list nat) : Prop :=
    match l with
    | [] => True
    | k :: r => (h k <=?! h m) = true /\ desc k r
    end.
  Lemma worst_go_desc : forall r m, desc m (worst_go h (h m) r).
  Proof.
    induction r as [|k r IH]; intros m; cbn [worst_go]; [exact I|].
    destruct (h k <=?! h m) eqn:E; [|apply IH]. split; [exact E|apply IH].
  Qed.
  Lemma worst_go_fix : forall l m, desc m l -> worst_go h (h m) l = l.
  Proof.
    induction l as [|k r IH]; intros m H; [reflexivity|].
    destruct H as [H1 H2]. cbn [worst_go]. rewrite H1. f_equal. now apply IH.
  Qed.

  (* Tier S (no order law is needed: the second pass repeats exactly the comparisons that succeeded in the first) *)
  Theorem worst_idempotent : forall ks, filter_worst_h h (filter_worst_h h ks) = filter_worst_h h ks.
  Proof.
    intros [|k0 r]; [reflexivity|]. cbn [filter_worst_h]. f_equal.
    apply worst_go_fix, worst_go_desc.
  Qed.

  Theorem worst_sublist : forall ks, sublistb (filter_worst_h h ks) ks = true /\ hd_error (filter_worst_h h ks) = hd_error ks.
  Proof.
    intros [|k0 r]; [split; reflexivity|]. split; [|reflexivity].
    cbn [filter_worst_h sublistb]. rewrite Nat.eqb_refl.
    generalize (h k0). induction r as [|k r IH]; intros hm; [reflexivity|].
    cbn [worst_go]. destruct (h k <=?! hm).
    - cbn [sublistb]. rewrite Nat.eqb_refl. apply IH.
    - apply sublistb_consr, IH.
  Qed.

  (* Tier O: with a total preorder on the heights, "<= the lowest kept so far" = "<= every earlier knee" *)
  Section Order.
    Variable P : T N -> Prop.
    Hypothesis HO : TotalPreorderOn P.

    Lemma prefix_min_go_worst : forall r seen m,
      In m seen -> (forall j, In j seen -> (h m <=?! h j) = true) ->
      (forall j, In j seen \/ In j r -> P (h j)) ->
      prefix_min_go h seen r = worst_go h (h m) r.
    Proof.
      induction r as [|k r IH]; intros seen m Hin Hmin HP; [reflexivity|].
      cbn [prefix_min_go worst_go].
      assert (Pk : P (h k)) by (apply HP; right; now left).
      assert (Pm : P (h m)) by (apply HP; now left).
      destruct (h k <=?! h m) eqn:E.
      - assert (Hall : forallb (fun j => h k <=?! h j) seen = true).
        { apply forallb_forall. intros j Hj.
          apply (ord_trans P HO (h k) (h m) (h j)); auto. }
        rewrite Hall. f_equal. apply IH.
        + apply in_or_app. right. now left.
        + intros j Hj. apply in_app_or in Hj. destruct Hj as [Hj|[<-|[]]].
          * rewrite forallb_forall in Hall. now apply Hall.
          * now apply (ord_refl P HO).
        + intros j [Hj|Hj]; apply HP; [|right; now right].
          apply in_app_or in Hj. destruct Hj as [Hj|[<-|[]]]; [now left|right; now left].
      - assert (Hall : forallb (fun j => h k <=?! h j) seen = false).
        { apply not_true_is_false. intros Hc. rewrite forallb_forall in Hc. rewrite (Hc m Hin) in E. discriminate. }
        rewrite Hall. apply IH.
        + apply in_or_app. now left.
        + intros j Hj. apply in_app_or in Hj. destruct Hj as [Hj|[<-|[]]]; [now apply Hmin|].
          destruct (ord_total P HO (h k) (h m) Pk Pm) as [Hc|Hc]; [congruence|exact Hc].
        + intros j [Hj|Hj]; apply HP; [|right; now right].
          apply in_app_or in Hj. destruct Hj as [Hj|[<-|[]]]; [now left|right; now left].
    Qed.

    Theorem worst_is_prefix_min : forall ks,
      (forall k, In k ks -> P (h k)) -> filter_worst_h h ks = prefix_min_spec h ks.
    Proof.
      intros [|k0 r] HP; [reflexivity|].
      unfold prefix_min_spec. cbn [filter_worst_h prefix_min_go forallb app]. f_equal.
      symmetry. apply prefix_min_go_worst.
      - now left.
      - intros j [<-|[]]. apply (ord_refl P HO). apply HP. now left.
      - intros j [[<-|[]]|Hj]; apply HP; [now left|now right].
    Qed.
  End Order.
End Worst.

(* ------------------------------------------------------------------------------------------ *)
Section Corner.
  Context {N : Num}.
  Variable pts : list (@point N).
  Variable t : T N.

  (* Tier S: both are order-preserving sublists; membership is decided per knee, by the comparisons the code makes,
     from the knee's own neighbours in the curve *)
  Theorem corner_sublists : forall ks,
    sublistb (filter_corner pts ks t) ks = true /\ sublistb (select_corner pts ks t) ks = true.
  Proof. intros ks. split; apply sublistb_filter. Qed.

  Theorem corner_membership : forall ks k,
    (In k (filter_corner pts ks t) <->
       In k ks /\ (has_nb (length pts) k = false \/ (corner_iou pts k <?! t) = true)) /\
    (In k (select_corner pts ks t) <->
       In k ks /\ has_nb (length pts) k = true /\ (t <=?! corner_iou pts k) = true).
  Proof.
    intros ks k. unfold filter_corner, select_corner. rewrite !filter_In.
    unfold corner_keepb, corner_selectb. destruct (has_nb (length pts) k); intuition congruence.
  Qed.

  (* Tier S: the per-call rule, as the boolean predicate that judges each call of a multi-call sequence *)
  Theorem corner_call_rules : forall ks,
    filter_rule_holdsb pts ks t (filter_corner pts ks t) = true /\
    select_rule_holdsb pts ks t (select_corner pts ks t) = true.
  Proof.
    intros ks. unfold filter_rule_holdsb, select_rule_holdsb, filter_corner, select_corner.
    rewrite !sublistb_filter. cbn [andb].
    split; apply forallb_forall; intros k Hk; rewrite memb_filter, (memb_In k ks Hk); cbn [andb]; apply eqb_reflx.
  Qed.

  (* Tier S: idempotent, because the decision depends on the knee and the curve only, never on the other knees *)
  Theorem corner_idempotent : forall ks,
    filter_corner pts (filter_corner pts ks t) t = filter_corner pts ks t /\
    select_corner pts (select_corner pts ks t) t = select_corner pts ks t.
  Proof. intros ks. split; apply filter_idem. Qed.

  (* Tier O on the compared values (IoU and t not NaN): `p < t` and `p >= t` are complementary, so the two functions
     partition the knee list; stated with the boolean predicate that also judges the implementation *)
  Theorem corner_partition : forall ks,
    (forall k, In k ks -> has_nb (length pts) k = true ->
       (corner_iou pts k <?! t) = negb (t <=?! corner_iou pts k)) ->
    corner_holdsb pts ks t (filter_corner pts ks t) (select_corner pts ks t) = true.
  Proof.
    intros ks Hord. unfold corner_holdsb.
    destruct (corner_sublists ks) as [-> ->]. cbn [andb].
    apply forallb_forall. intros k Hk. unfold corner_rule_at, filter_corner, select_corner.
    rewrite !memb_filter, (memb_In k ks Hk). cbn [andb].
    unfold corner_keepb, corner_selectb.
    destruct (has_nb (length pts) k) eqn:Hnb; [|reflexivity].
    rewrite (Hord k Hk Hnb). destruct (t <=?! corner_iou pts k); reflexivity.
  Qed.

  (* the same as complementary filters of one list *)
  Theorem corner_complement : forall ks,
    (forall k, In k ks -> has_nb (length pts) k = true ->
       (corner_iou pts k <?! t) = negb (t <=?! corner_iou pts k)) ->
    select_corner pts ks t = filter (fun k => negb (corner_keepb pts t k)) ks.
  Proof.
    intros ks Hord. unfold select_corner. apply filter_ext_in'. intros k Hk.
    unfold corner_keepb, corner_selectb. destruct (has_nb (length pts) k) eqn:Hnb; [|reflexivity].
    rewrite (Hord k Hk Hnb). now rewrite negb_involutive.
  Qed.
End Corner.

(* ------------------------------------------------------------------------------------------ *)
(* binary64 instances of the Tier O hypotheses *)
From Coq Require Import PrimFloat.
From Knee Require Import NumFloat FloatOrder.

Theorem corner_partition_float : forall (pts : list (float * float)) (t : float) ks,
  f_isnan t = false ->
  (forall k, In k ks -> has_nb (length pts) k = true -> f_isnan (@corner_iou FloatNum pts k) = false) ->
  @corner_holdsb FloatNum pts ks t (@filter_corner FloatNum pts ks t) (@select_corner FloatNum pts ks t) = true.
Proof.
  intros pts t ks Ht Hi. apply (@corner_partition FloatNum). intros k Hk Hnb.
  apply (ord_ltb _ float_total_preorder); [apply Hi; assumption|exact Ht].
Qed.

Theorem worst_is_prefix_min_float : forall (pts : list (float * float)) ks,
  (forall k, In k ks -> f_isnan (@height FloatNum pts k) = false) ->
  @filter_worst FloatNum pts ks = @prefix_min_spec FloatNum (@height FloatNum pts) ks.
Proof.
  intros pts ks H. apply (@worst_is_prefix_min FloatNum _ _ float_total_preorder). exact H.
Qed.
