(* Proofs/C01Facts.v — C01 glue: what the judged predicate C01_code means, and the link between the fuel of the
   fixed-size / global RDP models (Model/RdpFixed.v, owned by the fixed-size topic) and their iteration counts. *)
From Coq Require Import List Arith Bool Lia Permutation.
From Knee Require Import Num NpList Model.Mapping Model.Rdp Model.RdpFixed
  Proofs.ListFacts Proofs.MappingFacts Proofs.SegFacts.
Import ListNotations.

(* the boolean predicate the C01 judge evaluates is exactly: well-formed reduced list, removed table = the table the
   reduced list determines, retained + dropped = n, at most `acts` loop activations of at most `bound` iterations *)
Theorem C01_code_iff n bound acts red rem iters :
  C01_code n bound acts (Some (red, rem)) iters = 0 <->
  WF n red /\ rem = rows red /\ length red + dropped rem = n /\ length iters <= acts /\ Forall (fun k => k <= bound) iters.
Proof.
  unfold C01_code. rewrite <- WFb_iff.
  destruct (WFb n red); cbn [negb]; [|split; [discriminate|intros (H & _); discriminate]].
  destruct (rows_eqb rem (rows red)) eqn:E; cbn [negb].
  2:{ split; [discriminate|]. intros (_ & -> & _). rewrite rows_eqb_refl in E. discriminate. }
  apply rows_eqb_eq in E. subst rem.
  destruct (length red + dropped (rows red) =? n) eqn:E2; cbn [negb].
  2:{ split; [discriminate|]. intros (_ & _ & H & _). apply Nat.eqb_neq in E2. contradiction. }
  apply Nat.eqb_eq in E2.
  destruct ((length iters <=? acts) && forallb (fun k => k <=? bound) iters) eqn:E3; cbn [negb].
  - apply andb_true_iff in E3. destruct E3 as [E3 E4]. apply Nat.leb_le in E3. rewrite forallb_forall in E4.
    split; [intros _|reflexivity]. split; [reflexivity|]. split; [reflexivity|]. split; [assumption|]. split; [assumption|].
    apply Forall_forall. intros k Hk. apply Nat.leb_le. auto.
  - split; [discriminate|]. intros (_ & _ & _ & H1 & H2). exfalso.
    apply andb_false_iff in E3. destruct E3 as [E3|E3].
    + apply Nat.leb_gt in E3. lia.
    + assert (forallb (fun k => k <=? bound) iters = true); [|congruence].
      apply forallb_forall. rewrite Forall_forall in H2. intros k Hk. apply Nat.leb_le. auto.
Qed.

(* a well-formed reduction with its own table passes, for any iteration record within the bounds *)
Corollary C01_code_WF n bound acts red iters : 1 <= n -> WF n red ->
  length iters <= acts -> Forall (fun k => k <= bound) iters ->
  C01_code n bound acts (Some (red, rows red)) iters = 0.
Proof.
  intros Hn HW H1 H2. apply C01_code_iff.
  split; [exact HW|]. split; [reflexivity|]. split; [|split; assumption].
  destruct (rows_account n red HW Hn) as [H _]. exact H.
Qed.

(* ---- fuel = iterations + 1 in the fixed-size / global models: one unit of fuel per evaluation of the loop
        condition, one retained index per iteration.  So "returns Some with fuel n" (the *_total theorems of
        Proofs/RdpFixedFacts.v) says: every loop activation performs at most n - 1 iterations. ---- *)
Lemma sort_nat_length l : length (sort_nat l) = length l.
Proof. symmetry. apply Permutation_length, sort_nat_perm. Qed.

Section Fuel.
  Context {N : Num}.
  Variable eps : T N.
  Variable dist : nat -> nat -> list (T N).
  Variable prio : nat -> nat -> T N.
  Variable gcost : list nat -> T N.

  (* _rdp_fixed: the number of iterations is the growth of the retained list, and is below the fuel *)
  Lemma rdp_fixed_loop_iters : forall fuel len stack reduced out,
    _rdp_fixed eps dist prio fuel len stack reduced = Some out ->
    length reduced <= length out < length reduced + fuel.
  Proof.
    induction fuel as [|f IH]; intros len stack reduced out H; cbn [_rdp_fixed] in H; [discriminate|].
    destruct ((0 <? len) && nonempty stack).
    - destruct (body eps dist prio stack) as [[g st']|]; [|discriminate].
      apply IH in H. rewrite app_length in H. cbn [length] in H. lia.
    - inversion H; subst. rewrite sort_nat_length. lia.
  Qed.
  Lemma grdp_loop_iters is_r2 t : forall fuel cv stack reduced red st,
    _grdp_loop eps dist prio gcost is_r2 t fuel cv stack reduced = Some (red, st) ->
    length reduced <= length red < length reduced + fuel.
  Proof.
    induction fuel as [|f IH]; intros cv stack reduced red st H; cbn [_grdp_loop] in H; [discriminate|].
    destruct (cv && nonempty stack).
    - destruct (body eps dist prio stack) as [[g st']|]; [|discriminate].
      apply IH in H. rewrite sort_nat_length, app_length in H. cbn [length] in H. lia.
    - inversion H; subst. lia.
  Qed.
End Fuel.
