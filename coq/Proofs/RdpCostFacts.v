(* Proofs/RdpCostFacts.v — the C01 / C04 theorems instantiated with the DERIVED segment cost (Model/RdpCost.v): the
   theorems of RdpFacts.v hold for every `segcost`, in particular for the end-point-fit + metric composite computed from
   the points themselves.  These are the statements the correspondence run evaluates for smape / rpd / rmspe / R2. *)
From Coq Require Import List Arith Bool.
From Knee Require Import Num NpList Model.Mapping Model.Metrics Model.LinearFit Model.Rdp Model.RdpCost
  Proofs.ListFacts Proofs.MappingFacts Proofs.SegFacts Proofs.RdpFacts Proofs.RdpUnique.
Import ListNotations.

Section Derived.
  Context {N : Num}.
  Variable P : list (@pt N).
  Variable eps : T N.
  Variable rmsle_cost : nat -> nat -> T N.
  Variable dist : nat -> nat -> list (T N).
  Variable m : metric.
  Variable t : T N.
  Variable n : nat.
  Local Notation r2 := (metric_is_r2 m).
  Local Notation segcost := (derived_cost P eps rmsle_cost m).
  Hypothesis Hdom : curved r2 t (trivial_cost r2) = false.
  Hypothesis Hshape : forall l r, l + 3 <= r -> r <= n -> length (dist l r) = r - l.
  Hypothesis Hn : 2 <= n.

  Theorem rdp_C04_code_derived : C04_code dist segcost r2 t n (without_iters (rdp dist segcost r2 t n)) = 0.
  Proof. exact (rdp_C04_code dist segcost r2 t n Hdom Hshape Hn). Qed.

  Theorem rdp_C01_code_derived :
    match rdp dist segcost r2 t n with
    | Some (red, rem, vis) => C01_code n (2 * n - 3) 1 (Some (red, rem)) [length vis] = 0
    | None => False
    end.
  Proof. exact (rdp_C01_code dist segcost r2 t n Hdom Hshape Hn). Qed.

  (* clause 1 spelled out: the end-point-line cost of every retained segment with interior points, computed from the
     points, is on the accepting side of t *)
  Theorem rdp_kept_fit_derived : forall red rem vis, rdp dist segcost r2 t n = Some (red, rem, vis) ->
    forall a b, In (a, b) (pairs red) -> 2 <= b - a ->
    curved r2 t (derived_cost P eps rmsle_cost m a (b + 1)) = false.
  Proof. exact (rdp_kept_fit dist segcost r2 t n Hdom Hshape Hn). Qed.

  Theorem C04_code_unique_derived : forall red rem, C04_code dist segcost r2 t n (Some (red, rem)) = 0 ->
    exists vis, rdp dist segcost r2 t n = Some (red, rem, vis).
  Proof. exact (C04_code_unique dist segcost r2 t n Hdom Hshape Hn). Qed.
End Derived.

(* what derived_cost is, per metric (definitional unfoldings, for the reader of the statements above) *)
Lemma derived_cost_smape {N : Num} (P : list (@pt N)) eps rc l r :
  derived_cost P eps rc MSmape l r =
  smape (ys (slice P l r)) (linear_transform (xs (slice P l r)) (linear_fit (xs (slice P l r)) (ys (slice P l r)))) eps.
Proof. reflexivity. Qed.
Lemma derived_cost_r2 {N : Num} (P : list (@pt N)) eps rc l r :
  derived_cost P eps rc MR2 l r =
  linear_r2 (xs (slice P l r)) (ys (slice P l r)) (linear_fit (xs (slice P l r)) (ys (slice P l r))) R2classic.
Proof. reflexivity. Qed.
