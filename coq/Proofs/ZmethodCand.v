(* Proofs/ZmethodCand.v — what the candidate outliers of one round satisfy (Tier S: every Num).
   Two candidate outliers of the same round come from groups that are separated by a gap the code tested
   (`diff >= x_width`), and each is a row of the current candidates. *)
From Coq Require Import ZArith List Bool Arith Lia Permutation Sorted.
From Knee Require Import Num NpList Model.Zmethod Proofs.ZmethodLists.
Import ListNotations.
Local Open Scope num_scope.

Lemma Forall2_In_r {A B} (S : A -> B -> Prop) l r : Forall2 S l r -> forall b, In b r -> exists a, In a l /\ S a b.
Proof.
  induction 1 as [|a b l r Hab HF IH]; intros c Hc; [destruct Hc|].
  destruct Hc as [<-|Hc]; [exists a; cbn; auto|].
  destruct (IH c Hc) as [a' [Ha' Hs]]. exists a'; cbn; auto.
Qed.

Section Cand.
  Context {N : Num}.
  Variable w : T N.

  (* the test of py:224 at position g of the candidate list cs *)
  Definition gap_at (cs : list row) (g : nat) : Prop :=
    S g < length cs /\ (w <=?! (xat cs (S g) -! xat cs g)) = true.

  (* xa lies at or left of candidate g1, xb is a candidate right of candidate g2 >= g1, and the code found a gap at g2 *)
  Definition GapAt (cs : list row) (xa xb : T N) : Prop :=
    exists g1 g2 k, g1 <= g2 /\ gap_at cs g2 /\ k < length cs /\
      (xa <=?! xat cs g1) = true /\ (xat cs g2 <?! xb) = true /\ xat cs k = xb.

  Lemma gaps_go_spec cs : forall i g, In g (gaps_go w i cs) -> i <= g /\ gap_at cs (g - i).
  Proof.
    induction cs as [|a cs IH]; intros i g H; [destruct H|].
    destruct cs as [|b cs']; [destruct H|].
    assert (Hrec : In g (gaps_go w (S i) (b :: cs')) -> i <= g /\ gap_at (a :: b :: cs') (g - i)).
    { intros Hr. destruct (IH _ _ Hr) as [Hle [Hlen Ht]]. split; [lia|].
      replace (g - i) with (S (g - S i)) by lia. split; [cbn [length] in *; lia|].
      unfold xat in *. cbn [nth]. exact Ht. }
    cbn [gaps_go] in H.
    destruct (w <=?! (rx b -! rx a)) eqn:E; [|auto].
    destruct H as [<-|H]; [|auto].
    split; [lia|]. rewrite Nat.sub_diag. split; [cbn; lia|]. unfold xat; cbn [nth]. exact E.
  Qed.
  Lemma gaps_go_sorted cs : forall i, StronglySorted lt (gaps_go w i cs).
  Proof.
    induction cs as [|a cs IH]; intros i; [constructor|].
    destruct cs as [|b cs']; [constructor|].
    cbn [gaps_go]. destruct (w <=?! (rx b -! rx a)); [|apply IH].
    constructor; [apply IH|]. rewrite Forall_forall. intros g Hg. apply (gaps_go_spec (b :: cs') (S i) g) in Hg. lia.
  Qed.
  Lemma sorted_snoc gs e : StronglySorted lt gs -> (forall g, In g gs -> g <= e) -> StronglySorted le (gs ++ [e]).
  Proof.
    induction 1 as [|g gs Hs IH Hg]; intros He; cbn.
    - constructor; constructor.
    - constructor; [apply IH; intros; apply He; cbn; auto|].
      apply Forall_app; split.
      + eapply Forall_impl; [|exact Hg]. cbn; intros; lia.
      + constructor; [apply He; cbn; auto|constructor].
  Qed.

  Lemma pairs_from_spec gs : forall lo e, StronglySorted le (lo :: gs ++ [e]) ->
    ForallOrdPairs (fun p q : nat * nat => snd p <= fst q /\ In (fst q) gs) (pairs_from lo (gs ++ [e]))
    /\ forall q, In q (pairs_from lo (gs ++ [e])) -> fst q = lo \/ In (fst q) gs.
  Proof.
    induction gs as [|g gs IH]; intros lo e HS; cbn [app pairs_from].
    - split; [constructor; constructor|]. intros q [<-|[]]; auto.
    - inversion HS as [|? ? HS' Hlo]; subst.
      destruct (IH g e HS') as [IH1 IH2]. split.
      + constructor.
        * rewrite Forall_forall. intros q Hq. cbn [fst snd]. destruct (IH2 q Hq) as [->|Hin].
          -- split; [lia|cbn; auto].
          -- split; [|cbn; auto]. inversion HS' as [|? ? _ Hg]; subst.
             rewrite Forall_forall in Hg. apply Hg. apply in_or_app; auto.
        * eapply FOP_impl; [|exact IH1]. cbn. intros p q [H1 H2]; auto.
      + intros q [<-|Hq]; [cbn; auto|]. destruct (IH2 q Hq) as [->|Hin]; cbn; auto.
  Qed.

  Lemma flag_first_FOP {A} (Q : A -> A -> Prop) l :
    ForallOrdPairs Q l -> ForallOrdPairs (fun fp fq : bool * A => fst fq = false /\ Q (snd fp) (snd fq)) (flag_first l).
  Proof.
    intros H; inversion H as [|a l' Ha Hl]; subst; cbn [flag_first]; constructor.
    - rewrite Forall_forall in *. intros fq Hq. apply in_map_iff in Hq. destruct Hq as [b [<- Hb]]. cbn. auto.
    - apply FOP_map. eapply FOP_impl; [|exact Hl]. cbn. auto.
  Qed.

  Lemma rx_xy (a b : @row N) : xy a = xy b -> rx a = rx b.
  Proof. unfold rx, xy. intros ->; reflexivity. Qed.
  Lemma ry_xy (a b : @row N) : xy a = xy b -> ry a = ry b.
  Proof. unfold ry, xy. intros ->; reflexivity. Qed.

  Lemma group_best_spec (cs : list (@row N)) fp co : group_best cs fp = Some co ->
    exists r, In r cs /\ xy co = xy r
      /\ (fst fp = false -> (xat cs (fst (snd fp)) <?! rx r) = true)
      /\ (rx r <=?! xat cs (snd (snd fp))) = true.
  Proof.
    unfold group_best, best_of. destruct (grp cs (fst fp) (snd fp)) as [|r0 g] eqn:E; [discriminate|].
    intros H; inversion H; subst; clear H.
    set (r := nth (argmin (map ry (r0 :: g))) (r0 :: g) row0).
    assert (Hin : In r (r0 :: g)) by (apply nth_argmin_In; congruence).
    rewrite <- E in Hin. unfold grp in Hin. apply filter_In in Hin. destruct Hin as [Hcs Hp].
    apply andb_true_iff in Hp. destruct Hp as [Hlo Hhi].
    exists r. split; [auto|]. split; [reflexivity|]. split; [|exact Hhi].
    intros Hf. rewrite Hf in Hlo. exact Hlo.
  Qed.

  Lemma cand_outliers_spec (cs : list (@row N)) cos : cs <> [] -> cand_outliers w cs = Some cos ->
    (forall c, In c cos -> In (xy c) (map xy cs))
    /\ ForallOrdPairs (fun a b => GapAt cs (rx a) (rx b)) cos.
  Proof.
    intros Hne. unfold cand_outliers. destruct (gaps w cs) as [|g0 gs0] eqn:Eg.
    - intros H; inversion H; subst; clear H. split.
      + intros c [<-|[]]. apply in_map. apply nth_argmin_In; auto.
      + constructor; constructor.
    - set (gs := g0 :: gs0) in *. intros H. apply all_some_Forall2 in H.
      assert (Hgs : forall g, In g gs -> gap_at cs g).
      { intros g Hg. rewrite <- Eg in Hg. unfold gaps in Hg. apply gaps_go_spec in Hg.
        rewrite Nat.sub_0_r in Hg. tauto. }
      assert (HS : StronglySorted le (0 :: gs ++ [length cs - 1])).
      { constructor.
        - apply sorted_snoc; [rewrite <- Eg; apply gaps_go_sorted|].
          intros g Hg. destruct (Hgs g Hg). lia.
        - rewrite Forall_forall. intros; lia. }
      destruct (pairs_from_spec gs 0 _ HS) as [HF _].
      apply flag_first_FOP in HF. split.
      + intros c Hc. destruct (Forall2_In_r _ _ _ H c Hc) as [fp [_ Hb]].
        apply group_best_spec in Hb. destruct Hb as [r [Hr [Hxy _]]]. rewrite Hxy. apply in_map; auto.
      + eapply FOP_Forall2; [|exact H|exact HF]. cbn beta.
        intros fp fq a b [Hfl [Hle Hin]] Ha Hb.
        apply group_best_spec in Ha. destruct Ha as [ra [_ [Hxa [_ Hhi]]]].
        apply group_best_spec in Hb. destruct Hb as [rb [Hrb [Hxb [Hlo _]]]].
        specialize (Hlo Hfl).
        destruct (In_nth _ _ row0 Hrb) as [k [Hk Hnth]].
        exists (snd (snd fp)), (fst (snd fq)), k.
        rewrite (rx_xy _ _ Hxa), (rx_xy _ _ Hxb).
        repeat split; auto; try (apply Hgs; auto).
        unfold xat. rewrite Hnth. reflexivity.
  Qed.
End Cand.
