(* Proofs/HullGrahamFull.v — C18, Tier A: graham_general_position.
   On >= 3 distinct points, no three collinear (real arithmetic), graham_scan returns exactly the extreme vertices of
   the convex hull, in clockwise order, starting at the pivot (graham_gpb).
   Route: the stack scan over the angularly sorted arrangement is the monotone-chain scan of HullGeomD.v with
   "separation" D a b = ccw(pivot, b, a); the pivot sits under the chain and is never popped. *)
From Coq Require Import Reals Lra Psatz List Arith Bool Lia Permutation Sorted.
From Knee Require Import Num NumR NpList Model.Hull Proofs.ListFacts Proofs.HullScan Proofs.HullFacts
  Proofs.HullGeom Proofs.HullGeomD Proofs.HullCorrect Proofs.HullGraham.
Import ListNotations.
Local Open Scope R_scope.

Lemma Rleb_opp x : Rleb (- x) 0 = Rleb 0 x.
Proof.
  destruct (Rle_dec 0 x) as [H|H].
  - assert (Rleb 0 x = true) by (apply Rleb_true; exact H). assert (Rleb (- x) 0 = true) by (apply Rleb_true; lra). congruence.
  - assert (Rleb 0 x = false) by (apply Rleb_false; lra). assert (Rleb (- x) 0 = false) by (apply Rleb_false; lra). congruence.
Qed.
Lemma ND_NoDup_SI l : ND l -> NoDup l -> SI l.
Proof.
  induction l as [|a [|b l'] IH]; intros HN HD; cbn [SI]; auto.
  destruct HN as [Hab HN]. inversion HD as [|? ? Hna HD']; subst. split; [|apply IH; auto].
  assert (a <> b) by (intros ->; apply Hna; left; reflexivity). lia.
Qed.
Lemma nat_list_eqb_refl l : nat_list_eqb l l = true.
Proof. unfold nat_list_eqb. induction l as [|a l IH]; [reflexivity|]. cbn [list_eqb]. rewrite Nat.eqb_refl. exact IH. Qed.

Lemma SS_nth' (R0 : nat -> nat -> Prop) l : StronglySorted R0 l -> forall i j, (i < j < length l)%nat -> R0 (nth i l 0%nat) (nth j l 0%nat).
Proof.
  induction 1 as [|a l HS IH Ha]; intros i j Hij; [cbn in Hij; lia|].
  destruct j as [|j]; [lia|]. destruct i as [|i].
  - cbn [nth]. rewrite Forall_forall in Ha. apply Ha. apply nth_In. cbn in Hij. lia.
  - cbn [nth]. apply IH. cbn in Hij. lia.
Qed.
Lemma length_tl' (l : list nat) : length (tl l) = (length l - 1)%nat.
Proof. destruct l; cbn; lia. Qed.

Lemma NoDup_map_inj {A B} (f : A -> B) l : (forall a b, In a l -> In b l -> f a = f b -> a = b) -> NoDup l -> NoDup (map f l).
Proof.
  induction l as [|a l IH]; intros Hinj Hnd; [constructor|].
  inversion Hnd as [|? ? Hna Hnd']; subst. cbn [map]. constructor.
  - intros Hin. apply in_map_iff in Hin. destruct Hin as (b & Eb & Hb).
    assert (b = a) by (apply Hinj; [right; exact Hb|left; reflexivity|exact Eb]). subst b. contradiction.
  - apply IH; auto. intros x y Hx Hy. apply Hinj; right; assumption.
Qed.
Lemma trip_map (P : nat -> nat -> nat -> Prop) (f : nat -> nat) l : trip P (map f l) <-> trip (fun a b c => P (f a) (f b) (f c)) l.
Proof.
  induction l as [|a [|b [|c l']] IH]; cbn [map trip]; tauto.
Qed.

Lemma mix_signs al be ga u v w :
  al < 0 -> be < 0 -> ga < 0 -> al * u + be * v + ga * w = 0 ->
  (u <> 0 \/ v <> 0) -> (u <> 0 \/ w <> 0) -> (v <> 0 \/ w <> 0) ->
  (u < 0 \/ v < 0 \/ w < 0) /\ (0 < u \/ 0 < v \/ 0 < w).
Proof.
  intros Ha Hb Hg E H1 H2 H3. split.
  - destruct (Rlt_dec u 0); [tauto|]. destruct (Rlt_dec v 0); [tauto|]. destruct (Rlt_dec w 0); [tauto|]. exfalso.
    assert (al * u <= 0) by nra. assert (be * v <= 0) by nra. assert (ga * w <= 0) by nra.
    assert (al * u = 0) by lra. assert (be * v = 0) by lra. assert (ga * w = 0) by lra.
    assert (u = 0) by nra. assert (v = 0) by nra. tauto.
  - destruct (Rlt_dec 0 u); [tauto|]. destruct (Rlt_dec 0 v); [tauto|]. destruct (Rlt_dec 0 w); [tauto|]. exfalso.
    assert (0 <= al * u) by nra. assert (0 <= be * v) by nra. assert (0 <= ga * w) by nra.
    assert (al * u = 0) by lra. assert (be * v = 0) by lra. assert (ga * w = 0) by lra.
    assert (u = 0) by nra. assert (v = 0) by nra. tauto.
Qed.

Section GPfull.
  Variable pts : list (R * R).
  Variable dist : nat -> R.
  Let n := length pts.
  Let P (i : nat) : R * R := nth i pts (0, 0).
  Let cc : nat -> nat -> nat -> R := @ccw_idx RNum pts.
  Hypothesis Hdist : forall i j, (i < n)%nat -> (j < n)%nat -> i <> j -> P i <> P j.
  Hypothesis Hgp : forall i j k, (i < n)%nat -> (j < n)%nat -> (k < n)%nat -> i <> j -> j <> k -> i <> k -> cc i j k <> 0.
  Hypothesis Hn : (3 <= n)%nat.

  Let p0 := @pivot_min RNum pts.
  Variable sp : list nat.
  Hypothesis Esp : sp = @sorted_points RNum cc dist n p0.
  Let m := (n - 1)%nat.
  Definition Q (k : nat) : nat := nth (Datatypes.S k) sp 0%nat.

  Lemma cc_cr i j k : cc i j k = cr (fst (P i)) (snd (P i)) (fst (P j)) (snd (P j)) (fst (P k)) (snd (P k)).
  Proof. reflexivity. Qed.
  Lemma cc_cyc i j k : cc j k i = cc i j k. Proof. rewrite !cc_cr. unfold cr. ring. Qed.
  Lemma cc_sw i j k : cc i k j = - cc i j k. Proof. rewrite !cc_cr. unfold cr. ring. Qed.
  Lemma cc_iji i j : cc i j i = 0. Proof. rewrite !cc_cr. unfold cr. ring. Qed.
  Lemma cc_ijj i j : cc i j j = 0. Proof. rewrite !cc_cr. unfold cr. ring. Qed.
  Lemma cc_iij i j : cc i i j = 0. Proof. rewrite !cc_cr. unfold cr. ring. Qed.

  Lemma sp_facts : hd 0%nat sp = p0 /\ Permutation sp (seq 0 n) /\ StronglySorted (fun i j => cc p0 i j < 0) (tl sp)
    /\ NoDup sp /\ length sp = n.
  Proof.
    pose proof (sorted_clockwise pts dist Hdist Hgp Hn) as H. cbv zeta in H.
    change (@ccw_idx RNum pts) with cc in H. change (length pts) with n in H. change (@pivot_min RNum pts) with p0 in H.
    rewrite <- Esp in H. destruct H as (H1 & H2 & H3). repeat split; auto.
    - eapply Permutation_NoDup; [apply Permutation_sym; exact H2|apply seq_NoDup].
    - rewrite (Permutation_length H2). apply seq_length.
  Qed.
  Lemma p0n : (p0 < n)%nat.
  Proof. apply (@pivot_min_lt RNum pts). change (@length (@pt RNum) pts) with n. lia. Qed.
  Lemma nth0_sp : nth 0 sp 0%nat = p0.
  Proof. destruct sp_facts as (H & _). destruct sp; cbn in *; auto. Qed.
  Lemma Q_lt k : (k < m)%nat -> (Q k < n)%nat.
  Proof.
    intros Hk. destruct sp_facts as (_ & Hp & _ & _ & Hl).
    assert (In (Q k) sp) by (apply nth_In; unfold m in Hk; lia).
    apply (Permutation_in _ Hp) in H. apply in_seq in H. lia.
  Qed.
  Lemma Q_ne_p0 k : (k < m)%nat -> Q k <> p0.
  Proof.
    intros Hk E. destruct sp_facts as (_ & _ & _ & Hnd & Hl).
    rewrite <- nth0_sp in E. unfold Q in E.
    apply (proj1 (NoDup_nth sp 0%nat) Hnd) in E; unfold m in Hk; lia.
  Qed.
  Lemma Q_inj a b : (a < m)%nat -> (b < m)%nat -> Q a = Q b -> a = b.
  Proof.
    intros Ha Hb E. destruct sp_facts as (_ & _ & _ & Hnd & Hl). unfold Q in E.
    apply (proj1 (NoDup_nth sp 0%nat) Hnd) in E; unfold m in *; lia.
  Qed.
  Lemma Q_sorted a b : (a < b < m)%nat -> cc p0 (Q a) (Q b) < 0.
  Proof.
    intros Hab. destruct sp_facts as (_ & _ & HSS & _ & Hl). unfold Q. rewrite !nth_S_tl.
    apply (SS_nth' _ _ HSS). rewrite length_tl'. unfold m in Hab. lia.
  Qed.
  Lemma Q_surj x : (x < n)%nat -> x <> p0 -> exists k, (k < m)%nat /\ Q k = x.
  Proof.
    intros Hx Hne. destruct sp_facts as (_ & Hp & _ & _ & Hl).
    assert (Hin : In x sp) by (apply (Permutation_in _ (Permutation_sym Hp)); apply in_seq; lia).
    apply (In_nth _ _ 0%nat) in Hin. destruct Hin as (q & Hq & Eq).
    destruct q as [|k]; [rewrite nth0_sp in Eq; congruence|].
    exists k. split; [unfold m; lia|exact Eq].
  Qed.

  (* ---- the instance of HullGeomD *)
  Definition ccQ (a b c : nat) : R := - cc (Q a) (Q b) (Q c).
  Definition DQ (a b : nat) : R := cc p0 (Q b) (Q a).
  Lemma DQ_pos i j : (i < j < m)%nat -> 0 < DQ i j.
  Proof. intros H. unfold DQ. rewrite cc_sw. pose proof (Q_sorted i j H). lra. Qed.

  Ltac idQ := intros; unfold ccQ, DQ; rewrite !cc_cr; unfold cr; ring.
  Lemma QI0 i : DQ i i = 0. Proof. idQ. Qed.
  Lemma QIa a b : ccQ a b a = 0. Proof. idQ. Qed.
  Lemma QIb a b : ccQ a b b = 0. Proof. idQ. Qed.
  Lemma QIs a b c : ccQ a c b = - ccQ a b c. Proof. idQ. Qed.
  Lemma QI1 a b i k : ccQ a i k * DQ a b = ccQ a b k * DQ a i + (- ccQ a b i) * DQ a k. Proof. idQ. Qed.
  Lemma QI2 a b i k : ccQ a i k * DQ b i = ccQ b i k * DQ a i + (- ccQ a b i) * DQ k i. Proof. idQ. Qed.
  Lemma QI3 p s t k : ccQ p s k * DQ s t = ccQ s t k * DQ p s + ccQ p s t * DQ s k. Proof. idQ. Qed.
  Lemma QI4 o p s k : ccQ p s k * DQ o p = ccQ o p k * DQ p s + ccQ o p s * DQ k p. Proof. idQ. Qed.
  Lemma QI5a a h s p : ccQ a h s * DQ p h = ccQ p h a * DQ h s + ccQ p h s * DQ a h. Proof. idQ. Qed.
  Lemma QI5b a h s b : ccQ a h b * DQ h s = ccQ h s b * DQ a h + ccQ a h s * DQ h b. Proof. idQ. Qed.

  Definition chainQ : list nat := scan (gtestD ccQ) 2 m.
  Lemma m2 : (2 <= m)%nat. Proof. unfold m. lia. Qed.
  Lemma chainQ_shape : SI chainQ /\ hd 1%nat chainQ = 0%nat /\ last chainQ 0%nat = (m - 1)%nat /\
    Forall (fun y => (y < m)%nat) chainQ /\ (2 <= length chainQ)%nat.
  Proof.
    destruct (scan_shape (gtestD ccQ) 2 ltac:(lia) m m2) as (HS & Hhd & Hlast & HF & _ & Hlen).
    pose proof m2. repeat split; auto. fold chainQ in Hlen. lia.
  Qed.
  Lemma chainQ_covers : gcovers ccQ chainQ.
  Proof. apply (gscan_covers ccQ DQ m DQ_pos QI0 QIa QIb QI1 QI2 m2). Qed.
  Lemma chainQ_convex : gconvex ccQ chainQ.
  Proof. apply (gscan_convex ccQ m m2). Qed.

  (* ---- the stack scan of graham_scan = pivot under the chain scan *)
  Definition TG := @graham_test RNum cc sp.
  Definition TQ := gtestD ccQ.
  Lemma TG_bottom b i : (b < i < m)%nat -> TG 0 (Datatypes.S b) (Datatypes.S i) = false.
  Proof.
    intros H. unfold TG, graham_test. cbn [leb zero RNum]. rewrite nth0_sp. fold (Q b). fold (Q i).
    apply Rleb_false. apply Q_sorted. exact H.
  Qed.
  Lemma TG_TQ a b i : TG (Datatypes.S a) (Datatypes.S b) (Datatypes.S i) = TQ a b i.
  Proof.
    unfold TG, TQ, graham_test, gtestD, ccQ. cbn [leb zero RNum]. fold (Q a). fold (Q b). fold (Q i).
    symmetry. apply Rleb_opp.
  Qed.
  Lemma pop_sim i : (i < m)%nat -> forall st, st <> [] -> Forall (fun y => (y < i)%nat) st ->
    pop_while TG (Datatypes.S i) (map Datatypes.S st ++ [0%nat]) = map Datatypes.S (pop_while TQ i st) ++ [0%nat].
  Proof.
    intros Hi. induction st as [|b st IH]; intros Hne HF; [congruence|].
    inversion HF as [|? ? Hb HF']; subst.
    destruct st as [|a r].
    - cbn [map app pop_while]. rewrite TG_bottom by lia. reflexivity.
    - cbn [map app]. cbn [pop_while]. rewrite TG_TQ. destruct (TQ a b i); [|reflexivity].
      apply (IH ltac:(congruence) HF').
  Qed.
  Lemma fold_sim k : forall i st, st <> [] -> Forall (fun y => (y < i)%nat) st -> (i + k <= m)%nat ->
    fold_left (scan_step TG) (seq (Datatypes.S i) k) (map Datatypes.S st ++ [0%nat])
    = map Datatypes.S (fold_left (scan_step TQ) (seq i k) st) ++ [0%nat].
  Proof.
    induction k as [|k IH]; intros i st Hne HF Hik; [reflexivity|].
    cbn [seq fold_left]. unfold scan_step at 2 4. rewrite pop_sim by (auto; lia).
    change (Datatypes.S i :: map Datatypes.S (pop_while TQ i st) ++ [0%nat])
      with (map Datatypes.S (i :: pop_while TQ i st) ++ [0%nat]).
    apply IH; [congruence| |lia].
    constructor; [lia|]. destruct (pop_suffix TQ i st) as [pre Hpre]. rewrite Hpre in HF. apply Forall_app in HF.
    destruct HF as [_ HF]. eapply Forall_impl; [|exact HF]. cbn. intros; lia.
  Qed.
  Lemma positions_eq : @graham_positions RNum cc sp = 0%nat :: map Datatypes.S chainQ.
  Proof.
    destruct sp_facts as (_ & _ & _ & _ & Hl).
    unfold graham_positions. rewrite Hl. destruct (Nat.ltb_spec n 3) as [H|_]; [lia|].
    unfold chainQ, scan, scan_stack. fold TG. fold TQ.
    replace (n - 3)%nat with (m - 2)%nat by (unfold m; lia).
    change (rev (seq 0 3)) with (map Datatypes.S [1%nat; 0%nat] ++ [0%nat]).
    change (rev (seq 0 2)) with [1%nat; 0%nat].
    rewrite (fold_sim (m - 2) 2 [1%nat; 0%nat]).
    - rewrite rev_app_distr. cbn [rev app]. rewrite map_rev. reflexivity.
    - congruence.
    - repeat constructor.
    - pose proof m2. lia.
  Qed.
  Lemma out_eq : @graham_with RNum cc sp = p0 :: map Q chainQ.
  Proof.
    unfold graham_with. rewrite positions_eq. cbn [map]. rewrite nth0_sp. f_equal. rewrite map_map. reflexivity.
  Qed.

  (* ---- brute-force predicates of Model/Hull.v on reals *)
  Lemma boundaryb_true x j : (j < n)%nat -> j <> x -> (forall i, (i < n)%nat -> cc x j i <= 0) ->
    @boundaryb RNum pts x = true.
  Proof.
    intros Hj Hne H. unfold boundaryb. apply existsb_exists. exists j. split; [apply in_seq; change (@length (@pt RNum) pts) with n; lia|].
    apply andb_true_iff. split; [apply negb_true_iff; apply Nat.eqb_neq; exact Hne|].
    apply orb_true_iff. right. apply forallb_forall. intros i Hi. apply in_seq in Hi.
    unfold nonpos. cbn [leb zero RNum]. apply Rleb_true. apply H. change (@length (@pt RNum) pts) with n in Hi. lia.
  Qed.
  Lemma boundaryb_false x :
    (forall j, (j < n)%nat -> j <> x -> (exists i, (i < n)%nat /\ cc x j i < 0) /\ (exists i, (i < n)%nat /\ 0 < cc x j i)) ->
    @boundaryb RNum pts x = false.
  Proof.
    intros H. destruct (@boundaryb RNum pts x) eqn:E; [exfalso|reflexivity].
    unfold boundaryb in E. apply existsb_exists in E. destruct E as (j & Hj & E).
    apply in_seq in Hj. change (@length (@pt RNum) pts) with n in Hj. apply andb_true_iff in E. destruct E as [E1 E2].
    apply negb_true_iff in E1. apply Nat.eqb_neq in E1.
    destruct (H j ltac:(lia) E1) as [(i1 & Hi1 & Hneg) (i2 & Hi2 & Hpos)].
    apply orb_true_iff in E2. destruct E2 as [E2|E2]; rewrite forallb_forall in E2.
    - specialize (E2 i1 ltac:(apply in_seq; change (@length (@pt RNum) pts) with n; lia)). unfold nonneg in E2. cbn [leb zero RNum] in E2.
      apply Rleb_true in E2. change (@ccw_idx RNum pts x j i1) with (cc x j i1) in E2. lra.
    - specialize (E2 i2 ltac:(apply in_seq; change (@length (@pt RNum) pts) with n; lia)). unfold nonpos in E2. cbn [leb zero RNum] in E2.
      apply Rleb_true in E2. change (@ccw_idx RNum pts x j i2) with (cc x j i2) in E2. lra.
  Qed.
  Lemma betweenb_false x : (x < n)%nat -> @betweenb RNum pts x = false.
  Proof.
    intros Hx. destruct (@betweenb RNum pts x) eqn:E; [exfalso|reflexivity].
    unfold betweenb in E. apply existsb_exists in E. destruct E as (a & Ha & E).
    apply existsb_exists in E. destruct E as (b & Hb & E).
    apply in_seq in Ha. apply in_seq in Hb. change (@length (@pt RNum) pts) with n in Ha, Hb.
    rewrite !andb_true_iff in E. destruct E as [[[Ea Eb] Ec] Ed].
    apply negb_true_iff in Ea. apply Nat.eqb_neq in Ea. apply negb_true_iff in Eb. apply Nat.eqb_neq in Eb.
    cbn [eqb zero RNum] in Ec. apply Reqb_true in Ec. change (@ccw_idx RNum pts a x b) with (cc a x b) in Ec.
    destruct (Nat.eq_dec a b) as [->|Hab].
    - unfold negt, dotk in Ed. cbn [ltb zero add sub mul RNum] in Ed. apply Rltb_true in Ed.
      match type of Ed with ?a * ?a + ?b * ?b < 0 => pose proof (Rle_0_sqr a); pose proof (Rle_0_sqr b) end.
      unfold Rsqr in *. lra.
    - apply (Hgp a x b); auto; lia.
  Qed.

  (* ---- membership: the returned indices are exactly the extreme vertices *)
  Ltac qh := first [exact DQ_pos|exact QI0|exact QIa|exact QIb|exact QIs|exact QI1|exact QI2|exact QI3|exact QI4|exact QI5a|exact QI5b].

  Lemma chain_edge_support l1 c s l2 : chainQ = l1 ++ c :: s :: l2 -> forall k, (k < m)%nat -> cc (Q c) (Q s) (Q k) <= 0.
  Proof.
    intros E k Hk. destruct chainQ_shape as (HS & Hhd & Hlast & _ & _).
    assert (H : 0 <= ccQ c s k).
    { eapply (gchain_support ccQ DQ m); try qh; try exact E; auto using chainQ_covers, chainQ_convex. }
    unfold ccQ in H. lra.
  Qed.

  Lemma in_out_extreme x : In x (p0 :: map Q chainQ) -> @extremeb RNum pts x = true.
  Proof.
    intros Hin. destruct chainQ_shape as (HS & Hhd & Hlast & HF & Hlen). rewrite Forall_forall in HF.
    pose proof m2 as Hm2.
    assert (Hxn : (x < n)%nat).
    { destruct Hin as [<-|Hin]; [apply p0n|]. apply in_map_iff in Hin. destruct Hin as (c & <- & Hc). apply Q_lt. auto. }
    unfold extremeb. rewrite (betweenb_false x Hxn). rewrite andb_true_r.
    destruct Hin as [<-|Hin].
    - (* the pivot: supporting line through the first point of the clockwise order *)
      apply (boundaryb_true p0 (Q 0)); [apply Q_lt; lia|apply Q_ne_p0; lia|].
      intros i Hi. destruct (Nat.eq_dec i p0) as [->|Hne]; [rewrite cc_iji; lra|].
      destruct (Q_surj i Hi Hne) as (k & Hk & <-).
      destruct k as [|k]; [rewrite cc_ijj; lra|]. apply Rlt_le. apply Q_sorted. lia.
    - apply in_map_iff in Hin. destruct Hin as (c & <- & Hc). pose proof (HF c Hc) as Hcm.
      apply in_split in Hc. destruct Hc as (l1 & l2 & E).
      destruct l2 as [|s l2'].
      + (* the last chain vertex: supporting line back to the pivot *)
        rewrite E in Hlast. rewrite last_last in Hlast. subst c.
        apply (boundaryb_true (Q (m - 1)) p0); [apply p0n|intros H; symmetry in H; revert H; apply Q_ne_p0; lia|].
        intros i Hi. destruct (Nat.eq_dec i p0) as [->|Hne]; [rewrite cc_ijj; lra|].
        destruct (Q_surj i Hi Hne) as (k & Hk & <-).
        rewrite <- cc_cyc. destruct (Nat.eq_dec k (m - 1)) as [->|Hk1]; [rewrite cc_ijj; lra|].
        apply Rlt_le. apply Q_sorted. lia.
      + (* an inner chain vertex: the edge to its successor is a supporting line *)
        assert (Hsm : (s < m)%nat) by (apply HF; rewrite E; apply in_or_app; right; right; left; reflexivity).
        assert (Hcs : (c < s)%nat) by (rewrite E in HS; apply SI_pairs in HS; apply pairs_mid in HS; exact HS).
        apply (boundaryb_true (Q c) (Q s)); [apply Q_lt; auto|intros H; apply Q_inj in H; lia|].
        intros i Hi. destruct (Nat.eq_dec i p0) as [->|Hne].
        * rewrite cc_cyc. apply Rlt_le. apply Q_sorted. lia.
        * destruct (Q_surj i Hi Hne) as (k & Hk & <-). apply (chain_edge_support l1 c s l2' E k Hk).
  Qed.

  Lemma not_in_out_not_extreme x : (x < n)%nat -> ~ In x (p0 :: map Q chainQ) -> @extremeb RNum pts x = false.
  Proof.
    intros Hx Hnin. destruct chainQ_shape as (HS & Hhd & Hlast & HF & Hlen). rewrite Forall_forall in HF.
    assert (Hne : x <> p0) by (intros ->; apply Hnin; left; reflexivity).
    destruct (Q_surj x Hx Hne) as (k & Hk & Ek).
    assert (Hkn : ~ In k chainQ).
    { intros Hin. apply Hnin. right. rewrite <- Ek. apply in_map. exact Hin. }
    destruct (SI_gap chainQ k HS ltac:(lia) Hkn) as (l1 & p & s & l2 & E & Hps).
    assert (Hpm : (p < m)%nat) by (apply HF; rewrite E; apply in_or_app; right; left; reflexivity).
    assert (Hsm : (s < m)%nat) by (apply HF; rewrite E; apply in_or_app; right; right; left; reflexivity).
    pose proof chainQ_covers as HC. rewrite E in HC. apply pairs_mid in HC. specialize (HC k ltac:(lia)).
    pose proof (Q_lt p Hpm) as Hpn. pose proof (Q_lt s Hsm) as Hsn.
    assert (Hxp : x <> Q p) by (rewrite <- Ek; intros H; apply Q_inj in H; lia).
    assert (Hxs : x <> Q s) by (rewrite <- Ek; intros H; apply Q_inj in H; lia).
    assert (Hpsne : Q p <> Q s) by (intros H; apply Q_inj in H; lia).
    assert (Hp0 : Q p <> p0) by (apply Q_ne_p0; auto). assert (Hs0 : Q s <> p0) by (apply Q_ne_p0; auto).
    assert (Hal : cc (Q p) (Q s) x < 0).
    { unfold ccQ in HC. rewrite Ek in HC. assert (cc (Q p) (Q s) x <> 0) by (apply Hgp; auto). lra. }
    assert (Hbe : cc p0 x (Q s) < 0) by (rewrite <- Ek; apply Q_sorted; lia).
    assert (Hga : cc p0 (Q p) x < 0) by (rewrite <- Ek; apply Q_sorted; lia).
    unfold extremeb. apply andb_false_iff. left. apply boundaryb_false. intros j Hj Hjx.
    assert (Eid : cc (Q p) (Q s) x * cc x j p0 + cc p0 x (Q s) * cc x j (Q p) + cc p0 (Q p) x * cc x j (Q s) = 0).
    { rewrite !cc_cr. unfold cr. ring. }
    assert (Hnz : forall i, (i < n)%nat -> i <> x -> i <> j -> cc x j i <> 0).
    { intros i Hi Hix Hij. apply Hgp; auto. }
    destruct (mix_signs _ _ _ _ _ _ Hal Hbe Hga Eid) as [Hneg Hpos].
    - destruct (Nat.eq_dec j p0) as [->|Hj0]; [right; apply Hnz; auto|left; apply Hnz; auto using p0n].
    - destruct (Nat.eq_dec j p0) as [->|Hj0]; [right; apply Hnz; auto|left; apply Hnz; auto using p0n].
    - destruct (Nat.eq_dec j (Q p)) as [->|Hjp]; [right; apply Hnz; auto|left; apply Hnz; auto].
    - split.
      + destruct Hneg as [H|[H|H]]; [exists p0|exists (Q p)|exists (Q s)]; auto using p0n.
      + destruct Hpos as [H|[H|H]]; [exists p0|exists (Q p)|exists (Q s)]; auto using p0n.
  Qed.

  (* ---- the general-position predicate of the property *)
  Let out := p0 :: map Q chainQ.
  Lemma out_NoDup : NoDup out.
  Proof.
    destruct chainQ_shape as (HS & _ & _ & HF & _). rewrite Forall_forall in HF. unfold out. constructor.
    - intros Hin. apply in_map_iff in Hin. destruct Hin as (c & Ec & Hc). revert Ec. apply Q_ne_p0. auto.
    - apply NoDup_map_inj; [|apply SI_NoDup; exact HS]. intros a b Ha Hb. apply Q_inj; auto.
  Qed.
  Lemma out_vertices : sort_nat out = filter (@extremeb RNum pts) (seq 0 n).
  Proof.
    apply SI_perm_eq.
    - apply ND_NoDup_SI; [apply sort_nat_ND|]. eapply Permutation_NoDup; [apply sort_nat_perm|apply out_NoDup].
    - apply SI_filter. apply SI_seq.
    - apply NoDup_Permutation.
      + eapply Permutation_NoDup; [apply sort_nat_perm|apply out_NoDup].
      + apply NoDup_filter. apply seq_NoDup.
      + intros x. rewrite filter_In, in_seq. split.
        * intros Hin. apply (Permutation_in _ (Permutation_sym (sort_nat_perm out))) in Hin.
          split; [|apply in_out_extreme; exact Hin].
          destruct Hin as [<-|Hin]; [pose proof p0n; lia|].
          apply in_map_iff in Hin. destruct Hin as (c & <- & Hc).
          destruct chainQ_shape as (_ & _ & _ & HF & _). rewrite Forall_forall in HF. pose proof (Q_lt c (HF c Hc)). lia.
        * intros [Hx He]. apply (Permutation_in _ (sort_nat_perm out)).
          destruct (in_dec Nat.eq_dec x out) as [|Hn']; [assumption|exfalso].
          rewrite (not_in_out_not_extreme x ltac:(lia) Hn') in He. discriminate.
  Qed.
  Lemma out_cyclic : trip (fun a b c => cc a b c < 0) (out ++ firstn 2 out).
  Proof.
    destruct chainQ_shape as (HS & Hhd & Hlast & HF & Hlen). rewrite Forall_forall in HF.
    pose proof chainQ_convex as HV. pose proof m2 as Hm2.
    assert (Hne : chainQ <> []) by (intros E; rewrite E in Hlen; cbn in Hlen; lia).
    destruct (exists_last Hne) as (l0 & b & E0).
    assert (Hne0 : l0 <> []) by (intros E; rewrite E0, E in Hlen; cbn in Hlen; lia).
    destruct (exists_last Hne0) as (l' & a & E1). subst l0. rewrite <- app_assoc in E0. cbn [app] in E0.
    assert (Hb : b = (m - 1)%nat).
    { rewrite E0 in Hlast. replace (l' ++ [a; b]) with ((l' ++ [a]) ++ [b]) in Hlast by (rewrite <- app_assoc; reflexivity).
      rewrite last_last in Hlast. exact Hlast. }
    assert (Hab : (a < b)%nat) by (rewrite E0 in HS; apply SI_pairs in HS; apply pairs_mid in HS; exact HS).
    assert (Hc0 : exists t, chainQ = 0%nat :: t).
    { destruct chainQ as [|c0 t]; [congruence|]. cbn in Hhd. subst c0. eauto. }
    destruct Hc0 as (t & Et).
    assert (Hf2 : firstn 2 out = [p0; Q 0]).
    { unfold out. rewrite Et. cbn [map firstn]. destruct t as [|c1 t']; [rewrite Et in Hlen; cbn in Hlen; lia|]. reflexivity. }
    (* the open chain *)
    assert (Hopen : trip (fun x y z => cc x y z < 0) out).
    { unfold out. rewrite Et. destruct t as [|c1 t']; [rewrite Et in Hlen; cbn in Hlen; lia|].
      change (cc p0 (Q 0) (Q c1) < 0 /\ trip (fun x y z => cc x y z < 0) (map Q (0%nat :: c1 :: t'))). split.
      - apply Q_sorted. rewrite Et in HS. cbn [SI] in HS.
        assert (c1 < m)%nat by (apply HF; rewrite Et; right; left; reflexivity). lia.
      - rewrite <- Et. apply trip_map.
        eapply trip_impl; [|exact HV]. cbn beta. intros x y z H. unfold ccQ in H. lra. }
    rewrite Hf2.
    assert (Eout : out = (p0 :: map Q l') ++ [Q a; Q b]).
    { unfold out. rewrite E0. rewrite map_app. reflexivity. }
    replace (out ++ [p0; Q 0]) with (((p0 :: map Q l') ++ [Q a]) ++ [Q b; p0; Q 0]) by (rewrite Eout, <- !app_assoc; reflexivity).
    apply trip_snoc.
    - replace (((p0 :: map Q l') ++ [Q a]) ++ [Q b; p0]) with ((p0 :: map Q l') ++ [Q a; Q b; p0]) by (rewrite <- !app_assoc; reflexivity).
      apply trip_snoc; [rewrite <- Eout; exact Hopen|].
      rewrite cc_cyc. apply Q_sorted. lia.
    - rewrite <- cc_cyc. apply Q_sorted. lia.
  Qed.
  Theorem gpb_holds : @graham_gpb RNum pts out = true.
  Proof.
    unfold graham_gpb. change (@length (@pt RNum) pts) with n. rewrite !andb_true_iff. repeat split.
    - rewrite out_vertices. apply nat_list_eqb_refl.
    - apply Nat.eqb_eq. reflexivity.
    - apply tripb_iff. eapply trip_impl; [|exact out_cyclic]. cbn beta. intros a b c H.
      unfold negt. cbn [ltb zero RNum]. apply Rltb_true. exact H.
  Qed.
End GPfull.

(* graham_general_position: >= 3 pairwise distinct points, no three collinear, any distance oracle:
   graham_scan returns exactly the extreme vertices, from the pivot (the lexicographically smallest point), clockwise *)
Theorem graham_general_position (pts : list (R * R)) (dist : nat -> R) :
  @distinctb RNum pts = true -> @general_positionb RNum pts = true -> (3 <= length pts)%nat ->
  exists out, @graham_scan RNum pts dist = Some out /\ @graham_gpb RNum pts out = true.
Proof.
  intros Hd Hg Hn.
  destruct (@graham_total RNum pts dist Hd Hn) as (sp & out & Hsp & _ & Hout & Eout & _ & _).
  exists out. split; [exact Hout|].
  pose proof (distinctb_Prop pts Hd) as Hdist. pose proof (gpb_Prop pts Hg) as Hgp.
  assert (Esp : sp = @sorted_points RNum (@ccw_idx RNum pts) dist (length pts) (@pivot_min RNum pts)).
  { assert (Hp : (@pivot_min RNum pts < length pts)%nat) by (apply (@pivot_min_lt RNum pts); change (@length (@pt RNum) pts) with (length pts); lia).
    unfold graham_sorted in Hsp. rewrite (@distinct_first_eq RNum pts _ Hd Hp) in Hsp.
    destruct pts as [|q pts']; [cbn in Hn; lia|]. injection Hsp as <-. reflexivity. }
  rewrite Eout. rewrite (out_eq pts dist Hdist Hgp Hn sp Esp).
  apply (gpb_holds pts dist Hdist Hgp Hn sp Esp).
Qed.
