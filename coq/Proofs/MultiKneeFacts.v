(* Proofs/MultiKneeFacts.v — C02: the multi-knee stack loop terminates within 2n-1 pops, returns a strictly
   increasing list of in-range indices, and equals its recursive specification (hence the self-similar
   decomposition).  Tier S: every statement quantifies over every Num and every oracle valuation; the only
   hypothesis is the range fact of the single-knee detector on slices that pass the size gate. *)
From Coq Require Import List Arith Bool Lia Permutation.
From Knee Require Import Num NpList Proofs.ListFacts Model.MultiKnee.
Import ListNotations.

(* ---------- generic list facts (local: ListFacts.v is shared) ---------- *)
Lemma SI_app l1 : forall l2, SI l1 -> SI l2 -> (forall x y, In x l1 -> In y l2 -> x < y) -> SI (l1 ++ l2).
Proof.
  induction l1 as [|a l1 IH]; intros l2 H1 H2 H; cbn [app]; auto.
  apply SI_cons.
  - rewrite Forall_forall. intros z Hz. apply in_app_or in Hz. destruct Hz as [Hz|Hz].
    + pose proof (SI_lt_all a l1 H1) as HF. rewrite Forall_forall in HF. auto.
    + apply H; [left; reflexivity|exact Hz].
  - apply IH; [eapply SI_tl; eauto|exact H2|]. intros x y Hx Hy. apply H; [right; exact Hx|exact Hy].
Qed.
Lemma ND_le_all a l : ND (a :: l) -> Forall (fun x => a <= x) l.
Proof.
  revert a; induction l as [|b l IH]; intros a H; constructor.
  - cbn in H; tauto.
  - destruct H as [Hab H]. specialize (IH b H). eapply Forall_impl; [|exact IH]. cbn; intros; lia.
Qed.
Lemma ND_NoDup_SI l : ND l -> NoDup l -> SI l.
Proof.
  induction l as [|a l IH]; intros H1 H2; [exact I|].
  inversion H2 as [|? ? Hn Hd]; subst.
  apply SI_cons; [|apply IH; [eapply ND_tl; eauto|exact Hd]].
  pose proof (ND_le_all a l H1) as HF. rewrite Forall_forall in *. intros x Hx.
  specialize (HF x Hx). assert (x <> a) by (intros ->; contradiction). lia.
Qed.
(* list.sort() of a list that is a permutation of a strictly increasing list returns that list *)
Lemma sort_nat_of_perm_SI ks spec : SI spec -> Permutation ks spec -> sort_nat ks = spec.
Proof.
  intros HS HP. apply SI_perm_eq; [|exact HS|].
  - apply ND_NoDup_SI; [apply sort_nat_ND|].
    eapply Permutation_NoDup; [|apply SI_NoDup; exact HS].
    eapply Permutation_trans; [apply Permutation_sym; exact HP|apply sort_nat_perm].
  - eapply Permutation_trans; [apply Permutation_sym; apply sort_nat_perm|exact HP].
Qed.

Section Facts.
  Context {N : Num}.
  Variable cost : mk_cost.
  Variable straight : nat -> nat -> T N.
  Variable knee1 : nat -> nat -> option nat.
  Variable t1 : T N.
  Variable t2 : nat.

  Notation step := (mk_step cost straight knee1 t1 t2).
  Notation rec := (mk_rec cost straight knee1 t1 t2).
  Notation spec := (mk_spec cost straight knee1 t1 t2).
  Notation loop := (mk_loop cost straight knee1 t1 t2).

  (* the range fact of the detector: on every slice of the curve that passes the size gate, an answer k leaves
     at least one point after it (k + 2 <= length) and is at least lo *)
  Definition knee_in_range (lo n : nat) : Prop :=
    forall l r k, r <= n -> t2 < r - l -> knee1 l r = Some k -> lo <= k /\ k + 2 <= r - l.
  Definition step_in_range (lo n : nat) : Prop :=
    forall l r k, r <= n -> step l r = Some k -> lo <= k /\ k + 2 <= r - l.

  Lemma knee_step_in_range lo n : knee_in_range lo n -> step_in_range lo n.
  Proof.
    intros H l r k Hr Hs. unfold mk_step in Hs.
    destruct (Nat.ltb_spec t2 (r - l)); [|discriminate].
    destruct (mk_curved cost straight t1 l r); [|discriminate].
    eapply H; eauto.
  Qed.
  Lemma in_range_mono lo n m : m <= n -> knee_in_range lo n -> knee_in_range lo m.
  Proof. intros Hm H l r k Hr. apply H. lia. Qed.

  Lemma step_empty l r : r - l = 0 -> step l r = None.
  Proof. intros H. unfold mk_step. rewrite H. reflexivity. Qed.
  Lemma step_gate l r : r - l <= t2 -> step l r = None.
  Proof. intros H. unfold mk_step. destruct (Nat.ltb_spec t2 (r - l)); [lia|reflexivity]. Qed.
  Lemma step_straight l r : mk_curved cost straight t1 l r = false -> step l r = None.
  Proof. intros H. unfold mk_step. rewrite H. destruct (t2 <? r - l); reflexivity. Qed.

  Section WithRange.
    Variables lo n : nat.
    Hypothesis HR : step_in_range lo n.

    (* ---- the recursive specification ---- *)
    Lemma mk_rec_range : forall f l r x, r <= n -> In x (rec f l r) -> l + lo <= x /\ x + 2 <= r.
    Proof.
      induction f as [|f IH]; intros l r x Hr Hin; cbn [mk_rec] in Hin; [destruct Hin|].
      destruct (step l r) as [k|] eqn:Hs; [|destruct Hin].
      destruct (HR l r k Hr Hs) as [Hlo Hk].
      apply in_app_or in Hin. destruct Hin as [Hin|Hin].
      - apply IH in Hin; lia.
      - apply in_app_or in Hin. destruct Hin as [Hin|Hin].
        + destruct Hin as [<-|[]]. lia.
        + apply IH in Hin; lia.
    Qed.
    Lemma mk_rec_SI : forall f l r, r <= n -> SI (rec f l r).
    Proof.
      induction f as [|f IH]; intros l r Hr; cbn [mk_rec]; [exact I|].
      destruct (step l r) as [k|] eqn:Hs; [|exact I].
      destruct (HR l r k Hr Hs) as [Hlo Hk].
      apply SI_app; [apply IH; lia| |].
      - apply (SI_app [k + l]); [exact I|apply IH; lia|].
        intros x y [<-|[]] Hy. apply mk_rec_range in Hy; lia.
      - intros x y Hx Hy. apply mk_rec_range in Hx; [|lia].
        apply in_app_or in Hy. destruct Hy as [[<-|[]]|Hy]; [lia|].
        apply mk_rec_range in Hy; lia.
    Qed.
    Lemma mk_rec_fuel : forall f1 f2 l r, r <= n -> r - l <= f1 -> r - l <= f2 -> rec f1 l r = rec f2 l r.
    Proof.
      induction f1 as [|f1 IH]; intros f2 l r Hr H1 H2.
      - cbn [mk_rec]. destruct f2 as [|f2]; [reflexivity|]. cbn [mk_rec]. rewrite step_empty by lia. reflexivity.
      - destruct f2 as [|f2]; cbn [mk_rec].
        + rewrite step_empty by lia. reflexivity.
        + destruct (step l r) as [k|] eqn:Hs; [|reflexivity].
          destruct (HR l r k Hr Hs) as [Hlo Hk].
          rewrite (IH f2 l (k + l + 1)) by lia. rewrite (IH f2 (k + l + 1) r) by lia. reflexivity.
    Qed.
    Lemma mk_spec_unfold l r : r <= n ->
      spec l r = match step l r with
                 | Some k => spec l (k + l + 1) ++ [k + l] ++ spec (k + l + 1) r
                 | None => []
                 end.
    Proof.
      intros Hr. unfold mk_spec. destruct (r - l) as [|m] eqn:Hm.
      - rewrite step_empty by lia. reflexivity.
      - cbn [mk_rec]. destruct (step l r) as [k|] eqn:Hs; [|reflexivity].
        destruct (HR l r k Hr Hs) as [Hlo Hk].
        rewrite (mk_rec_fuel m (k + l + 1 - l) l (k + l + 1)) by lia.
        rewrite (mk_rec_fuel m (r - (k + l + 1)) (k + l + 1) r) by lia. reflexivity.
    Qed.
    Lemma mk_spec_SI l r : r <= n -> SI (spec l r).
    Proof. intros. apply mk_rec_SI; auto. Qed.
    Lemma mk_spec_range l r x : r <= n -> In x (spec l r) -> l + lo <= x /\ x + 2 <= r.
    Proof. intros Hr. apply mk_rec_range; auto. Qed.

    (* ---- the loop: measure sum of (2*size - 1) over the stack, invariant knees ++ specs of the stack ---- *)
    Definition wt (p : nat * nat) : nat := 2 * (snd p - fst p) - 1.
    Definition sw (stack : list (nat * nat)) : nat := fold_right (fun p s => wt p + s) 0 stack.
    Definition st_ok (stack : list (nat * nat)) : Prop := Forall (fun p => fst p < snd p /\ snd p <= n) stack.
    Definition pending (stack : list (nat * nat)) : list nat := flat_map (fun p => spec (fst p) (snd p)) stack.

    Lemma perm_push (K L R S : list nat) x :
      Permutation ((K ++ [x]) ++ R ++ L ++ S) (K ++ (L ++ [x] ++ R) ++ S).
    Proof.
      rewrite <- !app_assoc. apply Permutation_app_head.
      change ([x] ++ R ++ L ++ S) with (([x] ++ R) ++ L ++ S).
      rewrite (app_assoc [x] R S).
      apply (Permutation_app_swap_app ([x] ++ R) L S).
    Qed.

    Lemma mk_loop_inv : forall fuel stack knees trace,
      st_ok stack -> sw stack <= fuel ->
      exists ks tr, loop fuel stack knees trace = Some (ks, tr) /\
                    Permutation ks (knees ++ pending stack) /\
                    length tr <= length trace + sw stack.
    Proof.
      induction fuel as [|f IH]; intros stack knees trace Hok Hf.
      - destruct stack as [|[l r] st].
        + exists knees, trace. cbn. rewrite app_nil_r. repeat split; auto. lia.
        + inversion Hok as [|? ? [Hlr Hrn] Hok']; subst. cbn in Hlr, Hrn. cbn in Hf. unfold wt in Hf. cbn in Hf. lia.
      - destruct stack as [|[l r] st].
        + exists knees, trace. cbn. rewrite app_nil_r. repeat split; auto. lia.
        + inversion Hok as [|? ? [Hlr Hrn] Hok']; subst. cbn [fst snd] in Hlr, Hrn.
          cbn [sw fold_right] in Hf. fold (sw st) in Hf. unfold wt in Hf. cbn [fst snd] in Hf.
          cbn [mk_loop]. destruct (step l r) as [k|] eqn:Hs.
          * destruct (HR l r k Hrn Hs) as [Hlo Hk].
            destruct (IH ((k + l + 1, r) :: (l, k + l + 1) :: st) (knees ++ [k + l]) ((l, r) :: trace))
              as (ks & tr & He & Hp & Hl).
            { constructor; [cbn; lia|]. constructor; [cbn; lia|exact Hok']. }
            { cbn [sw fold_right]. fold (sw st). unfold wt. cbn [fst snd]. lia. }
            exists ks, tr. split; [exact He|]. split.
            -- eapply Permutation_trans; [exact Hp|].
               unfold pending. cbn [flat_map fst snd]. fold (pending st).
               rewrite (mk_spec_unfold l r Hrn), Hs.
               apply perm_push.
            -- cbn [length sw fold_right] in *. fold (sw st) in *. unfold wt in *. cbn [fst snd] in *. lia.
          * destruct (IH st knees ((l, r) :: trace)) as (ks & tr & He & Hp & Hl); [exact Hok'|lia|].
            exists ks, tr. split; [exact He|]. split.
            -- unfold pending. cbn [flat_map fst snd]. fold (pending st).
               rewrite (mk_spec_unfold l r Hrn), Hs. exact Hp.
            -- cbn [length sw fold_right] in *. fold (sw st). unfold wt. cbn [fst snd]. lia.
    Qed.

    (* the run on a curve of m <= n points *)
    Lemma multi_knee_run m : m <= n ->
      exists tr, multi_knee cost straight knee1 t1 t2 m = Some (spec 0 m, tr) /\ length tr <= Nat.max 1 (2 * m - 1).
    Proof.
      intros Hm. unfold multi_knee. destruct m as [|m'].
      - cbn. exists [(0, 0)]. split; [reflexivity|cbn; lia].
      - destruct (mk_loop_inv (2 * S m' + 1) [(0, S m')] [] []) as (ks & tr & He & Hp & Hl).
        + constructor; [cbn; lia|constructor].
        + cbn. unfold wt. cbn [fst snd]. lia.
        + rewrite He. exists tr. split.
          * f_equal. f_equal. apply sort_nat_of_perm_SI; [apply mk_spec_SI; exact Hm|].
            cbn in Hp. rewrite app_nil_r in Hp. exact Hp.
          * cbn [length sw fold_right] in Hl. unfold wt in Hl. cbn [fst snd] in Hl. lia.
    Qed.
  End WithRange.
End Facts.

(* ---------- the slice points[a:] : shifted oracles ---------- *)
Section Shift.
  Context {N : Num}.
  Variable cost : mk_cost.
  Variable straight : nat -> nat -> T N.
  Variable knee1 : nat -> nat -> option nat.
  Variable t1 : T N.
  Variable t2 : nat.
  Variable a : nat.

  Lemma mk_step_shift l r :
    mk_step cost (shift2 a straight) (shift2 a knee1) t1 t2 l r = mk_step cost straight knee1 t1 t2 (l + a) (r + a).
  Proof.
    unfold mk_step, mk_curved, mk_r, shift2. replace (r + a - (l + a)) with (r - l) by lia. reflexivity.
  Qed.
  Lemma mk_rec_shift : forall f l r,
    map (fun i => i + a) (mk_rec cost (shift2 a straight) (shift2 a knee1) t1 t2 f l r)
    = mk_rec cost straight knee1 t1 t2 f (l + a) (r + a).
  Proof.
    induction f as [|f IH]; intros l r; cbn [mk_rec]; [reflexivity|].
    rewrite mk_step_shift. destruct (mk_step cost straight knee1 t1 t2 (l + a) (r + a)) as [k|]; [|reflexivity].
    rewrite !map_app, !IH. cbn [map].
    replace (k + l + 1 + a) with (k + (l + a) + 1) by lia.
    replace (k + l + a) with (k + (l + a)) by lia. reflexivity.
  Qed.
  Lemma mk_spec_shift l r :
    map (fun i => i + a) (mk_spec cost (shift2 a straight) (shift2 a knee1) t1 t2 l r)
    = mk_spec cost straight knee1 t1 t2 (l + a) (r + a).
  Proof. unfold mk_spec. rewrite mk_rec_shift. replace (r + a - (l + a)) with (r - l) by lia. reflexivity. Qed.
  Lemma in_range_shift lo n :
    knee_in_range knee1 t2 lo n -> knee_in_range (shift2 a knee1) t2 lo (n - a).
  Proof.
    intros H l r k Hr Ht Hk. unfold shift2 in Hk.
    destruct (H (l + a) (r + a) k) as [H1 H2]; [lia|lia|exact Hk|]. split; lia.
  Qed.
End Shift.

(* ---------- main theorems ---------- *)
Section Main.
  Context {N : Num}.
  Variable cost : mk_cost.
  Variable straight : nat -> nat -> T N.
  Variable knee1 : nat -> nat -> option nat.
  Variable t1 : T N.
  Variable t2 : nat.
  Variables lo n : nat.
  Hypothesis HK : knee_in_range knee1 t2 lo n.

  Notation mk := (multi_knee cost straight knee1 t1 t2).
  Notation step := (mk_step cost straight knee1 t1 t2).
  Notation spec := (mk_spec cost straight knee1 t1 t2).

  (* termination within max 1 (2n-1) <= 2n pops with the model's own fuel, sortedness, range, = specification *)
  Theorem mk_total :
    exists ks tr, mk n = Some (ks, tr) /\
                  length tr <= Nat.max 1 (2 * n - 1) /\ (1 <= n -> length tr <= 2 * n) /\
                  SI ks /\ Forall (fun i => lo <= i /\ i + 2 <= n) ks /\
                  ks = spec 0 n.
  Proof.
    pose proof (knee_step_in_range cost straight knee1 t1 t2 lo n HK) as HR.
    destruct (multi_knee_run cost straight knee1 t1 t2 lo n HR n (le_n n)) as (tr & He & Hl).
    exists (spec 0 n), tr. split; [exact He|]. split; [exact Hl|]. split; [lia|].
    split; [apply (mk_spec_SI cost straight knee1 t1 t2 lo n HR); lia|]. split; [|reflexivity].
    rewrite Forall_forall. intros x Hx.
    apply (mk_spec_range cost straight knee1 t1 t2 lo n HR) in Hx; lia.
  Qed.

  (* the result is empty when the size gate or the straightness gate stops the whole curve (or the detector says None) *)
  Theorem mk_empty : step 0 n = None -> mk_knees (mk n) = Some [].
  Proof.
    intros Hs. pose proof (knee_step_in_range cost straight knee1 t1 t2 lo n HK) as HR.
    destruct (multi_knee_run cost straight knee1 t1 t2 lo n HR n (le_n n)) as (tr & He & _).
    rewrite He. cbn. rewrite (mk_spec_unfold cost straight knee1 t1 t2 lo n HR 0 n (le_n n)), Hs. reflexivity.
  Qed.
  Corollary mk_empty_small : n <= t2 -> mk_knees (mk n) = Some [].
  Proof. intros H. apply mk_empty. apply step_gate. lia. Qed.
  Corollary mk_empty_straight : mk_curved cost straight t1 0 n = false -> mk_knees (mk n) = Some [].
  Proof. intros H. apply mk_empty. apply step_straight. exact H. Qed.

  (* self-similarity: {k} united with the result on points[:k+1] and (k+1 +) the result on points[k+1:] *)
  Theorem mk_decomp k : step 0 n = Some k ->
    exists kl kr,
      mk_knees (mk (k + 1)) = Some kl /\
      mk_knees (multi_knee cost (shift2 (k + 1) straight) (shift2 (k + 1) knee1) t1 t2 (n - (k + 1))) = Some kr /\
      mk_knees (mk n) = Some (kl ++ [k] ++ map (fun i => i + (k + 1)) kr).
  Proof.
    intros Hs. pose proof (knee_step_in_range cost straight knee1 t1 t2 lo n HK) as HR.
    destruct (HR 0 n k (le_n n) Hs) as [Hlo Hk].
    destruct (multi_knee_run cost straight knee1 t1 t2 lo n HR n (le_n n)) as (tr & He & _).
    destruct (multi_knee_run cost straight knee1 t1 t2 lo n HR (k + 1) ltac:(lia)) as (trl & Hel & _).
    pose proof (in_range_shift knee1 t2 (k + 1) lo n HK) as HK'.
    pose proof (knee_step_in_range cost (shift2 (k + 1) straight) (shift2 (k + 1) knee1) t1 t2 lo (n - (k + 1)) HK') as HR'.
    destruct (multi_knee_run cost _ _ t1 t2 lo (n - (k + 1)) HR' (n - (k + 1)) (le_n _)) as (trr & Her & _).
    eexists. eexists. rewrite Hel, Her, He. cbn [mk_knees]. split; [reflexivity|]. split; [reflexivity|].
    f_equal. rewrite (mk_spec_unfold cost straight knee1 t1 t2 lo n HR 0 n (le_n n)), Hs.
    rewrite mk_spec_shift. replace (k + 0 + 1) with (k + 1) by lia. replace (k + 0) with k by lia.
    replace (0 + (k + 1)) with (k + 1) by lia. replace (n - (k + 1) + (k + 1)) with n by lia. reflexivity.
  Qed.

  (* the same, as the boolean predicate that judges the implementation *)
  Lemma nat_list_eqb_refl l : nat_list_eqb l l = true.
  Proof. induction l as [|x l IH]; cbn; auto. rewrite Nat.eqb_refl. exact IH. Qed.
  Theorem mk_holds_model :
    mk_holds lo n (step 0 n) (mk_obs (mk n)) (mk_subL cost straight knee1 t1 t2 n) (mk_subR cost straight knee1 t1 t2 n) = 0.
  Proof.
    destruct mk_total as (ks & tr & He & Hl & _ & HS & HF & Hspec).
    rewrite He. cbn [mk_obs mk_holds].
    apply SI_iff in HS. rewrite HS. cbn [negb].
    assert (all_in_range lo n ks = true) as ->.
    { unfold all_in_range. rewrite forallb_forall. rewrite Forall_forall in HF. intros x Hx.
      destruct (HF x Hx). apply andb_true_intro. split; apply Nat.leb_le; lia. }
    cbn [negb]. apply Nat.leb_le in Hl. rewrite Hl. cbn [negb].
    unfold mk_subL, mk_subR, mk_runL, mk_runR. destruct (step 0 n) as [k|] eqn:Hs.
    - destruct (mk_decomp k Hs) as (kl & kr & H1 & H2 & H3). rewrite H1, H2.
      rewrite He in H3. cbn [mk_knees] in H3. injection H3 as ->. rewrite nat_list_eqb_refl. reflexivity.
    - pose proof (mk_empty Hs) as H3. rewrite He in H3. cbn [mk_knees] in H3. injection H3 as ->. reflexivity.
  Qed.
End Main.

(* ---------- the range hypothesis is needed: a detector that answers the LAST index of a slice makes the loop push the
   same range again for ever (what lmethod.multi_knee does with t2 = 2 on a curved 3-point slice, and menger.multi_knee
   with t2 = 0 on a 1-point slice) ---------- *)
Section Diverge.
  Context {N : Num}.
  Variable cost : mk_cost.
  Variable straight : nat -> nat -> T N.
  Variable knee1 : nat -> nat -> option nat.
  Variable t1 : T N.
  Variable t2 : nat.

  Lemma mk_loop_last_index_diverges l r k :
    mk_step cost straight knee1 t1 t2 l r = Some k -> k + 1 = r - l ->
    forall fuel st ks tr, mk_loop cost straight knee1 t1 t2 fuel ((l, r) :: st) ks tr = None.
  Proof.
    intros Hs Hk fuel. induction fuel as [fuel IH] using lt_wf_ind. intros st ks tr.
    destruct fuel as [|f]; [reflexivity|]. cbn [mk_loop]. rewrite Hs.
    replace (k + l + 1) with r by lia.
    destruct f as [|f']; [reflexivity|]. cbn [mk_loop].
    rewrite (step_empty cost straight knee1 t1 t2 r r) by lia.
    apply IH. lia.
  Qed.
  Theorem mk_last_index_diverges n k :
    mk_step cost straight knee1 t1 t2 0 n = Some k -> k + 1 = n -> multi_knee cost straight knee1 t1 t2 n = None.
  Proof.
    intros Hs Hk. unfold multi_knee. rewrite (mk_loop_last_index_diverges 0 n k Hs); [reflexivity|lia].
  Qed.
End Diverge.

(* ---------- a concrete oracle valuation meeting the hypothesis (non-vacuity; used by Props/C02.v) ---------- *)
Definition ex_knee1 (l r : nat) : option nat := if 3 <? r - l then Some ((r - l) / 2) else None.
Lemma ex_knee1_in_range n : knee_in_range ex_knee1 3 1 n.
Proof.
  intros l r k _ Ht Hk. unfold ex_knee1 in Hk. destruct (Nat.ltb_spec 3 (r - l)); [|discriminate].
  assert (Hk' : (r - l) / 2 = k) by congruence. clear Hk. rewrite <- Hk'. assert (H2 : 2 <> 0) by discriminate.
  pose proof (Nat.div_mod (r - l) 2 H2). pose proof (Nat.mod_upper_bound (r - l) 2 H2). lia.
Qed.
