(* Proofs/ClusteringFacts.v — C11: the four linkage loops implement the declarative threshold rule
   (Tier S, any Num), and the number of single-/complete-linkage clusters is monotone in t (Tier A, RNum). *)
From Coq Require Import List Arith Bool Lia.
From Knee Require Import Num NpList Model.Clustering.
Import ListNotations.
Local Open Scope num_scope.

(* ------------------------------------------------------------------------------------------ *)
(* list helpers *)

Lemma slice_app {A} (pre ms rest : list A) :
  slice (pre ++ ms ++ rest) (length pre) (length pre + length ms) = ms.
Proof.
  unfold slice. replace (length pre + length ms - length pre) with (length ms) by lia.
  induction pre as [|a pre IH]; cbn [app length skipn].
  - induction ms as [|m ms IH]; cbn [app length firstn]; [destruct rest; reflexivity|]. now rewrite IH.
  - exact IH.
Qed.

Lemma nth_app_mid {A} (pre ms : list A) x r d :
  nth (length pre + length ms) (pre ++ ms ++ x :: r) d = x.
Proof.
  rewrite app_assoc. rewrite app_nth2; rewrite app_length; [|lia].
  now rewrite Nat.sub_diag.
Qed.

Lemma first_index_at f : forall L k,
  k < length L -> (forall j, j < k -> f (nth j L 0) = false) -> f (nth k L 0) = true ->
  first_index f L = k.
Proof.
  induction L as [|a L IH]; intros k Hk Hlt Hat; cbn in Hk; [lia|].
  cbn [first_index]. destruct k as [|k].
  - cbn in Hat. now rewrite Hat.
  - pose proof (Hlt 0 ltac:(lia)) as H0. cbn [nth] in H0. rewrite H0. f_equal. apply IH; [lia| |exact Hat].
    intros j Hj. apply (Hlt (S j)). lia.
Qed.

Lemma snoc_app {A} (l : list A) a m : l ++ a :: m = (l ++ [a]) ++ m.
Proof. now rewrite <- app_assoc. Qed.

(* ------------------------------------------------------------------------------------------ *)
(* the generic single pass over member lists *)

Section Generic.
  Context {X : Type}.
  Variable dec : list X -> X -> bool.     (* does x start a new cluster, given the members of the current one *)
  Variable d0 : X.

  Fixpoint mgo (ms rest : list X) (ci : nat) : list nat :=
    match rest with
    | [] => []
    | x :: r => if dec ms x then S ci :: mgo [x] r (S ci) else ci :: mgo (ms ++ [x]) r ci
    end.

  Lemma mgo_length : forall rest ms ci, length (mgo ms rest ci) = length rest.
  Proof. induction rest as [|x r IH]; intros; cbn [mgo]; [reflexivity|]. destruct (dec ms x); cbn [length]; now rewrite IH. Qed.

  Lemma mgo_steps : forall rest ms ci, steps01 (ci :: mgo ms rest ci) = true.
  Proof.
    induction rest as [|x r IH]; intros ms ci; cbn [mgo]; [reflexivity|].
    destruct (dec ms x).
    - change (((S ci =? ci) || (S ci =? S ci)) && steps01 (S ci :: mgo [x] r (S ci)) = true).
      rewrite Nat.eqb_refl, orb_true_r, IH. reflexivity.
    - change (((ci =? ci) || (ci =? S ci)) && steps01 (ci :: mgo (ms ++ [x]) r ci) = true).
      rewrite Nat.eqb_refl, IH. reflexivity.
  Qed.

  (* invariant: xs = pre ++ ms ++ rest, the labels written so far (labpre) are < ci on pre and = ci on ms;
     then every later point obeys the rule, with the members recovered from the FINAL label list *)
  Lemma mgo_rule : forall rest pre ms labpre ci xs L,
    xs = pre ++ ms ++ rest -> L = labpre ++ mgo ms rest ci ->
    ms <> [] -> length labpre = length pre + length ms ->
    (forall j, j < length pre -> nth j labpre 0 < ci) ->
    (forall j, length pre <= j -> j < length labpre -> nth j labpre 0 = ci) ->
    forall i, length labpre <= i -> i < length xs ->
      nth i L 0 = nth (i - 1) L 0 + (if dec (slice xs (cstart L i) i) (nth i xs d0) then 1 else 0).
  Proof.
    induction rest as [|x r IH]; intros pre ms labpre ci xs L Hxs HL Hne Hlen Hlo Heq i Hi1 Hi2.
    - subst xs. rewrite !app_length in Hi2. cbn in Hi2. lia.
    - assert (Hms : 1 <= length ms) by (destruct ms; [congruence|cbn; lia]).
      destruct (Nat.eq_dec i (length labpre)) as [->|Hne'].
      + (* the first point of rest *)
        assert (Hprev : nth (length labpre - 1) L 0 = ci).
        { subst L. rewrite app_nth1 by lia. apply Heq; lia. }
        assert (Hst : cstart L (length labpre) = length pre).
        { unfold cstart. rewrite Hprev. apply first_index_at.
          - subst L. rewrite app_length. lia.
          - intros j Hj. subst L. rewrite app_nth1 by lia. apply Nat.eqb_neq. specialize (Hlo j Hj). lia.
          - subst L. rewrite app_nth1 by lia. apply Nat.eqb_eq. symmetry. apply Heq; lia. }
        rewrite Hst, Hprev. rewrite Hlen at 2 3. subst xs. rewrite slice_app, nth_app_mid.
        subst L. rewrite app_nth2 by lia. rewrite Nat.sub_diag. cbn [mgo].
        destruct (dec ms x); cbn [nth]; lia.
      + (* later points: one step of the loop, then the induction hypothesis *)
        cbn [mgo] in HL. destruct (dec ms x) eqn:E.
        * apply (IH (pre ++ ms) [x] (labpre ++ [S ci]) (S ci) xs L).
          -- subst xs. now rewrite <- app_assoc.
          -- subst L. apply snoc_app.
          -- discriminate.
          -- rewrite !app_length. cbn. lia.
          -- intros j Hj. rewrite app_length in Hj. rewrite app_nth1 by lia.
             destruct (Nat.lt_ge_cases j (length pre)) as [H|H]; [specialize (Hlo j H); lia|].
             rewrite (Heq j) by lia. lia.
          -- intros j Hj1 Hj2. rewrite !app_length in *. cbn in Hj2.
             assert (j = length labpre) as -> by lia. rewrite app_nth2 by lia. now rewrite Nat.sub_diag.
          -- rewrite app_length. cbn. lia.
          -- exact Hi2.
        * apply (IH pre (ms ++ [x]) (labpre ++ [ci]) ci xs L).
          -- subst xs. now rewrite <- app_assoc.
          -- subst L. apply snoc_app.
          -- destruct ms; discriminate.
          -- rewrite !app_length. cbn. lia.
          -- intros j Hj. rewrite app_nth1 by lia. now apply Hlo.
          -- intros j Hj1 Hj2. rewrite !app_length in *. cbn in Hj2.
             destruct (Nat.eq_dec j (length labpre)) as [->|Hd].
             ++ rewrite app_nth2 by lia. now rewrite Nat.sub_diag.
             ++ rewrite app_nth1 by lia. apply Heq; lia.
          -- rewrite app_length. cbn. lia.
          -- exact Hi2.
  Qed.
End Generic.

(* ------------------------------------------------------------------------------------------ *)
(* each concrete loop is the generic pass with its own distance *)

Section Loops.
  Context {N : Num}.

  Definition ldec (lk : linkage) (len t : T N) (ms : list (T N)) (x : T N) : bool :=
    newb lk t (link_D lk len ms x).

  Lemma single_mgo len t : forall rest ms prev ci,
    last ms zero = prev -> single_go len t prev rest ci = mgo (ldec Single len t) ms rest ci.
  Proof.
    induction rest as [|x r IH]; intros ms prev ci Hl; cbn [single_go mgo]; [reflexivity|].
    unfold ldec at 1. cbn [newb link_D]. rewrite Hl.
    destruct (t <=?! ndist len x prev); f_equal; apply IH; [reflexivity|apply last_last].
  Qed.

  Lemma complete_mgo len t : forall rest ms anchor ci,
    ms <> [] -> hd zero ms = anchor -> complete_go len t anchor rest ci = mgo (ldec Complete len t) ms rest ci.
  Proof.
    induction rest as [|x r IH]; intros ms a ci Hne Hh; cbn [complete_go mgo]; [reflexivity|].
    unfold ldec at 1. cbn [newb link_D]. rewrite Hh.
    destruct (t <=?! ndist len x a); f_equal; apply IH; try discriminate; try reflexivity.
    - destruct ms; discriminate.
    - destruct ms; [congruence|exact Hh].
  Qed.

  Lemma centroid_of_snoc (ms : list (T N)) (x : T N) : ms <> [] ->
    centroid_of (ms ++ [x]) = (centroid_update (fst (centroid_of ms)) (snd (centroid_of ms)) x, S (snd (centroid_of ms))).
  Proof.
    intros Hne. destruct ms as [|m ms]; [congruence|].
    unfold centroid_of. cbn [app hd tl]. now rewrite fold_left_app.
  Qed.

  Lemma centroid_mgo len t : forall rest ms c s ci,
    ms <> [] -> centroid_of ms = (c, s) -> centroid_go len t c s rest ci = mgo (ldec Centroid len t) ms rest ci.
  Proof.
    induction rest as [|x r IH]; intros ms c s ci Hne Hc; cbn [centroid_go mgo]; [reflexivity|].
    unfold ldec at 1. cbn [newb link_D]. rewrite Hc. cbn [fst].
    destruct (ndist len x c <?! t); cbn [negb]; f_equal; apply IH; try discriminate; try reflexivity.
    - destruct ms; discriminate.
    - rewrite centroid_of_snoc by exact Hne. now rewrite Hc.
  Qed.

  Lemma average_mgo xs len t : forall rest pre ms ci,
    xs = pre ++ ms ++ rest ->
    average_go xs len t (length pre) (length pre + length ms) rest ci = mgo (ldec Average len t) ms rest ci.
  Proof.
    induction rest as [|x r IH]; intros pre ms ci Hxs; cbn [average_go mgo]; [reflexivity|].
    unfold ldec at 1. cbn [newb link_D].
    rewrite Hxs at 1. rewrite slice_app.
    destruct (t <=?! avg_dist len ms x).
    - f_equal. specialize (IH (pre ++ ms) [x] (S ci)).
      rewrite app_length in IH. cbn [length] in IH.
      replace (length pre + length ms + 1) with (S (length pre + length ms)) in IH by lia.
      apply IH. subst xs. now rewrite <- app_assoc.
    - f_equal. specialize (IH pre (ms ++ [x]) ci).
      rewrite app_length in IH. cbn [length] in IH.
      replace (length pre + (length ms + 1)) with (S (length pre + length ms)) in IH by lia.
      apply IH. subst xs. now rewrite <- app_assoc.
  Qed.

  Lemma linkage_labels_mgo lk x0 rest t :
    linkage_labels lk (x0 :: rest) t = Some (0 :: mgo (ldec lk (xrange (x0 :: rest)) t) [x0] rest 0).
  Proof.
    unfold linkage_labels. do 2 f_equal. destruct lk.
    - now apply single_mgo.
    - apply complete_mgo; [discriminate|reflexivity].
    - apply centroid_mgo; [discriminate|reflexivity].
    - apply (average_mgo (x0 :: rest) _ t rest [] [x0] 0). reflexivity.
  Qed.

  (* ---------------------------------------------------------------------------------------- *)
  (* the theorems of C11, Tier S *)

  (* shape + rule, as the boolean predicate that also judges the implementation's labels *)
  Theorem linkage_rule : forall lk (xs : list (T N)) t,
    xs <> [] -> exists lab, linkage_labels lk xs t = Some lab /\ c11_holdsb lk xs t lab = true.
  Proof.
    intros lk [|x0 rest] t Hne; [congruence|].
    rewrite linkage_labels_mgo. eexists; split; [reflexivity|].
    set (len := xrange (x0 :: rest)).
    unfold c11_holdsb, shapeb. cbn [length hd]. rewrite mgo_length, Nat.eqb_refl, mgo_steps. cbn [andb].
    unfold rule_holdsb. apply forallb_forall. intros i Hi. apply in_seq in Hi. cbn [length] in Hi.
    unfold rule_at, link_dist, members. apply Nat.eqb_eq.
    fold len.
    apply (mgo_rule (ldec lk len t) zero rest [] [x0] [0] 0 (x0 :: rest)); try reflexivity; try discriminate.
    - cbn. intros; lia.
    - cbn. intros j H1 H2. assert (j = 0) as -> by lia. reflexivity.
    - cbn. lia.
    - cbn [length]. lia.
  Qed.

  Theorem labels_shape : forall lk (xs : list (T N)) t lab,
    linkage_labels lk xs t = Some lab ->
    length lab = length xs /\ hd 1 lab = 0 /\
    (forall i, S i < length lab -> nth (S i) lab 0 = nth i lab 0 \/ nth (S i) lab 0 = S (nth i lab 0)).
  Proof.
    intros lk xs t lab H.
    destruct xs as [|x0 rest]; [discriminate|].
    destruct (linkage_rule lk (x0 :: rest) t ltac:(discriminate)) as (lab' & H' & Hh).
    rewrite H in H'. injection H' as <-.
    unfold c11_holdsb, shapeb in Hh. rewrite !andb_true_iff in Hh. destruct Hh as [[[Hl Hh0] Hs] _].
    apply Nat.eqb_eq in Hl, Hh0. split; [exact Hl|split; [exact Hh0|]].
    clear - Hs. revert Hs. induction lab as [|a lab IH]; intros Hs i Hi; [cbn in Hi; lia|].
    destruct lab as [|b lab]; [cbn in Hi; lia|].
    cbn [steps01] in Hs. apply andb_true_iff in Hs. destruct Hs as [H1 H2].
    destruct i as [|i].
    - cbn [nth]. apply orb_true_iff in H1. rewrite !Nat.eqb_eq in H1. exact H1.
    - change (nth (S (S i)) (a :: b :: lab) 0) with (nth (S i) (b :: lab) 0).
      change (nth (S i) (a :: b :: lab) 0) with (nth i (b :: lab) 0).
      apply IH; [exact H2|cbn in *; lia].
  Qed.

  (* a new cluster starts at i exactly when the code's comparison of t with the linkage distance succeeds *)
  Theorem new_cluster_iff : forall lk (xs : list (T N)) t lab,
    linkage_labels lk xs t = Some lab ->
    forall i, 1 <= i -> i < length xs ->
      (nth i lab 0 = S (nth (i - 1) lab 0) <-> newb lk t (link_dist lk xs lab i) = true) /\
      (nth i lab 0 = nth (i - 1) lab 0 <-> newb lk t (link_dist lk xs lab i) = false).
  Proof.
    intros lk xs t lab H i Hi1 Hi2.
    destruct xs as [|x0 rest]; [discriminate|].
    destruct (linkage_rule lk (x0 :: rest) t ltac:(discriminate)) as (lab' & H' & Hh).
    rewrite H in H'. injection H' as <-.
    unfold c11_holdsb in Hh. apply andb_true_iff in Hh. destruct Hh as [_ Hr].
    unfold rule_holdsb in Hr. rewrite forallb_forall in Hr.
    specialize (Hr i). rewrite in_seq in Hr. specialize (Hr ltac:(lia)).
    unfold rule_at in Hr. apply Nat.eqb_eq in Hr.
    destruct (newb lk t (link_dist lk (x0 :: rest) lab i)); split; split; intros; try lia; try reflexivity; try discriminate.
  Qed.

  (* Tier O reading: where the compared values obey ltb d t = negb (leb t d) (no NaN), all four loops test `t <= d` *)
  Lemma newb_geb : forall lk (t d : T N), (d <?! t) = negb (t <=?! d) -> newb lk t d = (t <=?! d).
  Proof. intros [] t d H; cbn [newb]; try reflexivity. rewrite H. apply negb_involutive. Qed.

  (* number of clusters = 1 + number of positions where the label increases *)
  Fixpoint ssplits (len t prev : T N) (rest : list (T N)) : nat :=
    match rest with
    | [] => 0
    | x :: r => (if t <=?! ndist len x prev then 1 else 0) + ssplits len t x r
    end.
  Fixpoint csplits (len t anchor : T N) (rest : list (T N)) : nat :=
    match rest with
    | [] => 0
    | x :: r => if t <=?! ndist len x anchor then S (csplits len t x r) else csplits len t anchor r
    end.
  Lemma single_last len t : forall rest prev ci,
    last (ci :: single_go len t prev rest ci) 0 = ci + ssplits len t prev rest.
  Proof.
    induction rest as [|x r IH]; intros prev ci; [cbn; lia|].
    cbn [single_go ssplits]. destruct (t <=?! ndist len x prev).
    - change (last (ci :: S ci :: single_go len t x r (S ci)) 0) with (last (S ci :: single_go len t x r (S ci)) 0).
      rewrite IH. lia.
    - change (last (ci :: ci :: single_go len t x r ci) 0) with (last (ci :: single_go len t x r ci) 0).
      rewrite IH. lia.
  Qed.
  Lemma complete_last len t : forall rest a ci,
    last (ci :: complete_go len t a rest ci) 0 = ci + csplits len t a rest.
  Proof.
    induction rest as [|x r IH]; intros a ci; [cbn; lia|].
    cbn [complete_go csplits]. destruct (t <=?! ndist len x a).
    - change (last (ci :: S ci :: complete_go len t x r (S ci)) 0) with (last (S ci :: complete_go len t x r (S ci)) 0).
      rewrite IH. lia.
    - change (last (ci :: ci :: complete_go len t a r ci) 0) with (last (ci :: complete_go len t a r ci) 0).
      rewrite IH. lia.
  Qed.
End Loops.

(* ------------------------------------------------------------------------------------------ *)
(* Tier A (RNum): the number of single- and complete-linkage clusters does not increase with t *)
From Coq Require Import Reals Lra.
From Knee Require Import NumR.

Section Monotone.
  Local Open Scope R_scope.

  (* a <= x1 <= x2 <= ... *)
  Fixpoint chainR (a : R) (l : list R) : Prop :=
    match l with [] => True | x :: r => a <= x /\ chainR x r end.
  (* strictly increasing *)
  Fixpoint incrR (l : list R) : Prop :=
    match l with a :: ((b :: _) as r) => a < b /\ incrR r | _ => True end.

  Lemma chainR_weaken a b l : a <= b -> chainR b l -> chainR a l.
  Proof. destruct l as [|x r]; cbn; [tauto|]. intros H [H1 H2]. split; [lra|exact H2]. Qed.
  Lemma incrR_chain : forall l a, incrR (a :: l) -> chainR a l.
  Proof.
    induction l as [|b l IH]; intros a H; cbn; [exact Logic.I|].
    destruct H as [H1 H2]. split; [lra|]. now apply IH.
  Qed.
  Lemma incrR_range : forall l a, incrR (a :: l) -> l <> [] -> a < last (a :: l) 0.
  Proof.
    induction l as [|b l IH]; intros a H Hne; [congruence|].
    destruct H as [H1 H2]. destruct l as [|c l].
    - cbn. exact H1.
    - change (last (a :: b :: c :: l) 0) with (last (b :: c :: l) 0).
      specialize (IH b H2 ltac:(discriminate)). lra.
  Qed.

  (* what the comparison means on R *)
  Lemma split_R (len t x a : R) : 0 < len -> a <= x ->
    (@Num.leb RNum t (@ndist RNum len x a) = true <-> t <= (x - a) / len).
  Proof.
    intros Hl Ha. unfold ndist. cbn. rewrite Rleb_true. rewrite Rabs_right by lra. tauto.
  Qed.
  Lemma div_mono (len u v : R) : 0 < len -> u <= v -> u / len <= v / len.
  Proof. intros Hl H. unfold Rdiv. apply Rmult_le_compat_r; [|exact H]. left. now apply Rinv_0_lt_compat. Qed.

  (* single linkage: every gap that reaches t' reaches t *)
  Lemma ssplits_mono (len t t' : R) : t <= t' -> forall rest prev,
    (@ssplits RNum len t' prev rest <= @ssplits RNum len t prev rest)%nat.
  Proof.
    intros Ht. induction rest as [|x r IH]; intros prev; cbn [ssplits]; [lia|].
    specialize (IH x).
    destruct (@Num.leb RNum t' (@ndist RNum len x prev)) eqn:E'; destruct (@Num.leb RNum t (@ndist RNum len x prev)) eqn:E; try lia.
    exfalso. cbn in E', E. apply Rleb_true in E'. apply Rleb_false in E. lra.
  Qed.

  (* complete linkage, one threshold: a later anchor gives at most as many, and at least one fewer, splits *)
  Lemma csplits_anchor (len t : R) : 0 < len -> forall rest a b,
    a <= b -> chainR b rest ->
    (@csplits RNum len t b rest <= @csplits RNum len t a rest <= S (@csplits RNum len t b rest))%nat.
  Proof.
    intros Hl. induction rest as [|x r IH]; intros a b Hab Hc; cbn [csplits]; [lia|].
    destruct Hc as [Hbx Hc].
    destruct (@Num.leb RNum t (@ndist RNum len x b)) eqn:Eb; destruct (@Num.leb RNum t (@ndist RNum len x a)) eqn:Ea.
    - lia.
    - exfalso. apply split_R in Eb; [|lra|lra].
      assert (H : @Num.leb RNum t (@ndist RNum len x a) = true).
      { apply split_R; [lra|lra|]. pose proof (div_mono len (x - b) (x - a) Hl ltac:(lra)). lra. }
      congruence.
    - pose proof (IH b x Hbx Hc). lia.
    - pose proof (IH a b Hab (chainR_weaken b x r Hbx Hc)). lia.
  Qed.

  (* complete linkage, two thresholds: anchor dominance (the anchor of the larger threshold is never behind) *)
  Lemma csplits_mono (len t t' : R) : 0 < len -> t <= t' -> forall rest a a',
    a <= a' -> chainR a' rest ->
    (@csplits RNum len t' a' rest <= @csplits RNum len t a rest)%nat.
  Proof.
    intros Hl Ht. induction rest as [|x r IH]; intros a a' Haa Hc; cbn [csplits]; [lia|].
    destruct Hc as [Hax Hc].
    destruct (@Num.leb RNum t' (@ndist RNum len x a')) eqn:E'; destruct (@Num.leb RNum t (@ndist RNum len x a)) eqn:E.
    - pose proof (IH x x ltac:(lra) Hc). lia.
    - exfalso. apply split_R in E'; [|lra|lra].
      assert (H : @Num.leb RNum t (@ndist RNum len x a) = true).
      { apply split_R; [lra|lra|]. pose proof (div_mono len (x - a') (x - a) Hl ltac:(lra)). lra. }
      congruence.
    - pose proof (IH x x ltac:(lra) Hc).
      pose proof (csplits_anchor len t' Hl r a' x Hax Hc). lia.
    - pose proof (IH a a' Haa (chainR_weaken a' x r Hax Hc)). lia.
  Qed.

  Lemma some_inj {A} (a b : A) : Some a = Some b -> a = b.
  Proof. congruence. Qed.

  Theorem single_complete_monotone : forall (lk : linkage) (xs : list R) (t t' : R) lab lab',
    lk = Single \/ lk = Complete ->
    incrR xs -> (2 <= length xs)%nat -> t <= t' ->
    @linkage_labels RNum lk xs t = Some lab -> @linkage_labels RNum lk xs t' = Some lab' ->
    (nclusters lab' <= nclusters lab)%nat.
  Proof.
    intros lk xs t t' lab lab' Hlk Hinc Hn Ht H H'.
    destruct xs as [|x0 rest]; [discriminate|].
    assert (Hne : rest <> []) by (destruct rest; [cbn in Hn; lia|discriminate]).
    assert (Hlen : 0 < @xrange RNum (x0 :: rest)).
    { unfold xrange. cbn [hd]. pose proof (incrR_range rest x0 Hinc Hne) as Hr. cbn. cbn in Hr. lra. }
    set (len := @xrange RNum (x0 :: rest)) in *.
    assert (E : forall u, @linkage_labels RNum lk (x0 :: rest) u =
                Some (0%nat :: match lk with Single => @single_go RNum len u x0 rest 0 | _ => @complete_go RNum len u x0 rest 0 end)).
    { intros u. destruct Hlk as [-> | ->]; reflexivity. }
    rewrite E in H, H'. apply some_inj in H. apply some_inj in H'. subst lab lab'. unfold nclusters.
    destruct Hlk as [-> | ->].
    - rewrite !(@single_last RNum). pose proof (ssplits_mono len t t' Ht rest x0). lia.
    - rewrite !(@complete_last RNum).
      pose proof (csplits_mono len t t' Hlen Ht rest x0 x0 ltac:(lra) (incrR_chain rest x0 Hinc)). lia.
  Qed.
End Monotone.

(* ------------------------------------------------------------------------------------------ *)
(* Tier O on binary64: unless t or the distance is NaN, all four loops decide `t <= distance` *)
From Coq Require Import PrimFloat.
From Knee Require Import NumFloat OrdLaws FloatOrder.

Lemma newb_geb_float : forall lk (t d : float),
  f_isnan t = false -> f_isnan d = false -> @newb FloatNum lk t d = PrimFloat.leb t d.
Proof.
  intros lk t d Ht Hd. apply (@newb_geb FloatNum).
  apply (ord_ltb _ float_total_preorder d t); assumption.
Qed.
