(* Proofs/ScoresReal.v — C19, Tier A (RNum): signs, zero on exact detection, ranges of accuracy / F1 / MCC, = 1 on
   perfect detection. *)
From Coq Require Import Reals ZArith List Arith Bool Lia Lra Psatz.
From Knee Require Import Num NumR NpList Model.Scores Proofs.NpSumR Proofs.ScoresFacts.
Import ListNotations.
Local Open Scope R_scope.

Notation rpoint := (@point RNum).

(* ---------------------------------------------------------------------------------------------- *)
(* np.argmin on reals returns a position of a minimum *)
Lemma argmin_go_R : forall (l : list R) i best bi,
  (@argmin_go RNum l i best bi = bi /\ forall x, In x l -> best <= x) \/
  (exists k, @argmin_go RNum l i best bi = (i + k)%nat /\ (k < length l)%nat /\ nth k l 0 <= best /\
             forall x, In x l -> nth k l 0 <= x).
Proof.
  induction l as [|x l IH]; intros i best bi; cbn [argmin_go].
  - left. split; auto. intros x [].
  - change (@isnan RNum best) with false. cbv iota. change (@leb RNum best x) with (Rleb best x).
    destruct (Rleb best x) eqn:E; cbn [negb].
    + apply Rleb_true in E. destruct (IH (S i) best bi) as [[H1 H2]|(k & H1 & H2 & H3 & H4)].
      * left. split; auto. intros y [<-|Hy]; auto.
      * right. exists (S k). rewrite H1. cbn [length nth]. repeat split; try lia; auto.
        intros y [<-|Hy]; [lra|auto].
    + apply Rleb_false in E. destruct (IH (S i) x i) as [[H1 H2]|(k & H1 & H2 & H3 & H4)].
      * right. exists 0%nat. rewrite H1. cbn [length nth]. repeat split; try lia; try lra.
        intros y [<-|Hy]; [lra|auto].
      * right. exists (S k). rewrite H1. cbn [length nth]. repeat split; try lia; try lra.
        intros y [<-|Hy]; [lra|auto].
Qed.
Lemma argmin_R_min (l : list R) : l <> [] -> forall x, In x l -> nth (@argmin RNum l) l 0 <= x.
Proof.
  destruct l as [|a l]; [congruence|]. intros _ x Hx. unfold argmin.
  destruct (argmin_go_R l 1 a 0) as [[H1 H2]|(k & H1 & H2 & H3 & H4)]; rewrite H1; cbn [nth].
  - destruct Hx as [<-|Hx]; [lra|auto].
  - cbn [Nat.add]. destruct Hx as [<-|Hx]; [lra|auto].
Qed.

(* ---------------------------------------------------------------------------------------------- *)
(* the per-point terms on reals *)
Lemma np_sum2_R (x y : R) : @np_sum RNum [x; y] = x + y.
Proof. rewrite np_sum_R. cbn. lra. Qed.
Lemma l1_term_R (p q : rpoint) : @l1_term RNum p q = Rabs (fst p - fst q) + Rabs (snd p - snd q).
Proof. unfold l1_term. apply np_sum2_R. Qed.
Lemma l2_term_R (p q : rpoint) : @l2_term RNum p q = (fst p - fst q) * (fst p - fst q) + (snd p - snd q) * (snd p - snd q).
Proof. unfold l2_term. apply np_sum2_R. Qed.
Lemma norm2_R (p q : rpoint) :
  @norm2 RNum p q = R_sqrt.sqrt ((fst q - fst p) * (fst q - fst p) + (snd q - snd p) * (snd q - snd p)).
Proof. unfold norm2. rewrite np_sum2_R. reflexivity. Qed.
Lemma norm2_refl (p : rpoint) : @norm2 RNum p p = 0.
Proof. rewrite norm2_R. replace (_ + _) with 0 by ring. apply sqrt_0. Qed.
Lemma norm2_nonneg (p q : rpoint) : 0 <= @norm2 RNum p q.
Proof. rewrite norm2_R. apply sqrt_pos. Qed.
Lemma norm2_zero (p q : rpoint) : @norm2 RNum p q = 0 -> q = p.
Proof.
  rewrite norm2_R. intros H. apply sqrt_eq_0 in H; [|apply Rplus_le_le_0_compat; apply Rle_0_sqr].
  destruct p as [px py], q as [qx qy]. cbn [fst snd] in H.
  destruct (Rplus_sqr_eq_0 (qx - px) (qy - py) H). f_equal; lra.
Qed.

Lemma in_indexed {A} (d : A) (a : list A) : forall s i p,
  In (i, p) (combine (seq s (length a)) a) -> (s <= i < s + length a)%nat /\ nth (i - s) a d = p.
Proof.
  induction a as [|x a IH]; intros s i p H; cbn [length seq combine] in H; [contradiction|].
  destruct H as [H|H].
  - inversion H; subst. cbn [length]. rewrite Nat.sub_diag. split; [lia|reflexivity].
  - apply IH in H. destruct H as [H1 H2]. cbn [length]. split; [lia|].
    replace (i - s)%nat with (S (i - S s)) by lia. exact H2.
Qed.

Section ErrReal.
  Variable dist : nat -> nat -> R.

  Lemma fold_seq_sum_R (l : list R) : @seq_sum RNum l = Rsum l.
  Proof. apply seq_sum_R. Qed.

  Lemma mean_err_nonneg (term : rpoint -> rpoint -> R) (a b : list rpoint) :
    (forall p q, 0 <= term p q) -> a <> [] -> 0 <= @mean_err RNum dist term a b.
  Proof.
    intros Ht Ha. rewrite mean_err_is_spec. unfold mean_err_spec. rewrite seq_sum_R.
    change (@div RNum) with Rdiv. change (@mul RNum) with Rmult. unfold two, ofN. change (@ofZ RNum) with IZR.
    rewrite <- INR_IZR_INZ.
    match goal with |- context [INR ?k] => assert (0 < INR k) by (apply lt_0_INR; destruct a; [congruence|cbn; lia]) end.
    apply Rle_mult_inv_pos; [|lra].
    apply Rsum_nonneg. apply Forall_forall. intros x Hx. apply in_map_iff in Hx. destruct Hx as (ip & <- & _). apply Ht.
  Qed.

  Lemma sides_nonempty (s : strategy) (kp ex : list rpoint) : kp <> [] -> ex <> [] -> fst (sides s kp ex) <> [].
  Proof.
    intros Hk He. destruct (sides_spec s kp ex) as [[H|H] _]; injection H as H1 H2; rewrite H1; auto.
  Qed.

  (* >= 0, for every neighbour oracle *)
  Theorem mae_nonneg s kp ex : kp <> [] -> ex <> [] -> 0 <= @mae RNum dist s kp ex.
  Proof.
    intros Hk He. pose proof (sides_nonempty s kp ex Hk He) as Hne. unfold mae.
    destruct (sides s kp ex) as [a b]. apply mean_err_nonneg; auto.
    intros p q. rewrite l1_term_R. pose proof (Rabs_pos (fst p - fst q)). pose proof (Rabs_pos (snd p - snd q)). lra.
  Qed.
  Theorem mse_nonneg s kp ex : kp <> [] -> ex <> [] -> 0 <= @mse RNum dist s kp ex.
  Proof.
    intros Hk He. pose proof (sides_nonempty s kp ex Hk He) as Hne. unfold mse.
    destruct (sides s kp ex) as [a b]. apply mean_err_nonneg; auto.
    intros p q. rewrite l2_term_R. apply Rplus_le_le_0_compat; apply Rle_0_sqr.
  Qed.
  Theorem rmse_nonneg s kp ex : 0 <= @rmse RNum dist s kp ex.
  Proof. unfold rmse. apply sqrt_pos. Qed.
  Theorem rmspe_nonneg s kp ex : 0 <= @rmspe RNum dist s kp ex.
  Proof. unfold rmspe. destruct (sides s kp ex). apply sqrt_pos. Qed.
End ErrReal.

(* ---------------------------------------------------------------------------------------------- *)
(* zero on exact detection: neighbours chosen by the Euclidean distance (the closed form of the oracle) *)
Section Exact.
  Variables a b : list rpoint.
  Notation dist := (@dist_closed RNum a b).
  Notation d0 := (@pzero RNum).

  Lemma nn_exact i : (i < length a)%nat -> In (nth i a d0) b -> @nn RNum dist b i = nth i a d0.
  Proof.
    intros Hi Hin. unfold nn, nn_idx.
    set (L := map (dist i) (seq 0 (length b))).
    assert (Hb : b <> []) by (destruct b; [contradiction|discriminate]).
    assert (HL : L <> []).
    { unfold L. destruct b; [congruence|]. cbn. discriminate. }
    assert (Hlen : length L = length b) by (unfold L; rewrite map_length, seq_length; reflexivity).
    pose proof (@argmin_lt RNum L HL) as Hm. rewrite Hlen in Hm.
    set (m := @argmin RNum L) in *.
    assert (Hnth : forall j, (j < length b)%nat -> nth j L 0 = @norm2 RNum (nth i a d0) (nth j b d0)).
    { intros j Hj. unfold L. rewrite (nth_indep _ 0 (dist i 0%nat)) by (rewrite map_length, seq_length; exact Hj).
      rewrite map_nth, seq_nth by exact Hj. reflexivity. }
    destruct (In_nth b (nth i a d0) d0 Hin) as (j0 & Hj0 & Ej0).
    assert (Hmin : nth m L 0 <= nth j0 L 0).
    { apply argmin_R_min; auto. apply nth_In. rewrite Hlen. exact Hj0. }
    rewrite (Hnth m Hm), (Hnth j0 Hj0), Ej0, norm2_refl in Hmin.
    apply norm2_zero. pose proof (norm2_nonneg (nth i a d0) (nth m b d0)). lra.
  Qed.

  Hypothesis Hsub : forall p, In p a -> In p b.

  Lemma indexed_terms_zero (term : rpoint -> rpoint -> R) :
    (forall p, term p p = 0) ->
    Forall (fun x => x = 0) (map (fun ip => term (snd ip) (@nn RNum dist b (fst ip))) (indexed a)).
  Proof.
    intros Ht. apply Forall_forall. intros x Hx. apply in_map_iff in Hx. destruct Hx as ([i p] & <- & Hip).
    unfold indexed in Hip. apply (in_indexed d0) in Hip. destruct Hip as [Hi Hp]. rewrite Nat.sub_0_r in Hp.
    cbn [fst snd]. rewrite nn_exact; [|lia|rewrite Hp; apply Hsub; rewrite <- Hp; apply nth_In; lia].
    rewrite Hp. apply Ht.
  Qed.

  Lemma mean_err_exact (term : rpoint -> rpoint -> R) : (forall p, term p p = 0) -> @mean_err RNum dist term a b = 0.
  Proof.
    intros Ht. rewrite mean_err_is_spec. unfold mean_err_spec. rewrite seq_sum_R.
    rewrite Rsum_zero by (apply indexed_terms_zero; exact Ht).
    change (@div RNum) with Rdiv. unfold Rdiv. apply Rmult_0_l.
  Qed.

  Lemma rmspe_exact : @rmspe_spec RNum dist a b = 0.
  Proof.
    unfold rmspe_spec. rewrite np_mean_R.
    assert (HZ : Forall (fun x => x = 0)
                   (map (@sq RNum) (flat_map (fun ip => @pe_terms RNum (snd ip) (@nn RNum dist b (fst ip))) (indexed a)))).
    { apply Forall_forall. intros x Hx. apply in_map_iff in Hx. destruct Hx as (e & <- & He).
      apply in_flat_map in He. destruct He as ([i p] & Hip & He).
      unfold indexed in Hip. apply (in_indexed d0) in Hip. destruct Hip as [Hi Hp]. rewrite Nat.sub_0_r in Hp.
      cbn [fst snd] in He. rewrite nn_exact in He; [|lia|rewrite Hp; apply Hsub; rewrite <- Hp; apply nth_In; lia].
      rewrite Hp in He. unfold pe_terms in He. cbn [In] in He.
      change (@sub RNum) with Rminus in He. change (@div RNum) with Rdiv in He.
      unfold sq. change (@mul RNum) with Rmult.
      destruct He as [<-|[<-|[]]]; unfold Rminus, Rdiv; rewrite Rplus_opp_r, Rmult_0_l; ring. }
    rewrite (Rsum_zero _ HZ). unfold Rdiv. rewrite Rmult_0_l. apply sqrt_0.
  Qed.
End Exact.

(* all four scores vanish when every point of the iterated side occurs in the searched side — in particular when
   E is exactly the knee points (as a set, any order), for every strategy *)
Theorem scores_zero_on_exact (s : strategy) (kp ex : list rpoint) :
  let a := fst (sides s kp ex) in let b := snd (sides s kp ex) in
  (forall p, In p a -> In p b) ->
  let dist := @dist_closed RNum a b in
  @mae RNum dist s kp ex = 0 /\ @mse RNum dist s kp ex = 0 /\ @rmse RNum dist s kp ex = 0 /\ @rmspe RNum dist s kp ex = 0.
Proof.
  intros a b Hsub dist.
  assert (Hmse : @mse RNum dist s kp ex = 0).
  { unfold mse. fold a b. replace (sides s kp ex) with (a, b) by (unfold a, b; destruct (sides s kp ex); reflexivity).
    apply mean_err_exact; auto. intros p. rewrite l2_term_R. ring. }
  split; [|split; [exact Hmse|split]].
  - unfold mae. replace (sides s kp ex) with (a, b) by (unfold a, b; destruct (sides s kp ex); reflexivity).
    apply mean_err_exact; auto. intros p. rewrite l1_term_R. unfold Rminus. rewrite !Rplus_opp_r, Rabs_R0. ring.
  - unfold rmse. rewrite Hmse. apply sqrt_0.
  - rewrite rmspe_is_spec. fold a b. apply rmspe_exact; auto.
Qed.

Corollary scores_zero_when_expected_is_knees (s : strategy) (kp ex : list rpoint) :
  (forall p, In p kp <-> In p ex) ->
  let dist := @dist_closed RNum (fst (sides s kp ex)) (snd (sides s kp ex)) in
  @mae RNum dist s kp ex = 0 /\ @mse RNum dist s kp ex = 0 /\ @rmse RNum dist s kp ex = 0 /\ @rmspe RNum dist s kp ex = 0.
Proof.
  intros H. apply scores_zero_on_exact.
  destruct (sides_spec s kp ex) as [[E|E] _]; injection E as E1 E2; rewrite E1, E2; intros p; apply H.
Qed.

(* ---------------------------------------------------------------------------------------------- *)
(* accuracy, F1, MCC over non-negative integers embedded in R *)
Lemma div_01 (x y : R) : 0 <= x <= y -> 0 < y -> 0 <= x / y <= 1.
Proof.
  intros [H0 H1] Hy. split; [apply Rle_mult_inv_pos; auto|].
  apply (Rmult_le_reg_r y); [exact Hy|]. unfold Rdiv. rewrite Rmult_assoc, Rinv_l by lra. lra.
Qed.
Lemma div_11 (x y : R) : Rabs x <= y -> 0 < y -> -1 <= x / y <= 1.
Proof.
  intros Hx Hy. assert (Hb : - y <= x <= y) by (apply Rabs_le_inv in Hx || (split; [pose proof (Rle_abs (-x)); rewrite Rabs_Ropp in *; lra|pose proof (Rle_abs x); lra])).
  split.
  - apply (Rmult_le_reg_r y); [exact Hy|]. unfold Rdiv. rewrite Rmult_assoc, Rinv_l by lra. lra.
  - apply (Rmult_le_reg_r y); [exact Hy|]. unfold Rdiv. rewrite Rmult_assoc, Rinv_l by lra. lra.
Qed.

Theorem accuracy_range (tp fp fn tn : Z) :
  (0 <= tp)%Z -> (0 <= fp)%Z -> (0 <= fn)%Z -> (0 <= tn)%Z -> (tp + tn + fp + fn <> 0)%Z ->
  0 <= @accuracy RNum tp fp fn tn <= 1.
Proof.
  intros. unfold accuracy. change (@div RNum) with Rdiv. change (@ofZ RNum) with IZR.
  apply div_01; [split|]; [apply IZR_le; lia|apply IZR_le; lia|apply IZR_lt; lia].
Qed.
Theorem f1_range (tp fp fn : Z) :
  (0 <= tp)%Z -> (0 <= fp)%Z -> (0 <= fn)%Z -> (2 * tp + fp + fn <> 0)%Z ->
  0 <= @f1score RNum tp fp fn <= 1.
Proof.
  intros. unfold f1score, two. change (@div RNum) with Rdiv. change (@mul RNum) with Rmult. change (@ofZ RNum) with IZR.
  rewrite <- mult_IZR.
  apply div_01; [split|]; [apply IZR_le; lia|apply IZR_le; lia|apply IZR_lt; lia].
Qed.

(* (a+b)(a+c)(d+b)(d+c) - (ad-bc)^2 = 4abcd + (ad+bc)(ab+cd+ac+bd) + (ac+bd)(ab+cd) >= 0 *)
Lemma mcc_identity (a b c d : Z) :
  (mcc_den2 a b c d - (a * d - b * c) * (a * d - b * c) =
   4 * a * b * c * d + (a * d + b * c) * (a * b + c * d + a * c + b * d) + (a * c + b * d) * (a * b + c * d))%Z.
Proof. unfold mcc_den2. ring. Qed.
Lemma mcc_num_le (a b c d : Z) : (0 <= a)%Z -> (0 <= b)%Z -> (0 <= c)%Z -> (0 <= d)%Z ->
  ((a * d - b * c) * (a * d - b * c) <= mcc_den2 a b c d)%Z.
Proof.
  intros Ha Hb Hc Hd. pose proof (mcc_identity a b c d) as E.
  assert (0 <= 4 * a * b * c * d)%Z by (repeat apply Z.mul_nonneg_nonneg; lia).
  assert (0 <= (a * d + b * c) * (a * b + c * d + a * c + b * d))%Z
    by (apply Z.mul_nonneg_nonneg; repeat apply Z.add_nonneg_nonneg; apply Z.mul_nonneg_nonneg; lia).
  assert (0 <= (a * c + b * d) * (a * b + c * d))%Z
    by (apply Z.mul_nonneg_nonneg; repeat apply Z.add_nonneg_nonneg; apply Z.mul_nonneg_nonneg; lia).
  lia.
Qed.
Theorem mcc_range (tp fp fn tn : Z) :
  (0 <= tp)%Z -> (0 <= fp)%Z -> (0 <= fn)%Z -> (0 <= tn)%Z -> (0 < mcc_den2 tp fp fn tn)%Z ->
  -1 <= @mcc RNum tp fp fn tn <= 1.
Proof.
  intros Ha Hb Hc Hd HP. unfold mcc. change (@div RNum) with Rdiv. change (@ofZ RNum) with IZR. change (@sqrt RNum) with R_sqrt.sqrt.
  apply div_11; [|apply sqrt_lt_R0; apply IZR_lt; exact HP].
  set (nz := (tp * tn - fp * fn)%Z).
  rewrite <- sqrt_Rsqr_abs. apply sqrt_le_1_alt. unfold Rsqr. rewrite <- mult_IZR. apply IZR_le.
  apply mcc_num_le; auto.
Qed.

(* perfect detection: FP = FN = 0 and at least one knee (and at least one true negative for MCC) *)
Theorem perfect_scores (tp tn : Z) : (0 < tp)%Z -> (0 <= tn)%Z ->
  @accuracy RNum tp 0 0 tn = 1 /\ @f1score RNum tp 0 0 = 1 /\ ((0 < tn)%Z -> @mcc RNum tp 0 0 tn = 1).
Proof.
  intros Hp Hn. unfold accuracy, f1score, mcc, mcc_den2, two.
  change (@div RNum) with Rdiv. change (@mul RNum) with Rmult. change (@ofZ RNum) with IZR. change (@sqrt RNum) with R_sqrt.sqrt.
  split; [|split].
  - replace (tp + tn + 0 + 0)%Z with (tp + tn)%Z by lia. apply Rinv_r. apply not_0_IZR. lia.
  - replace (2 * tp + 0 + 0)%Z with (2 * tp)%Z by lia. rewrite <- mult_IZR. apply Rinv_r. apply not_0_IZR. lia.
  - intros Hn'. replace (tp * tn - 0 * 0)%Z with (tp * tn)%Z by lia.
    replace ((tp + 0) * (tp + 0) * (tn + 0) * (tn + 0))%Z with ((tp * tn) * (tp * tn))%Z by ring.
    rewrite (mult_IZR (tp * tn) (tp * tn)). fold (Rsqr (IZR (tp * tn))).
    assert (0 < IZR (tp * tn)) by (apply IZR_lt; nia).
    rewrite sqrt_Rsqr by lra. apply Rinv_r. lra.
Qed.
