(* Proofs/HullExactFacts.v — C18: the exact-integer evaluation of the geometric predicates (what the judge runs,
   ZNum) IS the real-number predicate of the Tier-A theorems on the same points: IZR is a ring morphism that
   preserves the order, and the predicates are built from + - * and comparisons with 0 only.
   Corollary: on integer (= scaled dyadic) coordinates the exact model's lower / upper hull is correct. *)
From Coq Require Import Reals ZArith Lra List Arith Bool Lia.
From Knee Require Import Num NumR NpList Model.Hull Model.HullExact Proofs.ListFacts Proofs.HullScan Proofs.HullCorrect.
Import ListNotations.

Definition IZRp (p : Z * Z) : R * R := (IZR (fst p), IZR (snd p)).

Lemma pairb_ext p q l : (forall a b, p a b = q a b) -> pairb p l = pairb q l.
Proof. intros H. induction l as [|a [|b l'] IH]; cbn [pairb]; auto. rewrite H. f_equal. exact IH. Qed.
Lemma tripb_ext p q l : (forall a b c, p a b c = q a b c) -> tripb p l = tripb q l.
Proof. intros H. induction l as [|a [|b [|c l']] IH]; cbn [tripb]; auto. rewrite H. f_equal. exact IH. Qed.
Lemma forallb_ext' {A} (f g : A -> bool) l : (forall a, f a = g a) -> forallb f l = forallb g l.
Proof. intros H. induction l as [|a l IH]; cbn [forallb]; auto. rewrite H, IH. reflexivity. Qed.
Lemma filter_ext' {A} (f g : A -> bool) l : (forall a, f a = g a) -> filter f l = filter g l.
Proof. intros H. induction l as [|a l IH]; cbn [filter]; auto. rewrite H, IH. reflexivity. Qed.

Section Transfer.
  Variable zpts : list (Z * Z).
  Let rpts : list (R * R) := map IZRp zpts.

  Lemma ccw_idx_IZR a b c : @ccw_idx RNum rpts a b c = IZR (@ccw_idx ZNum zpts a b c).
  Proof.
    unfold ccw_idx, rpts.
    change (@pt0 RNum) with (IZRp (@pt0 ZNum)). rewrite !map_nth.
    unfold ccw, IZRp. cbn [fst snd T sub mul RNum ZNum].
    rewrite !minus_IZR, !mult_IZR, !minus_IZR. reflexivity.
  Qed.
  Lemma pos_IZR z : @pos RNum (IZR z) = @pos ZNum z.
  Proof.
    unfold pos. cbn [ltb zero RNum ZNum]. destruct (Z.ltb_spec 0 z) as [H|H].
    - apply Rltb_true. apply (IZR_lt 0 z). exact H.
    - apply Rltb_false. apply (IZR_le z 0). exact H.
  Qed.
  Lemma negt_IZR z : @negt RNum (IZR z) = @negt ZNum z.
  Proof.
    unfold negt. cbn [ltb zero RNum ZNum]. destruct (Z.ltb_spec z 0) as [H|H].
    - apply Rltb_true. apply (IZR_lt z 0). exact H.
    - apply Rltb_false. apply (IZR_le 0 z). exact H.
  Qed.
  Lemma nonneg_IZR z : @nonneg RNum (IZR z) = @nonneg ZNum z.
  Proof.
    unfold nonneg. cbn [leb zero RNum ZNum]. destruct (Z.leb_spec 0 z) as [H|H].
    - apply Rleb_true. apply (IZR_le 0 z). exact H.
    - apply Rleb_false. apply (IZR_lt z 0). exact H.
  Qed.
  Lemma nonpos_IZR z : @nonpos RNum (IZR z) = @nonpos ZNum z.
  Proof.
    unfold nonpos. cbn [leb zero RNum ZNum]. destruct (Z.leb_spec z 0) as [H|H].
    - apply Rleb_true. apply (IZR_le z 0). exact H.
    - apply Rleb_false. apply (IZR_lt 0 z). exact H.
  Qed.

  Section Signs.
    Variable sR wR : R -> bool.
    Variable sZ wZ : Z -> bool.
    Hypothesis Hs : forall z, sR (IZR z) = sZ z.
    Hypothesis Hw : forall z, wR (IZR z) = wZ z.
    Lemma hull_geomb_IZR out : @hull_geomb RNum sR wR rpts out = @hull_geomb ZNum sZ wZ zpts out.
    Proof.
      unfold hull_geomb. unfold rpts at 1 5. rewrite map_length. fold rpts.
      f_equal; [f_equal; [f_equal|]|].
      - unfold coversb. apply pairb_ext. intros a b. apply forallb_ext'. intros k. rewrite ccw_idx_IZR. apply Hw.
      - unfold convexb. apply tripb_ext. intros a b c. rewrite ccw_idx_IZR. apply Hs.
      - f_equal. unfold brute_chain. apply filter_ext'. intros k. unfold vertexb.
        apply forallb_ext'. intros a. apply forallb_ext'. intros b. rewrite ccw_idx_IZR. apply Hs.
    Qed.
  End Signs.

  Theorem lower_geomb_exact out : @lower_geomb ZNum zpts out = @lower_geomb RNum rpts out.
  Proof. symmetry. apply hull_geomb_IZR; [apply pos_IZR|apply nonneg_IZR]. Qed.
  Theorem upper_geomb_exact out : @upper_geomb ZNum zpts out = @upper_geomb RNum rpts out.
  Proof. symmetry. apply hull_geomb_IZR; [apply negt_IZR|apply nonpos_IZR]. Qed.

  Lemma x_increasing_IZR : forall l : list (Z * Z), @x_increasing RNum (map IZRp l) = @x_increasing ZNum l.
  Proof.
    induction l as [|p l IH]; [reflexivity|]. destruct l as [|q l']; [reflexivity|].
    cbn [map] in *.
    change (@x_increasing RNum (IZRp p :: IZRp q :: map IZRp l'))
      with (@ltb RNum (fst (IZRp p)) (fst (IZRp q)) && @x_increasing RNum (IZRp q :: map IZRp l')).
    change (@x_increasing ZNum (p :: q :: l')) with (@ltb ZNum (fst p) (fst q) && @x_increasing ZNum (q :: l')).
    rewrite IH. f_equal.
    unfold IZRp. cbn [fst ltb RNum ZNum]. destruct (Z.ltb_spec (fst p) (fst q)) as [H|H].
    - apply Rltb_true. apply IZR_lt. exact H.
    - apply Rltb_false. apply IZR_le. exact H.
  Qed.
  Lemma scan_lower_IZR : @graham_scan_lower RNum rpts = @graham_scan_lower ZNum zpts.
  Proof.
    unfold graham_scan_lower, lower_with. unfold rpts at 2. rewrite map_length. apply scan_ext. intros a b i.
    unfold lower_test. rewrite ccw_idx_IZR. apply nonpos_IZR.
  Qed.
  Lemma scan_upper_IZR : @graham_scan_upper RNum rpts = @graham_scan_upper ZNum zpts.
  Proof.
    unfold graham_scan_upper, upper_with. unfold rpts at 2. rewrite map_length. apply scan_ext. intros a b i.
    unfold upper_test. rewrite ccw_idx_IZR. apply nonpos_IZR.
  Qed.

  (* the exact model on integer coordinates returns the true lower / upper hull *)
  Theorem lower_hull_correct_exact : @x_increasing ZNum zpts = true -> 2 <= length zpts ->
    @lower_geomb ZNum zpts (@graham_scan_lower ZNum zpts) = true.
  Proof.
    intros Hx Hn. rewrite lower_geomb_exact, <- scan_lower_IZR. apply lower_hull_correct.
    - unfold rpts. rewrite x_increasing_IZR. exact Hx.
    - unfold rpts. rewrite map_length. exact Hn.
  Qed.
  Theorem upper_hull_correct_exact : @x_increasing ZNum zpts = true -> 2 <= length zpts ->
    @upper_geomb ZNum zpts (@graham_scan_upper ZNum zpts) = true.
  Proof.
    intros Hx Hn. rewrite upper_geomb_exact, <- scan_upper_IZR. apply upper_hull_correct.
    - unfold rpts. rewrite x_increasing_IZR. exact Hx.
    - unfold rpts. rewrite map_length. exact Hn.
  Qed.

  (* ---- graham_scan: the predicates of the general-position clause *)
  Lemma eqb_IZR a b : Reqb (IZR a) (IZR b) = Z.eqb a b.
  Proof.
    destruct (Z.eqb_spec a b) as [->|H]; [apply Reqb_true; reflexivity|].
    apply Reqb_false. intros E. apply eq_IZR in E. contradiction.
  Qed.
  Lemma ltb_IZR a b : Rltb (IZR a) (IZR b) = Z.ltb a b.
  Proof.
    destruct (Z.ltb_spec a b) as [H|H]; [apply Rltb_true; apply IZR_lt; exact H|apply Rltb_false; apply IZR_le; exact H].
  Qed.
  Lemma existsb_ext' {A} (f g : A -> bool) l : (forall a, f a = g a) -> existsb f l = existsb g l.
  Proof. intros H. induction l as [|a l IH]; cbn [existsb]; auto. rewrite H, IH. reflexivity. Qed.

  Lemma nth_rpts i : nth i rpts (@pt0 RNum) = IZRp (nth i zpts (@pt0 ZNum)).
  Proof. unfold rpts. change (@pt0 RNum) with (IZRp (@pt0 ZNum)). apply map_nth. Qed.
  Lemma len_rpts : @length (@pt RNum) rpts = @length (@pt ZNum) zpts.
  Proof. unfold rpts. apply map_length. Qed.
  Lemma dotk_IZR k a b : @dotk RNum rpts k a b = IZR (@dotk ZNum zpts k a b).
  Proof.
    unfold dotk. rewrite !nth_rpts. unfold IZRp. cbn [fst snd T add sub mul RNum ZNum].
    rewrite plus_IZR, !mult_IZR, !minus_IZR. reflexivity.
  Qed.
  Lemma boundaryb_IZR k : @boundaryb RNum rpts k = @boundaryb ZNum zpts k.
  Proof.
    unfold boundaryb. rewrite len_rpts.
    apply existsb_ext'. intros j. f_equal. f_equal; apply forallb_ext'; intros i; rewrite ccw_idx_IZR.
    - apply nonneg_IZR. - apply nonpos_IZR.
  Qed.
  Lemma betweenb_IZR k : @betweenb RNum rpts k = @betweenb ZNum zpts k.
  Proof.
    unfold betweenb. rewrite len_rpts.
    apply existsb_ext'. intros a. apply existsb_ext'. intros b. f_equal; [f_equal|].
    - rewrite ccw_idx_IZR. cbn [eqb zero RNum ZNum]. apply (eqb_IZR _ 0).
    - rewrite dotk_IZR. apply negt_IZR.
  Qed.
  Lemma extremeb_IZR k : @extremeb RNum rpts k = @extremeb ZNum zpts k.
  Proof. unfold extremeb. rewrite boundaryb_IZR, betweenb_IZR. reflexivity. Qed.
  Lemma lex_lt_IZR p q : @lex_lt RNum (IZRp p) (IZRp q) = @lex_lt ZNum p q.
  Proof. unfold lex_lt, IZRp. cbn [fst snd eqb ltb RNum ZNum]. rewrite !eqb_IZR, !ltb_IZR. reflexivity. Qed.
  Lemma pivot_go_IZR : forall (l : list (Z * Z)) i best bi,
    @pivot_go RNum (map IZRp l) i (IZRp best) bi = @pivot_go ZNum l i best bi.
  Proof.
    induction l as [|p l IH]; intros i best bi; [reflexivity|].
    cbn [map pivot_go]. rewrite lex_lt_IZR. destruct (@lex_lt ZNum p best); apply IH.
  Qed.
  Lemma pivot_min_IZR : @pivot_min RNum rpts = @pivot_min ZNum zpts.
  Proof. unfold pivot_min, rpts. destruct zpts as [|p l]; [reflexivity|]. cbn [map]. apply pivot_go_IZR. Qed.

  Theorem graham_gpb_exact out : @graham_gpb ZNum zpts out = @graham_gpb RNum rpts out.
  Proof.
    unfold graham_gpb. rewrite len_rpts. rewrite pivot_min_IZR.
    f_equal; [f_equal|].
    - f_equal. apply filter_ext'. intros k. symmetry. apply extremeb_IZR.
    - apply tripb_ext. intros a b c. rewrite ccw_idx_IZR. symmetry. apply negt_IZR.
  Qed.
  Theorem general_positionb_exact : @general_positionb ZNum zpts = @general_positionb RNum rpts.
  Proof.
    unfold general_positionb. rewrite len_rpts.
    apply forallb_ext'. intros i. apply forallb_ext'. intros j. apply forallb_ext'. intros k.
    rewrite ccw_idx_IZR. cbn [eqb zero RNum ZNum]. f_equal. symmetry. apply (eqb_IZR _ 0).
  Qed.
  Lemma find_row_IZR p : forall (l : list (Z * Z)) j, @find_row RNum (IZRp p) (map IZRp l) j = @find_row ZNum p l j.
  Proof.
    induction l as [|q l IH]; intros j; [reflexivity|].
    cbn [map find_row].
    assert (E : @pt_eqb RNum (IZRp q) (IZRp p) = @pt_eqb ZNum q p).
    { unfold pt_eqb, IZRp. cbn [fst snd eqb RNum ZNum]. rewrite !eqb_IZR. reflexivity. }
    rewrite E. destruct (@pt_eqb ZNum q p); [reflexivity|apply IH].
  Qed.
  Theorem distinctb_exact : @distinctb ZNum zpts = @distinctb RNum rpts.
  Proof.
    unfold distinctb. rewrite len_rpts. apply forallb_ext'. intros i.
    unfold first_eq. rewrite nth_rpts. unfold rpts. rewrite find_row_IZR. reflexivity.
  Qed.
End Transfer.
