(* Proofs/HullExactFacts.v — C18: the exact-integer evaluation of the geometric predicates (what the judge runs,
   ZNum) IS the real-number predicate of the Tier-A theorems on the same points: IZR is a ring morphism that
   preserves the order, and the predicates are built from + - * and comparisons with 0 only.
   Corollary: on integer (= scaled dyadic) coordinates the exact model's lower / upper hull is correct. *)
From Coq Require Import Reals ZArith Lra List Arith Bool Lia.
From Knee Require Import Num NumR NpList Model.Hull Model.HullExact Proofs.ListFacts Proofs.HullScan Proofs.HullCorrect.
Import ListNotations.

Definition IZRp (p : Z * Z) : R * R := (IZR (fst p), IZR (snd p)).

Lemma pairb_ext p q l : (forall a b, p a b = q a b) -> pairb p l = pairb q l.
Proof. intros H. induction l as [|a [|b l'] IH]; cbn [pairb]; auto. rewrite H. f_equal. exact IH. Qed.
Lemma tripb_ext p q l : (forall a b c, p a b c = q a b c) -> tripb p l = tripb q l.
Proof. intros H. induction l as [|a [|b [|c l']] IH]; cbn [tripb]; auto. rewrite H. f_equal. exact IH. Qed.
Lemma forallb_ext' {A} (f g : A -> bool) l : (forall a, f a = g a) -> forallb f l = forallb g l.
Proof. intros H. induction l as [|a l IH]; cbn [forallb]; auto. rewrite H, IH. reflexivity. Qed.
Lemma filter_ext' {A} (f g : A -> bool) l : (forall a, f a = g a) -> filter f l = filter g l.
Proof. intros H. induction l as [|a l IH]; cbn [filter]; auto. rewrite H, IH. reflexivity. Qed.

Section Transfer.
  Variable zpts : list (Z * Z).
  Let rpts : list (R * R) := map IZRp zpts.

  Lemma ccw_idx_IZR a b c : @ccw_idx RNum rpts a b c = IZR (@ccw_idx ZNum zpts a b c).
  Proof.
    unfold ccw_idx, rpts.
    change (@pt0 RNum) with (IZRp (@pt0 ZNum)). rewrite !map_nth.
    unfold ccw, IZRp. cbn [fst snd T sub mul RNum ZNum].
    rewrite !minus_IZR, !mult_IZR, !minus_IZR. reflexivity.
  Qed.
  Lemma pos_IZR z : @pos RNum (IZR z) = @pos ZNum z.
  Proof.
    unfold pos. cbn [ltb zero RNum ZNum]. destruct (Z.ltb_spec 0 z) as [H|H].
    - apply Rltb_true. apply (IZR_lt 0 z). exact H.
    - apply Rltb_false. apply (IZR_le z 0). exact H.
  Qed.
  Lemma negt_IZR z : @negt RNum (IZR z) = @negt ZNum z.
  Proof.
    unfold negt. cbn [ltb zero RNum ZNum]. destruct (Z.ltb_spec z 0) as [H|H].
    - apply Rltb_true. apply (IZR_lt z 0). exact H.
    - apply Rltb_false. apply (IZR_le 0 z). exact H.
  Qed.
  Lemma nonneg_IZR z : @nonneg RNum (IZR z) = @nonneg ZNum z.
  Proof.
    unfold nonneg. cbn [leb zero RNum ZNum]. destruct (Z.leb_spec 0 z) as [H|H].
    - apply Rleb_true. apply (IZR_le 0 z). exact H.
    - apply Rleb_false. apply (IZR_lt z 0). exact H.
  Qed.
  Lemma nonpos_IZR z : @nonpos RNum (IZR z) = @nonpos ZNum z.
  Proof.
    unfold nonpos. cbn [leb zero RNum ZNum]. destruct (Z.leb_spec z 0) as [H|H].
    - apply Rleb_true. apply (IZR_le z 0). exact H.
    - apply Rleb_false. apply (IZR_lt 0 z). exact H.
  Qed.

  Section Signs.
    Variable sR wR : R -> bool.
    Variable sZ wZ : Z -> bool.
    Hypothesis Hs : forall z, sR (IZR z) = sZ z.
    Hypothesis Hw : forall z, wR (IZR z) = wZ z.
    Lemma hull_geomb_IZR out : @hull_geomb RNum sR wR rpts out = @hull_geomb ZNum sZ wZ zpts out.
    Proof.
      unfold hull_geomb. unfold rpts at 1 5. rewrite map_length. fold rpts.
      f_equal; [f_equal; [f_equal|]|].
      - unfold coversb. apply pairb_ext. intros a b. apply forallb_ext'. intros k. rewrite ccw_idx_IZR. apply Hw.
      - unfold convexb. apply tripb_ext. intros a b c. rewrite ccw_idx_IZR. apply Hs.
      - f_equal. unfold brute_chain. apply filter_ext'. intros k. unfold vertexb.
        apply forallb_ext'. intros a. apply forallb_ext'. intros b. rewrite ccw_idx_IZR. apply Hs.
    Qed.
  End Signs.

  Theorem lower_geomb_exact out : @lower_geomb ZNum zpts out = @lower_geomb RNum rpts out.
  Proof. symmetry. apply hull_geomb_IZR; [apply pos_IZR|apply nonneg_IZR]. Qed.
  Theorem upper_geomb_exact out : @upper_geomb ZNum zpts out = @upper_geomb RNum rpts out.
  Proof. symmetry. apply hull_geomb_IZR; [apply negt_IZR|apply nonpos_IZR]. Qed.

  Lemma x_increasing_IZR : forall l : list (Z * Z), @x_increasing RNum (map IZRp l) = @x_increasing ZNum l.
  Proof.
    induction l as [|p l IH]; [reflexivity|]. destruct l as [|q l']; [reflexivity|].
    cbn [map] in *.
    change (@x_increasing RNum (IZRp p :: IZRp q :: map IZRp l'))
      with (@ltb RNum (fst (IZRp p)) (fst (IZRp q)) && @x_increasing RNum (IZRp q :: map IZRp l')).
    change (@x_increasing ZNum (p :: q :: l')) with (@ltb ZNum (fst p) (fst q) && @x_increasing ZNum (q :: l')).
    rewrite IH. f_equal.
    unfold IZRp. cbn [fst ltb RNum ZNum]. destruct (Z.ltb_spec (fst p) (fst q)) as [H|H].
    - apply Rltb_true. apply IZR_lt. exact H.
    - apply Rltb_false. apply IZR_le. exact H.
  Qed.
  Lemma scan_lower_IZR : @graham_scan_lower RNum rpts = @graham_scan_lower ZNum zpts.
  Proof.
    unfold graham_scan_lower, lower_with. unfold rpts at 2. rewrite map_length. apply scan_ext. intros a b i.
    unfold lower_test. rewrite ccw_idx_IZR. apply nonpos_IZR.
  Qed.
  Lemma scan_upper_IZR : @graham_scan_upper RNum rpts = @graham_scan_upper ZNum zpts.
  Proof.
    unfold graham_scan_upper, upper_with. unfold rpts at 2. rewrite map_length. apply scan_ext. intros a b i.
    unfold upper_test. rewrite ccw_idx_IZR. apply nonpos_IZR.
  Qed.

  (* the exact model on integer coordinates returns the true lower / upper hull *)
  Theorem lower_hull_correct_exact : @x_increasing ZNum zpts = true -> 2 <= length zpts ->
    @lower_geomb ZNum zpts (@graham_scan_lower ZNum zpts) = true.
  Proof.
    intros Hx Hn. rewrite lower_geomb_exact, <- scan_lower_IZR. apply lower_hull_correct.
    - unfold rpts. rewrite x_increasing_IZR. exact Hx.
    - unfold rpts. rewrite map_length. exact Hn.
  Qed.
  Theorem upper_hull_correct_exact : @x_increasing ZNum zpts = true -> 2 <= length zpts ->
    @upper_geomb ZNum zpts (@graham_scan_upper ZNum zpts) = true.
  Proof.
    intros Hx Hn. rewrite upper_geomb_exact, <- scan_upper_IZR. apply upper_hull_correct.
    - unfold rpts. rewrite x_increasing_IZR. exact Hx.
    - unfold rpts. rewrite map_length. exact Hn.
  Qed.
End Transfer.
