(* Proofs/ClusterFilterFacts.v — theorems about Model/ClusterFilter.v (property C12). *)
From Coq Require Import List Arith Bool Lia Permutation ZArith.
From Knee Require Import Num NpList OrdLaws Proofs.ListFacts Model.ClusterFilter.
Import ListNotations.
Local Open Scope num_scope.

(* ------------------------------------------------------------------------------------------ *)
(* generic list facts *)

Lemma mem_In k l : mem k l = true <-> In k l.
Proof.
  unfold mem. rewrite existsb_exists. split.
  - intros [x [Hin Hx]]. apply Nat.eqb_eq in Hx. subst. exact Hin.
  - intros H. exists k. split; auto. apply Nat.eqb_refl.
Qed.

Lemma last_nth_pred {A} (l : list A) d : last l d = nth (length l - 1) l d.
Proof.
  induction l as [|a [|b l'] IH]; auto.
  change (last (a :: b :: l') d) with (last (b :: l') d). rewrite IH. cbn [length].
  replace (S (S (length l')) - 1) with (S (length l' - 0)) by lia.
  cbn [nth]. replace (S (length l') - 1) with (length l' - 0) by lia. reflexivity.
Qed.
Lemma last_In {A} (l : list A) d : l <> [] -> In (last l d) l.
Proof.
  intros H. rewrite last_nth_pred. apply nth_In. destruct l; [congruence|cbn; lia].
Qed.

Lemma index_of_In x l : In x l -> index_of x l < length l /\ forall d, nth (index_of x l) l d = x.
Proof.
  induction l as [|y l IH]; intros H; [destruct H|].
  cbn [index_of]. destruct (Nat.eqb_spec y x) as [->|Hne].
  - split; [cbn; lia|reflexivity].
  - destruct H as [H|H]; [congruence|]. destruct (IH H) as [H1 H2]. split; [cbn; lia|]. intros d. cbn. apply H2.
Qed.
Lemma index_of_nth l : forall k d, NoDup l -> k < length l -> index_of (nth k l d) l = k.
Proof.
  induction l as [|y l IH]; intros k d Hnd Hk; [cbn in Hk; lia|].
  inversion Hnd as [|? ? Hny Hnd']; subst.
  destruct k as [|k]; cbn [nth index_of].
  - rewrite Nat.eqb_refl. reflexivity.
  - destruct (Nat.eqb_spec y (nth k l d)) as [He|Hne].
    + exfalso. apply Hny. rewrite He. apply nth_In. cbn in Hk; lia.
    + f_equal. apply IH; auto. cbn in Hk; lia.
Qed.

Lemma map_nth_lt {A B} (f : A -> B) l : forall i d d', i < length l -> nth i (map f l) d = f (nth i l d').
Proof.
  induction l as [|a l IH]; intros i d d' H; [cbn in H; lia|].
  destruct i; cbn; auto. apply IH. cbn in H; lia.
Qed.

(* ND helper *)
Lemma ND_le_all a l : ND (a :: l) -> Forall (fun x => a <= x) l.
Proof.
  revert a; induction l as [|b l IH]; intros a H; constructor.
  - cbn in H; tauto.
  - destruct H as [Hab H]. specialize (IH b H). eapply Forall_impl; [|exact IH]. cbn; intros; lia.
Qed.

Lemma SI_filter (g : nat -> bool) l : SI l -> SI (filter g l).
Proof.
  induction l as [|a l IH]; intros H; cbn [filter]; auto.
  pose proof (SI_lt_all a l H) as HF. specialize (IH (SI_tl _ _ H)).
  destruct (g a); auto. apply SI_cons; auto.
  rewrite Forall_forall in *. intros x Hx. apply filter_In in Hx. apply HF. tauto.
Qed.
Lemma SI_seq : forall len s, SI (seq s len).
Proof.
  induction len as [|len IH]; intros s; cbn [seq]; [exact I|].
  apply SI_cons; auto. rewrite Forall_forall. intros x Hx. apply in_seq in Hx. lia.
Qed.

(* ------------------------------------------------------------------------------------------ *)
(* np.argmax on integers, kr.rank, and their composition *)

Lemma argmax_nat_go_keep l : forall i best bi,
  (forall x, In x l -> x <= best) -> argmax_nat_go l i best bi = bi.
Proof.
  induction l as [|x l IH]; intros i best bi H; cbn [argmax_nat_go]; auto.
  assert (x <= best) by (apply H; left; auto).
  destruct (Nat.ltb_spec best x); [lia|]. apply IH. intros y Hy. apply H. right; auto.
Qed.
Lemma argmax_nat_go_unique l : forall i best bi p,
  p < length l -> best < nth p l 0 ->
  (forall j, j < length l -> j <> p -> nth j l 0 < nth p l 0) ->
  argmax_nat_go l i best bi = i + p.
Proof.
  induction l as [|x l IH]; intros i best bi p Hp Hb Hu; [cbn in Hp; lia|].
  cbn [argmax_nat_go]. destruct p as [|p].
  - cbn [nth] in *. destruct (Nat.ltb_spec best x); [|lia].
    rewrite argmax_nat_go_keep; [lia|].
    intros y Hy. destruct (In_nth _ _ 0 Hy) as [j [Hj Hnj]].
    specialize (Hu (S j) ltac:(cbn; lia) ltac:(lia)). cbn [nth] in Hu. lia.
  - cbn [nth] in Hb. cbn [length] in Hp.
    assert (Hu' : forall j, j < length l -> j <> p -> nth j l 0 < nth p l 0).
    { intros j Hj Hne. specialize (Hu (S j) ltac:(cbn; lia) ltac:(lia)). exact Hu. }
    pose proof (Hu 0 ltac:(cbn; lia) ltac:(lia)) as H0. cbn [nth] in H0.
    destruct (Nat.ltb_spec best x).
    + rewrite (IH (S i) x i p); [lia|lia|exact H0|exact Hu'].
    + rewrite (IH (S i) best bi p); [lia|lia|exact Hb|exact Hu'].
Qed.
Lemma argmax_nat_unique l p :
  p < length l -> (forall j, j < length l -> j <> p -> nth j l 0 < nth p l 0) -> argmax_nat l = p.
Proof.
  destruct l as [|x l]; intros Hp Hu; [cbn in Hp; lia|]. unfold argmax_nat.
  destruct p as [|p].
  - apply argmax_nat_go_keep. intros y Hy. destruct (In_nth _ _ 0 Hy) as [j [Hj Hnj]].
    specialize (Hu (S j) ltac:(cbn; lia) ltac:(lia)). cbn [nth] in Hu. lia.
  - rewrite (argmax_nat_go_unique l 1 x 0 p); [lia|cbn in Hp; lia| |].
    + specialize (Hu 0 ltac:(cbn; lia) ltac:(lia)). exact Hu.
    + intros j Hj Hne. specialize (Hu (S j) ltac:(cbn; lia) ltac:(lia)). exact Hu.
Qed.

(* rank followed by argmax selects the LAST element of the sorting permutation *)
Lemma rank_argmax_last perm m :
  Permutation perm (seq 0 m) -> 0 < m -> argmax_nat (rank_of perm) = last perm 0 /\ last perm 0 < m.
Proof.
  intros HP Hm.
  assert (Hlen : length perm = m) by (rewrite (Permutation_length HP); apply seq_length).
  assert (Hnd : NoDup perm) by (eapply Permutation_NoDup; [apply Permutation_sym; exact HP|apply seq_NoDup]).
  assert (Hin : forall i, In i perm <-> i < m).
  { intros i. split; intros H.
    - apply (Permutation_in _ HP) in H. apply in_seq in H. lia.
    - apply (Permutation_in _ (Permutation_sym HP)). apply in_seq. lia. }
  assert (Hne : perm <> []) by (destruct perm; [cbn in Hlen; lia|congruence]).
  pose proof (last_In perm 0 Hne) as Hl. set (p := last perm 0) in *.
  assert (Hpm : p < m) by (apply Hin; exact Hl).
  split; [|exact Hpm].
  assert (Hrk : forall i, i < m -> nth i (rank_of perm) 0 = index_of i perm).
  { intros i Hi. unfold rank_of. rewrite Hlen.
    rewrite (map_nth_lt (fun i => index_of i perm) (seq 0 m) i 0 0) by (rewrite seq_length; exact Hi).
    rewrite seq_nth by exact Hi. reflexivity. }
  assert (Hlr : length (rank_of perm) = m) by (unfold rank_of; rewrite map_length, seq_length; exact Hlen).
  assert (Hp1 : index_of p perm = m - 1).
  { unfold p. rewrite last_nth_pred. rewrite index_of_nth; auto; lia. }
  apply argmax_nat_unique; [lia|].
  intros j Hj Hjp. rewrite Hlr in Hj. rewrite (Hrk j Hj), (Hrk p Hpm), Hp1.
  destruct (index_of_In j perm (proj2 (Hin j) Hj)) as [H1 H2].
  assert (index_of j perm <> m - 1).
  { intros He. apply Hjp. rewrite <- (H2 0). rewrite He. unfold p. rewrite last_nth_pred, Hlen. reflexivity. }
  lia.
Qed.

(* ------------------------------------------------------------------------------------------ *)
(* clusters: members of a label *)

Lemma members_cons l ls k ks i :
  members (l :: ls) (k :: ks) i = if l =? i then k :: members ls ks i else members ls ks i.
Proof. unfold members. cbn [combine filter fst]. destruct (l =? i); reflexivity. Qed.
Lemma members_nil_l ks i : members [] ks i = [].
Proof. reflexivity. Qed.
Lemma members_nil_r ls i : members ls [] i = [].
Proof. unfold members. destruct ls; reflexivity. Qed.

Lemma members_In ls : forall ks i k, In k (members ls ks i) -> In k ks /\ In i ls.
Proof.
  induction ls as [|l ls IH]; intros ks i k H; [destruct H|].
  destruct ks as [|k0 ks]; [rewrite members_nil_r in H; destruct H|].
  rewrite members_cons in H. destruct (Nat.eqb_spec l i) as [->|Hne].
  - destruct H as [->|H]; [split; left; auto|]. destruct (IH _ _ _ H). split; right; auto.
  - destruct (IH _ _ _ H). split; right; auto.
Qed.
Lemma members_label ls : forall ks i k, NoDup ks -> In k (members ls ks i) -> label_of ls ks k = i.
Proof.
  induction ls as [|l ls IH]; intros ks i k Hnd H; [destruct H|].
  destruct ks as [|k0 ks]; [rewrite members_nil_r in H; destruct H|].
  inversion Hnd as [|? ? Hny Hnd']; subst.
  rewrite members_cons in H. unfold label_of. cbn [index_of].
  assert (Htail : In k (members ls ks i) -> nth (if k0 =? k then 0 else S (index_of k ks)) (l :: ls) 0 = i).
  { intros Hk. destruct (Nat.eqb_spec k0 k) as [->|Hne].
    - exfalso. apply Hny. apply (members_In _ _ _ _ Hk).
    - cbn [nth]. apply (IH ks i k Hnd' Hk). }
  destruct (Nat.eqb_spec l i) as [->|Hne].
  - destruct H as [->|H]; [rewrite Nat.eqb_refl; reflexivity|auto].
  - auto.
Qed.
Lemma members_NoDup ls : forall ks i, NoDup ks -> NoDup (members ls ks i).
Proof.
  induction ls as [|l ls IH]; intros ks i Hnd; [constructor|].
  destruct ks as [|k0 ks]; [rewrite members_nil_r; constructor|].
  inversion Hnd as [|? ? Hny Hnd']; subst. rewrite members_cons.
  destruct (l =? i); auto. constructor; auto. intros H. apply Hny. apply (members_In _ _ _ _ H).
Qed.
Lemma members_order ls : forall ks i j a b,
  ND ls -> SI ks -> i < j -> In a (members ls ks i) -> In b (members ls ks j) -> a < b.
Proof.
  induction ls as [|l ls IH]; intros ks i j a b Hnd Hsi Hij Ha Hb; [destruct Ha|].
  destruct ks as [|k0 ks]; [rewrite members_nil_r in Ha; destruct Ha|].
  rewrite members_cons in Ha, Hb.
  pose proof (SI_lt_all _ _ Hsi) as Hlt. rewrite Forall_forall in Hlt.
  pose proof (ND_le_all _ _ Hnd) as Hle. rewrite Forall_forall in Hle.
  assert (Hrec : In a (members ls ks i) -> In b (members ls ks j) -> a < b).
  { intros H1 H2. exact (IH ks i j a b (ND_tl _ _ Hnd) (SI_tl _ _ Hsi) Hij H1 H2). }
  destruct (Nat.eqb_spec l i) as [Hi|Hni]; destruct (Nat.eqb_spec l j) as [Hj|Hnj]; try lia.
  - destruct Ha as [->|Ha]; auto. apply Hlt. apply (members_In _ _ _ _ Hb).
  - destruct Hb as [->|Hb]; auto.
    exfalso. apply members_In in Ha. destruct Ha as [_ Ha]. specialize (Hle _ Ha). lia.
  - auto.
Qed.
Lemma members_nonempty ls : forall ks i, length ls = length ks -> In i ls -> members ls ks i <> [].
Proof.
  induction ls as [|l ls IH]; intros ks i Hlen Hin; [destruct Hin|].
  destruct ks as [|k0 ks]; [cbn in Hlen; lia|]. rewrite members_cons.
  destruct (Nat.eqb_spec l i) as [->|Hne]; [congruence|].
  destruct Hin as [Hin|Hin]; [congruence|]. apply IH; auto.
Qed.

(* label shape: first 0, steps 0 / +1 *)
Lemma steps01_ND l : steps01 l = true -> ND l.
Proof.
  induction l as [|a [|b l'] IH]; cbn [steps01 ND]; auto.
  rewrite andb_true_iff, orb_true_iff, !Nat.eqb_eq. intros [H1 H2]. split; [lia|]. apply IH. exact H2.
Qed.
Lemma max_label_cons a l : max_label (a :: l) = Nat.max a (max_label l).
Proof. reflexivity. Qed.
Lemma max_label_ge l : forall x, In x l -> x <= max_label l.
Proof.
  induction l as [|a l IH]; intros x H; [destruct H|]. rewrite max_label_cons.
  destruct H as [->|H]; [lia|]. specialize (IH x H). lia.
Qed.
Lemma steps01_contiguous l : forall a i, steps01 (a :: l) = true -> a <= i <= max_label (a :: l) -> In i (a :: l).
Proof.
  induction l as [|b l IH]; intros a i Hs Hi.
  - rewrite max_label_cons in Hi. cbn in Hi. left; lia.
  - cbn [steps01] in Hs. rewrite andb_true_iff, orb_true_iff, !Nat.eqb_eq in Hs. destruct Hs as [Hb Hs].
    destruct (Nat.eq_dec i a) as [->|Hne]; [left; auto|]. right.
    apply IH; auto. rewrite max_label_cons in Hi.
    pose proof (max_label_ge (b :: l) b (or_introl eq_refl)). lia.
Qed.
Lemma labels_ok_spec labels knees : labels_ok labels knees = true ->
  length labels = length knees /\ ND labels /\ forall i, i <= max_label labels -> In i labels.
Proof.
  unfold labels_ok. rewrite !andb_true_iff, !Nat.eqb_eq. intros [[Hl Hh] Hs].
  split; auto. split; [apply steps01_ND; auto|].
  destruct labels as [|a l]; [cbn in Hh; lia|]. cbn in Hh. subst a.
  intros i Hi. apply steps01_contiguous; auto. lia.
Qed.

(* ------------------------------------------------------------------------------------------ *)
(* the per-cluster loop *)

Definition picked (f : nat -> pick) (is : list nat) : list nat :=
  flat_map (fun i => match f i with PSome k => [k] | _ => [] end) is.

Lemma collect_picked f : forall is, (forall i, In i is -> f i <> PErr) -> collect (map f is) = Some (picked f is).
Proof.
  induction is as [|i is IH]; intros H; [reflexivity|].
  cbn [map collect picked flat_map]. specialize (IH (fun j Hj => H j (or_intror Hj))).
  pose proof (H i (or_introl eq_refl)) as Hi.
  destruct (f i) eqn:E; [congruence| |]; fold (picked f is); rewrite IH; reflexivity.
Qed.
Lemma picked_In f is x : In x (picked f is) <-> exists i, In i is /\ f i = PSome x.
Proof.
  unfold picked. rewrite in_flat_map. split; intros [i [Hi H]]; exists i; split; auto.
  - destruct (f i) as [| |k]; [destruct H|destruct H|]. destruct H as [->|[]]. reflexivity.
  - rewrite H. left; auto.
Qed.
Lemma picked_SI f (M : nat -> list nat) :
  (forall i j a b, i < j -> In a (M i) -> In b (M j) -> a < b) ->
  (forall i k, f i = PSome k -> In k (M i)) ->
  forall len s, SI (picked f (seq s len)).
Proof.
  intros Hord HM. induction len as [|len IH]; intros s; [exact I|].
  cbn [seq picked flat_map]. fold (picked f (seq (S s) len)).
  destruct (f s) eqn:E; cbn [app]; try apply IH.
  apply SI_cons; [|apply IH]. rewrite Forall_forall. intros x Hx.
  apply picked_In in Hx. destruct Hx as [j [Hj Hfj]]. apply in_seq in Hj.
  apply (Hord s j); [lia|apply HM; auto|apply HM; auto].
Qed.
Lemma picked_labels f (lab : nat -> nat) :
  (forall i k, f i = PSome k -> lab k = i) ->
  forall is, map lab (picked f is) = filter (fun i => match f i with PSome _ => true | _ => false end) is.
Proof.
  intros HL. induction is as [|i is IH]; [reflexivity|].
  cbn [picked flat_map filter]. fold (picked f is). rewrite map_app, IH.
  destruct (f i) eqn:E; cbn; auto. rewrite (HL i k E). reflexivity.
Qed.
Lemma nat_list_eqb_refl l : nat_list_eqb l l = true.
Proof. induction l as [|a l IH]; cbn; auto. rewrite Nat.eqb_refl. exact IH. Qed.
Lemma nat_list_eqb_eq a : forall b, nat_list_eqb a b = true -> a = b.
Proof.
  induction a as [|x a IH]; intros [|y b] H; cbn in H; try discriminate; auto.
  apply andb_true_iff in H. destruct H as [H1 H2]. apply Nat.eqb_eq in H1. f_equal; auto.
Qed.
Lemma filter_all_true {A} (g : A -> bool) l : (forall x, In x l -> g x = true) -> filter g l = l.
Proof.
  induction l as [|a l IH]; intros H; [reflexivity|]. cbn. rewrite (H a (or_introl eq_refl)).
  f_equal. apply IH. intros; apply H; right; auto.
Qed.

Lemma existsb_filter_nil {A} (g : A -> bool) l : filter g l = [] <-> existsb g l = false.
Proof.
  induction l as [|a l IH]; cbn; [tauto|]. destruct (g a); cbn; [split; intros; discriminate|exact IH].
Qed.
Lemma mem_span k hull : mem k hull = span_has_hull hull [k].
Proof.
  unfold mem, span_has_hull. cbn [hd last]. induction hull as [|h l IH]; [reflexivity|].
  cbn [existsb]. rewrite IH. f_equal.
  destruct (Nat.eqb_spec k h), (Nat.leb_spec k h), (Nat.leb_spec h k); cbn; auto; lia.
Qed.

Section Facts.
  Context {N : Num}.
  Variable sorter : list (T N) -> list nat.
  Variable score : list nat -> list (T N).
  Variable hull : list nat.
  Variable sdist : nat -> nat -> T N.
  Variable xs ys : list (T N).
  Hypothesis sorter_perm : forall l, Permutation (sorter l) (seq 0 (length l)).

  Notation cpick := (cluster_pick sorter score hull sdist xs).
  Notation fclusters := (filter_clusters sorter score hull sdist xs).

  Lemma pick_index_last r : r <> [] ->
    pick_index sorter r = last (sorter r) 0 /\ pick_index sorter r < length r.
  Proof.
    intros Hr. unfold pick_index.
    destruct (rank_argmax_last (sorter r) (length r) (sorter_perm r)) as [H1 H2].
    { destruct r; [congruence|cbn; lia]. }
    rewrite H1. auto.
  Qed.

  Lemma hull_rankings_length c r : hull_rankings hull sdist xs c = Some r -> length r = length c.
  Proof.
    unfold hull_rankings. destruct (hull_within hull (hd 0 c) (last c 0)) as [|h [|h' hw]]; intros H; inversion H;
      rewrite ?map_length; reflexivity.
  Qed.
  Lemma hull_rankings_none c : hull_rankings hull sdist xs c = None <-> span_has_hull hull c = false.
  Proof.
    unfold hull_rankings, span_has_hull, hull_within. rewrite <- existsb_filter_nil.
    destruct (filter _ hull) as [|h [|h' hw]]; split; intros H; try discriminate; auto.
  Qed.

  (* one cluster: never an exception on a non-empty cluster whose score list has the cluster's length; the
     representative is a member; in hull mode a cluster is represented only if its span holds a hull index *)
  Lemma cluster_pick_ok m c :
    c <> [] -> (is_hull m = false -> 2 <= length c -> length (score c) = length c) ->
    (cpick m c = PNone /\ is_hull m = true /\ span_has_hull hull c = false) \/
    (exists k, cpick m c = PSome k /\ In k c /\ (is_hull m = true -> span_has_hull hull c = true)).
  Proof.
    intros Hc Hshape. destruct c as [|k0 [|k1 c']]; [congruence| |].
    - cbn [cluster_pick]. destruct (is_hull m) eqn:Em.
      + rewrite mem_span. destruct (span_has_hull hull [k0]); [right|left]; eauto.
        exists k0. repeat split; auto. left; auto.
      + right. exists k0. repeat split; auto; [left; auto|congruence].
    - set (c := k0 :: k1 :: c') in *. unfold cluster_pick. fold c.
      change (match c with [] => PErr | [k] => _ | _ :: _ :: _ => ?X end) with X.
      destruct (is_hull m) eqn:Em.
      + destruct (hull_rankings hull sdist xs c) as [r|] eqn:Er.
        * right. pose proof (hull_rankings_length c r Er) as Hl.
          assert (Hr : r <> []) by (destruct r; [cbn in Hl; subst c; cbn in Hl; lia|congruence]).
          destruct (pick_index_last r Hr) as [_ Hlt]. rewrite Hl in Hlt.
          destruct (nth_error c (pick_index sorter r)) as [k|] eqn:En.
          -- exists k. split; auto. split; [eapply nth_error_In; eauto|].
             intros _. destruct (span_has_hull hull c) eqn:Es; auto.
             apply hull_rankings_none in Es. congruence.
          -- apply nth_error_None in En. lia.
        * left. repeat split; auto. apply hull_rankings_none; auto.
      + right. set (r := score c).
        assert (Hl : length r = length c) by (apply Hshape; auto; subst c; cbn; lia).
        assert (Hr : r <> []) by (destruct r; [cbn in Hl; subst c; cbn in Hl; lia|congruence]).
        destruct (pick_index_last r Hr) as [_ Hlt]. rewrite Hl in Hlt.
        destruct (nth_error c (pick_index sorter r)) as [k|] eqn:En.
        * exists k. split; auto. split; [eapply nth_error_In; eauto|congruence].
        * apply nth_error_None in En. lia.
  Qed.

End Facts.

(* ------------------------------------------------------------------------------------------ *)
(* the loop over clusters, for any per-cluster choice that returns a member *)

Section PerCluster.
  Variables labels knees : list nat.
  Hypothesis Hlab : labels_ok labels knees = true.
  Hypothesis Hsi : SI knees.

  Lemma Mi_nonempty i : i <= max_label labels -> members labels knees i <> [].
  Proof.
    intros Hi. destruct (labels_ok_spec _ _ Hlab) as [Hl [_ Hc]]. apply members_nonempty; auto.
  Qed.
  Lemma Mi_range i : members labels knees i <> [] -> i <= max_label labels.
  Proof.
    intros H. destruct (members labels knees i) as [|k c] eqn:E; [congruence|].
    assert (H0 : In k (members labels knees i)) by (rewrite E; left; auto).
    apply members_In in H0. apply max_label_ge. tauto.
  Qed.

  Variable f : nat -> pick.
  Hypothesis f_member : forall i k, f i = PSome k -> In k (members labels knees i).

  Lemma f_label i k : f i = PSome k -> label_of labels knees k = i.
  Proof. intros H. apply members_label; [apply SI_NoDup; auto|]. apply (f_member i k H). Qed.
  Lemma picked_SI_res : forall len s, SI (picked f (seq s len)).
  Proof.
    destruct (labels_ok_spec _ _ Hlab) as [Hl [Hnd _]].
    apply (picked_SI f (members labels knees)).
    - intros i j a b Hij Ha Hb. eapply members_order; eauto.
    - exact f_member.
  Qed.
  Lemma picked_subset is k : In k (picked f is) -> In k knees.
  Proof.
    intros H. apply picked_In in H. destruct H as [i [_ H]]. apply f_member in H.
    apply (members_In _ _ _ _ H).
  Qed.

  Lemma one_per_cluster_res :
    (forall i, i <= max_label labels -> exists k, f i = PSome k) ->
    one_per_cluster_b labels knees (picked f (seq 0 (S (max_label labels)))) = true.
  Proof.
    intros Hall. unfold one_per_cluster_b. rewrite !andb_true_iff. repeat split.
    - apply SI_iff. apply picked_SI_res.
    - apply forallb_forall. intros k Hk. apply mem_In. eapply picked_subset; eauto.
    - rewrite (picked_labels f (label_of labels knees) f_label).
      rewrite filter_all_true; [apply nat_list_eqb_refl|].
      intros i Hi. apply in_seq in Hi. destruct (Hall i ltac:(lia)) as [k H1]. rewrite H1. reflexivity.
  Qed.

  Lemma hull_ok_res hull :
    (forall i k, f i = PSome k -> span_has_hull hull (members labels knees i) = true) ->
    hull_ok_b hull labels knees (picked f (seq 0 (S (max_label labels)))) = true.
  Proof.
    intros Hs. unfold hull_ok_b. rewrite !andb_true_iff. repeat split.
    - apply SI_iff. apply picked_SI_res.
    - apply forallb_forall. intros k Hk. apply mem_In. eapply picked_subset; eauto.
    - apply SI_iff. rewrite (picked_labels f (label_of labels knees) f_label). apply SI_filter. apply SI_seq.
    - apply forallb_forall. intros k Hk. apply picked_In in Hk. destruct Hk as [i [_ Hk]].
      rewrite (f_label i k Hk). apply (Hs i k Hk).
  Qed.
End PerCluster.

(* counting reading of the two predicates *)
Lemma count_map (lab : nat -> nat) i out :
  length (filter (fun k => lab k =? i) out) = length (filter (fun v => v =? i) (map lab out)).
Proof. induction out as [|a out IH]; cbn; auto. destruct (lab a =? i); cbn; rewrite IH; reflexivity. Qed.
Lemma count_seq i : forall len s, s <= i < s + len -> length (filter (fun v => v =? i) (seq s len)) = 1.
Proof.
  induction len as [|len IH]; intros s H; [lia|]. cbn [seq filter].
  destruct (Nat.eqb_spec s i) as [->|Hne].
  - cbn. f_equal. rewrite (proj2 (existsb_filter_nil _ _)); auto.
    apply not_true_is_false. intros He. apply existsb_exists in He. destruct He as [x [Hx He]].
    apply in_seq in Hx. apply Nat.eqb_eq in He. lia.
  - apply IH. lia.
Qed.
Lemma count_SI i l : SI l -> length (filter (fun v => v =? i) l) <= 1.
Proof.
  induction l as [|a l IH]; intros H; cbn; [lia|].
  destruct (Nat.eqb_spec a i) as [->|Hne]; [|apply IH; eapply SI_tl; eauto].
  cbn. rewrite (proj2 (existsb_filter_nil _ _)); [cbn; lia|].
  apply not_true_is_false. intros He. apply existsb_exists in He. destruct He as [x [Hx He]].
  apply Nat.eqb_eq in He. subst x. pose proof (SI_lt_all _ _ H) as HF. rewrite Forall_forall in HF.
  specialize (HF _ Hx). lia.
Qed.

(* exactly one returned knee in every cluster *)
Theorem one_per_cluster_count labels knees out :
  one_per_cluster_b labels knees out = true ->
  forall i, i <= max_label labels -> count_in labels knees out i = 1.
Proof.
  unfold one_per_cluster_b. rewrite !andb_true_iff. intros [_ H] i Hi. apply nat_list_eqb_eq in H.
  unfold count_in. rewrite count_map, H. apply count_seq. lia.
Qed.
(* hull mode: at most one per cluster, none from a cluster whose span holds no hull index *)
Theorem hull_ok_count hull labels knees out :
  hull_ok_b hull labels knees out = true ->
  forall i, count_in labels knees out i <= 1 /\
            (span_has_hull hull (members labels knees i) = false -> count_in labels knees out i = 0).
Proof.
  unfold hull_ok_b. rewrite !andb_true_iff. intros [[_ H1] H2] i. unfold count_in. split.
  - rewrite count_map. apply count_SI. apply SI_iff. exact H1.
  - intros Hs. rewrite (proj2 (existsb_filter_nil _ _)); auto.
    apply not_true_is_false. intros He. apply existsb_exists in He. destruct He as [k [Hk He]].
    apply Nat.eqb_eq in He. rewrite forallb_forall in H2. specialize (H2 k Hk). rewrite He in H2. congruence.
Qed.

(* ------------------------------------------------------------------------------------------ *)
(* Tier O: sorted permutations and argmax *)

Section Order.
  Context {N : Num}.

  (* what "sorter l sorts l" means: adjacent positions of the permutation are in order *)
  Fixpoint adj_sorted (l : list (T N)) (perm : list nat) : Prop :=
    match perm with
    | a :: ((b :: _) as p') => nth a l zero <=?! nth b l zero = true /\ adj_sorted l p'
    | _ => True
    end.

  Lemma all_notnan_Forall (l : list (T N)) : all_notnan l = true -> Forall notnan l.
  Proof.
    unfold all_notnan. rewrite forallb_forall, Forall_forall. intros H x Hx. specialize (H x Hx).
    unfold notnan. destruct (isnan x); auto; discriminate.
  Qed.

  Hypothesis ord : TotalPreorderOn (@notnan N).

  Lemma sorted_last_max l perm :
    adj_sorted l perm -> (forall a, In a perm -> notnan (nth a l zero)) ->
    forall a, In a perm -> nth a l zero <=?! nth (last perm 0) l zero = true.
  Proof.
    induction perm as [|x [|y p'] IH]; intros Hs Hn a Ha; [destruct Ha| |].
    - destruct Ha as [->|[]]. cbn. apply (ord_refl _ ord). apply Hn. left; auto.
    - change (last (x :: y :: p') 0) with (last (y :: p') 0). destruct Hs as [Hxy Hs].
      assert (Hn' : forall a, In a (y :: p') -> notnan (nth a l zero)) by (intros; apply Hn; right; auto).
      specialize (IH Hs Hn').
      destruct Ha as [->|Ha]; [|apply IH; auto].
      apply (ord_trans _ ord) with (y := nth y l zero); auto.
      + apply Hn. left; auto.
      + apply Hn. right; left; auto.
      + apply Hn'. apply last_In. congruence.
      + apply IH. left; auto.
  Qed.

  (* the last element of any sorting permutation indexes a maximum *)
  Lemma sorter_last_is_max l perm :
    Permutation perm (seq 0 (length l)) -> adj_sorted l perm -> Forall notnan l ->
    is_max_at l (last perm 0) = true.
  Proof.
    intros HP Hs Hn. unfold is_max_at. apply forallb_forall. intros s Hin.
    destruct (In_nth _ _ zero Hin) as [j [Hj Hnj]]. rewrite <- Hnj.
    assert (Hjp : In j perm) by (apply (Permutation_in _ (Permutation_sym HP)); apply in_seq; lia).
    apply sorted_last_max; auto.
    intros a Ha. apply (Permutation_in _ HP) in Ha. apply in_seq in Ha.
    rewrite Forall_forall in Hn. apply Hn. apply nth_In. lia.
  Qed.

  (* np.argmax on non-NaN floats returns a position of the maximum *)
  Lemma argmax_go_max : forall (l pre : list (T N)) i best bi,
    length pre = i -> bi < i -> nth bi (pre ++ l) zero = best -> Forall notnan (pre ++ l) ->
    (forall s, In s pre -> s <=?! best = true) ->
    let r := argmax_go l i best bi in
    r < i + length l /\ forall s, In s (pre ++ l) -> s <=?! nth r (pre ++ l) zero = true.
  Proof.
    induction l as [|x l IH]; intros pre i best bi Hlen Hbi Hb Hn Hpre; cbn [argmax_go].
    - cbn. split; [lia|]. intros s Hs. rewrite app_nil_r in *. rewrite Hb. auto.
    - assert (Hnb : notnan best).
      { rewrite <- Hb. rewrite Forall_forall in Hn. apply Hn. apply nth_In. rewrite app_length. cbn. lia. }
      assert (Hnx : notnan x).
      { rewrite Forall_forall in Hn. apply Hn. apply in_or_app. right; left; auto. }
      unfold notnan in Hnb. rewrite Hnb.
      replace (pre ++ x :: l) with ((pre ++ [x]) ++ l) in * by (rewrite <- app_assoc; reflexivity).
      assert (Hlen' : length (pre ++ [x]) = S i) by (rewrite app_length; cbn; lia).
      destruct (x <=?! best) eqn:Ex; cbn [negb].
      + destruct (IH (pre ++ [x]) (S i) best bi Hlen' ltac:(lia) Hb Hn) as [H1 H2].
        { intros s Hs. apply in_app_or in Hs. destruct Hs as [Hs|[<-|[]]]; auto. }
        split; [cbn [length]; lia|exact H2].
      + assert (Hbx : best <=?! x = true).
        { destruct (ord_total _ ord x best Hnx Hnb) as [H|H]; [congruence|exact H]. }
        destruct (IH (pre ++ [x]) (S i) x i Hlen' ltac:(lia)) as [H1 H2]; auto.
        { rewrite <- app_assoc. rewrite app_nth2 by lia. rewrite Hlen, Nat.sub_diag. reflexivity. }
        { intros s Hs. apply in_app_or in Hs. destruct Hs as [Hs|[<-|[]]].
          - apply (ord_trans _ ord) with (y := best); auto.
            rewrite Forall_forall in Hn. apply Hn. apply in_or_app. left. apply in_or_app. left; auto.
          - apply (ord_refl _ ord); auto. }
        split; [cbn [length]; lia|exact H2].
  Qed.
  Lemma argmax_is_max (l : list (T N)) : l <> [] -> Forall notnan l -> is_max_at l (argmax l) = true.
  Proof.
    intros Hne Hn. destruct l as [|x l]; [congruence|]. unfold argmax, is_max_at.
    destruct (argmax_go_max l [x] 1 x 0 eq_refl ltac:(lia) eq_refl Hn) as [_ H].
    - intros s [<-|[]]. apply (ord_refl _ ord). inversion Hn; auto.
    - apply forallb_forall. exact H.
  Qed.
End Order.

(* np.argmax stays inside the array, whatever the values *)
Lemma argmax_go_lt {N : Num} : forall (l : list (T N)) i best bi, bi < i -> argmax_go l i best bi < i + length l.
Proof.
  induction l as [|x l IH]; intros i best bi H; cbn [argmax_go length]; [lia|].
  destruct (isnan best); [lia|]. destruct (negb (x <=?! best)).
  - specialize (IH (S i) x i ltac:(lia)). lia.
  - specialize (IH (S i) best bi ltac:(lia)). lia.
Qed.
Lemma argmax_lt {N : Num} (l : list (T N)) : l <> [] -> argmax l < length l.
Proof.
  destruct l as [|x l]; [congruence|]. intros _. unfold argmax.
  pose proof (argmax_go_lt l 1 x 0 ltac:(lia)). cbn [length]. lia.
Qed.

(* ------------------------------------------------------------------------------------------ *)
(* main theorems *)

Section Main.
  Context {N : Num}.
  Variable sorter : list (T N) -> list nat.
  Variable score : list nat -> list (T N).
  Variable hull : list nat.
  Variable sdist : nat -> nat -> T N.
  Variable xs ys : list (T N).
  Hypothesis sorter_perm : forall l, Permutation (sorter l) (seq 0 (length l)).

  Notation cpick := (cluster_pick sorter score hull sdist xs).
  Notation fclusters := (filter_clusters sorter score hull sdist xs).

  Variable m : fmode.
  Variables labels knees : list nat.
  Hypothesis Hlab : labels_ok labels knees = true.
  Hypothesis Hsi : strictly_increasing knees = true.
  Hypothesis Hk2 : 2 <= length knees.
  (* shape of the score oracle: one score per member of every multi-member cluster (not used in hull mode) *)
  Hypothesis Hshape : is_hull m = false -> forall i, i <= max_label labels ->
    2 <= length (members labels knees i) -> length (score (members labels knees i)) = length (members labels knees i).

  Lemma f_cases i : i <= max_label labels ->
    (cpick m (members labels knees i) = PNone /\ is_hull m = true /\ span_has_hull hull (members labels knees i) = false) \/
    (exists k, cpick m (members labels knees i) = PSome k /\ In k (members labels knees i) /\
               (is_hull m = true -> span_has_hull hull (members labels knees i) = true)).
  Proof.
    intros Hi. apply cluster_pick_ok.
    - exact sorter_perm.
    - eapply Mi_nonempty; eauto.
    - intros Hm H2. apply Hshape; auto.
  Qed.
  Lemma f_some i k : cpick m (members labels knees i) = PSome k ->
    In k (members labels knees i) /\ (is_hull m = true -> span_has_hull hull (members labels knees i) = true).
  Proof.
    intros H. assert (Hne : members labels knees i <> []).
    { intros E. rewrite E in H. cbn in H. discriminate. }
    destruct (f_cases i (Mi_range _ _ i Hne)) as [[H1 _]|[k' [H1 H2]]]; [congruence|].
    rewrite H in H1. inversion H1; subst. exact H2.
  Qed.

  Lemma fc_result :
    fclusters m labels knees = Some (picked (fun i => cpick m (members labels knees i)) (seq 0 (S (max_label labels)))).
  Proof.
    unfold filter_clusters. destruct (Nat.leb_spec (length knees) 1); [lia|].
    apply (collect_picked (fun i => cpick m (members labels knees i))). intros i Hi. apply in_seq in Hi.
    destruct (f_cases i ltac:(lia)) as [[H1 _]|[k [H1 _]]]; congruence.
  Qed.

  (* C12 fc_one_per_cluster (Tier S) *)
  Theorem fc_one_per_cluster_thm : is_hull m = false ->
    exists res, fclusters m labels knees = Some res /\ one_per_cluster_b labels knees res = true.
  Proof.
    intros Hm. eexists. split; [apply fc_result|].
    apply one_per_cluster_res; auto; [apply SI_iff; auto|intros i k H; apply (f_some i k H)|].
    intros i Hi. destruct (f_cases i Hi) as [[_ [H1 _]]|[k [H1 _]]]; [congruence|eauto].
  Qed.

  (* C12 fc_hull (Tier S) *)
  Theorem fc_hull_thm : is_hull m = true ->
    exists res, fclusters m labels knees = Some res /\ hull_ok_b hull labels knees res = true.
  Proof.
    intros Hm. eexists. split; [apply fc_result|].
    apply hull_ok_res; auto; [apply SI_iff; auto|intros i k H; apply (f_some i k H)|].
    intros i k H. apply (f_some i k H). exact Hm.
  Qed.

  Lemma cluster_pick_multi c : 1 < length c -> is_hull m = false ->
    cpick m c = match nth_error c (pick_index sorter (score c)) with Some k => PSome k | None => PErr end.
  Proof.
    intros Hc Hm. destruct c as [|k0 [|k1 c']]; [cbn in Hc; lia|cbn in Hc; lia|].
    unfold cluster_pick. rewrite Hm. reflexivity.
  Qed.

  (* C12 fc_best (Tier O), for any sorting permutation *)
  Hypothesis ord : TotalPreorderOn (@notnan N).
  Hypothesis sorter_sorted : forall l, Forall notnan l -> adj_sorted l (sorter l).

  Theorem fc_best_thm : is_hull m = false ->
    exists res, fclusters m labels knees = Some res /\ best_b true score labels knees res = true.
  Proof.
    intros Hm. eexists. split; [apply fc_result|].
    unfold best_b. apply forallb_forall. intros k Hk. apply picked_In in Hk. destruct Hk as [i [_ Hk]].
    destruct (f_some i k Hk) as [Hin _].
    assert (Hnd : NoDup knees) by (apply SI_NoDup; apply SI_iff; auto).
    rewrite (members_label labels knees i k Hnd Hin).
    set (c := members labels knees i) in *. set (r := score c).
    destruct (length c <=? 1) eqn:El; [reflexivity|]. cbn [andb orb].
    destruct (all_notnan r) eqn:En; [|reflexivity]. cbn [negb].
    apply Nat.leb_gt in El.
    assert (Hl : length r = length c).
    { assert (Hi : i <= max_label labels).
      { apply (Mi_range labels knees i). fold c. intros E. rewrite E in Hin. destruct Hin. }
      exact (Hshape Hm i Hi El). }
    assert (Hr : r <> []) by (destruct r; [cbn in Hl; lia|congruence]).
    destruct (rank_argmax_last (sorter r) (length r) (sorter_perm r)) as [Hp Hlt]; [destruct r; [congruence|cbn; lia]|].
    rewrite (cluster_pick_multi c El Hm) in Hk. fold r in Hk. unfold pick_index in Hk. rewrite Hp in Hk.
    destruct (nth_error c (last (sorter r) 0)) as [k'|] eqn:Ee; [|discriminate].
    inversion Hk; subst k'.
    assert (Hidx : index_of k c = last (sorter r) 0).
    { rewrite <- (nth_error_nth c _ 0 Ee). apply index_of_nth; [apply members_NoDup; auto|].
      apply nth_error_Some. congruence. }
    rewrite Hidx. apply sorter_last_is_max; auto. apply sorter_sorted. apply all_notnan_Forall; auto.
    apply all_notnan_Forall; auto.
  Qed.
End Main.

(* ------------------------------------------------------------------------------------------ *)
(* the corner variant *)

Section Corner.
  Context {N : Num}.
  Variable xs ys : list (T N).
  Variables labels knees : list nat.
  Hypothesis Hlab : labels_ok labels knees = true.
  Hypothesis Hsi : strictly_increasing knees = true.

  Notation tri := (tri_score xs ys).
  Notation cpk := (corner_pick xs ys).

  Lemma corner_pick_ok c : c <> [] ->
    exists k, cpk c = PSome k /\ nth_error c (argmax (map tri c)) = Some k.
  Proof.
    intros Hc. unfold corner_pick. destruct c as [|k0 c']; [congruence|].
    set (c := k0 :: c') in *.
    assert (Hlt : argmax (map tri c) < length c).
    { rewrite <- (map_length tri c). apply argmax_lt. subst c. cbn. congruence. }
    destruct (nth_error c (argmax (map tri c))) as [k|] eqn:E; [eauto|].
    apply nth_error_None in E. lia.
  Qed.
  Lemma corner_some i k : cpk (members labels knees i) = PSome k -> In k (members labels knees i).
  Proof.
    intros H. destruct (members labels knees i) as [|k0 c'] eqn:E; [cbn in H; discriminate|].
    destruct (corner_pick_ok (k0 :: c') ltac:(congruence)) as [k' [H1 H2]]. rewrite H in H1. inversion H1; subst.
    eapply nth_error_In; eauto.
  Qed.
  Lemma fcc_result :
    filter_clusters_corners xs ys labels knees =
    Some (picked (fun i => cpk (members labels knees i)) (seq 0 (S (max_label labels)))).
  Proof.
    unfold filter_clusters_corners.
    destruct knees as [|k0 ks] eqn:Ek.
    { exfalso. unfold labels_ok in Hlab. rewrite !andb_true_iff, !Nat.eqb_eq in Hlab.
      destruct Hlab as [[Hl Hh] _]. destruct labels; cbn in *; lia. }
    rewrite <- Ek. apply (collect_picked (fun i => cpk (members labels knees i))). intros i Hi. apply in_seq in Hi.
    destruct (corner_pick_ok (members labels knees i)) as [k [H1 _]]; [|congruence].
    subst knees. eapply Mi_nonempty; eauto. lia.
  Qed.

  (* C12 corner variant, structural part (Tier S) *)
  Theorem fcc_one_per_cluster_thm :
    exists res, filter_clusters_corners xs ys labels knees = Some res /\ one_per_cluster_b labels knees res = true.
  Proof.
    eexists. split; [apply fcc_result|].
    apply one_per_cluster_res; auto; [apply SI_iff; auto|exact corner_some|].
    intros i Hi. destruct (corner_pick_ok (members labels knees i)) as [k [H1 _]]; eauto.
    eapply Mi_nonempty; eauto.
  Qed.

  (* C12 fcc_best (Tier O) *)
  Hypothesis ord : TotalPreorderOn (@notnan N).
  Theorem fcc_best_thm :
    exists res, filter_clusters_corners xs ys labels knees = Some res /\
                best_b false (fun c => map tri c) labels knees res = true.
  Proof.
    eexists. split; [apply fcc_result|].
    unfold best_b. apply forallb_forall. intros k Hk. apply picked_In in Hk. destruct Hk as [i [_ Hk]].
    pose proof (corner_some i k Hk) as Hin.
    assert (Hnd : NoDup knees) by (apply SI_NoDup; apply SI_iff; auto).
    rewrite (members_label labels knees i k Hnd Hin).
    set (c := members labels knees i) in *. cbn [andb orb].
    destruct (all_notnan (map tri c)) eqn:En; [|reflexivity]. cbn [negb].
    assert (Hc : c <> []) by (intros E; rewrite E in Hin; destruct Hin).
    destruct (corner_pick_ok c Hc) as [k' [H1 H2]]. rewrite Hk in H1. inversion H1; subst k'.
    assert (Hidx : index_of k c = argmax (map tri c)).
    { rewrite <- (nth_error_nth c _ 0 H2). apply index_of_nth; [apply members_NoDup; auto|].
      apply nth_error_Some. congruence. }
    rewrite Hidx. apply argmax_is_max; auto.
    - destruct c; [congruence|cbn; congruence].
    - apply all_notnan_Forall; auto.
  Qed.
End Corner.

(* ------------------------------------------------------------------------------------------ *)
(* the executable sorter (stable insertion sort, NaN last) meets the hypotheses put on `sorter`:
   it is a permutation of the positions for every input (Tier S) and sorts non-NaN inputs (Tier O) *)

Fixpoint adjR {A} (le : A -> A -> bool) (l : list A) : Prop :=
  match l with
  | a :: ((b :: _) as l') => le a b = true /\ adjR le l'
  | _ => True
  end.
Lemma adjR_tl {A} (le : A -> A -> bool) a l : adjR le (a :: l) -> adjR le l.
Proof. destruct l; cbn; tauto. Qed.
Lemma adjR_cons {A} (le : A -> A -> bool) a l :
  match l with [] => True | b :: _ => le a b = true end -> adjR le l -> adjR le (a :: l).
Proof. destruct l; cbn; auto. Qed.

Lemma insert_by_perm {A} (le : A -> A -> bool) x l : Permutation (x :: l) (insert_by le x l).
Proof.
  induction l as [|y l IH]; cbn; auto.
  destruct (le y x); auto. rewrite perm_swap. constructor. exact IH.
Qed.
Lemma sort_by_perm_aux {A} (le : A -> A -> bool) l : forall acc,
  Permutation (l ++ acc) (fold_left (fun a x => insert_by le x a) l acc).
Proof.
  induction l as [|x l IH]; intros acc; cbn; auto.
  rewrite <- IH. rewrite <- insert_by_perm. rewrite Permutation_middle. reflexivity.
Qed.
Lemma sort_by_perm {A} (le : A -> A -> bool) l : Permutation l (sort_by le l).
Proof. unfold sort_by. rewrite <- sort_by_perm_aux. rewrite app_nil_r. reflexivity. Qed.

Lemma insert_by_adj {A} (le : A -> A -> bool) (P : A -> Prop)
  (tot : forall a b, P a -> P b -> le a b = true \/ le b a = true) x l :
  P x -> Forall P l -> adjR le l -> adjR le (insert_by le x l).
Proof.
  intros Hx. induction l as [|y l IH]; intros HP Hs; cbn [insert_by]; [exact I|].
  inversion HP as [|? ? Hy HP']; subst.
  destruct (le y x) eqn:E.
  - apply adjR_cons; [|apply IH; auto; eapply adjR_tl; eauto].
    destruct l as [|z l']; cbn [insert_by]; [exact E|].
    destruct (le z x); [|exact E]. cbn in Hs. tauto.
  - apply adjR_cons; [|exact Hs]. destruct (tot x y Hx Hy); congruence.
Qed.
Lemma sort_by_adj_aux {A} (le : A -> A -> bool) (P : A -> Prop)
  (tot : forall a b, P a -> P b -> le a b = true \/ le b a = true) l : forall acc,
  Forall P l -> Forall P acc -> adjR le acc -> adjR le (fold_left (fun a x => insert_by le x a) l acc).
Proof.
  induction l as [|x l IH]; intros acc Hl Ha Hs; cbn; auto.
  inversion Hl; subst. apply IH; auto.
  - rewrite Forall_forall in *. intros z Hz.
    apply (Permutation_in _ (Permutation_sym (insert_by_perm le x acc))) in Hz. destruct Hz as [<-|Hz]; auto.
  - eapply insert_by_adj; eauto.
Qed.

Section StableSort.
  Context {N : Num}.

  Theorem argsort_stable_perm (l : list (T N)) : Permutation (argsort_stable l) (seq 0 (length l)).
  Proof. unfold argsort_stable. apply Permutation_sym. apply sort_by_perm. Qed.

  Hypothesis ord : TotalPreorderOn (@notnan N).

  Lemma key_le_notnan (a b : T N) : notnan a -> notnan b -> key_le a b = (a <=?! b).
  Proof. unfold key_le, notnan. intros -> ->. reflexivity. Qed.

  Theorem argsort_stable_sorted (l : list (T N)) : Forall notnan l -> adj_sorted l (argsort_stable l).
  Proof.
    intros Hn. set (le := fun i j => key_le (nth i l zero) (nth j l zero)).
    set (P := fun i => i < length l).
    assert (HnP : forall i, P i -> notnan (nth i l zero)).
    { intros i Hi. rewrite Forall_forall in Hn. apply Hn. apply nth_In. exact Hi. }
    assert (Hadj : adjR le (argsort_stable l)).
    { unfold argsort_stable, sort_by. fold le. apply (sort_by_adj_aux le P).
      - intros a b Ha Hb. unfold le.
        rewrite (key_le_notnan _ _ (HnP a Ha) (HnP b Hb)), (key_le_notnan _ _ (HnP b Hb) (HnP a Ha)).
        apply (ord_total _ ord); auto.
      - rewrite Forall_forall. intros i Hi. apply in_seq in Hi. unfold P. lia.
      - constructor.
      - exact I. }
    assert (HP : Forall P (argsort_stable l)).
    { rewrite Forall_forall. intros i Hi. apply (Permutation_in _ (argsort_stable_perm l)) in Hi.
      apply in_seq in Hi. unfold P. lia. }
    revert Hadj HP. generalize (argsort_stable l). intros perm.
    induction perm as [|a [|b p'] IH]; intros Hadj HP; cbn [adj_sorted]; auto.
    destruct Hadj as [Hab Hadj]. inversion HP as [|? ? Ha HP']; subst. inversion HP' as [|? ? Hb _]; subst.
    split; [|apply IH; auto]. unfold le in Hab. rewrite key_le_notnan in Hab by auto. exact Hab.
  Qed.
End StableSort.

(* ------------------------------------------------------------------------------------------ *)
(* statements in the form Props/C12.v quotes *)

Theorem fc_hull_clean {N : Num} (sorter : list (T N) -> list nat) (score : list nat -> list (T N)) (hull : list nat)
  (sdist : nat -> nat -> T N) (xs : list (T N)) (labels knees : list nat) :
  (forall l, Permutation (sorter l) (seq 0 (length l))) ->
  labels_ok labels knees = true -> strictly_increasing knees = true -> 2 <= length knees ->
  exists res, filter_clusters sorter score hull sdist xs MHull labels knees = Some res /\
              hull_ok_b hull labels knees res = true.
Proof.
  intros Hp Hl Hs H2. apply (fc_hull_thm sorter score hull sdist xs Hp MHull labels knees Hl Hs H2); [|reflexivity].
  intros H. discriminate.
Qed.

(* ------------------------------------------------------------------------------------------ *)
(* the DERIVED ranking score of the left / linear / right modes (Model: smooth_score): its only oracle is the fit
   quality r2 of a slice; every theorem above is generic in `score`, so it applies, and the shape hypothesis is
   discharged (one score per member by construction) *)

Section SmoothFacts.
  Context {N : Num}.
  Variable r2 : nat -> nat -> T N.
  Variable ys : list (T N).

  Lemma mul_lists_length : forall (a b : list (T N)), length a = length b -> length (mul_lists a b) = length a.
  Proof.
    induction a as [|x a IH]; intros [|y b] H; cbn in *; try lia. f_equal. apply IH. lia.
  Qed.
  Lemma smooth_weights_length c : length (smooth_weights ys c) = length c.
  Proof.
    unfold smooth_weights. destruct (_ =?! _); rewrite ?map_length; reflexivity.
  Qed.
  Lemma smooth_score_length m c : length (smooth_score r2 ys m c) = length c.
  Proof.
    unfold smooth_score. rewrite mul_lists_length; rewrite map_length; auto. rewrite smooth_weights_length. reflexivity.
  Qed.

  Variable sorter : list (T N) -> list nat.
  Variable hull : list nat.
  Variable sdist : nat -> nat -> T N.
  Variable xs : list (T N).
  Hypothesis sorter_perm : forall l, Permutation (sorter l) (seq 0 (length l)).
  Variable m : fmode.
  Variables labels knees : list nat.
  Hypothesis Hlab : labels_ok labels knees = true.
  Hypothesis Hsi : strictly_increasing knees = true.
  Hypothesis Hk2 : 2 <= length knees.

  Theorem fc_smooth_one_per_cluster : is_hull m = false ->
    exists res, filter_clusters sorter (smooth_score r2 ys m) hull sdist xs m labels knees = Some res /\
                one_per_cluster_b labels knees res = true.
  Proof.
    intros Hm. apply fc_one_per_cluster_thm; auto. intros _ i _ _. apply smooth_score_length.
  Qed.

  Theorem fc_smooth_best :
    TotalPreorderOn (@notnan N) -> (forall l, Forall notnan l -> adj_sorted l (sorter l)) -> is_hull m = false ->
    exists res, filter_clusters sorter (smooth_score r2 ys m) hull sdist xs m labels knees = Some res /\
                best_b true (smooth_score r2 ys m) labels knees res = true.
  Proof.
    intros ord Hs Hm. apply fc_best_thm; auto. intros _ i _ _. apply smooth_score_length.
  Qed.

  (* hull mode: the kept member of a ranked multi-member cluster attains the maximum of the similarity the code sorts
     (max error - error, errors = sums of shortest distances x normalised lengths), Tier O, any sorting permutation *)
  Theorem fc_hull_best (score : list nat -> list (T N)) :
    TotalPreorderOn (@notnan N) -> (forall l, Forall notnan l -> adj_sorted l (sorter l)) ->
    exists res, filter_clusters sorter score hull sdist xs MHull labels knees = Some res /\
                best_b true (hull_score hull sdist xs) labels knees res = true.
  Proof.
    intros ord Hs.
    assert (Hshape : is_hull MHull = false -> forall i, i <= max_label labels -> 2 <= length (members labels knees i) ->
                     length (score (members labels knees i)) = length (members labels knees i)) by (intros H; discriminate).
    eexists. split; [apply (fc_result sorter score hull sdist xs sorter_perm MHull labels knees Hlab Hk2 Hshape)|].
    unfold best_b. apply forallb_forall. intros k Hk. apply picked_In in Hk. destruct Hk as [i [_ Hk]].
    destruct (f_some sorter score hull sdist xs sorter_perm MHull labels knees Hlab Hshape i k Hk) as [Hin _].
    assert (Hnd : NoDup knees) by (apply SI_NoDup; apply SI_iff; auto).
    rewrite (members_label labels knees i k Hnd Hin).
    set (c := members labels knees i) in *.
    destruct (length c <=? 1) eqn:El; [reflexivity|]. cbn [andb orb].
    destruct (all_notnan (hull_score hull sdist xs c)) eqn:En; [|reflexivity]. cbn [negb].
    apply Nat.leb_gt in El.
    assert (Hpk : cluster_pick sorter score hull sdist xs MHull c =
                  match hull_rankings hull sdist xs c with
                  | None => PNone
                  | Some r => match nth_error c (pick_index sorter r) with Some k => PSome k | None => PErr end
                  end).
    { destruct c as [|k0 [|k1 c']]; [cbn in El; lia|cbn in El; lia|]. reflexivity. }
    rewrite Hpk in Hk. unfold hull_score in *.
    destruct (hull_rankings hull sdist xs c) as [r|] eqn:Er; [|discriminate].
    pose proof (hull_rankings_length hull sdist xs c r Er) as Hl.
    assert (Hr : r <> []) by (destruct r; [cbn in Hl; lia|congruence]).
    destruct (rank_argmax_last (sorter r) (length r) (sorter_perm r)) as [Hp Hlt]; [destruct r; [congruence|cbn; lia]|].
    unfold pick_index in Hk. rewrite Hp in Hk.
    destruct (nth_error c (last (sorter r) 0)) as [k'|] eqn:Ee; [|discriminate].
    inversion Hk; subst k'.
    assert (Hidx : index_of k c = last (sorter r) 0).
    { rewrite <- (nth_error_nth c _ 0 Ee). apply index_of_nth; [apply members_NoDup; auto|].
      apply nth_error_Some. congruence. }
    rewrite Hidx. apply sorter_last_is_max; auto. apply Hs. apply all_notnan_Forall; auto.
    apply all_notnan_Forall; auto.
  Qed.
End SmoothFacts.
