(* Proofs/DetectorsLm.v — property C09, part 2: the L-method (scan and the three refinement loops). *)
From Coq Require Import ZArith List Bool Arith Lia.
From Knee Require Import Num NpList OrdLaws Model.Detectors Proofs.ListFacts Proofs.ArgFacts Proofs.DetectorsBase.
Import ListNotations.
Local Open Scope num_scope.

(* ================================================================== the scan (lmethod.get_knee) *)
Section Scan.
  Context {N : Num}.
  Variable err : nat -> oval (T N).

  (* Tier S *)
  Lemma lm_scan_go_range : forall cands best bi k,
    lm_scan_go err cands best bi = OVal k -> k = bi \/ In k cands.
  Proof.
    induction cands as [|i cands IH]; intros best bi k; cbn [lm_scan_go].
    - intros [= <-]. auto.
    - destruct (err i) as [e| |]; try discriminate.
      destruct (e <?! best); intros H; apply IH in H; cbn [In]; destruct H as [->|H]; auto.
  Qed.
  Lemma lm_scan_go_vals : forall cands best bi k,
    lm_scan_go err cands best bi = OVal k -> Forall (fun i => oval_is_val (err i) = true) cands.
  Proof.
    induction cands as [|i cands IH]; intros best bi k; cbn [lm_scan_go]; [constructor|].
    destruct (err i) as [e| |] eqn:E; try discriminate.
    destruct (e <?! best); intros H; apply IH in H; constructor; auto; rewrite E; reflexivity.
  Qed.
  Lemma lm_scan_go_total : forall cands best bi,
    Forall (fun i => oval_is_val (err i) = true) cands -> exists k, lm_scan_go err cands best bi = OVal k.
  Proof.
    induction cands as [|i cands IH]; intros best bi F; cbn [lm_scan_go]; [eauto|].
    inversion F as [|? ? Hi F']; subst. destruct (err i) as [e| |]; try discriminate.
    destruct (e <?! best); apply IH; auto.
  Qed.

  (* the split point returned on m points lies in 2 .. max 2 (m-3), whatever the errors are (NaN included) *)
  Theorem lm_get_knee_range m k : lm_get_knee err m = OVal k -> 3 <= m /\ 2 <= k /\ k <= Nat.max 2 (m - 3).
  Proof.
    unfold lm_get_knee. destruct (m <? 3) eqn:L; [discriminate|]. apply Nat.ltb_ge in L.
    destruct (err 2) as [e| |]; try discriminate.
    intros H. apply lm_scan_go_range in H. destruct H as [->|H]; [lia|].
    apply in_seq in H. lia.
  Qed.
  Lemma lm_get_knee_total m :
    3 <= m -> Forall (fun i => oval_is_val (err i) = true) (lm_cands m) -> exists k, lm_get_knee err m = OVal k.
  Proof.
    intros L F. unfold lm_get_knee. destruct (m <? 3) eqn:L'; [apply Nat.ltb_lt in L'; lia|].
    unfold lm_cands in F. inversion F as [|? ? H2 F']; subst.
    destruct (err 2) as [e| |]; try discriminate. apply lm_scan_go_total; auto.
  Qed.
  (* lmethod_get_knee_interior: interior index on m >= 5 points *)
  Theorem lm_get_knee_interior m k : 5 <= m -> lm_get_knee err m = OVal k -> 2 <= k /\ k + 3 <= m.
  Proof. intros L H. apply lm_get_knee_range in H. lia. Qed.

  (* ---------------------------------------------------------------- Tier O: first minimum *)
  Hypothesis O : TotalPreorderOn (@notnan N).
  Hypothesis NU : NanUnordered N.

  (* index i is "dominated" by the running best (value best at index bi) *)
  Definition lm_okb (best : T N) (bi i : nat) : bool :=
    match err i with
    | OVal e => isnan e || (best <=?! e) && ((bi <=? i) || (best <?! e))
    | _ => false
    end.

  Lemma lm_scan_go_nan : forall cands best bi k,
    isnan best = true -> lm_scan_go err cands best bi = OVal k -> k = bi.
  Proof.
    induction cands as [|i cands IH]; intros best bi k Hb; cbn [lm_scan_go]; [intros [= <-]; reflexivity|].
    destruct (err i) as [e| |]; try discriminate.
    rewrite (nan_ltb_r _ NU e best Hb). apply IH; auto.
  Qed.

  Lemma lm_scan_go_inv : forall len a seen best bi k,
    isnan best = false -> err bi = OVal best -> In bi seen -> (forall j, In j seen -> j < a) ->
    Forall (fun i => lm_okb best bi i = true) seen ->
    lm_scan_go err (seq a len) best bi = OVal k ->
    exists ek, err k = OVal ek /\ isnan ek = false /\ In k (seen ++ seq a len) /\
               Forall (fun i => lm_okb ek k i = true) (seen ++ seq a len).
  Proof.
    induction len as [|len IH]; intros a seen best bi k Hb Ebi Hin Hlt F; cbn [seq lm_scan_go].
    - intros [= <-]. exists best. rewrite app_nil_r. auto.
    - destruct (err a) as [e| |] eqn:Ea; try discriminate.
      replace (seen ++ a :: seq (S a) len) with ((seen ++ [a]) ++ seq (S a) len) by (rewrite <- app_assoc; reflexivity).
      assert (Hlt' : forall j, In j (seen ++ [a]) -> j < S a).
      { intros j Hj. apply in_app_or in Hj as [Hj|[<-|[]]]; [specialize (Hlt j Hj)|]; lia. }
      destruct (e <?! best) eqn:Hlb.
      + (* e replaces the running best *)
        assert (He : isnan e = false).
        { destruct (isnan e) eqn:X; [|reflexivity]. rewrite (nan_ltb_l _ NU e best X) in Hlb. discriminate. }
        assert (Hbe : best <=?! e = false).
        { rewrite (ord_ltb _ O e best He Hb) in Hlb. destruct (best <=?! e); [discriminate|reflexivity]. }
        assert (Heb : e <=?! best = true).
        { destruct (ord_total _ O e best He Hb); congruence. }
        apply IH; auto.
        * apply in_or_app. right. left. reflexivity.
        * apply Forall_app. split.
          -- rewrite Forall_forall in *. intros i Hi. specialize (F i Hi). specialize (Hlt i Hi).
             unfold lm_okb in *. destruct (err i) as [ei| |]; try discriminate.
             destruct (isnan ei) eqn:Xi; [reflexivity|]. cbn [orb] in *.
             apply andb_true_iff in F as [F1 _].
             assert (A : e <=?! ei = true) by (apply (ord_trans _ O e best ei); auto).
             assert (B : e <?! ei = true).
             { rewrite (ord_ltb _ O e ei He Xi). destruct (ei <=?! e) eqn:Y; [|reflexivity].
               rewrite (ord_trans _ O best ei e Hb Xi He F1 Y) in Hbe. discriminate. }
             rewrite A, B. rewrite orb_true_r. reflexivity.
          -- constructor; [|constructor]. unfold lm_okb. rewrite Ea, He. cbn [orb].
             rewrite (ord_refl _ O e He), Nat.leb_refl. reflexivity.
      + (* the running best stays *)
        apply IH; auto.
        * apply in_or_app. left. exact Hin.
        * apply Forall_app. split; [exact F|]. constructor; [|constructor].
          unfold lm_okb. rewrite Ea. destruct (isnan e) eqn:X; [reflexivity|]. cbn [orb].
          rewrite (ord_ltb _ O e best X Hb) in Hlb.
          destruct (best <=?! e); [|discriminate]. cbn [andb].
          specialize (Hlt bi Hin). replace (bi <=? a) with true by (symmetry; apply Nat.leb_le; lia). reflexivity.
  Qed.

  (* lmethod_get_knee_spec: the returned split point is the first minimum of the error over 2 .. m-3 *)
  Theorem lm_get_knee_spec m k : lm_get_knee err m = OVal k -> lm_first_min_b err m k = true.
  Proof.
    intros H. pose proof (lm_get_knee_range m k H) as (Lm & _). revert H.
    unfold lm_get_knee. destruct (m <? 3) eqn:L; [discriminate|].
    destruct (err 2) as [e2| |] eqn:E2; try discriminate. intros H.
    pose proof (lm_scan_go_vals _ _ _ _ H) as Fv.
    pose proof (lm_scan_go_range _ _ _ _ H) as Hr.
    unfold lm_first_min_b, lm_cands.
    replace (3 <=? m) with true by (symmetry; apply Nat.leb_le; lia). cbn [andb].
    assert (Hex : existsb (Nat.eqb k) (2 :: seq 3 (m - 5)) = true).
    { apply existsb_exists. exists k. split; [|apply Nat.eqb_refl]. destruct Hr as [->|Hr]; [left; reflexivity|right; exact Hr]. }
    rewrite Hex. cbn [andb].
    assert (Hv : forallb (fun i => oval_is_val (err i)) (2 :: seq 3 (m - 5)) = true).
    { apply forallb_forall. intros i [<-|Hi]; [rewrite E2; reflexivity|].
      rewrite Forall_forall in Fv. apply Fv. exact Hi. }
    rewrite Hv. cbn [andb]. rewrite E2.
    destruct (isnan e2) eqn:X2.
    - apply lm_scan_go_nan in H; auto. subst k. rewrite E2. reflexivity.
    - destruct (lm_scan_go_inv (m - 5) 3 [2] e2 2 k X2 E2 ltac:(left; reflexivity)) as (ek & Ek & Xk & _ & F); auto.
      + intros j [<-|[]]. lia.
      + constructor; [|constructor]. unfold lm_okb. rewrite E2, X2. cbn [orb].
        rewrite (ord_refl _ O e2 X2). reflexivity.
      + rewrite Ek. unfold notnanb. rewrite Xk. cbn [negb andb].
        apply forallb_forall. rewrite Forall_forall in F. intros i Hi. specialize (F i Hi).
        unfold lm_okb in F. exact F.
  Qed.

  (* ... and the predicate pins the index (no two indices satisfy it) *)
  Theorem lm_first_min_b_unique m k1 k2 :
    lm_first_min_b err m k1 = true -> lm_first_min_b err m k2 = true -> k1 = k2.
  Proof.
    unfold lm_first_min_b. intros H1 H2.
    apply andb_true_iff in H1 as [H1 M1]. apply andb_true_iff in H1 as [H1 _]. apply andb_true_iff in H1 as [_ I1].
    apply andb_true_iff in H2 as [H2 M2]. apply andb_true_iff in H2 as [H2 _]. apply andb_true_iff in H2 as [_ I2].
    apply existsb_exists in I1 as (x1 & I1 & Ex1). apply Nat.eqb_eq in Ex1. subst x1.
    apply existsb_exists in I2 as (x2 & I2 & Ex2). apply Nat.eqb_eq in Ex2. subst x2.
    destruct (err 2) as [e2| |]; try discriminate.
    destruct (err k1) as [ek1| |] eqn:E1; try discriminate.
    destruct (err k2) as [ek2| |] eqn:E2; try discriminate.
    destruct (isnan e2).
    - apply Nat.eqb_eq in M1, M2. congruence.
    - apply andb_true_iff in M1 as [X1 F1]. apply andb_true_iff in M2 as [X2 F2].
      unfold notnanb in X1, X2. apply negb_true_iff in X1, X2.
      rewrite forallb_forall in F1, F2.
      pose proof (F1 k2 I2) as A. pose proof (F2 k1 I1) as B. rewrite E2 in A. rewrite E1 in B.
      rewrite X2 in A. rewrite X1 in B. cbn [orb] in A, B.
      apply andb_true_iff in A as [A1 A2]. apply andb_true_iff in B as [B1 B2].
      destruct (Nat.lt_trichotomy k1 k2) as [Hlt|[Heq|Hlt]]; [|exact Heq|]; exfalso.
      + (* k1 < k2: then ek2 < ek1 strictly, contradicting ek1 <= ek2 *)
        replace (k2 <=? k1) with false in B2 by (symmetry; apply Nat.leb_gt; lia). cbn [orb] in B2.
        rewrite (ord_ltb _ O ek2 ek1 X2 X1), A1 in B2. discriminate.
      + replace (k1 <=? k2) with false in A2 by (symmetry; apply Nat.leb_gt; lia). cbn [orb] in A2.
        rewrite (ord_ltb _ O ek1 ek2 X1 X2), B1 in A2. discriminate.
  Qed.
End Scan.

(* ================================================================== the refinement loops, for ANY scan oracle *)
Section Refine.
  Variable scan : nat -> oval nat.
  Variables n limit : nat.
  (* the only fact used about the scan: on m points it answers in 2 .. max 2 (m-3) (lm_get_knee_range) *)
  Hypothesis Hscan : forall m k, scan m = OVal k -> 2 <= k /\ k <= Nat.max 2 (m - 3).

  (* ---------------------------------------------------------------- adjusted *)
  (* once the cut-off is pinned to limit and the last knee is below it, two more iterations at most *)
  Lemma lm_adj_pinned : forall fuel L, 2 <= fuel -> 2 <= L -> L <= limit ->
    within (lm_iter scan n limit RefAdjusted fuel L limit) 2.
  Proof.
    intros [|[|f]] L Hf H2 HL; try lia. cbn [lm_iter].
    destruct (scan (Nat.min (limit + 1) n)) as [k| |] eqn:E1; cbn [within]; auto.
    destruct (k =? L) eqn:EL; [cbn; lia|].
    destruct (Hscan _ _ E1) as [K2 K3].
    assert (Hc : Nat.max limit ((k + L) / 2) = limit).
    { apply Nat.max_l. apply Nat.div_le_upper_bound; lia. }
    rewrite Hc, E1, Nat.eqb_refl. cbn. lia.
  Qed.
  Lemma lm_adj_low : forall fuel L C, 3 <= fuel -> 2 <= L -> L <= limit -> C <= limit ->
    within (lm_iter scan n limit RefAdjusted fuel L C) 3.
  Proof.
    intros [|f] L C Hf H2 HL HC; try lia. cbn [lm_iter].
    destruct (scan (Nat.min (C + 1) n)) as [k| |] eqn:E1; cbn [within]; auto.
    destruct (k =? L) eqn:EL; [cbn; lia|].
    destruct (Hscan _ _ E1) as [K2 K3].
    assert (Hc : Nat.max limit ((k + L) / 2) = limit).
    { apply Nat.max_l. apply Nat.div_le_upper_bound; lia. }
    rewrite Hc. apply within_cons. apply lm_adj_pinned; lia.
  Qed.
  (* potential max(last, cutoff): while it exceeds limit it strictly decreases with every iteration that continues *)
  Lemma lm_adj_total : forall fuel L C, 2 <= L -> Nat.max L C + 1 <= fuel ->
    within (lm_iter scan n limit RefAdjusted fuel L C) (Nat.max L C + 1).
  Proof.
    induction fuel as [|f IH]; intros L C H2 Hf; [lia|].
    destruct (le_lt_dec (Nat.max L C) limit) as [Hlow|Hhigh].
    - apply (within_le _ 3); [|lia]. apply lm_adj_low; lia.
    - cbn [lm_iter].
      destruct (scan (Nat.min (C + 1) n)) as [k| |] eqn:E1; cbn [within]; auto.
      destruct (k =? L) eqn:EL; [cbn; lia|]. apply Nat.eqb_neq in EL.
      destruct (Hscan _ _ E1) as [K2 K3].
      assert (Hk : k < Nat.max L C) by lia.
      assert (Hd : (k + L) / 2 < Nat.max L C) by (apply Nat.div_lt_upper_bound; lia).
      apply (within_le _ (S (Nat.max k (Nat.max limit ((k + L) / 2)) + 1))); [|lia].
      apply within_cons. apply IH; lia.
  Qed.
  (* lmethod_refine_adjusted_total: for ANY scan oracle within its range, `adjusted` stops within n + 3 iterations *)
  Theorem lmethod_refine_adjusted_total : 2 <= n -> within (lm_refine scan n limit RefAdjusted) (n + 3).
  Proof.
    intros Hn. unfold lm_refine. apply (within_le _ (Nat.max n n + 1)); [|lia]. apply lm_adj_total; lia.
  Qed.

  (* ---------------------------------------------------------------- original (as repaired): the knee strictly decreases *)
  Lemma lm_orig_total : forall fuel L C, 2 <= L -> L <= fuel + 1 ->
    within (lm_iter scan n limit RefOriginal fuel L C) (L - 1).
  Proof.
    induction fuel as [|f IH]; intros L C H2 Hf; [lia|]. cbn [lm_iter].
    destruct (scan (Nat.min (C + 1) n)) as [k| |] eqn:E1; cbn [within]; auto.
    destruct (Hscan _ _ E1) as [K2 K3].
    destruct (L <=? k) eqn:EL; [cbn; lia|]. apply Nat.leb_gt in EL.
    apply (within_le _ (S (k - 1))); [|lia]. apply within_cons. apply IH; lia.
  Qed.
  Theorem lmethod_refine_original_total : 2 <= n -> within (lm_refine scan n limit RefOriginal) n.
  Proof.
    intros Hn. unfold lm_refine. apply (within_le _ (n - 1)); [|lia]. apply lm_orig_total; lia.
  Qed.

  (* ---------------------------------------------------------------- none: exactly one iteration *)
  Theorem lmethod_refine_none_total : within (lm_refine scan n limit RefNone) 1.
  Proof.
    unfold lm_refine. replace (n + 3) with (S (n + 2)) by lia. cbn [lm_iter].
    destruct (scan (Nat.min (n + 1) n)); cbn; auto.
  Qed.

  Theorem lmethod_refine_total it : 2 <= n -> within (lm_refine scan n limit it) (lm_iter_bound n it).
  Proof.
    intros Hn. destruct it; cbn [lm_iter_bound].
    - apply lmethod_refine_none_total.
    - apply lmethod_refine_original_total; auto.
    - apply lmethod_refine_adjusted_total; auto.
  Qed.

  (* ---------------------------------------------------------------- the trace is a chain of the stated rule *)
  Definition lm_scan_at (m k : nat) : bool := match scan m with OVal k' => k =? k' | _ => false end.

  Lemma lm_iter_chain it : forall fuel L C ks,
    lm_iter scan n limit it fuel L C = Ok ks -> lm_chain_b lm_scan_at n limit it L C ks = true.
  Proof.
    induction fuel as [|f IH]; intros L C ks; cbn [lm_iter]; [discriminate|].
    destruct (scan (Nat.min (C + 1) n)) as [k| |] eqn:E1; try discriminate.
    assert (A : lm_scan_at (Nat.min (C + 1) n) k = true) by (unfold lm_scan_at; rewrite E1; apply Nat.eqb_refl).
    destruct it.
    - intros [= <-]. cbn [lm_chain_b]. rewrite A. reflexivity.
    - destruct (L <=? k) eqn:EL.
      + intros [= <-]. cbn [lm_chain_b]. rewrite A, EL. reflexivity.
      + destruct (lm_iter scan n limit RefOriginal f k (Nat.max limit (Nat.min (2 * k) n))) as [ks'| | |] eqn:R;
          cbn [res_cons]; try discriminate.
        intros [= <-]. cbn [lm_chain_b]. rewrite A, EL. cbn [andb]. apply IH. exact R.
    - destruct (k =? L) eqn:EL.
      + intros [= <-]. cbn [lm_chain_b]. rewrite A, EL. reflexivity.
      + destruct (lm_iter scan n limit RefAdjusted f k (Nat.max limit ((k + L) / 2))) as [ks'| | |] eqn:R;
          cbn [res_cons]; try discriminate.
        intros [= <-]. cbn [lm_chain_b]. rewrite A, EL. cbn [andb]. apply IH. exact R.
  Qed.

  (* no exception when the scan answers on every prefix of 3 .. n points *)
  Lemma lm_iter_noexc it (Hn : 3 <= n) (Htot : forall m, 3 <= m <= n -> exists k, scan m = OVal k) :
    forall fuel L C, 2 <= L -> 2 <= C ->
    match lm_iter scan n limit it fuel L C with Exc | Missing => False | _ => True end.
  Proof.
    induction fuel as [|f IH]; intros L C HL HC; cbn [lm_iter]; [exact I|].
    destruct (Htot (Nat.min (C + 1) n) ltac:(lia)) as [k E1]. rewrite E1.
    destruct (Hscan _ _ E1) as [K2 K3].
    destruct it; [exact I| |].
    - destruct (L <=? k); [exact I|].
      specialize (IH k (Nat.max limit (Nat.min (2 * k) n)) K2 ltac:(lia)).
      destruct (lm_iter scan n limit RefOriginal f k (Nat.max limit (Nat.min (2 * k) n))); cbn [res_cons]; auto.
    - destruct (k =? L); [exact I|].
      assert (2 <= (k + L) / 2) by (apply Nat.div_le_lower_bound; lia).
      specialize (IH k (Nat.max limit ((k + L) / 2)) K2 ltac:(lia)).
      destruct (lm_iter scan n limit RefAdjusted f k (Nat.max limit ((k + L) / 2))); cbn [res_cons]; auto.
  Qed.
End Refine.

(* consequences of being a chain, for any step predicate with the scan's range *)
Lemma lm_chain_range (at_ : nat -> nat -> bool) n limit it
      (Hat : forall m k, at_ m k = true -> 2 <= k /\ k <= Nat.max 2 (m - 3)) :
  forall ks L C, lm_chain_b at_ n limit it L C ks = true ->
                 ks <> [] /\ Forall (fun k => 2 <= k /\ k <= Nat.max 2 (n - 3)) ks.
Proof.
  induction ks as [|k ks IH]; intros L C; cbn [lm_chain_b]; [discriminate|].
  intros H. apply andb_true_iff in H as [A H]. apply Hat in A.
  split; [discriminate|]. constructor; [lia|].
  destruct it.
  - destruct ks; [constructor|discriminate].
  - destruct (L <=? k); [destruct ks; [constructor|discriminate]|]. apply IH in H. tauto.
  - destruct (k =? L); [destruct ks; [constructor|discriminate]|]. apply IH in H. tauto.
Qed.
Lemma lm_chain_mono (a1 a2 : nat -> nat -> bool) n limit it (H : forall m k, a1 m k = true -> a2 m k = true) :
  forall ks L C, lm_chain_b a1 n limit it L C ks = true -> lm_chain_b a2 n limit it L C ks = true.
Proof.
  induction ks as [|k ks IH]; intros L C; cbn [lm_chain_b]; [auto|].
  intros X. apply andb_true_iff in X as [X1 X2]. rewrite (H _ _ X1). cbn [andb].
  destruct it; auto.
  - destruct (L <=? k); auto.
  - destruct (k =? L); auto.
Qed.

(* ================================================================== lmethod.knee *)
Section LmethodKnee.
  Context {N : Num}.
  Variable n : nat.
  Variable lerr : nat -> nat -> oval (T N).
  Let scan := fun m => lm_get_knee (lerr m) m.

  Lemma lm_scan_range m k : scan m = OVal k -> 2 <= k /\ k <= Nat.max 2 (m - 3).
  Proof. intros H. apply lm_get_knee_range in H. lia. Qed.

  (* Tier S, every error table (NaN / exceptions included), every refinement option and limit *)
  Theorem lmethod_knee_total it limit : 2 <= n -> within (lmethod_knee_res n lerr it limit) (lm_iter_bound n it).
  Proof. intros Hn. apply lmethod_refine_total; auto. apply lm_scan_range. Qed.

  Lemma lmethod_knee_range it limit k : lmethod_knee n lerr it limit = Some k -> 2 <= k /\ k <= Nat.max 2 (n - 3).
  Proof.
    unfold lmethod_knee, lmethod_knee_res, lm_refine. intros H.
    destruct (res_knee_In _ _ H) as (ks & R & Hin).
    apply lm_iter_chain in R.
    apply (lm_chain_range (lm_scan_at scan)) in R.
    - destruct R as [_ F]. rewrite Forall_forall in F. apply F. exact Hin.
    - intros m k0. unfold lm_scan_at. destruct (scan m) as [k'| |] eqn:E; try discriminate.
      intros X. apply Nat.eqb_eq in X. subst k0. apply lm_scan_range. exact E.
  Qed.
  (* lmethod_knee_interior: strictly interior on n >= 4 points (on 3 points the code returns the last index 2) *)
  Theorem lmethod_knee_interior it limit k :
    4 <= n -> lmethod_knee n lerr it limit = Some k -> 1 <= k /\ k + 2 <= n.
  Proof. intros Hn H. apply lmethod_knee_range in H. lia. Qed.

  (* with an error value for every split point of every prefix of 3..n points, lmethod.knee returns normally,
     within the iteration bound, an index in 2 .. n-3, and its successive knees follow the refinement rule,
     each being the first minimum of the two-line error on its prefix *)
  Theorem lmethod_knee_holds_model (O : TotalPreorderOn (@notnan N)) (NU : NanUnordered N) it limit :
    5 <= n ->
    (forall m, 3 <= m <= n -> Forall (fun i => oval_is_val (lerr m i) = true) (lm_cands m)) ->
    lmethod_knee_holds n lerr it limit (lmethod_knee_res n lerr it limit) = 0%Z.
  Proof.
    intros Hn Htot.
    pose proof (lmethod_knee_total it limit ltac:(lia)) as W.
    assert (Htot' : forall m, 3 <= m <= n -> exists k, scan m = OVal k).
    { intros m Hm. apply lm_get_knee_total; [lia|]. apply Htot. exact Hm. }
    pose proof (lm_iter_noexc scan n limit lm_scan_range it ltac:(lia) Htot' (n + 3) n n ltac:(lia) ltac:(lia)) as X.
    unfold lmethod_knee_res, lm_refine in *. fold scan in W |- *.
    destruct (lm_iter scan n limit it (n + 3) n n) as [ks| | |] eqn:R; try contradiction.
    cbn [within] in W. pose proof (lm_iter_chain _ _ _ _ _ _ _ _ R) as C.
    assert (Hne : ks <> []) by (destruct ks; cbn in W; [lia|discriminate]).
    destruct (res_knee_ok_nonempty ks Hne) as [k Hk].
    unfold lmethod_knee_holds. rewrite Hk.
    assert (Hr : 2 <= k /\ k <= Nat.max 2 (n - 3)).
    { apply (lmethod_knee_range it limit). unfold lmethod_knee, lmethod_knee_res, lm_refine. fold scan. rewrite R. exact Hk. }
    replace ((2 <=? k) && (k + 3 <=? n)) with true by (symmetry; apply andb_true_iff; split; apply Nat.leb_le; lia).
    replace (length ks <=? lm_iter_bound n it) with true by (symmetry; apply Nat.leb_le; lia).
    cbn [negb].
    rewrite (lm_chain_mono (lm_scan_at scan) (fun m k => lm_first_min_b (lerr m) m k)); [reflexivity| |exact C].
    intros m k0. unfold lm_scan_at. destruct (scan m) as [k'| |] eqn:E; try discriminate.
    intros Y. apply Nat.eqb_eq in Y. subst k0. apply lm_get_knee_spec; auto.
  Qed.
End LmethodKnee.
