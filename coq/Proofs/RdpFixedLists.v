(* Proofs/RdpFixedLists.v — list facts used by the fixed-size / global RDP proofs (local helpers of RdpFixedFacts):
   pop, stable sorting as a permutation, sorting of index lists, adjacency in strictly increasing lists, argmax. *)
From Coq Require Import List Arith Bool Lia Permutation Sorted.
From Knee Require Import Num NpList OrdLaws Model.RdpFixed Model.RdpFixedSpec Proofs.ListFacts.
Import ListNotations.
Local Open Scope num_scope.

(* ---- list.pop() ---- *)
Lemma pop_some {A} (l : list A) : forall x r, pop l = Some (x, r) -> l = r ++ [x].
Proof.
  induction l as [|a l IH]; intros x r H; cbn in H; [discriminate|].
  destruct (pop l) as [[y r']|] eqn:E.
  - inversion H; subst. rewrite (IH _ _ eq_refl). reflexivity.
  - inversion H; subst. destruct l; [reflexivity|]. cbn in E. destruct (pop l) as [[? ?]|]; discriminate.
Qed.
Lemma pop_none {A} (l : list A) : pop l = None -> l = [].
Proof. destruct l; auto. cbn. destruct (pop l) as [[? ?]|]; discriminate. Qed.
Lemma pop_snoc {A} (r : list A) x : pop (r ++ [x]) = Some (x, r).
Proof.
  induction r as [|a r IH]; [reflexivity|]. cbn [app pop]. rewrite IH. reflexivity.
Qed.
Lemma nonempty_false {A} (l : list A) : nonempty l = false -> l = [].
Proof. destruct l; auto; discriminate. Qed.
Lemma nonempty_true {A} (l : list A) : nonempty l = true -> l <> [].
Proof. destruct l; [discriminate|intros _; discriminate]. Qed.

(* ---- stable insertion sort is a permutation ---- *)
Lemma insert_by_perm {A} (le : A -> A -> bool) x l : Permutation (x :: l) (insert_by le x l).
Proof.
  induction l as [|y l IH]; cbn; auto.
  destruct (le y x); auto. rewrite perm_swap. constructor. exact IH.
Qed.
Lemma sort_by_perm_aux {A} (le : A -> A -> bool) l : forall acc,
  Permutation (l ++ acc) (fold_left (fun a x => insert_by le x a) l acc).
Proof.
  induction l as [|x l IH]; intros acc; cbn; auto.
  rewrite <- IH. rewrite <- insert_by_perm. rewrite Permutation_middle. reflexivity.
Qed.
Lemma sort_by_perm {A} (le : A -> A -> bool) l : Permutation l (sort_by le l).
Proof. unfold sort_by. rewrite <- sort_by_perm_aux. rewrite app_nil_r. reflexivity. Qed.
Lemma sort_by_In {A} (le : A -> A -> bool) l x : In x (sort_by le l) <-> In x l.
Proof.
  split; intros H.
  - eapply Permutation_in; [apply Permutation_sym, sort_by_perm|exact H].
  - eapply Permutation_in; [apply sort_by_perm|exact H].
Qed.

(* the output of the stable sort is sorted whenever the comparison is a total preorder on the keys present *)
Section Sorted.
  Context {A : Type} (le : A -> A -> bool) (P : A -> Prop).
  Hypothesis le_trans : forall x y z, P x -> P y -> P z -> le x y = true -> le y z = true -> le x z = true.
  Hypothesis le_total : forall x y, P x -> P y -> le x y = true \/ le y x = true.
  Let R x y := le x y = true.

  Lemma insert_by_sorted x l : P x -> Forall P l -> StronglySorted R l -> StronglySorted R (insert_by le x l).
  Proof.
    intros Px HF HS. induction l as [|y l IH]; cbn.
    - constructor; constructor.
    - inversion HF as [|? ? Py HF']; subst. inversion HS as [|? ? HS' Hy]; subst.
      destruct (le y x) eqn:E.
      + constructor; [apply IH; auto|].
        rewrite Forall_forall. intros z Hz.
        apply (Permutation_in _ (Permutation_sym (insert_by_perm le x l))) in Hz.
        destruct Hz as [<-|Hz]; [exact E|]. rewrite Forall_forall in Hy. auto.
      + constructor; [constructor; auto|].
        assert (Hxy : le x y = true) by (destruct (le_total x y Px Py) as [H|H]; [exact H|congruence]).
        constructor; [exact Hxy|].
        rewrite Forall_forall. intros z Hz. rewrite Forall_forall in Hy, HF'.
        apply (le_trans x y z); auto. apply Hy; auto.
  Qed.
  Lemma sort_by_sorted_aux l : forall acc, Forall P l -> Forall P acc -> StronglySorted R acc ->
    StronglySorted R (fold_left (fun a x => insert_by le x a) l acc).
  Proof.
    induction l as [|x l IH]; intros acc HF HA HS; cbn; auto.
    inversion HF; subst. apply IH; auto.
    - rewrite Forall_forall. intros z Hz.
      apply (Permutation_in _ (Permutation_sym (insert_by_perm le x acc))) in Hz.
      destruct Hz as [<-|Hz]; auto. rewrite Forall_forall in HA; auto.
    - apply insert_by_sorted; auto.
  Qed.
  Lemma sort_by_sorted l : Forall P l -> StronglySorted R (sort_by le l).
  Proof. intros H. apply sort_by_sorted_aux; auto. constructor. Qed.
  Lemma sorted_snoc_max l x : StronglySorted R (l ++ [x]) -> Forall (fun y => le y x = true) l.
  Proof.
    induction l as [|a l IH]; intros H; constructor.
    - cbn in H. inversion H as [|? ? _ Ha]; subst. rewrite Forall_forall in Ha. apply Ha.
      apply in_or_app. right. left. reflexivity.
    - apply IH. cbn in H. inversion H; auto.
  Qed.
End Sorted.

(* ---- sorting index lists ---- *)
Lemma insert_nat_ND_id_aux x l : ND l -> (forall y, In y l -> y <= x) -> insert_nat x l = l ++ [x].
Proof.
  induction l as [|y l IH]; intros HN Hle; cbn; auto.
  assert (y <= x) by (apply Hle; left; auto). apply Nat.leb_le in H. rewrite H.
  f_equal. apply IH; [eapply ND_tl; eauto|intros; apply Hle; right; auto].
Qed.
Lemma sort_nat_snoc l g : sort_nat (l ++ [g]) = insert_nat g (sort_nat l).
Proof. unfold sort_nat. rewrite fold_left_app. reflexivity. Qed.
Lemma ND_le_all a l : ND (a :: l) -> forall y, In y l -> a <= y.
Proof.
  revert a. induction l as [|b l IH]; intros a H y Hy; [destruct Hy|].
  destruct H as [Hab H]. destruct Hy as [<-|Hy]; auto. specialize (IH b H y Hy). lia.
Qed.
Lemma sort_nat_fold_ND l : forall acc, ND (acc ++ l) ->
  fold_left (fun a x => insert_nat x a) l acc = acc ++ l.
Proof.
  induction l as [|x l IH]; intros acc H; cbn [fold_left]; [rewrite app_nil_r; auto|].
  rewrite insert_nat_ND_id_aux.
  - rewrite IH; rewrite <- app_assoc; auto.
  - clear IH. induction acc as [|a acc IHa]; [exact I|]. destruct acc as [|b acc]; [exact I|].
    cbn in H. destruct H as [Hab H]. split; auto.
  - clear IH. induction acc as [|a acc IHa]; intros y Hy; [destruct Hy|].
    destruct Hy as [<-|Hy].
    + apply (ND_le_all a (acc ++ x :: l) H). apply in_or_app. right. left. auto.
    + apply IHa; auto. eapply ND_tl; eauto.
Qed.
Lemma sort_nat_ND_id l : ND l -> sort_nat l = l.
Proof. intros H. unfold sort_nat. rewrite sort_nat_fold_ND; auto. Qed.
Lemma sort_nat_SI_id l : SI l -> sort_nat l = l.
Proof. intros H. apply sort_nat_ND_id, SI_ND, H. Qed.

(* ---- adjacency in a strictly increasing list ---- *)
(* set-like reading: both retained, nothing retained in between *)
Definition AdjS (a b : nat) (red : list nat) : Prop :=
  In a red /\ In b red /\ a < b /\ forall x, In x red -> x <= a \/ b <= x.

Lemma adj_pairs_In red : forall a b, In (a, b) (adj_pairs red) <-> exists l1 l2, red = l1 ++ a :: b :: l2.
Proof.
  induction red as [|x red IH]; intros a b.
  - cbn. split; [tauto|]. intros (l1 & l2 & H). destruct l1; discriminate.
  - destruct red as [|y red'].
    + cbn. split; [tauto|]. intros (l1 & l2 & H). destruct l1 as [|? [|? ?]]; discriminate.
    + change (adj_pairs (x :: y :: red')) with ((x, y) :: adj_pairs (y :: red')).
      split.
      * intros [H|H].
        -- inversion H; subst. exists [], red'. reflexivity.
        -- apply IH in H. destruct H as (l1 & l2 & H). exists (x :: l1), l2. rewrite H. reflexivity.
      * intros (l1 & l2 & H). destruct l1 as [|z l1].
        -- cbn in H. inversion H; subst. left. reflexivity.
        -- right. apply IH. cbn in H. inversion H as [[Hz H2]]. exists l1, l2. exact H2.
Qed.

Lemma SI_app_lt l1 : forall x l2, SI (l1 ++ x :: l2) -> Forall (fun y => y < x) l1.
Proof.
  induction l1 as [|a l1 IH]; intros x l2 H; constructor.
  - cbn in H. pose proof (SI_lt_all a (l1 ++ x :: l2) H) as HF. rewrite Forall_forall in HF.
    apply HF. apply in_or_app. right. left. auto.
  - apply (IH x l2). cbn in H. eapply SI_tl; eauto.
Qed.

Lemma Adj_AdjS red a b : SI red -> In (a, b) (adj_pairs red) -> AdjS a b red.
Proof.
  intros HS H. apply adj_pairs_In in H. destruct H as (l1 & l2 & ->).
  pose proof (SI_app_lt l1 a (b :: l2) HS) as H1. rewrite Forall_forall in H1.
  apply SI_app_inv in HS. destruct HS as [_ HS].
  pose proof (SI_lt_all a (b :: l2) HS) as H2. rewrite Forall_forall in H2.
  pose proof (SI_lt_all b l2 (SI_tl _ _ HS)) as H3. rewrite Forall_forall in H3.
  repeat split.
  - apply in_or_app. right. left. auto.
  - apply in_or_app. right. right. left. auto.
  - apply H2. left. auto.
  - intros x Hx. apply in_app_or in Hx. destruct Hx as [Hx|[<-|[<-|Hx]]]; try lia.
    + specialize (H1 x Hx). lia.
    + specialize (H3 x Hx). lia.
Qed.
Lemma AdjS_Adj red a b : SI red -> AdjS a b red -> In (a, b) (adj_pairs red).
Proof.
  intros HS (Ha & Hb & Hab & Hno). apply adj_pairs_In.
  apply in_split in Ha. destruct Ha as (l1 & rest & ->). exists l1.
  pose proof (SI_app_lt l1 a rest HS) as H1. rewrite Forall_forall in H1.
  apply in_app_or in Hb. destruct Hb as [Hb|[Hb|Hb]]; [specialize (H1 b Hb); lia|lia|].
  destruct rest as [|c l2]; [destruct Hb|]. exists l2.
  pose proof HS as HS0.
  apply SI_app_inv in HS. destruct HS as [_ HS].
  assert (Hac : a < c) by (destruct HS; auto).
  pose proof (SI_hd_le (c :: l2) 0 b (SI_tl _ _ HS) Hb) as Hcb. cbn in Hcb.
  assert (Hc : In c (l1 ++ a :: c :: l2)) by (apply in_or_app; right; right; left; auto).
  destruct (Hno c Hc); [lia|]. replace c with b by lia. reflexivity.
Qed.

(* inserting g strictly between two adjacent retained indices *)
Lemma insert_nat_mid l1 : forall a b l2 g, SI (l1 ++ a :: b :: l2) -> a < g < b ->
  insert_nat g (l1 ++ a :: b :: l2) = l1 ++ a :: g :: b :: l2.
Proof.
  induction l1 as [|x l1 IH]; intros a b l2 g HS Hg.
  - cbn. destruct (Nat.leb_spec a g); [|lia]. destruct (Nat.leb_spec b g); [lia|]. reflexivity.
  - cbn [app insert_nat].
    pose proof (SI_app_lt (x :: l1) a (b :: l2) HS) as H1. inversion H1; subst.
    destruct (Nat.leb_spec x g); [|lia]. f_equal. apply IH; auto. cbn in HS. eapply SI_tl; eauto.
Qed.

Lemma SI_length_bound red : SI red -> red <> [] -> length red <= last red 0 - hd 0 red + 1.
Proof.
  induction red as [|a [|b l] IH]; intros HS Hne; [congruence|cbn; lia|].
  change (last (a :: b :: l) 0) with (last (b :: l) 0).
  destruct HS as [Hab HS]. specialize (IH HS ltac:(discriminate)). cbn [length hd] in *.
  pose proof (SI_le_last (b :: l) 0 b HS (or_introl eq_refl)). lia.
Qed.

(* ---- argmax stays inside the array ---- *)
Section Argmax.
  Context {N : Num}.
  Lemma argmax_go_bound (l : list (T N)) : forall i best bi, bi < i -> argmax_go l i best bi < i + length l.
  Proof.
    induction l as [|x l IH]; intros i best bi H; cbn; [lia|].
    destruct (isnan best); [lia|].
    destruct (negb (x <=?! best)).
    - specialize (IH (S i) x i ltac:(lia)). lia.
    - specialize (IH (S i) best bi ltac:(lia)). lia.
  Qed.
  Lemma argmax_lt (l : list (T N)) : l <> [] -> argmax l < length l.
  Proof.
    destruct l as [|x l]; [congruence|]. intros _. cbn [argmax length].
    pose proof (argmax_go_bound l 1 x 0 ltac:(lia)). lia.
  Qed.
  Lemma interior_length {A} (d : list A) : length (interior d) = length d - 2.
  Proof.
    unfold interior. destruct d as [|a d]; [reflexivity|]. cbn [tl length].
    destruct d as [|b d] using rev_ind; [reflexivity|].
    rewrite removelast_last, app_length. cbn. lia.
  Qed.

  (* Tier O: on non-NaN values forming a total preorder, argmax is a maximum *)
  Variable P : T N -> Prop.
  Hypothesis HP : TotalPreorderOn P.
  Hypothesis Pnn : forall x, P x -> isnan x = false.
  Lemma argmax_go_max (l : list (T N)) : forall i best bi pre,
    Forall P l -> Forall P pre -> P best -> length pre = i -> bi < i -> nth bi pre zero = best ->
    Forall (fun y => y <=?! best = true) pre ->
    Forall (fun y => y <=?! nth (argmax_go l i best bi) (pre ++ l) zero = true) (pre ++ l).
  Proof.
    induction l as [|x l IH]; intros i best bi pre HF HFp Pb Hlen Hbi Hnth Hpre; cbn.
    - rewrite app_nil_r. rewrite Hnth. exact Hpre.
    - inversion HF as [|? ? Px HF']; subst. rewrite (Pnn _ Pb).
      replace (pre ++ x :: l) with ((pre ++ [x]) ++ l) by (rewrite <- app_assoc; reflexivity).
      assert (HFp' : Forall P (pre ++ [x])) by (apply Forall_app; split; auto).
      destruct (x <=?! nth bi pre zero) eqn:E; cbn [negb].
      + apply IH; auto; try (rewrite app_length; cbn; lia).
        * rewrite app_nth1; auto.
        * apply Forall_app. split; auto.
      + assert (Hbx : nth bi pre zero <=?! x = true).
        { destruct (ord_total P HP _ x Pb Px) as [H|H]; [exact H|congruence]. }
        apply IH; auto; try (rewrite app_length; cbn; lia).
        * rewrite app_nth2; [|lia]. rewrite Nat.sub_diag. reflexivity.
        * apply Forall_app. split.
          -- rewrite Forall_forall in *. intros y Hy.
             apply (ord_trans P HP y (nth bi pre zero) x); auto.
          -- constructor; [apply (ord_refl P HP); auto|constructor].
  Qed.
  Lemma argmax_max (l : list (T N)) : Forall P l ->
    Forall (fun y => y <=?! nth (argmax l) l zero = true) l.
  Proof.
    destruct l as [|x l]; intros HF; [constructor|]. inversion HF; subst.
    change (x :: l) with ([x] ++ l). unfold argmax. cbn [app].
    change (x :: l) with ([x] ++ l).
    apply argmax_go_max; auto.
    constructor; [apply (ord_refl P HP); auto|constructor].
  Qed.
End Argmax.
