(* Proofs/PipelineFacts.v — the composition theorem of property C08. *)
From Coq Require Import List Arith Bool Lia.
From Knee Require Import Num NpList OrdLaws Model.Mapping Model.Pipeline Proofs.ListFacts Proofs.MappingFacts.
Import ListNotations.
Local Open Scope num_scope.

(* subsequence, declaratively *)
Inductive Sub : list nat -> list nat -> Prop :=
| Sub_nil : forall l, Sub [] l
| Sub_keep : forall a l1 l2, Sub l1 l2 -> Sub (a :: l1) (a :: l2)
| Sub_skip : forall a l1 l2, Sub l1 l2 -> Sub l1 (a :: l2).

Lemma Sub_refl l : Sub l l.
Proof. induction l; constructor; auto. Qed.
Lemma Sub_nil_r l : Sub l [] -> l = [].
Proof. intros H; inversion H; auto. Qed.
Lemma Sub_trans l1 l2 l3 : Sub l1 l2 -> Sub l2 l3 -> Sub l1 l3.
Proof.
  intros H12 H23. revert l1 H12.
  induction H23 as [l|a l2 l3 H IH|a l2 l3 H IH]; intros l1 H12.
  - apply Sub_nil_r in H12. subst. constructor.
  - inversion H12; subst.
    + constructor.
    + apply Sub_keep. auto.
    + apply Sub_skip. auto.
  - apply Sub_skip. auto.
Qed.
Lemma Sub_In l1 l2 : Sub l1 l2 -> forall x, In x l1 -> In x l2.
Proof.
  induction 1 as [l|a l1 l2 H IH|a l1 l2 H IH]; intros x Hx; cbn in *.
  - contradiction.
  - destruct Hx; auto.
  - auto.
Qed.
Lemma Sub_Forall (P : nat -> Prop) l1 l2 : Sub l1 l2 -> Forall P l2 -> Forall P l1.
Proof.
  intros Hs Hf. rewrite Forall_forall in *. intros x Hx. apply Hf. eapply Sub_In; eauto.
Qed.
Lemma Sub_cons_inv a l1 l2 : Sub (a :: l1) l2 -> exists p q, l2 = p ++ a :: q /\ Sub l1 q.
Proof.
  intros H. remember (a :: l1) as l eqn:E. revert a l1 E.
  induction H as [l|b l1' l2 H IH|b l1' l2 H IH]; intros a l1 E.
  - discriminate.
  - injection E as -> ->. exists [], l2. split; auto.
  - destruct (IH _ _ E) as (p & q & -> & Hq). exists (b :: p), q. split; auto.
Qed.

Lemma subseqb_Sub l1 : forall l2, subseqb l1 l2 = true -> Sub l1 l2.
Proof.
  induction l1 as [|a l1 IH]; intros l2 H.
  - constructor.
  - induction l2 as [|b l2 IH2]; cbn [subseqb] in H; [discriminate|].
    destruct (a =? b) eqn:E.
    + apply Nat.eqb_eq in E. subst. apply Sub_keep. auto.
    + apply Sub_skip. auto.
Qed.

(* a subsequence of a strictly increasing list is strictly increasing *)
Lemma SI_Forall_lt a l : SI (a :: l) -> Forall (fun x => a < x) l.
Proof. apply SI_lt_all. Qed.
Lemma Sub_SI l1 l2 : Sub l1 l2 -> SI l2 -> SI l1.
Proof.
  induction 1 as [l|a l1 l2 H IH|a l1 l2 H IH]; intros Hs.
  - exact I.
  - apply SI_cons.
    + eapply Sub_Forall; eauto. apply SI_lt_all; auto.
    + apply IH. eapply SI_tl; eauto.
  - apply IH. eapply SI_tl; eauto.
Qed.

(* mapping indices through a strictly increasing list keeps strict order *)
Lemma map_nth_SI red : SI red -> forall l, SI l -> Forall (fun i => i < length red) l ->
  SI (map (fun i => nth i red 0) l).
Proof.
  intros Hred l. induction l as [|a [|b l] IH]; intros Hl Hf; cbn [map]; try exact I.
  cbn [SI] in Hl. destruct Hl as [Hab Hl].
  split.
  - apply SI_nth_lt; auto. inversion Hf as [|? ? _ Hf']; subst. inversion Hf'; subst; auto.
  - apply IH; auto. inversion Hf; auto.
Qed.

Section Facts.
  Context {N : Num}.

  (* Prop reading of nonincb *)
  Fixpoint NonInc (y : nat -> T N) (l : list nat) : Prop :=
    match l with
    | a :: ((b :: _) as l') => (y b <=?! y a) = true /\ NonInc y l'
    | _ => True
    end.
  Lemma nonincb_iff (y : nat -> T N) l : nonincb y l = true <-> NonInc y l.
  Proof.
    induction l as [|a [|b l] IH]; cbn [nonincb NonInc]; try tauto.
    rewrite andb_true_iff. cbn [nonincb NonInc] in IH. tauto.
  Qed.
  Lemma NonInc_tl (y : nat -> T N) a l : NonInc y (a :: l) -> NonInc y l.
  Proof. destruct l; cbn; tauto. Qed.

  (* ---- the worst-knee filter (Tier S: no hypothesis on the arithmetic) *)
  Lemma worst_go_Sub (y : nat -> T N) : forall ks h, Sub (worst_go y h ks) ks.
  Proof.
    induction ks as [|k ks IH]; intros h; cbn [worst_go].
    - constructor.
    - destruct (y k <=?! h); [apply Sub_keep|apply Sub_skip]; apply IH.
  Qed.
  Theorem filter_worst_Sub (y : nat -> T N) ks : Sub (filter_worst y ks) ks.
  Proof. destruct ks as [|k ks]; cbn [filter_worst]; [constructor|apply Sub_keep, worst_go_Sub]. Qed.

  (* every kept knee passed the code's test against the previously kept one *)
  Lemma worst_go_NonInc (y : nat -> T N) : forall ks a, NonInc y (a :: worst_go y (y a) ks).
  Proof.
    induction ks as [|k ks IH]; intros a; cbn [worst_go].
    - exact I.
    - destruct (y k <=?! y a) eqn:E.
      + cbn [NonInc]. split; [exact E|]. apply IH.
      + apply IH.
  Qed.
  Theorem filter_worst_NonInc (y : nat -> T N) ks : NonInc y (filter_worst y ks).
  Proof. destruct ks as [|k ks]; cbn [filter_worst]; [exact I|apply worst_go_NonInc]. Qed.

  (* ---- Tier O: a subsequence of a non-increasing list is non-increasing *)
  Section TierO.
    Variable P : T N -> Prop.
    Hypothesis HO : TotalPreorderOn P.

    Lemma NonInc_head_all (y : nat -> T N) a l : P (y a) -> Forall (fun k => P (y k)) l ->
      NonInc y (a :: l) -> Forall (fun k => (y k <=?! y a) = true) l.
    Proof.
      revert a. induction l as [|b l IH]; intros a Pa Pl H; constructor.
      - cbn [NonInc] in H. tauto.
      - cbn [NonInc] in H. destruct H as [Hba H].
        inversion Pl as [|? ? Pb Pl']; subst.
        specialize (IH b Pb Pl' H).
        rewrite Forall_forall in *. intros k Hk.
        apply (ord_trans P HO (y k) (y b) (y a)); auto.
    Qed.

    Lemma Sub_NonInc (y : nat -> T N) l1 l2 : Sub l1 l2 -> Forall (fun k => P (y k)) l2 -> NonInc y l2 -> NonInc y l1.
    Proof.
      induction 1 as [l|a l1 l2 H IH|a l1 l2 H IH]; intros Pl Hn.
      - exact I.
      - inversion Pl as [|? ? Pa Pl']; subst.
        assert (Hl1 : NonInc y l1) by (apply IH; auto; eapply NonInc_tl; eauto).
        destruct l1 as [|b l1]; [exact I|].
        cbn [NonInc]. split; [|exact Hl1].
        pose proof (NonInc_head_all y a l2 Pa Pl' Hn) as Hall.
        rewrite Forall_forall in Hall. apply Hall.
        eapply Sub_In; eauto. left; reflexivity.
      - inversion Pl; subst. apply IH; auto. eapply NonInc_tl; eauto.
    Qed.
  End TierO.

  (* ---- the composition theorem *)
  Section Compose.
    Variable n : nat.
    Variable red : list nat.
    Variable yo : nat -> T N.                (* heights of the original curve *)
    Variable knees : list nat.               (* multi-knee output on the reduced curve *)
    Variables f_corner f_cluster : list nat -> list nat.
    Variable P : T N -> Prop.

    (* C01: the simplifier's output is a well-formed reduction (removed = rows red) *)
    Hypothesis Hwf : WF n red.
    (* C02: strictly increasing positions inside the reduced curve *)
    Hypothesis Hk_si : SI knees.
    Hypothesis Hk_rng : Forall (fun i => i < length red) knees.
    (* C13 / C12: the filters only select from their input *)
    Hypothesis Hcorner : forall l, Sub (f_corner l) l.
    Hypothesis Hcluster : forall l, Sub (f_cluster l) l.
    (* Tier O on the heights that are compared *)
    Hypothesis HO : TotalPreorderOn P.
    Hypothesis HP : forall j, In j knees -> P (reduced_height yo red j).

    Let yr := reduced_height yo red.
    Let k1 := filter_worst yr knees.
    Let k2 := f_corner k1.
    Let k3 := f_cluster k2.

    Theorem pipeline_ok :
      exists out,
        pipeline red (rows red) yo knees f_corner f_cluster = Some out /\
        out = map (fun j => nth j red 0) k3 /\                 (* each output index is the retained point of its reduced-space knee *)
        SI out /\ Forall (fun i => In i red /\ i < n) out /\   (* strictly increasing, retained simplification points, valid *)
        Sub k1 knees /\ Sub k2 k1 /\ Sub k3 k2 /\              (* every filter stage returns a subsequence of its input *)
        NonInc yr k1 /\ NonInc yr k2 /\ NonInc yr k3 /\        (* heights non-increasing from the worst-knee filter onwards *)
        NonInc yo out.                                         (* ... and so are the heights of the final original-curve knees *)
    Proof.
      assert (S1 : Sub k1 knees) by apply filter_worst_Sub.
      assert (S2 : Sub k2 k1) by apply Hcorner.
      assert (S3 : Sub k3 k2) by apply Hcluster.
      assert (S3k : Sub k3 knees) by (eapply Sub_trans; [exact S3|eapply Sub_trans; eauto]).
      assert (Hsi3 : SI k3) by (eapply Sub_SI; eauto).
      assert (Hr3 : Forall (fun i => i < length red) k3) by (eapply Sub_Forall; eauto).
      assert (Pk : Forall (fun k => P (yr k)) knees) by (rewrite Forall_forall; intros; apply HP; auto).
      assert (Pk1 : Forall (fun k => P (yr k)) k1) by (eapply Sub_Forall; eauto).
      assert (Pk2 : Forall (fun k => P (yr k)) k2) by (eapply Sub_Forall; eauto).
      assert (N1 : NonInc yr k1) by apply filter_worst_NonInc.
      assert (N2 : NonInc yr k2) by (apply (Sub_NonInc P HO yr k2 k1 S2 Pk1 N1)).
      assert (N3 : NonInc yr k3) by (apply (Sub_NonInc P HO yr k3 k2 S3 Pk2 N2)).
      exists (map (fun j => nth j red 0) k3).
      assert (Hred : SI red) by (destruct Hwf; tauto).
      repeat split; auto.
      - unfold pipeline. fold yr. fold k1. fold k2. fold k3.
        apply (mapping_correct n); auto. apply SI_ND; auto.
      - apply map_nth_SI; auto.
      - rewrite Forall_forall. intros i Hi. apply in_map_iff in Hi. destruct Hi as (j & <- & Hj).
        rewrite Forall_forall in Hr3. specialize (Hr3 j Hj).
        assert (Hin : In (nth j red 0) red) by (apply nth_In; auto).
        split; auto.
        destruct Hwf as (Hsi & Hhd & Hlast & Hlen).
        pose proof (SI_le_last red 0 _ Hsi Hin) as Hle.
        assert (H1 : In (nth 1 red 0) red) by (apply nth_In; lia).
        pose proof (SI_le_last red 0 _ Hsi H1) as Hle1.
        pose proof (SI_nth_lt red 0 1 0 Hsi ltac:(lia) ltac:(lia)) as Hlt.
        lia.
      - clear - N3. induction k3 as [|a [|b l] IH]; cbn [map NonInc]; try exact I.
        cbn [NonInc] in N3. destruct N3 as [Hab N3']. split; [exact Hab|]. apply IH. exact N3'.
    Qed.
  End Compose.
End Facts.

(* ---- packaging for Props/C08.v *)
From Knee Require Import NumFloat FloatOrder.

Theorem worst_stage (N : Num) (y : nat -> T N) ks :
  Sub (filter_worst y ks) ks /\ NonInc y (filter_worst y ks).
Proof. split; [apply filter_worst_Sub|apply filter_worst_NonInc]. Qed.

Theorem predicates_sound (N : Num) (y : nat -> T N) l1 l2 :
  (subseqb l1 l2 = true -> Sub l1 l2) /\ (nonincb y l1 = true <-> NonInc y l1).
Proof. split; [apply subseqb_Sub|apply nonincb_iff]. Qed.

Theorem pipeline_ok_float (n : nat) (red : list nat) (yo : nat -> PrimFloat.float) (knees : list nat)
    (f_corner f_cluster : list nat -> list nat) :
  WF n red -> SI knees -> Forall (fun i => i < length red) knees ->
  (forall l, Sub (f_corner l) l) -> (forall l, Sub (f_cluster l) l) ->
  (forall j, In j knees -> f_isnan (@reduced_height FloatNum yo red j) = false) ->
  let yr := @reduced_height FloatNum yo red in
  let k1 := @filter_worst FloatNum yr knees in let k2 := f_corner k1 in let k3 := f_cluster k2 in
  exists out,
    @pipeline FloatNum red (rows red) yo knees f_corner f_cluster = Some out /\
    out = map (fun j => nth j red 0) k3 /\
    SI out /\ Forall (fun i => In i red /\ i < n) out /\
    Sub k1 knees /\ Sub k2 k1 /\ Sub k3 k2 /\
    @NonInc FloatNum yr k1 /\ @NonInc FloatNum yr k2 /\ @NonInc FloatNum yr k3 /\ @NonInc FloatNum yo out.
Proof.
  intros Hwf Hsi Hr Hc Hcl Hnan.
  apply (@pipeline_ok FloatNum n red yo knees f_corner f_cluster (@notnan FloatNum)); auto.
  apply float_total_preorder.
Qed.
