(* Proofs/LinearFitGeneric.v — C16, Tier S: for EVERY numeric instance (hence binary64 with every rounding, NaN, inf) and
   EVERY eps — zero, negative and NaN included — each linear_fit wrapper IS the same metric, with the same eps, applied to
   linear_transform(x, coef) of the first column against the second column.  This is the statement behind the bit-for-bit
   "wrapper = metric" conjuncts of Run/JudgeC16.v (codes 3, 9 and, at the explicit eps = 0, cl_holds0). *)
From Coq Require Import List.
From Knee Require Import Num NpList Model.Metrics Model.LinearFit.
Import ListNotations.

Section Generic.
  Context {N : Num}.
  Theorem points_wrappers_gen (P : list (T N * T N)) (c : T N * T N) (eps : T N) :
    rmse_points P c = rmse (map snd P) (linear_transform (map fst P) c) /\
    rmsle_points P c = rmsle (map snd P) (linear_transform (map fst P) c) /\
    rmspe_points P c eps = rmspe (map snd P) (linear_transform (map fst P) c) eps /\
    smape_points P c eps = smape (map snd P) (linear_transform (map fst P) c) eps /\
    rpd_points P c eps = rpd (map snd P) (linear_transform (map fst P) c) eps /\
    linear_residuals_points P c = residuals (map snd P) (linear_transform (map fst P) c) /\
    linear_fit_residuals_points P =
      residuals (map snd P) (linear_transform (map fst P) (linear_fit (map fst P) (map snd P))) /\
    linear_transform_points P c = linear_transform (map fst P) c.
  Proof. repeat split. Qed.
End Generic.
