(* Proofs/NpSumR.v — on the reals NumPy's pairwise summation (NpList.np_sum) is the mathematical sum.
   Helper of the `evaluation` topics (C15, C19); generic, imports nothing of theirs. *)
From Coq Require Import Reals ZArith List Arith Bool Lia Lra.
From Knee Require Import Num NumR NpList.
Import ListNotations.
Local Open Scope R_scope.

Lemma Rsum_app l1 l2 : Rsum (l1 ++ l2) = Rsum l1 + Rsum l2.
Proof. induction l1 as [|a l1 IH]; cbn; [lra|rewrite IH; lra]. Qed.

Lemma Rsum_firstn_skipn k l : Rsum (firstn k l) + Rsum (skipn k l) = Rsum l.
Proof. rewrite <- Rsum_app, firstn_skipn. reflexivity. Qed.

Lemma fold_left_add_R (l : list R) a : fold_left (@add RNum) l a = a + Rsum l.
Proof. exact (fold_left_Rplus l a). Qed.

(* the eight interleaved accumulators *)
Lemma acc8_sum : forall fuel (r l : list R) k,
  length r = 8%nat -> length l = (8 * k)%nat -> (k <= fuel)%nat ->
  length (@acc8 RNum fuel r l) = 8%nat /\ Rsum (@acc8 RNum fuel r l) = Rsum r + Rsum l.
Proof.
  induction fuel as [|fuel IH]; intros r l k Hr Hl Hk.
  - assert (k = 0%nat) by lia. subst k. destruct l; [|cbn in Hl; lia]. cbn. split; [auto|lra].
  - destruct k as [|k].
    + destruct l; [|cbn in Hl; lia]. cbn. split; [auto|lra].
    + destruct l as [|a0 [|a1 [|a2 [|a3 [|a4 [|a5 [|a6 [|a7 rest]]]]]]]]; cbn [length] in Hl; try lia.
      destruct r as [|r0 [|r1 [|r2 [|r3 [|r4 [|r5 [|r6 [|r7 [|r8 r']]]]]]]]]; cbn [length] in Hr; try lia.
      cbn [acc8]. change (@add RNum) with Rplus.
      destruct (IH [r0 + a0; r1 + a1; r2 + a2; r3 + a3; r4 + a4; r5 + a5; r6 + a6; r7 + a7] rest k) as [H1 H2];
        [reflexivity|lia|lia|].
      split; [exact H1|]. etransitivity; [exact H2|]. cbn [Rsum]. lra.
Qed.

Lemma block_sum_R (l : list R) : @block_sum RNum l = Rsum l.
Proof.
  unfold block_sum. change (T RNum) with R. destruct (length l <? 8)%nat eqn:E.
  - rewrite fold_left_add_R. change (@zero RNum) with 0. lra.
  - apply Nat.ltb_ge in E.
    set (n := length l) in *. set (nb := (n - n mod 8)%nat).
    assert (Hmod : (n mod 8 < 8)%nat) by (apply Nat.mod_upper_bound; lia).
    assert (Hdiv : n = (8 * (n / 8) + n mod 8)%nat) by (apply Nat.div_mod; lia).
    assert (Hnb : nb = (8 * (n / 8))%nat) by (unfold nb; lia).
    assert (Hq : (1 <= n / 8)%nat) by (destruct (n / 8)%nat; lia).
    set (body := firstn nb l).
    assert (Hbl : length body = nb) by (unfold body; rewrite firstn_length; fold n; lia).
    destruct (acc8_sum n (firstn 8 body) (skipn 8 body) (n / 8 - 1)) as [H1 H2].
    + rewrite firstn_length, Hbl. lia.
    + rewrite skipn_length, Hbl. lia.
    + lia.
    + destruct (@acc8 RNum n (firstn 8 body) (skipn 8 body))
        as [|r0 [|r1 [|r2 [|r3 [|r4 [|r5 [|r6 [|r7 [|r8 r']]]]]]]]]; cbn [length] in H1; try lia.
      rewrite fold_left_add_R. cbn [Rsum] in H2. change (@add RNum) with Rplus.
      rewrite <- (Rsum_firstn_skipn nb l). fold body.
      rewrite <- (Rsum_firstn_skipn 8 body). lra.
Qed.

Lemma np_sum_go_R : forall fuel (l : list R), @np_sum_go RNum fuel l = Rsum l.
Proof.
  induction fuel as [|fuel IH]; intros l; cbn [np_sum_go]; change (T RNum) with R.
  - destruct (length l <=? 128)%nat; apply block_sum_R.
  - destruct (length l <=? 128)%nat; [apply block_sum_R|].
    rewrite !IH. change (@add RNum) with Rplus. apply Rsum_firstn_skipn.
Qed.

Theorem np_sum_R (l : list R) : @np_sum RNum l = Rsum l.
Proof. unfold np_sum. rewrite np_sum_go_R. cbn. lra. Qed.

Lemma np_mean_R (l : list R) : @np_mean RNum l = Rsum l / INR (length l).
Proof. unfold np_mean. rewrite np_sum_R. unfold ofN. cbn. rewrite <- INR_IZR_INZ. reflexivity. Qed.

Lemma Rsum_nonneg l : Forall (fun x => 0 <= x) l -> 0 <= Rsum l.
Proof. induction 1; cbn; lra. Qed.

Lemma Rsum_zero l : Forall (fun x => x = 0) l -> Rsum l = 0.
Proof. induction 1; cbn; lra. Qed.

Lemma Rsum_map_ext {A} (f g : A -> R) l : (forall x, In x l -> f x = g x) -> Rsum (map f l) = Rsum (map g l).
Proof.
  induction l as [|a l IH]; intros H; cbn; auto. rewrite (H a (or_introl eq_refl)), IH; auto.
  intros x Hx; apply H; right; auto.
Qed.
