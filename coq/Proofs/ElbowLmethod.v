(* Proofs/ElbowLmethod.v — C03, L-method (Tier A, RNum): the two-line error is 0 at the split c and
   > 0 at every other split, for both fits and both costs, so get_knee returns c; the refinement
   loop (none / original / adjusted, any limit) re-finds c on the truncated curve and stops. *)
From Coq Require Import Reals List Arith Lia Lra Bool Psatz.
From Knee Require Import Num NumR NpList Model.Uts Model.DetectorsFormula Proofs.ElbowBase.
Import ListNotations.
Local Open Scope R_scope.

(* the weaker shape the scan needs (and that truncated curves still have): 2 <= c <= n - 3 *)
Record welbow (pts : list (R * R)) (c : nat) (m1 m2 : R) : Prop := {
  we_lo : (2 <= c)%nat;
  we_hi : (c + 3 <= length pts)%nat;
  we_x : forall i, (S i < length pts)%nat -> PX pts i < PX pts (S i);
  we_left : forall i, (i <= c)%nat -> PY pts i = PY pts c + m1 * (PX pts i - PX pts c);
  we_right : forall i, (c <= i < length pts)%nat -> PY pts i = PY pts c + m2 * (PX pts i - PX pts c);
  we_slopes : m1 <> m2
}.
Lemma elbow_welbow pts c m1 m2 : elbow pts c m1 m2 -> welbow pts c m1 m2.
Proof. intros [H1 H2 H3 H4 H5 H6]. constructor; auto; lia. Qed.

(* truncating an elbow after index k >= c + 2 leaves a (weak) elbow with the same corner *)
Lemma welbow_firstn pts c m1 m2 k : welbow pts c m1 m2 -> (c + 2 <= k)%nat -> welbow (firstn (S k) pts) c m1 m2.
Proof.
  intros [H1 H2 H3 H4 H5 H6] Hk.
  assert (HX : forall i, (i < S k)%nat -> PX (firstn (S k) pts) i = PX pts i).
  { intros i Hi. unfold PX. rewrite nth_firstn_lt by lia. reflexivity. }
  assert (HY : forall i, (i < S k)%nat -> PY (firstn (S k) pts) i = PY pts i).
  { intros i Hi. unfold PY. rewrite nth_firstn_lt by lia. reflexivity. }
  constructor; auto; rewrite ?firstn_length.
  - lia.
  - intros i Hi. rewrite !HX by lia. apply H3. lia.
  - intros i Hi. rewrite !HX, !HY by lia. apply H4. lia.
  - intros i Hi. rewrite !HX, !HY by lia. apply H5. lia.
Qed.

(* ------------------------------------------------------------------ residuals of a line on a segment *)
Lemma linear_residuals_R (seg : list (R * R)) (b m : R) :
  @linear_residuals RNum seg (b, m)
  = Rsum (map (fun p : R * R => (snd p - (fst p * m + b)) * (snd p - (fst p * m + b))) seg).
Proof. unfold linear_residuals. rewrite seq_sum_R. reflexivity. Qed.

Lemma resid_nonneg seg coef : 0 <= @linear_residuals RNum seg coef.
Proof.
  destruct coef as [b m]. rewrite linear_residuals_R.
  apply (Rsum_sq_nonneg (fun p : R * R => snd p - (fst p * m + b))).
Qed.
Lemma resid_pos seg b m p : In p seg -> snd p <> fst p * m + b -> 0 < @linear_residuals RNum seg (b, m).
Proof.
  intros Hin Hne. rewrite linear_residuals_R.
  apply (Rsum_sq_pos (fun p : R * R => snd p - (fst p * m + b)) seg p Hin). lra.
Qed.
Lemma resid_online seg a mu : (forall p, In p seg -> snd p = a + mu * fst p) -> @linear_residuals RNum seg (a, mu) = 0.
Proof.
  intros H. rewrite linear_residuals_R. apply Rsum_map_zero. intros p Hp. rewrite (H p Hp). ring.
Qed.

(* the end-point line of collinear points is their line *)
Lemma linear_fit_online (seg : list (R * R)) a mu :
  snd (hd (0, 0) seg) = a + mu * fst (hd (0, 0) seg) ->
  snd (last seg (0, 0)) = a + mu * fst (last seg (0, 0)) ->
  fst (hd (0, 0) seg) <> fst (last seg (0, 0)) ->
  @linear_fit RNum seg = (a, mu).
Proof.
  intros H0 Hl Hne. unfold linear_fit. rnorm.
  destruct (hd (0, 0) seg) as [x0 y0]. destruct (last seg (0, 0)) as [xl yl]. cbn [fst snd] in *.
  cbn [eqb sub div mul RNum].
  assert (Hd : Reqb (x0 - xl) 0 = false) by (apply Reqb_false; lra).
  rewrite Hd. subst y0 yl. f_equal; field; lra.
Qed.

(* the least-squares line of collinear points with two distinct abscissae is their line *)
Lemma lsq_fit_online (seg : list (R * R)) a mu :
  (forall p, In p seg -> snd p = a + mu * fst p) ->
  (exists p q, In p seg /\ In q seg /\ fst p <> fst q) ->
  @lsq_fit RNum seg = (a, mu).
Proof.
  intros Hon [p [q [Hp [Hq Hpq]]]]. unfold lsq_fit. rnorm. rewrite !seq_sum_R.
  cbn [div mul sub RNum]. unfold ofN, sq. cbn [ofZ mul RNum]. rewrite <- INR_IZR_INZ.
  set (n := INR (length seg)).
  assert (Hn : n <> 0).
  { unfold n. apply not_0_INR. destruct seg; [destruct Hp|cbn; lia]. }
  set (Sx := Rsum (map fst seg)).
  assert (HSy : Rsum (map snd seg) = n * a + mu * Sx).
  { rewrite (Rsum_map_ext_in snd (fun p => a + mu * fst p) seg Hon). apply Rsum_map_affine. }
  rewrite HSy. set (xm := Sx / n).
  assert (Hym : (n * a + mu * Sx) / n = a + mu * xm) by (unfold xm; field; exact Hn).
  rewrite Hym.
  set (sxx := Rsum (map (fun p : R * R => (fst p - xm) * (fst p - xm)) seg)).
  assert (Hsxy : Rsum (map (fun p : R * R => (fst p - xm) * (snd p - (a + mu * xm))) seg) = mu * sxx).
  { unfold sxx. rewrite <- Rsum_map_scal. apply Rsum_map_ext_in. intros r Hr. rewrite (Hon r Hr). ring. }
  rewrite Hsxy.
  assert (Hsxx : 0 < sxx).
  { unfold sxx. destruct (Req_dec (fst p) xm) as [Hpe|Hpn].
    - apply (Rsum_sq_pos (fun r : R * R => fst r - xm) seg q Hq). lra.
    - apply (Rsum_sq_pos (fun r : R * R => fst r - xm) seg p Hp). lra. }
  f_equal; field; lra.
Qed.

Lemma fitres_nonneg fit seg : 0 <= @fit_residuals RNum fit seg.
Proof. destruct fit; apply resid_nonneg. Qed.

Lemma firstn_hd {A} (l : list A) k d : hd d (firstn (S k) l) = hd d l.
Proof. destruct l; reflexivity. Qed.
Lemma firstn_last {A} (l : list A) k d : (k < length l)%nat -> last (firstn (S k) l) d = nth k l d.
Proof.
  intros H. rewrite last_nth, firstn_length. replace (Nat.min (S k) (length l) - 1)%nat with k by lia.
  apply nth_firstn_lt. lia.
Qed.
Lemma skipn_hd {A} (l : list A) k d : hd d (skipn k l) = nth k l d.
Proof. rewrite hd_nth0, nth_skipn_add. f_equal. lia. Qed.
Lemma skipn_last {A} (l : list A) k d : (k < length l)%nat -> last (skipn k l) d = last l d.
Proof.
  intros H. rewrite !last_nth, skipn_length, nth_skipn_add. f_equal. lia.
Qed.

Section Lmethod.
  Variables (pts : list (R * R)) (c : nat) (m1 m2 : R).
  Hypothesis W : welbow pts c m1 m2.
  Local Notation n := (length pts).

  Lemma w_x_lt i j : (i < j)%nat -> (j < n)%nat -> PX pts i < PX pts j.
  Proof. apply incr_lt. apply (we_x _ _ _ _ W). Qed.

  (* no line passes through a point of the left arm, the corner and a point of the right arm *)
  Lemma no_line i k b m : (i < c)%nat -> (c < k)%nat -> (k < n)%nat ->
    PY pts i = PX pts i * m + b -> PY pts c = PX pts c * m + b -> PY pts k = PX pts k * m + b -> False.
  Proof.
    intros Hi Hk Hn Ei Ec Ek.
    rewrite (we_left _ _ _ _ W i) in Ei by lia. rewrite (we_right _ _ _ _ W k) in Ek by lia.
    pose proof (w_x_lt i c Hi ltac:(lia)) as Hx1. pose proof (w_x_lt c k Hk Hn) as Hx2.
    assert (H1 : (m1 - m) * (PX pts i - PX pts c) = 0) by lra.
    assert (H2 : (m2 - m) * (PX pts k - PX pts c) = 0) by lra.
    apply Rmult_integral in H1. apply Rmult_integral in H2.
    apply (we_slopes _ _ _ _ W). lra.
  Qed.
  Lemma resid_corner_pos seg coef i k : (i < c)%nat -> (c < k)%nat -> (k < n)%nat ->
    In (nth i pts (0, 0)) seg -> In (nth c pts (0, 0)) seg -> In (nth k pts (0, 0)) seg ->
    0 < @linear_residuals RNum seg coef.
  Proof.
    intros Hi Hk Hn Ii Ic Ik. destruct coef as [b m].
    destruct (Req_dec (PY pts i) (PX pts i * m + b)) as [Ei|Ni]; [|exact (resid_pos seg b m _ Ii Ni)].
    destruct (Req_dec (PY pts c) (PX pts c * m + b)) as [Ec|Nc]; [|exact (resid_pos seg b m _ Ic Nc)].
    destruct (Req_dec (PY pts k) (PX pts k * m + b)) as [Ek|Nk]; [|exact (resid_pos seg b m _ Ik Nk)].
    exfalso. exact (no_line i k b m Hi Hk Hn Ei Ec Ek).
  Qed.
  Lemma fitres_corner_pos fit seg i k : (i < c)%nat -> (c < k)%nat -> (k < n)%nat ->
    In (nth i pts (0, 0)) seg -> In (nth c pts (0, 0)) seg -> In (nth k pts (0, 0)) seg ->
    0 < @fit_residuals RNum fit seg.
  Proof. intros. destruct fit; eapply resid_corner_pos; eauto. Qed.

  (* both fits reproduce an arm exactly *)
  Lemma left_online p : In p (firstn (S c) pts) -> snd p = (PY pts c - m1 * PX pts c) + m1 * fst p.
  Proof.
    intros H. destruct (In_firstn_nth pts c (0, 0) p H) as [i [Hi [Hn ->]]].
    change (PY pts i = PY pts c - m1 * PX pts c + m1 * PX pts i).
    rewrite (we_left _ _ _ _ W i Hi). ring.
  Qed.
  Lemma right_online p : In p (skipn c pts) -> snd p = (PY pts c - m2 * PX pts c) + m2 * fst p.
  Proof.
    intros H. destruct (In_skipn_nth pts c (0, 0) p H) as [i [Hi [Hn ->]]].
    change (PY pts i = PY pts c - m2 * PX pts c + m2 * PX pts i).
    rewrite (we_right _ _ _ _ W i) by lia. ring.
  Qed.
  Lemma fitres_left_zero fit : @fit_residuals RNum fit (firstn (S c) pts) = 0.
  Proof.
    pose proof (we_lo _ _ _ _ W). pose proof (we_hi _ _ _ _ W).
    assert (Hz : In (nth 0 pts (0, 0)) (firstn (S c) pts)) by (apply firstn_In_nth; lia).
    assert (Hc : In (nth c pts (0, 0)) (firstn (S c) pts)) by (apply firstn_In_nth; lia).
    assert (Hne : PX pts 0 <> PX pts c) by (pose proof (w_x_lt 0 c ltac:(lia) ltac:(lia)); lra).
    destruct fit; unfold fit_residuals.
    - rewrite (lsq_fit_online _ _ _ left_online); [apply resid_online; exact left_online|].
      exists (nth 0 pts (0, 0)), (nth c pts (0, 0)). repeat split; assumption.
    - rewrite (linear_fit_online _ (PY pts c - m1 * PX pts c) m1); [apply resid_online; exact left_online| | |].
      + apply left_online. rewrite firstn_hd, hd_nth0. exact Hz.
      + apply left_online. rewrite firstn_last by lia. exact Hc.
      + rewrite firstn_hd, hd_nth0, firstn_last by lia. exact Hne.
  Qed.
  Lemma fitres_right_zero fit : @fit_residuals RNum fit (skipn c pts) = 0.
  Proof.
    pose proof (we_lo _ _ _ _ W). pose proof (we_hi _ _ _ _ W).
    assert (Hc : In (nth c pts (0, 0)) (skipn c pts)) by (apply skipn_In_nth; lia).
    assert (Hl : In (nth (n - 1) pts (0, 0)) (skipn c pts)) by (apply skipn_In_nth; lia).
    assert (Hne : PX pts c <> PX pts (n - 1)) by (pose proof (w_x_lt c (n - 1) ltac:(lia) ltac:(lia)); lra).
    destruct fit; unfold fit_residuals.
    - rewrite (lsq_fit_online _ _ _ right_online); [apply resid_online; exact right_online|].
      exists (nth c pts (0, 0)), (nth (n - 1) pts (0, 0)). repeat split; assumption.
    - rewrite (linear_fit_online _ (PY pts c - m2 * PX pts c) m2); [apply resid_online; exact right_online| | |].
      + apply right_online. rewrite skipn_hd. exact Hc.
      + apply right_online. rewrite skipn_last, last_nth by lia. exact Hl.
      + rewrite skipn_hd, skipn_last, last_nth by lia. exact Hne.
  Qed.

  (* ------------------------------------------------------------------ the two-line error *)
  Let L := PX pts (n - 1) - PX pts 0.
  Definition lerr fit cost i : R := @compute_error RNum pts i L fit cost.

  Lemma lerr_unfold fit cost i :
    lerr fit cost i =
    let lr := (PX pts i - PX pts 0) / L in
    let rr := (PX pts (n - 1) - PX pts i) / L in
    let rl := @fit_residuals RNum fit (firstn (S i) pts) in
    let rg := @fit_residuals RNum fit (skipn i pts) in
    match cost with
    | rmse => lr * R_sqrt.sqrt (rl * lr) + rr * R_sqrt.sqrt (rr * rg)
    | rss => rl * lr + rg * rr
    end.
  Proof.
    unfold lerr, compute_error. rnorm. rewrite hd_nth0, last_nth. destruct cost; reflexivity.
  Qed.

  Lemma lerr_corner fit cost : lerr fit cost c = 0.
  Proof.
    rewrite lerr_unfold. cbv zeta. rewrite fitres_left_zero, fitres_right_zero.
    destruct cost; rewrite ?Rmult_0_l, ?Rmult_0_r, ?sqrt_0; ring.
  Qed.
  Lemma lerr_off fit cost i : (2 <= i)%nat -> (i + 3 <= n)%nat -> i <> c -> 0 < lerr fit cost i.
  Proof.
    intros H2 H3 Hne. pose proof (we_lo _ _ _ _ W). pose proof (we_hi _ _ _ _ W).
    rewrite lerr_unfold. cbv zeta.
    assert (HL : 0 < L) by (unfold L; pose proof (w_x_lt 0 (n - 1) ltac:(lia) ltac:(lia)); lra).
    assert (Hlr : 0 < (PX pts i - PX pts 0) / L).
    { apply Rdiv_lt_0_compat; [|exact HL]. pose proof (w_x_lt 0 i ltac:(lia) ltac:(lia)). lra. }
    assert (Hrr : 0 < (PX pts (n - 1) - PX pts i) / L).
    { apply Rdiv_lt_0_compat; [|exact HL]. pose proof (w_x_lt i (n - 1) ltac:(lia) ltac:(lia)). lra. }
    pose proof (fitres_nonneg fit (firstn (S i) pts)) as Hl0.
    pose proof (fitres_nonneg fit (skipn i pts)) as Hr0.
    set (lr := (PX pts i - PX pts 0) / L) in *. set (rr := (PX pts (n - 1) - PX pts i) / L) in *.
    set (rl := @fit_residuals RNum fit (firstn (S i) pts)) in *.
    set (rg := @fit_residuals RNum fit (skipn i pts)) in *.
    destruct (Nat.lt_ge_cases i c) as [Hlt|Hge].
    - (* the right fit contains the corner strictly inside *)
      assert (Hpos : 0 < rg).
      { unfold rg. apply (fitres_corner_pos fit _ i (n - 1)); try lia; apply skipn_In_nth; lia. }
      destruct cost.
      + assert (0 <= rl * lr) by (apply Rmult_le_pos; lra). assert (0 < rg * rr) by (apply Rmult_lt_0_compat; lra). lra.
      + assert (0 <= R_sqrt.sqrt (rl * lr)) by apply sqrt_pos.
        assert (0 < R_sqrt.sqrt (rr * rg)) by (apply sqrt_lt_R0; apply Rmult_lt_0_compat; lra).
        assert (0 <= lr * R_sqrt.sqrt (rl * lr)) by (apply Rmult_le_pos; lra).
        assert (0 < rr * R_sqrt.sqrt (rr * rg)) by (apply Rmult_lt_0_compat; lra). lra.
    - (* the left fit contains the corner strictly inside *)
      assert (Hpos : 0 < rl).
      { unfold rl. apply (fitres_corner_pos fit _ 0 i); try lia; apply firstn_In_nth; lia. }
      destruct cost.
      + assert (0 < rl * lr) by (apply Rmult_lt_0_compat; lra). assert (0 <= rg * rr) by (apply Rmult_le_pos; lra). lra.
      + assert (0 < R_sqrt.sqrt (rl * lr)) by (apply sqrt_lt_R0; apply Rmult_lt_0_compat; lra).
        assert (0 <= R_sqrt.sqrt (rr * rg)) by apply sqrt_pos.
        assert (0 < lr * R_sqrt.sqrt (rl * lr)) by (apply Rmult_lt_0_compat; lra).
        assert (0 <= rr * R_sqrt.sqrt (rr * rg)) by (apply Rmult_le_pos; lra). lra.
  Qed.
End Lmethod.

(* ------------------------------------------------------------------ the scan *)
Lemma lscan_keep (err : nat -> R) is_ : forall best bi,
  (forall i, In i is_ -> best <= err i) -> @lscan RNum err is_ best bi = bi.
Proof.
  induction is_ as [|i r IH]; intros best bi H; [reflexivity|]. cbn [lscan ltb RNum].
  assert (Hi : Rltb (err i) best = false) by (apply Rltb_false; apply H; left; reflexivity).
  rewrite Hi. apply IH. intros j Hj. apply H. right. exact Hj.
Qed.
Lemma lscan_find (err : nat -> R) c is_ : forall best bi,
  In c is_ -> err c < best -> (forall i, In i is_ -> i <> c -> err c < err i) ->
  @lscan RNum err is_ best bi = c.
Proof.
  induction is_ as [|i r IH]; intros best bi Hin Hb H; [destruct Hin|]. cbn [lscan ltb RNum].
  destruct (Nat.eq_dec i c) as [->|Hne].
  - assert (Hi : Rltb (err c) best = true) by (apply Rltb_true; exact Hb). rewrite Hi.
    apply lscan_keep. intros j Hj. destruct (Nat.eq_dec j c) as [->|Hjc]; [lra|]. left. apply H; [right; exact Hj|exact Hjc].
  - destruct Hin as [Hic|Hin]; [contradiction|].
    assert (Hrec : forall j, In j r -> j <> c -> err c < err j) by (intros j Hj; apply H; right; exact Hj).
    destruct (Rltb (err i) best) eqn:Hi.
    + apply IH; [exact Hin|apply H; [left; reflexivity|exact Hne]|exact Hrec].
    + apply IH; [exact Hin|exact Hb|exact Hrec].
Qed.

(* lmethod.get_knee returns the corner, for both fits and both costs *)
Lemma lmethod_get_knee_welbow pts c m1 m2 fit cost :
  welbow pts c m1 m2 -> @lmethod_get_knee RNum pts fit cost = c.
Proof.
  intros W. pose proof (we_lo _ _ _ _ W) as Hlo. pose proof (we_hi _ _ _ _ W) as Hhi.
  unfold lmethod_get_knee. rnorm. rewrite hd_nth0, last_nth.
  change (@lscan RNum (lerr pts fit cost) (seq 3 (length pts - 5)) (lerr pts fit cost 2) 2 = c).
  destruct (Nat.eq_dec c 2) as [->|Hne].
  - apply lscan_keep. intros i Hi. apply in_seq in Hi. rewrite (lerr_corner pts 2 m1 m2 W).
    left. apply (lerr_off pts 2 m1 m2 W); lia.
  - apply lscan_find.
    + apply in_seq. lia.
    + rewrite (lerr_corner pts c m1 m2 W). apply (lerr_off pts c m1 m2 W); lia.
    + intros i Hi Hic. apply in_seq in Hi. rewrite (lerr_corner pts c m1 m2 W). apply (lerr_off pts c m1 m2 W); lia.
Qed.

Theorem lmethod_elbow (pts : list (R * R)) (c : nat) (m1 m2 : R) (fit : Fit) (cost : Cost) :
  elbow pts c m1 m2 -> @lmethod_get_knee RNum pts fit cost = c.
Proof. intros E. apply (lmethod_get_knee_welbow pts c m1 m2). apply elbow_welbow. exact E. Qed.

Corollary lmethod_elbow_pointfit_rmse pts c m1 m2 : elbow pts c m1 m2 -> @lmethod_get_knee RNum pts point_fit rmse = c.
Proof. apply lmethod_elbow. Qed.
Corollary lmethod_elbow_pointfit_rss pts c m1 m2 : elbow pts c m1 m2 -> @lmethod_get_knee RNum pts point_fit rss = c.
Proof. apply lmethod_elbow. Qed.
Corollary lmethod_elbow_bestfit_rmse pts c m1 m2 : elbow pts c m1 m2 -> @lmethod_get_knee RNum pts best_fit rmse = c.
Proof. apply lmethod_elbow. Qed.
Corollary lmethod_elbow_bestfit_rss pts c m1 m2 : elbow pts c m1 m2 -> @lmethod_get_knee RNum pts best_fit rss = c.
Proof. apply lmethod_elbow. Qed.

(* ------------------------------------------------------------------ the refinement loop *)
Lemma get_knee_truncated pts c m1 m2 fit k : elbow pts c m1 m2 -> (c + 2 <= k)%nat ->
  @lmethod_get_knee RNum (firstn (S k) pts) fit rmse = c.
Proof.
  intros E Hk. apply (lmethod_get_knee_welbow _ c m1 m2). apply welbow_firstn; [apply elbow_welbow; exact E|exact Hk].
Qed.

Lemma lm_step f (pts : list (R * R)) fit it limit last_knee current cutoff done :
  @lmethod_loop RNum (S f) pts fit it limit last_knee current cutoff done =
  if (match last_knee with Some l => (current =? l)%nat | None => false end) || done then Some current else
  let cur := @lmethod_get_knee RNum (firstn (S cutoff) pts) fit rmse in
  match it with
  | ref_adjusted => @lmethod_loop RNum f pts fit it limit (Some current) cur (Nat.max limit ((cur + current) / 2)) false
  | ref_original => @lmethod_loop RNum f pts fit it limit (Some current) cur
                      (Nat.max limit (Nat.min (cur * 2) (length pts))) (current <=? cur)%nat
  | ref_none => @lmethod_loop RNum f pts fit it limit (Some current) cur cutoff true
  end.
Proof. reflexivity. Qed.

Theorem lmethod_refine_elbow (pts : list (R * R)) (c : nat) (m1 m2 : R) (fit : Fit) (it : Refinement) (limit : nat) :
  elbow pts c m1 m2 -> @lmethod_knee RNum pts fit it limit = Some c.
Proof.
  intros E. pose proof (el_lo _ _ _ _ E) as Hlo. pose proof (el_hi _ _ _ _ E) as Hhi.
  unfold lmethod_knee. rnorm.
  replace (length pts + 3)%nat with (S (S (S (length pts)))) by lia.
  (* first pass: the whole curve *)
  assert (H1 : @lmethod_get_knee RNum (firstn (S (length pts)) pts) fit rmse = c).
  { rewrite firstn_all2 by lia. apply (lmethod_elbow pts c m1 m2). exact E. }
  assert (Hcn : (c =? length pts)%nat = false) by (apply Nat.eqb_neq; lia).
  rewrite lm_step. cbn [orb]. cbv zeta. rewrite H1.
  destruct it; rewrite lm_step.
  - (* none *) rewrite orb_true_r. reflexivity.
  - (* original: second pass on points[0 : max(limit, min(2c, n)) + 1] *)
    assert (Hd : (length pts <=? c)%nat = false) by (apply Nat.leb_gt; lia).
    rewrite Hd, Hcn. cbn [orb]. cbv zeta.
    rewrite (get_knee_truncated pts c m1 m2 fit _ E) by lia.
    rewrite lm_step, Nat.eqb_refl. reflexivity.
  - (* adjusted: second pass on points[0 : max(limit, (c + n) / 2) + 1] *)
    rewrite Hcn. cbn [orb]. cbv zeta.
    assert (Hk : (c + 2 <= Nat.max limit ((c + length pts) / 2))%nat).
    { assert (c + 2 <= (c + length pts) / 2)%nat by (apply Nat.div_le_lower_bound; lia). lia. }
    rewrite (get_knee_truncated pts c m1 m2 fit _ E Hk).
    rewrite lm_step, Nat.eqb_refl. reflexivity.
Qed.
