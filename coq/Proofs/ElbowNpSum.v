(* Proofs/ElbowNpSum.v — NumPy's pairwise summation (NpList.np_sum) on the reals is the mathematical sum
   (generic helper, needed because uts.thresholding.isodata takes np.mean of masked arrays). *)
From Coq Require Import Reals List Arith Lia Lra Bool.
From Knee Require Import Num NumR NpList.
Import ListNotations.
Local Open Scope R_scope.

Lemma Rsum_app (l1 l2 : list R) : Rsum (l1 ++ l2) = Rsum l1 + Rsum l2.
Proof. induction l1 as [|a l1 IH]; cbn [app Rsum]; [lra|rewrite IH; lra]. Qed.

Lemma acc8_sum : forall fuel (l r : list R) k,
  length r = 8%nat -> length l = (8 * k)%nat -> (k <= fuel)%nat ->
  length (@acc8 RNum fuel r l) = 8%nat /\ Rsum (@acc8 RNum fuel r l) = Rsum r + Rsum l.
Proof.
  induction fuel as [|f IH]; intros l r k Hr Hl Hk.
  - assert (k = 0%nat) by lia. subst k. destruct l; [|cbn in Hl; lia]. cbn [acc8 Rsum]. split; [exact Hr|lra].
  - destruct k as [|k].
    + destruct l; [|cbn in Hl; lia]. cbn [acc8 Rsum]. split; [exact Hr|lra].
    + destruct l as [|a0 l]; [cbn in Hl; lia|]. destruct l as [|a1 l]; [cbn in Hl; lia|].
      destruct l as [|a2 l]; [cbn in Hl; lia|]. destruct l as [|a3 l]; [cbn in Hl; lia|].
      destruct l as [|a4 l]; [cbn in Hl; lia|]. destruct l as [|a5 l]; [cbn in Hl; lia|].
      destruct l as [|a6 l]; [cbn in Hl; lia|]. destruct l as [|a7 l]; [cbn in Hl; lia|].
      destruct r as [|r0 r]; [cbn in Hr; lia|]. destruct r as [|r1 r]; [cbn in Hr; lia|].
      destruct r as [|r2 r]; [cbn in Hr; lia|]. destruct r as [|r3 r]; [cbn in Hr; lia|].
      destruct r as [|r4 r]; [cbn in Hr; lia|]. destruct r as [|r5 r]; [cbn in Hr; lia|].
      destruct r as [|r6 r]; [cbn in Hr; lia|]. destruct r as [|r7 r]; [cbn in Hr; lia|].
      destruct r; [|cbn in Hr; lia].
      cbn [acc8 add RNum].
      destruct (IH l [r0 + a0; r1 + a1; r2 + a2; r3 + a3; r4 + a4; r5 + a5; r6 + a6; r7 + a7] k)
        as [H1 H2]; [reflexivity|cbn [length] in Hl; lia|lia|].
      split; [exact H1|]. etransitivity; [exact H2|]. cbn [Rsum]. lra.
Qed.

Lemma block_sum_R (l : list R) : @block_sum RNum l = Rsum l.
Proof.
  unfold block_sum. cbn [T RNum]. destruct (length l <? 8)%nat eqn:E8.
  - cbn [add zero RNum]. rewrite fold_left_Rplus. lra.
  - apply Nat.ltb_ge in E8.
    set (nb := (length l - length l mod 8)%nat).
    assert (Hmod : (length l mod 8 < 8)%nat) by (apply Nat.mod_upper_bound; lia).
    assert (Hdiv : length l = (8 * (length l / 8) + length l mod 8)%nat) by (apply Nat.div_mod; lia).
    assert (Hnb : nb = (8 * (length l / 8))%nat) by (unfold nb; lia).
    assert (Hq : (1 <= length l / 8)%nat) by (apply Nat.div_le_lower_bound; lia).
    assert (Hbody : length (firstn nb l) = nb) by (rewrite firstn_length; lia).
    destruct (acc8_sum (length l) (skipn 8 (firstn nb l)) (firstn 8 (firstn nb l)) (length l / 8 - 1)) as [H1 H2].
    + rewrite firstn_length, Hbody. lia.
    + rewrite skipn_length, Hbody. lia.
    + lia.
    + rewrite <- Rsum_app, firstn_skipn in H2.
      destruct (@acc8 RNum (length l) (firstn 8 (firstn nb l)) (skipn 8 (firstn nb l))) as [|r0 [|r1 [|r2 [|r3 [|r4 [|r5 [|r6 [|r7 rr]]]]]]]];
        try (cbn in H1; lia).
      destruct rr; [|cbn in H1; lia].
      cbn [add RNum]. rewrite fold_left_Rplus.
      assert (HS : Rsum l = Rsum (firstn nb l) + Rsum (skipn nb l)) by (rewrite <- Rsum_app, firstn_skipn; reflexivity).
      rewrite HS, <- H2. cbn [Rsum]. cbn [T RNum] in *. lra.
Qed.

Lemma np_sum_go_R : forall fuel (l : list R), @np_sum_go RNum fuel l = Rsum l.
Proof.
  induction fuel as [|f IH]; intros l; cbn [np_sum_go T RNum]; destruct (length l <=? 128)%nat; try apply block_sum_R.
  rewrite !IH. cbn [add RNum]. rewrite <- Rsum_app, firstn_skipn. reflexivity.
Qed.

Lemma np_sum_R (l : list R) : @np_sum RNum l = Rsum l.
Proof. unfold np_sum. rewrite np_sum_go_R. cbn [add zero RNum]. lra. Qed.

Lemma np_mean_R (l : list R) : @np_mean RNum l = Rsum l / INR (length l).
Proof. unfold np_mean. rewrite np_sum_R. unfold ofN. cbn [div ofZ RNum]. rewrite <- INR_IZR_INZ. reflexivity. Qed.
