(* Proofs/ClusteringMonoFloat.v — C11, binary64: the number of single-linkage clusters does not increase with t
   IN DOUBLE ARITHMETIC, for every array (no ordering hypothesis), every rounding of the gaps, NaN/inf included.
   The gap of point i does not depend on t, and `t' <= d` implies `t <= d` whenever `t <= t'` holds as doubles
   (a true primitive comparison has no NaN operand, and non-NaN doubles are totally pre-ordered: FloatOrder.v). *)
From Coq Require Import List Arith Bool Lia PrimFloat FloatAxioms SpecFloat FloatOps.
From Knee Require Import Num NumFloat OrdLaws FloatOrder NpList Model.Clustering Proofs.ClusteringFacts.
Import ListNotations.

(* generic (every Num): if every distance reaching t' reaches t, single linkage splits at most as often at t' *)
Section Generic.
  Context {N : Num}.
  Lemma ssplits_mono_gen (len t t' : T N) :
    (forall d, Num.leb t' d = true -> Num.leb t d = true) ->
    forall rest prev, ssplits len t' prev rest <= ssplits len t prev rest.
  Proof.
    intros H. induction rest as [|x r IH]; intros prev; cbn [ssplits]; [lia|].
    specialize (IH x).
    destruct (Num.leb t' (ndist len x prev)) eqn:E'.
    - rewrite (H _ E'). lia.
    - destruct (Num.leb t (ndist len x prev)); lia.
  Qed.
End Generic.

(* a primitive comparison that answers true has no NaN operand *)
Lemma leb_true_notnan (x y : float) : PrimFloat.leb x y = true -> f_isnan x = false /\ f_isnan y = false.
Proof.
  unfold f_isnan. rewrite leb_spec, !eqb_spec. unfold SFleb, SFeqb. intros H.
  assert (Hx : sf_notnan (Prim2SF x)).
  { destruct (Prim2SF x) as [s|s| |s m e]; cbn in *; auto; discriminate. }
  assert (Hy : sf_notnan (Prim2SF y)).
  { destruct (Prim2SF x) as [s|s| |s m e], (Prim2SF y) as [s'|s'| |s' m' e']; cbn in *; auto; discriminate. }
  rewrite !SFcompare_refl by assumption. split; reflexivity.
Qed.

Lemma float_leb_trans (x y z : float) : PrimFloat.leb x y = true -> PrimFloat.leb y z = true -> PrimFloat.leb x z = true.
Proof.
  intros H1 H2. destruct (leb_true_notnan _ _ H1) as [Hx Hy]. destruct (leb_true_notnan _ _ H2) as [_ Hz].
  exact (ord_trans _ float_total_preorder x y z Hx Hy Hz H1 H2).
Qed.

Theorem single_monotone_float : forall (xs : list float) (t t' : float) lab lab',
  PrimFloat.leb t t' = true ->
  @linkage_labels FloatNum Single xs t = Some lab -> @linkage_labels FloatNum Single xs t' = Some lab' ->
  nclusters lab' <= nclusters lab.
Proof.
  intros xs t t' lab lab' Ht H H'.
  destruct xs as [|x0 rest]; [discriminate|].
  assert (E : forall u, @linkage_labels FloatNum Single (x0 :: rest) u =
              Some (0 :: @single_go FloatNum (@xrange FloatNum (x0 :: rest)) u x0 rest 0)) by reflexivity.
  rewrite E in H, H'. generalize dependent (@xrange FloatNum (x0 :: rest)). intros len H H'.
  assert (L : lab = 0 :: @single_go FloatNum len t x0 rest 0) by congruence.
  assert (L' : lab' = 0 :: @single_go FloatNum len t' x0 rest 0) by congruence.
  subst lab lab'. unfold nclusters.
  rewrite !(@single_last FloatNum).
  pose proof (@ssplits_mono_gen FloatNum len t t'
                (fun d Hd => float_leb_trans t t' d Ht Hd) rest x0) as HH.
  lia.
Qed.
