(* Proofs/ScoresPerfect.v — C19, Tier A (RNum): when the expected points are exactly the knee points (their x's are
   the knee x's, in any order, without repetition) the confusion matrix is [[|K|, 0], [0, n - |K|]] for every t >= 0. *)
From Coq Require Import Reals ZArith List Arith Bool Lia Lra.
From Knee Require Import Num NumR NpList Model.Scores Proofs.NpSumR Proofs.ScoresFacts Proofs.ScoresReal.
Import ListNotations.
Local Open Scope R_scope.

Section Perfect.
  Variable n : nat.
  Variables xs kxs exs : list R.
  Variable t : R.
  Hypothesis Hk : kxs <> [].
  Hypothesis HndK : NoDup kxs.                         (* distinct knees on a curve with strictly increasing x *)
  Hypothesis HndE : NoDup exs.
  Hypothesis Hsame : forall x, In x exs <-> In x kxs.   (* E is exactly the knee points *)
  Hypothesis Ht : 0 <= t.
  Hypothesis Hdx : 0 < @cm_dx RNum xs.                  (* the x range of the curve is not degenerate *)

  Notation dx := (@cm_dx RNum xs).
  Notation candj := (@cand RNum kxs dx exs).
  Notation withinj := (@within RNum kxs dx t exs).

  Lemma dists_nth px k : (k < length kxs)%nat ->
    nth k (@cm_dists RNum kxs dx px) 0 = Rabs (nth k kxs 0 - px) / dx.
  Proof.
    intros Hk'. unfold cm_dists. set (F := fun kx : R => Rabs (kx - px) / dx).
    change (nth k (map F kxs) 0 = F (nth k kxs 0)).
    rewrite (nth_indep (map F kxs) 0 (F 0)) by (rewrite map_length; exact Hk').
    apply map_nth.
  Qed.

  Lemma cand_exact j : (j < length exs)%nat ->
    nth (candj j) kxs 0 = nth j exs 0 /\ withinj j = true.
  Proof.
    intros Hj. set (px := nth j exs 0).
    assert (Hin : In px kxs) by (apply Hsame; apply nth_In; exact Hj).
    destruct (In_nth kxs px 0 Hin) as (k0 & Hk0 & Ek0).
    pose proof (@cand_lt RNum kxs dx exs j Hk) as Hc.
    set (D := @cm_dists RNum kxs dx px).
    assert (HD : D <> []) by (unfold D, cm_dists; destruct kxs; [congruence|discriminate]).
    assert (Hlen : length D = length kxs) by (unfold D, cm_dists; apply map_length).
    assert (Hmin : nth (candj j) D 0 <= nth k0 D 0).
    { unfold cand, cm_cand. fold px. fold D. apply argmin_R_min; auto. apply nth_In. rewrite Hlen. exact Hk0. }
    unfold D in Hmin. rewrite (dists_nth px _ Hc), (dists_nth px _ Hk0), Ek0 in Hmin.
    replace (px - px) with 0 in Hmin by ring. rewrite Rabs_R0 in Hmin. unfold Rdiv in Hmin at 2. rewrite Rmult_0_l in Hmin.
    assert (Hge : 0 <= Rabs (nth (candj j) kxs 0 - px) / dx).
    { apply Rle_mult_inv_pos; [apply Rabs_pos|exact Hdx]. }
    assert (Hz : Rabs (nth (candj j) kxs 0 - px) / dx = 0) by lra.
    assert (Habs : Rabs (nth (candj j) kxs 0 - px) = 0).
    { apply (Rmult_eq_reg_r (/ dx)); [|apply Rinv_neq_0_compat; lra]. rewrite Rmult_0_l. exact Hz. }
    split.
    - destruct (Req_dec (nth (candj j) kxs 0 - px) 0) as [E|E]; [lra|]. apply Rabs_no_R0 in E. contradiction.
    - unfold within, cm_within. change (@leb RNum) with Rleb. apply Rleb_true.
      change (nth (candj j) (@cm_dists RNum kxs dx px) 0 <= t).
      rewrite (dists_nth px _ Hc). lra.
  Qed.

  (* cm_perfect *)
  Theorem cm_perfect :
    let r := @cm_core RNum n xs kxs exs t in
    c_tp r = length kxs /\ c_fp r = 0%nat /\ c_fn r = 0%nat /\ c_tn r = (Z.of_nat n - Z.of_nat (length kxs))%Z.
  Proof.
    pose proof (@cm_identities RNum n xs kxs exs t Hk) as Hid.
    pose proof (@cm_matching_char RNum n xs kxs exs t) as Hch.
    cbv zeta in Hid, Hch. set (r := @cm_core RNum n xs kxs exs t) in *.
    destruct Hid as (Hid1 & Hid2 & Hid3). destruct Hch as (Hnf & Hns & Htp & Hfn & Hiff).
    (* every expected point is matched *)
    assert (Hall : forall j, (j < length exs)%nat -> In (j, candj j) (c_match r)).
    { intros j. induction j as [j IHj] using lt_wf_ind. intros Hj.
      destruct (cand_exact j Hj) as [Ec Hw].
      apply Hiff. repeat split; auto.
      intros j' Hj' Hin'. destruct (proj1 (Hiff j' (candj j)) Hin') as (Hj'l & Ec' & _ & _).
      destruct (cand_exact j' Hj'l) as [Ec'' _].
      assert (E : nth j exs 0 = nth j' exs 0) by (rewrite <- Ec, <- Ec'', <- Ec'; reflexivity).
      apply (proj1 (NoDup_nth exs 0) HndE j j' Hj Hj'l) in E. lia. }
    assert (Hlen : (length exs <= length (c_match r))%nat).
    { rewrite <- (map_length fst (c_match r)), <- (seq_length (length exs) 0).
      apply NoDup_incl_length; [apply seq_NoDup|].
      intros j Hj. apply in_seq in Hj. apply in_map_iff. exists (j, candj j). split; auto. apply Hall. lia. }
    assert (HKE : length kxs = length exs).
    { apply Nat.le_antisymm; apply NoDup_incl_length; auto; intros x Hx; apply Hsame; exact Hx. }
    cbv zeta. change (T RNum) with R in *. repeat split; lia.
  Qed.
End Perfect.
