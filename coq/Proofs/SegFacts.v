(* Proofs/SegFacts.v — chains of half-open segments sharing their end points (DESIGN Appendix C).
   chain a segs b:  segs = [(l0,r0); (l1,r1); ...], l0 = a, r_i - 1 = l_{i+1}, last r - 1 = b, r_i >= l_i + 2. *)
From Coq Require Import List Arith Bool Lia.
From Knee Require Import NpList Model.Mapping Model.Rdp Proofs.ListFacts Proofs.MappingFacts.
Import ListNotations.

Fixpoint chain (a : nat) (segs : list seg) (b : nat) : Prop :=
  match segs with
  | [] => a = b
  | s :: rest => fst s = a /\ fst s + 2 <= snd s /\ chain (snd s - 1) rest b
  end.

Lemma chain_le : forall segs a b, chain a segs b -> a <= b.
Proof.
  induction segs as [|[l r] s IH]; intros a b H; cbn in H; [lia|].
  destruct H as (-> & Hlr & H). apply IH in H. lia.
Qed.
Lemma chain_lt : forall segs a b, chain a segs b -> segs <> [] -> a < b.
Proof.
  intros [|[l r] s] a b H Hne; [congruence|]. cbn in H. destruct H as (-> & Hlr & H). apply chain_le in H. lia.
Qed.
Lemma chain_nonempty segs a b : chain a segs b -> a <> b -> segs <> [].
Proof. destruct segs; cbn; [tauto|discriminate]. Qed.
Lemma chain_length : forall segs a b, chain a segs b -> length segs <= b - a.
Proof.
  induction segs as [|[l r] s IH]; intros a b H; cbn in *; [lia|].
  destruct H as (-> & Hlr & H). pose proof (chain_le _ _ _ H). apply IH in H. lia.
Qed.

Lemma chain_app : forall s1 s2 a b, chain a (s1 ++ s2) b <-> exists m, chain a s1 m /\ chain m s2 b.
Proof.
  induction s1 as [|[l r] s1 IH]; intros s2 a b; cbn [app chain].
  - split; [intros H; exists a; auto|intros (m & -> & H); auto].
  - rewrite IH. split.
    + intros (H1 & H2 & m & H3 & H4). exists m. tauto.
    + intros (m & (H1 & H2 & H3) & H4). repeat split; auto. exists m. tauto.
Qed.

Lemma breaks_cons s segs b : breaks (s :: segs) b = fst s :: breaks segs b.
Proof. reflexivity. Qed.
Lemma breaks_app s1 s2 b : breaks (s1 ++ s2) b = map fst s1 ++ breaks s2 b.
Proof. unfold breaks. rewrite map_app, app_assoc. reflexivity. Qed.
Lemma breaks_length segs b : length (breaks segs b) = S (length segs).
Proof. unfold breaks. rewrite app_length, map_length. cbn [length]. lia. Qed.
Lemma breaks_last segs b d : last (breaks segs b) d = b.
Proof. unfold breaks. apply last_last. Qed.
Lemma chain_hd : forall segs a b d, chain a segs b -> hd d (breaks segs b) = a.
Proof. intros [|[l r] s] a b d H; cbn in *; [auto|tauto]. Qed.

Lemma chain_SI : forall segs a b, chain a segs b -> SI (breaks segs b).
Proof.
  induction segs as [|[l r] s IH]; intros a b H; [exact I|].
  rewrite breaks_cons. cbn [chain fst snd] in H. destruct H as (-> & Hlr & H).
  pose proof (chain_hd _ _ _ 0 H) as Hh. specialize (IH _ _ H).
  destruct (breaks s b) as [|x xs] eqn:E.
  - pose proof (breaks_length s b) as HL. rewrite E in HL. cbn in HL. lia.
  - cbn [hd] in Hh. subst x. cbn [fst SI]. split; [lia|exact IH].
Qed.

Lemma chain_range segs a b x : chain a segs b -> In x (breaks segs b) -> a <= x <= b.
Proof.
  intros H Hin. pose proof (chain_SI _ _ _ H) as HS. split.
  - rewrite <- (chain_hd _ _ _ 0 H). apply SI_hd_le; auto.
  - rewrite <- (breaks_last segs b 0). apply SI_le_last; auto.
Qed.
Lemma chain_hd_in segs a b : chain a segs b -> In a (breaks segs b).
Proof. destruct segs as [|[l r] s]; cbn; [intros ->; auto|intros (-> & _); auto]. Qed.
Lemma breaks_last_in segs b : In b (breaks segs b).
Proof. unfold breaks. apply in_or_app. right. left. reflexivity. Qed.

(* the removed table of a chain is the table its index list determines *)
Lemma chain_rows : forall segs a b, chain a segs b -> seg_rows segs = rows (breaks segs b).
Proof.
  induction segs as [|[l r] s IH]; intros a b H; [reflexivity|].
  cbn [chain fst snd] in H. destruct H as (-> & Hlr & H).
  rewrite breaks_cons. pose proof (chain_hd _ _ _ 0 H) as Hh. specialize (IH _ _ H).
  destruct (breaks s b) as [|x xs] eqn:E.
  - pose proof (breaks_length s b) as HL. rewrite E in HL. cbn in HL. lia.
  - cbn [hd] in Hh. subst x. cbn [fst]. rewrite rows_cons2. rewrite <- IH.
    cbn [seg_rows map fst snd]. f_equal. f_equal. lia.
Qed.
Lemma chain_pairs : forall segs a b, chain a segs b ->
  pairs (breaks segs b) = map (fun s => (fst s, snd s - 1)) segs.
Proof.
  induction segs as [|[l r] s IH]; intros a b H; [reflexivity|].
  cbn [chain fst snd] in H. destruct H as (-> & Hlr & H).
  rewrite breaks_cons. pose proof (chain_hd _ _ _ 0 H) as Hh. specialize (IH _ _ H).
  destruct (breaks s b) as [|x xs] eqn:E.
  - pose proof (breaks_length s b) as HL. rewrite E in HL. cbn in HL. lia.
  - cbn [hd] in Hh. subst x. cbn [fst pairs map snd]. cbn [pairs] in IH. rewrite IH. reflexivity.
Qed.

(* a chain from 0 to n-1 is a well-formed reduction of n points *)
Lemma chain_WF segs n : 2 <= n -> chain 0 segs (n - 1) -> WF n (breaks segs (n - 1)).
Proof.
  intros Hn H. unfold WF. repeat split.
  - eapply chain_SI; eauto.
  - eapply chain_hd; eauto.
  - apply breaks_last.
  - rewrite breaks_length. pose proof (chain_nonempty _ _ _ H ltac:(lia)). destruct segs; [congruence|cbn; lia].
Qed.

(* splitting (l, r) at a strictly interior offset i keeps the chain and inserts l + i *)
Lemma chain_split pre post l r i a b :
  chain a (pre ++ (l, r) :: post) b -> 1 <= i <= r - l - 2 ->
  chain a (pre ++ (l, l + i + 1) :: (l + i, r) :: post) b.
Proof.
  intros H Hi. apply chain_app in H. destruct H as (m & H1 & H2). apply chain_app. exists m. split; auto.
  cbn [chain fst snd] in *. destruct H2 as (Hl & Hlr & H2). repeat split; try lia.
  replace (l + i + 1 - 1) with (l + i) by lia. repeat split; try lia. exact H2.
Qed.

(* retained + dropped = number of points spanned *)
Lemma chain_count segs a b : chain a segs b -> segs <> [] ->
  length (breaks segs b) + dropped (seg_rows segs) = b - a + 1.
Proof.
  intros H Hne. rewrite (chain_rows _ _ _ H). unfold dropped.
  rewrite rows_sum.
  - rewrite breaks_last, (chain_hd _ _ _ 0 H). reflexivity.
  - eapply chain_SI; eauto.
  - unfold breaks. destruct (map fst segs); discriminate.
Qed.

Lemma rows_eqb_refl (l : list row) : rows_eqb l l = true.
Proof.
  induction l as [|[a b] l IH]; [reflexivity|]. unfold rows_eqb in *. cbn [list_eqb]. rewrite IH.
  unfold row_eqb. cbn [fst snd]. rewrite !Nat.eqb_refl. reflexivity.
Qed.
Lemma rows_eqb_eq : forall l1 l2 : list row, rows_eqb l1 l2 = true -> l1 = l2.
Proof.
  induction l1 as [|[a b] l1 IH]; intros [|[c d] l2] H; try reflexivity; try discriminate.
  unfold rows_eqb in *. cbn [list_eqb] in H. apply andb_true_iff in H. destruct H as [H1 H2].
  unfold row_eqb in H1. cbn [fst snd] in H1. apply andb_true_iff in H1. destruct H1 as [Ha Hb].
  apply Nat.eqb_eq in Ha, Hb. subst. f_equal. apply IH, H2.
Qed.
