(* Proofs/HullGeom.v — C18, Tier A (real arithmetic): the monotone-chain scan with the cross-product orientation
   on strictly increasing abscissae computes THE lower hull: every point on/above the chain, strictly convex,
   and any such chain consists of exactly the brute-force vertices (so it is unique).
   Abstract over coordinate functions X, Y : nat -> R; instantiated for lower (Y) and upper (-Y) in HullHull.v. *)
From Coq Require Import Reals Lra Psatz List Arith Bool Lia Permutation.
From Knee Require Import Num NumR NpList Model.Hull Proofs.ListFacts Proofs.HullScan.
Import ListNotations.

(* ---- list plumbing for adjacent-window predicates *)
Lemma SI_pairs l : SI l <-> pairs lt l.
Proof. induction l as [|a [|b l'] IH]; cbn [SI pairs]; tauto. Qed.
Lemma pairs_prefix (P : nat -> nat -> Prop) l1 : forall l2, pairs P (l1 ++ l2) -> pairs P l1.
Proof.
  induction l1 as [|a [|b l1'] IH]; intros l2 H; cbn [pairs]; auto.
  cbn [app pairs] in H. destruct H as [H1 H2]. split; auto. apply (IH l2). exact H2.
Qed.
Lemma pairs_tl (P : nat -> nat -> Prop) a l : pairs P (a :: l) -> pairs P l.
Proof. destruct l; cbn [pairs]; tauto. Qed.
Lemma pairs_suffix (P : nat -> nat -> Prop) l1 : forall l2, pairs P (l1 ++ l2) -> pairs P l2.
Proof. induction l1 as [|a l1 IH]; intros l2 H; auto. apply IH. eapply pairs_tl. exact H. Qed.
Lemma trip_suffix (P : nat -> nat -> nat -> Prop) l1 : forall l2, trip P (l1 ++ l2) -> trip P l2.
Proof. induction l1 as [|a l1 IH]; intros l2 H; auto. apply IH. eapply trip_tl. exact H. Qed.
Lemma pairs_mid (P : nat -> nat -> Prop) l1 p s l2 : pairs P (l1 ++ p :: s :: l2) -> P p s.
Proof. intros H. apply pairs_suffix in H. cbn in H. tauto. Qed.
Lemma trip_mid (P : nat -> nat -> nat -> Prop) l1 a b c l2 : trip P (l1 ++ a :: b :: c :: l2) -> P a b c.
Proof. intros H. apply trip_suffix in H. cbn in H. tauto. Qed.
Lemma pairs_snoc_iff (P : nat -> nat -> Prop) l : forall a b, pairs P (l ++ [a; b]) <-> pairs P (l ++ [a]) /\ P a b.
Proof.
  induction l as [|c l IH]; intros a b.
  - cbn. tauto.
  - destruct l as [|d l'].
    + cbn. tauto.
    + change ((c :: d :: l') ++ [a; b]) with (c :: d :: (l' ++ [a; b])).
      change ((c :: d :: l') ++ [a]) with (c :: d :: (l' ++ [a])).
      specialize (IH a b). change ((d :: l') ++ [a; b]) with (d :: (l' ++ [a; b])) in IH.
      change ((d :: l') ++ [a]) with (d :: (l' ++ [a])) in IH. cbn [pairs]. cbn [pairs] in IH. tauto.
Qed.
Lemma last_app_nonnil {A} (l1 l2 : list A) d : l2 <> [] -> last (l1 ++ l2) d = last l2 d.
Proof.
  intros H. induction l1 as [|a l1 IH]; [reflexivity|].
  cbn [app]. destruct (l1 ++ l2) eqn:E; [|exact IH].
  apply app_eq_nil in E. tauto.
Qed.
Lemma hd_snoc {A} (l : list A) d x : hd d (l ++ [x]) = hd x l.
Proof. destruct l; reflexivity. Qed.
Lemma rev_cons2 {A} (b a : A) r : rev (b :: a :: r) = rev r ++ [a; b].
Proof. cbn [rev]. rewrite <- app_assoc. reflexivity. Qed.
Lemma rev_cons1 {A} (a : A) r : rev (a :: r) = rev r ++ [a].
Proof. reflexivity. Qed.

Local Open Scope R_scope.

(* the cross product of _ccw on raw coordinates *)
Definition cr (xa ya xb yb xc yc : R) : R := (xb - xa) * (yc - ya) - (xc - xa) * (yb - ya).

Lemma lin_nonneg t al h1 be h2 ga :
  t * al = h1 * be + h2 * ga -> 0 < al -> 0 <= h1 -> 0 <= be -> 0 <= h2 -> 0 <= ga -> 0 <= t.
Proof.
  intros E Hal H1 Hbe H2 Hga.
  assert (0 <= h1 * be) by (apply Rmult_le_pos; assumption).
  assert (0 <= h2 * ga) by (apply Rmult_le_pos; assumption).
  destruct (Rle_or_lt 0 t) as [|Hneg]; [assumption|].
  assert (t * al < 0) by (replace 0 with (0 * al) by ring; apply Rmult_lt_compat_r; assumption). lra.
Qed.
Lemma lin_pos t al h1 be h2 ga :
  t * al = h1 * be + h2 * ga -> 0 < al -> 0 <= h1 -> 0 <= be -> 0 < h2 -> 0 < ga -> 0 < t.
Proof.
  intros E Hal H1 Hbe H2 Hga.
  assert (0 <= h1 * be) by (apply Rmult_le_pos; assumption).
  assert (0 < h2 * ga) by (apply Rmult_lt_0_compat; assumption).
  destruct (Rlt_or_le 0 t) as [|Hneg]; [assumption|].
  assert (t * al <= 0) by (replace 0 with (0 * al) by ring; apply Rmult_le_compat_r; lra). lra.
Qed.

(* pop step, points between a and b: slopes from the common left end a *)
Lemma G1 xa ya xb yb xi yi xk yk :
  xa < xb -> xb < xi -> xa <= xk ->
  0 <= cr xa ya xb yb xk yk -> cr xa ya xb yb xi yi <= 0 -> 0 <= cr xa ya xi yi xk yk.
Proof.
  intros. apply (lin_nonneg _ (xb - xa) (cr xa ya xb yb xk yk) (xi - xa) (- cr xa ya xb yb xi yi) (xk - xa));
    try lra. unfold cr. ring.
Qed.
(* pop step, points between b and i: slopes into the common right end i *)
Lemma G2 xa ya xb yb xi yi xk yk :
  xa < xb -> xb < xi -> xk <= xi ->
  0 <= cr xb yb xi yi xk yk -> cr xa ya xb yb xi yi <= 0 -> 0 <= cr xa ya xi yi xk yk.
Proof.
  intros. apply (lin_nonneg _ (xi - xb) (cr xb yb xi yi xk yk) (xi - xa) (- cr xa ya xb yb xi yi) (xi - xk));
    try lra. unfold cr. ring.
Qed.
(* supporting line to the right *)
Lemma G3 xp yp xs ys xt yt xk yk :
  xp < xs -> xs < xt -> xs <= xk ->
  0 < cr xp yp xs ys xt yt -> 0 <= cr xs ys xt yt xk yk -> 0 <= cr xp yp xs ys xk yk.
Proof.
  intros. apply (lin_nonneg _ (xt - xs) (cr xs ys xt yt xk yk) (xs - xp) (cr xp yp xs ys xt yt) (xk - xs));
    try lra. unfold cr. ring.
Qed.
(* supporting line to the left *)
Lemma G4 xo yo xp yp xs ys xk yk :
  xo < xp -> xp < xs -> xk <= xp ->
  0 <= cr xo yo xp yp xk yk -> 0 < cr xo yo xp yp xs ys -> 0 <= cr xp yp xs ys xk yk.
Proof.
  intros. apply (lin_nonneg _ (xp - xo) (cr xo yo xp yp xk yk) (xs - xp) (cr xo yo xp yp xs ys) (xp - xk));
    try lra. unfold cr. ring.
Qed.
(* a chain vertex h is strictly below every segment a-b spanning it *)
Lemma G5 xa ya xh yh xb yb xp yp xs ys :
  xa < xh -> xh < xb -> xp < xh -> xh < xs ->
  0 <= cr xp yp xh yh xa ya -> 0 <= cr xh yh xs ys xb yb -> 0 < cr xp yp xh yh xs ys ->
  0 < cr xa ya xh yh xb yb.
Proof.
  intros.
  assert (Hs : 0 < cr xa ya xh yh xs ys).
  { apply (lin_pos _ (xh - xp) (cr xp yp xh yh xa ya) (xs - xh) (cr xp yp xh yh xs ys) (xh - xa)); try lra.
    unfold cr. ring. }
  apply (lin_pos _ (xs - xh) (cr xh yh xs ys xb yb) (xh - xa) (cr xa ya xh yh xs ys) (xb - xh)); try lra.
  unfold cr. ring.
Qed.

Section Abstract.
  Variables X Y : nat -> R.
  Variable n : nat.
  Hypothesis Xinc : forall i j, (i < j < n)%nat -> X i < X j.

  Definition cc (a b c : nat) : R := cr (X a) (Y a) (X b) (Y b) (X c) (Y c).
  Lemma Xle i j : (i <= j < n)%nat -> X i <= X j.
  Proof. intros H. destruct (Nat.eq_dec i j) as [->|]; [lra|]. apply Rlt_le. apply Xinc. lia. Qed.
  Lemma cc_aba a b : cc a b a = 0. Proof. unfold cc, cr. ring. Qed.
  Lemma cc_abb a b : cc a b b = 0. Proof. unfold cc, cr. ring. Qed.
  Lemma cc_swap a b c : cc a c b = - cc a b c. Proof. unfold cc, cr. ring. Qed.

  (* every index between two consecutive chain vertices is on or above their edge *)
  Definition covers : list nat -> Prop := pairs (fun a b => forall k, (a <= k <= b)%nat -> 0 <= cc a b k).
  (* consecutive edges turn strictly counter-clockwise *)
  Definition convex : list nat -> Prop := trip (fun a b c => 0 < cc a b c).
  (* brute-force vertex: strictly below every segment spanning it *)
  Definition vertex (k : nat) : Prop := forall a b, (a < k < b)%nat -> (b < n)%nat -> 0 < cc a k b.

  (* the pop test of graham_scan_lower on reals *)
  Definition ltest (a b i : nat) : bool := Rleb (cc a b i) 0.

  (* ---- part 1: the scan keeps every processed point on or above the chain (Appendix C invariant) *)
  Lemma pop_good i : (i < n)%nat -> forall st,
    st <> [] -> Forall (fun y => (y < i)%nat) st -> SI (rev st) -> covers (rev st) ->
    (forall k, (hd 0%nat st <= k <= i)%nat -> 0 <= cc (hd 0%nat st) i k) ->
    forall k, (hd 0%nat (pop_while ltest i st) <= k <= i)%nat -> 0 <= cc (hd 0%nat (pop_while ltest i st)) i k.
  Proof.
    intros Hi. induction st as [|b st IH]; intros Hne HF HS HC Hgood; [congruence|].
    destruct st as [|a r]; [exact Hgood|].
    cbn [pop_while]. destruct (ltest a b i) eqn:Et; [|exact Hgood].
    unfold ltest in Et. apply Rleb_true in Et.
    rewrite rev_cons2 in HS, HC.
    apply SI_pairs in HS. apply pairs_snoc_iff in HS. destruct HS as [HS Hab]. apply SI_pairs in HS.
    unfold covers in HC. apply pairs_snoc_iff in HC. destruct HC as [HC Hedge].
    inversion HF as [|? ? Hb HF']; subst. inversion HF' as [|? ? Ha _]; subst.
    apply IH; auto; [congruence|].
    cbn [hd] in *. intros k Hk.
    assert (X a < X b) by (apply Xinc; lia). assert (X b < X i) by (apply Xinc; lia).
    destruct (le_lt_dec k b) as [Hkb|Hkb].
    - unfold cc in *. apply (G1 (X a) (Y a) (X b) (Y b) (X i) (Y i)); [assumption|assumption|apply Xle; lia|apply Hedge; lia|exact Et].
    - unfold cc in *. apply (G2 (X a) (Y a) (X b) (Y b) (X i) (Y i)); [assumption|assumption|apply Xle; lia|apply Hgood; lia|exact Et].
  Qed.

  Definition GInv (i : nat) (st : list nat) : Prop :=
    st <> [] /\ hd 0%nat st = (i - 1)%nat /\ Forall (fun y => (y < i)%nat) st /\ SI (rev st) /\ covers (rev st).

  Lemma GInv_step i st : (1 <= i < n)%nat -> GInv i st -> GInv (S i) (scan_step ltest st i).
  Proof.
    intros Hi (Hne & Hhd & HF & HS & HC). unfold scan_step.
    pose proof (pop_good i ltac:(lia) st Hne HF HS HC) as Hgood.
    destruct (pop_suffix ltest i st) as [pre Hpre].
    pose proof (pop_nonempty ltest i st Hne) as Hne'.
    set (st' := pop_while ltest i st) in *.
    assert (Hrev : rev st = rev st' ++ rev pre) by (rewrite Hpre at 1; apply rev_app_distr).
    assert (HF' : Forall (fun y => (y < i)%nat) st') by (rewrite Hpre in HF; apply Forall_app in HF; tauto).
    assert (HS' : SI (rev st')) by (rewrite Hrev in HS; apply SI_app_inv in HS; tauto).
    assert (HC' : covers (rev st')) by (rewrite Hrev in HC; apply pairs_prefix in HC; exact HC).
    repeat split.
    - congruence.
    - cbn [hd]. lia.
    - constructor; [lia|]. eapply Forall_impl; [|exact HF']. cbn. intros; lia.
    - cbn [rev]. apply SI_snoc; auto. rewrite Forall_forall in *. intros y Hy. apply in_rev in Hy. auto.
    - destruct st' as [|a r]; [congruence|]. rewrite rev_cons2. unfold covers. apply pairs_snoc_iff. split.
      + exact HC'.
      + cbn [hd] in Hgood. apply Hgood. rewrite Hhd. intros k Hk.
        assert (k = (i - 1)%nat \/ k = i) as [->| ->] by lia; [rewrite cc_aba; lra|rewrite cc_abb; lra].
  Qed.
  Lemma GInv_fold m : forall i st, (1 <= i)%nat -> (i + m <= n)%nat -> GInv i st ->
    GInv (i + m) (fold_left (scan_step ltest) (seq i m) st).
  Proof.
    induction m as [|m IH]; intros i st Hi Hn H.
    - cbn. rewrite Nat.add_0_r. exact H.
    - cbn [seq fold_left]. replace (i + S m)%nat with (S i + m)%nat by lia. apply IH; [lia|lia|].
      apply GInv_step; [lia|exact H].
  Qed.
  Theorem scan_covers : (2 <= n)%nat -> covers (scan ltest 2 n).
  Proof.
    intros Hn. unfold scan, scan_stack.
    assert (H0 : GInv 2 (rev (seq 0 2))).
    { cbn. repeat split; try congruence; auto.
      intros k Hk. assert (k = 0%nat \/ k = 1%nat) as [->| ->] by lia; [rewrite cc_aba; lra|rewrite cc_abb; lra]. }
    pose proof (GInv_fold (n - 2) 2 _ ltac:(lia) ltac:(lia) H0) as H.
    replace (2 + (n - 2))%nat with n in H by lia. apply H.
  Qed.
  Theorem scan_convex : (2 <= n)%nat -> convex (scan ltest 2 n).
  Proof.
    intros Hn. destruct (scan_shape ltest 2 ltac:(lia) n Hn) as (HS & Hhd & _ & _ & HT & _).
    apply (SI_trip_ge _ _ 0%nat); auto; [lia|].
    eapply trip_impl; [|exact HT]. unfold tested, ltest. cbn. intros a b c H Hc.
    specialize (H ltac:(lia)). apply Rleb_false in H. exact H.
  Qed.

  (* ---- part 2: any strictly convex covering chain from 0 to n-1 consists of exactly the brute-force vertices *)
  Lemma right_support : forall rest p s m,
    SI (p :: s :: rest) -> last (s :: rest) 0%nat = m -> (m < n)%nat ->
    covers (p :: s :: rest) -> convex (p :: s :: rest) ->
    forall k, (s <= k <= m)%nat -> 0 <= cc p s k.
  Proof.
    induction rest as [|t rest IH]; intros p s m HS Hlast Hm HC HV k Hk.
    - cbn in Hlast. assert (k = s) by lia. subst k. rewrite cc_abb. lra.
    - change (last (s :: t :: rest) 0%nat) with (last (t :: rest) 0%nat) in Hlast.
      pose proof HS as [Hps [Hst _]].
      assert (Htm : (t <= m)%nat).
      { rewrite <- Hlast. apply SI_le_last; [eapply SI_tl, SI_tl; eauto|left; reflexivity]. }
      destruct HC as [_ HC]. pose proof HC as [Hedge _]. destruct HV as [Hpst HV].
      assert (Hk2 : 0 <= cc s t k).
      { destruct (le_lt_dec k t); [apply Hedge; lia|].
        apply (IH s t m); auto; [eapply SI_tl; eauto|lia]. }
      unfold cc in *. apply (G3 (X p) (Y p) (X s) (Y s) (X t) (Y t)); [apply Xinc; lia|apply Xinc; lia|apply Xle; lia|exact Hpst|exact Hk2].
  Qed.

  Lemma left_support : forall front p s,
    SI (front ++ [p; s]) -> (s < n)%nat -> covers (front ++ [p; s]) -> convex (front ++ [p; s]) ->
    forall k, (hd p front <= k <= p)%nat -> 0 <= cc p s k.
  Proof.
    induction front as [|o f' IH] using rev_ind; intros p s HS Hs HC HV k Hk.
    - cbn in Hk. assert (k = p) by lia. subst k. rewrite cc_aba. lra.
    - rewrite <- app_assoc in HS, HC, HV. cbn [app] in HS, HC, HV.
      rewrite hd_snoc in Hk.
      assert (HS' : SI (f' ++ [o; p])).
      { replace (f' ++ [o; p; s]) with ((f' ++ [o; p]) ++ [s]) in HS by (rewrite <- app_assoc; reflexivity).
        apply SI_app_inv in HS. tauto. }
      assert (Hop : (o < p)%nat) by (apply SI_pairs in HS'; apply pairs_mid in HS'; exact HS').
      assert (Hps : (p < s)%nat).
      { replace (f' ++ [o; p; s]) with ((f' ++ [o]) ++ [p; s]) in HS by (rewrite <- app_assoc; reflexivity).
        apply SI_pairs in HS. apply pairs_mid in HS. exact HS. }
      assert (HC' : covers (f' ++ [o; p])).
      { replace (f' ++ [o; p; s]) with ((f' ++ [o; p]) ++ [s]) in HC by (rewrite <- app_assoc; reflexivity).
        apply pairs_prefix in HC. exact HC. }
      assert (HV' : convex (f' ++ [o; p])).
      { replace (f' ++ [o; p; s]) with ((f' ++ [o; p]) ++ [s]) in HV by (rewrite <- app_assoc; reflexivity).
        apply trip_prefix in HV. exact HV. }
      assert (Hops : 0 < cc o p s) by (apply trip_mid in HV; exact HV).
      assert (Hk2 : 0 <= cc o p k).
      { destruct (le_lt_dec o k).
        - pose proof (pairs_mid _ _ _ _ _ HC') as Hedge. cbn in Hedge. apply Hedge. lia.
        - apply (IH o p); auto; lia. }
      unfold cc in *. apply (G4 (X o) (Y o) (X p) (Y p) (X s) (Y s)); [apply Xinc; lia|apply Xinc; lia|apply Xle; lia|exact Hk2|exact Hops].
  Qed.

  Lemma SI_gap : forall out k, SI out -> (hd 1%nat out <= k <= last out 0%nat)%nat -> ~ In k out ->
    exists l1 p s l2, out = l1 ++ p :: s :: l2 /\ (p < k < s)%nat.
  Proof.
    induction out as [|a out IH]; intros k HS Hk Hn.
    - cbn in Hk. lia.
    - destruct out as [|b out'].
      + cbn in Hk. exfalso. apply Hn. left. lia.
      + cbn [hd] in Hk. change (last (a :: b :: out') 0%nat) with (last (b :: out') 0%nat) in Hk.
        assert (k <> a) by (intros ->; apply Hn; left; reflexivity).
        assert (k <> b) by (intros ->; apply Hn; right; left; reflexivity).
        destruct (le_lt_dec b k) as [Hbk|Hbk].
        * destruct (IH k) as (l1 & p & s & l2 & E & Hps).
          { eapply SI_tl; eauto. } { cbn [hd]. lia. } { intros Hin. apply Hn. right. exact Hin. }
          exists (a :: l1), p, s, l2. split; [cbn [app]; f_equal; exact E|exact Hps].
        * exists [], a, b, out'. split; [reflexivity|lia].
  Qed.

  Theorem chain_vertices out :
    SI out -> hd 1%nat out = 0%nat -> last out 0%nat = (n - 1)%nat -> (2 <= length out)%nat ->
    covers out -> convex out ->
    forall k, (k < n)%nat -> (In k out <-> vertex k).
  Proof.
    intros HS Hhd Hlast Hlen HC HV k Hk. split.
    - intros Hin a b Hab Hb.
      apply in_split in Hin. destruct Hin as (l1 & l2 & E).
      destruct l1 as [|x l1'] eqn:E1.
      { rewrite E in Hhd. cbn in Hhd. lia. }
      rewrite <- E1 in *. assert (Hl1 : l1 <> []) by (rewrite E1; congruence). clear E1 x l1'.
      destruct l2 as [|s l2'].
      { rewrite E in Hlast. rewrite last_last in Hlast. lia. }
      destruct (exists_last Hl1) as (l1' & p & E1). subst l1.
      assert (E' : out = (l1' ++ [p; k]) ++ s :: l2') by (rewrite E, <- !app_assoc; reflexivity).
      assert (E'' : out = l1' ++ [p] ++ k :: s :: l2') by (rewrite E, <- !app_assoc; reflexivity).
      assert (Hhd0 : hd p l1' = 0%nat).
      { rewrite E in Hhd. rewrite <- app_assoc in Hhd. destruct l1'; cbn in Hhd |- *; exact Hhd. }
      (* order facts *)
      assert (Hpk : (p < k)%nat).
      { rewrite E' in HS. apply SI_app_inv in HS. destruct HS as [HS _]. apply SI_pairs in HS. apply pairs_mid in HS. exact HS. }
      assert (Hks : (k < s)%nat).
      { rewrite E in HS. apply SI_pairs in HS. apply pairs_mid in HS. exact HS. }
      assert (Hsn : (s < n)%nat).
      { assert (s <= last out 0%nat)%nat by (apply SI_le_last; auto; rewrite E; apply in_or_app; right; right; left; reflexivity). lia. }
      (* left side *)
      assert (HL : 0 <= cc p k a).
      { destruct (le_lt_dec a p).
        - apply (left_support l1' p k); try lia.
          + rewrite E' in HS. apply SI_app_inv in HS. tauto.
          + rewrite E' in HC. apply pairs_prefix in HC. exact HC.
          + rewrite E' in HV. apply trip_prefix in HV. exact HV.
        - rewrite E' in HC. apply pairs_prefix in HC. apply pairs_mid in HC. apply HC. lia. }
      (* right side *)
      assert (HR : 0 <= cc k s b).
      { destruct (le_lt_dec s b).
        - apply (right_support l2' k s (n - 1)%nat); try lia.
          + rewrite E'' in HS. rewrite app_assoc in HS. apply SI_app_inv in HS. tauto.
          + rewrite <- Hlast. rewrite E''. rewrite app_assoc.
            change (k :: s :: l2') with ([k] ++ s :: l2'). rewrite app_assoc.
            symmetry. apply last_app_nonnil. congruence.
          + rewrite E'' in HC. rewrite app_assoc in HC. apply pairs_suffix in HC. exact HC.
          + rewrite E'' in HV. rewrite app_assoc in HV. apply trip_suffix in HV. exact HV.
        - rewrite E in HC. apply pairs_mid in HC. apply HC. lia. }
      assert (HM : 0 < cc p k s).
      { rewrite E'' in HV. cbn [app] in HV. apply trip_mid in HV. exact HV. }
      unfold cc in *. apply (G5 (X a) (Y a) (X k) (Y k) (X b) (Y b) (X p) (Y p) (X s) (Y s)); [apply Xinc; lia|apply Xinc; lia|apply Xinc; lia|apply Xinc; lia|exact HL|exact HR|exact HM].
    - intros Hv. destruct (in_dec Nat.eq_dec k out) as [|Hn]; [assumption|exfalso].
      destruct (SI_gap out k HS) as (l1 & p & s & l2 & E & Hps); auto.
      { lia. }
      rewrite E in HC. apply pairs_mid in HC.
      assert (s <= last out 0%nat)%nat by (apply SI_le_last; auto; rewrite E; apply in_or_app; right; right; left; reflexivity).
      specialize (Hv p s Hps ltac:(lia)). specialize (HC k ltac:(lia)). rewrite cc_swap in Hv. lra.
  Qed.
End Abstract.
