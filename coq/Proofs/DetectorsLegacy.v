(* Proofs/DetectorsLegacy.v — documentation of finding D12 (repaired in /repo by fca05a8), machine-checked:
   the PRE-FIX `Refinement.original` loop of lmethod.knee (stop only when two consecutive knees are equal)
   never stops on a scan oracle that is within the scan's range; the repaired loop stops on the same oracle.
   Not used by any check. *)
From Coq Require Import List Arith Bool Lia.
From Knee Require Import Model.Detectors.
Import ListNotations.

(* py (pre-fix): lmethod.py:168-181 at d561702 — `original` without `done = current_knee >= last_knee` *)
Fixpoint lm_iter_original_legacy (scan : nat -> oval nat) (n limit fuel last cutoff : nat) : res :=
  match fuel with
  | O => OutOfFuel
  | S f =>
      match scan (Nat.min (cutoff + 1) n) with
      | ORaise => Exc
      | OMissing => Missing
      | OVal k =>
          if k =? last then Ok [k]
          else res_cons k (lm_iter_original_legacy scan n limit f k (Nat.max limit (Nat.min (2 * k) n)))
      end
  end.

(* the scan answers of the replay [[2,6],[5,4],[7,10],[10,19],[11,4],[14,2],[17,10]], limit = 5:
   knee 2 on all 7 points, knee 3 on the first 6 *)
Definition d12_scan (m : nat) : oval nat := OVal (if m =? 6 then 3 else 2).

Lemma d12_scan_in_range m k : d12_scan m = OVal k -> 3 <= m -> 2 <= k <= Nat.max 2 (m - 3).
Proof. unfold d12_scan. destruct (m =? 6) eqn:E; intros [= <-] H; [apply Nat.eqb_eq in E|]; lia. Qed.

Lemma d12_cycle : forall fuel,
  lm_iter_original_legacy d12_scan 7 5 fuel 3 6 = OutOfFuel /\
  lm_iter_original_legacy d12_scan 7 5 fuel 2 5 = OutOfFuel.
Proof.
  induction fuel as [|f [IH1 IH2]]; [split; reflexivity|].
  split; cbn [lm_iter_original_legacy].
  - change (d12_scan (Nat.min (6 + 1) 7)) with (@OVal nat 2). cbn [Nat.eqb].
    change (Nat.max 5 (Nat.min (2 * 2) 7)) with 5. rewrite IH2. reflexivity.
  - change (d12_scan (Nat.min (5 + 1) 7)) with (@OVal nat 3). cbn [Nat.eqb].
    change (Nat.max 5 (Nat.min (2 * 3) 7)) with 6. rewrite IH1. reflexivity.
Qed.

(* no amount of fuel suffices: the pre-fix loop started as lmethod.knee starts it (last = cutoff = n = 7) cycles 2, 3, 2, 3, ... *)
Theorem refine_original_legacy_cycles : forall fuel, lm_iter_original_legacy d12_scan 7 5 fuel 7 7 = OutOfFuel.
Proof.
  intros [|f]; [reflexivity|]. cbn [lm_iter_original_legacy].
  change (d12_scan (Nat.min (7 + 1) 7)) with (@OVal nat 2). cbn [Nat.eqb].
  change (Nat.max 5 (Nat.min (2 * 2) 7)) with 5. rewrite (proj2 (d12_cycle f)). reflexivity.
Qed.
Print Assumptions refine_original_legacy_cycles.

(* the repaired loop on the same oracle: two iterations *)
Example refine_original_repaired_stops : lm_refine d12_scan 7 5 RefOriginal = Ok [2; 3].
Proof. vm_compute. reflexivity. Qed.
