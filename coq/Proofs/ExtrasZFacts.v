(* Proofs/ExtrasZFacts.v — zmethod.knees2 (Model/ExtrasZ.v): the fixed-point loop terminates within |candidates| + 1 rounds for
   EVERY oracle valuation (second derivative, z-scores, percentiles) and every arithmetic (Tier S), and what it returns is an
   order-preserving sub-selection of the filtered candidates, strictly increasing, inside the array, and a fixed point of the round. *)
From Coq Require Import ZArith List Bool Arith Lia.
From Knee Require Import Num NpList Model.Geometry Model.Filters Model.ExtrasZ Proofs.ListFacts Proofs.FiltersFacts.
Import ListNotations.
Local Open Scope num_scope.

Lemma nle_refl l : nat_list_eqb l l = true.
Proof. induction l as [|a l IH]; cbn; [reflexivity|]. rewrite Nat.eqb_refl. exact IH. Qed.
Lemma nle_eq : forall a b, nat_list_eqb a b = true -> a = b.
Proof.
  induction a as [|x a IH]; intros [|y b] H; cbn in H; try discriminate; [reflexivity|].
  apply andb_true_iff in H. destruct H as [H1 H2]. apply Nat.eqb_eq in H1. subst. f_equal. apply IH. exact H2.
Qed.
Lemma filter_length_le {A} (f : A -> bool) l : length (filter f l) <= length l.
Proof. induction l as [|a l IH]; cbn; [lia|]. destruct (f a); cbn; lia. Qed.
Lemma filter_full {A} (f : A -> bool) : forall l, length (filter f l) = length l -> filter f l = l.
Proof.
  induction l as [|a l IH]; cbn; intros H; [reflexivity|]. destruct (f a); cbn in H.
  - f_equal. apply IH. lia.
  - pose proof (filter_length_le f l). lia.
Qed.
Lemma filter_filter {A} (f g : A -> bool) : forall l, filter g (filter f l) = filter (fun x => f x && g x) l.
Proof.
  induction l as [|a l IH]; cbn; [reflexivity|]. destruct (f a); cbn; [destruct (g a); cbn; rewrite IH; reflexivity|exact IH].
Qed.
Lemma sublistb_In : forall l s, sublistb s l = true -> forall a, In a s -> In a l.
Proof.
  induction l as [|b l IH]; intros [|c s] H a Ha; cbn in *; try contradiction; try discriminate.
  destruct (Nat.eqb_spec c b) as [->|E].
  - destruct Ha as [->|Ha]; [left; reflexivity|right; eapply IH; eauto].
  - right. eapply IH; [exact H|]. exact Ha.
Qed.
Lemma sublistb_SI : forall l s, sublistb s l = true -> SI l -> SI s.
Proof.
  induction l as [|b l IH]; intros [|c s] H HS; try exact I; [cbn in H; discriminate|].
  cbn [sublistb] in H. destruct (Nat.eqb_spec c b) as [->|E].
  - apply SI_cons.
    + pose proof (SI_lt_all b l HS) as HF. rewrite Forall_forall in *. intros x Hx. apply HF. eapply sublistb_In; eauto.
    + apply IH; [exact H|eapply SI_tl; eauto].
  - apply IH; [exact H|eapply SI_tl; eauto].
Qed.
Lemma SI_seq : forall n a, SI (seq a n).
Proof.
  induction n as [|n IH]; intros a; [exact I|]. cbn [seq]. apply SI_cons; [|apply IH].
  apply Forall_forall. intros x Hx. apply in_seq in Hx. lia.
Qed.

Section Knees2Facts.
  Context {N : Num}.
  Variable P : list (@point N).
  Variable x_step y_step : T N.
  Local Notation round := (k2_round P x_step y_step).
  Local Notation loop := (k2_loop P x_step y_step).

  (* a round only removes candidates; one that removes none ends the loop; so |candidates| + 1 rounds suffice *)
  Lemma k2_loop_total : forall fuel cands, length cands < fuel ->
    exists r h, loop fuel cands = Some r /\ r = filter h cands /\ round r = r.
  Proof.
    induction fuel as [|fuel IH]; intros cands Hf; [lia|]. cbn [k2_loop].
    destruct (nat_list_eqb (round cands) cands) eqn:E.
    - apply nle_eq in E. exists cands, (fun _ => true). split; [reflexivity|]. split; [|exact E].
      symmetry. apply filter_full. clear. induction cands; cbn; [reflexivity|]. f_equal. assumption.
    - assert (Hlt : length (round cands) < length cands).
      { unfold k2_round. pose proof (filter_length_le (k2_keepb P x_step y_step cands) cands) as Hle.
        destruct (Nat.eq_dec (length (filter (k2_keepb P x_step y_step cands) cands)) (length cands)) as [He|Hn]; [|lia].
        apply filter_full in He. unfold k2_round in E. rewrite He, nle_refl in E. discriminate. }
      destruct (IH (round cands) ltac:(lia)) as (r & h & Hr & Hh & Hfix).
      exists r, (fun x => k2_keepb P x_step y_step cands x && h x). split; [exact Hr|]. split; [|exact Hfix].
      rewrite Hh. unfold k2_round. apply filter_filter.
  Qed.
  Lemma k2_loop_orbit : forall fuel cands r, loop fuel cands = Some r ->
    existsb (nat_list_eqb r) (k2_orbit P x_step y_step fuel cands) = true.
  Proof.
    induction fuel as [|fuel IH]; intros cands r H; [discriminate|]. cbn [k2_loop] in H. cbn [k2_orbit existsb].
    destruct (nat_list_eqb (round cands) cands).
    - inversion H; subst. rewrite nle_refl. reflexivity.
    - rewrite (IH _ _ H). apply orb_true_r.
  Qed.
  (* more fuel never changes the answer *)
  Lemma k2_loop_mono : forall fuel cands r, loop fuel cands = Some r -> loop (S fuel) cands = Some r.
  Proof.
    induction fuel as [|fuel IH]; intros cands r H; [discriminate|].
    cbn [k2_loop] in H. change (loop (S (S fuel)) cands) with
      (if nat_list_eqb (round cands) cands then Some cands else loop (S fuel) (round cands)).
    destruct (nat_list_eqb (round cands) cands); [exact H|]. apply IH. exact H.
  Qed.
End Knees2Facts.

Section Knees2Public.
  Context {N : Num}.
  Variable P : list (@point N).

  Lemma ge_idx_SI (v : list (T N)) thr : SI (ge_idx v thr) /\ Forall (fun i => i < length v) (ge_idx v thr).
  Proof.
    unfold ge_idx. split.
    - eapply sublistb_SI; [apply sublistb_filter|apply SI_seq].
    - apply Forall_forall. intros i Hi. apply filter_In in Hi. destruct Hi as [Hi _]. apply in_seq in Hi. lia.
  Qed.
  Lemma k2_candidates_SI mode (yd2 z : list (T N)) q :
    SI (k2_candidates mode yd2 z q) /\ Forall (fun i => i < length (k2_src mode yd2 z)) (k2_candidates mode yd2 z q).
  Proof. unfold k2_candidates, k2_src. destruct mode; [apply ge_idx_SI|destruct q; apply ge_idx_SI|apply ge_idx_SI]. Qed.
  Lemma k2_start_SI mode (yd2 z : list (T N)) q :
    SI (k2_start P mode yd2 z q) /\ Forall (fun i => i < length (k2_src mode yd2 z)) (k2_start P mode yd2 z q).
  Proof.
    destruct (k2_candidates_SI mode yd2 z q) as [H1 H2]. unfold k2_start.
    set (c0 := k2_candidates mode yd2 z q) in *.
    pose proof (proj1 (worst_sublist (height P) c0)) as Hw. fold (filter_worst P c0) in Hw.
    pose proof (proj1 (corner_sublists P (ofZ 3 /! ofZ 10) (filter_worst P c0))) as Hc.
    split.
    - eapply sublistb_SI; [exact Hc|]. eapply sublistb_SI; [exact Hw|exact H1].
    - rewrite Forall_forall in *. intros i Hi. apply H2. eapply sublistb_In; [exact Hw|]. eapply sublistb_In; [exact Hc|exact Hi].
  Qed.

  (* zmethod.knees2 terminates (|filtered candidates| + 1 rounds suffice) for every oracle valuation, and its result satisfies
     the predicate the implementation's output is judged with *)
  Theorem knees2_spec dx dy mode yd2 z q :
    exists r, knees2 P dx dy mode yd2 z q = Some r /\ knees2_okb P dx dy mode yd2 z q r = 0.
  Proof.
    unfold knees2.
    set (xs_ := k2_step (map fst P) dx). set (ys_ := k2_step (map snd P) dy). set (c2 := k2_start P mode yd2 z q).
    destruct (k2_loop_total P xs_ ys_ (length c2 + 1) c2 ltac:(lia)) as (r & h & Hr & Hh & Hfix).
    exists r. split; [exact Hr|]. unfold knees2_okb. fold xs_ ys_ c2.
    assert (Hsub : sublistb r c2 = true) by (rewrite Hh; apply sublistb_filter).
    rewrite Hsub. cbn [negb].
    destruct (k2_start_SI mode yd2 z q) as [HS HF]. fold c2 in HS, HF.
    assert (E2 : strictly_increasing r && forallb (fun i => i <? length (k2_src mode yd2 z)) r = true).
    { apply andb_true_iff. split.
      - apply SI_iff. eapply sublistb_SI; eauto.
      - apply forallb_forall. intros i Hi. apply Nat.ltb_lt. rewrite Forall_forall in HF. apply HF. eapply sublistb_In; eauto. }
    rewrite E2. cbn [negb]. rewrite Hfix, nle_refl. cbn [negb].
    rewrite (k2_loop_orbit P xs_ ys_ _ _ _ Hr). reflexivity.
  Qed.
End Knees2Public.
