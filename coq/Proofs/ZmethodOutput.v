(* Proofs/ZmethodOutput.v — C10 z_output: the final sweep and map_index (Tier S, and Tier O for "non-increasing"). *)
From Coq Require Import ZArith List Bool Arith Lia Permutation Sorted.
From Knee Require Import Num NpList OrdLaws Model.Zmethod Proofs.ZmethodLists Proofs.ZmethodCand Proofs.ZmethodFacts.
Import ListNotations.
Local Open Scope num_scope.

Lemma FOP_lt_SI (l : list nat) : ForallOrdPairs lt l -> strictly_increasing l = true.
Proof.
  induction 1 as [|a l Ha Hl IH]; [reflexivity|].
  destruct l as [|b l']; [reflexivity|].
  change (strictly_increasing (a :: b :: l')) with ((a <? b) && strictly_increasing (b :: l')).
  inversion Ha; subst. rewrite IH. apply Nat.ltb_lt in H1. rewrite H1. reflexivity.
Qed.
Lemma Forall2_impl_In' {A B} (S S' : A -> B -> Prop) l r :
  (forall a b, In a l -> In b r -> S a b -> S' a b) -> Forall2 S l r -> Forall2 S' l r.
Proof.
  intros H HF; induction HF as [|a b l r Hab HF IH]; constructor.
  - apply H; cbn; auto.
  - apply IH. intros; apply H; cbn; auto.
Qed.
Lemma FOP_pairwise {A} (f : A -> A -> bool) l : ForallOrdPairs (fun a b => f a b = true) l -> pairwise f l = true.
Proof.
  induction 1 as [|a l Ha Hl IH]; [reflexivity|]. cbn [pairwise]. rewrite IH, andb_true_r.
  rewrite forallb_forall. rewrite Forall_forall in Ha. exact Ha.
Qed.
Lemma SS_nth_lt (ks : list Z) : StronglySorted Z.lt ks -> forall i j, i < j -> j < length ks -> (nth i ks 0 < nth j ks 0)%Z.
Proof.
  induction 1 as [|a ks HS IH Ha]; intros i j Hij Hj; cbn in Hj; [lia|].
  destruct j as [|j]; [lia|]. destruct i as [|i]; cbn [nth].
  - rewrite Forall_forall in Ha. apply Ha. apply nth_In. lia.
  - apply IH; lia.
Qed.

Section Out.
  Context {N : Num}.

  Definition KS (d : list (Z * T N)) : Prop := ForallOrdPairs (fun e e' => (fst e < fst e')%Z) d.

  Lemma dins_In k (y : T N) d e : In e (dins k y d) -> e = (k, y) \/ In e d.
  Proof.
    induction d as [|[k' y'] d IH]; cbn [dins]; intros H.
    - destruct H as [<-|[]]; auto.
    - destruct (k <? k')%Z; [destruct H as [<-|H]; auto|].
      destruct (k =? k')%Z.
      + destruct H as [<-|H]; auto. right; right; auto.
      + destruct H as [<-|H]; [right; left; auto|]. destruct (IH H); auto. right; right; auto.
  Qed.
  Lemma dins_KS k (y : T N) d : KS d -> KS (dins k y d).
  Proof.
    induction 1 as [|[k' y'] d Ha Hd IH]; cbn [dins].
    - constructor; constructor.
    - destruct (Z.ltb_spec k k') as [Hlt|Hge].
      + constructor; [|constructor; auto]. constructor; [cbn; lia|].
        eapply Forall_impl; [|exact Ha]. cbn. intros; lia.
      + destruct (Z.eqb_spec k k') as [->|Hne].
        * constructor; auto.
        * constructor; auto. rewrite Forall_forall in *. intros e He. apply dins_In in He.
          destruct He as [->|He]; [cbn; lia|auto].
  Qed.
  Lemma mkdict_spec (outs : list (@pt N)) : forall d d', mkdict outs d = Some d' -> KS d ->
    KS d' /\ forall e, In e d' -> In e d \/ exists o, In o outs /\ truncZ (fst o) = Some (fst e) /\ snd o = snd e.
  Proof.
    induction outs as [|o outs IH]; intros d d' H HK; cbn [mkdict] in H.
    - inversion H; subst. auto.
    - destruct (truncZ (fst o)) as [k|] eqn:Ek; [|discriminate].
      destruct (IH _ _ H (dins_KS k (snd o) d HK)) as [H1 H2]. split; auto.
      intros e He. destruct (H2 e He) as [Hd|[o' [Ho' Hr]]].
      + apply dins_In in Hd. destruct Hd as [->|Hd]; auto. right. exists o. cbn; auto.
      + right. exists o'. cbn; auto.
  Qed.

  (* heights along the sweep: each kept height is not above the previous kept one (the code's own test) *)
  Fixpoint Desc (m : T N) (d : list (Z * T N)) : Prop :=
    match d with [] => True | e :: d' => (m <?! snd e) = false /\ Desc (snd e) d' end.
  Lemma sweep_In (d : list (Z * T N)) : forall m e, In e (sweep m d) -> In e d.
  Proof.
    induction d as [|[k y] d IH]; intros m e H; cbn [sweep] in H; auto.
    destruct (m <?! y); [right; eauto|]. destruct H as [<-|H]; [left; auto|right; eauto].
  Qed.
  Lemma sweep_KS d : KS d -> forall m, KS (sweep m d).
  Proof.
    induction 1 as [|[k y] d Ha Hd IH]; intros m; cbn [sweep]; [constructor|].
    destruct (m <?! y); [apply IH|]. constructor; [|apply IH].
    rewrite Forall_forall in *. intros e He. apply Ha. eapply sweep_In; eauto.
  Qed.
  Lemma sweep_Desc (d : list (Z * T N)) : forall m, Desc m (sweep m d).
  Proof.
    induction d as [|[k y] d IH]; intros m; cbn [sweep]; [exact I|].
    destruct (m <?! y) eqn:E; auto. cbn [Desc snd]. auto.
  Qed.

  (* ---- the domain: integer abscissae that the arithmetic represents exactly ---- *)
  Variable ks : list Z.
  Hypothesis Hks : StronglySorted Z.lt ks.
  Hypothesis Htr : forall k, In k ks -> @truncZ N (ofZ k) = Some k.
  Hypothesis Hlt : forall a b, In a ks -> In b ks -> (@ofZ N a <?! ofZ b) = (a <? b)%Z.

  Lemma search_exact : forall (l : list Z) i0 i, (forall k, In k l -> In k ks) -> StronglySorted Z.lt l ->
    i < length l -> search (map (@ofZ N) l) i0 (ofZ (nth i l 0%Z)) = Some (i0 + i).
  Proof.
    induction l as [|a l IH]; intros i0 i Hin HS Hi; cbn in Hi; [lia|].
    cbn [map search]. inversion HS as [|? ? HS' Ha]; subst.
    destruct i as [|i]; cbn [nth].
    - rewrite Hlt by (apply Hin; cbn; auto). rewrite Z.ltb_irrefl. f_equal. lia.
    - assert (In (nth i l 0%Z) l) by (apply nth_In; lia).
      rewrite Hlt by (apply Hin; cbn; auto).
      rewrite Forall_forall in Ha. apply Ha in H. apply Z.ltb_lt in H. rewrite H.
      rewrite IH; auto; [f_equal; lia|intros; apply Hin; cbn; auto|lia].
  Qed.

  Variable rows : list (@row N).
  Hypothesis Hxs : map rx rows = map (@ofZ N) ks.
  Let xs := map rx rows.
  Let ys := map ry rows.
  Let n := length rows.

  Lemma len_ks : length ks = n.
  Proof. unfold n. rewrite <- (map_length (@ofZ N) ks), <- Hxs, map_length. reflexivity. Qed.

  (* an (x, y) of the input is point i; its dict key is ks[i] *)
  Lemma xy_index o : In o (map xy rows) -> exists i, i < n /\ o = (yat xs i, yat ys i) /\ fst o = ofZ (nth i ks 0%Z).
  Proof.
    intros H. apply in_map_iff in H. destruct H as [r [<- Hr]].
    destruct (In_nth _ _ row0 Hr) as [i [Hi Hn]]. exists i. split; [exact Hi|].
    assert (E1 : yat xs i = rx r).
    { unfold yat, xs. rewrite (nth_indep _ zero (rx row0)) by (rewrite map_length; exact Hi).
      rewrite map_nth, Hn. reflexivity. }
    assert (E2 : yat ys i = ry r).
    { unfold yat, ys. rewrite (nth_indep _ zero (ry row0)) by (rewrite map_length; exact Hi).
      rewrite map_nth, Hn. reflexivity. }
    split.
    - rewrite E1, E2. unfold xy, rx, ry. destruct r as [[x y] z]; reflexivity.
    - change (fst (xy r)) with (rx r). rewrite <- E1. unfold yat, xs. rewrite Hxs.
      rewrite (nth_indep _ zero (ofZ 0%Z)) by (rewrite map_length, len_ks; exact Hi).
      apply map_nth.
  Qed.

  (* what links an entry of the swept dictionary to the index map_index returns for it *)
  Definition Link (outs : list pt) (e : Z * T N) (i : nat) : Prop :=
    i < n /\ fst e = nth i ks 0%Z /\ snd e = yat ys i /\ In (yat xs i, yat ys i) outs.

  Lemma finish_link outs d ix :
    (forall o, In o outs -> In o (map xy rows)) ->
    finish outs = Some d -> map_index xs (map fst d) = Some ix ->
    KS d /\ Desc one d /\ Forall2 (Link outs) d ix.
  Proof.
    intros Hin Hf Hm. unfold finish in Hf. destruct (mkdict outs []) as [d0|] eqn:Ed; [|discriminate].
    inversion Hf; subst d; clear Hf.
    destruct (mkdict_spec _ _ _ Ed ltac:(constructor)) as [HK Hd0].
    split; [apply sweep_KS; exact HK|]. split; [apply sweep_Desc|].
    unfold map_index in Hm. rewrite map_map in Hm. apply all_some_Forall2 in Hm.
    eapply Forall2_impl_In'; [|exact Hm]. cbn beta.
    intros e i He _ Hs. apply sweep_In in He. destruct (Hd0 e He) as [[]|[o [Ho [Hk Hy]]]].
    destruct (xy_index o (Hin o Ho)) as [i' [Hi' [Eo Ex]]].
    assert (Hki : In (nth i' ks 0%Z) ks) by (apply nth_In; rewrite len_ks; exact Hi').
    rewrite Ex, (Htr _ Hki) in Hk. inversion Hk as [Hk']; clear Hk.
    rewrite <- Hk' in Hs. unfold xs in Hs. rewrite Hxs in Hs.
    rewrite search_exact in Hs; auto; [|rewrite len_ks; exact Hi'].
    inversion Hs; subst i. cbn [Nat.add].
    split; [exact Hi'|]. split; [auto|]. split.
    - rewrite <- Hy, Eo. reflexivity.
    - rewrite <- Eo. exact Ho.
  Qed.

  (* heights of the returned indices along the sweep *)
  Fixpoint DescIx (m : T N) (ix : list nat) : Prop :=
    match ix with [] => True | i :: ix' => (m <?! yat ys i) = false /\ DescIx (yat ys i) ix' end.

  Lemma link_lt outs d ix : KS d -> Forall2 (Link outs) d ix -> ForallOrdPairs lt ix.
  Proof.
    intros HK HF. eapply FOP_Forall2; [|exact HF|exact HK]. cbn beta.
    intros e e' i i' Hlt' [Hi [Hk _]] [Hi' [Hk' _]]. rewrite Hk, Hk' in Hlt'.
    destruct (Nat.lt_ge_cases i i') as [|Hge]; auto. exfalso.
    destruct (Nat.eq_dec i i') as [->|Hne]; [lia|].
    pose proof (SS_nth_lt ks Hks i' i ltac:(lia) ltac:(rewrite len_ks; exact Hi)). lia.
  Qed.
  Lemma link_valid outs d ix : Forall2 (Link outs) d ix -> Forall (fun i => i < n) ix.
  Proof. induction 1 as [|e i d ix [Hi _] _ IH]; constructor; auto. Qed.
  Lemma link_desc outs d ix : Forall2 (Link outs) d ix -> forall m, Desc m d -> DescIx m ix.
  Proof.
    induction 1 as [|e i d ix [_ [_ [Hy _]]] _ IH]; intros m HD; cbn in *; auto.
    destruct HD as [H1 H2]. rewrite <- Hy. auto.
  Qed.
  Lemma link_in outs d ix : Forall2 (Link outs) d ix -> forall i, In i ix -> In (yat xs i, yat ys i) outs.
  Proof.
    induction 1 as [|e j d ix [_ [_ [_ Ho]]] _ IH]; intros i Hi; [destruct Hi|destruct Hi as [<-|Hi]; auto].
  Qed.

  Lemma xs_at i : i < n -> yat xs i = ofZ (nth i ks 0%Z).
  Proof.
    intros Hi. unfold yat, xs. rewrite Hxs.
    rewrite (nth_indep _ zero (ofZ 0%Z)) by (rewrite map_length, len_ks; exact Hi). apply map_nth.
  Qed.
  (* two returned indices are two different selected outliers, so every relation that holds between
     outliers selected one after the other holds between them in one of the two orders *)
  Lemma outs_pairs (R : pt -> pt -> Prop) outs d ix :
    KS d -> Forall2 (Link outs) d ix -> ForallOrdPairs R outs ->
    ForallOrdPairs (fun a b => R (yat xs a, yat ys a) (yat xs b, yat ys b)
                               \/ R (yat xs b, yat ys b) (yat xs a, yat ys a)) ix.
  Proof.
    intros HK HL HR. pose proof (link_lt _ _ _ HK HL) as Hlt'.
    pose proof (link_valid _ _ _ HL) as Hv. rewrite Forall_forall in Hv.
    pose proof (link_in _ _ _ HL) as Hio.
    eapply FOP_impl_In; [|exact Hlt']. cbn beta. intros a b Ha Hb Hab.
    destruct (ForallOrdPairs_In HR _ _ (Hio a Ha) (Hio b Hb)) as [Heq|[H|H]]; auto.
    exfalso. inversion Heq as [[Hx Hy]]. rewrite !xs_at in Hx by auto.
    assert (Ha' : In (nth a ks 0%Z) ks) by (apply nth_In; rewrite len_ks; auto).
    assert (Hb' : In (nth b ks 0%Z) ks) by (apply nth_In; rewrite len_ks; auto).
    pose proof (Htr _ Ha') as Ta. rewrite Hx, (Htr _ Hb') in Ta. inversion Ta as [Tk].
    pose proof (SS_nth_lt ks Hks a b Hab ltac:(rewrite len_ks; auto)). lia.
  Qed.

  (* Tier O: with a total preorder on the compared heights, the chain is "non-increasing" for all pairs and bounded by 1.0 *)
  Lemma desc_heights (P : T N -> Prop) (HO : TotalPreorderOn P) ix :
    forall m, P m -> Forall (fun i => P (yat ys i)) ix -> DescIx m ix ->
    forallb (fun i => negb (m <?! yat ys i)) ix = true
    /\ pairwise (fun a b => negb (yat ys a <?! yat ys b)) ix = true.
  Proof.
    induction ix as [|i ix IH]; intros m Pm HP HD; cbn [forallb pairwise]; [auto|].
    inversion HP as [|? ? Pi HP']; subst. destruct HD as [H1 H2].
    destruct (IH _ Pi HP' H2) as [IH1 IH2]. rewrite H1, IH1, IH2. cbn [negb andb]. split; [|reflexivity].
    rewrite forallb_forall in *. intros j Hj. specialize (IH1 j Hj).
    rewrite Forall_forall in HP'. specialize (HP' j Hj).
    rewrite (ord_ltb P HO m (yat ys j)) by auto. rewrite negb_involutive.
    rewrite (ord_ltb P HO (yat ys i) (yat ys j)) in IH1 by auto. rewrite negb_involutive in IH1.
    rewrite (ord_ltb P HO m (yat ys i)) in H1 by auto. apply negb_false_iff in H1.
    eapply (ord_trans P HO); [| | |exact IH1|exact H1]; auto.
  Qed.
End Out.

(* ------------------------------------------------------------------------------------------------ *)
Section Knees.
  Context {N : Num}.
  Variable ord : nat -> list (@row N) -> list (@row N).
  Hypothesis Hord : forall j l, Permutation (ord j l) l.

  Lemma knees_inv fuel rows dx dy dz xmax yr ix k :
    knees ord fuel rows dx dy dz xmax yr = RDone ix k ->
    (ix = [] /\ params rows dx dy xmax yr = None) \/
    exists p pts outs d,
      params rows dx dy xmax yr = Some (Some p)
      /\ loop (zp_w p) (zp_h p) dz (zp_minz p) ord fuel 0 (ofZ 3) rows [] = RDone (pts, outs) k
      /\ finish outs = Some d /\ map_index (map rx rows) (map fst d) = Some ix.
  Proof.
    unfold knees, getPoints. destruct (params rows dx dy xmax yr) as [[p|]|].
    - destruct (loop (zp_w p) (zp_h p) dz (zp_minz p) ord fuel 0 (ofZ 3) rows []) as [| |[pts outs] k'] eqn:El;
        cbn [finish_res knees_of]; try discriminate.
      cbn [snd]. destruct (finish outs) as [d|] eqn:Ef; cbn [knees_of]; [|discriminate].
      destruct (map_index (map rx rows) (map fst d)) as [ix'|] eqn:Em; [|discriminate].
      intros H; inversion H; subst. right. exists p, pts, outs, d. auto.
    - cbn. discriminate.
    - cbn. intros H; inversion H; subst. left; auto.
  Qed.

  Variable ks : list Z.
  Hypothesis Hks : StronglySorted Z.lt ks.
  Hypothesis Htr : forall k, In k ks -> @truncZ N (ofZ k) = Some k.
  Hypothesis Hlt : forall a b, In a ks -> In b ks -> (@ofZ N a <?! ofZ b) = (a <? b)%Z.
  Variable rows : list (@row N).
  Hypothesis Hxs : map rx rows = map (@ofZ N) ks.

  (* z_output, Tier S part: valid strictly increasing indices; each height passed the sweep's test against its
     left neighbour (and the first against 1.0) *)
  Theorem z_output_S fuel dx dy dz xmax yr ix k :
    knees ord fuel rows dx dy dz xmax yr = RDone ix k ->
    valid_ix (length rows) ix = true /\ DescIx rows one ix.
  Proof.
    intros H. apply knees_inv in H. destruct H as [[-> _]|[p [pts [outs [d [Hp [Hl [Hf Hm]]]]]]]].
    - split; [reflexivity|exact I].
    - destruct (z_inv_loop _ _ _ _ rows ord Hord _ _ _ _ _ Hl) as [_ [_ [Hin _]]].
      destruct (finish_link ks Hks Htr Hlt rows Hxs outs d ix Hin Hf Hm) as [HK [HD HL]].
      split.
      + unfold valid_ix. rewrite (FOP_lt_SI ix (link_lt ks Hks rows Hxs _ _ _ HK HL)).
        cbn [andb]. rewrite forallb_forall. pose proof (link_valid ks rows _ _ _ HL) as Hv.
        rewrite Forall_forall in Hv. intros i Hi. apply Nat.ltb_lt. auto.
      + eapply link_desc; eauto.
  Qed.

  (* z_output, Tier O: heights non-increasing from left to right (all pairs), none above 1.0 *)
  Theorem z_output_O (P : T N -> Prop) (HO : TotalPreorderOn P) fuel dx dy dz xmax yr ix k :
    P one -> Forall P (map ry rows) ->
    knees ord fuel rows dx dy dz xmax yr = RDone ix k ->
    heights_ok (map ry rows) ix = true.
  Proof.
    intros P1 HP H. destruct (z_output_S _ _ _ _ _ _ _ _ H) as [Hv HD].
    unfold heights_ok.
    assert (HPi : Forall (fun i => P (yat (map ry rows) i)) ix).
    { unfold valid_ix in Hv. apply andb_true_iff in Hv. destruct Hv as [_ Hv]. rewrite forallb_forall in Hv.
      rewrite Forall_forall in *. intros i Hi. apply HP. unfold yat. apply nth_In. rewrite map_length.
      apply Nat.ltb_lt. auto. }
    destruct (desc_heights rows P HO ix one P1 HPi HD) as [H1 H2]. rewrite H1, H2. reflexivity.
  Qed.

  (* what z_inv gives for the returned knees: any two of them are two selected outliers, related by the
     code's separation tests in one of the two orders *)
  Theorem z_output_pairs fuel dx dy dz xmax yr ix k p :
    params rows dx dy xmax yr = Some (Some p) ->
    knees ord fuel rows dx dy dz xmax yr = RDone ix k ->
    let o := fun i => (yat (map rx rows) i, yat (map ry rows) i) in
    ForallOrdPairs (fun a b =>
        (YS (zp_h p) (o a) (o b) /\ XS (zp_w p) rows (o a) (o b)) \/
        (YS (zp_h p) (o b) (o a) /\ XS (zp_w p) rows (o b) (o a))) ix
    /\ Forall (fun i => i < length rows) ix.
  Proof.
    intros Hp0 H. apply knees_inv in H. destruct H as [[_ Hn]|[p' [pts [outs [d [Hp [Hl [Hf Hm]]]]]]]]; [congruence|].
    rewrite Hp0 in Hp. inversion Hp; subst p'; clear Hp.
    destruct (z_inv_loop _ _ _ _ rows ord Hord _ _ _ _ _ Hl) as [_ [HS [Hin _]]].
    destruct (finish_link ks Hks Htr Hlt rows Hxs outs d ix Hin Hf Hm) as [HK [HD HL]].
    split; [|eapply link_valid; eauto].
    exact (outs_pairs ks Hks Htr rows Hxs _ outs d ix HK HL HS).
  Qed.

  (* the y-separation of the returned knees, Tier S (the code's own float test, in one of the two argument orders) *)
  Theorem z_output_ysep fuel dx dy dz xmax yr ix k p :
    params rows dx dy xmax yr = Some (Some p) ->
    knees ord fuel rows dx dy dz xmax yr = RDone ix k ->
    ysep_ok (zp_h p) (map ry rows) ix = true.
  Proof.
    intros Hp0 H. destruct (z_output_pairs _ _ _ _ _ _ _ _ _ Hp0 H) as [HP _]. cbn zeta in HP.
    unfold ysep_ok. apply FOP_pairwise. eapply FOP_impl; [|exact HP]. cbn beta.
    unfold YS. cbn [snd]. intros a b [[Hy _]|[Hy _]]; rewrite Hy; [apply orb_true_r|reflexivity].
  Qed.
End Knees.
