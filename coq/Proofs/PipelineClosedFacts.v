(* Proofs/PipelineClosedFacts.v — property C08 with the concrete stage models plugged in: the stage hypotheses of
   PipelineFacts.pipeline_ok are DISCHARGED by the theorems of C13 (corner filter), C12 + C11 (cluster filter over the
   linkage labels), C02 (multi-knee) and C01 (simplifiers), giving closed corollaries.
   Bridging lemmas between the components' notions (sublistb / Sub / SI + membership, the two copies of the worst-knee
   loop, the two copies of steps01) are proved here. *)
From Coq Require Import List Arith Bool Lia Permutation.
From Knee Require Import Num NpList OrdLaws Model.Mapping Model.Pipeline Model.Filters Model.ClusterFilter Model.Clustering
     Model.MultiKnee Model.Hull Model.Rdp Model.RdpFixed Model.PipelineClosed
     Proofs.ListFacts Proofs.MappingFacts Proofs.PipelineFacts Proofs.FiltersFacts Proofs.ClusterFilterFacts
     Proofs.ClusteringFacts Proofs.MultiKneeFacts Proofs.RdpFacts Proofs.RdpFixedFacts.
Import ListNotations.
Local Open Scope num_scope.

(* ------------------------------------------------------------------------------------------ *)
(* bridging lemmas *)

Lemma filter_Sub (f : nat -> bool) l : Sub (filter f l) l.
Proof.
  induction l as [|a l IH]; cbn [filter]; [constructor|].
  destruct (f a); [apply Sub_keep|apply Sub_skip]; exact IH.
Qed.

(* C13's boolean sublist test is C08's *)
Lemma sublistb_subseqb s : forall l, Filters.sublistb s l = subseqb s l.
Proof.
  induction s as [|a s IH]; intros l; [destruct l; reflexivity|].
  induction l as [|b l IHl]; [reflexivity|].
  cbn [Filters.sublistb subseqb]. destruct (a =? b); auto.
Qed.
Lemma sublistb_Sub s l : Filters.sublistb s l = true -> Sub s l.
Proof. rewrite sublistb_subseqb. apply subseqb_Sub. Qed.

(* C12's form of "selects from its input": strictly increasing members of a strictly increasing list *)
Lemma SI_incl_Sub : forall ks out, SI out -> SI ks -> (forall x, In x out -> In x ks) -> Sub out ks.
Proof.
  induction ks as [|a ks IH]; intros out Ho Hk Hin.
  - destruct out as [|b out]; [constructor|]. destruct (Hin b (or_introl eq_refl)).
  - destruct out as [|b out]; [constructor|].
    pose proof (SI_lt_all _ _ Hk) as Hka. pose proof (SI_lt_all _ _ Ho) as Hob.
    rewrite Forall_forall in Hka, Hob.
    destruct (Hin b (or_introl eq_refl)) as [E|Hb].
    + subst b. apply Sub_keep. apply IH; [eapply SI_tl; eauto|eapply SI_tl; eauto|].
      intros x Hx. destruct (Hin x (or_intror Hx)) as [E|H]; auto.
      subst x. specialize (Hob _ Hx). lia.
    + apply Sub_skip. apply IH; auto; [eapply SI_tl; eauto|].
      intros x Hx. destruct (Hin x Hx) as [E|H]; auto. subst x.
      specialize (Hka _ Hb). destruct Hx as [E|Hx]; [lia|]. specialize (Hob _ Hx). lia.
Qed.

(* Model/Clustering.v and Model/ClusterFilter.v each define the same shape test *)
Lemma steps01_same l : Clustering.steps01 l = ClusterFilter.steps01 l.
Proof.
  induction l as [|a l IH]; [reflexivity|].
  destruct l as [|b l]; [reflexivity|].
  change (Clustering.steps01 (a :: b :: l)) with (((b =? a) || (b =? S a)) && Clustering.steps01 (b :: l)).
  change (ClusterFilter.steps01 (a :: b :: l)) with (((b =? a) || (b =? S a)) && ClusterFilter.steps01 (b :: l)).
  rewrite IH. reflexivity.
Qed.

Lemma WF_In_lt n red i : WF n red -> In i red -> i < n.
Proof.
  intros (Hsi & Hhd & Hlast & Hlen) Hin.
  pose proof (SI_le_last red 0 _ Hsi Hin) as Hle.
  assert (H1 : In (nth 1 red 0) red) by (apply nth_In; lia).
  pose proof (SI_le_last red 0 _ Hsi H1) as Hle1.
  pose proof (SI_nth_lt red 0 1 0 Hsi ltac:(lia) ltac:(lia)) as Hlt.
  lia.
Qed.

Section Bridge.
  Context {N : Num}.

  (* Model/Filters.v (C13) and Model/Pipeline.v (C08) each define the worst-knee loop: the same function *)
  Lemma worst_go_same (h : nat -> T N) ks : forall m, Filters.worst_go h m ks = Pipeline.worst_go h m ks.
  Proof.
    induction ks as [|k ks IH]; intros m; [reflexivity|].
    cbn [Filters.worst_go Pipeline.worst_go]. rewrite !IH. reflexivity.
  Qed.
  Lemma filter_worst_same (h : nat -> T N) ks : Filters.filter_worst_h h ks = Pipeline.filter_worst h ks.
  Proof. destruct ks as [|k ks]; [reflexivity|]. cbn [Filters.filter_worst_h Pipeline.filter_worst]. rewrite worst_go_same. reflexivity. Qed.

  Lemma worst_go_ext (h h' : nat -> T N) ks : (forall k, In k ks -> h k = h' k) ->
    forall m, Pipeline.worst_go h m ks = Pipeline.worst_go h' m ks.
  Proof.
    induction ks as [|k ks IH]; intros He m; [reflexivity|].
    cbn [Pipeline.worst_go]. rewrite (He k (or_introl eq_refl)).
    rewrite !IH by (intros; apply He; right; auto). reflexivity.
  Qed.
  Lemma filter_worst_ext (h h' : nat -> T N) ks : (forall k, In k ks -> h k = h' k) ->
    Pipeline.filter_worst h ks = Pipeline.filter_worst h' ks.
  Proof.
    intros He. destruct ks as [|k ks]; [reflexivity|]. cbn [Pipeline.filter_worst].
    rewrite (He k (or_introl eq_refl)). rewrite (worst_go_ext h h' ks); auto. intros; apply He; right; auto.
  Qed.

  (* points[reduced][j] = points[reduced[j]] *)
  Lemma reduced_points_length (xo yo : nat -> T N) red : length (reduced_points xo yo red) = length red.
  Proof. apply map_length. Qed.
  Lemma pt_reduced (xo yo : nat -> T N) red j : j < length red ->
    Filters.pt (reduced_points xo yo red) j = (xo (nth j red 0), yo (nth j red 0)).
  Proof.
    intros Hj. unfold Filters.pt, reduced_points.
    rewrite (nth_indep _ _ ((fun i => (xo i, yo i)) 0)) by (rewrite map_length; exact Hj).
    rewrite (map_nth (fun i => (xo i, yo i))). reflexivity.
  Qed.
  Lemma height_reduced (xo yo : nat -> T N) red j : j < length red ->
    height (reduced_points xo yo red) j = reduced_height yo red j.
  Proof. intros Hj. unfold height. rewrite pt_reduced by exact Hj. reflexivity. Qed.

  (* the worst-knee stage of the C08 model IS C13's filter_worst on points[reduced] *)
  Theorem worst_is_C13 (xo yo : nat -> T N) red knees : Forall (fun j => j < length red) knees ->
    Filters.filter_worst (reduced_points xo yo red) knees = Pipeline.filter_worst (reduced_height yo red) knees.
  Proof.
    intros Hr. unfold Filters.filter_worst. rewrite filter_worst_same.
    apply filter_worst_ext. intros k Hk. rewrite Forall_forall in Hr. apply height_reduced. auto.
  Qed.

  (* ---------------------------------------------------------------------------------------- *)
  (* C13: the corner-filter model satisfies the stage hypothesis, for every Num, curve, threshold, knee list *)
  Theorem corner_Sub (pr : list (@Filters.point N)) (t : T N) l : Sub (filter_corner pr l t) l.
  Proof. apply sublistb_Sub. apply (corner_sublists pr t l). Qed.

  Theorem corner_rule (pr : list (@Filters.point N)) (t : T N) l : corner_rule_b pr t l (filter_corner pr l t) = true.
  Proof.
    unfold corner_rule_b, filter_corner. apply forallb_forall. intros k Hk.
    rewrite memb_filter. rewrite (memb_In k l Hk). cbn [andb]. apply eqb_reflx.
  Qed.

  Theorem corner_stage_ok (pr : list (@Filters.point N)) (t : T N) l :
    exists r, corner_stage pr t l = Some r /\ r = filter_corner pr l t /\ Sub r l /\ corner_rule_b pr t l r = true.
  Proof. eexists. split; [reflexivity|]. split; [reflexivity|]. split; [apply corner_Sub|apply corner_rule]. Qed.

  (* ---------------------------------------------------------------------------------------- *)
  (* C12: the cluster-filter model satisfies the stage hypothesis, all four ranking modes, every label list of the
     right shape, every sorting permutation, score oracle (one value per member), hull list, distance oracle *)
  Section ClusterStage.
    Variable sorter : list (T N) -> list nat.
    Variable score : list nat -> list (T N).
    Variable hull : list nat.
    Variable sdist : nat -> nat -> T N.
    Variable xs : list (T N).
    Variable m : fmode.
    Hypothesis sorter_perm : forall l, Permutation (sorter l) (seq 0 (length l)).
    Hypothesis Hshape : is_hull m = false -> forall c, 2 <= length c -> length (score c) = length c.

    (* the C12 predicate of the mode *)
    Definition cluster_pred (labels knees res : list nat) : bool :=
      if is_hull m then hull_ok_b hull labels knees res else one_per_cluster_b labels knees res.

    Lemma cluster_pred_Sub labels knees res : SI knees -> cluster_pred labels knees res = true -> Sub res knees.
    Proof.
      intros Hsi H. unfold cluster_pred in H.
      assert (H12 : strictly_increasing res = true /\ forallb (fun k => mem k knees) res = true).
      { destruct (is_hull m).
        - unfold hull_ok_b in H. rewrite !andb_true_iff in H. tauto.
        - unfold one_per_cluster_b in H. rewrite !andb_true_iff in H. tauto. }
      destruct H12 as [H1 H2]. apply SI_incl_Sub; [apply SI_iff; exact H1|exact Hsi|].
      intros x Hx. rewrite forallb_forall in H2. apply mem_In. apply H2. exact Hx.
    Qed.

    Theorem fc_stage labels knees : labels_ok labels knees = true -> SI knees ->
      exists res, filter_clusters sorter score hull sdist xs m labels knees = Some res /\ Sub res knees /\
                  (2 <= length knees -> cluster_pred labels knees res = true).
    Proof.
      intros Hlab Hsi. destruct (le_lt_dec (length knees) 1) as [Hle|Hgt].
      - exists knees. unfold filter_clusters. rewrite (proj2 (Nat.leb_le _ _) Hle).
        split; [reflexivity|]. split; [apply Sub_refl|intros; lia].
      - assert (Hsib : strictly_increasing knees = true) by (apply SI_iff; exact Hsi).
        assert (Hsh : is_hull m = false -> forall i, i <= max_label labels ->
                  2 <= length (ClusterFilter.members labels knees i) ->
                  length (score (ClusterFilter.members labels knees i)) = length (ClusterFilter.members labels knees i)).
        { intros Hm i _ H2. apply Hshape; auto. }
        assert (Hp : exists res, filter_clusters sorter score hull sdist xs m labels knees = Some res /\
                                 cluster_pred labels knees res = true).
        { unfold cluster_pred. destruct (Bool.bool_dec (is_hull m) true) as [Hm|Hm]; [|apply Bool.not_true_is_false in Hm]; rewrite Hm.
          - apply (fc_hull_thm sorter score hull sdist xs sorter_perm m labels knees Hlab Hsib Hgt Hsh Hm).
          - apply (fc_one_per_cluster_thm sorter score hull sdist xs sorter_perm m labels knees Hlab Hsib Hgt Hsh Hm). }
        destruct Hp as (res & E & Hok). exists res. split; [exact E|]. split; [|intros _; exact Hok].
        eapply cluster_pred_Sub; eauto.
    Qed.

    (* ... as a stage, for every clustering callable whose labels have the shape C11 proves *)
    Theorem cluster_stage_ok (lab : list nat -> option (list nat)) :
      (forall l, l <> [] -> exists labels, lab l = Some labels /\ labels_ok labels l = true) ->
      forall l, SI l ->
      exists res, cluster_stage sorter score hull sdist xs m lab l = Some res /\ Sub res l.
    Proof.
      intros Hlab l Hsi. unfold cluster_stage. destruct (Nat.leb_spec (length l) 1) as [Hle|Hgt].
      - exists l. split; [reflexivity|apply Sub_refl].
      - destruct (Hlab l) as (labels & E & Hok); [destruct l; [cbn in Hgt; lia|discriminate]|].
        rewrite E. destruct (fc_stage labels l Hok Hsi) as (res & Er & Hs & _). exists res. auto.
    Qed.
  End ClusterStage.

  (* C11: the four linkage models return labels of the shape C12 assumes *)
  Theorem c11_labels_ok (lk : linkage) (xs : list (T N)) (t : T N) l : l <> [] ->
    exists labels, c11_labels lk xs t l = Some labels /\ labels_ok labels l = true.
  Proof.
    intros Hne. unfold c11_labels.
    destruct (linkage_rule lk (knee_xs xs l) t) as (lab & E & H).
    { unfold knee_xs. destruct l; [congruence|discriminate]. }
    exists lab. split; [exact E|].
    unfold c11_holdsb in H. apply andb_true_iff in H. destruct H as [H _].
    unfold shapeb in H. unfold labels_ok. unfold knee_xs in H. rewrite map_length in H.
    rewrite <- steps01_same. exact H.
  Qed.

  (* ---------------------------------------------------------------------------------------- *)
  (* what the pipeline guarantees, as one predicate (the conclusion of pipeline_ok) *)
  Definition pipeline_post (n : nat) (red : list nat) (yo : nat -> T N) (knees k1 k2 k3 out : list nat) : Prop :=
    let yr := reduced_height yo red in
    k1 = Pipeline.filter_worst yr knees /\
    out = map (fun j => nth j red 0) k3 /\                  (* each output index is the retained point of its reduced-space knee *)
    SI out /\ Forall (fun i => In i red /\ i < n) out /\    (* strictly increasing, retained simplification points, valid *)
    Sub k1 knees /\ Sub k2 k1 /\ Sub k3 k2 /\               (* every filter stage returns a subsequence of its input *)
    NonInc yr k1 /\ NonInc yr k2 /\ NonInc yr k3 /\         (* heights non-increasing from the worst-knee filter onwards *)
    NonInc yo out.                                          (* ... also on the original curve *)

  (* the composition theorem with stages that may raise and whose specification is only required on the inputs the
     pipeline can feed them (strictly increasing positions inside the reduced curve) *)
  Section Compose.
    Variable n : nat.
    Variable red : list nat.
    Variable yo : nat -> T N.
    Variable knees : list nat.
    Variables f_corner f_cluster : list nat -> option (list nat).
    Variable P : T N -> Prop.
    Hypothesis Hwf : WF n red.
    Hypothesis Hk_si : SI knees.
    Hypothesis Hk_rng : Forall (fun i => i < length red) knees.
    Hypothesis Hcorner : forall l, SI l -> Forall (fun i => i < length red) l -> exists r, f_corner l = Some r /\ Sub r l.
    Hypothesis Hcluster : forall l, SI l -> Forall (fun i => i < length red) l -> exists r, f_cluster l = Some r /\ Sub r l.
    Hypothesis HO : TotalPreorderOn P.
    Hypothesis HP : forall j, In j knees -> P (reduced_height yo red j).

    Theorem pipeline_opt_ok :
      exists k1 k2 k3 out,
        f_corner k1 = Some k2 /\ f_cluster k2 = Some k3 /\
        pipeline_opt red (rows red) yo knees f_corner f_cluster = Some out /\
        pipeline_post n red yo knees k1 k2 k3 out.
    Proof.
      set (yr := reduced_height yo red).
      set (k1 := Pipeline.filter_worst yr knees).
      assert (S1 : Sub k1 knees) by apply filter_worst_Sub.
      assert (Hsi1 : SI k1) by (eapply Sub_SI; eauto).
      assert (Hr1 : Forall (fun i => i < length red) k1) by (eapply Sub_Forall; eauto).
      destruct (Hcorner k1 Hsi1 Hr1) as (k2 & E2 & S2).
      assert (Hsi2 : SI k2) by (eapply Sub_SI; eauto).
      assert (Hr2 : Forall (fun i => i < length red) k2) by (eapply Sub_Forall; eauto).
      destruct (Hcluster k2 Hsi2 Hr2) as (k3 & E3 & S3).
      assert (Hsi3 : SI k3) by (eapply Sub_SI; eauto).
      assert (Hr3 : Forall (fun i => i < length red) k3) by (eapply Sub_Forall; eauto).
      assert (Pk : Forall (fun k => P (yr k)) knees) by (rewrite Forall_forall; intros; apply HP; auto).
      assert (Pk1 : Forall (fun k => P (yr k)) k1) by (eapply Sub_Forall; eauto).
      assert (Pk2 : Forall (fun k => P (yr k)) k2) by (eapply Sub_Forall; eauto).
      assert (N1 : NonInc yr k1) by apply filter_worst_NonInc.
      assert (N2 : NonInc yr k2) by (apply (Sub_NonInc P HO yr k2 k1 S2 Pk1 N1)).
      assert (N3 : NonInc yr k3) by (apply (Sub_NonInc P HO yr k3 k2 S3 Pk2 N2)).
      assert (Hred : SI red) by (destruct Hwf; tauto).
      exists k1, k2, k3, (map (fun j => nth j red 0) k3).
      split; [exact E2|]. split; [exact E3|]. split.
      { unfold pipeline_opt. fold yr. fold k1. rewrite E2, E3.
        apply (mapping_correct n); auto. apply SI_ND; auto. }
      unfold pipeline_post. fold yr.
      refine (conj eq_refl (conj eq_refl (conj _ (conj _ (conj S1 (conj S2 (conj S3 (conj N1 (conj N2 (conj N3 _)))))))))).
      - apply map_nth_SI; auto.
      - rewrite Forall_forall. intros i Hi. apply in_map_iff in Hi. destruct Hi as (j & <- & Hj).
        rewrite Forall_forall in Hr3. specialize (Hr3 j Hj).
        assert (Hin : In (nth j red 0) red) by (apply nth_In; auto).
        split; [exact Hin|]. eapply WF_In_lt; eauto.
      - clear - N3. induction k3 as [|a [|b l] IH]; cbn [map NonInc]; try exact I.
        cbn [NonInc] in N3. destruct N3 as [Hab N3']. split; [exact Hab|]. apply IH. exact N3'.
    Qed.
  End Compose.

  (* ---------------------------------------------------------------------------------------- *)
  (* pipeline_ok with the two concrete filters: no hypothesis on the filters remains *)
  Section FiltersClosed.
    Variable n : nat.
    Variable red : list nat.
    Variables xo yo : nat -> T N.
    Variable knees : list nat.
    Variable tc : T N.
    Variable lk : linkage.
    Variable tl : T N.
    Variable sorter : list (T N) -> list nat.
    Variable score : list nat -> list (T N).
    Variable hull : list nat.
    Variable sdist : nat -> nat -> T N.
    Variable m : fmode.
    Variable P : T N -> Prop.
    Hypothesis Hwf : WF n red.
    Hypothesis Hk_si : SI knees.
    Hypothesis Hk_rng : Forall (fun i => i < length red) knees.
    Hypothesis sorter_perm : forall l, Permutation (sorter l) (seq 0 (length l)).
    Hypothesis Hshape : is_hull m = false -> forall c, 2 <= length c -> length (score c) = length c.
    Hypothesis HO : TotalPreorderOn P.
    Hypothesis HP : forall j, In j knees -> P (reduced_height yo red j).

    Let pr := reduced_points xo yo red.
    Let xs := map fst pr.

    Theorem pipeline_filters_ok :
      exists k1 k2 k3 out,
        k2 = filter_corner pr k1 tc /\
        cluster_stage sorter score hull sdist xs m (c11_labels lk xs tl) k2 = Some k3 /\
        pipeline_filters red (rows red) xo yo knees tc lk tl sorter score hull sdist m = Some out /\
        pipeline_post n red yo knees k1 k2 k3 out /\
        (* the coordinates of each output index are those of its reduced-space knee *)
        map (fun i => (xo i, yo i)) out = map (Filters.pt pr) k3.
    Proof.
      destruct (pipeline_opt_ok n red yo knees (corner_stage pr tc)
                  (cluster_stage sorter score hull sdist xs m (c11_labels lk xs tl)) P Hwf Hk_si Hk_rng)
        as (k1 & k2 & k3 & out & E2 & E3 & Ep & Hpost); auto.
      - intros l _ _. destruct (corner_stage_ok pr tc l) as (r & E & _ & Hs & _). exists r. auto.
      - intros l Hsi _. apply cluster_stage_ok; auto. intros l' Hne. apply c11_labels_ok. exact Hne.
      - exists k1, k2, k3, out. unfold corner_stage in E2. inversion E2 as [E2'].
        split; [reflexivity|]. rewrite E2'. split; [exact E3|]. split; [exact Ep|]. split; [exact Hpost|].
        destruct Hpost as (Hk1 & Hout & _ & _ & S1 & S2 & S3 & _).
        assert (Hr3 : Forall (fun i => i < length red) k3).
        { eapply Sub_Forall; [|exact Hk_rng]. eapply Sub_trans; [exact S3|]. eapply Sub_trans; eauto. }
        rewrite Hout, map_map. apply map_ext_in. intros j Hj. rewrite Forall_forall in Hr3.
        unfold pr. rewrite pt_reduced by auto. reflexivity.
    Qed.
  End FiltersClosed.

  (* ---------------------------------------------------------------------------------------- *)
  (* C02: the multi-knee model's output satisfies the remaining hypotheses on the knees *)
  Theorem multiknee_stage (cost : mk_cost) (straight : nat -> nat -> T N) knee1 t1 t2 lo n' :
    knee_in_range knee1 t2 lo n' ->
    exists ks tr, multi_knee cost straight knee1 t1 t2 n' = Some (ks, tr) /\ SI ks /\ Forall (fun i => i < n') ks.
  Proof.
    intros HK. destruct (mk_total cost straight knee1 t1 t2 lo n' HK) as (ks & tr & E & _ & _ & Hsi & Hr & _).
    exists ks, tr. split; [exact E|]. split; [exact Hsi|].
    eapply Forall_impl; [|exact Hr]. cbn. intros a Ha. lia.
  Qed.

  (* the whole pipeline from any simplifier output that is a well-formed reduction *)
  Section Closed.
    Variable n : nat.
    Variable simp : option (list nat * list row).
    Variable red : list nat.
    Variable mkc : mk_cost.
    Variable straightR : list nat -> nat -> nat -> T N.
    Variable knee1R : list nat -> nat -> nat -> option nat.
    Variable t1 : T N.
    Variables t2 lo : nat.
    Variables xo yo : nat -> T N.
    Variable tc : T N.
    Variable lk : linkage.
    Variable tl : T N.
    Variable sorter : list (T N) -> list nat.
    Variable scoreR : list nat -> list nat -> list (T N).
    Variable sdistR : list nat -> nat -> nat -> T N.
    Variable m : fmode.
    Variable P : T N -> Prop.
    Hypothesis Hsimp : simp = Some (red, rows red).
    Hypothesis Hwf : WF n red.
    Hypothesis HK : knee_in_range (knee1R red) t2 lo (length red).
    Hypothesis sorter_perm : forall l, Permutation (sorter l) (seq 0 (length l)).
    Hypothesis Hshape : is_hull m = false -> forall c, 2 <= length c -> length (scoreR red c) = length c.
    Hypothesis HO : TotalPreorderOn P.
    Hypothesis HP : forall i, i < n -> P (yo i).

    Theorem pipeline_closed_ok :
      exists knees tr k1 k2 k3 out,
        multi_knee mkc (straightR red) (knee1R red) t1 t2 (length red) = Some (knees, tr) /\
        pipeline_closed simp mkc straightR knee1R t1 t2 xo yo tc lk tl sorter scoreR sdistR m = Some out /\
        pipeline_post n red yo knees k1 k2 k3 out /\
        k2 = filter_corner (reduced_points xo yo red) k1 tc /\
        map (fun i => (xo i, yo i)) out = map (Filters.pt (reduced_points xo yo red)) k3.
    Proof.
      destruct (multiknee_stage mkc (straightR red) (knee1R red) t1 t2 lo (length red) HK) as (knees & tr & Ek & Hsi & Hr).
      assert (HPk : forall j, In j knees -> P (reduced_height yo red j)).
      { intros j Hj. rewrite Forall_forall in Hr. unfold reduced_height. apply HP.
        eapply WF_In_lt; [exact Hwf|]. apply nth_In. auto. }
      destruct (pipeline_filters_ok n red xo yo knees tc lk tl sorter (scoreR red)
                  (Hull.graham_scan_lower (reduced_points xo yo red)) (sdistR red) m P
                  Hwf Hsi Hr sorter_perm Hshape HO HPk) as (k1 & k2 & k3 & out & E2 & E3 & Ep & Hpost & Hco).
      exists knees, tr, k1, k2, k3, out. split; [exact Ek|]. split.
      { unfold pipeline_closed. rewrite Hsimp, Ek. exact Ep. }
      split; [exact Hpost|]. split; [exact E2|exact Hco].
    Qed.
  End Closed.
End Bridge.

(* ------------------------------------------------------------------------------------------ *)
(* the fully closed instances: each of the five simplifier models in front, under that model's own oracle-shape
   hypotheses (C01), an abstract (straightness, single-knee) oracle pair answering inside its slice (C02) *)
Section Instances.
  Context {N : Num}.
  Variable n : nat.
  Variable mkc : mk_cost.
  Variable straightR : list nat -> nat -> nat -> T N.
  Variable knee1R : list nat -> nat -> nat -> option nat.
  Variable t1 : T N.
  Variables t2 lo : nat.
  Variables xo yo : nat -> T N.
  Variable tc : T N.
  Variable lk : linkage.
  Variable tl : T N.
  Variable sorter : list (T N) -> list nat.
  Variable scoreR : list nat -> list nat -> list (T N).
  Variable sdistR : list nat -> nat -> nat -> T N.
  Variable m : fmode.
  Variable P : T N -> Prop.
  Hypothesis HK : forall red, knee_in_range (knee1R red) t2 lo (length red).
  Hypothesis sorter_perm : forall l, Permutation (sorter l) (seq 0 (length l)).
  Hypothesis Hshape : is_hull m = false -> forall red c, 2 <= length c -> length (scoreR red c) = length c.
  Hypothesis HO : TotalPreorderOn P.
  Hypothesis HP : forall i, i < n -> P (yo i).

  (* what is concluded for a simplifier output `simp` *)
  Definition closed_post (simp : option (list nat * list row)) : Prop :=
    exists red knees tr k1 k2 k3 out,
      simp = Some (red, rows red) /\ WF n red /\
      multi_knee mkc (straightR red) (knee1R red) t1 t2 (length red) = Some (knees, tr) /\
      pipeline_closed simp mkc straightR knee1R t1 t2 xo yo tc lk tl sorter scoreR sdistR m = Some out /\
      pipeline_post n red yo knees k1 k2 k3 out /\
      k2 = filter_corner (reduced_points xo yo red) k1 tc /\
      map (fun i => (xo i, yo i)) out = map (Filters.pt (reduced_points xo yo red)) k3.

  Lemma closed_of_simp simp red : simp = Some (red, rows red) -> WF n red -> closed_post simp.
  Proof.
    intros Hs Hwf.
    destruct (pipeline_closed_ok n simp red mkc straightR knee1R t1 t2 lo xo yo tc lk tl sorter scoreR sdistR m P
                Hs Hwf (HK red) sorter_perm (fun Hm => Hshape Hm red) HO HP)
      as (knees & tr & k1 & k2 & k3 & out & H).
    exists red, knees, tr, k1, k2, k3, out. tauto.
  Qed.

  Variable dist : nat -> nat -> list (T N).
  Hypothesis Hn : 2 <= n.
  Hypothesis Hdist : forall l r, l + 3 <= r -> r <= n -> length (dist l r) = r - l.

  (* rdp.rdp *)
  Theorem pipeline_closed_rdp (segcost : nat -> nat -> T N) (r2 : bool) (t : T N) :
    Rdp.curved r2 t (trivial_cost r2) = false ->
    closed_post (drop_vis (rdp dist segcost r2 t n)).
  Proof.
    intros Ht. destruct (rdp_total dist segcost r2 t n Ht Hdist Hn) as (red & rem & vis & E & _ & Hwf & Hrem & _).
    apply (closed_of_simp _ red); [|exact Hwf]. rewrite E. cbn [drop_vis]. rewrite Hrem. reflexivity.
  Qed.

  Variable eps : T N.
  Variable prio : nat -> nat -> T N.

  (* rdp.rdp_fixed *)
  Theorem pipeline_closed_rdp_fixed (fuel k : nat) : n <= fuel ->
    closed_post (rdp_fixed n eps dist prio fuel k).
  Proof.
    intros Hf. destruct (rdp_fixed_total n eps dist prio Hn Hdist fuel k Hf) as (red & E & Hwf).
    apply (closed_of_simp _ red); auto.
  Qed.

  Variable gcost : list nat -> T N.

  (* rdp.grdp *)
  Theorem pipeline_closed_grdp (is_r2 : bool) (t : T N) (fuel : nat) : n <= fuel ->
    closed_post (grdp n eps dist prio gcost is_r2 t fuel).
  Proof.
    intros Hf. destruct (grdp_total n eps dist prio Hn Hdist gcost is_r2 t fuel Hf) as (red & E & Hwf).
    apply (closed_of_simp _ red); auto.
  Qed.

  (* rdp.mp_grdp *)
  Theorem pipeline_closed_mp_grdp (is_r2 : bool) (t : T N) (fuel mp : nat) : n <= fuel ->
    closed_post (mp_grdp n eps dist prio gcost is_r2 t fuel mp).
  Proof.
    intros Hf. destruct (mp_grdp_total n eps dist prio Hn Hdist gcost is_r2 t fuel mp Hf) as (red & E & Hwf).
    apply (closed_of_simp _ red); auto.
  Qed.

  (* rdp.min_point_rdp *)
  Theorem pipeline_closed_min_point_rdp (fuel : nat) (ts : list (T N)) (mp : nat) : n <= fuel ->
    closed_post (min_point_rdp n eps dist prio gcost fuel ts mp).
  Proof.
    intros Hf. destruct (min_point_rdp_total n eps dist prio gcost Hn Hdist fuel ts mp Hf) as (red & E & Hwf).
    apply (closed_of_simp _ red); auto.
  Qed.
End Instances.

(* ------------------------------------------------------------------------------------------ *)
(* binary64: the order hypothesis is discharged for non-NaN heights (FloatOrder.v) and np.argsort is instantiated with
   the executable stable sort the correspondence run uses (a permutation for every input: C12_sorter_perm) *)
From Knee Require Import NumFloat FloatOrder.

Theorem pipeline_filters_ok_float (n : nat) (red : list nat) (xo yo : nat -> PrimFloat.float) (knees : list nat)
    (tc : PrimFloat.float) (lk : linkage) (tl : PrimFloat.float) (score : list nat -> list PrimFloat.float)
    (hull : list nat) (sdist : nat -> nat -> PrimFloat.float) (m : fmode) :
  WF n red -> SI knees -> Forall (fun i => i < length red) knees ->
  (is_hull m = false -> forall c, 2 <= length c -> length (score c) = length c) ->
  (forall j, In j knees -> f_isnan (@reduced_height FloatNum yo red j) = false) ->
  let pr := @reduced_points FloatNum xo yo red in
  exists k1 k2 k3 out,
    k2 = @filter_corner FloatNum pr k1 tc /\
    @cluster_stage FloatNum (@argsort_stable FloatNum) score hull sdist (map fst pr) m
                   (@c11_labels FloatNum lk (map fst pr) tl) k2 = Some k3 /\
    @pipeline_filters FloatNum red (rows red) xo yo knees tc lk tl (@argsort_stable FloatNum) score hull sdist m = Some out /\
    @pipeline_post FloatNum n red yo knees k1 k2 k3 out /\
    map (fun i => (xo i, yo i)) out = map (@Filters.pt FloatNum pr) k3.
Proof.
  intros Hwf Hsi Hr Hsh Hnan.
  apply (@pipeline_filters_ok FloatNum n red xo yo knees tc lk tl (@argsort_stable FloatNum) score hull sdist m
           (@notnan FloatNum)); auto.
  - apply argsort_stable_perm.
  - apply float_total_preorder.
Qed.

Theorem pipeline_closed_rdp_float (n : nat) (mkc : mk_cost) (straightR : list nat -> nat -> nat -> PrimFloat.float)
    (knee1R : list nat -> nat -> nat -> option nat) (t1 : PrimFloat.float) (t2 lo : nat)
    (xo yo : nat -> PrimFloat.float) (tc : PrimFloat.float) (lk : linkage) (tl : PrimFloat.float)
    (scoreR : list nat -> list nat -> list PrimFloat.float) (sdistR : list nat -> nat -> nat -> PrimFloat.float) (m : fmode)
    (dist : nat -> nat -> list PrimFloat.float) (segcost : nat -> nat -> PrimFloat.float) (r2 : bool) (t : PrimFloat.float) :
  (forall red, knee_in_range (knee1R red) t2 lo (length red)) ->
  (is_hull m = false -> forall red c, 2 <= length c -> length (scoreR red c) = length c) ->
  (forall i, i < n -> f_isnan (yo i) = false) ->
  2 <= n -> (forall l r, l + 3 <= r -> r <= n -> length (dist l r) = r - l) ->
  @Rdp.curved FloatNum r2 t (@trivial_cost FloatNum r2) = false ->
  @closed_post FloatNum n mkc straightR knee1R t1 t2 xo yo tc lk tl (@argsort_stable FloatNum) scoreR sdistR m
    (drop_vis (@rdp FloatNum dist segcost r2 t n)).
Proof.
  intros HK Hsh Hnan Hn Hd Ht.
  apply (@pipeline_closed_rdp FloatNum n mkc straightR knee1R t1 t2 lo xo yo tc lk tl (@argsort_stable FloatNum)
           scoreR sdistR m (@notnan FloatNum)); auto.
  - apply argsort_stable_perm.
  - apply float_total_preorder.
Qed.

Theorem pipeline_closed_rdp_fixed_float (n : nat) (mkc : mk_cost) (straightR : list nat -> nat -> nat -> PrimFloat.float)
    (knee1R : list nat -> nat -> nat -> option nat) (t1 : PrimFloat.float) (t2 lo : nat)
    (xo yo : nat -> PrimFloat.float) (tc : PrimFloat.float) (lk : linkage) (tl : PrimFloat.float)
    (scoreR : list nat -> list nat -> list PrimFloat.float) (sdistR : list nat -> nat -> nat -> PrimFloat.float) (m : fmode)
    (dist : nat -> nat -> list PrimFloat.float) (eps : PrimFloat.float) (prio : nat -> nat -> PrimFloat.float) (fuel k : nat) :
  (forall red, knee_in_range (knee1R red) t2 lo (length red)) ->
  (is_hull m = false -> forall red c, 2 <= length c -> length (scoreR red c) = length c) ->
  (forall i, i < n -> f_isnan (yo i) = false) ->
  2 <= n -> (forall l r, l + 3 <= r -> r <= n -> length (dist l r) = r - l) ->
  n <= fuel ->
  @closed_post FloatNum n mkc straightR knee1R t1 t2 xo yo tc lk tl (@argsort_stable FloatNum) scoreR sdistR m
    (@rdp_fixed FloatNum n eps dist prio fuel k).
Proof.
  intros HK Hsh Hnan Hn Hd Hf.
  apply (@pipeline_closed_rdp_fixed FloatNum n mkc straightR knee1R t1 t2 lo xo yo tc lk tl (@argsort_stable FloatNum)
           scoreR sdistR m (@notnan FloatNum)); auto.
  - apply argsort_stable_perm.
  - apply float_total_preorder.
Qed.

(* ------------------------------------------------------------------------------------------ *)
(* packaging for Props/C08.v *)

(* C01: each of the five simplifier models returns a well-formed reduction with removed = rows reduced *)
Theorem simplifier_stage (N : Num) (n : nat) (dist : nat -> nat -> list (T N)) :
  2 <= n -> (forall l r, l + 3 <= r -> r <= n -> length (dist l r) = r - l) ->
  (forall segcost r2 t, Rdp.curved r2 t (trivial_cost r2) = false ->
     exists red, drop_vis (rdp dist segcost r2 t n) = Some (red, rows red) /\ WF n red) /\
  (forall eps prio fuel k, n <= fuel ->
     exists red, rdp_fixed n eps dist prio fuel k = Some (red, rows red) /\ WF n red) /\
  (forall eps prio gcost is_r2 t fuel, n <= fuel ->
     exists red, grdp n eps dist prio gcost is_r2 t fuel = Some (red, rows red) /\ WF n red) /\
  (forall eps prio gcost is_r2 t fuel mp, n <= fuel ->
     exists red, mp_grdp n eps dist prio gcost is_r2 t fuel mp = Some (red, rows red) /\ WF n red) /\
  (forall eps prio gcost fuel ts mp, n <= fuel ->
     exists red, min_point_rdp n eps dist prio gcost fuel ts mp = Some (red, rows red) /\ WF n red).
Proof.
  intros Hn Hd. refine (conj _ (conj _ (conj _ (conj _ _)))).
  - intros segcost r2 t Ht. destruct (rdp_total dist segcost r2 t n Ht Hd Hn) as (red & rem & vis & E & _ & Hwf & Hrem & _).
    exists red. rewrite E. cbn [drop_vis]. rewrite Hrem. auto.
  - intros eps prio fuel k Hf. apply rdp_fixed_total; auto.
  - intros eps prio gcost is_r2 t fuel Hf. apply grdp_total; auto.
  - intros eps prio gcost is_r2 t fuel mp Hf. apply mp_grdp_total; auto.
  - intros eps prio gcost fuel ts mp Hf. apply min_point_rdp_total; auto.
Qed.

(* what the two packaged conclusions say *)
Lemma pipeline_post_iff (N : Num) n red (yo : nat -> T N) knees k1 k2 k3 out :
  pipeline_post n red yo knees k1 k2 k3 out <->
  (k1 = Pipeline.filter_worst (reduced_height yo red) knees /\
   out = map (fun j => nth j red 0) k3 /\
   SI out /\ Forall (fun i => In i red /\ i < n) out /\
   Sub k1 knees /\ Sub k2 k1 /\ Sub k3 k2 /\
   NonInc (reduced_height yo red) k1 /\ NonInc (reduced_height yo red) k2 /\ NonInc (reduced_height yo red) k3 /\
   NonInc yo out).
Proof. unfold pipeline_post. reflexivity. Qed.

Lemma closed_post_iff (N : Num) n mkc (straightR : list nat -> nat -> nat -> T N) knee1R t1 t2 xo yo tc lk tl sorter scoreR sdistR m simp :
  closed_post n mkc straightR knee1R t1 t2 xo yo tc lk tl sorter scoreR sdistR m simp <->
  exists red knees tr k1 k2 k3 out,
    simp = Some (red, rows red) /\ WF n red /\
    multi_knee mkc (straightR red) (knee1R red) t1 t2 (length red) = Some (knees, tr) /\
    pipeline_closed simp mkc straightR knee1R t1 t2 xo yo tc lk tl sorter scoreR sdistR m = Some out /\
    pipeline_post n red yo knees k1 k2 k3 out /\
    k2 = filter_corner (reduced_points xo yo red) k1 tc /\
    map (fun i => (xo i, yo i)) out = map (Filters.pt (reduced_points xo yo red)) k3.
Proof. unfold closed_post. reflexivity. Qed.
