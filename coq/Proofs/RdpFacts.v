(* Proofs/RdpFacts.v — threshold RDP (Model/Rdp.v): termination within 2n-3 iterations, well-formed output,
   kept segments fit, every kept index is explained by a recursive interior arg-max split (C01, C04). *)
From Coq Require Import List Arith Bool Lia.
From Knee Require Import Num NpList OrdLaws Model.Mapping Model.Rdp Proofs.ListFacts Proofs.MappingFacts Proofs.SegFacts.
Import ListNotations.
Local Open Scope num_scope.

(* ------------------------------------------------------------------------------------------- *)
(* np.argmax, a[1:-1] and the split index: Tier S (any values, NaN included) *)
Section ArgmaxS.
  Context {N : Num}.

  Lemma argmax_go_lt : forall (l : list (T N)) i best bi, bi < i -> argmax_go l i best bi < i + length l.
  Proof.
    induction l as [|x l IH]; intros i best bi Hb; cbn [argmax_go length]; [lia|].
    destruct (isnan best); [lia|].
    destruct (negb (x <=?! best)).
    - specialize (IH (S i) x i ltac:(lia)). lia.
    - specialize (IH (S i) best bi ltac:(lia)). lia.
  Qed.
  Lemma argmax_lt (l : list (T N)) : l <> [] -> argmax l < length l.
  Proof.
    destruct l as [|x l]; [congruence|]. intros _. unfold argmax. cbn [length].
    pose proof (argmax_go_lt l 1 x 0 ltac:(lia)). lia.
  Qed.

  Lemma removelast_len {A} (l : list A) : length (removelast l) = length l - 1.
  Proof.
    induction l as [|a [|b l] IH]; [reflexivity|reflexivity|].
    change (removelast (a :: b :: l)) with (a :: removelast (b :: l)). cbn [length] in *. lia.
  Qed.
  Lemma nth_removelast {A} : forall (l : list A) j d, j < length l - 1 -> nth j (removelast l) d = nth j l d.
  Proof.
    induction l as [|a [|b l] IH]; intros j d Hj; cbn [length] in Hj; try lia.
    change (removelast (a :: b :: l)) with (a :: removelast (b :: l)).
    destruct j as [|j]; [reflexivity|]. cbn [nth]. apply IH. cbn [length]. lia.
  Qed.
  Lemma interior_length {A} (d : list A) : length (interior d) = length d - 2.
  Proof. unfold interior. rewrite removelast_len. destruct d; cbn [tl length]; lia. Qed.
  Lemma interior_nth {A} (d : list A) j z : j < length d - 2 -> nth j (interior d) z = nth (S j) d z.
  Proof.
    intros Hj. unfold interior. rewrite nth_removelast.
    - destruct d; [cbn in Hj; lia|reflexivity].
    - destruct d; cbn [tl length] in *; lia.
  Qed.

  (* the lemma that the pinned code's np.argmax(d) falsified (D1/D2): whatever the distances are, the split
     index is strictly inside *)
  Theorem split_interior (d : list (T N)) : 3 <= length d -> 1 <= split d <= length d - 2.
  Proof.
    intros H. unfold split. pose proof (interior_length d) as HL.
    assert (Hne : interior d <> []) by (destruct (interior d); [cbn in HL; lia|discriminate]).
    pose proof (argmax_lt _ Hne). lia.
  Qed.
End ArgmaxS.

(* ------------------------------------------------------------------------------------------- *)
(* Tier O: on non-NaN values totally pre-ordered by <=, np.argmax returns a maximum *)
Section ArgmaxO.
  Context {N : Num}.
  Hypothesis HO : TotalPreorderOn (@notnan N).

  Lemma argmax_go_max : forall (l pre : list (T N)) i best bi z,
    i = length pre -> Forall notnan (pre ++ l) -> bi < length pre -> nth bi pre z = best ->
    Forall (fun x => x <=?! best = true) pre ->
    argmax_go l i best bi < length (pre ++ l) /\
    Forall (fun x => x <=?! nth (argmax_go l i best bi) (pre ++ l) z = true) (pre ++ l).
  Proof.
    induction l as [|x l IH]; intros pre i best bi z Hi Hnn Hbi Hb Hle.
    - cbn [argmax_go]. rewrite app_nil_r. split; [exact Hbi|]. rewrite Hb. exact Hle.
    - cbn [argmax_go].
      assert (Hnb : notnan best).
      { rewrite Forall_forall in Hnn. apply Hnn. apply in_or_app. left. rewrite <- Hb. apply nth_In. exact Hbi. }
      assert (Hnx : notnan x).
      { rewrite Forall_forall in Hnn. apply Hnn. apply in_or_app. right. left. reflexivity. }
      assert (Hnp : Forall notnan pre) by (apply Forall_app in Hnn; tauto).
      unfold notnan in Hnb. rewrite Hnb.
      assert (Hassoc : pre ++ x :: l = (pre ++ [x]) ++ l) by (rewrite <- app_assoc; reflexivity).
      assert (Hlen : S i = length (pre ++ [x])) by (rewrite app_length; cbn [length]; lia).
      destruct (x <=?! best) eqn:E; cbn [negb].
      + rewrite Hassoc. apply IH; auto.
        * rewrite <- Hassoc. exact Hnn.
        * rewrite app_length. lia.
        * rewrite app_nth1; auto.
        * apply Forall_app. split; auto.
      + assert (Hbx : best <=?! x = true).
        { destruct (ord_total _ HO x best Hnx Hnb) as [H|H]; [congruence|exact H]. }
        rewrite Hassoc. apply IH; auto.
        * rewrite <- Hassoc. exact Hnn.
        * rewrite app_length. cbn [length]. lia.
        * subst i. apply nth_middle.
        * apply Forall_app. split.
          -- rewrite Forall_forall in *. intros p Hp. apply (ord_trans _ HO p best x); auto.
          -- constructor; [|constructor]. apply (ord_refl _ HO); auto.
  Qed.

  Lemma argmax_max (l : list (T N)) z : l <> [] -> Forall notnan l ->
    forall j, j < length l -> nth j l z <=?! nth (argmax l) l z = true.
  Proof.
    destruct l as [|x l]; [congruence|]. intros _ Hnn j Hj. unfold argmax.
    pose proof (argmax_go_max l [x] 1 x 0 z eq_refl Hnn ltac:(cbn; lia) eq_refl) as H.
    destruct H as [_ H].
    - constructor; [|constructor]. apply (ord_refl _ HO). inversion Hnn; auto.
    - cbn [app] in H. rewrite Forall_forall in H. apply H. apply nth_In. exact Hj.
  Qed.

  (* "no interior point of the range is farther from the chord" *)
  Theorem split_is_argmax (d : list (T N)) z : 3 <= length d -> Forall notnan (interior d) ->
    forall j, 1 <= j <= length d - 2 -> nth j d z <=?! nth (split d) d z = true.
  Proof.
    intros Hd Hnn j Hj. pose proof (interior_length d) as HL.
    assert (Hne : interior d <> []) by (destruct (interior d); [cbn in HL; lia|discriminate]).
    destruct j as [|j]; [lia|]. unfold split.
    rewrite <- !(interior_nth d _ z).
    - apply argmax_max; auto. lia.
    - pose proof (argmax_lt _ Hne). lia.
    - lia.
  Qed.
End ArgmaxO.

(* ------------------------------------------------------------------------------------------- *)
Section RdpFacts.
  Context {N : Num}.
  Variable dist : nat -> nat -> list (T N).
  Variable segcost : nat -> nat -> T N.
  Variable r2 : bool.
  Variable t : T N.
  Local Notation curved := (curved r2 t).
  Local Notation cost_of := (cost_of segcost r2).
  Local Notation loop := (rdp_loop dist segcost r2 t).
  Local Notation rdp := (rdp dist segcost r2 t).
  Local Notation kept_fitb := (kept_fitb segcost r2 t).
  Local Notation explb := (explb dist segcost r2 t).

  (* the recursion tree the loop unfolds: the accepted segments of the range (l, r), left to right *)
  Inductive Tree : nat -> nat -> list seg -> Prop :=
  | T_leaf l r : curved (cost_of l r) = false -> Tree l r [(l, r)]
  | T_split l r A B : curved (cost_of l r) = true ->
      Tree l (l + split (dist l r) + 1) A -> Tree (l + split (dist l r)) r B -> Tree l r (A ++ B).

  (* whatever the oracles are: IF the loop returns, its result is the concatenation of the trees of the stack *)
  Lemma loop_tree : forall fuel st acc vis segs vs,
    loop fuel st acc vis = Some (segs, vs) ->
    exists parts, Forall2 (fun s R => Tree (fst s) (snd s) R) st parts /\ segs = rev acc ++ concat parts.
  Proof.
    induction fuel as [|f IH]; intros st acc vis segs vs H; cbn [rdp_loop] in H; [discriminate|].
    destruct st as [|[l r] st].
    - inversion H; subst. exists []. split; [constructor|]. cbn. rewrite app_nil_r. reflexivity.
    - destruct (curved (cost_of l r)) eqn:E.
      + apply IH in H. destruct H as (parts & HF & ->).
        inversion HF as [|? A ? ps' HA HF']; subst. inversion HF' as [|? B ? ps HB HF'']; subst.
        cbn [fst snd] in HA, HB.
        exists ((A ++ B) :: ps). split.
        * constructor; auto. cbn [fst snd]. apply T_split; auto.
        * cbn [concat]. rewrite <- app_assoc. reflexivity.
      + apply IH in H. destruct H as (parts & HF & ->).
        exists ([(l, r)] :: parts). split.
        * constructor; auto. cbn [fst snd]. apply T_leaf; auto.
        * cbn [rev concat]. rewrite <- !app_assoc. reflexivity.
  Qed.

  Lemma tree_fit l r R : Tree l r R -> Forall (fun s => curved (cost_of (fst s) (snd s)) = false) R.
  Proof. induction 1; [repeat constructor; auto|apply Forall_app; auto]. Qed.

  (* ---- under the property's domain: thresholds for which two-point segments are accepted, and
          distance arrays of the segment's length ---- *)
  Variable n : nat.
  Hypothesis Hdom : curved (trivial_cost r2) = false.
  Hypothesis Hshape : forall l r, l + 3 <= r -> r <= n -> length (dist l r) = r - l.

  Lemma curved_wide l r : curved (cost_of l r) = true -> l + 3 <= r.
  Proof.
    unfold Rdp.cost_of. destruct (r - l <=? 2) eqn:E; [congruence|]. intros _. apply Nat.leb_gt in E. lia.
  Qed.
  Lemma cost_of_wide l r : l + 3 <= r -> cost_of l r = segcost l r.
  Proof. intros H. unfold Rdp.cost_of. destruct (r - l <=? 2) eqn:E; [apply Nat.leb_le in E; lia|reflexivity]. Qed.
  Lemma split_ok l r : r <= n -> curved (cost_of l r) = true -> 1 <= split (dist l r) <= r - l - 2.
  Proof.
    intros Hr Hc. apply curved_wide in Hc. pose proof (split_interior (dist l r)) as H.
    rewrite Hshape in H by lia. apply H. lia.
  Qed.

  (* termination: sum over the stack of 2(r-l-1)-1 bounds the number of remaining pops *)
  Fixpoint weight (st : list seg) : nat :=
    match st with [] => 0 | s :: st' => 2 * (snd s - fst s - 1) - 1 + weight st' end.
  Definition good (s : seg) : Prop := fst s + 2 <= snd s /\ snd s <= n.

  Lemma loop_total : forall fuel st acc vis, Forall good st -> weight st < fuel ->
    exists segs vs, loop fuel st acc vis = Some (segs, vs) /\ length vs <= length vis + weight st.
  Proof.
    induction fuel as [|f IH]; intros st acc vis Hg Hw; [lia|]. cbn [rdp_loop].
    destruct st as [|[l r] st].
    - eexists _, _. split; [reflexivity|]. rewrite rev_length. lia.
    - inversion Hg as [|? ? [H1 H2] Hg']; subst. cbn [fst snd] in H1, H2. cbn [weight fst snd] in Hw |- *.
      destruct (curved (cost_of l r)) eqn:E.
      + pose proof (split_ok l r H2 E) as Hi. set (i := split (dist l r)) in *.
        destruct (IH ((l, l + i + 1) :: (l + i, r) :: st) acc ((l, r) :: vis)) as (segs & vs & Heq & Hlen).
        * constructor; [split; cbn [fst snd]; lia|]. constructor; [split; cbn [fst snd]; lia|]. exact Hg'.
        * cbn [weight fst snd]. lia.
        * exists segs, vs. split; [exact Heq|]. cbn [weight fst snd length] in Hlen. lia.
      + destruct (IH st ((l, r) :: acc) ((l, r) :: vis) Hg' ltac:(lia)) as (segs & vs & Heq & Hlen).
        exists segs, vs. split; [exact Heq|]. cbn [length] in Hlen. lia.
  Qed.

  Lemma tree_chain l r R : Tree l r R -> l + 2 <= r -> r <= n -> chain l R (r - 1).
  Proof.
    induction 1 as [l r Hc|l r A B Hc HA IHA HB IHB]; intros H1 H2.
    - cbn [chain fst snd]. repeat split; lia.
    - pose proof (split_ok l r H2 Hc) as Hi. set (i := split (dist l r)) in *.
      apply chain_app. exists (l + i). split.
      + replace (l + i) with (l + i + 1 - 1) by lia. apply IHA; lia.
      + apply IHB; lia.
  Qed.

  (* ---- C04: the kept indices are exactly those a recursive interior arg-max split explains ---- *)
  (* Expl S l r  (l, r the inclusive end points of the range points[l:r+1]) *)
  Inductive Expl (S : list nat) : nat -> nat -> Prop :=
  | Expl_keep l r :
      (forall i, In i S -> l < i < r -> False) ->
      (r - l < 2 \/ curved (segcost l (r + 1)) = false) -> Expl S l r
  | Expl_split l r i :
      2 <= r - l -> curved (segcost l (r + 1)) = true -> i = l + split (dist l (r + 1)) ->
      l < i < r -> In i S -> Expl S l i -> Expl S i r -> Expl S l r.

  Lemma tree_expl l r R : Tree l r R -> l + 2 <= r -> r <= n ->
    forall S, (forall x, l <= x <= r - 1 -> (In x S <-> In x (breaks R (r - 1)))) -> Expl S l (r - 1).
  Proof.
    induction 1 as [l r Hc|l r A B Hc HA IHA HB IHB]; intros H1 H2 S HS.
    - apply Expl_keep.
      + intros i Hi Hlt. apply HS in Hi; [|lia]. cbn in Hi. lia.
      + unfold Rdp.cost_of in Hc. destruct (r - l <=? 2) eqn:E.
        * left. apply Nat.leb_le in E. lia.
        * right. replace (r - 1 + 1) with r by lia. exact Hc.
    - pose proof (split_ok l r H2 Hc) as Hi. pose proof (curved_wide l r Hc) as Hw.
      set (i := split (dist l r)) in *.
      assert (CA : chain l A (l + i)).
      { replace (l + i) with (l + i + 1 - 1) by lia. apply (tree_chain _ _ _ HA); lia. }
      assert (CB : chain (l + i) B (r - 1)) by (apply (tree_chain _ _ _ HB); lia).
      assert (HmS : In (l + i) S).
      { apply HS; [lia|]. rewrite breaks_app. apply in_or_app. right. eapply chain_hd_in; eauto. }
      apply (Expl_split S l (r - 1) (l + i)).
      + lia.
      + replace (r - 1 + 1) with r by lia. rewrite <- cost_of_wide by lia. exact Hc.
      + replace (r - 1 + 1) with r by lia. reflexivity.
      + lia.
      + exact HmS.
      + replace (l + i) with (l + i + 1 - 1) by lia. apply IHA; try lia.
        replace (l + i + 1 - 1) with (l + i) by lia. intros x Hx. split.
        * intros Hin. apply HS in Hin; [|lia]. rewrite breaks_app in Hin. apply in_app_or in Hin.
          destruct Hin as [Hin|Hin].
          -- unfold breaks. apply in_or_app. left. exact Hin.
          -- pose proof (chain_range _ _ _ _ CB Hin). assert (x = l + i) by lia. subst x. apply breaks_last_in.
        * intros Hin. unfold breaks in Hin. apply in_app_or in Hin. destruct Hin as [Hin|[<-|[]]]; [|exact HmS].
          apply HS; [|rewrite breaks_app; apply in_or_app; left; exact Hin].
          pose proof (chain_range _ _ _ x CA ltac:(unfold breaks; apply in_or_app; left; exact Hin)). lia.
      + apply IHB; try lia. intros x Hx. split.
        * intros Hin. apply HS in Hin; [|lia]. rewrite breaks_app in Hin. apply in_app_or in Hin.
          destruct Hin as [Hin|Hin]; [|exact Hin].
          pose proof (chain_range _ _ _ x CA ltac:(unfold breaks; apply in_or_app; left; exact Hin)).
          assert (x = l + i) by lia. subst x. eapply chain_hd_in; eauto.
        * intros Hin. apply HS; [lia|]. rewrite breaks_app. apply in_or_app. right. exact Hin.
  Qed.

  (* the executable form used by the judge *)
  Lemma none_inside_iff S l r :
    forallb (fun i => negb ((l <? i) && (i <? r))) S = true <-> (forall i, In i S -> l < i < r -> False).
  Proof.
    rewrite forallb_forall. split; intros H i Hi.
    - intros [H1 H2]. specialize (H i Hi). apply Nat.ltb_lt in H1, H2. rewrite H1, H2 in H. discriminate.
    - destruct (l <? i) eqn:E1; [|reflexivity]. destruct (i <? r) eqn:E2; [|reflexivity].
      apply Nat.ltb_lt in E1, E2. exfalso. eapply H; eauto.
  Qed.
  Lemma explb_sound : forall fuel S l r, explb fuel S l r = true -> Expl S l r.
  Proof.
    induction fuel as [|f IH]; intros S l r H; cbn [Rdp.explb] in H; [discriminate|].
    destruct (r - l <? 2) eqn:E.
    - apply Expl_keep; [apply none_inside_iff; exact H|]. left. apply Nat.ltb_lt in E. exact E.
    - apply Nat.ltb_ge in E. destruct (curved (segcost l (r + 1))) eqn:Ec.
      + rewrite !andb_true_iff in H. destruct H as ((((Ha & Hb) & Hc) & Hd) & He).
        apply Nat.ltb_lt in Ha, Hb. apply existsb_exists in Hc. destruct Hc as (x & Hx & Hxe).
        apply Nat.eqb_eq in Hxe. subst x.
        eapply Expl_split; eauto.
      + apply Expl_keep; [apply none_inside_iff; exact H|]. right. exact Ec.
  Qed.
  Lemma explb_complete S l r : Expl S l r -> forall fuel, r - l < fuel -> explb fuel S l r = true.
  Proof.
    induction 1 as [l r Hn Hc|l r i H2 Hc Hi Hlt Hin _ IH1 _ IH2]; intros fuel Hf;
      (destruct fuel as [|f]; [lia|]); cbn [Rdp.explb].
    - destruct (r - l <? 2) eqn:E; [apply none_inside_iff; exact Hn|].
      apply Nat.ltb_ge in E. destruct Hc as [Hc|Hc]; [lia|]. rewrite Hc. apply none_inside_iff; exact Hn.
    - destruct (r - l <? 2) eqn:E; [apply Nat.ltb_lt in E; lia|]. rewrite Hc. rewrite <- Hi.
      rewrite !andb_true_iff. repeat split.
      + apply Nat.ltb_lt; lia.
      + apply Nat.ltb_lt; lia.
      + apply existsb_exists. exists i. split; [exact Hin|apply Nat.eqb_refl].
      + apply IH1. lia.
      + apply IH2. lia.
  Qed.

  (* ---- the main statements ---- *)
  Lemma rdp_run : 2 <= n ->
    exists segs vs, loop (2 * n) [(0, n)] [] [] = Some (segs, vs) /\ length vs <= 2 * n - 3 /\
                    Tree 0 n segs /\ chain 0 segs (n - 1).
  Proof.
    intros Hn.
    destruct (loop_total (2 * n) [(0, n)] [] []) as (segs & vs & Heq & Hlen).
    - constructor; [split; cbn [fst snd]; lia|constructor].
    - cbn [weight fst snd]. lia.
    - exists segs, vs. split; [exact Heq|]. split; [cbn [weight fst snd length] in Hlen; lia|].
      destruct (loop_tree _ _ _ _ _ _ Heq) as (parts & HF & ->).
      inversion HF as [|? R ? ps HR HF']; subst. inversion HF'; subst. cbn [fst snd] in HR.
      cbn [rev concat app]. rewrite app_nil_r. split; [exact HR|].
      apply (tree_chain _ _ _ HR); lia.
  Qed.

  (* C01 (threshold RDP): returns within fuel 2n, at most 2n-3 iterations, well-formed (reduced, removed) *)
  Theorem rdp_total : 2 <= n ->
    exists red rem vis, rdp n = Some (red, rem, vis) /\ length vis <= 2 * n - 3 /\
      WF n red /\ rem = rows red /\ length red + dropped rem = n.
  Proof.
    intros Hn. destruct (rdp_run Hn) as (segs & vs & Heq & Hlen & HT & HC).
    unfold Rdp.rdp. rewrite Heq. eexists _, _, _. split; [reflexivity|]. split; [exact Hlen|].
    split; [apply chain_WF; auto|]. split; [eapply chain_rows; eauto|].
    rewrite (chain_count _ _ _ HC); [lia|]. eapply chain_nonempty; eauto. lia.
  Qed.

  Definition without_iters (o : option (list nat * list row * list seg)) : option (list nat * list row) :=
    match o with Some (red, rem, vis) => Some (red, rem) | None => None end.

  (* ... in the boolean form the judge evaluates on the implementation's output: one activation, <= 2n-3 iterations *)
  Theorem rdp_C01_code : 2 <= n ->
    match rdp n with
    | Some (red, rem, vis) => C01_code n (2 * n - 3) 1 (Some (red, rem)) [length vis] = 0
    | None => False
    end.
  Proof.
    intros Hn. destruct (rdp_total Hn) as (red & rem & vis & -> & Hlen & HW & -> & Hcnt).
    cbn [C01_code]. apply WFb_iff in HW. rewrite HW, rows_eqb_refl. cbn [negb].
    apply Nat.eqb_eq in Hcnt. rewrite Hcnt. cbn [length forallb negb]. apply Nat.leb_le in Hlen. rewrite Hlen. reflexivity.
  Qed.

  (* C04, first clause: every retained segment with interior points was evaluated and accepted *)
  Theorem rdp_kept_fit : 2 <= n -> forall red rem vis, rdp n = Some (red, rem, vis) ->
    forall a b, In (a, b) (pairs red) -> 2 <= b - a -> curved (segcost a (b + 1)) = false.
  Proof.
    intros Hn red rem vis H a b Hin Hab. destruct (rdp_run Hn) as (segs & vs & Heq & Hlen & HT & HC).
    unfold Rdp.rdp in H. rewrite Heq in H. inversion H; subst. clear H.
    rewrite (chain_pairs _ _ _ HC) in Hin. apply in_map_iff in Hin. destruct Hin as ([l r] & Hp & Hin).
    cbn [fst snd] in Hp. inversion Hp; subst.
    pose proof (tree_fit _ _ _ HT) as HF. rewrite Forall_forall in HF. specialize (HF _ Hin). cbn [fst snd] in HF.
    rewrite cost_of_wide in HF by lia. replace (r - 1 + 1) with r by lia. exact HF.
  Qed.
  Lemma kept_fitb_iff red : kept_fitb red = true <->
    (forall a b, In (a, b) (pairs red) -> 2 <= b - a -> curved (segcost a (b + 1)) = false).
  Proof.
    unfold Rdp.kept_fitb. rewrite forallb_forall. split.
    - intros H a b Hin Hab. specialize (H _ Hin). cbn [fst snd] in H. apply orb_true_iff in H.
      destruct H as [H|H]; [apply Nat.ltb_lt in H; lia|]. apply negb_true_iff in H. exact H.
    - intros H [a b] Hin. cbn [fst snd]. destruct (b - a <? 2) eqn:E; [reflexivity|]. apply Nat.ltb_ge in E.
      rewrite (H a b Hin E). reflexivity.
  Qed.

  (* C04, second clause: the retained set is the recursive partition *)
  Theorem rdp_split_explained : 2 <= n -> forall red rem vis, rdp n = Some (red, rem, vis) ->
    Expl red 0 (n - 1) /\ explb n red 0 (n - 1) = true.
  Proof.
    intros Hn red rem vis H. destruct (rdp_run Hn) as (segs & vs & Heq & Hlen & HT & HC).
    unfold Rdp.rdp in H. rewrite Heq in H. inversion H; subst. clear H.
    assert (HE : Expl (breaks segs (n - 1)) 0 (n - 1)).
    { apply (tree_expl _ _ _ HT); try lia. intros x _. tauto. }
    split; [exact HE|]. apply explb_complete; [exact HE|lia].
  Qed.

  Theorem rdp_C04_code : 2 <= n -> C04_code dist segcost r2 t n (without_iters (rdp n)) = 0.
  Proof.
    intros Hn. destruct (rdp_total Hn) as (red & rem & vis & Heq & Hlen & HW & -> & Hcnt).
    pose proof (rdp_kept_fit Hn _ _ _ Heq) as HK. apply kept_fitb_iff in HK.
    destruct (rdp_split_explained Hn _ _ _ Heq) as [_ HE].
    rewrite Heq. cbn [without_iters C04_code]. apply WFb_iff in HW. rewrite HW, rows_eqb_refl, HK, HE. reflexivity.
  Qed.

  (* Tier O reading of Expl: every split index is an interior point that no interior point of its range
     exceeds (distances compared with the code's own <=) *)
  Inductive ExplMax (S : list nat) : nat -> nat -> Prop :=
  | ExplMax_keep l r :
      (forall i, In i S -> l < i < r -> False) ->
      (r - l < 2 \/ curved (segcost l (r + 1)) = false) -> ExplMax S l r
  | ExplMax_split l r i :
      2 <= r - l -> curved (segcost l (r + 1)) = true -> l < i < r -> In i S ->
      (forall j z, l < j < r -> nth (j - l) (dist l (r + 1)) z <=?! nth (i - l) (dist l (r + 1)) z = true) ->
      ExplMax S l i -> ExplMax S i r -> ExplMax S l r.

  Theorem expl_max : TotalPreorderOn (@notnan N) ->
    (forall l r, l + 3 <= r -> r <= n -> Forall notnan (interior (dist l r))) ->
    forall S l r, r + 1 <= n -> Expl S l r -> ExplMax S l r.
  Proof.
    intros HO Hnn S l r Hr H. induction H as [l r Hn Hc|l r i H2 Hc Hi Hlt Hin _ IH1 _ IH2].
    - apply ExplMax_keep; auto.
    - eapply ExplMax_split; eauto; [|apply IH1; lia].
      intros j z Hj. subst i. replace (l + split (dist l (r + 1)) - l) with (split (dist l (r + 1))) by lia.
      apply split_is_argmax; auto.
      + rewrite Hshape; lia.
      + apply Hnn; lia.
      + rewrite Hshape; lia.
  Qed.
End RdpFacts.
