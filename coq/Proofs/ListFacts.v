(* Proofs/ListFacts.v — facts about strictly increasing index lists and the integer helpers of NpList. *)
From Coq Require Import List Arith Bool Lia Permutation Sorted.
From Knee Require Import NpList.
Import ListNotations.

Fixpoint SI (l : list nat) : Prop :=
  match l with
  | a :: ((b :: _) as l') => a < b /\ SI l'
  | _ => True
  end.
Fixpoint ND (l : list nat) : Prop :=
  match l with
  | a :: ((b :: _) as l') => a <= b /\ ND l'
  | _ => True
  end.

Lemma SI_iff l : strictly_increasing l = true <-> SI l.
Proof.
  induction l as [|a [|b l'] IH]; cbn [strictly_increasing SI]; try tauto.
  rewrite andb_true_iff, Nat.ltb_lt. cbn [strictly_increasing SI] in IH. tauto.
Qed.
Lemma ND_iff l : nondecreasing l = true <-> ND l.
Proof.
  induction l as [|a [|b l'] IH]; cbn [nondecreasing ND]; try tauto.
  rewrite andb_true_iff, Nat.leb_le. cbn [nondecreasing ND] in IH. tauto.
Qed.
Lemma SI_tl a l : SI (a :: l) -> SI l.
Proof. destruct l; cbn; tauto. Qed.
Lemma ND_tl a l : ND (a :: l) -> ND l.
Proof. destruct l; cbn; tauto. Qed.
Lemma SI_ND l : SI l -> ND l.
Proof. induction l as [|a [|b l'] IH]; cbn [SI ND]; auto. intros [H1 H2]. split; [lia|apply IH; exact H2]. Qed.

Lemma SI_nth_ge l : forall k d, SI l -> k < length l -> hd d l + k <= nth k l d.
Proof.
  induction l as [|a l IH]; intros k d HS Hk; cbn in *; [lia|].
  destruct k as [|k]; [lia|].
  destruct l as [|b l']; cbn in Hk; [lia|].
  destruct HS as [Hab HS].
  specialize (IH k d HS ltac:(cbn; lia)). cbn [hd] in IH. cbn [nth]. cbn [nth] in IH. lia.
Qed.
Lemma SI_nth_lt l : forall i j d, SI l -> i < j -> j < length l -> nth i l d < nth j l d.
Proof.
  induction l as [|a l IH]; intros i j d HS Hij Hj; cbn in Hj; [lia|].
  destruct j as [|j]; [lia|]. destruct i as [|i].
  - cbn [nth]. pose proof (SI_nth_ge l j d (SI_tl _ _ HS) ltac:(lia)).
    destruct l as [|b l']; cbn in *; [lia|]. lia.
  - cbn [nth]. apply IH; [eapply SI_tl; eauto|lia|lia].
Qed.
Lemma SI_skipn l : forall k, SI l -> SI (skipn k l).
Proof. induction l as [|a l IH]; intros [|k] H; cbn [skipn]; auto. apply IH. eapply SI_tl; eauto. Qed.
Lemma SI_app_inv l1 : forall l2, SI (l1 ++ l2) -> SI l1 /\ SI l2.
Proof.
  induction l1 as [|a [|b l1] IH]; intros l2 H; cbn in *; auto.
  - split; auto. eapply SI_tl; eauto.
  - destruct H as [H1 H2]. destruct (IH l2 H2). tauto.
Qed.
Lemma SI_lt_all a l : SI (a :: l) -> Forall (fun x => a < x) l.
Proof.
  revert a; induction l as [|b l IH]; intros a H; constructor.
  - cbn in H; tauto.
  - destruct H as [Hab H]. specialize (IH b H). eapply Forall_impl; [|exact IH]. cbn; intros; lia.
Qed.
Lemma SI_cons a l : Forall (fun x => a < x) l -> SI l -> SI (a :: l).
Proof. destruct l as [|b l]; cbn; auto. intros H; inversion H; tauto. Qed.
Lemma SI_NoDup l : SI l -> NoDup l.
Proof.
  induction l as [|a l IH]; intros H; constructor.
  - pose proof (SI_lt_all a l H) as HF. rewrite Forall_forall in HF. intros Hin. specialize (HF a Hin). lia.
  - apply IH. eapply SI_tl; eauto.
Qed.

(* hd / last of a non-empty strictly increasing list bound every element *)
Lemma SI_hd_le l d x : SI l -> In x l -> hd d l <= x.
Proof.
  destruct l as [|a l]; cbn; [tauto|]. intros H [->|Hin]; [lia|].
  pose proof (SI_lt_all a l H) as HF. rewrite Forall_forall in HF. specialize (HF x Hin). lia.
Qed.
Lemma SI_le_last l : forall d x, SI l -> In x l -> x <= last l d.
Proof.
  induction l as [|a l IH]; intros d x H Hin; [destruct Hin|].
  destruct l as [|b l']. { destruct Hin as [->|[]]. cbn. lia. }
  change (last (a :: b :: l') d) with (last (b :: l') d).
  destruct Hin as [->|Hin].
  - destruct H as [Hab H]. specialize (IH d b H (or_introl eq_refl)). lia.
  - apply IH; auto. eapply SI_tl; eauto.
Qed.

(* insertion into a sorted nat list *)
Lemma insert_nat_perm x l : Permutation (x :: l) (insert_nat x l).
Proof.
  induction l as [|y l IH]; cbn; auto.
  destruct (y <=? x); auto. rewrite perm_swap. constructor. exact IH.
Qed.
Lemma insert_nat_In x l y : In y (insert_nat x l) <-> y = x \/ In y l.
Proof.
  split; intros H.
  - apply (Permutation_in _ (Permutation_sym (insert_nat_perm x l))) in H. destruct H; auto.
  - apply (Permutation_in _ (insert_nat_perm x l)). destruct H; [left|right]; auto.
Qed.
Lemma insert_nat_length x l : length (insert_nat x l) = S (length l).
Proof. symmetry. apply (Permutation_length (insert_nat_perm x l)). Qed.
Lemma insert_nat_SI x l : SI l -> ~ In x l -> SI (insert_nat x l).
Proof.
  induction l as [|y l IH]; intros HS Hn; cbn; auto.
  destruct (Nat.leb_spec y x) as [Hle|Hlt].
  - assert (y < x) by (assert (y <> x) by (intros ->; apply Hn; left; auto); lia).
    apply SI_cons.
    + rewrite Forall_forall. intros z Hz. apply insert_nat_In in Hz. destruct Hz as [->|Hz]; auto.
      pose proof (SI_lt_all y l HS) as HF. rewrite Forall_forall in HF. auto.
    + apply IH; [eapply SI_tl; eauto|]. intros Hin; apply Hn; right; auto.
  - cbn. split; auto.
Qed.
Lemma insert_nat_ND x l : ND l -> ND (insert_nat x l).
Proof.
  induction l as [|y l IH]; intros HS; cbn; auto.
  destruct (Nat.leb_spec y x) as [Hle|Hlt].
  - specialize (IH (ND_tl _ _ HS)). destruct l as [|z l]; cbn in *; [lia|].
    destruct (z <=? x); cbn; cbn in IH; intuition lia.
  - cbn. split; [lia|auto].
Qed.
Lemma sort_nat_perm_aux l : forall acc, Permutation (l ++ acc) (fold_left (fun a x => insert_nat x a) l acc).
Proof.
  induction l as [|x l IH]; intros acc; cbn; auto.
  rewrite <- IH. rewrite <- insert_nat_perm. rewrite Permutation_middle. reflexivity.
Qed.
Lemma sort_nat_perm l : Permutation l (sort_nat l).
Proof. unfold sort_nat. rewrite <- sort_nat_perm_aux. rewrite app_nil_r. reflexivity. Qed.
Lemma sort_nat_ND_aux l : forall acc, ND acc -> ND (fold_left (fun a x => insert_nat x a) l acc).
Proof. induction l as [|x l IH]; intros acc H; cbn; auto. apply IH. apply insert_nat_ND; auto. Qed.
Lemma sort_nat_ND l : ND (sort_nat l).
Proof. apply sort_nat_ND_aux. exact I. Qed.

(* a sorted duplicate-free list is determined by its elements *)
Lemma SI_perm_eq l1 : forall l2, SI l1 -> SI l2 -> Permutation l1 l2 -> l1 = l2.
Proof.
  induction l1 as [|a l1 IH]; intros l2 H1 H2 HP.
  - apply Permutation_nil in HP. auto.
  - destruct l2 as [|b l2]. { apply Permutation_sym, Permutation_nil in HP. discriminate. }
    assert (a = b).
    { assert (In a (b :: l2)) by (eapply Permutation_in; [exact HP|left; auto]).
      assert (In b (a :: l1)) by (eapply Permutation_in; [apply Permutation_sym; exact HP|left; auto]).
      pose proof (SI_hd_le (b :: l2) 0 a H2 H). pose proof (SI_hd_le (a :: l1) 0 b H1 H0). cbn in *. lia. }
    subst b. f_equal. apply IH; [eapply SI_tl; eauto|eapply SI_tl; eauto|].
    eapply Permutation_cons_inv; eauto.
Qed.
