(* Proofs/ElbowMenger.v — C03, Menger detector (Tier A, RNum): the Menger curvature is 0 on collinear
   triples and > 0 at the corner, hence menger.knee returns the corner index. *)
From Coq Require Import Reals List Arith Lia Lra Bool Psatz.
From Knee Require Import Num NumR NpList Model.Uts Model.DetectorsFormula Proofs.ElbowBase.
Import ListNotations.
Local Open Scope R_scope.

Lemma menger_collinear (x1 x2 x3 yc xc m : R) :
  @menger_curvature RNum (x1, yc + m * (x1 - xc)) (x2, yc + m * (x2 - xc)) (x3, yc + m * (x3 - xc)) = 0.
Proof.
  unfold menger_curvature, sq, two. cbn.
  replace ((x2 - x1) * (yc + m * (x3 - xc) - (yc + m * (x2 - xc))) - (yc + m * (x2 - xc) - (yc + m * (x1 - xc))) * (x3 - x2))
    with 0 by ring.
  rewrite Rabs_R0. unfold Rdiv. ring.
Qed.

Lemma sumsq_pos (a b : R) : a <> 0 -> 0 < Rabs (a * a + b * b).
Proof. intros H. apply Rabs_pos_lt. nra. Qed.

Lemma menger_corner_pos (xa xc xb yc m1 m2 : R) : xa < xc -> xc < xb -> m1 <> m2 ->
  0 < @menger_curvature RNum (xc, yc) (xa, yc + m1 * (xa - xc)) (xb, yc + m2 * (xb - xc)).
Proof.
  intros H1 H2 Hm. unfold menger_curvature, sq, two. cbn.
  apply Rdiv_lt_0_compat.
  - apply Rmult_lt_0_compat; [lra|]. apply Rabs_pos_lt.
    replace ((xa - xc) * (yc + m2 * (xb - xc) - (yc + m1 * (xa - xc))) - (yc + m1 * (xa - xc) - yc) * (xb - xa))
      with ((xa - xc) * (xb - xc) * (m2 - m1)) by ring.
    apply Rmult_integral_contrapositive_currified; [apply Rmult_integral_contrapositive_currified|]; lra.
  - apply sqrt_lt_R0.
    apply Rmult_lt_0_compat; [apply Rmult_lt_0_compat|]; apply sumsq_pos; lra.
Qed.

Section Menger.
  Variables (pts : list (R * R)) (c : nat) (m1 m2 : R).
  Hypothesis E : elbow pts c m1 m2.

  Lemma menger_array_length : @length R (@menger_array RNum pts) = length pts.
  Proof.
    pose proof (el_hi _ _ _ _ E). unfold menger_array. rnorm. cbn [length].
    rewrite app_length, win3_length. cbn [length]. lia.
  Qed.
  Lemma menger_array_mid i : (1 <= i)%nat -> (i + 1 < length pts)%nat ->
    @nth R i (@menger_array RNum pts) 0
    = @menger_curvature RNum (nth i pts (0, 0)) (nth (i - 1) pts (0, 0)) (nth (i + 1) pts (0, 0)).
  Proof.
    intros H1 H2. unfold menger_array. rnorm. destruct i as [|k]; [lia|]. cbn [nth].
    rewrite app_nth1 by (rewrite win3_length; lia).
    rewrite (win3_nth _ pts k (0, 0) 0) by lia.
    replace (S k - 1)%nat with k by lia. replace (S k + 1)%nat with (S (S k)) by lia. reflexivity.
  Qed.
  Lemma menger_array_off i : (i < length pts)%nat -> i <> c -> @nth R i (@menger_array RNum pts) 0 = 0.
  Proof.
    intros Hi Hne. pose proof (el_hi _ _ _ _ E).
    destruct (Nat.eq_dec i 0) as [->|H0]; [reflexivity|].
    destruct (Nat.eq_dec i (length pts - 1)) as [->|Hl].
    { unfold menger_array. rnorm. replace (length pts - 1)%nat with (S (length pts - 2)) by lia. cbn [nth].
      rewrite app_nth2 by (rewrite win3_length; lia). rewrite win3_length.
      replace (length pts - 2 - (length pts - 2))%nat with 0%nat by lia. reflexivity. }
    rewrite menger_array_mid by lia. rewrite !nth_pt.
    destruct (Nat.lt_ge_cases i c) as [Hlt|Hge].
    - rewrite (el_left _ _ _ _ E (i - 1)), (el_left _ _ _ _ E i), (el_left _ _ _ _ E (i + 1)) by lia.
      apply menger_collinear.
    - rewrite (el_right _ _ _ _ E (i - 1)), (el_right _ _ _ _ E i), (el_right _ _ _ _ E (i + 1)) by lia.
      apply menger_collinear.
  Qed.
  Lemma menger_array_corner : 0 < @nth R c (@menger_array RNum pts) 0.
  Proof.
    pose proof (el_lo _ _ _ _ E). pose proof (el_hi _ _ _ _ E).
    rewrite menger_array_mid by lia. rewrite !nth_pt.
    rewrite (el_left _ _ _ _ E (c - 1)), (el_right _ _ _ _ E (c + 1)) by lia.
    apply menger_corner_pos; [apply (el_x_lt _ _ _ _ E); lia|apply (el_x_lt _ _ _ _ E); lia|apply (el_slopes _ _ _ _ E)].
  Qed.
End Menger.

(* menger.knee returns the corner of every exact two-slope elbow *)
Theorem menger_elbow (pts : list (R * R)) (c : nat) (m1 m2 : R) :
  elbow pts c m1 m2 -> @menger_knee RNum pts = c.
Proof.
  intros E. pose proof (el_hi _ _ _ _ E). unfold menger_knee.
  apply argmax_R_unique.
  - rewrite (menger_array_length pts c m1 m2 E). lia.
  - intros j Hj Hne. rewrite (menger_array_length pts c m1 m2 E) in Hj.
    rewrite (menger_array_off pts c m1 m2 E j Hj Hne). apply (menger_array_corner pts c m1 m2 E).
Qed.
