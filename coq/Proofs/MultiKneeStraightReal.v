(* Proofs/MultiKneeStraightReal.v — C02, Tier A (real arithmetic): an exactly straight curve has end-point-line
   SMAPE 0 — for whatever offset and span its abscissae have, as long as the two end abscissae differ — and
   therefore multi-knee detection returns no knee for every t1 > 0, every detector, every t2. *)
From Coq Require Import Reals List Arith Bool Lia Lra.
From Knee Require Import Num NumR NpList Model.Metrics Model.LinearFit Model.MultiKnee Model.MultiKneeStraight
                         Proofs.MetricsFacts Proofs.LinearFitFacts Proofs.MultiKneeFacts Proofs.MultiKneeStraightFacts.
Import ListNotations.
Local Open Scope R_scope.

Definition on_line (b m : R) (P : list (R * R)) : Prop := forall p, In p P -> snd p = m * fst p + b.

Lemma on_line_hd b m P : P <> [] -> on_line b m P -> hd 0 (map snd P) = m * hd 0 (map fst P) + b.
Proof. destruct P as [|p P]; [contradiction|]. intros _ H. cbn. apply H. left. reflexivity. Qed.
Lemma last_map_pair {A} (f : A -> R) (P : list A) d : P <> [] -> last (map f P) 0 = f (last P d).
Proof.
  induction P as [|a [|a' P] IH]; intros H; [contradiction|reflexivity|].
  change (last (map f (a' :: P)) 0 = f (last (a' :: P) d)). apply IH. discriminate.
Qed.
Lemma last_In {A} (P : list A) d : P <> [] -> In (last P d) P.
Proof.
  induction P as [|a [|a' P] IH]; intros H; [contradiction|left; reflexivity|].
  right. apply IH. discriminate.
Qed.
Lemma on_line_last b m P : P <> [] -> on_line b m P -> last (map snd P) 0 = m * last (map fst P) 0 + b.
Proof.
  intros Hne H. rewrite (last_map_pair snd P (0, 0) Hne), (last_map_pair fst P (0, 0) Hne).
  apply H. apply last_In. exact Hne.
Qed.

(* the end-point fit of a straight curve is that line, its fitted values are the ordinates, its SMAPE is 0 *)
Theorem straight_line_fit b m (P : list (R * R)) :
  P <> [] -> hd 0 (map fst P) <> last (map fst P) 0 -> on_line b m P ->
  @linear_fit_points RNum P = (b, m).
Proof.
  intros Hne Hd H. unfold linear_fit_points, linear_fit, xs, ys. cbn [T zero RNum eqb sub div mul].
  rewrite (on_line_hd b m P Hne H), (on_line_last b m P Hne H).
  set (x0 := hd 0 (map fst P)) in *. set (xn := last (map fst P) 0) in *.
  unfold Reqb. destruct (Req_EM_T (x0 - xn) 0) as [E|E]; [exfalso; lra|].
  f_equal; field; lra.
Qed.
Theorem straight_line_smape b m eps (P : list (R * R)) :
  P <> [] -> hd 0 (map fst P) <> last (map fst P) 0 -> on_line b m P ->
  @smape_points RNum P (@linear_fit_points RNum P) eps = 0.
Proof.
  intros Hne Hd H. rewrite (straight_line_fit b m P Hne Hd H).
  unfold smape_points, lf_smape, xs, ys. rewrite linear_transform_R. unfold line.
  assert (E : map (fun xi : R => m * xi + b) (map fst P) = map snd P).
  { rewrite map_map. apply map_ext_in. intros p Hp. symmetry. apply H. exact Hp. }
  transitivity (@smape RNum (map snd P) (map snd P) eps); [f_equal; exact E|apply smape_zero].
Qed.

(* no knees on a straight line: every single-knee oracle answering inside its slices (any detector), every t2,
   every t1 > 0, every eps; SMAPE costs (every bundled <detector>.multi_knee) *)
Theorem mk_straight_line_empty b m eps (P : list (R * R)) cost knee1 (t1 : R) t2 lo :
  cost <> MkR2 -> (2 < length P)%nat -> hd 0 (map fst P) <> last (map fst P) 0 -> on_line b m P -> 0 < t1 ->
  knee_in_range knee1 t2 lo (length P) ->
  mk_knees (@multi_knee_pts RNum eps P cost knee1 t1 t2) = Some [].
Proof.
  intros Hc Hn Hd H Ht HK. apply (mk_empty_smape_pts eps cost P knee1 t1 t2 lo HK Hc Hn).
  assert (Hne : P <> []) by (destruct P; [cbn in Hn; lia|discriminate]).
  rewrite (straight_line_smape b m eps P Hne Hd H). cbn [leb RNum]. apply Rleb_false. exact Ht.
Qed.
