(* Proofs/ElbowBase.v — shared facts for the C03 elbow theorems (Tier A, RNum):
   windows, interior, unique arg-max / arg-min on reals, sums, the elbow hypothesis and its consequences. *)
From Coq Require Import Reals List Arith Lia Lra Bool Psatz.
From Knee Require Import Num NumR NpList Model.Uts Model.DetectorsFormula.
Import ListNotations.
Local Open Scope R_scope.

(* ------------------------------------------------------------------ windows, interior *)
Lemma win3_length {A B} (f : A -> A -> A -> B) l : length (win3 f l) = (length l - 2)%nat.
Proof.
  induction l as [|a l IH]; [reflexivity|].
  destruct l as [|b [|c l]]; try reflexivity.
  change (win3 f (a :: b :: c :: l)) with (f a b c :: win3 f (b :: c :: l)).
  cbn [length] in *. rewrite IH. lia.
Qed.
Lemma win3_nth {A B} (f : A -> A -> A -> B) l : forall i da db, (i + 2 < length l)%nat ->
  nth i (win3 f l) db = f (nth i l da) (nth (S i) l da) (nth (S (S i)) l da).
Proof.
  induction l as [|a l IH]; intros i da db Hi; [cbn in Hi; lia|].
  destruct l as [|b [|c l]]; try (cbn in Hi; lia).
  change (win3 f (a :: b :: c :: l)) with (f a b c :: win3 f (b :: c :: l)).
  destruct i as [|i]; [reflexivity|].
  cbn [nth]. rewrite (IH i da db); [reflexivity|cbn [length] in *; lia].
Qed.

Lemma nth_firstn_lt {A} (l : list A) : forall k i d, (i < k)%nat -> nth i (firstn k l) d = nth i l d.
Proof.
  induction l as [|a l IH]; intros k i d H; [destruct k; reflexivity|].
  destruct k as [|k]; [lia|]. destruct i as [|i]; [reflexivity|]. cbn [firstn nth]. apply IH. lia.
Qed.
Lemma nth_skipn_add {A} (l : list A) : forall k i d, nth i (skipn k l) d = nth (k + i) l d.
Proof.
  induction l as [|a l IH]; intros k i d; [destruct k, i; reflexivity|].
  destruct k as [|k]; [reflexivity|]. cbn [skipn Nat.add nth]. apply IH.
Qed.
Lemma interior_length {A} (l : list A) : length (interior l) = (length l - 2)%nat.
Proof.
  unfold interior. destruct l as [|a l]; [reflexivity|]. cbn [tl].
  destruct l as [|b l]; [reflexivity|].
  rewrite removelast_firstn_len, firstn_length. cbn [length]. lia.
Qed.
Lemma interior_nth {A} (l : list A) i d : (i + 2 < length l)%nat -> nth i (interior l) d = nth (S i) l d.
Proof.
  intros Hi. unfold interior. destruct l as [|a l]; [cbn in Hi; lia|]. cbn [tl nth].
  rewrite removelast_firstn_len. cbn [length] in Hi.
  apply nth_firstn_lt. lia.
Qed.

Lemma nth_map_combine {A B C} (f : A * B -> C) l1 l2 i da db dc :
  (i < length l1)%nat -> (i < length l2)%nat ->
  nth i (map f (combine l1 l2)) dc = f (nth i l1 da, nth i l2 db).
Proof.
  revert l2 i. induction l1 as [|a l1 IH]; intros l2 i H1 H2; [cbn in H1; lia|].
  destruct l2 as [|b l2]; [cbn in H2; lia|].
  destruct i as [|i]; [reflexivity|]. cbn [combine map nth]. apply IH; cbn in *; lia.
Qed.

(* ------------------------------------------------------------------ arg-max / arg-min on reals *)
Lemma argmax_go_le (l : list R) : forall i best bi,
  (forall j, (j < length l)%nat -> nth j l 0 <= best) -> @argmax_go RNum l i best bi = bi.
Proof.
  induction l as [|x l IH]; intros i best bi H; [reflexivity|].
  cbn [argmax_go isnan RNum leb].
  assert (Hx : x <= best) by (apply (H 0%nat); cbn; lia).
  apply Rleb_true in Hx. rewrite Hx. cbn [negb].
  apply IH. intros j Hj. apply (H (S j)). cbn; lia.
Qed.
Lemma argmax_go_max (l : list R) : forall i best bi k,
  (k < length l)%nat -> best < nth k l 0 ->
  (forall j, (j < length l)%nat -> j <> k -> nth j l 0 < nth k l 0) ->
  @argmax_go RNum l i best bi = (i + k)%nat.
Proof.
  induction l as [|x l IH]; intros i best bi k Hk Hb H; [cbn in Hk; lia|].
  cbn [argmax_go isnan RNum leb].
  destruct k as [|k].
  - cbn [nth] in *. assert (Hx : Rleb x best = false) by (apply Rleb_false; lra).
    rewrite Hx. cbn [negb]. rewrite argmax_go_le; [lia|].
    intros j Hj. left. apply (H (S j)); [cbn; lia|lia].
  - cbn [nth] in Hb. assert (Hxm : x < nth k l 0) by (apply (H 0%nat); [cbn; lia|lia]).
    assert (Hrec : forall j, (j < length l)%nat -> j <> k -> nth j l 0 < nth k l 0).
    { intros j Hj Hne. apply (H (S j)); [cbn; lia|lia]. }
    destruct (Rleb x best) eqn:Hx; cbn [negb].
    + rewrite (IH (S i) best bi k); [lia|cbn in Hk; lia|exact Hb|exact Hrec].
    + rewrite (IH (S i) x i k); [lia|cbn in Hk; lia|exact Hxm|exact Hrec].
Qed.
(* a strict maximum at position c is what np.argmax returns *)
Lemma argmax_R_unique (l : list R) c : (c < length l)%nat ->
  (forall j, (j < length l)%nat -> j <> c -> nth j l 0 < nth c l 0) -> @argmax RNum l = c.
Proof.
  intros Hc H. destruct l as [|x l]; [cbn in Hc; lia|]. unfold argmax.
  destruct c as [|c].
  - apply argmax_go_le. intros j Hj. left. apply (H (S j)); [cbn; lia|lia].
  - rewrite (argmax_go_max l 1 x 0 c); [lia|cbn in Hc; lia| |].
    + apply (H 0%nat); [cbn; lia|lia].
    + intros j Hj Hne. apply (H (S j)); [cbn; lia|lia].
Qed.

Lemma argmin_go_ge (l : list R) : forall i best bi,
  (forall j, (j < length l)%nat -> best <= nth j l 0) -> @argmin_go RNum l i best bi = bi.
Proof.
  induction l as [|x l IH]; intros i best bi H; [reflexivity|].
  cbn [argmin_go isnan RNum leb].
  assert (Hx : best <= x) by (apply (H 0%nat); cbn; lia).
  apply Rleb_true in Hx. rewrite Hx. cbn [negb].
  apply IH. intros j Hj. apply (H (S j)). cbn; lia.
Qed.
Lemma argmin_go_min (l : list R) : forall i best bi k,
  (k < length l)%nat -> nth k l 0 < best ->
  (forall j, (j < length l)%nat -> j <> k -> nth k l 0 < nth j l 0) ->
  @argmin_go RNum l i best bi = (i + k)%nat.
Proof.
  induction l as [|x l IH]; intros i best bi k Hk Hb H; [cbn in Hk; lia|].
  cbn [argmin_go isnan RNum leb].
  destruct k as [|k].
  - cbn [nth] in *. assert (Hx : Rleb best x = false) by (apply Rleb_false; lra).
    rewrite Hx. cbn [negb]. rewrite argmin_go_ge; [lia|].
    intros j Hj. left. apply (H (S j)); [cbn; lia|lia].
  - cbn [nth] in Hb. assert (Hxm : nth k l 0 < x) by (apply (H 0%nat); [cbn; lia|lia]).
    assert (Hrec : forall j, (j < length l)%nat -> j <> k -> nth k l 0 < nth j l 0).
    { intros j Hj Hne. apply (H (S j)); [cbn; lia|lia]. }
    destruct (Rleb best x) eqn:Hx; cbn [negb].
    + rewrite (IH (S i) best bi k); [lia|cbn in Hk; lia|exact Hb|exact Hrec].
    + rewrite (IH (S i) x i k); [lia|cbn in Hk; lia|exact Hxm|exact Hrec].
Qed.
Lemma argmin_R_unique (l : list R) c : (c < length l)%nat ->
  (forall j, (j < length l)%nat -> j <> c -> nth c l 0 < nth j l 0) -> @argmin RNum l = c.
Proof.
  intros Hc H. destruct l as [|x l]; [cbn in Hc; lia|]. unfold argmin.
  destruct c as [|c].
  - apply argmin_go_ge. intros j Hj. left. apply (H (S j)); [cbn; lia|lia].
  - rewrite (argmin_go_min l 1 x 0 c); [lia|cbn in Hc; lia| |].
    + apply (H 0%nat); [cbn; lia|lia].
    + intros j Hj Hne. apply (H (S j)); [cbn; lia|lia].
Qed.

(* ------------------------------------------------------------------ the elbow *)
Notation rpt := (R * R)%type (only parsing).
(* make the carrier-level types of the generic model syntactically those of the statements *)
Ltac rnorm := unfold pt, pzero in *; cbn [T zero RNum] in *.
Definition PX (pts : list rpt) (i : nat) : R := fst (nth i pts (0, 0)).
Definition PY (pts : list rpt) (i : nat) : R := snd (nth i pts (0, 0)).

(* x_0 < ... < x_{n-1};  y_i = y_c + m1 (x_i - x_c) for i <= c,  y_c + m2 (x_i - x_c) for i >= c;
   m1 <> m2;  3 <= c <= n - 4  *)
Record elbow (pts : list rpt) (c : nat) (m1 m2 : R) : Prop := {
  el_lo : (3 <= c)%nat;
  el_hi : (c + 4 <= length pts)%nat;
  el_x : forall i, (S i < length pts)%nat -> PX pts i < PX pts (S i);
  el_left : forall i, (i <= c)%nat -> PY pts i = PY pts c + m1 * (PX pts i - PX pts c);
  el_right : forall i, (c <= i < length pts)%nat -> PY pts i = PY pts c + m2 * (PX pts i - PX pts c);
  el_slopes : m1 <> m2
}.

Lemma incr_lt (pts : list rpt) :
  (forall i, (S i < length pts)%nat -> PX pts i < PX pts (S i)) ->
  forall i j, (i < j)%nat -> (j < length pts)%nat -> PX pts i < PX pts j.
Proof.
  intros H i j Hij. induction Hij as [|j Hij IH]; intros Hj.
  - apply H; exact Hj.
  - apply Rlt_trans with (PX pts j); [apply IH; lia|apply H; exact Hj].
Qed.
Lemma el_x_lt pts c m1 m2 : elbow pts c m1 m2 ->
  forall i j, (i < j)%nat -> (j < length pts)%nat -> PX pts i < PX pts j.
Proof. intros E. apply incr_lt. apply (el_x _ _ _ _ E). Qed.

Lemma nth_pt (pts : list rpt) i : nth i pts (0, 0) = (PX pts i, PY pts i).
Proof. unfold PX, PY. destruct (nth i pts (0, 0)); reflexivity. Qed.

(* ------------------------------------------------------------------ shape of cfd / csd *)
Lemma cfd_length (pts : list rpt) : (3 <= length pts)%nat -> length (@cfd RNum pts) = length pts.
Proof.
  intros H. unfold cfd. rnorm. destruct (Nat.ltb_spec (length pts) 3); [lia|].
  cbn [length]. rewrite app_length, win3_length. cbn [length]. lia.
Qed.
Lemma cfd_nth_mid (pts : list rpt) i : (1 <= i)%nat -> (i + 1 < length pts)%nat ->
  nth i (@cfd RNum pts) 0 = @d1_central RNum (nth (i - 1) pts (0, 0)) (nth i pts (0, 0)) (nth (i + 1) pts (0, 0)).
Proof.
  intros H1 H2. unfold cfd. rnorm. destruct (Nat.ltb_spec (length pts) 3); [lia|].
  destruct i as [|k]; [lia|]. cbn [nth].
  rewrite app_nth1 by (rewrite win3_length; lia).
  rewrite (win3_nth _ pts k (0, 0) 0) by lia.
  replace (S k - 1)%nat with k by lia. replace (S k + 1)%nat with (S (S k)) by lia. reflexivity.
Qed.
Lemma cfd_nth_first (pts : list rpt) : (3 <= length pts)%nat ->
  nth 0 (@cfd RNum pts) 0 =
  @lagrange_derivative RNum (PX pts 0) (PX pts 0) (PX pts 1) (PX pts 2) (PY pts 0) (PY pts 1) (PY pts 2).
Proof. intros H. unfold cfd. rnorm. destruct (Nat.ltb_spec (length pts) 3); [lia|]. reflexivity. Qed.
Lemma cfd_nth_last (pts : list rpt) : (3 <= length pts)%nat ->
  let n := length pts in
  nth (n - 1) (@cfd RNum pts) 0 =
  @lagrange_derivative RNum (PX pts (n - 1)) (PX pts (n - 3)) (PX pts (n - 2)) (PX pts (n - 1))
                            (PY pts (n - 3)) (PY pts (n - 2)) (PY pts (n - 1)).
Proof.
  intros H n. unfold cfd. rnorm. fold n. destruct (Nat.ltb_spec n 3); [lia|].
  replace (n - 1)%nat with (S (n - 2)) at 1 by lia. cbn [nth].
  rewrite app_nth2 by (rewrite win3_length; fold n; lia).
  rewrite win3_length. fold n. replace (n - 2 - (n - 2))%nat with 0%nat by lia. reflexivity.
Qed.

Lemma csd_length (pts : list rpt) : (3 <= length pts)%nat -> length (@csd RNum pts) = length pts.
Proof.
  intros H. unfold csd. rnorm.
  destruct (win3 _ pts) as [|a d2] eqn:E; apply (f_equal (@length _)) in E; rewrite win3_length in E;
    cbn [length] in *; [lia|].
  rewrite app_length. cbn [length]. lia.
Qed.
Lemma csd_nth_mid (pts : list rpt) i : (1 <= i)%nat -> (i + 1 < length pts)%nat ->
  nth i (@csd RNum pts) 0 = @d2_central RNum (nth (i - 1) pts (0, 0)) (nth i pts (0, 0)) (nth (i + 1) pts (0, 0)).
Proof.
  intros H1 H2. unfold csd. rnorm.
  destruct (win3 _ pts) as [|a d2] eqn:E.
  - apply (f_equal (@length _)) in E; rewrite win3_length in E. cbn [length] in E. lia.
  - rewrite <- E. destruct i as [|k]; [lia|]. cbn [nth].
    rewrite app_nth1 by (rewrite win3_length; lia).
    rewrite (win3_nth _ pts k (0, 0) 0) by lia.
    replace (S k - 1)%nat with k by lia. replace (S k + 1)%nat with (S (S k)) by lia. reflexivity.
Qed.

(* non-vacuity of the hypothesis over the reals: a concrete 8-point elbow, corner at index 3 *)
Definition elbow_example : list (R * R) :=
  [(0, 11); (1, 9); (3, 5); (4, 3); (6, 5 / 2); (7, 9 / 4); (9, 7 / 4); (10, 3 / 2)].
Lemma elbow_example_ok : elbow elbow_example 3 (-2) (-1 / 4).
Proof.
  constructor; unfold elbow_example; cbn [length]; try lia; try lra.
  - intros i Hi. do 7 (destruct i as [|i]; [unfold PX; cbn; lra|]). lia.
  - intros i Hi. do 4 (destruct i as [|i]; [unfold PX, PY; cbn; lra|]). lia.
  - intros i Hi. do 3 (destruct i as [|i]; [lia|]). do 5 (destruct i as [|i]; [unfold PX, PY; cbn; lra|]). lia.
Qed.

(* ------------------------------------------------------------------ sums over the reals *)
Lemma Rsum_map_ext_in {A} (f g : A -> R) l : (forall p, In p l -> f p = g p) -> Rsum (map f l) = Rsum (map g l).
Proof.
  induction l as [|a l IH]; intros H; [reflexivity|]. cbn [map Rsum].
  rewrite (H a) by (left; reflexivity). rewrite IH; [reflexivity|]. intros p Hp. apply H. right. exact Hp.
Qed.
Lemma Rsum_map_scal {A} (k : R) (f : A -> R) l : Rsum (map (fun p => k * f p) l) = k * Rsum (map f l).
Proof. induction l as [|a l IH]; cbn [map Rsum]; [ring|rewrite IH; ring]. Qed.
Lemma Rsum_map_affine {A} (a k : R) (f : A -> R) l :
  Rsum (map (fun p => a + k * f p) l) = INR (length l) * a + k * Rsum (map f l).
Proof.
  induction l as [|x l IH]; [cbn; ring|]. cbn [map Rsum]. rewrite IH.
  change (length (x :: l)) with (S (length l)). rewrite S_INR. ring.
Qed.
Lemma Rsum_map_zero {A} (f : A -> R) l : (forall p, In p l -> f p = 0) -> Rsum (map f l) = 0.
Proof.
  induction l as [|a l IH]; intros H; [reflexivity|]. cbn [map Rsum].
  rewrite (H a) by (left; reflexivity). rewrite IH; [ring|]. intros p Hp. apply H. right. exact Hp.
Qed.
Lemma Rsum_sq_nonneg {A} (f : A -> R) l : 0 <= Rsum (map (fun p => f p * f p) l).
Proof. induction l as [|a l IH]; cbn [map Rsum]; [lra|nra]. Qed.
Lemma Rsum_sq_pos {A} (f : A -> R) l p : In p l -> f p <> 0 -> 0 < Rsum (map (fun p => f p * f p) l).
Proof.
  induction l as [|a l IH]; intros Hin Hne; [destruct Hin|]. cbn [map Rsum].
  pose proof (Rsum_sq_nonneg f l). destruct Hin as [->|Hin].
  - assert (0 < f p * f p) by nra. lra.
  - specialize (IH Hin Hne). nra.
Qed.

(* ------------------------------------------------------------------ slices of a curve *)
Lemma firstn_In_nth {A} (l : list A) i k d : (i <= k)%nat -> (k < length l)%nat -> In (nth i l d) (firstn (S k) l).
Proof.
  intros H1 H2. rewrite <- (nth_firstn_lt l (S k) i d) by lia.
  apply nth_In. rewrite firstn_length. lia.
Qed.
Lemma skipn_In_nth {A} (l : list A) i k d : (k <= i)%nat -> (i < length l)%nat -> In (nth i l d) (skipn k l).
Proof.
  intros H1 H2. replace i with (k + (i - k))%nat by lia. rewrite <- nth_skipn_add.
  apply nth_In. rewrite skipn_length. lia.
Qed.
Lemma In_firstn_nth {A} (l : list A) k d p : In p (firstn (S k) l) -> exists i, (i <= k)%nat /\ (i < length l)%nat /\ p = nth i l d.
Proof.
  intros H. destruct (In_nth _ _ d H) as [i [Hi Hp]]. rewrite firstn_length in Hi.
  exists i. repeat split; [lia|lia|]. rewrite <- Hp. apply nth_firstn_lt. lia.
Qed.
Lemma In_skipn_nth {A} (l : list A) k d p : In p (skipn k l) -> exists i, (k <= i)%nat /\ (i < length l)%nat /\ p = nth i l d.
Proof.
  intros H. destruct (In_nth _ _ d H) as [i [Hi Hp]]. rewrite skipn_length in Hi.
  exists (k + i)%nat. repeat split; [lia|lia|]. rewrite <- Hp. apply nth_skipn_add.
Qed.
Lemma hd_nth0 {A} (l : list A) d : hd d l = nth 0 l d.
Proof. destruct l; reflexivity. Qed.
Lemma last_nth {A} (l : list A) d : last l d = nth (length l - 1) l d.
Proof.
  induction l as [|a l IH]; [reflexivity|]. destruct l as [|b l]; [reflexivity|].
  change (last (a :: b :: l) d) with (last (b :: l) d). rewrite IH. cbn [length].
  replace (S (S (length l)) - 1)%nat with (S (S (length l) - 1)) by lia. reflexivity.
Qed.
